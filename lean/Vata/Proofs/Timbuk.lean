import Vata.Timbuk
/-!
# Round trip of the Timbuk serializer and parser (property C13)

`parse_serialize`: parsing the serialization of a well-formed description succeeds and gives back the same final
states and transitions (indeed the same symbols and states, and the name unless it was empty).
Layers: characters and `trim` → `read_word` and the word loop → numbers → colonned tokens → `std::set` insertion →
a transition line → the header lines → the split into lines → the whole.
-/
namespace Vata.Timbuk
open Vata.T (splitDelim splitDelim_append_nodelim splitDelim_nodelim)

/-! ## whitespace, `trim` -/

def NoWs (s : Str) : Prop := ∀ c ∈ s, isSpace c = false
def AllWs (s : Str) : Prop := ∀ c ∈ s, isSpace c = true
/-- the first character (if any) is not white -/
def HeadOk (s : Str) : Prop := ∀ c, s.head? = some c → isSpace c = false
/-- the last character (if any) is not white -/
def LastOk (s : Str) : Prop := ∀ c, s.getLast? = some c → isSpace c = false

theorem NoWs.headOk {s : Str} (h : NoWs s) : HeadOk s := by
  intro c hc
  cases s with
  | nil => simp at hc
  | cons a r => simp at hc; subst hc; exact h _ List.mem_cons_self

theorem NoWs.lastOk {s : Str} (h : NoWs s) : LastOk s := by
  intro c hc
  exact h c (List.mem_of_getLast? hc)

theorem headOk_append {a b : Str} (ha : a ≠ []) (h : HeadOk a) : HeadOk (a ++ b) := by
  intro c hc
  cases a with
  | nil => exact absurd rfl ha
  | cons x r => exact h c (by simpa using hc)

theorem lastOk_append {a b : Str} (hb : b ≠ []) (h : LastOk b) : LastOk (a ++ b) := by
  intro c hc
  rw [List.getLast?_append] at hc
  cases hb' : b.getLast? with
  | none => simp at hb'; exact absurd hb' hb
  | some x => rw [hb'] at hc; simp at hc; subst hc; exact h _ hb'

theorem dropWhile_all {α : Type} {p : α → Bool} {l : List α} (h : ∀ a ∈ l, p a = true) : l.dropWhile p = [] := by
  induction l with
  | nil => rfl
  | cons a r ih =>
    rw [List.dropWhile_cons_of_pos (h a List.mem_cons_self)]
    exact ih (fun x hx => h x (List.mem_cons_of_mem _ hx))

theorem takeWhile_all {α : Type} {p : α → Bool} {l : List α} (h : ∀ a ∈ l, p a = true) : l.takeWhile p = l := by
  induction l with
  | nil => rfl
  | cons a r ih =>
    rw [List.takeWhile_cons_of_pos (h a List.mem_cons_self), ih (fun x hx => h x (List.mem_cons_of_mem _ hx))]

theorem dropWhile_headNeg {α : Type} {p : α → Bool} {l : List α} (h : ∀ a, l.head? = some a → p a = false) :
    l.dropWhile p = l := by
  cases l with
  | nil => rfl
  | cons a r => exact List.dropWhile_cons_of_neg (by simp [h a rfl])

theorem takeWhile_headNeg {α : Type} {p : α → Bool} {l : List α} (h : ∀ a, l.head? = some a → p a = false) :
    l.takeWhile p = [] := by
  cases l with
  | nil => rfl
  | cons a r => exact List.takeWhile_cons_of_neg (by simp [h a rfl])

theorem trimL_headOk {s : Str} (h : HeadOk s) : trimL s = s := dropWhile_headNeg h

theorem trimR_lastOk {s : Str} (h : LastOk s) : trimR s = s := by
  unfold trimR
  rw [dropWhile_headNeg (l := s.reverse) (by intro a ha; rw [List.head?_reverse] at ha; exact h a ha)]
  exact List.reverse_reverse s

theorem trimL_pad {pre : Str} (s : Str) (h : AllWs pre) : trimL (pre ++ s) = trimL s :=
  List.dropWhile_append_of_pos h

theorem trimR_pad (s : Str) {post : Str} (h : AllWs post) : trimR (s ++ post) = trimR s := by
  unfold trimR
  rw [List.reverse_append, List.dropWhile_append_of_pos (fun a ha => h a (List.mem_reverse.mp ha))]

/-- white padding around a core that starts and ends with non-white characters is what `trim` removes -/
theorem trim_pad {pre post : Str} (core : Str) (hpre : AllWs pre) (hpost : AllWs post)
    (hh : HeadOk core) (hl : LastOk core) : trim (pre ++ core ++ post) = core := by
  unfold trim
  rw [List.append_assoc, trimL_pad _ hpre]
  cases core with
  | nil =>
    have : trimL ([] ++ post) = [] := dropWhile_all hpost
    rw [this]; rfl
  | cons c r =>
    rw [trimL_headOk (headOk_append (by simp) hh), trimR_pad _ hpost, trimR_lastOk hl]

theorem trim_tight {s : Str} (hh : HeadOk s) (hl : LastOk s) : trim s = s := by
  have := trim_pad (pre := []) (post := []) s (by intro c hc; cases hc) (by intro c hc; cases hc) hh hl
  simpa using this

theorem trim_noWs {s : Str} (h : NoWs s) : trim s = s := trim_tight h.headOk h.lastOk

theorem allWs_space : AllWs [' '] := by intro c hc; simp at hc; subst hc; decide

theorem trim_space_cons {s : Str} (hh : HeadOk s) (hl : LastOk s) : trim (' ' :: s) = s := by
  have := trim_pad (pre := [' ']) (post := []) s allWs_space (by intro c hc; cases hc) hh hl
  simpa using this

theorem trim_snoc_space {s : Str} (hh : HeadOk s) (hl : LastOk s) : trim (s ++ [' ']) = s := by
  have := trim_pad (pre := []) (post := [' ']) s (by intro c hc; cases hc) allWs_space hh hl
  simpa using this

theorem containsWs_noWs {s : Str} (h : NoWs s) : containsWs s = false := by
  unfold containsWs
  rw [List.any_eq_false]
  intro x hx; simp [h x hx]

/-! ## `read_word` and the word loop -/

/-- a word: non-empty, no whitespace -/
def Word (w : Str) : Prop := w ≠ [] ∧ NoWs w

/-- `rest` is empty or starts with a white character -/
def HeadWs (s : Str) : Prop := ∀ c, s.head? = some c → isSpace c = true

theorem readWord_append {w rest : Str} (hw : NoWs w) (hr : HeadWs rest) : readWord (w ++ rest) = (w, trim rest) := by
  unfold readWord
  have hp : ∀ a ∈ w, (fun c => !isSpace c) a = true := by intro a ha; simp [hw a ha]
  have hn : ∀ a, rest.head? = some a → (fun c => !isSpace c) a = false := by intro a ha; simp [hr a ha]
  rw [List.takeWhile_append_of_pos hp, List.dropWhile_append_of_pos hp, takeWhile_headNeg hn, dropWhile_headNeg hn,
    List.append_nil]

theorem readWord_word {w : Str} (hw : NoWs w) : readWord w = (w, []) := by
  have := readWord_append (rest := []) hw (by intro c hc; simp at hc)
  simpa [trim, trimL, trimR] using this

/-- words separated by single spaces (`= Vata.T.joinWith ' '`) -/
def joinSp : List Str → Str
  | [] => []
  | [w] => w
  | w :: w' :: ws => w ++ ' ' :: joinSp (w' :: ws)

theorem joinSp_ne_nil {w : Str} {ws : List Str} (hw : w ≠ []) : joinSp (w :: ws) ≠ [] := by
  cases ws with
  | nil => exact hw
  | cons w' ws => simp [joinSp, hw]

theorem joinSp_headOk : ∀ {ws : List Str}, (∀ w ∈ ws, Word w) → HeadOk (joinSp ws)
  | [], _ => by intro c hc; simp [joinSp] at hc
  | [w], h => (h w List.mem_cons_self).2.headOk
  | w :: w' :: ws, h => by
    have hw := h w List.mem_cons_self
    exact headOk_append hw.1 hw.2.headOk

theorem joinSp_lastOk : ∀ {ws : List Str}, (∀ w ∈ ws, Word w) → LastOk (joinSp ws)
  | [], _ => by intro c hc; simp [joinSp] at hc
  | [w], h => (h w List.mem_cons_self).2.lastOk
  | w :: w' :: ws, h => by
    have ih := joinSp_lastOk (ws := w' :: ws) (fun x hx => h x (List.mem_cons_of_mem _ hx))
    have hne : joinSp (w' :: ws) ≠ [] := joinSp_ne_nil (h w' (by simp)).1
    show LastOk (w ++ ' ' :: joinSp (w' :: ws))
    have : w ++ ' ' :: joinSp (w' :: ws) = (w ++ [' ']) ++ joinSp (w' :: ws) := by simp
    rw [this]
    exact lastOk_append hne ih

theorem readWord_joinSp {w : Str} {ws : List Str} (hw : Word w) (hws : ∀ x ∈ ws, Word x) :
    readWord (joinSp (w :: ws)) = (w, joinSp ws) := by
  cases ws with
  | nil => exact readWord_word hw.2
  | cons w' ws =>
    show readWord (w ++ ' ' :: joinSp (w' :: ws)) = _
    rw [readWord_append hw.2 (by intro c hc; simp at hc; subst hc; decide),
      trim_space_cons (joinSp_headOk hws) (joinSp_lastOk hws)]

theorem readWords_ne {s : Str} (h : s ≠ []) : readWords s = (readWord s).1 :: readWords (readWord s).2 := by
  cases s with
  | nil => exact absurd rfl h
  | cons c r => rw [readWords]

theorem readWords_joinSp : ∀ {ws : List Str}, (∀ x ∈ ws, Word x) → readWords (joinSp ws) = ws
  | [], _ => by simp [joinSp, readWords]
  | w :: ws, h => by
    have hw := h w List.mem_cons_self
    have hws : ∀ x ∈ ws, Word x := fun x hx => h x (List.mem_cons_of_mem _ hx)
    rw [readWords_ne (joinSp_ne_nil hw.1), readWord_joinSp hw hws]
    simp only
    rw [readWords_joinSp hws]

/-- what the serializer writes for a section (`kw` then every word followed by a space) -/
theorem section_eq_joinSp (kw : Str) (ws : List Str) :
    kw ++ ' ' :: (ws.map serState).flatten = joinSp (kw :: ws) ++ [' '] := by
  induction ws generalizing kw with
  | nil => simp [joinSp]
  | cons w ws ih =>
    have : (List.map serState (w :: ws)).flatten = w ++ ' ' :: (ws.map serState).flatten := by
      simp [serState]
    rw [this, ih w]
    simp [joinSp]

theorem trim_section {ws : List Str} (h : ∀ x ∈ ws, Word x) : trim (joinSp ws ++ [' ']) = joinSp ws :=
  trim_snoc_space (joinSp_headOk h) (joinSp_lastOk h)

/-! ## numbers: `ToString(int)` then `FromString<int>` -/

theorem digitChar_toNat : ∀ n, n < 10 → (digitChar n).toNat = '0'.toNat + n := by decide

theorem digitChar_isDigit : ∀ n, n < 10 → isDigit (digitChar n) = true := by decide

theorem digitsVal_snoc (ds : Str) (c : Char) : digitsVal (ds ++ [c]) = digitsVal ds * 10 + (c.toNat - '0'.toNat) := by
  simp [digitsVal, List.foldl_append]

theorem showNat_ne_nil (n : Nat) : showNat n ≠ [] := by
  rw [showNat]; split <;> simp

theorem showNat_isDigit (n : Nat) : ∀ c ∈ showNat n, isDigit c = true := by
  induction n using showNat.induct with
  | case1 n h => rw [showNat, dif_pos h]; intro c hc; simp at hc; subst hc; exact digitChar_isDigit n h
  | case2 n h ih =>
    rw [showNat, dif_neg h]; intro c hc
    rcases List.mem_append.mp hc with hc | hc
    · exact ih c hc
    · simp at hc; subst hc; exact digitChar_isDigit _ (Nat.mod_lt _ (by decide))

theorem digitsVal_showNat (n : Nat) : digitsVal (showNat n) = n := by
  induction n using showNat.induct with
  | case1 n h =>
    rw [showNat, dif_pos h]
    have := digitChar_toNat n h
    simp [digitsVal, this]
  | case2 n h ih =>
    rw [showNat, dif_neg h, digitsVal_snoc, ih, digitChar_toNat _ (Nat.mod_lt _ (by decide))]
    omega

theorem isDigit_not_space {c : Char} (h : isDigit c = true) : isSpace c = false := by
  have key : ∀ d : Char, isSpace d = true → isDigit d = false := by
    intro d hd
    simp only [isSpace, Bool.or_eq_true, beq_iff_eq] at hd
    rcases hd with ((((hd | hd) | hd) | hd) | hd) | hd <;> subst hd <;> decide
  cases hs : isSpace c with
  | false => rfl
  | true => rw [key c hs] at h; cases h

theorem isDigit_ne {c d : Char} (h : isDigit c = true) (hd : isDigit d = false) : c ≠ d := by
  intro e; subst e; rw [h] at hd; cases hd

/-- `FromString<int>` on a non-empty string of digits -/
theorem fromStringInt_digits {ds : Str} (hne : ds ≠ []) (hd : ∀ c ∈ ds, isDigit c = true)
    (hr : (digitsVal ds : Int) ≤ intMax) : fromStringInt ds = .ok (digitsVal ds : Int) := by
  cases ds with
  | nil => exact absurd rfl hne
  | cons c r =>
    have h1 : c ≠ '-' := isDigit_ne (hd c List.mem_cons_self) (by decide)
    have h2 : c ≠ '+' := isDigit_ne (hd c List.mem_cons_self) (by decide)
    have hmin : ¬ ((digitsVal (c :: r) : Int) < intMin) := by
      have : (0 : Int) ≤ (digitsVal (c :: r) : Int) := Int.natCast_nonneg _
      unfold intMin; omega
    have hmax : ¬ (intMax < (digitsVal (c :: r) : Int)) := by omega
    have hs : signSplit (c :: r) = (false, c :: r) := by
      unfold signSplit
      split
      · rename_i heq; simp at heq; exact absurd heq.1 h1
      · rename_i heq; simp at heq; exact absurd heq.1 h2
      · rfl
    simp [fromStringInt, hs, takeWhile_all hd, hmin, hmax]

/-- `FromString<int>` on `-` followed by a non-empty string of digits -/
theorem fromStringInt_neg_digits {ds : Str} (hne : ds ≠ []) (hd : ∀ c ∈ ds, isDigit c = true)
    (hr : intMin ≤ - (digitsVal ds : Int)) : fromStringInt ('-' :: ds) = .ok (- (digitsVal ds : Int)) := by
  have hmin : ¬ (- (digitsVal ds : Int) < intMin) := by omega
  have hmax : ¬ (intMax < - (digitsVal ds : Int)) := by
    have : (0 : Int) ≤ (digitsVal ds : Int) := Int.natCast_nonneg _
    unfold intMax; omega
  have hne' : (ds.isEmpty) = false := by cases ds <;> simp_all
  have hs : signSplit ('-' :: ds) = (true, ds) := rfl
  simp [fromStringInt, hs, takeWhile_all hd, hne', hmin, hmax]

theorem fromStringInt_showInt (n : Int) (h1 : intMin ≤ n) (h2 : n ≤ intMax) : fromStringInt (showInt n) = .ok n := by
  unfold showInt
  split
  · rename_i hneg
    have hv : - ((digitsVal (showNat n.natAbs) : Nat) : Int) = n := by rw [digitsVal_showNat]; omega
    rw [fromStringInt_neg_digits (showNat_ne_nil _) (showNat_isDigit _) (by rw [hv]; exact h1), hv]
  · rename_i hneg
    have hv : ((digitsVal (showNat n.natAbs) : Nat) : Int) = n := by rw [digitsVal_showNat]; omega
    rw [fromStringInt_digits (showNat_ne_nil _) (showNat_isDigit _) (by rw [hv]; exact h2), hv]

theorem showInt_noWs (n : Int) : NoWs (showInt n) := by
  have hd : NoWs (showNat n.natAbs) := fun c hc => isDigit_not_space (showNat_isDigit _ c hc)
  unfold showInt
  split
  · intro c hc
    rcases List.mem_cons.mp hc with hc | hc
    · subst hc; decide
    · exact hd c hc
  · exact hd

theorem showInt_ne_nil (n : Int) : showInt n ≠ [] := by
  unfold showInt; split
  · simp
  · exact showNat_ne_nil _

/-! ## good names -/

/-- what `goodName` says -/
structure Good (s : Str) : Prop where
  ne : s ≠ []
  noWs : NoWs s
  noLP : '(' ∉ s
  noRP : ')' ∉ s
  noComma : ',' ∉ s
  noColon : ':' ∉ s
  noArrow : splitArrow s = none

theorem good_of_goodName {s : Str} (h : goodName s = true) : Good s := by
  simp only [goodName, goodChar, Bool.and_eq_true, Bool.not_eq_true', List.all_eq_true, bne_iff_ne, ne_eq,
    Option.isNone_iff_eq_none, List.isEmpty_eq_false_iff] at h
  obtain ⟨⟨h1, h2⟩, h3⟩ := h
  exact ⟨h1, fun c hc => (h2 c hc).1.1.1.1, fun hc => (h2 _ hc).1.1.1.2 rfl, fun hc => (h2 _ hc).1.1.2 rfl,
    fun hc => (h2 _ hc).1.2 rfl, fun hc => (h2 _ hc).2 rfl, h3⟩

theorem Good.word {s : Str} (h : Good s) : Word s := ⟨h.ne, h.noWs⟩

/-! ## `parse_colonned_token` -/

/-- the token the serializer writes for a symbol -/
def tokOf (p : Str × Int) : Str := p.1 ++ ':' :: showInt p.2

theorem tokOf_noWs {p : Str × Int} (h : NoWs p.1) : NoWs (tokOf p) := by
  intro c hc
  rcases List.mem_append.mp hc with hc | hc
  · exact h c hc
  · rcases List.mem_cons.mp hc with hc | hc
    · subst hc; decide
    · exact showInt_noWs _ c hc

theorem tokOf_word {p : Str × Int} (h : NoWs p.1) : Word (tokOf p) :=
  ⟨by simp [tokOf], tokOf_noWs h⟩

theorem parseColonned_plain {q : Str} (hq : NoWs q) (hc : ':' ∉ q) : parseColonned q = .ok (q, -1) := by
  have hp : ∀ a ∈ q, (fun c => c != ':') a = true := by
    intro a ha; simp only [bne_iff_ne, ne_eq]; intro e; subst e; exact hc ha
  unfold parseColonned
  simp only [trim_noWs hq, dropWhile_all hp]

theorem parseColonned_tok {p : Str × Int} (hn : NoWs p.1) (hc : ':' ∉ p.1) (h1 : intMin ≤ p.2) (h2 : p.2 ≤ intMax) :
    parseColonned (tokOf p) = .ok p := by
  have hp : ∀ a ∈ p.1, (fun c => c != ':') a = true := by
    intro a ha; simp only [bne_iff_ne, ne_eq]; intro e; subst e; exact hc ha
  have hd : (tokOf p).dropWhile (fun c => c != ':') = ':' :: showInt p.2 := by
    unfold tokOf
    rw [List.dropWhile_append_of_pos hp, List.dropWhile_cons_of_neg (by simp)]
  have ht : (tokOf p).takeWhile (fun c => c != ':') = p.1 := by
    unfold tokOf
    rw [List.takeWhile_append_of_pos hp, List.takeWhile_cons_of_neg (by simp), List.append_nil]
  unfold parseColonned
  simp only [trim_noWs (tokOf_noWs hn), hd, ht, fromStringInt_showInt _ h1 h2]

theorem parseTokens_toks : ∀ {ps : List (Str × Int)},
    (∀ p ∈ ps, NoWs p.1 ∧ ':' ∉ p.1 ∧ intMin ≤ p.2 ∧ p.2 ≤ intMax) → parseTokens (ps.map tokOf) = .ok ps
  | [], _ => rfl
  | p :: ps, h => by
    obtain ⟨a, b, c, d⟩ := h p List.mem_cons_self
    simp only [List.map_cons, parseTokens, parseColonned_tok a b c d,
      parseTokens_toks (fun x hx => h x (List.mem_cons_of_mem _ hx))]

theorem parseTokens_plain : ∀ {qs : List Str},
    (∀ q ∈ qs, NoWs q ∧ ':' ∉ q) → parseTokens qs = .ok (qs.map (fun q => (q, -1)))
  | [], _ => rfl
  | q :: qs, h => by
    obtain ⟨a, b⟩ := h q List.mem_cons_self
    simp only [List.map_cons, parseTokens, parseColonned_plain a b,
      parseTokens_plain (fun x hx => h x (List.mem_cons_of_mem _ hx))]

/-! ## `std::set` insertion -/

theorem mem_setInsert {α : Type} [DecidableEq α] (lt : α → α → Bool) (x z : α) (l : List α) :
    z ∈ setInsert lt x l ↔ z = x ∨ z ∈ l := by
  induction l with
  | nil => simp [setInsert]
  | cons y ys ih =>
    unfold setInsert
    split
    · rename_i h; subst h; simp
    · split
      · simp
      · simp only [List.mem_cons, ih]
        constructor
        · rintro (h | h | h) <;> simp [h]
        · rintro (h | h | h) <;> simp [h]

theorem mem_setInsertAll {α : Type} [DecidableEq α] (lt : α → α → Bool) (z : α) (xs acc : List α) :
    z ∈ setInsertAll lt acc xs ↔ z ∈ acc ∨ z ∈ xs := by
  induction xs generalizing acc with
  | nil => simp [setInsertAll]
  | cons x xs ih =>
    have : setInsertAll lt acc (x :: xs) = setInsertAll lt (setInsert lt x acc) xs := rfl
    rw [this, ih, mem_setInsert]
    constructor
    · rintro ((h | h) | h) <;> simp [h]
    · rintro (h | h) 
      · simp [h]
      · rcases List.mem_cons.mp h with h | h <;> simp [h]

theorem mem_norm {α : Type} [DecidableEq α] (lt : α → α → Bool) (z : α) (xs : List α) : z ∈ norm lt xs ↔ z ∈ xs := by
  simp [norm, mem_setInsertAll]

/-! ## the arrow -/

theorem splitArrow_cons_sep {s : Char} {b : Str} (hb : splitArrow b = none) (h1 : s ≠ '-') :
    splitArrow (s :: b) = none := by
  cases b with
  | nil => rfl
  | cons c' r => simp [splitArrow, h1, hb]

/-- no `->` in `a`, none in `b`, and a separator that is neither `-` nor `>` between them -/
theorem splitArrow_sep {a : Str} (s : Char) {b : Str} (ha : splitArrow a = none) (hb : splitArrow b = none)
    (h1 : s ≠ '-') (h2 : s ≠ '>') : splitArrow (a ++ s :: b) = none := by
  induction a using splitArrow.induct with
  | case1 => exact splitArrow_cons_sep hb h1
  | case2 c =>
    have := splitArrow_cons_sep hb h1
    simp [splitArrow, h2, this]
  | case3 c c' r h => simp [splitArrow, h] at ha
  | case4 c c' r h ha' ih =>
    have := ih ha'
    simp only [List.cons_append] at this ⊢
    simp [splitArrow, h, this]
  | case5 c c' r h p s hr ih => simp [splitArrow, h, hr] at ha

/-- the first `->` of `lhs -> rest` is the one written by the serializer -/
theorem splitArrow_first {lhs : Str} (h : splitArrow lhs = none) (rest : Str) :
    splitArrow (lhs ++ ' ' :: '-' :: '>' :: rest) = some (lhs ++ [' '], rest) := by
  induction lhs using splitArrow.induct with
  | case1 => simp [splitArrow]
  | case2 c => simp [splitArrow]
  | case3 c c' r hc => simp [splitArrow, hc] at h
  | case4 c c' r hc h' ih =>
    have := ih h'
    simp only [List.cons_append] at this ⊢
    simp [splitArrow, hc, this]
  | case5 c c' r hc p s hr ih => simp [splitArrow, hc, hr] at h

/-- `splitArrow` finds an occurrence of `->` -/
theorem splitArrow_some {s p q : Str} (h : splitArrow s = some (p, q)) : s = p ++ '-' :: '>' :: q := by
  induction s using splitArrow.induct generalizing p with
  | case1 => simp [splitArrow] at h
  | case2 c => simp [splitArrow] at h
  | case3 c c' r hc =>
    simp only [splitArrow, hc, and_self, if_true, Option.some.injEq, Prod.mk.injEq] at h
    obtain ⟨rfl, rfl⟩ := h
    simp [hc.1, hc.2]
  | case4 c c' r hc hn ih => simp [splitArrow, hc, hn] at h
  | case5 c c' r hc p' s' hr ih =>
    simp only [splitArrow, hc, if_false, hr, Option.some.injEq, Prod.mk.injEq] at h
    obtain ⟨rfl, rfl⟩ := h
    rw [ih hr]; rfl

/-- `splitArrow` finds every occurrence -/
theorem splitArrow_isSome (p q : Str) : splitArrow (p ++ '-' :: '>' :: q) ≠ none := by
  induction p with
  | nil => simp [splitArrow]
  | cons c p ih =>
    cases hp : p ++ '-' :: '>' :: q with
    | nil => simp at hp
    | cons c' r =>
      rw [hp] at ih
      simp only [List.cons_append, hp, splitArrow]
      split
      · simp
      · cases hr : splitArrow (c' :: r) with
        | none => exact absurd hr ih
        | some x => simp

/-- `splitArrow s = none` says that `->` is not a substring of `s` -/
theorem splitArrow_none_iff (s : Str) : splitArrow s = none ↔ ¬ ∃ p q, s = p ++ '-' :: '>' :: q := by
  constructor
  · rintro h ⟨p, q, rfl⟩; exact splitArrow_isSome p q h
  · intro h
    cases hs : splitArrow s with
    | none => rfl
    | some x => exact absurd ⟨x.1, x.2, splitArrow_some hs⟩ h

/-- `goodName` spelled out: non-empty, without whitespace, `(`, `)`, `,`, `:` and without the substring `->` -/
theorem goodName_iff (s : Str) : goodName s = true ↔
    s ≠ [] ∧ (∀ c ∈ s, isSpace c = false ∧ c ≠ '(' ∧ c ≠ ')' ∧ c ≠ ',' ∧ c ≠ ':') ∧
      ¬ ∃ p q, s = p ++ '-' :: '>' :: q := by
  rw [← splitArrow_none_iff]
  simp only [goodName, goodChar, Bool.and_eq_true, Bool.not_eq_true', List.all_eq_true, bne_iff_ne, ne_eq,
    Option.isNone_iff_eq_none, List.isEmpty_eq_false_iff]
  constructor
  · rintro ⟨⟨h1, h2⟩, h3⟩
    exact ⟨h1, fun c hc => ⟨(h2 c hc).1.1.1.1, (h2 c hc).1.1.1.2, (h2 c hc).1.1.2, (h2 c hc).1.2, (h2 c hc).2⟩, h3⟩
  · rintro ⟨h1, h2, h3⟩
    exact ⟨⟨h1, fun c hc => ⟨⟨⟨⟨(h2 c hc).1, (h2 c hc).2.1⟩, (h2 c hc).2.2.1⟩, (h2 c hc).2.2.2.1⟩, (h2 c hc).2.2.2.2⟩⟩, h3⟩

/-! ## the left-hand side of a transition -/

/-- the text between the parentheses: `k, x1, x2, …` -/
def tupStr (k : Str) (ks : List Str) : Str := k ++ (ks.map (fun x => ',' :: ' ' :: x)).flatten

theorem serKids_cons (k : Str) (ks : List Str) : serKids (k :: ks) = '(' :: (tupStr k ks ++ [')']) := by
  simp [serKids, tupStr]

theorem tupStr_cons (k x : Str) (xs : List Str) : tupStr k (x :: xs) = k ++ ',' :: tupStr (' ' :: x) xs := by
  simp [tupStr]

theorem mem_tupStr {c : Char} {k : Str} {ks : List Str} (h : c ∈ tupStr k ks) :
    c ∈ k ∨ c = ',' ∨ c = ' ' ∨ ∃ x ∈ ks, c ∈ x := by
  induction ks generalizing k with
  | nil => simp [tupStr] at h; exact Or.inl h
  | cons x xs ih =>
    rw [tupStr_cons] at h
    rcases List.mem_append.mp h with h | h
    · exact Or.inl h
    · rcases List.mem_cons.mp h with h | h
      · exact Or.inr (Or.inl h)
      · rcases ih h with h | h | h | ⟨y, hy, h⟩
        · rcases List.mem_cons.mp h with h | h
          · exact Or.inr (Or.inr (Or.inl h))
          · exact Or.inr (Or.inr (Or.inr ⟨x, List.mem_cons_self, h⟩))
        · exact Or.inr (Or.inl h)
        · exact Or.inr (Or.inr (Or.inl h))
        · exact Or.inr (Or.inr (Or.inr ⟨y, List.mem_cons_of_mem _ hy, h⟩))

theorem tupStr_close_noArrow {k : Str} {ks : List Str} (hk : splitArrow k = none)
    (hks : ∀ x ∈ ks, splitArrow x = none) : splitArrow (tupStr k ks ++ [')']) = none := by
  induction ks generalizing k with
  | nil =>
    have : tupStr k [] ++ [')'] = k ++ ')' :: [] := by simp [tupStr]
    rw [this]
    exact splitArrow_sep ')' hk rfl (by decide) (by decide)
  | cons x xs ih =>
    have : tupStr k (x :: xs) ++ [')'] = k ++ ',' :: (tupStr (' ' :: x) xs ++ [')']) := by
      rw [tupStr_cons]; simp
    rw [this]
    refine splitArrow_sep ',' hk (ih ?_ (fun y hy => hks y (List.mem_cons_of_mem _ hy))) (by decide) (by decide)
    exact splitArrow_cons_sep (hks x List.mem_cons_self) (by decide)

/-- the left-hand side written by the serializer -/
def lhsOf (t : Trans) : Str := t.2.1 ++ serKids t.1

theorem serTrans_eq (t : Trans) : serTrans t = lhsOf t ++ ' ' :: '-' :: '>' :: ' ' :: t.2.2 := by
  simp [serTrans, lhsOf]

theorem lhsOf_noArrow {t : Trans} (hs : Good t.2.1) (hk : ∀ k ∈ t.1, Good k) : splitArrow (lhsOf t) = none := by
  obtain ⟨kids, sym, par⟩ := t
  cases kids with
  | nil => simpa [lhsOf, serKids] using hs.noArrow
  | cons k ks =>
    simp only [lhsOf, serKids_cons]
    exact splitArrow_sep '(' hs.noArrow
      (tupStr_close_noArrow (hk k List.mem_cons_self).noArrow
        (fun x hx => (hk x (List.mem_cons_of_mem _ hx)).noArrow)) (by decide) (by decide)

theorem lhsOf_headOk {t : Trans} (hs : Good t.2.1) : HeadOk (lhsOf t) :=
  headOk_append hs.ne hs.noWs.headOk

theorem lhsOf_lastOk {t : Trans} (hs : Good t.2.1) : LastOk (lhsOf t) := by
  obtain ⟨kids, sym, par⟩ := t
  cases kids with
  | nil => simpa [lhsOf, serKids] using hs.noWs.lastOk
  | cons k ks =>
    simp only [lhsOf, serKids_cons]
    have : sym ++ '(' :: (tupStr k ks ++ [')']) = (sym ++ '(' :: tupStr k ks) ++ [')'] := by simp
    rw [this]
    exact lastOk_append (by simp) (by intro c hc; simp at hc; subst hc; decide)

/-- the arrow part: a serialized transition line reaches `stepLhs` with the two sides as written -/
theorem stepTrans_serTrans (st : PState) (line : Str) {t : Trans} (hs : Good t.2.1) (hk : ∀ k ∈ t.1, Good k)
    (hp : Good t.2.2) : stepTrans st line (serTrans t) = stepLhs st line (lhsOf t) t.2.2 := by
  unfold stepTrans
  rw [serTrans_eq, splitArrow_first (lhsOf_noArrow hs hk)]
  simp only [trim_snoc_space (lhsOf_headOk hs) (lhsOf_lastOk hs), trim_space_cons hp.noWs.headOk hp.noWs.lastOk,
    containsWs_noWs hp.noWs]
  have : t.2.2.isEmpty = false := by simpa using hp.ne
  simp [this]

theorem ne_colon_all {c : Char} {s : Str} (h : c ∉ s) : ∀ a ∈ s, (fun x => x != c) a = true := by
  intro a ha; simp only [bne_iff_ne, ne_eq]; intro e; subst e; exact h ha

theorem contains_false {c : Char} {s : Str} (h : c ∉ s) : s.contains c = false := by
  simpa using h

/-- a nullary transition `a -> q` -/
theorem stepLhs_leaf (st : PState) (line : Str) {sym par : Str} (hs : Good sym) :
    stepLhs st line sym par = .ok (addTrans st ([], sym, par)) := by
  unfold stepLhs
  have : sym.isEmpty = false := by simpa using hs.ne
  simp only [dropWhile_all (ne_colon_all hs.noLP), contains_false hs.noRP, containsWs_noWs hs.noWs, this]
  simp

theorem splitDelim_tupStr {k : Str} {ks : List Str} (hk : ',' ∉ k) (hks : ∀ x ∈ ks, ',' ∉ x) :
    splitDelim ',' (tupStr k ks) = k :: ks.map (fun x => ' ' :: x) := by
  induction ks generalizing k with
  | nil =>
    have : tupStr k [] = k := by simp [tupStr]
    rw [this]; exact splitDelim_nodelim ',' k hk
  | cons x xs ih =>
    rw [tupStr_cons, splitDelim_append_nodelim ',' k hk,
      ih (k := ' ' :: x) (by
        intro h; rcases List.mem_cons.mp h with h | h
        · revert h; decide
        · exact hks x List.mem_cons_self h) (fun y hy => hks y (List.mem_cons_of_mem _ hy))]
    rfl

theorem map_trim_pad {ks : List Str} (h : ∀ x ∈ ks, NoWs x) : (ks.map (fun x => ' ' :: x)).map trim = ks := by
  induction ks with
  | nil => rfl
  | cons x xs ih =>
    have hx := h x List.mem_cons_self
    simp only [List.map_cons, trim_space_cons hx.headOk hx.lastOk, ih (fun y hy => h y (List.mem_cons_of_mem _ hy))]

/-- a transition with children `a(k, x1, …) -> q` -/
theorem stepLhs_tuple (st : PState) (line : Str) {sym par k : Str} {ks : List Str} (hs : Good sym)
    (hk : ∀ x ∈ k :: ks, Good x) :
    stepLhs st line (sym ++ serKids (k :: ks)) par = .ok (addTrans st (k :: ks, sym, par)) := by
  have hk0 := hk k List.mem_cons_self
  have hks : ∀ x ∈ ks, Good x := fun x hx => hk x (List.mem_cons_of_mem _ hx)
  have hrp : ')' ∉ tupStr k ks := by
    intro h
    rcases mem_tupStr h with h | h | h | ⟨x, hx, h⟩
    · exact hk0.noRP h
    · revert h; decide
    · revert h; decide
    · exact (hks x hx).noRP h
  have e1 : (sym ++ serKids (k :: ks)).dropWhile (fun c => c != '(') = '(' :: (tupStr k ks ++ [')']) := by
    rw [serKids_cons, List.dropWhile_append_of_pos (ne_colon_all hs.noLP), List.dropWhile_cons_of_neg (by simp)]
  have e2 : (sym ++ serKids (k :: ks)).takeWhile (fun c => c != '(') = sym := by
    rw [serKids_cons, List.takeWhile_append_of_pos (ne_colon_all hs.noLP), List.takeWhile_cons_of_neg (by simp),
      List.append_nil]
  have e3 : (tupStr k ks ++ [')']).dropWhile (fun c => c != ')') = [')'] := by
    rw [List.dropWhile_append_of_pos (ne_colon_all hrp), List.dropWhile_cons_of_neg (by simp)]
  have e4 : (tupStr k ks ++ [')']).takeWhile (fun c => c != ')') = tupStr k ks := by
    rw [List.takeWhile_append_of_pos (ne_colon_all hrp), List.takeWhile_cons_of_neg (by simp), List.append_nil]
  have e5 : (splitDelim ',' (tupStr k ks)).map trim = k :: ks := by
    rw [splitDelim_tupStr hk0.noComma (fun x hx => (hks x hx).noComma)]
    simp only [List.map_cons, trim_noWs hk0.noWs, map_trim_pad (fun x hx => (hks x hx).noWs)]
  have e6 : (k :: ks).any containsWs = false := by
    rw [List.any_eq_false]; intro x hx; simp [containsWs_noWs (hk x hx).noWs]
  have e7 : (k :: ks) ≠ [[]] := by
    intro h; exact hk0.ne (List.cons.inj h).1
  have e8 : sym.isEmpty = false := by simpa using hs.ne
  unfold stepLhs
  simp only [e1, e2, e3, e4, e5, e6, contains_false hs.noRP, trim_noWs hs.noWs, e8]
  simp [e7]

/-- one serialized transition line inserts exactly that transition -/
theorem stepTrans_line (st : PState) (line : Str) {t : Trans} (hs : Good t.2.1) (hk : ∀ k ∈ t.1, Good k)
    (hp : Good t.2.2) : stepTrans st line (serTrans t) = .ok (addTrans st t) := by
  rw [stepTrans_serTrans st line hs hk hp]
  obtain ⟨kids, sym, par⟩ := t
  cases kids with
  | nil =>
    have : lhsOf (([] : List Str), sym, par) = sym := by simp [lhsOf, serKids]
    rw [this]; exact stepLhs_leaf st line hs
  | cons k ks => exact stepLhs_tuple st line hs hk

/-! ## the header lines -/

theorem kwOps_word : Word kwOps := ⟨by decide, by unfold NoWs; decide⟩
theorem kwAutomaton_word : Word kwAutomaton := ⟨by decide, by unfold NoWs; decide⟩
theorem kwStates_word : Word kwStates := ⟨by decide, by unfold NoWs; decide⟩
theorem kwFinal_word : Word kwFinal := ⟨by decide, by unfold NoWs; decide⟩
theorem kwTransitions_word : Word kwTransitions := ⟨by decide, by unfold NoWs; decide⟩
theorem kwAnonymous_word : Word kwAnonymous := ⟨by decide, by unfold NoWs; decide⟩

theorem words_cons {w : Str} {ws : List Str} (hw : Word w) (hws : ∀ x ∈ ws, Word x) : ∀ x ∈ w :: ws, Word x := by
  intro x hx
  rcases List.mem_cons.mp hx with hx | hx
  · subst hx; exact hw
  · exact hws x hx

/-- the trimmed section line `kw w1 … wn ` -/
theorem trim_header {kw : Str} {ws : List Str} (hkw : Word kw) (hws : ∀ x ∈ ws, Word x) :
    trim (kw ++ ' ' :: (ws.map serState).flatten) = joinSp (kw :: ws) := by
  rw [section_eq_joinSp, trim_section (words_cons hkw hws)]

theorem map_fst_plain (qs : List Str) : (qs.map (fun q => (q, (-1 : Int)))).map (·.1) = qs := by
  induction qs with
  | nil => rfl
  | cons q qs ih => simp only [List.map_cons, ih]

theorem stepHeader_ops (st : PState) (line : Str) {ps : List (Str × Int)} (hst : st.opsP = false)
    (hps : ∀ p ∈ ps, Good p.1 ∧ intMin ≤ p.2 ∧ p.2 ≤ intMax) :
    stepHeader st line (joinSp (kwOps :: ps.map tokOf)) =
      .ok { st with opsP := true, d := { st.d with symbols := setInsertAll ltSym st.d.symbols ps } } := by
  have hw : ∀ x ∈ ps.map tokOf, Word x := by
    intro x hx
    obtain ⟨p, hp, rfl⟩ := List.mem_map.mp hx
    exact tokOf_word (hps p hp).1.noWs
  have h1 : kwOps ≠ kwTransitions := by decide
  have h2 : kwOps ≠ kwAutomaton := by decide
  unfold stepHeader
  rw [readWord_joinSp kwOps_word hw]
  simp only [if_neg h1, if_neg h2, if_pos, hst, readWords_joinSp hw,
    parseTokens_toks (fun p hp => ⟨(hps p hp).1.noWs, (hps p hp).1.noColon, (hps p hp).2.1, (hps p hp).2.2⟩)]
  simp

theorem stepHeader_aut (st : PState) (line : Str) {nm : Str} (hst : st.autP = false) (hnm : Word nm) :
    stepHeader st line (joinSp [kwAutomaton, nm]) = .ok { st with autP := true, d := { st.d with name := nm } } := by
  have h1 : kwAutomaton ≠ kwTransitions := by decide
  unfold stepHeader
  rw [readWord_joinSp kwAutomaton_word (by intro x hx; rw [List.mem_singleton] at hx; subst hx; exact hnm)]
  simp only [if_neg h1, if_pos, hst]
  have : readWord (joinSp [nm]) = (nm, []) := readWord_word hnm.2
  simp [this]

theorem stepHeader_states (st : PState) (line : Str) {qs : List Str} (hst : st.statesP = false)
    (hqs : ∀ q ∈ qs, Good q) :
    stepHeader st line (joinSp (kwStates :: qs)) =
      .ok { st with statesP := true, d := { st.d with states := setInsertAll ltStr st.d.states qs } } := by
  have hw : ∀ x ∈ qs, Word x := fun x hx => (hqs x hx).word
  have h1 : kwStates ≠ kwTransitions := by decide
  have h2 : kwStates ≠ kwAutomaton := by decide
  have h3 : kwStates ≠ kwOps := by decide
  unfold stepHeader
  rw [readWord_joinSp kwStates_word hw]
  simp only [if_neg h1, if_neg h2, if_neg h3, if_pos, hst, readWords_joinSp hw,
    parseTokens_plain (fun q hq => ⟨(hqs q hq).noWs, (hqs q hq).noColon⟩), map_fst_plain]
  simp

theorem stepHeader_final (st : PState) (line : Str) {qs : List Str} (hst : st.finalP = false)
    (hqs : ∀ q ∈ qs, Good q) :
    stepHeader st line (joinSp (kwFinal :: kwStates :: qs)) =
      .ok { st with finalP := true, d := { st.d with final := setInsertAll ltStr st.d.final qs } } := by
  have hw : ∀ x ∈ qs, Word x := fun x hx => (hqs x hx).word
  have h1 : kwFinal ≠ kwTransitions := by decide
  have h2 : kwFinal ≠ kwAutomaton := by decide
  have h3 : kwFinal ≠ kwOps := by decide
  have h4 : kwFinal ≠ kwStates := by decide
  unfold stepHeader
  rw [readWord_joinSp kwFinal_word (words_cons kwStates_word hw)]
  simp only [if_neg h1, if_neg h2, if_neg h3, if_neg h4, if_pos, readWord_joinSp kwStates_word hw, hst,
    readWords_joinSp hw, parseTokens_plain (fun q hq => ⟨(hqs q hq).noWs, (hqs q hq).noColon⟩), map_fst_plain]
  simp

theorem stepHeader_transitions (st : PState) (line : Str) :
    stepHeader st line kwTransitions = .ok { st with areTrans := true } := by
  unfold stepHeader
  rw [readWord_word kwTransitions_word.2]
  simp

/-! ## the split into lines -/

theorem splitDelim_lines (ls : List Str) (h : ∀ l ∈ ls, '\n' ∉ l) :
    splitDelim '\n' ((ls.map (fun l => l ++ ['\n'])).flatten) = ls ++ [[]] := by
  induction ls with
  | nil => rfl
  | cons l ls ih =>
    have : ((l :: ls).map (fun l => l ++ ['\n'])).flatten = l ++ '\n' :: (ls.map (fun l => l ++ ['\n'])).flatten := by
      simp
    rw [this, splitDelim_append_nodelim '\n' l (h l List.mem_cons_self),
      ih (fun x hx => h x (List.mem_cons_of_mem _ hx))]
    rfl

theorem nl_not_noWs {s : Str} (h : NoWs s) : '\n' ∉ s := by
  intro hc
  have := h _ hc
  revert this; decide

theorem mem_joinSp {c : Char} : ∀ {ws : List Str}, c ∈ joinSp ws → c = ' ' ∨ ∃ w ∈ ws, c ∈ w
  | [], h => by simp [joinSp] at h
  | [w], h => Or.inr ⟨w, List.mem_cons_self, h⟩
  | w :: w' :: ws, h => by
    rcases List.mem_append.mp (show c ∈ w ++ ' ' :: joinSp (w' :: ws) from h) with h | h
    · exact Or.inr ⟨w, List.mem_cons_self, h⟩
    · rcases List.mem_cons.mp h with h | h
      · exact Or.inl h
      · rcases mem_joinSp h with h | ⟨x, hx, h⟩
        · exact Or.inl h
        · exact Or.inr ⟨x, List.mem_cons_of_mem _ hx, h⟩

theorem nl_not_joinSp {ws : List Str} (h : ∀ w ∈ ws, Word w) : '\n' ∉ joinSp ws := by
  intro hc
  rcases mem_joinSp hc with hc | ⟨w, hw, hc⟩
  · revert hc; decide
  · exact nl_not_noWs (h w hw).2 hc

theorem nl_not_section {kw : Str} {ws : List Str} (hkw : Word kw) (hws : ∀ x ∈ ws, Word x) :
    '\n' ∉ kw ++ ' ' :: (ws.map serState).flatten := by
  rw [section_eq_joinSp]
  intro hc
  rcases List.mem_append.mp hc with hc | hc
  · exact nl_not_joinSp (words_cons hkw hws) hc
  · revert hc; decide

theorem nl_not_serKids {kids : List Str} (h : ∀ k ∈ kids, Good k) : '\n' ∉ serKids kids := by
  cases kids with
  | nil => simp [serKids]
  | cons k ks =>
    rw [serKids_cons]
    intro hc
    rcases List.mem_cons.mp hc with hc | hc
    · revert hc; decide
    · rcases List.mem_append.mp hc with hc | hc
      · rcases mem_tupStr hc with hc | hc | hc | ⟨x, hx, hc⟩
        · exact nl_not_noWs (h k List.mem_cons_self).noWs hc
        · revert hc; decide
        · revert hc; decide
        · exact nl_not_noWs (h x (List.mem_cons_of_mem _ hx)).noWs hc
      · revert hc; decide

theorem nl_not_serTrans {t : Trans} (hs : Good t.2.1) (hk : ∀ k ∈ t.1, Good k) (hp : Good t.2.2) :
    '\n' ∉ serTrans t := by
  rw [serTrans_eq]
  intro hc
  rcases List.mem_append.mp hc with hc | hc
  · rcases List.mem_append.mp hc with hc | hc
    · exact nl_not_noWs hs.noWs hc
    · exact nl_not_serKids hk hc
  · have : '\n' ∈ t.2.2 := by
      simp only [List.mem_cons] at hc
      rcases hc with hc | hc | hc | hc | hc
      · exact absurd hc (by decide)
      · exact absurd hc (by decide)
      · exact absurd hc (by decide)
      · exact absurd hc (by decide)
      · exact hc
    exact nl_not_noWs hp.noWs this

/-! ## well-formedness unpacked -/

structure WF (d : Desc) : Prop where
  name : NoWs d.name
  symbols : ∀ p ∈ d.symbols, Good p.1 ∧ intMin ≤ p.2 ∧ p.2 ≤ intMax
  states : ∀ q ∈ d.states, Good q
  final : ∀ q ∈ d.final, Good q
  trans : ∀ t ∈ d.trans, (∀ k ∈ t.1, Good k) ∧ Good t.2.1 ∧ Good t.2.2

theorem wf_of_wellFormed {d : Desc} (h : d.wellFormed = true) : WF d := by
  simp only [Desc.wellFormed, Bool.and_eq_true, Bool.not_eq_true', List.all_eq_true, rankOk, decide_eq_true_eq] at h
  obtain ⟨⟨⟨⟨h1, h2⟩, h3⟩, h4⟩, h5⟩ := h
  refine ⟨?_, ?_, ?_, ?_, ?_⟩
  · intro c hc
    have := (List.any_eq_false.mp h1) c hc
    simpa using this
  · intro p hp; exact ⟨good_of_goodName (h2 p hp).1, (h2 p hp).2.1, (h2 p hp).2.2⟩
  · intro q hq; exact good_of_goodName (h3 q hq)
  · intro q hq; exact good_of_goodName (h4 q hq)
  · intro t ht
    exact ⟨fun k hk => good_of_goodName ((h5 t ht).1.1 k hk), good_of_goodName (h5 t ht).1.2,
      good_of_goodName (h5 t ht).2⟩

/-! ## the lines, one after the other -/

theorem parseLines_header {st st' : PState} {line : Str} (ls : List Str) (ht : st.areTrans = false)
    (hne : trim line ≠ []) (h : stepHeader st line (trim line) = .ok st') :
    parseLines st (line :: ls) = parseLines st' ls := by
  simp [parseLines, hne, ht, h]

theorem parseLines_transLine {st st' : PState} {line : Str} (ls : List Str) (ht : st.areTrans = true)
    (hne : trim line ≠ []) (h : stepTrans st line (trim line) = .ok st') :
    parseLines st (line :: ls) = parseLines st' ls := by
  simp [parseLines, hne, ht, h]

theorem serSym_eq (p : Str × Int) : serSym p = serState (tokOf p) := rfl

theorem parseLines_ops (st : PState) (d : Desc) (h : WF d) (ls : List Str) (ht : st.areTrans = false)
    (ho : st.opsP = false) :
    parseLines st (lineOps d :: ls) = parseLines
      { st with opsP := true,
                d := { st.d with symbols := setInsertAll ltSym st.d.symbols (norm ltSym d.symbols) } } ls := by
  have hS : ∀ p ∈ norm ltSym d.symbols, Good p.1 ∧ intMin ≤ p.2 ∧ p.2 ≤ intMax :=
    fun p hp => h.symbols p ((mem_norm _ _ _).mp hp)
  have hw : ∀ x ∈ (norm ltSym d.symbols).map tokOf, Word x := by
    intro x hx
    obtain ⟨p, hp, rfl⟩ := List.mem_map.mp hx
    exact tokOf_word (hS p hp).1.noWs
  have e : lineOps d = kwOps ++ ' ' :: (((norm ltSym d.symbols).map tokOf).map serState).flatten := by
    simp only [lineOps, List.map_map]; rfl
  have et : trim (lineOps d) = joinSp (kwOps :: (norm ltSym d.symbols).map tokOf) := by
    rw [e, trim_header kwOps_word hw]
  refine parseLines_header ls ht ?_ ?_
  · rw [et]; exact joinSp_ne_nil kwOps_word.1
  · rw [et]; exact stepHeader_ops st _ ho hS

theorem parseLines_aut (st : PState) (d : Desc) (h : WF d) (ls : List Str) (ht : st.areTrans = false)
    (ho : st.autP = false) :
    parseLines st (lineAut d :: ls) = parseLines
      { st with autP := true,
                d := { st.d with name := if d.name.isEmpty then kwAnonymous else d.name } } ls := by
  have hnm : Word (if d.name.isEmpty then kwAnonymous else d.name) := by
    split
    · exact kwAnonymous_word
    · rename_i hne; exact ⟨by simpa using hne, h.name⟩
  have e : lineAut d = joinSp [kwAutomaton, if d.name.isEmpty then kwAnonymous else d.name] := rfl
  have hws : ∀ x ∈ [kwAutomaton, if d.name.isEmpty then kwAnonymous else d.name], Word x :=
    words_cons kwAutomaton_word (by intro x hx; rw [List.mem_singleton] at hx; subst hx; exact hnm)
  have et : trim (lineAut d) = joinSp [kwAutomaton, if d.name.isEmpty then kwAnonymous else d.name] := by
    rw [e, trim_tight (joinSp_headOk hws) (joinSp_lastOk hws)]
  refine parseLines_header ls ht ?_ ?_
  · rw [et]; exact joinSp_ne_nil kwAutomaton_word.1
  · rw [et]; exact stepHeader_aut st _ ho hnm

theorem parseLines_states (st : PState) (d : Desc) (h : WF d) (ls : List Str) (ht : st.areTrans = false)
    (ho : st.statesP = false) :
    parseLines st (lineStates d :: ls) = parseLines
      { st with statesP := true,
                d := { st.d with states := setInsertAll ltStr st.d.states (norm ltStr d.states) } } ls := by
  have hQ : ∀ q ∈ norm ltStr d.states, Good q := fun q hq => h.states q ((mem_norm _ _ _).mp hq)
  have hw : ∀ x ∈ norm ltStr d.states, Word x := fun x hx => (hQ x hx).word
  have et : trim (lineStates d) = joinSp (kwStates :: norm ltStr d.states) := trim_header kwStates_word hw
  refine parseLines_header ls ht ?_ ?_
  · rw [et]; exact joinSp_ne_nil kwStates_word.1
  · rw [et]; exact stepHeader_states st _ ho hQ

theorem parseLines_final (st : PState) (d : Desc) (h : WF d) (ls : List Str) (ht : st.areTrans = false)
    (ho : st.finalP = false) :
    parseLines st (lineFinal d :: ls) = parseLines
      { st with finalP := true,
                d := { st.d with final := setInsertAll ltStr st.d.final (norm ltStr d.final) } } ls := by
  have hQ : ∀ q ∈ norm ltStr d.final, Good q := fun q hq => h.final q ((mem_norm _ _ _).mp hq)
  have hw : ∀ x ∈ norm ltStr d.final, Word x := fun x hx => (hQ x hx).word
  have e : lineFinal d = kwFinal ++ ' ' :: (joinSp (kwStates :: norm ltStr d.final) ++ [' ']) := by
    rw [← section_eq_joinSp]; simp [lineFinal]
  have hws := words_cons kwFinal_word (words_cons kwStates_word hw)
  have et : trim (lineFinal d) = joinSp (kwFinal :: kwStates :: norm ltStr d.final) := by
    rw [e]
    have : kwFinal ++ ' ' :: (joinSp (kwStates :: norm ltStr d.final) ++ [' ']) =
        joinSp (kwFinal :: kwStates :: norm ltStr d.final) ++ [' '] := by simp [joinSp]
    rw [this, trim_section hws]
  refine parseLines_header ls ht ?_ ?_
  · rw [et]; exact joinSp_ne_nil kwFinal_word.1
  · rw [et]; exact stepHeader_final st _ ho hQ

theorem parseLines_transitions (st : PState) (ls : List Str) (ht : st.areTrans = false) :
    parseLines st (kwTransitions :: ls) = parseLines { st with areTrans := true } ls := by
  have et : trim kwTransitions = kwTransitions := trim_noWs kwTransitions_word.2
  refine parseLines_header ls ht ?_ ?_
  · rw [et]; decide
  · rw [et]; exact stepHeader_transitions st _

/-- the transition section: every line inserts its transition; the empty piece after the last `\n` is skipped -/
theorem parseLines_transSection (ts : List Trans) (hts : ∀ t ∈ ts, (∀ k ∈ t.1, Good k) ∧ Good t.2.1 ∧ Good t.2.2) :
    ∀ (st : PState), st.areTrans = true →
      parseLines st (ts.map serTrans ++ [[]]) =
        .ok { st with d := { st.d with trans := setInsertAll ltTrans st.d.trans ts } } := by
  induction ts with
  | nil => intro st _; rfl
  | cons t ts ih =>
    intro st ht
    obtain ⟨hk, hs, hp⟩ := hts t List.mem_cons_self
    have et : trim (serTrans t) = serTrans t := by
      rw [serTrans_eq]
      have e : lhsOf t ++ ' ' :: '-' :: '>' :: ' ' :: t.2.2 = (lhsOf t ++ [' ', '-', '>', ' ']) ++ t.2.2 := by simp
      rw [e]
      refine trim_tight ?_ (lastOk_append hp.ne hp.noWs.lastOk)
      rw [List.append_assoc]
      exact headOk_append (by simp [lhsOf, hs.ne]) (lhsOf_headOk hs)
    have hne : trim (serTrans t) ≠ [] := by
      rw [et, serTrans_eq]; simp
    have hstep : stepTrans st (serTrans t) (trim (serTrans t)) = .ok (addTrans st t) := by
      rw [et]; exact stepTrans_line st _ hs hk hp
    show parseLines st (serTrans t :: (ts.map serTrans ++ [[]])) = _
    rw [parseLines_transLine _ ht hne hstep, ih (fun x hx => hts x (List.mem_cons_of_mem _ hx)) (addTrans st t) ht]
    rfl

/-! ## the whole -/

/-- what comes back: the name (`anonymous` for the empty name) and the `std::set`s of the components -/
def roundTrip (d : Desc) : Desc where
  name := if d.name.isEmpty then kwAnonymous else d.name
  symbols := norm ltSym (norm ltSym d.symbols)
  states := norm ltStr (norm ltStr d.states)
  final := norm ltStr (norm ltStr d.final)
  trans := norm ltTrans (norm ltTrans d.trans)

theorem serializeC_lines (d : Desc) (h : WF d) :
    splitDelim '\n' (serializeC d) =
      lineOps d :: lineAut d :: lineStates d :: lineFinal d :: kwTransitions ::
        ((norm ltTrans d.trans).map serTrans ++ [[]]) := by
  have hT : ∀ t ∈ norm ltTrans d.trans, '\n' ∉ serTrans t := by
    intro t ht
    obtain ⟨hk, hs, hp⟩ := h.trans t ((mem_norm _ _ _).mp ht)
    exact nl_not_serTrans hs hk hp
  have n1 : '\n' ∉ lineOps d := by
    have e : lineOps d = kwOps ++ ' ' :: (((norm ltSym d.symbols).map tokOf).map serState).flatten := by
      simp only [lineOps, List.map_map]; rfl
    rw [e]
    refine nl_not_section kwOps_word ?_
    intro x hx
    obtain ⟨p, hp, rfl⟩ := List.mem_map.mp hx
    exact tokOf_word (h.symbols p ((mem_norm _ _ _).mp hp)).1.noWs
  have n2 : '\n' ∉ lineAut d := by
    have hnm : Word (if d.name.isEmpty then kwAnonymous else d.name) := by
      split
      · exact kwAnonymous_word
      · rename_i hne; exact ⟨by simpa using hne, h.name⟩
    have e : lineAut d = joinSp [kwAutomaton, if d.name.isEmpty then kwAnonymous else d.name] := rfl
    rw [e]
    exact nl_not_joinSp (words_cons kwAutomaton_word (by intro x hx; rw [List.mem_singleton] at hx; subst hx; exact hnm))
  have n3 : '\n' ∉ lineStates d :=
    nl_not_section kwStates_word (fun x hx => (h.states x ((mem_norm _ _ _).mp hx)).word)
  have n4 : '\n' ∉ lineFinal d := by
    have hw : ∀ x ∈ norm ltStr d.final, Word x := fun x hx => (h.final x ((mem_norm _ _ _).mp hx)).word
    have e : lineFinal d = kwFinal ++ ' ' :: (kwStates ++ ' ' :: ((norm ltStr d.final).map serState).flatten) := by
      simp [lineFinal]
    rw [e]
    intro hc
    rcases List.mem_append.mp hc with hc | hc
    · exact nl_not_noWs kwFinal_word.2 hc
    · rcases List.mem_cons.mp hc with hc | hc
      · revert hc; decide
      · exact nl_not_section kwStates_word hw hc
  have n5 : '\n' ∉ kwTransitions := by decide
  have e : serializeC d = lineOps d ++ '\n' :: (lineAut d ++ '\n' :: (lineStates d ++ '\n' :: (lineFinal d ++ '\n' ::
      (kwTransitions ++ '\n' :: (((norm ltTrans d.trans).map serTrans).map (fun l => l ++ ['\n'])).flatten)))) := by
    simp only [serializeC, List.append_assoc, List.cons_append, List.map_map]
    rfl
  rw [e, splitDelim_append_nodelim _ _ n1, splitDelim_append_nodelim _ _ n2, splitDelim_append_nodelim _ _ n3,
    splitDelim_append_nodelim _ _ n4, splitDelim_append_nodelim _ _ n5, splitDelim_lines]
  intro l hl
  obtain ⟨t, ht, rfl⟩ := List.mem_map.mp hl
  exact hT t ht

/-- the round trip on `Str` descriptions, with the exact result -/
theorem parseC_serializeC (d : Desc) (h : WF d) : parseC (serializeC d) = .ok (roundTrip d) := by
  have hT : ∀ t ∈ norm ltTrans d.trans, (∀ k ∈ t.1, Good k) ∧ Good t.2.1 ∧ Good t.2.2 :=
    fun t ht => h.trans t ((mem_norm _ _ _).mp ht)
  unfold parseC
  rw [serializeC_lines d h, parseLines_ops _ d h _ rfl rfl, parseLines_aut _ d h _ rfl rfl,
    parseLines_states _ d h _ rfl rfl, parseLines_final _ d h _ rfl rfl, parseLines_transitions _ _ rfl,
    parseLines_transSection _ hT _ rfl]
  rfl

end Vata.Timbuk

/-! ## `String` level: the theorem of property C13 -/
namespace Vata
open Timbuk

theorem Timbuk.sameSet_map_norm {α β : Type} [DecidableEq β] (lt : β → β → Bool) (f : α → β) (g : β → α)
    (hgf : ∀ a, g (f a) = a) (l : List α) : SameSet ((norm lt (norm lt (l.map f))).map g) l := by
  intro x
  simp only [List.mem_map, mem_norm]
  constructor
  · rintro ⟨y, ⟨a, ha, rfl⟩, rfl⟩; rw [hgf]; exact ha
  · intro hx; exact ⟨f x, ⟨x, hx, rfl⟩, hgf x⟩

/-- `WellFormed` spelled out (see `goodName_iff` for `goodName`) -/
theorem AutDesc.wellFormed_iff (d : AutDesc) : d.WellFormed ↔
    (∀ c ∈ d.name.toList, isSpace c = false) ∧
    (∀ p ∈ d.symbols, goodName p.1.toList = true ∧ intMin ≤ p.2 ∧ p.2 ≤ intMax) ∧
    (∀ q ∈ d.states, goodName q.toList = true) ∧
    (∀ q ∈ d.final, goodName q.toList = true) ∧
    (∀ t ∈ d.trans, (∀ k ∈ t.1, goodName k.toList = true) ∧ goodName t.2.1.toList = true ∧
      goodName t.2.2.toList = true) := by
  simp only [AutDesc.WellFormed, ofS, Desc.wellFormed, containsWs, Bool.and_eq_true, Bool.not_eq_true',
    List.all_eq_true, List.any_eq_false, List.mem_map, rankOk, decide_eq_true_eq, forall_exists_index, and_imp,
    forall_apply_eq_imp_iff₂, Bool.not_eq_true, and_assoc]

/-- Parsing what the serializer wrote succeeds and gives back every component of a well-formed description: the sets
of symbols, states, final states and transitions, and the name (`anonymous` if it was empty). -/
theorem parse_serialize_full (d : AutDesc) (hwf : d.WellFormed) :
    ∃ d', parseTimbuk (serialize d) = .ok d' ∧
      d'.name = (if d.name.isEmpty then "anonymous" else d.name) ∧
      d'.symbols ≈ d.symbols ∧ d'.states ≈ d.states ∧ d'.final ≈ d.final ∧ d'.trans ≈ d.trans := by
  refine ⟨(roundTrip (ofS d)).toS, ?_, ?_, ?_, ?_, ?_, ?_⟩
  · unfold parseTimbuk serialize
    rw [String.toList_ofList, parseC_serializeC (ofS d) (wf_of_wellFormed hwf)]
  · show String.ofList (if (d.name.toList).isEmpty then kwAnonymous else d.name.toList) = _
    by_cases h : d.name = ""
    · rw [h]; decide
    · have h1 : d.name.toList ≠ [] := by
        intro e; apply h; rw [← String.ofList_toList (s := d.name), e]
      have h2 : d.name.isEmpty = false := by
        cases hh : d.name.isEmpty with
        | false => rfl
        | true => exact absurd (by simpa using hh) h
      have h3 : (d.name.toList).isEmpty = false := by simpa using h1
      rw [h2, h3]; simp
  · exact sameSet_map_norm ltSym (fun p : String × Int => (p.1.toList, p.2)) (fun p => (String.ofList p.1, p.2))
      (fun a => by simp) d.symbols
  · exact sameSet_map_norm ltStr String.toList String.ofList (fun a => String.ofList_toList) d.states
  · exact sameSet_map_norm ltStr String.toList String.ofList (fun a => String.ofList_toList) d.final
  · exact sameSet_map_norm ltTrans
      (fun t : List String × String × String => (t.1.map String.toList, t.2.1.toList, t.2.2.toList))
      (fun t => (t.1.map String.ofList, String.ofList t.2.1, String.ofList t.2.2))
      (fun a => by simp) d.trans

/-- **C13** `parse ∘ serialise` on well-formed names -/
theorem parse_serialize (d : AutDesc) (hwf : d.WellFormed) :
    ∃ d', parseTimbuk (serialize d) = .ok d' ∧ d'.final ≈ d.final ∧ d'.trans ≈ d.trans := by
  obtain ⟨d', h, _, _, _, hf, ht⟩ := parse_serialize_full d hwf
  exact ⟨d', h, hf, ht⟩

/-! ### non-vacuity -/
namespace TimbukEx

/-- nullary, unary, binary and ternary rules, names containing `-` and `>`, a negative rank, one symbol with two ranks,
duplicates, lists that are not in `std::set` order, an empty final section and an empty name -/
def exD : AutDesc :=
  { name := "", symbols := [("f", 2), ("a", 0), ("b", 0), ("g", 1), ("f", 3), ("neg", -1)],
    states := ["q1", "q0", "q-", ">r", "q0"], final := [],
    trans := [([], "a", "q0"), ([], "b", "q1"), (["q0", "q1"], "f", "q-"), (["q-"], "g", ">r"),
              (["q0", "q1", ">r"], "f", "q0"), ([], "a", "q0")] }

example : exD.WellFormed := by decide

/-- with a name and final states -/
def exE : AutDesc :=
  { name := "A-1", symbols := [("a", 0), ("f", 2)], states := ["q", "r"], final := ["r", "q", "r"],
    trans := [(["q", "r"], "f", "r"), ([], "a", "q"), (["r", "r"], "f", "q")] }

example : exE.WellFormed := by decide

example : ∃ d', parseTimbuk (serialize exD) = .ok d' ∧ d'.final ≈ exD.final ∧ d'.trans ≈ exD.trans :=
  parse_serialize exD (by decide)

-- the round trips, executed
#guard serialize exD = "Ops a:0 b:0 f:2 f:3 g:1 neg:-1 \nAutomaton anonymous\nStates >r q- q0 q1 \nFinal States \n" ++
  "Transitions\na -> q0\nb -> q1\ng(q-) -> >r\nf(q0, q1) -> q-\nf(q0, q1, >r) -> q0\n"
#guard (match parseTimbuk (serialize exD) with
  | .ok d' => d' == ⟨"anonymous", [("a", 0), ("b", 0), ("f", 2), ("f", 3), ("g", 1), ("neg", -1)],
      [">r", "q-", "q0", "q1"], [],
      [([], "a", "q0"), ([], "b", "q1"), (["q-"], "g", ">r"), (["q0", "q1"], "f", "q-"),
       (["q0", "q1", ">r"], "f", "q0")]⟩
  | .error _ => false)
#guard (match parseTimbuk (serialize exE) with
  | .ok d' => d' == ⟨"A-1", [("a", 0), ("f", 2)], ["q", "r"], ["q", "r"],
      [([], "a", "q"), (["q", "r"], "f", "r"), (["r", "r"], "f", "q")]⟩
  | .error _ => false)

/-- not well-formed (a name with a colon): the serialization is rejected, so the hypothesis is needed -/
def exBad : AutDesc := { name := "A", symbols := [], states := ["q:x"], final := [], trans := [] }
example : ¬ exBad.WellFormed := by decide
#guard (match parseTimbuk (serialize exBad) with | .ok _ => false | .error _ => true)

end TimbukEx

end Vata
