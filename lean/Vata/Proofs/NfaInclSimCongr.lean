import Vata.NfaInclSim
import Vata.Proofs.NfaIncl
/-!
# The verdicts of `nfaInclCongrSim` (congruence functor with `NormalFormRelSimulation`)

The model ends certify-then-trust; the certificate of a `true` is the final `relation_` TOGETHER with the simulation pairs
read as rewriting rules `{s} ~ {s, r}` (`simRules`), checked by `congrCertB` (operands disjoint, start macro-states congruent,
bisimulation up to congruence in `A ⊎ B`).  Hence a `true` is right for every relation `R` – a relation that is not a
simulation makes the check fail (`none`), it cannot make the verdict wrong; the unchecked verdict `nfaInclCongrSimRaw` can be
wrong (`Vata/Properties/C09_Sim.lean`).
-/
namespace Vata
open Vata.W
open NfaIncl

/-- every verdict of the model of `CONGR_DEPTH_SIM` is exact – for every relation and all operands -/
theorem nfaInclCongrSim_iff {A B : NFA} {R : Rel} {fuel : Nat} {b : Bool}
    (h : nfaInclCongrSim A B R fuel = some b) : b = true ↔ InclW A B := by
  unfold nfaInclCongrSim at h
  split at h
  · cases h
  · split at h
    · next hc =>
      simp only [Option.some.injEq] at h
      subst h
      exact ⟨fun _ => congrCertB_incl hc, fun _ => rfl⟩
    · cases h
  · next w _ =>
    split at h
    · next hc =>
      simp only [Option.some.injEq] at h
      subst h
      simp only [Bool.and_eq_true, Bool.not_eq_true'] at hc
      constructor
      · intro h; cases h
      · intro hi
        have := hi w hc.1
        rw [hc.2] at this; cases this
    · cases h

end Vata
