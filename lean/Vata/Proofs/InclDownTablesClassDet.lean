import Vata.Proofs.InclDownTablesDump
/-!
# A rule-level criterion for `SymDet` on LOADED top-down tables

`ofRulesTD rs` is `AddTransition(children, symbol, parent)` for every rule in turn.  The rule `r` lands below exactly one ranked
symbol `< 2 ^ 22`: `rankOf r` = the 16 low bits of `r.sym` and, above them, the 6 low bits of the arity
(`mem_eval_ofRulesTD`).  Hence the leaf a ranked symbol `c` selects in the MTBDD of the state `p` is – as a SET, and as a sorted
vector – `tuplesOfRank rs p c`, and

  `∀ p, SymDet 22 (getTD (ofRulesTD rs) p)`  ⇔  no two rules with the same parent and DIFFERENT ranked symbols have the same
  set of children tuples (of that parent under their ranked symbols)

(`symDet_ofRulesTD_iff`, the criterion `symDetRulesB` is executable).  No hypothesis on the symbols or arities (they are taken
modulo `2 ^ 16` / `64`, as the encoding does).  Two rules of different arities `< 64` never collide (their tuples have different
lengths), so the criterion only ever fails for two symbols of the SAME arity – e.g. two nullary symbols of one state.
A simpler sufficient condition: no tuple of a state occurs under two ranked symbols (`symDet_of_tupleOnce`); it is not necessary
(`exNotOnce`).
-/
namespace Vata
namespace InclDownTables
open M BddAbs BddAbsTD BddTraverse InclDown

/-- the ranked symbol below which `AddTransition` puts the rule: 16 symbol bits, 6 arity bits above them -/
def rankOf (r : Rule) : Nat := 2 ^ 16 * (r.kids.length % 64) + r.sym % 2 ^ 16

theorem rankOf_lt (r : Rule) : rankOf r < 2 ^ 22 := by
  unfold rankOf
  have h1 : r.kids.length % 64 < 64 := Nat.mod_lt _ (by decide)
  have h2 : r.sym % 2 ^ 16 < 2 ^ 16 := Nat.mod_lt _ (by decide)
  omega

/-- a number below `2 ^ 22` whose 16 low bits are those of `s` and whose next 6 bits are those of `n` -/
theorem bits_eq_rank {c s n : Nat} (hc : c < 2 ^ 22) :
    ((∀ j, j < 16 → c.testBit j = s.testBit j) ∧ (∀ j, j < 6 → c.testBit (j + 16) = n.testBit j)) ↔
      c = 2 ^ 16 * (n % 64) + s % 2 ^ 16 := by
  have hs : s % 2 ^ 16 < 2 ^ 16 := Nat.mod_lt _ (by decide)
  have hr : ∀ j, (2 ^ 16 * (n % 64) + s % 2 ^ 16).testBit j =
      if j < 16 then s.testBit j else (decide (j - 16 < 6) && n.testBit (j - 16)) := by
    intro j
    rw [Nat.testBit_two_pow_mul_add _ hs]
    split
    · next h => rw [Nat.testBit_mod_two_pow]; simp [h]
    · rw [show (64 : Nat) = 2 ^ 6 from rfl, Nat.testBit_mod_two_pow]
  constructor
  · rintro ⟨h1, h2⟩
    apply Nat.eq_of_testBit_eq
    intro i
    rw [hr]
    split
    · next h => exact h1 i h
    · next h =>
      by_cases h6 : i - 16 < 6
      · have := h2 (i - 16) h6
        rw [show i - 16 + 16 = i by omega] at this
        rw [this]; simp [h6]
      · have : c < 2 ^ i := Nat.lt_of_lt_of_le hc (Nat.pow_le_pow_right (by decide) (by omega))
        rw [Nat.testBit_lt_two_pow this]; simp [h6]
  · intro h
    subst h
    constructor
    · intro j hj; rw [hr, if_pos hj]
    · intro j hj
      rw [hr, if_neg (by omega), Nat.add_sub_cancel]; simp [hj]

/-- **the rules below a ranked symbol of a loaded table** -/
theorem mem_eval_ofRulesTD (rs : List Rule) (p : Nat) {c : Nat} (hc : c < 2 ^ 22) (ks : List Nat) :
    ks ∈ eval (getTD (ofRulesTD rs) p) (bits c) ↔ ∃ r, r ∈ rs ∧ r.kids = ks ∧ r.parent = p ∧ rankOf r = c := by
  have h := hasRuleTD_ofRulesTD_gen rs (bits c) p ks
  unfold HasRuleTD at h
  rw [h]
  constructor
  · rintro ⟨r, hr, h1, h2, h3, h4⟩
    refine ⟨r, hr, h1, h2, ?_⟩
    rw [agrees_symAsgn] at h3
    rw [arOK_iff] at h4
    have := (bits_eq_rank (s := r.sym) (n := ks.length) hc).mp ⟨h3, fun j hj => h4 j hj⟩
    unfold rankOf
    rw [h1]; exact this.symm
  · rintro ⟨r, hr, h1, h2, h3⟩
    have h3' : c = 2 ^ 16 * (ks.length % 64) + r.sym % 2 ^ 16 := by
      rw [← h3, ← h1]; rfl
    obtain ⟨k1, k2⟩ := (bits_eq_rank (s := r.sym) (n := ks.length) hc).mpr h3'
    exact ⟨r, hr, h1, h2, (agrees_symAsgn _ _).mpr k1, (arOK_iff _ _).mpr (fun j hj => k2 j hj)⟩

/-- the children tuples of the rules of `p` below the ranked symbol `c` -/
def tuplesOfRank (rs : List Rule) (p c : Nat) : List (List Nat) :=
  (rs.filter (fun r => r.parent == p && rankOf r == c)).map (·.kids)

theorem mem_tuplesOfRank {rs : List Rule} {p c : Nat} {ks : List Nat} :
    ks ∈ tuplesOfRank rs p c ↔ ∃ r, r ∈ rs ∧ r.kids = ks ∧ r.parent = p ∧ rankOf r = c := by
  simp only [tuplesOfRank, List.mem_map, List.mem_filter, Bool.and_eq_true, beq_iff_eq]
  constructor
  · rintro ⟨r, ⟨h1, h2, h3⟩, h4⟩; exact ⟨r, h1, h4, h2, h3⟩
  · rintro ⟨r, h1, h4, h2, h3⟩; exact ⟨r, ⟨h1, h2, h3⟩, h4⟩

/-- the same set of tuples -/
def sameSetB (X Y : List (List Nat)) : Bool := X.all (fun x => Y.contains x) && Y.all (fun y => X.contains y)

theorem sameSetB_iff {X Y : List (List Nat)} : sameSetB X Y = true ↔ ∀ x, x ∈ X ↔ x ∈ Y := by
  simp only [sameSetB, Bool.and_eq_true, List.all_eq_true, List.contains_iff_mem]
  exact ⟨fun h x => ⟨h.1 x, h.2 x⟩, fun h => ⟨fun x => (h x).mp, fun x => (h x).mpr⟩⟩

/-- **the rule-level criterion**: two rules with the same parent have the same ranked symbol or different sets of children
tuples (of that parent, below their ranked symbols) -/
def symDetRulesB (rs : List Rule) : Bool :=
  rs.all (fun r₁ => rs.all (fun r₂ =>
    r₁.parent != r₂.parent || rankOf r₁ == rankOf r₂ ||
      !sameSetB (tuplesOfRank rs r₁.parent (rankOf r₁)) (tuplesOfRank rs r₂.parent (rankOf r₂))))

theorem sorted_eval_ofRulesTD (rs : List Rule) (p : Nat) (ρ : Nat → Bool) :
    (eval (getTD (ofRulesTD rs) p) ρ).Pairwise (· < ·) :=
  sorted_foldl_addTransition rs [] (fun _ _ => by simp [getTD, eval]) p ρ

/-- two ranked symbols select the same leaf of a loaded table iff the rule sets agree -/
theorem eval_ofRulesTD_eq_iff (rs : List Rule) (p : Nat) {f g : Nat} (hf : f < 2 ^ 22) (hg : g < 2 ^ 22) :
    eval (getTD (ofRulesTD rs) p) (bits f) = eval (getTD (ofRulesTD rs) p) (bits g) ↔
      sameSetB (tuplesOfRank rs p f) (tuplesOfRank rs p g) = true := by
  rw [sameSetB_iff]
  constructor
  · intro h ks
    rw [mem_tuplesOfRank, mem_tuplesOfRank, ← mem_eval_ofRulesTD rs p hf, ← mem_eval_ofRulesTD rs p hg, h]
  · intro h
    refine sortedT_ext (sorted_eval_ofRulesTD rs p _) (sorted_eval_ofRulesTD rs p _) (fun ks => ?_)
    rw [mem_eval_ofRulesTD rs p hf, mem_eval_ofRulesTD rs p hg, ← mem_tuplesOfRank, ← mem_tuplesOfRank]
    exact h ks

/-- **`symDet_ofRulesTD_iff`**: a loaded table is symbol-deterministic (for every state) iff its rule list passes `symDetRulesB` -/
theorem symDet_ofRulesTD_iff (rs : List Rule) :
    (∀ p, SymDet 22 (getTD (ofRulesTD rs) p)) ↔ symDetRulesB rs = true := by
  constructor
  · intro h
    simp only [symDetRulesB, List.all_eq_true, Bool.or_eq_true, bne_iff_ne, ne_eq, beq_iff_eq, Bool.not_eq_true']
    intro r₁ h1 r₂ h2
    by_cases hp : r₁.parent = r₂.parent
    · by_cases hk : rankOf r₁ = rankOf r₂
      · exact Or.inl (Or.inr hk)
      · refine Or.inr ?_
        cases hs : sameSetB (tuplesOfRank rs r₁.parent (rankOf r₁)) (tuplesOfRank rs r₂.parent (rankOf r₂)) with
        | false => rfl
        | true =>
          exfalso
          rw [← hp] at hs
          have he := (eval_ofRulesTD_eq_iff rs r₁.parent (rankOf_lt r₁) (rankOf_lt r₂)).mpr hs
          have hne : eval (getTD (ofRulesTD rs) r₁.parent) (bits (rankOf r₁)) ≠ [] :=
            List.ne_nil_of_mem ((mem_eval_ofRulesTD rs r₁.parent (rankOf_lt r₁) r₁.kids).mpr ⟨r₁, h1, rfl, rfl, rfl⟩)
          exact hk (h r₁.parent _ _ (rankOf_lt r₁) (rankOf_lt r₂) hne he)
    · exact Or.inl (Or.inl hp)
  · intro h p f g hf hg hne he
    simp only [symDetRulesB, List.all_eq_true, Bool.or_eq_true, bne_iff_ne, ne_eq, beq_iff_eq, Bool.not_eq_true'] at h
    obtain ⟨ks, hks⟩ := List.exists_mem_of_ne_nil _ hne
    obtain ⟨r₁, m1, _, p1, k1⟩ := (mem_eval_ofRulesTD rs p hf ks).mp hks
    obtain ⟨r₂, m2, _, p2, k2⟩ := (mem_eval_ofRulesTD rs p hg ks).mp (by rw [← he]; exact hks)
    rcases h r₁ m1 r₂ m2 with (h' | h') | h'
    · exact absurd (by rw [p1, p2]) h'
    · rw [← k1, ← k2]; exact h'
    · rw [p1, p2, k1, k2, (eval_ofRulesTD_eq_iff rs p hf hg).mp he] at h'
      cases h'

instance (rs : List Rule) : Decidable (∀ p, SymDet 22 (getTD (ofRulesTD rs) p)) :=
  decidable_of_iff _ (symDet_ofRulesTD_iff rs).symm

/-- a simpler SUFFICIENT condition: no children tuple of a state occurs below two ranked symbols -/
def tupleOnceB (rs : List Rule) : Bool :=
  rs.all (fun r₁ => rs.all (fun r₂ => r₁.parent != r₂.parent || r₁.kids != r₂.kids || rankOf r₁ == rankOf r₂))

theorem symDet_of_tupleOnce {rs : List Rule} (h : tupleOnceB rs = true) : ∀ p, SymDet 22 (getTD (ofRulesTD rs) p) := by
  intro p f g hf hg hne he
  simp only [tupleOnceB, List.all_eq_true, Bool.or_eq_true, bne_iff_ne, ne_eq, beq_iff_eq] at h
  obtain ⟨ks, hks⟩ := List.exists_mem_of_ne_nil _ hne
  obtain ⟨r₁, m1, e1, p1, k1⟩ := (mem_eval_ofRulesTD rs p hf ks).mp hks
  obtain ⟨r₂, m2, e2, p2, k2⟩ := (mem_eval_ofRulesTD rs p hg ks).mp (by rw [← he]; exact hks)
  rcases h r₁ m1 r₂ m2 with (h' | h') | h'
  · exact absurd (by rw [p1, p2]) h'
  · exact absurd (by rw [e1, e2]) h'
  · rw [← k1, ← k2]; exact h'

/-! ### the ranked symbols of a loaded table: a canonical `syms` -/

/-- the ranked symbols of a rule list, increasing -/
def rankSyms (rs : List Rule) : List Nat := InclUp.normS (rs.map rankOf)

/-- `rankSyms rs` is increasing, below `2 ^ 22`, and covers the table loaded from any sub-list `rs'` of `rs`: the three hypotheses on
`syms` of `C07_traverse_downward_algorithm` hold for it -/
theorem rankSyms_ok {rs' rs : List Rule} (hsub : ∀ r, r ∈ rs' → r ∈ rs) :
    (rankSyms rs).Pairwise (· < ·) ∧ (∀ c, c ∈ rankSyms rs → c < 2 ^ 22) ∧
    (∀ p c, c < 2 ^ 22 → eval (getTD (ofRulesTD rs') p) (bits c) ≠ [] → c ∈ rankSyms rs) := by
  refine ⟨InclUp.normS_sorted _, fun c hc => ?_, fun p c hc hne => ?_⟩
  · obtain ⟨r, _, rfl⟩ := List.mem_map.mp (InclUp.mem_normS.mp hc)
    exact rankOf_lt r
  · obtain ⟨ks, hks⟩ := List.exists_mem_of_ne_nil _ hne
    obtain ⟨r, hr, _, _, h4⟩ := (mem_eval_ofRulesTD rs' p hc ks).mp hks
    exact InclUp.mem_normS.mpr (List.mem_map.mpr ⟨r, hsub r hr, h4⟩)

/-! ### examples, both ways -/

/-- `a → 3`, `b → 4`, `g(3,3) → 9`, `g(4,4) → 9`: symbol-deterministic -/
example : symDetRulesB BddAbsEx.rsB = true := by decide
example : ∀ p, SymDet 22 (getTD (ofRulesTD BddAbsEx.rsB) p) := (symDet_ofRulesTD_iff _).mpr (by decide)
/-- `a → 1`, `b → 1`, `g(1,1) → 2`: the state 1 has the class `{a, b}` -/
example : symDetRulesB BddAbsEx.rsA = false := by decide
example : ¬ ∀ p, SymDet 22 (getTD (ofRulesTD BddAbsEx.rsA) p) := fun h => by
  have := (symDet_ofRulesTD_iff _).mp h
  revert this; decide
/-- `f(1) → 2`, `h(1) → 2`, `h(3) → 2`: the tuple `(1)` of state 2 occurs below `f` and `h`, yet the tuple sets `{(1)}`,
`{(1), (3)}` differ: symbol-deterministic, but `tupleOnceB` fails -/
def exNotOnce : List Rule := [⟨5, [1], 2⟩, ⟨7, [1], 2⟩, ⟨7, [3], 2⟩]
example : symDetRulesB exNotOnce = true ∧ tupleOnceB exNotOnce = false := by decide
/-- the symbols are taken modulo `2 ^ 16`: `65536 + 5` is the symbol `5` of the encoding -/
example : symDetRulesB [⟨5, [1], 2⟩, ⟨65541, [1], 2⟩] = true ∧ symDetRulesB [⟨5, [1], 2⟩, ⟨6, [1], 2⟩] = false := by decide

end InclDownTables
end Vata
