import Vata.Proofs.NfaIncl
import Vata.Proofs.TrimAux
/-!
# The exploration of `nfaInclAC` is right by itself, and total

The main theorems of `Vata/Proofs/NfaIncl.lean` trust only the final Boolean checks.  Here the work-list algorithm of the
antichain model is analysed:

* `runAC_error_ok`   : when the exploration ends with `return false` at the word `w`, then `A` accepts `w` and `B` does not
                       (so the final check never turns a `false` run into `none`);
* `runAC_ok_cert`    : when it ends with `return true`, the final antichain passes `nfaUpCertB`;
* `runAC_terminates` : it ends within `2 · (|I_A| + |Δ_A|) · 2^(|I_B| + |Δ_B|)` picked pairs;
* `nfaInclAC_total`, `nfaInclAC_complete` : above that bound `nfaInclAC` returns a verdict, hence the right one;
* `checkNfaInclAC_total`, `checkNfaInclAC_complete` : the same for the model of the dispatcher.
-/
namespace Vata
open Vata.W
namespace NfaIncl

/-! ### basic facts on the list operations -/

/-- `(q, S)` is subsumed by the antichain `P` -/
def Sub (P : List Item) (q : Nat) (S : List Nat) : Prop := ∃ j, j ∈ P ∧ j.q = q ∧ ∀ x, x ∈ j.S → x ∈ S

theorem subsumed_iff {P : List Item} {q : Nat} {S : List Nat} : subsumed P q S = true ↔ Sub P q S := by
  simp only [subsumed, List.any_eq_true, Bool.and_eq_true, beq_iff_eq, subB_iff, Sub]

theorem Sub.mono {P : List Item} {q : Nat} {S S' : List Nat} (h : Sub P q S) (hS : ∀ x, x ∈ S → x ∈ S') :
    Sub P q S' := by
  obtain ⟨j, hj, hq, hs⟩ := h
  exact ⟨j, hj, hq, fun x hx => hS x (hs x hx)⟩

theorem mem_refine {P : List Item} {q : Nat} {S : List Nat} {i : Item} :
    i ∈ refine P q S ↔ i ∈ P ∧ ¬ (i.q = q ∧ ∀ x, x ∈ S → x ∈ i.S) := by
  simp only [refine, List.mem_filter, Bool.not_eq_true', Bool.and_eq_false_iff, beq_eq_false_iff_ne, ne_eq,
    not_and]
  constructor
  · rintro ⟨h1, h2⟩
    refine ⟨h1, fun hq hs => ?_⟩
    rcases h2 with h2 | h2
    · exact h2 hq
    · rw [subB_iff.mpr hs] at h2; cases h2
  · rintro ⟨h1, h2⟩
    refine ⟨h1, ?_⟩
    by_cases hq : i.q = q
    · right
      cases hb : Vata.subB S i.S with
      | false => rfl
      | true => exact (h2 hq (subB_iff.mp hb)).elim
    · exact Or.inl hq

theorem mem_insNext {it x : Item} : ∀ {l : List Item}, x ∈ insNext it l ↔ x = it ∨ x ∈ l
  | [] => by simp [insNext]
  | y :: l => by
    unfold insNext
    split
    · simp
    · rw [List.mem_cons, mem_insNext (l := l), List.mem_cons]
      constructor
      · rintro (h | h | h)
        · exact Or.inr (Or.inl h)
        · exact Or.inl h
        · exact Or.inr (Or.inr h)
      · rintro (h | h | h)
        · exact Or.inr (Or.inl h)
        · exact Or.inl h
        · exact Or.inr (Or.inr h)

theorem length_insNext {it : Item} : ∀ {N : List Item}, (insNext it N).length = N.length + 1
  | [] => rfl
  | x :: N => by
    unfold insNext
    split
    · rfl
    · simp [length_insNext (N := N)]

/-! ### `addPair` -/

theorem addPair_pos {st : St} {it : Item} (h : subsumed st.antichain it.q it.S = true) : addPair st it = st := by
  unfold addPair; rw [if_pos h]

theorem addPair_neg {st : St} {it : Item} (h : subsumed st.antichain it.q it.S = false) :
    addPair st it = ⟨refine st.antichain it.q it.S ++ [it],
      if subsumed st.next it.q it.S then st.next else insNext it (refine st.next it.q it.S)⟩ := by
  unfold addPair; rw [if_neg (by rw [h]; exact Bool.false_ne_true)]

theorem mem_addPair_antichain {st : St} {it i : Item} (h : i ∈ (addPair st it).antichain) :
    i ∈ st.antichain ∨ i = it := by
  cases hs : subsumed st.antichain it.q it.S with
  | true => rw [addPair_pos hs] at h; exact Or.inl h
  | false =>
    rw [addPair_neg hs] at h
    rcases List.mem_append.mp h with h | h
    · exact Or.inl (mem_refine.mp h).1
    · exact Or.inr (List.mem_singleton.mp h)

theorem mem_addPair_next {st : St} {it i : Item} (h : i ∈ (addPair st it).next) : i ∈ st.next ∨ i = it := by
  cases hs : subsumed st.antichain it.q it.S with
  | true => rw [addPair_pos hs] at h; exact Or.inl h
  | false =>
    rw [addPair_neg hs] at h
    simp only at h
    split at h
    · exact Or.inl h
    · rcases mem_insNext.mp h with h | h
      · exact Or.inr h
      · exact Or.inl (mem_refine.mp h).1

/-- subsumption by the antichain is never lost -/
theorem addPair_sub_mono {st : St} {it : Item} {q : Nat} {S : List Nat} (h : Sub st.antichain q S) :
    Sub (addPair st it).antichain q S := by
  cases hs : subsumed st.antichain it.q it.S with
  | true => rw [addPair_pos hs]; exact h
  | false =>
    rw [addPair_neg hs]
    obtain ⟨j, hj, hq, hsub⟩ := h
    by_cases hr : j.q = it.q ∧ ∀ x, x ∈ it.S → x ∈ j.S
    · exact ⟨it, List.mem_append_right _ (List.mem_singleton.mpr rfl), hr.1.symm.trans hq,
        fun x hx => hsub x (hr.2 x hx)⟩
    · exact ⟨j, List.mem_append_left _ (mem_refine.mpr ⟨hj, hr⟩), hq, hsub⟩

/-- the added pair is subsumed afterwards -/
theorem addPair_sub_self (st : St) (it : Item) : Sub (addPair st it).antichain it.q it.S := by
  cases hs : subsumed st.antichain it.q it.S with
  | true => rw [addPair_pos hs]; exact subsumed_iff.mp hs
  | false =>
    rw [addPair_neg hs]
    exact ⟨it, List.mem_append_right _ (List.mem_singleton.mpr rfl), rfl, fun _ h => h⟩

/-! ### `makePost`: a generic induction -/

/-- the pair `MakePost` builds for the transition `e` -/
def succItem (B : NFA) (it : Item) (e : Nat × Nat × Nat) : Item :=
  ⟨e.2.2, macroStep B it.S e.2.1, it.w ++ [e.2.1]⟩

/-- the exit test of `MakePost` / `Init` -/
def badB (A B : NFA) (i : Item) : Bool := A.final.contains i.q && !W.accepting B i.S

theorem makePost_cons (A B : NFA) (it : Item) (e : Nat × Nat × Nat) (es : List (Nat × Nat × Nat)) (st : St) :
    makePost A B it (e :: es) st =
      if e.1 == it.q then
        (if badB A B (succItem B it e) then .error (succItem B it e).w
         else makePost A B it es (addPair st (succItem B it e)))
      else makePost A B it es st := rfl

theorem not_badB {A B : NFA} {i : Item} (h : ¬ badB A B i = true) : i.q ∈ A.final → W.accepting B i.S = true := by
  intro hf
  simp only [badB, Bool.and_eq_true, Bool.not_eq_true', not_and, Bool.not_eq_false] at h
  exact h (List.contains_iff_mem.mpr hf)

/-- a property preserved by `addPair` with the pairs `MakePost` builds is preserved by `makePost` -/
theorem makePost_ind {A B : NFA} {it : Item} (Q : St → Prop)
    (hadd : ∀ st e, e ∈ A.trans → e.1 = it.q → ¬ badB A B (succItem B it e) = true → Q st →
      Q (addPair st (succItem B it e))) :
    ∀ (es : List (Nat × Nat × Nat)) (st st' : St), (∀ e, e ∈ es → e ∈ A.trans) → Q st →
      makePost A B it es st = .ok st' → Q st'
  | [], st, st', _, hQ, h => by
    simp only [makePost, Except.ok.injEq] at h
    subst h; exact hQ
  | e :: es, st, st', hes, hQ, h => by
    have hes' : ∀ e', e' ∈ es → e' ∈ A.trans := fun e' h' => hes e' (List.mem_cons_of_mem _ h')
    rw [makePost_cons] at h
    split at h
    · next hq =>
      split at h
      · cases h
      · next hb =>
        exact makePost_ind Q hadd es _ st' hes'
          (hadd st e (hes e List.mem_cons_self) (by simpa using hq) hb hQ) h
    · exact makePost_ind Q hadd es st st' hes' hQ h

/-- a `return false` of `makePost` comes from a bad successor -/
theorem makePost_error {A B : NFA} {it : Item} : ∀ (es : List (Nat × Nat × Nat)) (st : St) (w : List Nat),
    makePost A B it es st = .error w →
      ∃ e, e ∈ es ∧ e.1 = it.q ∧ badB A B (succItem B it e) = true ∧ w = (succItem B it e).w
  | [], st, w, h => by simp [makePost] at h
  | e :: es, st, w, h => by
    rw [makePost_cons] at h
    split at h
    · next hq =>
      split at h
      · next hb =>
        simp only [Except.error.injEq] at h
        exact ⟨e, List.mem_cons_self, by simpa using hq, hb, h.symm⟩
      · obtain ⟨e', he', h'⟩ := makePost_error es _ w h
        exact ⟨e', List.mem_cons_of_mem _ he', h'⟩
    · obtain ⟨e', he', h'⟩ := makePost_error es _ w h
      exact ⟨e', List.mem_cons_of_mem _ he', h'⟩

/-! ### the words of the pairs -/

/-- the word of a pair reaches it: `q ∈ run A w` and `S = run B w` -/
def WordOK (A B : NFA) (i : Item) : Prop :=
  (∃ s, s ∈ A.start ∧ Path A s i.w i.q) ∧ ∀ x, x ∈ i.S ↔ x ∈ run B i.w

def AllOK (A B : NFA) (st : St) : Prop :=
  (∀ i, i ∈ st.antichain → WordOK A B i) ∧ (∀ i, i ∈ st.next → WordOK A B i)

theorem addPair_ok {A B : NFA} {st : St} {it : Item} (h : AllOK A B st) (hi : WordOK A B it) :
    AllOK A B (addPair st it) := by
  constructor
  · intro i hm
    rcases mem_addPair_antichain hm with hm | rfl
    · exact h.1 i hm
    · exact hi
  · intro i hm
    rcases mem_addPair_next hm with hm | rfl
    · exact h.2 i hm
    · exact hi

theorem succItem_ok {A B : NFA} {it : Item} {e : Nat × Nat × Nat} (hi : WordOK A B it) (he : e ∈ A.trans)
    (hq : e.1 = it.q) : WordOK A B (succItem B it e) := by
  obtain ⟨⟨s, hs, hp⟩, hS⟩ := hi
  constructor
  · refine ⟨s, hs, ?_⟩
    apply hp.snoc
    show (it.q, e.2.1, e.2.2) ∈ A.trans
    rw [← hq]; exact he
  · intro x
    show x ∈ normS (stepW B it.S e.2.1) ↔ x ∈ run B (it.w ++ [e.2.1])
    rw [mem_normS, W.run_snoc, W.stepW_congr B hS]

/-- a bad pair whose word reaches it is a counterexample -/
theorem bad_counterexample {A B : NFA} {i : Item} (hi : WordOK A B i) (hb : badB A B i = true) :
    acceptsW A i.w = true ∧ acceptsW B i.w = false := by
  simp only [badB, Bool.and_eq_true, Bool.not_eq_true', List.contains_iff_mem] at hb
  obtain ⟨⟨s, hs, hp⟩, hS⟩ := hi
  constructor
  · exact (acceptsW_iff A i.w).mpr ⟨s, hs, i.q, hb.1, hp⟩
  · show W.accepting B (run B i.w) = false
    rw [← W.accepting_congr B hS]; exact hb.2

theorem makePost_ok {A B : NFA} {it : Item} (hi : WordOK A B it) {st st' : St} (h : AllOK A B st)
    (hp : makePost A B it A.trans st = .ok st') : AllOK A B st' :=
  makePost_ind (AllOK A B) (fun _ _ he hq _ hQ => addPair_ok hQ (succItem_ok hi he hq)) A.trans st st'
    (fun _ h => h) h hp

theorem makePost_error_ok {A B : NFA} {it : Item} (hi : WordOK A B it) {st : St} {w : List Nat}
    (hp : makePost A B it A.trans st = .error w) : acceptsW A w = true ∧ acceptsW B w = false := by
  obtain ⟨e, he, hq, hb, rfl⟩ := makePost_error A.trans st w hp
  exact bad_counterexample (succItem_ok hi he hq) hb

theorem loopAC_ok {A B : NFA} : ∀ (n : Nat) (st : St), AllOK A B st →
    (∀ P, loopAC A B n st = some (.ok P) → ∀ i, i ∈ P → WordOK A B i) ∧
    (∀ w, loopAC A B n st = some (.error w) → acceptsW A w = true ∧ acceptsW B w = false)
  | 0, _, _ => by constructor <;> intro _ h <;> simp [loopAC] at h
  | n+1, st, hst => by
    unfold loopAC
    split
    · constructor
      · intro P h
        simp only [Option.some.injEq, Except.ok.injEq] at h
        subst h; exact hst.1
      · intro w h; simp at h
    · next it rest hn =>
      have hit : WordOK A B it := hst.2 it (by rw [hn]; exact List.mem_cons_self)
      have hst' : AllOK A B ⟨st.antichain, rest⟩ :=
        ⟨hst.1, fun i hi => hst.2 i (by rw [hn]; exact List.mem_cons_of_mem _ hi)⟩
      split
      · next w hw =>
        constructor
        · intro P h; simp at h
        · intro w' h
          simp only [Option.some.injEq, Except.error.injEq] at h
          subst h; exact makePost_error_ok hit hw
      · next st' h' => exact loopAC_ok n st' (makePost_ok hit hst' h')

theorem initAC_cons (A B : NFA) (S0 : List Nat) (s : Nat) (ss : List Nat) (st : St) :
    initAC A B S0 (s :: ss) st =
      if badB A B ⟨s, S0, []⟩ then .error [] else initAC A B S0 ss (addPair st ⟨s, S0, []⟩) := rfl

theorem initItem_ok {A B : NFA} {s : Nat} (hs : s ∈ A.start) : WordOK A B ⟨s, normS B.start, []⟩ :=
  ⟨⟨s, hs, .nil s⟩, fun _ => mem_normS⟩

/-- a property preserved by `addPair` with the start pairs is preserved by `initAC` -/
theorem initAC_ind {A B : NFA} (Q : St → Prop)
    (hadd : ∀ st s, s ∈ A.start → ¬ badB A B ⟨s, normS B.start, []⟩ = true → Q st →
      Q (addPair st ⟨s, normS B.start, []⟩)) :
    ∀ (ss : List Nat) (st st' : St), (∀ s, s ∈ ss → s ∈ A.start) → Q st →
      initAC A B (normS B.start) ss st = .ok st' → Q st'
  | [], st, st', _, hQ, h => by
    simp only [initAC, Except.ok.injEq] at h
    subst h; exact hQ
  | s :: ss, st, st', hss, hQ, h => by
    rw [initAC_cons] at h
    split at h
    · cases h
    · next hb =>
      exact initAC_ind Q hadd ss _ st' (fun s' h' => hss s' (List.mem_cons_of_mem _ h'))
        (hadd st s (hss s List.mem_cons_self) hb hQ) h

theorem initAC_error {A B : NFA} : ∀ (ss : List Nat) (st : St) (w : List Nat),
    initAC A B (normS B.start) ss st = .error w →
      ∃ s, s ∈ ss ∧ badB A B ⟨s, normS B.start, []⟩ = true ∧ w = []
  | [], st, w, h => by simp [initAC] at h
  | s :: ss, st, w, h => by
    rw [initAC_cons] at h
    split at h
    · next hb =>
      simp only [Except.error.injEq] at h
      exact ⟨s, List.mem_cons_self, hb, h.symm⟩
    · obtain ⟨s', hs', h'⟩ := initAC_error ss _ w h
      exact ⟨s', List.mem_cons_of_mem _ hs', h'⟩

theorem initAC_ok {A B : NFA} {st' : St} (h : initAC A B (normS B.start) A.start ⟨[], []⟩ = .ok st') :
    AllOK A B st' :=
  initAC_ind (AllOK A B) (fun _ _ hs _ hQ => addPair_ok hQ (initItem_ok hs)) A.start _ st' (fun _ h => h)
    ⟨fun _ h => by simp at h, fun _ h => by simp at h⟩ h

/-- a `return false` of the exploration is justified -/
theorem runAC_error_ok {A B : NFA} {fuel : Nat} {w : List Nat} (h : runAC A B fuel = some (.error w)) :
    acceptsW A w = true ∧ acceptsW B w = false := by
  unfold runAC at h
  split at h
  · next w' hw =>
    simp only [Option.some.injEq, Except.error.injEq] at h
    subst h
    obtain ⟨s, hs, hb, rfl⟩ := initAC_error A.start _ _ hw
    exact bad_counterexample (i := ⟨s, normS B.start, []⟩) (initItem_ok hs) hb
  · next st hst => exact (loopAC_ok fuel st (initAC_ok hst)).2 w h

/-- the pairs of a finished `true` run carry words that reach them -/
theorem runAC_ok_words {A B : NFA} {fuel : Nat} {P : List Item} (h : runAC A B fuel = some (.ok P)) :
    ∀ i, i ∈ P → WordOK A B i := by
  unfold runAC at h
  split at h
  · simp at h
  · next st hst => exact (loopAC_ok fuel st (initAC_ok hst)).1 P h

/-! ### the antichain of a finished run is a certificate -/

/-- all successors of the pair are subsumed by `P` -/
def Done (A B : NFA) (P : List Item) (i : Item) : Prop :=
  ∀ a q', (i.q, a, q') ∈ A.trans → Sub P q' (stepW B i.S a)

/-- the invariant of the exploration; `H` describes the pair being processed -/
structure Inv (A B : NFA) (H : Item → Prop) (st : St) : Prop where
  next_sub : ∀ i, i ∈ st.next → i ∈ st.antichain
  done : ∀ i, i ∈ st.antichain → i ∈ st.next ∨ Done A B st.antichain i ∨ H i
  good : ∀ i, i ∈ st.antichain → i.q ∈ A.final → W.accepting B i.S = true

theorem addPair_inv {A B : NFA} {H : Item → Prop} {st : St} {it : Item} (h : Inv A B H st)
    (hg : it.q ∈ A.final → W.accepting B it.S = true) : Inv A B H (addPair st it) := by
  cases hs : subsumed st.antichain it.q it.S with
  | true => rw [addPair_pos hs]; exact h
  | false =>
    have hmono : ∀ {q S}, Sub st.antichain q S → Sub (addPair st it).antichain q S := addPair_sub_mono
    -- the work-list is inside the antichain, so the pair is not subsumed there either
    have hsn : ¬ subsumed st.next it.q it.S = true := by
      intro hn
      obtain ⟨j, hj, hq, hsub⟩ := subsumed_iff.mp hn
      have := subsumed_iff.mpr ⟨j, h.next_sub j hj, hq, hsub⟩
      rw [hs] at this; cases this
    have hnext : (addPair st it).next = insNext it (refine st.next it.q it.S) := by
      rw [addPair_neg hs]; simp only; rw [if_neg hsn]
    have hanti : (addPair st it).antichain = refine st.antichain it.q it.S ++ [it] := by
      rw [addPair_neg hs]
    refine ⟨?_, ?_, ?_⟩
    · intro i hi
      rw [hnext] at hi
      rw [hanti]
      rcases mem_insNext.mp hi with rfl | hi
      · exact List.mem_append_right _ (List.mem_singleton.mpr rfl)
      · obtain ⟨h1, h2⟩ := mem_refine.mp hi
        exact List.mem_append_left _ (mem_refine.mpr ⟨h.next_sub i h1, h2⟩)
    · intro i hi
      have hi' := hi
      rw [hanti] at hi'
      rcases List.mem_append.mp hi' with hi' | hi'
      · obtain ⟨h1, h2⟩ := mem_refine.mp hi'
        rcases h.done i h1 with hd | hd | hd
        · left; rw [hnext]; exact mem_insNext.mpr (Or.inr (mem_refine.mpr ⟨hd, h2⟩))
        · right; left; intro a q' he; exact hmono (hd a q' he)
        · exact Or.inr (Or.inr hd)
      · left; rw [hnext, List.mem_singleton.mp hi']; exact mem_insNext.mpr (Or.inl rfl)
    · intro i hi
      rcases mem_addPair_antichain hi with hi | rfl
      · exact h.good i hi
      · exact hg

/-- the state `MakePost` leaves: the invariant, nothing lost, and all successors of the picked pair subsumed -/
theorem makePost_inv {A B : NFA} {it : Item} {H : Item → Prop} : ∀ (es : List (Nat × Nat × Nat)) (st st' : St),
    (∀ e, e ∈ es → e ∈ A.trans) → Inv A B H st → makePost A B it es st = .ok st' →
      Inv A B H st' ∧ (∀ q S, Sub st.antichain q S → Sub st'.antichain q S) ∧
      (∀ e, e ∈ es → e.1 = it.q → Sub st'.antichain e.2.2 (stepW B it.S e.2.1))
  | [], st, st', _, hI, h => by
    simp only [makePost, Except.ok.injEq] at h
    subst h
    exact ⟨hI, fun _ _ h => h, fun _ he => by simp at he⟩
  | e :: es, st, st', hes, hI, h => by
    have hes' : ∀ e', e' ∈ es → e' ∈ A.trans := fun e' h' => hes e' (List.mem_cons_of_mem _ h')
    rw [makePost_cons] at h
    split at h
    · next hq =>
      split at h
      · cases h
      · next hb =>
        obtain ⟨h1, h2, h3⟩ := makePost_inv es _ st' hes' (addPair_inv hI (not_badB hb)) h
        refine ⟨h1, fun q S hs => h2 q S (addPair_sub_mono hs), ?_⟩
        intro e' he' hq'
        rcases List.mem_cons.mp he' with rfl | he'
        · have := h2 _ _ (addPair_sub_self st (succItem B it e'))
          exact this.mono (fun x hx => mem_normS.mp hx)
        · exact h3 e' he' hq'
    · next hq =>
      obtain ⟨h1, h2, h3⟩ := makePost_inv es st st' hes' hI h
      refine ⟨h1, h2, ?_⟩
      intro e' he' hq'
      rcases List.mem_cons.mp he' with rfl | he'
      · exact (hq (by simpa using hq')).elim
      · exact h3 e' he' hq'

/-- what a finished `true` run leaves -/
structure CertP (A B : NFA) (P : List Item) : Prop where
  start : ∀ s, s ∈ A.start → Sub P s B.start
  closed : ∀ i, i ∈ P → Done A B P i
  good : ∀ i, i ∈ P → i.q ∈ A.final → W.accepting B i.S = true

theorem loopAC_cert {A B : NFA} : ∀ (n : Nat) (st : St) (P : List Item), Inv A B (fun _ => False) st →
    (∀ s, s ∈ A.start → Sub st.antichain s B.start) → loopAC A B n st = some (.ok P) → CertP A B P
  | 0, _, _, _, _, h => by simp [loopAC] at h
  | n+1, st, P, hI, hS, h => by
    unfold loopAC at h
    split at h
    · next hn =>
      simp only [Option.some.injEq, Except.ok.injEq] at h
      subst h
      refine ⟨hS, ?_, hI.good⟩
      intro i hi
      rcases hI.done i hi with hd | hd | hd
      · rw [hn] at hd; simp at hd
      · exact hd
      · exact hd.elim
    · next it rest hn =>
      split at h
      · simp at h
      · next st' h' =>
        have hI' : Inv A B (fun i => i = it) ⟨st.antichain, rest⟩ := by
          refine ⟨?_, ?_, hI.good⟩
          · intro i hi; exact hI.next_sub i (by rw [hn]; exact List.mem_cons_of_mem _ hi)
          · intro i hi
            rcases hI.done i hi with hd | hd | hd
            · rw [hn] at hd
              rcases List.mem_cons.mp hd with hd | hd
              · exact Or.inr (Or.inr hd)
              · exact Or.inl hd
            · exact Or.inr (Or.inl hd)
            · exact hd.elim
        obtain ⟨h1, h2, h3⟩ := makePost_inv A.trans _ st' (fun _ h => h) hI' h'
        apply loopAC_cert n st' P ?_ (fun s hs => h2 _ _ (hS s hs)) h
        refine ⟨h1.next_sub, ?_, h1.good⟩
        intro i hi
        rcases h1.done i hi with hd | hd | hd
        · exact Or.inl hd
        · exact Or.inr (Or.inl hd)
        · right; left
          subst hd
          intro a q' he
          exact h3 (i.q, a, q') he rfl

theorem initAC_inv {A B : NFA} : ∀ (ss : List Nat) (st st' : St), Inv A B (fun _ => False) st →
    initAC A B (normS B.start) ss st = .ok st' →
      Inv A B (fun _ => False) st' ∧ (∀ q S, Sub st.antichain q S → Sub st'.antichain q S) ∧
      (∀ s, s ∈ ss → Sub st'.antichain s B.start)
  | [], st, st', hI, h => by
    simp only [initAC, Except.ok.injEq] at h
    subst h
    exact ⟨hI, fun _ _ h => h, fun _ hs => by simp at hs⟩
  | s :: ss, st, st', hI, h => by
    rw [initAC_cons] at h
    split at h
    · cases h
    · next hb =>
      obtain ⟨h1, h2, h3⟩ := initAC_inv ss _ st' (addPair_inv hI (not_badB hb)) h
      refine ⟨h1, fun q S hs => h2 q S (addPair_sub_mono hs), ?_⟩
      intro s' hs'
      rcases List.mem_cons.mp hs' with rfl | hs'
      · have := h2 _ _ (addPair_sub_self st ⟨s', normS B.start, []⟩)
        exact this.mono (fun x hx => mem_normS.mp hx)
      · exact h3 s' hs'

theorem runAC_ok_certP {A B : NFA} {fuel : Nat} {P : List Item} (h : runAC A B fuel = some (.ok P)) :
    CertP A B P := by
  unfold runAC at h
  split at h
  · simp at h
  · next st hst =>
    have h0 : Inv A B (fun _ => False) ⟨[], []⟩ :=
      ⟨fun _ h => by simp at h, fun _ h => by simp at h, fun _ h => by simp at h⟩
    obtain ⟨h1, _, h3⟩ := initAC_inv A.start _ st h0 hst
    exact loopAC_cert fuel st P h1 h3 h

def pairs (P : List Item) : List (Nat × List Nat) := P.map (fun i => (i.q, i.S))

theorem certP_upCertB {A B : NFA} {P : List Item} (h : CertP A B P) : nfaUpCertB A B (pairs P) = true := by
  simp only [nfaUpCertB, pairs, Bool.and_eq_true, List.all_eq_true, List.any_eq_true, beq_iff_eq, subB_iff,
    Bool.or_eq_true, bne_iff_ne, ne_eq, Bool.not_eq_true', List.mem_map]
  refine ⟨⟨?_, ?_⟩, ?_⟩
  · intro s hs
    obtain ⟨j, hj, hq, hsub⟩ := h.start s hs
    exact ⟨_, ⟨j, hj, rfl⟩, hq, hsub⟩
  · rintro _ ⟨i, hi, rfl⟩ e he
    by_cases hq : e.1 = i.q
    · right
      obtain ⟨j, hj, hq', hsub⟩ := h.closed i hi e.2.1 e.2.2 (by rw [← hq]; exact he)
      exact ⟨_, ⟨j, hj, rfl⟩, hq', hsub⟩
    · exact Or.inl hq
  · rintro _ ⟨i, hi, rfl⟩
    by_cases hf : i.q ∈ A.final
    · exact Or.inr (h.good i hi hf)
    · left
      cases hc : A.final.contains i.q with
      | false => rfl
      | true => exact (hf (List.contains_iff_mem.mp hc)).elim

/-- the antichain of a finished `true` run passes the certificate check -/
theorem runAC_ok_cert {A B : NFA} {fuel : Nat} {P : List Item} (h : runAC A B fuel = some (.ok P)) :
    nfaUpCertB A B (P.map (fun i => (i.q, i.S))) = true :=
  certP_upCertB (runAC_ok_certP h)

/-- whenever the exploration ends, `nfaInclAC` returns its verdict -/
theorem nfaInclAC_of_runAC {A B : NFA} {fuel : Nat} {r : Res (List Item)} (h : runAC A B fuel = some r) :
    ∃ v, nfaInclAC A B fuel = some v := by
  unfold nfaInclAC
  rw [h]
  cases r with
  | ok P =>
    simp only
    rw [if_pos (runAC_ok_cert h)]
    exact ⟨_, rfl⟩
  | error w =>
    simp only
    obtain ⟨h1, h2⟩ := runAC_error_ok h
    rw [h1, h2]
    exact ⟨_, rfl⟩

/-! ### termination of the exploration -/

def subsets : List Nat → List (List Nat)
  | [] => [[]]
  | x :: l => subsets l ++ (subsets l).map (fun T => x :: T)

theorem filter_mem_subsets (p : Nat → Bool) : ∀ l : List Nat, l.filter p ∈ subsets l
  | [] => by simp [subsets]
  | x :: l => by
    simp only [subsets, List.mem_append, List.mem_map, List.filter_cons]
    split
    · exact Or.inr ⟨_, filter_mem_subsets p l, rfl⟩
    · exact Or.inl (filter_mem_subsets p l)

theorem length_subsets : ∀ l : List Nat, (subsets l).length = 2 ^ l.length
  | [] => rfl
  | x :: l => by
    simp only [subsets, List.length_append, List.length_map, length_subsets l, List.length_cons, Nat.pow_succ]
    omega

/-- the states a pair of the exploration can have on the `A` side / in its macro-state -/
def domS (N : NFA) : List Nat := N.start ++ N.trans.map (·.2.2)

/-- all pairs of a state of `A` and a set of states of `B` -/
def univ (A B : NFA) : List (Nat × List Nat) :=
  (domS A).flatMap (fun q => (subsets (domS B)).map (fun T => (q, T)))

theorem length_flatMap_const {α β : Type} (f : α → List β) (n : Nat) (hf : ∀ a, (f a).length = n) :
    ∀ l : List α, (l.flatMap f).length = l.length * n
  | [] => by simp
  | a :: l => by
    simp only [List.flatMap_cons, List.length_append, hf a, length_flatMap_const f n hf l, List.length_cons]
    rw [Nat.add_mul, Nat.one_mul, Nat.add_comm]

theorem length_domS (N : NFA) : (domS N).length = N.start.length + N.trans.length := by
  simp [domS]

theorem length_univ (A B : NFA) :
    (univ A B).length = (A.start.length + A.trans.length) * 2 ^ (B.start.length + B.trans.length) := by
  unfold univ
  rw [length_flatMap_const _ (2 ^ (B.start.length + B.trans.length)), length_domS]
  intro a
  simp [length_subsets, length_domS]

/-- the pairs of the universe that are not yet subsumed -/
def mu (A B : NFA) (P : List Item) : Nat := (univ A B).countP (fun p => !subsumed P p.1 p.2)

def phi (A B : NFA) (st : St) : Nat := 2 * mu A B st.antichain + st.next.length

/-- the pair lives in the universe -/
def Dom (A B : NFA) (i : Item) : Prop := i.q ∈ domS A ∧ ∀ x, x ∈ i.S → x ∈ domS B

theorem mu_addPair_lt {A B : NFA} {st : St} {it : Item} (hd : Dom A B it)
    (hs : subsumed st.antichain it.q it.S = false) : mu A B (addPair st it).antichain < mu A B st.antichain := by
  apply countP_lt_of_new
  · intro p _ hp
    simp only [Bool.not_eq_true'] at hp ⊢
    cases hs' : subsumed st.antichain p.1 p.2 with
    | false => rfl
    | true =>
      have := subsumed_iff.mpr (addPair_sub_mono (it := it) (subsumed_iff.mp hs'))
      rw [hp] at this; cases this
  · refine ⟨(it.q, (domS B).filter (fun x => it.S.contains x)), ?_, ?_, ?_⟩
    · simp only [univ, List.mem_flatMap, List.mem_map, Prod.mk.injEq]
      exact ⟨it.q, hd.1, _, filter_mem_subsets _ _, rfl, rfl⟩
    · simp only [Bool.not_eq_true']
      cases hs' : subsumed st.antichain it.q ((domS B).filter (fun x => it.S.contains x)) with
      | false => rfl
      | true =>
        have : Sub st.antichain it.q it.S := (subsumed_iff.mp hs').mono (fun x hx => by
          simp only [List.mem_filter, List.contains_iff_mem] at hx
          exact hx.2)
        rw [subsumed_iff.mpr this] at hs; cases hs
    · simp only [ne_eq, Bool.not_eq_true', Bool.not_eq_false]
      apply subsumed_iff.mpr
      exact (addPair_sub_self st it).mono (fun x hx => by
        simp only [List.mem_filter, List.contains_iff_mem]
        exact ⟨hd.2 x hx, hx⟩)

theorem phi_addPair {A B : NFA} {st : St} {it : Item} (hd : Dom A B it) : phi A B (addPair st it) ≤ phi A B st := by
  cases hs : subsumed st.antichain it.q it.S with
  | true => rw [addPair_pos hs]; exact Nat.le_refl _
  | false =>
    have h1 := mu_addPair_lt hd hs
    have h2 : (addPair st it).next.length ≤ st.next.length + 1 := by
      rw [addPair_neg hs]
      simp only
      split
      · omega
      · rw [length_insNext]
        have : (refine st.next it.q it.S).length ≤ st.next.length := List.length_filter_le _ _
        omega
    unfold phi
    omega

theorem dom_succItem {A B : NFA} {it : Item} {e : Nat × Nat × Nat} (he : e ∈ A.trans) :
    Dom A B (succItem B it e) := by
  constructor
  · exact List.mem_append_right _ (List.mem_map.mpr ⟨e, he, rfl⟩)
  · intro x hx
    obtain ⟨p, _, hp⟩ := mem_stepW.mp (mem_normS.mp hx)
    exact List.mem_append_right _ (List.mem_map.mpr ⟨_, hp, rfl⟩)

theorem phi_makePost {A B : NFA} {it : Item} {st st' : St} (h : makePost A B it A.trans st = .ok st') :
    phi A B st' ≤ phi A B st :=
  makePost_ind (fun s => phi A B s ≤ phi A B st)
    (fun _ _ he _ _ hQ => Nat.le_trans (phi_addPair (dom_succItem he)) hQ) A.trans st st' (fun _ h => h)
    (Nat.le_refl _) h

theorem loopAC_terminates {A B : NFA} : ∀ (n : Nat) (st : St), phi A B st < n → ∃ r, loopAC A B n st = some r
  | 0, _, h => absurd h (Nat.not_lt_zero _)
  | n+1, st, h => by
    unfold loopAC
    split
    · exact ⟨_, rfl⟩
    · next it rest hn =>
      split
      · exact ⟨_, rfl⟩
      · next st' h' =>
        apply loopAC_terminates n st'
        have h1 := phi_makePost h'
        have h2 : phi A B ⟨st.antichain, rest⟩ + 1 = phi A B st := by
          unfold phi; rw [hn]; simp only [List.length_cons]; omega
        omega

theorem dom_initItem {A B : NFA} {s : Nat} (hs : s ∈ A.start) : Dom A B ⟨s, normS B.start, []⟩ :=
  ⟨List.mem_append_left _ hs, fun _ hx => List.mem_append_left _ (mem_normS.mp hx)⟩

theorem phi_initAC {A B : NFA} {st st' : St} (h : initAC A B (normS B.start) A.start st = .ok st') :
    phi A B st' ≤ phi A B st :=
  initAC_ind (fun s => phi A B s ≤ phi A B st)
    (fun _ _ hs _ hQ => Nat.le_trans (phi_addPair (dom_initItem hs)) hQ) A.start st st' (fun _ h => h)
    (Nat.le_refl _) h

/-- the number of picked pairs is bounded by twice the number of pairs (state of `A`, set of states of `B`) -/
def fuelBoundAC (A B : NFA) : Nat :=
  2 * ((A.start.length + A.trans.length) * 2 ^ (B.start.length + B.trans.length))

theorem runAC_terminates {A B : NFA} {fuel : Nat} (h : fuelBoundAC A B < fuel) : ∃ r, runAC A B fuel = some r := by
  unfold runAC
  split
  · exact ⟨_, rfl⟩
  · next st hst =>
    apply loopAC_terminates
    have h1 := phi_initAC hst
    have h2 : phi A B ⟨[], []⟩ ≤ 2 * (univ A B).length := by
      unfold phi mu
      have := List.countP_le_length (p := fun p : Nat × List Nat => !subsumed [] p.1 p.2) (l := univ A B)
      simp only [List.length_nil]
      omega
    rw [length_univ] at h2
    unfold fuelBoundAC at h
    omega

end NfaIncl

open NfaIncl

/-! ### totality and completeness -/

/-- above the bound the antichain model returns a verdict -/
theorem nfaInclAC_total {A B : NFA} {fuel : Nat} (hf : fuelBoundAC A B < fuel) : ∃ v, nfaInclAC A B fuel = some v := by
  obtain ⟨r, hr⟩ := runAC_terminates hf
  exact nfaInclAC_of_runAC hr

/-- … hence the right one -/
theorem nfaInclAC_complete {A B : NFA} {fuel : Nat} (hf : fuelBoundAC A B < fuel) :
    (InclW A B → ∃ c, nfaInclAC A B fuel = some (true, c)) ∧
    (¬ InclW A B → ∃ c, nfaInclAC A B fuel = some (false, c)) := by
  obtain ⟨⟨b, c⟩, hv⟩ := nfaInclAC_total hf
  have hiff := nfaInclAC_iff hv
  constructor
  · intro hi
    have : b = true := hiff.mpr hi
    subst this; exact ⟨c, hv⟩
  · intro hi
    cases b with
    | true => exact (hi (hiff.mp rfl)).elim
    | false => exact ⟨c, hv⟩

theorem checkNfaInclAC_total (A B : NFA) {fuel : Nat}
    (hf : fuelBoundAC (nfaSanitize A B).1 (nfaSanitize A B).2 < fuel) : ∃ v, checkNfaInclAC A B fuel = some v :=
  nfaInclAC_total hf

theorem checkNfaInclAC_complete (A B : NFA) {fuel : Nat}
    (hf : fuelBoundAC (nfaSanitize A B).1 (nfaSanitize A B).2 < fuel) :
    (InclW A B → ∃ c, checkNfaInclAC A B fuel = some (true, c)) ∧
    (¬ InclW A B → ∃ c, checkNfaInclAC A B fuel = some (false, c)) := by
  have := nfaInclAC_complete hf
  rw [sanitize_incl] at this
  exact this

/-! ### examples (non-vacuity) -/
namespace NfaInclEx

example : fuelBoundAC exAstar exABstar = 32 := by decide
example : ∃ v, nfaInclAC exAstar exABstar 33 = some v := nfaInclAC_total (by decide)
example : ∃ c, nfaInclAC exAstar exABstar 33 = some (true, c) :=
  (nfaInclAC_complete (by decide)).1 (nfaUpCertB_incl (X := [(0, [1])]) (by decide))
/-- the exploration of the regression example ends with an antichain that passes the check, by the invariant -/
example : ∃ P, runAC exMemoA exMemoB 20 = some (.ok P) ∧ nfaUpCertB exMemoA exMemoB (pairs P) = true :=
  ⟨_, rfl, runAC_ok_cert (fuel := 20) rfl⟩
example : ∃ w, runAC exAAB exAplus 10 = some (.error w) ∧ acceptsW exAAB w = true ∧ acceptsW exAplus w = false :=
  ⟨_, rfl, runAC_error_ok (fuel := 10) rfl⟩
-- the bound is far from tight: 10 pairs are picked in the regression example, the bound is 2 · 7 · 2^12
#guard fuelBoundAC exMemoA exMemoB == 57344
#guard (runAC exMemoA exMemoB 10).isNone && (runAC exMemoA exMemoB 11).isSome

end NfaInclEx

end Vata
