import Vata.TaLts
import Vata.Proofs.SimModel
/-!
# The TA → LTS encodings have the simulations of the automaton (property C04)

Models: `Vata/TaLts.lean`.  `IdxOk A b idx`: the numbering `idx` is injective on `A.states` with values `< b`.

Downward (`TranslateDownward`, `ComputeDownwardSimulation(size)`):
* `downExt_isSim`, `downExt_lt`   a downward simulation of `A` extends to a simulation of the LTS (tuple nodes related
  component-wise) inside the full relation on the nodes
* `downRestr_downSim`   a simulation of the LTS restricted to the state nodes is a downward simulation (ranked `A`)
* `translateDownward_correct`   for a ranked `A` and EVERY `idx` with `IdxOk A numStates idx`: `(idx q, idx r)` is reported
  by the LTS engine (greatest simulation from the full relation, restricted to the indices `< numStates`) iff
  `(q, r) ∈ downSimRef A`;  `downSimViaLts_iff` the same for the relation read back through the translation map
* `translateDownward_unranked_counterexample`   without `Ranked` the encoding relates too much

Upward (`TranslateUpward` after the repair, `ComputeUpwardSimulation(size)`):
* `mem_upEdges`, `edge_from_state`, `edge_from_env`   the edges of the LTS
* `mem_upInit`   the initial relation given by the partition and the relation on its blocks, in words (`UpInit`);
  `upInit_refl`, `upInit_trans`   it is a preorder on the nodes
* `upExt_isSim`, `upExt_init`, `upRestr_upSim`   the two directions
* `translateUpward_correct`, `upSimViaLts_iff`   for `A` in which every state owns a rule (`AllOwnRule`) and EVERY `idx`
  with `IdxOk A N idx`, `N = (parents A).length = transitions_->size() ≤ size`: the engine reports `(idx q, idx r)` iff
  `(q, r) ∈ upSimRef A`
* `translateUpward_old_counterexample`   the code before the repair is wrong for a non-identity numbering
-/
namespace Vata.TaLts
open Vata Vata.L

/-! ### toolkit: `pos`, `dedupG`, `ltsSize`, `All2` by positions -/

theorem pos_lt {α : Type} [DecidableEq α] {x : α} : ∀ {l : List α}, x ∈ l → pos x l < l.length
  | [], h => by cases h
  | y :: ys, h => by
    simp only [pos, List.length_cons]
    split
    · omega
    · rename_i hne
      have : x ∈ ys := by
        cases h with
        | head => exact absurd rfl hne
        | tail _ h' => exact h'
      have := pos_lt this
      omega

theorem pos_inj {α : Type} [DecidableEq α] {x y : α} : ∀ {l : List α}, x ∈ l → pos x l = pos y l → x = y
  | [], h, _ => by cases h
  | z :: zs, h, he => by
    simp only [pos] at he
    by_cases hx : x = z
    · by_cases hy : y = z
      · rw [hx, hy]
      · rw [if_pos hx, if_neg hy] at he; omega
    · by_cases hy : y = z
      · rw [if_neg hx, if_pos hy] at he; omega
      · rw [if_neg hx, if_neg hy] at he
        have : x ∈ zs := by
          cases h with
          | head => exact absurd rfl hx
          | tail _ h' => exact h'
        exact pos_inj this (by omega)

theorem mem_dedupG {α : Type} [DecidableEq α] {y : α} : ∀ {l : List α}, y ∈ dedupG l ↔ y ∈ l
  | [] => by simp [dedupG]
  | x :: xs => by
    simp only [dedupG, List.mem_cons, List.mem_filter, decide_eq_true_eq, mem_dedupG (l := xs)]
    constructor
    · rintro (h | ⟨h, _⟩)
      · exact Or.inl h
      · exact Or.inr h
    · rintro (h | h)
      · exact Or.inl h
      · by_cases hy : y = x
        · exact Or.inl hy
        · exact Or.inr ⟨h, hy⟩

theorem nodup_dedupG {α : Type} [DecidableEq α] : ∀ l : List α, (dedupG l).Nodup
  | [] => List.nodup_nil
  | x :: xs => by
    simp only [dedupG, List.nodup_cons, List.mem_filter, decide_eq_true_eq]
    refine ⟨fun h => h.2 rfl, ?_⟩
    exact List.Sublist.nodup List.filter_sublist (nodup_dedupG xs)

theorem le_foldl_ltsSize (edges : List (Nat × Nat × Nat)) : ∀ n0 : Nat, n0 ≤ ltsSize n0 edges := by
  induction edges with
  | nil => intro n0; exact Nat.le_refl _
  | cons e es ih =>
    intro n0
    simp only [ltsSize, List.foldl_cons] at ih ⊢
    exact Nat.le_trans (Nat.le_max_left _ _) (ih _)

theorem lt_ltsSize {edges : List (Nat × Nat × Nat)} {e : Nat × Nat × Nat} (he : e ∈ edges) :
    ∀ n0 : Nat, e.1 < ltsSize n0 edges ∧ e.2.2 < ltsSize n0 edges := by
  induction edges with
  | nil => cases he
  | cons e' es ih =>
    intro n0
    cases he with
    | head =>
      have h := le_foldl_ltsSize es (max n0 (max (e.1 + 1) (e.2.2 + 1)))
      simp only [ltsSize, List.foldl_cons] at h ⊢
      omega
    | tail _ h' => exact ih h' _

theorem all2_getElem? {α β : Type} {R : α → β → Prop} : ∀ {l : List α} {l' : List β}, All2 R l l' →
    ∀ (i : Nat) (a : α), l[i]? = some a → ∃ b, l'[i]? = some b ∧ R a b
  | _, _, All2.nil, i, a, h => by simp at h
  | _, _, All2.cons hd tl, 0, a, h => by
    simp only [List.getElem?_cons_zero, Option.some.injEq] at h
    exact ⟨_, by simp, h ▸ hd⟩
  | _, _, All2.cons hd tl, i+1, a, h => by
    simp only [List.getElem?_cons_succ] at h ⊢
    exact all2_getElem? tl i a h

theorem all2_length {α β : Type} {R : α → β → Prop} : ∀ {l : List α} {l' : List β}, All2 R l l' → l.length = l'.length
  | _, _, All2.nil => rfl
  | _, _, All2.cons _ tl => by simp only [List.length_cons, all2_length tl]

theorem all2_of_getElem? {α β : Type} {R : α → β → Prop} : ∀ (l : List α) (l' : List β), l.length = l'.length →
    (∀ (i : Nat) (a : α), l[i]? = some a → ∃ b, l'[i]? = some b ∧ R a b) → All2 R l l'
  | [], [], _, _ => All2.nil
  | [], _ :: _, h, _ => by simp at h
  | _ :: _, [], h, _ => by simp at h
  | a :: l, b :: l', hl, h => by
    obtain ⟨b', hb', hab⟩ := h 0 a (by simp)
    simp only [List.getElem?_cons_zero, Option.some.injEq] at hb'
    refine All2.cons (hb' ▸ hab) (all2_of_getElem? l l' (by simpa using hl) ?_)
    intro i x hx
    have := h (i+1) x (by simpa using hx)
    simpa using this

/-! ### the downward encoding -/

theorem mem_symList {A : TA} {a : Nat} : a ∈ symList A ↔ ∃ ρ, ρ ∈ A.rules ∧ ρ.sym = a := by
  simp only [symList, mem_dedupG, List.mem_map]

theorem sym_mem_symList {A : TA} {ρ : Rule} (hρ : ρ ∈ A.rules) : ρ.sym ∈ symList A := mem_symList.mpr ⟨ρ, hρ, rfl⟩

theorem mem_lhsList {A : TA} {t : List Nat} : t ∈ lhsList A ↔ ∃ ρ, ρ ∈ A.rules ∧ ρ.kids.length ≠ 1 ∧ ρ.kids = t := by
  simp only [lhsList, mem_dedupG, List.mem_map, List.mem_filter, bne_iff_ne, ne_eq]
  constructor
  · rintro ⟨ρ, ⟨h1, h2⟩, h3⟩; exact ⟨ρ, h1, h2, h3⟩
  · rintro ⟨ρ, h1, h2, h3⟩; exact ⟨ρ, ⟨h1, h2⟩, h3⟩

theorem mem_states_of_lhs {A : TA} {t : List Nat} (ht : t ∈ lhsList A) {p : Nat} (hp : p ∈ t) : p ∈ A.states := by
  obtain ⟨ρ, hρ, _, rfl⟩ := mem_lhsList.mp ht
  exact SimModel.kid_mem_states hρ hp

theorem downDest_of_ne (A : TA) (n : Nat) (idx : Nat → Nat) {ks : List Nat} (h : ks.length ≠ 1) :
    downDest A n idx ks = lhsNode A n ks := by
  match ks, h with
  | [], _ => rfl
  | [_], h => exact absurd rfl h
  | _ :: _ :: _, _ => rfl

theorem mem_downEdges1 {A : TA} {n : Nat} {idx : Nat → Nat} {e : Nat × Nat × Nat} :
    e ∈ downEdges1 A n idx ↔
      ∃ ρ, ρ ∈ A.rules ∧ e = (idx ρ.parent, pos ρ.sym (symList A), downDest A n idx ρ.kids) := by
  simp only [downEdges1, List.mem_map]
  constructor
  · rintro ⟨ρ, h1, h2⟩; exact ⟨ρ, h1, h2.symm⟩
  · rintro ⟨ρ, h1, h2⟩; exact ⟨ρ, h1, h2.symm⟩

theorem mem_downEdges2 {A : TA} {n : Nat} {idx : Nat → Nat} {e : Nat × Nat × Nat} :
    e ∈ downEdges2 A n idx ↔
      ∃ t, t ∈ lhsList A ∧ ∃ i p, t[i]? = some p ∧ e = (lhsNode A n t, (symList A).length + i, idx p) := by
  simp only [downEdges2, List.mem_flatMap, List.mem_map]
  constructor
  · rintro ⟨t, ht, pi, hpi, he⟩
    exact ⟨t, ht, pi.2, pi.1, List.mem_zipIdx_iff_getElem?.mp hpi, he.symm⟩
  · rintro ⟨t, ht, i, p, hip, he⟩
    exact ⟨t, ht, (p, i), List.mem_zipIdx_iff_getElem?.mpr hip, he.symm⟩

theorem mem_translateDownward {A : TA} {n : Nat} {idx : Nat → Nat} {e : Nat × Nat × Nat} :
    e ∈ (translateDownward A n idx).edges ↔ e ∈ downEdges1 A n idx ∨ e ∈ downEdges2 A n idx := by
  simp only [translateDownward, List.mem_append]

theorem lhsNode_ge (A : TA) (n : Nat) (t : List Nat) : n ≤ lhsNode A n t := Nat.le_add_right _ _

theorem lhsNode_inj {A : TA} {n : Nat} {t t' : List Nat} (ht : t ∈ lhsList A)
    (h : lhsNode A n t = lhsNode A n t') : t = t' :=
  pos_inj ht (by unfold lhsNode at h; omega)

/-- the hypotheses on the numbering -/
structure IdxOk (A : TA) (bound : Nat) (idx : Nat → Nat) : Prop where
  inj : ∀ q r, q ∈ A.states → r ∈ A.states → idx q = idx r → q = r
  lt : ∀ q, q ∈ A.states → idx q < bound

/-- the extension of a relation on the states to the nodes of the LTS: tuple nodes are related component-wise -/
def downExt (A : TA) (n : Nat) (idx : Nat → Nat) (S : Nat → Nat → Prop) (x y : Nat) : Prop :=
  (∃ q r, q ∈ A.states ∧ r ∈ A.states ∧ S q r ∧ x = idx q ∧ y = idx r) ∨
  (∃ t t', t ∈ lhsList A ∧ t' ∈ lhsList A ∧ All2 S t t' ∧ x = lhsNode A n t ∧ y = lhsNode A n t')

theorem downExt_dest (A : TA) (n : Nat) (idx : Nat → Nat) (S : Nat → Nat → Prop) {ρ σ : Rule}
    (hρ : ρ ∈ A.rules) (hσ : σ ∈ A.rules) (h : All2 S ρ.kids σ.kids) :
    downExt A n idx S (downDest A n idx ρ.kids) (downDest A n idx σ.kids) := by
  by_cases h1 : ρ.kids.length = 1
  · have h1' : σ.kids.length = 1 := by rw [← all2_length h]; exact h1
    match hk : ρ.kids, hk' : σ.kids, h, h1, h1' with
    | [p], [p'], All2.cons hpp _, _, _ =>
      exact Or.inl ⟨p, p', SimModel.kid_mem_states hρ (by rw [hk]; exact List.mem_singleton.mpr rfl),
        SimModel.kid_mem_states hσ (by rw [hk']; exact List.mem_singleton.mpr rfl), hpp, rfl, rfl⟩
  · have h1' : σ.kids.length ≠ 1 := by rw [← all2_length h]; exact h1
    rw [downDest_of_ne A n idx h1, downDest_of_ne A n idx h1']
    exact Or.inr ⟨ρ.kids, σ.kids, mem_lhsList.mpr ⟨ρ, hρ, h1, rfl⟩, mem_lhsList.mpr ⟨σ, hσ, h1', rfl⟩, h, rfl, rfl⟩

/-- a downward simulation of `A` extends to a simulation of the LTS -/
theorem downExt_isSim (A : TA) (n : Nat) (idx : Nat → Nat) (hidx : IdxOk A n idx) (S : Nat → Nat → Prop)
    (hS : DownSim A S) : IsSim (translateDownward A n idx) (downExt A n idx S) := by
  intro x y hxy a x' he
  rcases mem_translateDownward.mp he with he | he
  · obtain ⟨ρ, hρ, heq⟩ := mem_downEdges1.mp he
    simp only [Prod.mk.injEq] at heq
    obtain ⟨hx, ha, hx'⟩ := heq
    rcases hxy with ⟨q, r, hq, hr, hqr, hxq, hyr⟩ | ⟨t, t', ht, _, _, hxt, _⟩
    · have hpq : ρ.parent = q :=
        hidx.inj _ _ (SimModel.parent_mem_states hρ) hq (by rw [← hx, hxq])
      obtain ⟨σ, hσ, hσp, hσs, hk⟩ := hS q r hqr ρ hρ hpq
      refine ⟨downDest A n idx σ.kids, ?_, ?_⟩
      · apply mem_translateDownward.mpr; left
        apply mem_downEdges1.mpr
        exact ⟨σ, hσ, by rw [hσp, hσs, hyr, ha]⟩
      · rw [hx']; exact downExt_dest A n idx S hρ hσ hk
    · have h1 := hidx.lt _ (SimModel.parent_mem_states hρ)
      have h2 := lhsNode_ge A n t
      omega
  · obtain ⟨t0, ht0, i, p, hip, heq⟩ := mem_downEdges2.mp he
    simp only [Prod.mk.injEq] at heq
    obtain ⟨hx, ha, hx'⟩ := heq
    rcases hxy with ⟨q, r, hq, hr, hqr, hxq, hyr⟩ | ⟨t, t', ht, ht', htt, hxt, hyt⟩
    · have h1 := hidx.lt _ hq
      have h2 := lhsNode_ge A n t0
      omega
    · have hteq : t0 = t := lhsNode_inj ht0 (by rw [← hx, hxt])
      subst hteq
      obtain ⟨p', hp', hpp⟩ := all2_getElem? htt i p hip
      refine ⟨idx p', ?_, ?_⟩
      · apply mem_translateDownward.mpr; right
        apply mem_downEdges2.mpr
        exact ⟨t', ht', i, p', hp', by rw [hyt, ha]⟩
      · rw [hx']
        exact Or.inl ⟨p, p', mem_states_of_lhs ht0 (List.mem_of_getElem? hip),
          mem_states_of_lhs ht' (List.mem_of_getElem? hp'), hpp, rfl, rfl⟩

/-- … and it stays inside the full relation on the nodes -/
theorem downExt_lt (A : TA) (n : Nat) (idx : Nat → Nat) (hidx : IdxOk A n idx) (S : Nat → Nat → Prop) (x y : Nat)
    (h : downExt A n idx S x y) : (x, y) ∈ fullRel (translateDownward A n idx).n := by
  have hn : n ≤ (translateDownward A n idx).n := le_foldl_ltsSize _ _
  have hnode : ∀ t, t ∈ lhsList A → lhsNode A n t < (translateDownward A n idx).n := by
    intro t ht
    obtain ⟨ρ, hρ, h1, rfl⟩ := mem_lhsList.mp ht
    have he : (idx ρ.parent, pos ρ.sym (symList A), downDest A n idx ρ.kids) ∈ (translateDownward A n idx).edges :=
      mem_translateDownward.mpr (Or.inl (mem_downEdges1.mpr ⟨ρ, hρ, rfl⟩))
    have := (lt_ltsSize he n).2
    rw [downDest_of_ne A n idx h1] at this
    exact this
  apply mem_fullRel.mpr
  rcases h with ⟨q, r, hq, hr, _, hxq, hyr⟩ | ⟨t, t', ht, ht', _, hxt, hyt⟩
  · have h1 := hidx.lt _ hq
    have h2 := hidx.lt _ hr
    omega
  · rw [hxt, hyt]; exact ⟨hnode t ht, hnode t' ht'⟩

/-- the restriction of a relation on the nodes to the state nodes -/
def downRestr (A : TA) (idx : Nat → Nat) (R : Nat → Nat → Prop) (q r : Nat) : Prop :=
  q ∈ A.states ∧ r ∈ A.states ∧ R (idx q) (idx r)

/-- a simulation of the LTS restricted to the state nodes is a downward simulation of `A` (for ranked `A`) -/
theorem downRestr_downSim (A : TA) (n : Nat) (idx : Nat → Nat) (hidx : IdxOk A n idx) (hrk : Ranked A)
    (R : Nat → Nat → Prop) (hR : IsSim (translateDownward A n idx) R) : DownSim A (downRestr A idx R) := by
  rintro q r ⟨hq, hr, hqr⟩ ρ hρ hpq
  have he : (idx q, pos ρ.sym (symList A), downDest A n idx ρ.kids) ∈ (translateDownward A n idx).edges :=
    mem_translateDownward.mpr (Or.inl (mem_downEdges1.mpr ⟨ρ, hρ, by rw [hpq]⟩))
  obtain ⟨d, hd, hRd⟩ := hR _ _ hqr _ _ he
  rcases mem_translateDownward.mp hd with hd | hd
  · obtain ⟨σ, hσ, heq⟩ := mem_downEdges1.mp hd
    simp only [Prod.mk.injEq] at heq
    obtain ⟨h1, h2, h3⟩ := heq
    have hσp : σ.parent = r := hidx.inj _ _ (SimModel.parent_mem_states hσ) hr h1.symm
    have hσs : σ.sym = ρ.sym := (pos_inj (sym_mem_symList hρ) h2).symm
    have hlen : ρ.kids.length = σ.kids.length := hrk ρ σ hρ hσ hσs.symm
    refine ⟨σ, hσ, hσp, hσs, ?_⟩
    rw [h3] at hRd
    by_cases hl : ρ.kids.length = 1
    · have hl' : σ.kids.length = 1 := hlen ▸ hl
      match hk : ρ.kids, hk' : σ.kids, hl, hl' with
      | [p], [p'], _, _ =>
        rw [hk, hk'] at hRd
        exact All2.cons ⟨SimModel.kid_mem_states hρ (by rw [hk]; exact List.mem_singleton.mpr rfl),
          SimModel.kid_mem_states hσ (by rw [hk']; exact List.mem_singleton.mpr rfl), hRd⟩ All2.nil
    · have hl' : σ.kids.length ≠ 1 := hlen ▸ hl
      rw [downDest_of_ne A n idx hl, downDest_of_ne A n idx hl'] at hRd
      have hρl : ρ.kids ∈ lhsList A := mem_lhsList.mpr ⟨ρ, hρ, hl, rfl⟩
      have hσl : σ.kids ∈ lhsList A := mem_lhsList.mpr ⟨σ, hσ, hl', rfl⟩
      apply all2_of_getElem? _ _ hlen
      intro i p hip
      have he2 : (lhsNode A n ρ.kids, (symList A).length + i, idx p) ∈ (translateDownward A n idx).edges :=
        mem_translateDownward.mpr (Or.inr (mem_downEdges2.mpr ⟨ρ.kids, hρl, i, p, hip, rfl⟩))
      obtain ⟨d2, hd2, hRd2⟩ := hR _ _ hRd _ _ he2
      rcases mem_translateDownward.mp hd2 with hd2 | hd2
      · obtain ⟨τ, hτ, heq⟩ := mem_downEdges1.mp hd2
        simp only [Prod.mk.injEq] at heq
        have h4 := hidx.lt _ (SimModel.parent_mem_states hτ)
        have h5 := lhsNode_ge A n σ.kids
        omega
      · obtain ⟨t0, ht0, j, p', hjp, heq⟩ := mem_downEdges2.mp hd2
        simp only [Prod.mk.injEq] at heq
        obtain ⟨h6, h7, h8⟩ := heq
        have ht0e : t0 = σ.kids := lhsNode_inj ht0 h6.symm
        have hji : j = i := by omega
        subst ht0e; subst hji
        refine ⟨p', hjp, SimModel.kid_mem_states hρ (List.mem_of_getElem? hip),
          SimModel.kid_mem_states hσ (List.mem_of_getElem? hjp), ?_⟩
        rw [← h8]; exact hRd2
  · obtain ⟨t0, ht0, j, p', hjp, heq⟩ := mem_downEdges2.mp hd
    simp only [Prod.mk.injEq] at heq
    have h4 := hidx.lt _ hr
    have h5 := lhsNode_ge A n t0
    omega

/-- **C04, downward route.**  For a ranked automaton and every numbering `idx` of its states that is injective with
values `< numStates`: the LTS engine (greatest simulation inside the full relation on the nodes, output restricted to the
indices `< numStates`) relates `idx q` to `idx r` iff `(q, r)` is in the greatest downward simulation of `A`. -/
theorem translateDownward_correct (A : TA) (numStates : Nat) (idx : Nat → Nat) (hidx : IdxOk A numStates idx)
    (hrk : Ranked A) (q r : Nat) (hq : q ∈ A.states) (hr : r ∈ A.states) :
    (idx q, idx r) ∈ ltsSimOut (translateDownward A numStates idx)
        (fullRel (translateDownward A numStates idx).n) numStates ↔ (q, r) ∈ downSimRef A := by
  rw [restrict_output]
  constructor
  · rintro ⟨_, _, h⟩
    exact downSimRef_contains A _
      (downRestr_downSim A numStates idx hidx hrk _ (ltsSimRef_sim _ _)) q r hq hr ⟨hq, hr, h⟩
  · intro h
    refine ⟨hidx.lt q hq, hidx.lt r hr, ?_⟩
    exact ltsSimRef_contains _ _ _ (downExt_isSim A numStates idx hidx _ (downSimRef_sim A))
      (downExt_lt A numStates idx hidx _) _ _ (Or.inl ⟨q, r, hq, hr, h, rfl, rfl⟩)

/-! #### the relation read back, Boolean forms of the hypotheses, examples -/

theorem mem_readBack {A : TA} {idx : Nat → Nat} {R : L.Rel} {q r : Nat} :
    (q, r) ∈ readBack A idx R ↔ q ∈ A.states ∧ r ∈ A.states ∧ (idx q, idx r) ∈ R := by
  simp only [readBack, List.mem_filter, SimModel.mem_allPairs, List.contains_iff_mem, and_assoc]

/-- the relation `ComputeDownwardSimulation(size)` returns (model) is `downSimRef A` -/
theorem downSimViaLts_iff (A : TA) (numStates : Nat) (idx : Nat → Nat) (hidx : IdxOk A numStates idx)
    (hrk : Ranked A) (q r : Nat) : (q, r) ∈ downSimViaLts A numStates idx ↔ (q, r) ∈ downSimRef A := by
  unfold downSimViaLts
  rw [mem_readBack]
  constructor
  · rintro ⟨hq, hr, h⟩
    exact (translateDownward_correct A numStates idx hidx hrk q r hq hr).mp h
  · intro h
    obtain ⟨hq, hr⟩ := downSimRef_sub A h
    exact ⟨hq, hr, (translateDownward_correct A numStates idx hidx hrk q r hq hr).mpr h⟩

def idxOkB (A : TA) (bound : Nat) (idx : Nat → Nat) : Bool :=
  A.states.all (fun q => decide (idx q < bound) && A.states.all (fun r => idx q != idx r || q == r))

theorem idxOkB_iff {A : TA} {bound : Nat} {idx : Nat → Nat} : idxOkB A bound idx = true ↔ IdxOk A bound idx := by
  simp only [idxOkB, List.all_eq_true, Bool.and_eq_true, decide_eq_true_eq, Bool.or_eq_true, bne_iff_ne, ne_eq,
    beq_iff_eq]
  constructor
  · intro h
    refine ⟨fun q r hq hr he => ?_, fun q hq => (h q hq).1⟩
    rcases (h q hq).2 r hr with h1 | h1
    · exact absurd he h1
    · exact h1
  · intro h q hq
    refine ⟨h.lt q hq, fun r hr => ?_⟩
    by_cases he : idx q = idx r
    · exact Or.inr (h.inj q r hq hr he)
    · exact Or.inl he

theorem rankedB_iff {A : TA} : rankedB A = true ↔ Ranked A := by
  simp only [rankedB, List.all_eq_true, Bool.or_eq_true, bne_iff_ne, ne_eq, beq_iff_eq, Ranked]
  constructor
  · intro h ρ σ hρ hσ he
    rcases h ρ hρ σ hσ with h1 | h1
    · exact absurd he h1
    · exact h1
  · intro h ρ hρ σ hσ
    by_cases he : ρ.sym = σ.sym
    · exact Or.inr (h ρ σ hρ hσ he)
    · exact Or.inl he

/-- non-vacuity: a ranked automaton with a binary symbol, a non-identity numbering into `0..4` -/
example : IdxOk TaLtsEx.exA 5 (TaLtsEx.perm [3, 0, 4, 1, 2]) ∧ Ranked TaLtsEx.exA ∧ 2 ∈ TaLtsEx.exA.states ∧
    3 ∈ TaLtsEx.exA.states ∧ (2, 3) ∈ downSimRef TaLtsEx.exA ∧ (4, 2) ∉ downSimRef TaLtsEx.exA :=
  ⟨idxOkB_iff.mp (by decide), rankedB_iff.mp (by decide), by decide, by decide, by decide, by decide⟩

/-- without `Ranked` the encoding is wrong: with `a(0) → 1` and `a → 2` (one symbol, two arities) the node of the empty
tuple has no successors, like the node of the state `0`, so the LTS lets `2` simulate `1`; no downward simulation does. -/
theorem translateDownward_unranked_counterexample :
    IdxOk TaLtsEx.exU 3 id ∧ ¬ Ranked TaLtsEx.exU ∧
    (1, 2) ∈ downSimViaLts TaLtsEx.exU 3 id ∧ (1, 2) ∉ downSimRef TaLtsEx.exU :=
  ⟨idxOkB_iff.mp (by decide), fun h => absurd (rankedB_iff.mpr h) (by decide), by decide, by decide⟩

/-! ### the upward encoding -/

/-! #### list lemmas: `setAt` / `eraseIdx`, counting -/

theorem length_setAt : ∀ (ks : List Nat) (i r : Nat), (setAt ks i r).length = ks.length
  | [], _, _ => rfl
  | _ :: _, 0, _ => rfl
  | k :: ks, i+1, r => by simp only [setAt, List.length_cons, length_setAt ks i r]

theorem eraseIdx_setAt : ∀ (ks : List Nat) (i r : Nat), (setAt ks i r).eraseIdx i = ks.eraseIdx i
  | [], _, _ => rfl
  | _ :: _, 0, _ => rfl
  | k :: ks, i+1, r => by simp only [setAt, List.eraseIdx_cons_succ, eraseIdx_setAt ks i r]

/-- a tuple that agrees with `ks` outside position `i` and has `r` there is `setAt ks i r` -/
theorem eq_setAt_of_eraseIdx : ∀ (ks ks' : List Nat) (i q r : Nat), ks[i]? = some q → ks'[i]? = some r →
    ks'.eraseIdx i = ks.eraseIdx i → ks' = setAt ks i r
  | [], _, _, _, _, h, _, _ => by simp at h
  | _ :: _, [], _, _, _, _, h, _ => by simp at h
  | k :: ks, k' :: ks', 0, q, r, _, h', he => by
    simp only [List.getElem?_cons_zero, Option.some.injEq] at h'
    simp only [List.eraseIdx_cons_zero] at he
    simp only [setAt, h', he]
  | k :: ks, k' :: ks', i+1, q, r, h, h', he => by
    simp only [List.getElem?_cons_succ] at h h'
    simp only [List.eraseIdx_cons_succ, List.cons.injEq] at he
    simp only [setAt, he.1, eq_setAt_of_eraseIdx ks ks' i q r h h' he.2]

/-- a duplicate-free list inside a list that is not longer contains it -/
theorem subset_of_nodup_length : ∀ (l₁ l₂ : List Nat), l₁.Nodup → (∀ x, x ∈ l₁ → x ∈ l₂) → l₂.length ≤ l₁.length →
    ∀ x, x ∈ l₂ → x ∈ l₁
  | [], l₂, _, _, hl, x, hx => by
    have : l₂ = [] := List.eq_nil_of_length_eq_zero (by simpa using hl)
    rw [this] at hx; exact hx
  | a :: t, l₂, hnd, hsub, hl, x, hx => by
    obtain ⟨hat, hndt⟩ := List.nodup_cons.mp hnd
    have ha : a ∈ l₂ := hsub a (List.mem_cons_self)
    by_cases hxa : x = a
    · rw [hxa]; exact List.mem_cons_self
    · have hlen := List.length_erase_of_mem ha
      have hpos : 0 < l₂.length := List.length_pos_of_mem ha
      have ih := subset_of_nodup_length t (l₂.erase a) hndt
        (fun y hy => (List.mem_erase_of_ne (fun h : y = a => hat (h ▸ hy))).mpr (hsub y (List.mem_cons_of_mem _ hy)))
        (by simp only [List.length_cons] at hl; omega) x ((List.mem_erase_of_ne hxa).mpr hx)
      exact List.mem_cons_of_mem _ ih

/-! #### nodes and edges -/

theorem mem_parents {A : TA} {q : Nat} : q ∈ parents A ↔ ∃ ρ, ρ ∈ A.rules ∧ ρ.parent = q := by
  simp only [parents, mem_dedupG, List.mem_map]

theorem parents_mem_states {A : TA} {q : Nat} (h : q ∈ parents A) : q ∈ A.states := by
  obtain ⟨ρ, hρ, rfl⟩ := mem_parents.mp h
  exact SimModel.parent_mem_states hρ

theorem mem_envList {A : TA} {idx : Nat → Nat} {e : Env} :
    e ∈ envList A idx ↔ ∃ ρ, ρ ∈ A.rules ∧ 2 ≤ ρ.kids.length ∧ ∃ i, i < ρ.kids.length ∧ e = mkEnv A idx ρ i := by
  simp only [envList, mem_dedupG, List.mem_flatMap, envsOf]
  constructor
  · rintro ⟨ρ, hρ, he⟩
    split at he
    · cases he
    · rename_i hl
      obtain ⟨i, hi, rfl⟩ := List.mem_map.mp he
      exact ⟨ρ, hρ, by omega, i, List.mem_range.mp hi, rfl⟩
  · rintro ⟨ρ, hρ, hl, i, hi, rfl⟩
    refine ⟨ρ, hρ, ?_⟩
    rw [if_neg (by omega)]
    exact List.mem_map.mpr ⟨i, List.mem_range.mpr hi, rfl⟩

theorem envNode_gt (A : TA) (idx : Nat → Nat) (e : Env) : (parents A).length < envNode A idx e := by
  unfold envNode; omega

theorem envNode_inj {A : TA} {idx : Nat → Nat} {e e' : Env} (he : e ∈ envList A idx)
    (h : envNode A idx e = envNode A idx e') : e = e' :=
  pos_inj he (by unfold envNode at h; omega)

/-- the edges added for the rule `ρ` -/
def RuleEdge (A : TA) (idx : Nat → Nat) (ρ : Rule) (e : Nat × Nat × Nat) : Prop :=
  (ρ.kids = [] ∧ e = ((parents A).length, pos ρ.sym (symList A), idx ρ.parent)) ∨
  (∃ p, ρ.kids = [p] ∧ e = (idx p, pos ρ.sym (symList A), idx ρ.parent)) ∨
  (2 ≤ ρ.kids.length ∧ ∃ i p, ρ.kids[i]? = some p ∧
    e = (idx p, (symList A).length, envNode A idx (mkEnv A idx ρ i)))

theorem mem_upRuleEdges {A : TA} {idx : Nat → Nat} {ρ : Rule} {e : Nat × Nat × Nat} :
    e ∈ upRuleEdges A idx ρ ↔ RuleEdge A idx ρ e := by
  unfold upRuleEdges RuleEdge
  split
  · rename_i hk
    simp only [hk, List.mem_singleton, true_and, List.length_nil]
    constructor
    · intro h; exact Or.inl h
    · rintro (h | ⟨p, h, _⟩ | ⟨h, _⟩)
      · exact h
      · cases h
      · omega
  · rename_i p hk
    simp only [hk, List.mem_singleton, List.length_singleton]
    constructor
    · intro h; exact Or.inr (Or.inl ⟨p, rfl, h⟩)
    · rintro (⟨h, _⟩ | ⟨p', h, h'⟩ | ⟨h, _⟩)
      · cases h
      · simp only [List.cons.injEq, and_true] at h
        rw [h]; exact h'
      · omega
  · rename_i h0 h1
    have hl : 2 ≤ ρ.kids.length := by
      match hk : ρ.kids with
      | [] => exact absurd hk h0
      | [p] => exact absurd hk (h1 p)
      | _ :: _ :: _ => simp
    simp only [List.mem_map]
    constructor
    · rintro ⟨pi, hpi, rfl⟩
      exact Or.inr (Or.inr ⟨hl, pi.2, pi.1, List.mem_zipIdx_iff_getElem?.mp hpi, rfl⟩)
    · rintro (⟨h, _⟩ | ⟨p', h, _⟩ | ⟨_, i, p, hip, rfl⟩)
      · exact absurd h h0
      · exact absurd h (h1 p')
      · exact ⟨(p, i), List.mem_zipIdx_iff_getElem?.mpr hip, rfl⟩

theorem mem_upEdges {A : TA} {idx : Nat → Nat} {e : Nat × Nat × Nat} :
    e ∈ (translateUpward A idx).1.edges ↔
      (∃ ρ, ρ ∈ A.rules ∧ RuleEdge A idx ρ e) ∨
      (∃ env, env ∈ envList A idx ∧ e = (envNode A idx env, env.symbol, env.state)) := by
  simp only [translateUpward, upEdges, upEnvEdges, List.mem_append, List.mem_flatMap, List.mem_map, mem_upRuleEdges, id]
  constructor
  · rintro (h | ⟨env, h1, h2⟩)
    · exact Or.inl h
    · exact Or.inr ⟨env, h1, h2.symm⟩
  · rintro (h | ⟨env, h1, h2⟩)
    · exact Or.inl h
    · exact Or.inr ⟨env, h1, h2.symm⟩

/-- the edges that leave a state node: unary rules and the edges to the environments -/
theorem edge_from_state {A : TA} {idx : Nat → Nat} (hidx : IdxOk A (parents A).length idx) {r : Nat}
    (hr : r ∈ A.states) {a d : Nat} (he : (idx r, a, d) ∈ (translateUpward A idx).1.edges) :
    (∃ σ, σ ∈ A.rules ∧ σ.kids = [r] ∧ a = pos σ.sym (symList A) ∧ d = idx σ.parent) ∨
    (∃ σ, σ ∈ A.rules ∧ 2 ≤ σ.kids.length ∧ ∃ j, σ.kids[j]? = some r ∧ a = (symList A).length ∧
      d = envNode A idx (mkEnv A idx σ j)) := by
  have hlt := hidx.lt r hr
  rcases mem_upEdges.mp he with ⟨σ, hσ, h⟩ | ⟨env, _, h⟩
  · rcases h with ⟨_, h⟩ | ⟨p, hk, h⟩ | ⟨hl, j, p, hjp, h⟩
    · simp only [Prod.mk.injEq] at h; omega
    · simp only [Prod.mk.injEq] at h
      have hp : p ∈ A.states := SimModel.kid_mem_states hσ (by rw [hk]; exact List.mem_singleton.mpr rfl)
      have : p = r := hidx.inj p r hp hr h.1.symm
      exact Or.inl ⟨σ, hσ, by rw [hk, this], h.2.1, h.2.2⟩
    · simp only [Prod.mk.injEq] at h
      have hp : p ∈ A.states := SimModel.kid_mem_states hσ (List.mem_of_getElem? hjp)
      have : p = r := hidx.inj p r hp hr h.1.symm
      exact Or.inr ⟨σ, hσ, hl, j, by rw [hjp, this], h.2.1, h.2.2⟩
  · simp only [Prod.mk.injEq] at h
    have := envNode_gt A idx env
    omega

/-- the only edge that leaves an environment node goes to the parent, with the symbol -/
theorem edge_from_env {A : TA} {idx : Nat → Nat} (hidx : IdxOk A (parents A).length idx) {e : Env} {a d : Nat} (h : (envNode A idx e, a, d) ∈ (translateUpward A idx).1.edges) :
    a = e.symbol ∧ d = e.state := by
  have hgt := envNode_gt A idx e
  rcases mem_upEdges.mp h with ⟨σ, hσ, h⟩ | ⟨env, henv, h⟩
  · rcases h with ⟨_, h⟩ | ⟨p, hk, h⟩ | ⟨hl, j, p, hjp, h⟩
    · simp only [Prod.mk.injEq] at h; omega
    · simp only [Prod.mk.injEq] at h
      have := hidx.lt p (SimModel.kid_mem_states hσ (by rw [hk]; exact List.mem_singleton.mpr rfl))
      omega
    · simp only [Prod.mk.injEq] at h
      have := hidx.lt p (SimModel.kid_mem_states hσ (List.mem_of_getElem? hjp))
      omega
  · simp only [Prod.mk.injEq] at h
    have : env = e := envNode_inj henv h.1.symm
    rw [this] at h
    exact ⟨h.2.1, h.2.2⟩

theorem mem_blockRel {blocks : List (List Nat)} {brel : Rel} {x y : Nat} :
    (x, y) ∈ blockRel blocks brel ↔ ∃ i j, (i, j) ∈ brel ∧ x ∈ blocks.getD i [] ∧ y ∈ blocks.getD j [] := by
  simp only [blockRel, List.mem_flatMap, List.mem_map, Prod.mk.injEq]
  constructor
  · rintro ⟨ij, hij, x', hx', y', hy', rfl, rfl⟩; exact ⟨ij.1, ij.2, hij, hx', hy'⟩
  · rintro ⟨i, j, hij, hx, hy⟩; exact ⟨(i, j), hij, x, hx, y, hy, rfl, rfl⟩

theorem mem_getD_map {α : Type} (H : List α) (f : α → List Nat) (i x : Nat) :
    x ∈ (H.map f).getD i [] ↔ ∃ k, H[i]? = some k ∧ x ∈ f k := by
  rw [List.getD_eq_getElem?_getD, List.getElem?_map]
  cases H[i]? with
  | none => simp
  | some k => simp

theorem mem_envPairs {α : Type} [BEq α] [LawfulBEq α] (H : List α) (base a b : Nat) :
    (a, b) ∈ (List.range H.length).flatMap (fun i =>
      ((List.range H.length).filter (fun j => H[i]? == H[j]?)).map (fun j => (base + i, base + j))) ↔
    ∃ i j k, H[i]? = some k ∧ H[j]? = some k ∧ a = base + i ∧ b = base + j := by
  simp only [List.mem_flatMap, List.mem_map, List.mem_filter, List.mem_range, beq_iff_eq, Prod.mk.injEq]
  constructor
  · rintro ⟨i, hi, j, ⟨hj, hij⟩, rfl, rfl⟩
    refine ⟨i, j, H[i], List.getElem?_eq_getElem hi, ?_, rfl, rfl⟩
    rw [← hij]; exact List.getElem?_eq_getElem hi
  · rintro ⟨i, j, k, hi, hj, rfl, rfl⟩
    obtain ⟨hi', _⟩ := List.getElem?_eq_some_iff.mp hi
    obtain ⟨hj', _⟩ := List.getElem?_eq_some_iff.mp hj
    exact ⟨i, hi', j, ⟨hj', by rw [hi, hj]⟩, rfl, rfl⟩

/-- the block of the environments with key `k` -/
def envBlock (A : TA) (idx : Nat → Nat) (k : List Nat × Nat × Nat) : List Nat :=
  ((envList A idx).filter (fun e => decide (e.key = k))).map (envNode A idx)

theorem mem_envBlock {A : TA} {idx : Nat → Nat} {k : List Nat × Nat × Nat} {x : Nat} :
    x ∈ envBlock A idx k ↔ ∃ e, e ∈ envList A idx ∧ e.key = k ∧ x = envNode A idx e := by
  simp only [envBlock, List.mem_map, List.mem_filter, decide_eq_true_eq]
  constructor
  · rintro ⟨e, ⟨h1, h2⟩, h3⟩; exact ⟨e, h1, h2, h3.symm⟩
  · rintro ⟨e, h1, h2, h3⟩; exact ⟨e, ⟨h1, h2⟩, h3.symm⟩

theorem upBase_cases (A : TA) : upBase A = 3 ∧ (0 < (dedupG A.final).length ∧ (dedupG A.final).length < (parents A).length) ∨
    upBase A = 2 ∧ ¬ (0 < (dedupG A.final).length ∧ (dedupG A.final).length < (parents A).length) := by
  unfold upBase
  split
  · rename_i h; exact Or.inl ⟨rfl, h⟩
  · rename_i h; exact Or.inr ⟨rfl, h⟩

/-- the initial relation in words: state nodes (respecting finality if there are three state blocks), the leaf node with
itself, environments with equal keys -/
def UpInit (A : TA) (idx : Nat → Nat) (x y : Nat) : Prop :=
  (∃ q r, q ∈ parents A ∧ r ∈ parents A ∧ (upBase A = 3 → q ∈ A.final → r ∈ A.final) ∧ x = idx q ∧ y = idx r) ∨
  (x = (parents A).length ∧ y = (parents A).length) ∨
  (∃ e e', e ∈ envList A idx ∧ e' ∈ envList A idx ∧ e.key = e'.key ∧ x = envNode A idx e ∧ y = envNode A idx e')

theorem upInit_env {A : TA} {idx : Nat → Nat} {x y : Nat}
    (h : ∃ i j k, (headKeys A idx)[i]? = some k ∧ (headKeys A idx)[j]? = some k ∧
      x ∈ ((headKeys A idx).map (envBlock A idx)).getD i [] ∧ y ∈ ((headKeys A idx).map (envBlock A idx)).getD j []) :
    UpInit A idx x y := by
  obtain ⟨i, j, k, hi, hj, hx, hy⟩ := h
  obtain ⟨k1, hk1, hx⟩ := (mem_getD_map _ _ _ _).mp hx
  obtain ⟨k2, hk2, hy⟩ := (mem_getD_map _ _ _ _).mp hy
  rw [hi] at hk1; rw [hj] at hk2
  cases hk1; cases hk2
  obtain ⟨e, he, hek, rfl⟩ := mem_envBlock.mp hx
  obtain ⟨e', he', hek', rfl⟩ := mem_envBlock.mp hy
  exact Or.inr (Or.inr ⟨e, e', he, he', hek.trans hek'.symm, rfl, rfl⟩)

theorem env_blocks_of_key {A : TA} {idx : Nat → Nat} {e e' : Env} (he : e ∈ envList A idx) (he' : e' ∈ envList A idx)
    (hk : e.key = e'.key) : ∃ i k, (headKeys A idx)[i]? = some k ∧
      envNode A idx e ∈ ((headKeys A idx).map (envBlock A idx)).getD i [] ∧
      envNode A idx e' ∈ ((headKeys A idx).map (envBlock A idx)).getD i [] := by
  have hmem : e.key ∈ headKeys A idx := mem_dedupG.mpr (List.mem_map.mpr ⟨e, he, rfl⟩)
  obtain ⟨i, hi⟩ := List.mem_iff_getElem?.mp hmem
  refine ⟨i, e.key, hi, ?_, ?_⟩
  · exact (mem_getD_map _ _ _ _).mpr ⟨e.key, hi, mem_envBlock.mpr ⟨e, he, rfl, rfl⟩⟩
  · exact (mem_getD_map _ _ _ _).mpr ⟨e.key, hi, mem_envBlock.mpr ⟨e', he', hk.symm, rfl⟩⟩

theorem mem_finBlock {A : TA} {idx : Nat → Nat} {x : Nat} :
    x ∈ ((parents A).filter (fun q => A.final.contains q)).map idx ↔ ∃ q, q ∈ parents A ∧ q ∈ A.final ∧ x = idx q := by
  simp only [List.mem_map, List.mem_filter, List.contains_iff_mem]
  constructor
  · rintro ⟨q, ⟨h1, h2⟩, h3⟩; exact ⟨q, h1, h2, h3.symm⟩
  · rintro ⟨q, h1, h2, h3⟩; exact ⟨q, ⟨h1, h2⟩, h3.symm⟩

theorem contains_false_iff {l : List Nat} {q : Nat} : l.contains q = false ↔ q ∉ l := by
  rw [← Bool.not_eq_true, List.contains_iff_mem]

theorem mem_nonfinBlock {A : TA} {idx : Nat → Nat} {x : Nat} :
    x ∈ ((parents A).filter (fun q => !A.final.contains q)).map idx ↔ ∃ q, q ∈ parents A ∧ q ∉ A.final ∧ x = idx q := by
  simp only [List.mem_map, List.mem_filter, Bool.not_eq_true', contains_false_iff]
  constructor
  · rintro ⟨q, ⟨h1, h2⟩, h3⟩; exact ⟨q, h1, h2, h3.symm⟩
  · rintro ⟨q, h1, h2, h3⟩; exact ⟨q, ⟨h1, h2⟩, h3.symm⟩

def envPairs (A : TA) (idx : Nat → Nat) (base : Nat) : Rel :=
  (List.range (headKeys A idx).length).flatMap (fun i =>
      ((List.range (headKeys A idx).length).filter (fun j => (headKeys A idx)[i]? == (headKeys A idx)[j]?)).map
        (fun j => (base + i, base + j)))

theorem upPartition_three {A : TA} {idx : Nat → Nat} (h : upBase A = 3) : upPartition A idx =
    ((parents A).filter (fun q => A.final.contains q)).map idx ::
    ((parents A).filter (fun q => !A.final.contains q)).map idx :: [(parents A).length] ::
    (headKeys A idx).map (envBlock A idx) := by
  simp only [upPartition, h, if_true, List.cons_append, List.nil_append]
  rfl

theorem upPartition_two {A : TA} {idx : Nat → Nat} (h : upBase A = 2) : upPartition A idx =
    (parents A).map idx :: [(parents A).length] :: (headKeys A idx).map (envBlock A idx) := by
  simp only [upPartition, h]
  rfl

theorem upBlockRel_three {A : TA} {idx : Nat → Nat} (h : upBase A = 3) : upBlockRel A idx =
    (0, 0) :: (1, 0) :: (1, 1) :: (2, 2) :: envPairs A idx 3 := by
  simp only [upBlockRel, h, if_true, List.cons_append, List.nil_append]
  rfl

theorem upBlockRel_two {A : TA} {idx : Nat → Nat} (h : upBase A = 2) : upBlockRel A idx =
    (0, 0) :: (1, 1) :: envPairs A idx 2 := by
  simp only [upBlockRel, h, List.cons_append, List.nil_append]
  rfl

theorem mem_envPairs' {A : TA} {idx : Nat → Nat} {base a b : Nat} : (a, b) ∈ envPairs A idx base ↔
    ∃ i j k, (headKeys A idx)[i]? = some k ∧ (headKeys A idx)[j]? = some k ∧ a = base + i ∧ b = base + j :=
  mem_envPairs (headKeys A idx) base a b

theorem upInit_of_mem_three {A : TA} {idx : Nat → Nat} (h : upBase A = 3) {x y : Nat}
    (hxy : (x, y) ∈ blockRel (upPartition A idx) (upBlockRel A idx)) : UpInit A idx x y := by
  obtain ⟨i, j, hij, hx, hy⟩ := mem_blockRel.mp hxy
  rw [upBlockRel_three h] at hij
  rw [upPartition_three h] at hx hy
  simp only [List.mem_cons, Prod.mk.injEq] at hij
  rcases hij with ⟨rfl, rfl⟩ | ⟨rfl, rfl⟩ | ⟨rfl, rfl⟩ | ⟨rfl, rfl⟩ | hij
  · simp only [List.getD_cons_zero] at hx hy
    obtain ⟨q, hq, _, rfl⟩ := mem_finBlock.mp hx
    obtain ⟨r, hr, hrf, rfl⟩ := mem_finBlock.mp hy
    exact Or.inl ⟨q, r, hq, hr, fun _ _ => hrf, rfl, rfl⟩
  · simp only [List.getD_cons_zero, List.getD_cons_succ] at hx hy
    obtain ⟨q, hq, hqf, rfl⟩ := mem_nonfinBlock.mp hx
    obtain ⟨r, hr, hrf, rfl⟩ := mem_finBlock.mp hy
    exact Or.inl ⟨q, r, hq, hr, fun _ _ => hrf, rfl, rfl⟩
  · simp only [List.getD_cons_zero, List.getD_cons_succ] at hx hy
    obtain ⟨q, hq, hqf, rfl⟩ := mem_nonfinBlock.mp hx
    obtain ⟨r, hr, hrf, rfl⟩ := mem_nonfinBlock.mp hy
    exact Or.inl ⟨q, r, hq, hr, fun _ h' => absurd h' hqf, rfl, rfl⟩
  · simp only [List.getD_cons_zero, List.getD_cons_succ, List.mem_singleton] at hx hy
    exact Or.inr (Or.inl ⟨hx, hy⟩)
  · obtain ⟨i', j', k, hi', hj', rfl, rfl⟩ := mem_envPairs'.mp hij
    rw [Nat.add_comm 3 i'] at hx
    rw [Nat.add_comm 3 j'] at hy
    simp only [List.getD_cons_succ] at hx hy
    exact upInit_env ⟨i', j', k, hi', hj', hx, hy⟩

theorem upInit_of_mem_two {A : TA} {idx : Nat → Nat} (h : upBase A = 2) {x y : Nat}
    (hxy : (x, y) ∈ blockRel (upPartition A idx) (upBlockRel A idx)) : UpInit A idx x y := by
  obtain ⟨i, j, hij, hx, hy⟩ := mem_blockRel.mp hxy
  rw [upBlockRel_two h] at hij
  rw [upPartition_two h] at hx hy
  simp only [List.mem_cons, Prod.mk.injEq] at hij
  rcases hij with ⟨rfl, rfl⟩ | ⟨rfl, rfl⟩ | hij
  · simp only [List.getD_cons_zero, List.mem_map] at hx hy
    obtain ⟨q, hq, rfl⟩ := hx
    obtain ⟨r, hr, rfl⟩ := hy
    exact Or.inl ⟨q, r, hq, hr, fun h' => (by rw [h] at h'; cases h'), rfl, rfl⟩
  · simp only [List.getD_cons_zero, List.getD_cons_succ, List.mem_singleton] at hx hy
    exact Or.inr (Or.inl ⟨hx, hy⟩)
  · obtain ⟨i', j', k, hi', hj', rfl, rfl⟩ := mem_envPairs'.mp hij
    rw [Nat.add_comm 2 i'] at hx
    rw [Nat.add_comm 2 j'] at hy
    simp only [List.getD_cons_succ] at hx hy
    exact upInit_env ⟨i', j', k, hi', hj', hx, hy⟩

theorem mem_of_upInit_three {A : TA} {idx : Nat → Nat} (h : upBase A = 3) {x y : Nat} (hxy : UpInit A idx x y) :
    (x, y) ∈ blockRel (upPartition A idx) (upBlockRel A idx) := by
  apply mem_blockRel.mpr
  rw [upBlockRel_three h, upPartition_three h]
  rcases hxy with ⟨q, r, hq, hr, hf, rfl, rfl⟩ | ⟨rfl, rfl⟩ | ⟨e, e', he, he', hk, rfl, rfl⟩
  · by_cases hqf : q ∈ A.final
    · refine ⟨0, 0, by simp, ?_, ?_⟩
      · simp only [List.getD_cons_zero]; exact mem_finBlock.mpr ⟨q, hq, hqf, rfl⟩
      · simp only [List.getD_cons_zero]; exact mem_finBlock.mpr ⟨r, hr, hf h hqf, rfl⟩
    · by_cases hrf : r ∈ A.final
      · refine ⟨1, 0, by simp, ?_, ?_⟩
        · simp only [List.getD_cons_zero, List.getD_cons_succ]; exact mem_nonfinBlock.mpr ⟨q, hq, hqf, rfl⟩
        · simp only [List.getD_cons_zero]; exact mem_finBlock.mpr ⟨r, hr, hrf, rfl⟩
      · refine ⟨1, 1, by simp, ?_, ?_⟩
        · simp only [List.getD_cons_zero, List.getD_cons_succ]; exact mem_nonfinBlock.mpr ⟨q, hq, hqf, rfl⟩
        · simp only [List.getD_cons_zero, List.getD_cons_succ]; exact mem_nonfinBlock.mpr ⟨r, hr, hrf, rfl⟩
  · refine ⟨2, 2, by simp, ?_, ?_⟩ <;> simp only [List.getD_cons_zero, List.getD_cons_succ, List.mem_singleton]
  · obtain ⟨i, k, hi, hx, hy⟩ := env_blocks_of_key he he' hk
    refine ⟨i + 3, i + 3, ?_, ?_, ?_⟩
    · simp only [List.mem_cons]
      right; right; right; right
      exact mem_envPairs'.mpr ⟨i, i, k, hi, hi, Nat.add_comm _ _, Nat.add_comm _ _⟩
    · simp only [List.getD_cons_succ]; exact hx
    · simp only [List.getD_cons_succ]; exact hy

theorem mem_of_upInit_two {A : TA} {idx : Nat → Nat} (h : upBase A = 2) {x y : Nat} (hxy : UpInit A idx x y) :
    (x, y) ∈ blockRel (upPartition A idx) (upBlockRel A idx) := by
  apply mem_blockRel.mpr
  rw [upBlockRel_two h, upPartition_two h]
  rcases hxy with ⟨q, r, hq, hr, hf, rfl, rfl⟩ | ⟨rfl, rfl⟩ | ⟨e, e', he, he', hk, rfl, rfl⟩
  · refine ⟨0, 0, by simp, ?_, ?_⟩
    · simp only [List.getD_cons_zero]; exact List.mem_map.mpr ⟨q, hq, rfl⟩
    · simp only [List.getD_cons_zero]; exact List.mem_map.mpr ⟨r, hr, rfl⟩
  · refine ⟨1, 1, by simp, ?_, ?_⟩ <;> simp only [List.getD_cons_zero, List.getD_cons_succ, List.mem_singleton]
  · obtain ⟨i, k, hi, hx, hy⟩ := env_blocks_of_key he he' hk
    refine ⟨i + 2, i + 2, ?_, ?_, ?_⟩
    · simp only [List.mem_cons]
      right; right
      exact mem_envPairs'.mpr ⟨i, i, k, hi, hi, Nat.add_comm _ _, Nat.add_comm _ _⟩
    · simp only [List.getD_cons_succ]; exact hx
    · simp only [List.getD_cons_succ]; exact hy

/-- the initial relation of the upward encoding, in words -/
theorem mem_upInit {A : TA} {idx : Nat → Nat} {x y : Nat} :
    (x, y) ∈ blockRel (upPartition A idx) (upBlockRel A idx) ↔ UpInit A idx x y := by
  rcases upBase_cases A with ⟨h, _⟩ | ⟨h, _⟩
  · exact ⟨upInit_of_mem_three h, mem_of_upInit_three h⟩
  · exact ⟨upInit_of_mem_two h, mem_of_upInit_two h⟩

/-! #### the initial relation on state nodes and environment nodes -/

theorem upInit_states {A : TA} {idx : Nat → Nat} (hown : AllOwnRule A) {q r : Nat} (hq : q ∈ A.states)
    (hr : r ∈ A.states) (hf : q ∈ A.final → r ∈ A.final) : UpInit A idx (idx q) (idx r) :=
  Or.inl ⟨q, r, mem_parents.mpr (hown q hq), mem_parents.mpr (hown r hr), fun _ => hf, rfl, rfl⟩

theorem final_of_upInit {A : TA} {idx : Nat → Nat} (hidx : IdxOk A (parents A).length idx) (hown : AllOwnRule A)
    {q r : Nat} (hq : q ∈ A.states) (hr : r ∈ A.states) (h : UpInit A idx (idx q) (idx r)) :
    q ∈ A.final → r ∈ A.final := by
  intro hqf
  have hlt := hidx.lt q hq
  rcases h with ⟨q', r', hq', hr', hf, h1, h2⟩ | ⟨h1, _⟩ | ⟨e, _, _, _, _, h1, _⟩
  · have hqq : q = q' := hidx.inj q q' hq (parents_mem_states hq') h1
    have hrr : r = r' := hidx.inj r r' hr (parents_mem_states hr') h2
    subst hqq; subst hrr
    rcases upBase_cases A with ⟨h3, _⟩ | ⟨_, hn⟩
    · exact hf h3 hqf
    · have hqd : q ∈ dedupG A.final := mem_dedupG.mpr hqf
      have hpos : 0 < (dedupG A.final).length := List.length_pos_of_mem hqd
      have hsub := subset_of_nodup_length (dedupG A.final) (parents A) (nodup_dedupG _)
        (fun x hx => mem_parents.mpr (hown x (SimModel.final_mem_states (mem_dedupG.mp hx))))
        (by omega) r hr'
      exact mem_dedupG.mp hsub
  · omega
  · have := envNode_gt A idx e
    omega

theorem env_of_upInit {A : TA} {idx : Nat → Nat} (hidx : IdxOk A (parents A).length idx) {e : Env}
    (he : e ∈ envList A idx) {y : Nat} (h : UpInit A idx (envNode A idx e) y) :
    ∃ e', e' ∈ envList A idx ∧ y = envNode A idx e' ∧ e.key = e'.key := by
  have hgt := envNode_gt A idx e
  rcases h with ⟨q', _, hq', _, _, h1, _⟩ | ⟨h1, _⟩ | ⟨e1, e', he1, he', hk, h1, h2⟩
  · have := hidx.lt q' (parents_mem_states hq')
    omega
  · omega
  · have : e1 = e := envNode_inj he1 h1.symm
    subst this
    exact ⟨e', he', h2, hk⟩

theorem mkEnv_mem {A : TA} {idx : Nat → Nat} {ρ : Rule} (hρ : ρ ∈ A.rules) (hl : 2 ≤ ρ.kids.length) {i p : Nat}
    (hi : ρ.kids[i]? = some p) : mkEnv A idx ρ i ∈ envList A idx :=
  mem_envList.mpr ⟨ρ, hρ, hl, i, (List.getElem?_eq_some_iff.mp hi).1, rfl⟩

/-! #### an upward simulation of `A` extends to a simulation of the LTS inside the initial relation -/

def upExt (A : TA) (idx : Nat → Nat) (S : Nat → Nat → Prop) (x y : Nat) : Prop :=
  (∃ q r, q ∈ A.states ∧ r ∈ A.states ∧ S q r ∧ x = idx q ∧ y = idx r) ∨
  (∃ e e', e ∈ envList A idx ∧ e' ∈ envList A idx ∧ e.key = e'.key ∧
    (∃ p p', p ∈ A.states ∧ p' ∈ A.states ∧ S p p' ∧ e.state = idx p ∧ e'.state = idx p') ∧
    x = envNode A idx e ∧ y = envNode A idx e')

theorem env_edge_mem {A : TA} {idx : Nat → Nat} {e : Env} (he : e ∈ envList A idx) :
    (envNode A idx e, e.symbol, e.state) ∈ (translateUpward A idx).1.edges :=
  mem_upEdges.mpr (Or.inr ⟨e, he, rfl⟩)

theorem upExt_isSim (A : TA) (idx : Nat → Nat) (hidx : IdxOk A (parents A).length idx) (S : Nat → Nat → Prop)
    (hS : IsUpSim A S) : IsSim (translateUpward A idx).1 (upExt A idx S) := by
  intro x y hxy a x' he
  rcases hxy with ⟨q, r, hq, hr, hqr, rfl, rfl⟩ | ⟨e, e', he1, he1', hk, ⟨p, p', hp, hp', hpp, hep, hep'⟩, rfl, rfl⟩
  · rcases edge_from_state hidx hq he with ⟨ρ, hρ, hk, ha, hd⟩ | ⟨ρ, hρ, hl, i, hi, ha, hd⟩
    · obtain ⟨σ, hσ, hσs, hσk, hpar⟩ := (hS q r hqr).2 ρ hρ 0 (by rw [hk]; rfl)
      rw [hk] at hσk
      refine ⟨idx σ.parent, ?_, ?_⟩
      · apply mem_upEdges.mpr; left
        exact ⟨σ, hσ, Or.inr (Or.inl ⟨r, hσk, by rw [ha, hσs]⟩)⟩
      · rw [hd]
        exact Or.inl ⟨ρ.parent, σ.parent, SimModel.parent_mem_states hρ, SimModel.parent_mem_states hσ, hpar, rfl, rfl⟩
    · obtain ⟨σ, hσ, hσs, hσk, hpar⟩ := (hS q r hqr).2 ρ hρ i hi
      have hi' : σ.kids[i]? = some r := by rw [hσk]; exact SimModel.getElem?_setAt _ _ _ _ hi
      have hl' : 2 ≤ σ.kids.length := by rw [hσk, length_setAt]; exact hl
      refine ⟨envNode A idx (mkEnv A idx σ i), ?_, ?_⟩
      · apply mem_upEdges.mpr; left
        exact ⟨σ, hσ, Or.inr (Or.inr ⟨hl', i, r, hi', by rw [ha]⟩)⟩
      · rw [hd]
        refine Or.inr ⟨_, _, mkEnv_mem hρ hl hi, mkEnv_mem hσ hl' hi', ?_, ?_, rfl, rfl⟩
        · simp only [Env.key, mkEnv, hσk, eraseIdx_setAt, hσs]
        · exact ⟨ρ.parent, σ.parent, SimModel.parent_mem_states hρ, SimModel.parent_mem_states hσ, hpar, rfl, rfl⟩
  · obtain ⟨ha, hd⟩ := edge_from_env hidx he
    refine ⟨e'.state, ?_, ?_⟩
    · have hsym : e'.symbol = e.symbol := by
        simp only [Env.key, Prod.mk.injEq] at hk
        exact hk.2.2.symm
      rw [ha, ← hsym]; exact env_edge_mem he1'
    · rw [hd, hep, hep']
      exact Or.inl ⟨p, p', hp, hp', hpp, rfl, rfl⟩

theorem upExt_init (A : TA) (idx : Nat → Nat) (hown : AllOwnRule A) (S : Nat → Nat → Prop) (hS : IsUpSim A S)
    (x y : Nat) (h : upExt A idx S x y) : (x, y) ∈ blockRel (upPartition A idx) (upBlockRel A idx) := by
  apply mem_upInit.mpr
  rcases h with ⟨q, r, hq, hr, hqr, rfl, rfl⟩ | ⟨e, e', he, he', hk, _, rfl, rfl⟩
  · exact upInit_states hown hq hr (hS q r hqr).1
  · exact Or.inr (Or.inr ⟨e, e', he, he', hk, rfl, rfl⟩)

/-! #### a simulation of the LTS inside the initial relation, restricted to the state nodes, is an upward simulation -/

theorem upRestr_upSim (A : TA) (idx : Nat → Nat) (hidx : IdxOk A (parents A).length idx) (hown : AllOwnRule A)
    (R : Nat → Nat → Prop) (hR : IsSim (translateUpward A idx).1 R)
    (hRI : ∀ x y, R x y → (x, y) ∈ blockRel (upPartition A idx) (upBlockRel A idx)) :
    IsUpSim A (downRestr A idx R) := by
  rintro q r ⟨hq, hr, hqr⟩
  refine ⟨final_of_upInit hidx hown hq hr (mem_upInit.mp (hRI _ _ hqr)), ?_⟩
  intro ρ hρ i hi
  by_cases hl : 2 ≤ ρ.kids.length
  · -- through the environment
    have he : (idx q, (symList A).length, envNode A idx (mkEnv A idx ρ i)) ∈ (translateUpward A idx).1.edges :=
      mem_upEdges.mpr (Or.inl ⟨ρ, hρ, Or.inr (Or.inr ⟨hl, i, q, hi, rfl⟩)⟩)
    obtain ⟨d, hd, hRd⟩ := hR _ _ hqr _ _ he
    have hm : pos ρ.sym (symList A) < (symList A).length := pos_lt (sym_mem_symList hρ)
    rcases edge_from_state hidx hr hd with ⟨σ, hσ, _, ha, _⟩ | ⟨σ, hσ, hl', j, hj, _, hdj⟩
    · have := pos_lt (sym_mem_symList hσ)
      omega
    · have hρe := mkEnv_mem (idx := idx) hρ hl hi
      have hσe := mkEnv_mem (idx := idx) hσ hl' hj
      rw [hdj] at hRd
      obtain ⟨e', he', hee, hk⟩ := env_of_upInit hidx hρe (mem_upInit.mp (hRI _ _ hRd))
      have : e' = mkEnv A idx σ j := (envNode_inj hσe hee).symm
      subst this
      simp only [Env.key, mkEnv, Prod.mk.injEq] at hk
      obtain ⟨hk1, hk2, hk3⟩ := hk
      subst hk2
      have hσs : σ.sym = ρ.sym := (pos_inj (sym_mem_symList hρ) hk3).symm
      have hσk : σ.kids = setAt ρ.kids i r := eq_setAt_of_eraseIdx _ _ _ _ _ hi hj hk1.symm
      refine ⟨σ, hσ, hσs, hσk, SimModel.parent_mem_states hρ, SimModel.parent_mem_states hσ, ?_⟩
      obtain ⟨d2, hd2, hRd2⟩ := hR _ _ hRd _ _ (env_edge_mem hρe)
      obtain ⟨_, hd2'⟩ := edge_from_env hidx hd2
      rw [hd2'] at hRd2
      exact hRd2
  · -- a unary rule
    match hk : ρ.kids, hl, hi with
    | [], _, hi => simp at hi
    | [p], _, hi =>
      have hi0 : i = 0 := by
        cases i with
        | zero => rfl
        | succ i => simp at hi
      subst hi0
      have hpq : p = q := by simpa [hk] using hi
      subst hpq
      have he : (idx p, pos ρ.sym (symList A), idx ρ.parent) ∈ (translateUpward A idx).1.edges :=
        mem_upEdges.mpr (Or.inl ⟨ρ, hρ, Or.inr (Or.inl ⟨p, hk, rfl⟩)⟩)
      obtain ⟨d, hd, hRd⟩ := hR _ _ hqr _ _ he
      have hm : pos ρ.sym (symList A) < (symList A).length := pos_lt (sym_mem_symList hρ)
      rcases edge_from_state hidx hr hd with ⟨σ, hσ, hσk, ha, hdσ⟩ | ⟨σ, hσ, _, j, _, ha, _⟩
      · have hσs : σ.sym = ρ.sym := (pos_inj (sym_mem_symList hρ) ha).symm
        refine ⟨σ, hσ, hσs, by rw [hσk]; rfl, SimModel.parent_mem_states hρ, SimModel.parent_mem_states hσ, ?_⟩
        rw [← hdσ]; exact hRd
      · omega
    | _ :: _ :: _, hl, _ => simp at hl

/-- **C04, upward route (repaired code).**  For an automaton in which every state owns a rule and every numbering `idx`
of its states that is injective with values `< transitions_->size()` (hence a bijection onto `0..N-1`): the LTS engine
(greatest simulation inside the relation given by the partition and the relation on its blocks, output restricted to the
indices `< size`, `N ≤ size`) relates `idx q` to `idx r` iff `(q, r)` is in the greatest upward simulation of `A`. -/
theorem translateUpward_correct (A : TA) (size : Nat) (idx : Nat → Nat) (hidx : IdxOk A (parents A).length idx)
    (hsize : (parents A).length ≤ size) (hown : AllOwnRule A) (q r : Nat) (hq : q ∈ A.states) (hr : r ∈ A.states) :
    (idx q, idx r) ∈ ltsSimOut (translateUpward A idx).1
        (blockRel (translateUpward A idx).2.1 (translateUpward A idx).2.2) size ↔ (q, r) ∈ upSimRef A := by
  rw [restrict_output]
  show _ ∧ _ ∧ (idx q, idx r) ∈ ltsSimRef (translateUpward A idx).1 (blockRel (upPartition A idx) (upBlockRel A idx)) ↔ _
  constructor
  · rintro ⟨_, _, h⟩
    exact upSimRef_contains A _
      (upRestr_upSim A idx hidx hown _ (ltsSimRef_sim _ _) (fun x y hxy => ltsSimRef_sub _ _ (x, y) hxy))
      q r hq hr ⟨hq, hr, h⟩
  · intro h
    have h1 := hidx.lt q hq
    have h2 := hidx.lt r hr
    refine ⟨by omega, by omega, ?_⟩
    exact ltsSimRef_contains _ _ _ (upExt_isSim A idx hidx _ (upSimRef_sim A))
      (upExt_init A idx hown _ (upSimRef_sim A)) _ _ (Or.inl ⟨q, r, hq, hr, h, rfl, rfl⟩)

/-- the relation `ComputeUpwardSimulation(size)` returns (model of the repaired code) is `upSimRef A` -/
theorem upSimViaLts_iff (A : TA) (size : Nat) (idx : Nat → Nat) (hidx : IdxOk A (parents A).length idx)
    (hsize : (parents A).length ≤ size) (hown : AllOwnRule A) (q r : Nat) :
    (q, r) ∈ upSimViaLts A size idx ↔ (q, r) ∈ upSimRef A := by
  unfold upSimViaLts
  rw [mem_readBack]
  constructor
  · rintro ⟨hq, hr, h⟩
    exact (translateUpward_correct A size idx hidx hsize hown q r hq hr).mp h
  · intro h
    obtain ⟨hq, hr⟩ := upSimRef_sub A h
    exact ⟨hq, hr, (translateUpward_correct A size idx hidx hsize hown q r hq hr).mpr h⟩

theorem allOwnRuleB_iff {A : TA} : allOwnRuleB A = true ↔ AllOwnRule A := by
  simp only [allOwnRuleB, List.all_eq_true, List.any_eq_true, beq_iff_eq, AllOwnRule]

/-- non-vacuity: final and non-final states, binary rules, a non-identity numbering onto `0..3` -/
example : IdxOk TaLtsEx.exB (parents TaLtsEx.exB).length (TaLtsEx.perm [2, 9, 3, 1, 0]) ∧
    (parents TaLtsEx.exB).length ≤ 4 ∧ AllOwnRule TaLtsEx.exB ∧ 3 ∈ TaLtsEx.exB.states ∧ 4 ∈ TaLtsEx.exB.states ∧
    (3, 4) ∈ upSimRef TaLtsEx.exB ∧ (2, 4) ∉ upSimRef TaLtsEx.exB :=
  ⟨idxOkB_iff.mp (by decide), by decide, allOwnRuleB_iff.mp (by decide), by decide, by decide, by decide, by decide⟩

/-- **the code before the repair** (`stateIndex[envIndexPair.first.state_]`: the parent of an environment, already an LTS
index, is translated once more).  Automaton: `F = {4,2,3}`, `a → 0,2,3,4`, `b → 0,4`, `g(2,0) → 2`, `g(4,0) → 0`;
numbering `0 ↦ 2, 2 ↦ 3, 3 ↦ 1, 4 ↦ 0` (a bijection of the states onto `0..3`; the two look-ups the old code makes,
`stateIndex[3]` and `stateIndex[2]`, are on states of the automaton).  The old code relates `2` to `4`: the environment
`g(□,0) → 2` then points to the node of state `3` (= `idx (idx 2)`), and `g(□,0) → 0` to the node of `2` (= `idx (idx 0)`),
and `3` is upward-simulated by `2`.  But `2` is not upward-simulated by `4` (`g(2,0) → 2` vs `g(4,0) → 0`, `2` is final, `0`
is not), and the repaired code does not relate them. -/
theorem translateUpward_old_counterexample :
    IdxOk TaLtsEx.exB (parents TaLtsEx.exB).length (TaLtsEx.perm [2, 9, 3, 1, 0]) ∧
    (parents TaLtsEx.exB).length = 4 ∧ AllOwnRule TaLtsEx.exB ∧
    (∀ e, e ∈ envList TaLtsEx.exB (TaLtsEx.perm [2, 9, 3, 1, 0]) → e.state ∈ TaLtsEx.exB.states) ∧
    (2, 4) ∈ upSimViaLtsOld TaLtsEx.exB 4 (TaLtsEx.perm [2, 9, 3, 1, 0]) ∧
    (2, 4) ∉ upSimRef TaLtsEx.exB ∧
    (2, 4) ∉ upSimViaLts TaLtsEx.exB 4 (TaLtsEx.perm [2, 9, 3, 1, 0]) ∧
    upSimViaLtsOld TaLtsEx.exB 4 id = upSimViaLts TaLtsEx.exB 4 id :=
  ⟨idxOkB_iff.mp (by decide), by decide, allOwnRuleB_iff.mp (by decide), by decide, by decide, by decide, by decide,
    by decide⟩

/-! #### the initial relation of the upward encoding is a preorder on the nodes (precondition of the engine, C16) -/

theorem upInit_refl {A : TA} {idx : Nat → Nat} (hown : AllOwnRule A) :
    (∀ q, q ∈ A.states → (idx q, idx q) ∈ blockRel (upPartition A idx) (upBlockRel A idx)) ∧
    ((parents A).length, (parents A).length) ∈ blockRel (upPartition A idx) (upBlockRel A idx) ∧
    (∀ e, e ∈ envList A idx → (envNode A idx e, envNode A idx e) ∈ blockRel (upPartition A idx) (upBlockRel A idx)) :=
  ⟨fun _ hq => mem_upInit.mpr (upInit_states hown hq hq id), mem_upInit.mpr (Or.inr (Or.inl ⟨rfl, rfl⟩)),
   fun e he => mem_upInit.mpr (Or.inr (Or.inr ⟨e, e, he, he, rfl, rfl, rfl⟩))⟩

theorem upInit_trans {A : TA} {idx : Nat → Nat} (hidx : IdxOk A (parents A).length idx) (x y z : Nat)
    (hxy : (x, y) ∈ blockRel (upPartition A idx) (upBlockRel A idx))
    (hyz : (y, z) ∈ blockRel (upPartition A idx) (upBlockRel A idx)) :
    (x, z) ∈ blockRel (upPartition A idx) (upBlockRel A idx) := by
  apply mem_upInit.mpr
  rcases mem_upInit.mp hxy with ⟨q, r, hq, hr, hf, rfl, rfl⟩ | ⟨rfl, rfl⟩ | ⟨e, e', he, he', hk, rfl, rfl⟩
  · have hlt := hidx.lt r (parents_mem_states hr)
    rcases mem_upInit.mp hyz with ⟨r', s, hr', hs, hf', h1, rfl⟩ | ⟨h1, _⟩ | ⟨e, _, _, _, _, h1, _⟩
    · have : r = r' := hidx.inj r r' (parents_mem_states hr) (parents_mem_states hr') h1
      subst this
      exact Or.inl ⟨q, s, hq, hs, fun h3 hqf => hf' h3 (hf h3 hqf), rfl, rfl⟩
    · omega
    · have := envNode_gt A idx e
      omega
  · rcases mem_upInit.mp hyz with ⟨r', _, hr', _, _, h1, _⟩ | ⟨_, rfl⟩ | ⟨e, _, _, _, _, h1, _⟩
    · have := hidx.lt r' (parents_mem_states hr')
      omega
    · exact Or.inr (Or.inl ⟨rfl, rfl⟩)
    · have := envNode_gt A idx e
      omega
  · have hgt := envNode_gt A idx e'
    rcases mem_upInit.mp hyz with ⟨r', _, hr', _, _, h1, _⟩ | ⟨h1, _⟩ | ⟨e1, e2, he1, he2, hk', h1, rfl⟩
    · have := hidx.lt r' (parents_mem_states hr')
      omega
    · omega
    · have : e' = e1 := envNode_inj he' h1
      subst this
      exact Or.inr (Or.inr ⟨e, e2, he, he2, hk.trans hk', rfl, rfl⟩)

end Vata.TaLts
