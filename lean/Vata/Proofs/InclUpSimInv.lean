import Vata.Proofs.InclUpSim
import Vata.Proofs.InclUpInv
/-!
# The exploration of `inclUpSim` is right by itself (partial correctness of `InclUpSim.run`)

The main theorems of `Vata/Proofs/InclUpSim.lean` trust only the final Boolean checks.  Here the work-list algorithm with
the relation is analysed, for a relation `R` that is transitive (the computed upward simulation is a preorder):

* `run_ok_cert`   : when the exploration ends with `return true`, the final antichain passes `upCertSimB` (so for a
                    validated relation the check never turns a finished `true` run into `none`);
* `run_error_ok`  : when it ends with `return false` at `(q, t)` and `R` is moreover an upward simulation of the disjoint
                    union, then `q ∈ reach A t` and either `q` is final and `B` does not accept `t`, or no state of `B`
                    reaches `t` (`InclUp.ErrOK`).

The proofs follow `Vata/Proofs/InclUpInv.lean`; the lemmas on choices, tasks and the work-list are reused from there.
-/
namespace Vata
namespace InclUpSim
open InclUp

/-! ### the reflexive closure of the relation -/

theorem le_iff {R : Rel} {a b : Nat} : le R a b = true ↔ (a, b) ∈ R := by
  simp only [le, List.contains_iff_mem]

theorem LeqP.refl (R : Rel) (a : Nat) : LeqP R a a := Or.inl rfl

theorem LeqP.of_le {R : Rel} {a b : Nat} (h : le R a b = true) : LeqP R a b := Or.inr (le_iff.mp h)

theorem LeqP.trans {R : Rel} (htr : ∀ a b c, (a, b) ∈ R → (b, c) ∈ R → (a, c) ∈ R) {a b c : Nat}
    (h₁ : LeqP R a b) (h₂ : LeqP R b c) : LeqP R a c := by
  rcases h₁ with rfl | h₁
  · exact h₂
  · rcases h₂ with rfl | h₂
    · exact Or.inr h₁
    · exact Or.inr (htr _ _ _ h₁ h₂)

/-- every state of `X` is below a state of `Y` -/
def Below (R : Rel) (X Y : List Nat) : Prop := ∀ x, x ∈ X → ∃ y, y ∈ Y ∧ LeqP R x y

theorem Below.refl (R : Rel) (X : List Nat) : Below R X X := fun x hx => ⟨x, hx, LeqP.refl R x⟩

theorem Below.of_sub {R : Rel} {X Y : List Nat} (h : ∀ x, x ∈ X → x ∈ Y) : Below R X Y :=
  fun x hx => ⟨x, h x hx, LeqP.refl R x⟩

theorem Below.trans {R : Rel} (htr : ∀ a b c, (a, b) ∈ R → (b, c) ∈ R → (a, c) ∈ R) {X Y Z : List Nat}
    (h₁ : Below R X Y) (h₂ : Below R Y Z) : Below R X Z := by
  intro x hx
  obtain ⟨y, hy, hxy⟩ := h₁ x hx
  obtain ⟨z, hz, hyz⟩ := h₂ y hy
  exact ⟨z, hz, hxy.trans htr hyz⟩

theorem lte_imp {R : Rel} {X Y : List Nat} (h : lte R X Y = true) : Below R X Y := by
  simp only [lte, Bool.or_eq_true, beq_iff_eq, List.all_eq_true, List.any_eq_true] at h
  rcases h with rfl | h
  · exact Below.refl R X
  · intro x hx
    obtain ⟨y, hy, hxy⟩ := h x hx
    exact ⟨y, hy, LeqP.of_le hxy⟩

/-! ### subsumption modulo the relation -/

/-- `(q, S)` is subsumed by the antichain `P` modulo `R` -/
def SubR (R : Rel) (P : List Item) (q : Nat) (S : List Nat) : Prop := ∃ i, i ∈ P ∧ LeqP R q i.q ∧ Below R i.S S

/-- `(q, S)` is skipped (a state of `S` simulates `q`) or subsumed -/
def CovR (R : Rel) (P : List Item) (q : Nat) (S : List Nat) : Prop := (∃ s, s ∈ S ∧ LeqP R q s) ∨ SubR R P q S

theorem subsumed_imp {R : Rel} {P : List Item} {q : Nat} {S : List Nat} (h : subsumed R P q S = true) :
    SubR R P q S := by
  simp only [subsumed, List.any_eq_true, Bool.and_eq_true] at h
  obtain ⟨i, hi, hq, hS⟩ := h
  exact ⟨i, hi, LeqP.of_le hq, lte_imp hS⟩

theorem SubR.mono {R : Rel} {P : List Item} {q : Nat} {S S' : List Nat} (h : SubR R P q S)
    (hs : ∀ x, x ∈ S → x ∈ S') : SubR R P q S' := by
  obtain ⟨i, hi, hq, hsub⟩ := h
  refine ⟨i, hi, hq, fun x hx => ?_⟩
  obtain ⟨y, hy, hxy⟩ := hsub x hx
  exact ⟨y, hs y hy, hxy⟩

theorem CovR.mono {R : Rel} {P : List Item} {q : Nat} {S S' : List Nat} (h : CovR R P q S)
    (hs : ∀ x, x ∈ S → x ∈ S') : CovR R P q S' := by
  rcases h with ⟨s, hs', hq⟩ | h
  · exact Or.inl ⟨s, hs s hs', hq⟩
  · exact Or.inr (h.mono hs)

theorem CovR.imp {R : Rel} {P P' : List Item} {q : Nat} {S : List Nat} (h : CovR R P q S)
    (hP : ∀ q S, SubR R P q S → SubR R P' q S) : CovR R P' q S := by
  rcases h with h | h
  · exact Or.inl h
  · exact Or.inr (hP q S h)

theorem mem_refine {R : Rel} {P : List Item} {q : Nat} {S : List Nat} {i : Item} :
    i ∈ refine R P q S ↔ i ∈ P ∧ (le R i.q q && lte R S i.S) = false := by
  simp only [refine, List.mem_filter, Bool.not_eq_true']

/-! ### `addTmp` / `addItem` -/

theorem addItem_processed (R : Rel) (st : St) (it : Item) :
    (addItem R st it).processed = addTmp R st.processed it := by
  unfold addItem addTmp
  split <;> rfl

theorem addTmp_mono {R : Rel} (htr : ∀ a b c, (a, b) ∈ R → (b, c) ∈ R → (a, c) ∈ R) {P : List Item} {it : Item}
    {q : Nat} {S : List Nat} (h : SubR R P q S) : SubR R (addTmp R P it) q S := by
  unfold addTmp
  split
  · exact h
  · obtain ⟨i, hi, hq, hsub⟩ := h
    cases hr : (le R i.q it.q && lte R it.S i.S) with
    | false => exact ⟨i, List.mem_append_left _ (mem_refine.mpr ⟨hi, hr⟩), hq, hsub⟩
    | true =>
      simp only [Bool.and_eq_true] at hr
      exact ⟨it, List.mem_append_right _ (List.mem_singleton.mpr rfl), hq.trans htr (LeqP.of_le hr.1),
        (lte_imp hr.2).trans htr hsub⟩

theorem addTmp_self (R : Rel) (P : List Item) (it : Item) : SubR R (addTmp R P it) it.q it.S := by
  unfold addTmp
  split
  · next h => exact subsumed_imp h
  · exact ⟨it, List.mem_append_right _ (List.mem_singleton.mpr rfl), LeqP.refl R _, Below.refl R _⟩

theorem mem_addTmp {R : Rel} {P : List Item} {it i : Item} (h : i ∈ addTmp R P it) : i ∈ P ∨ i = it := by
  unfold addTmp at h
  split at h
  · exact Or.inl h
  · rcases List.mem_append.mp h with h | h
    · exact Or.inl (mem_refine.mp h).1
    · exact Or.inr (List.mem_singleton.mp h)

theorem addItem_mono {R : Rel} (htr : ∀ a b c, (a, b) ∈ R → (b, c) ∈ R → (a, c) ∈ R) {st : St} {it : Item} {q : Nat}
    {S : List Nat} (h : SubR R st.processed q S) : SubR R (addItem R st it).processed q S := by
  rw [addItem_processed]; exact addTmp_mono htr h

theorem addItem_self (R : Rel) (st : St) (it : Item) : SubR R (addItem R st it).processed it.q it.S := by
  rw [addItem_processed]; exact addTmp_self R _ _

theorem mem_addItem {R : Rel} {st : St} {it i : Item} (h : i ∈ (addItem R st it).processed) :
    i ∈ st.processed ∨ i = it := by
  rw [addItem_processed] at h; exact mem_addTmp h

theorem mem_addItem_next {R : Rel} {st : St} {it i : Item} (h : i ∈ (addItem R st it).next) :
    i ∈ st.next ∨ i = it := by
  unfold addItem at h
  split at h
  · exact Or.inl h
  · rcases mem_insNext.mp h with h | h
    · exact Or.inr h
    · exact Or.inl (mem_refine.mp h).1

theorem done_addItem {R : Rel} {st : St} {it i : Item} (h : Done (addItem R st it) i) : Done st i := by
  obtain ⟨h1, h2⟩ := h
  unfold addItem at h1 h2
  by_cases hs : subsumed R st.processed it.q it.S = true
  · rw [if_pos hs] at h1 h2; exact ⟨h1, h2⟩
  · rw [if_neg hs] at h1 h2
    have hne : i ≠ it := fun e => h2 (mem_insNext.mpr (Or.inl e))
    rcases List.mem_append.mp h1 with h1 | h1
    · obtain ⟨hP, hr⟩ := mem_refine.mp h1
      exact ⟨hP, fun hN => h2 (mem_insNext.mpr (Or.inr (mem_refine.mpr ⟨hN, hr⟩)))⟩
    · exact absurd (List.mem_singleton.mp h1) hne

/-! ### folding `addItem` (merging `temporary`) -/

theorem foldl_addItem_mono {R : Rel} (htr : ∀ a b c, (a, b) ∈ R → (b, c) ∈ R → (a, c) ∈ R) {q : Nat} {S : List Nat} :
    ∀ (tmp : List Item) (st : St), SubR R st.processed q S → SubR R (tmp.foldl (addItem R) st).processed q S
  | [], _, h => h
  | it :: tmp, st, h => foldl_addItem_mono htr tmp (addItem R st it) (addItem_mono htr h)

theorem foldl_addItem_self {R : Rel} (htr : ∀ a b c, (a, b) ∈ R → (b, c) ∈ R → (a, c) ∈ R) :
    ∀ (tmp : List Item) (st : St) (i : Item), i ∈ tmp → SubR R (tmp.foldl (addItem R) st).processed i.q i.S
  | [], _, _, h => by simp at h
  | it :: tmp, st, i, h => by
    rcases List.mem_cons.mp h with h | h
    · subst h; exact foldl_addItem_mono htr tmp _ (addItem_self R st i)
    · exact foldl_addItem_self htr tmp _ i h

theorem foldl_addItem_done {R : Rel} {i : Item} : ∀ (tmp : List Item) (st : St),
    Done (tmp.foldl (addItem R) st) i → Done st i
  | [], _, h => h
  | it :: tmp, st, h => done_addItem (foldl_addItem_done tmp (addItem R st it) h)

theorem foldl_addItem_mem {R : Rel} {i : Item} : ∀ (tmp : List Item) (st : St),
    i ∈ (tmp.foldl (addItem R) st).processed → i ∈ st.processed ∨ i ∈ tmp
  | [], _, h => Or.inl h
  | it :: tmp, st, h => by
    rcases foldl_addItem_mem tmp (addItem R st it) h with h | h
    · rcases mem_addItem h with h | h
      · exact Or.inl h
      · exact Or.inr (h ▸ List.mem_cons_self)
    · exact Or.inr (List.mem_cons_of_mem _ h)

theorem foldl_addItem_mem_next {R : Rel} {i : Item} : ∀ (tmp : List Item) (st : St),
    i ∈ (tmp.foldl (addItem R) st).next → i ∈ st.next ∨ i ∈ tmp
  | [], _, h => Or.inl h
  | it :: tmp, st, h => by
    rcases foldl_addItem_mem_next tmp (addItem R st it) h with h | h
    · rcases mem_addItem_next h with h | h
      · exact Or.inl h
      · exact Or.inr (h ▸ List.mem_cons_self)
    · exact Or.inr (List.mem_cons_of_mem _ h)

/-! ### the minimised macro-state -/

/-- the relation respects the final states of `B` (inside `B`) -/
def FinB (B : TA) (R : Rel) : Prop := ∀ s s', (s, s') ∈ R → s ∈ B.final → s' ∈ B.states → s' ∈ B.final

theorem minStep_sub {R : Rel} {B : TA} {acc : List Nat × Bool} {s x : Nat} (h : x ∈ (minStep R B acc s).1) :
    x ∈ acc.1 ∨ x = s := by
  unfold minStep at h
  split at h
  · exact Or.inl h
  · simp only [List.mem_append, List.mem_filter, List.mem_singleton] at h
    rcases h with h | h
    · exact Or.inl h.1
    · exact Or.inr h

theorem foldl_minStep_sub {R : Rel} {B : TA} {x : Nat} : ∀ (l : List Nat) (acc : List Nat × Bool),
    x ∈ (l.foldl (minStep R B) acc).1 → x ∈ acc.1 ∨ x ∈ l
  | [], _, h => Or.inl h
  | s :: l, acc, h => by
    rcases foldl_minStep_sub l (minStep R B acc s) h with h | h
    · rcases minStep_sub h with h | h
      · exact Or.inl h
      · exact Or.inr (h ▸ List.mem_cons_self)
    · exact Or.inr (List.mem_cons_of_mem _ h)

theorem mem_minPost_sub {R : Rel} {B : TA} {l : List Nat} {x : Nat} (h : x ∈ (minPost R B l).1) : x ∈ l := by
  rcases foldl_minStep_sub l _ h with h | h
  · simp at h
  · exact h

/-- the flag `isAccepting` is backed by a final state that is still in the minimised set -/
theorem foldl_minStep_flag {R : Rel} {B : TA} (hfin : FinB B R) :
    ∀ (l : List Nat) (acc : List Nat × Bool), (∀ x, x ∈ l → x ∈ B.states) →
      (acc.2 = true → ∃ s, s ∈ acc.1 ∧ s ∈ B.final) →
      (l.foldl (minStep R B) acc).2 = true → ∃ s, s ∈ (l.foldl (minStep R B) acc).1 ∧ s ∈ B.final
  | [], _, _, h => h
  | s :: l, acc, hl, h => by
    apply foldl_minStep_flag hfin l (minStep R B acc s) (fun x hx => hl x (List.mem_cons_of_mem _ hx))
    unfold minStep
    split
    · exact h
    · simp only [Bool.or_eq_true, List.contains_iff_mem, List.mem_append, List.mem_filter, List.mem_singleton,
        Bool.not_eq_true']
      rintro (hf | hf)
      · obtain ⟨w, hw, hwf⟩ := h hf
        cases hle : le R w s with
        | false => exact ⟨w, Or.inl ⟨hw, hle⟩, hwf⟩
        | true => exact ⟨s, Or.inr rfl, hfin w s (le_iff.mp hle) hwf (hl s List.mem_cons_self)⟩
      · exact ⟨s, Or.inr rfl, hf⟩

/-- without the flag no state of the minimised set is final -/
theorem foldl_minStep_noflag {R : Rel} {B : TA} :
    ∀ (l : List Nat) (acc : List Nat × Bool), (acc.2 = false → ∀ s, s ∈ acc.1 → s ∉ B.final) →
      (l.foldl (minStep R B) acc).2 = false → ∀ s, s ∈ (l.foldl (minStep R B) acc).1 → s ∉ B.final
  | [], _, h => h
  | s :: l, acc, h => by
    apply foldl_minStep_noflag l (minStep R B acc s)
    unfold minStep
    split
    · exact h
    · simp only [Bool.or_eq_false_iff, List.mem_append, List.mem_filter, List.mem_singleton]
      rintro ⟨hf, hs⟩ x (hx | hx)
      · exact h hf x hx.1
      · intro hxf
        have := List.contains_iff_mem.mpr (hx ▸ hxf)
        rw [hs] at this; cases this

/-- every parent that was offered is below a state of the minimised set -/
theorem foldl_minStep_cover {R : Rel} {B : TA} (htr : ∀ a b c, (a, b) ∈ R → (b, c) ∈ R → (a, c) ∈ R) {y : Nat} :
    ∀ (l : List Nat) (acc : List Nat × Bool), ((∃ x, x ∈ acc.1 ∧ LeqP R y x) ∨ y ∈ l) →
      ∃ x, x ∈ (l.foldl (minStep R B) acc).1 ∧ LeqP R y x
  | [], _, h => by
    rcases h with h | h
    · exact h
    · simp at h
  | s :: l, acc, h => by
    apply foldl_minStep_cover htr l (minStep R B acc s)
    have hs : ∃ x, x ∈ (minStep R B acc s).1 ∧ LeqP R s x := by
      unfold minStep
      split
      · next ha =>
        simp only [List.any_eq_true] at ha
        obtain ⟨p, hp, hsp⟩ := ha
        exact ⟨p, hp, LeqP.of_le hsp⟩
      · exact ⟨s, by simp, LeqP.refl R s⟩
    rcases h with ⟨x, hx, hyx⟩ | h
    · left
      unfold minStep
      split
      · exact ⟨x, hx, hyx⟩
      · cases hle : le R x s with
        | false => exact ⟨x, by simp [hx, hle], hyx⟩
        | true => exact ⟨s, by simp, hyx.trans htr (LeqP.of_le hle)⟩
    · rcases List.mem_cons.mp h with rfl | h
      · exact Or.inl hs
      · exact Or.inr h

theorem mem_macroPost_sub {R : Rel} {B : TA} {f : Nat} {Ss : List (List Nat)} {x : Nat}
    (h : x ∈ (macroPost R B f Ss).1) : x ∈ post B f Ss :=
  mem_minPost_sub (mem_normS.mp h)

theorem macroPost_flag {R : Rel} {B : TA} (hfin : FinB B R) {f : Nat}
    {Ss : List (List Nat)} (h : (macroPost R B f Ss).2 = true) : accepting B (macroPost R B f Ss).1 = true := by
  have hst : ∀ x, x ∈ post B f Ss → x ∈ B.states := fun x hx => by
    obtain ⟨r, hr, _, _, hp⟩ := mem_post'.mp hx
    exact hp ▸ SimModel.parent_mem_states hr
  obtain ⟨s, hs, hsf⟩ := foldl_minStep_flag hfin (post B f Ss) ([], false) hst (fun h => by cases h) h
  exact accepting_iff.mpr ⟨s, mem_normS.mpr hs, hsf⟩

theorem macroPost_noflag {R : Rel} {B : TA} {f : Nat} {Ss : List (List Nat)} (h : (macroPost R B f Ss).2 = false) :
    ∀ s, s ∈ (macroPost R B f Ss).1 → s ∉ B.final :=
  fun s hs => foldl_minStep_noflag (post B f Ss) ([], false) (fun _ _ h => by simp at h) h s (mem_normS.mp hs)

theorem macroPost_cover {R : Rel} {B : TA} (htr : ∀ a b c, (a, b) ∈ R → (b, c) ∈ R → (a, c) ∈ R) {f : Nat}
    {Ss : List (List Nat)} : Below R (post B f Ss) (macroPost R B f Ss).1 := by
  intro y hy
  obtain ⟨x, hx, hyx⟩ := foldl_minStep_cover (B := B) htr (post B f Ss) ([], false) (Or.inr hy)
  exact ⟨x, mem_normS.mpr hx, hyx⟩

/-! ### processing the choices of one task -/

/-- the pair the code builds from a choice -/
def mkItem (R : Rel) (B : TA) (ρ : Rule) (is : List Item) : Item :=
  ⟨ρ.parent, (macroPost R B ρ.sym (is.map (·.S))).1, Tree.node ρ.sym (is.map (·.t))⟩

theorem stepChoice_ok {R : Rel} {A B : TA} {ρ : Rule} {tmp tmp' : List Item} {is : List Item}
    (h : stepChoice R A B ρ tmp is = .ok tmp') :
    ((skipSim R ρ.parent (mkItem R B ρ is).S = true ∧ tmp' = tmp) ∨ tmp' = addTmp R tmp (mkItem R B ρ is)) ∧
      (ρ.parent ∈ A.final → (macroPost R B ρ.sym (is.map (·.S))).2 = true) ∧ (mkItem R B ρ is).S ≠ [] := by
  unfold stepChoice at h
  simp only at h
  split at h
  · cases h
  · next hne =>
    split at h
    · cases h
    · next hacc =>
      have hf : ρ.parent ∈ A.final → (macroPost R B ρ.sym (is.map (·.S))).2 = true := by
        intro hf
        simp only [Bool.and_eq_true, Bool.not_eq_true', List.contains_iff_mem, not_and] at hacc
        cases hb : (macroPost R B ρ.sym (is.map (·.S))).2 with
        | true => rfl
        | false => exact absurd hf (hacc hb)
      have hne' : (mkItem R B ρ is).S ≠ [] := by
        intro he
        apply hne
        show (mkItem R B ρ is).S.isEmpty = true
        rw [he]; rfl
      split at h
      · next hskip =>
        simp only [Except.ok.injEq] at h
        exact ⟨Or.inl ⟨hskip, h.symm⟩, hf, hne'⟩
      · simp only [Except.ok.injEq] at h
        exact ⟨Or.inr h.symm, hf, hne'⟩

theorem stepChoice_error {R : Rel} {A B : TA} {ρ : Rule} {tmp : List Item} {is : List Item} {e : Nat × Tree}
    (h : stepChoice R A B ρ tmp is = .error e) :
    e = (ρ.parent, (mkItem R B ρ is).t) ∧
      ((mkItem R B ρ is).S = [] ∨ ((macroPost R B ρ.sym (is.map (·.S))).2 = false ∧ ρ.parent ∈ A.final)) := by
  unfold stepChoice at h
  simp only at h
  split at h
  · next he =>
    simp only [Except.error.injEq] at h
    refine ⟨h.symm, Or.inl ?_⟩
    exact List.isEmpty_iff.mp he
  · split at h
    · next hacc =>
      simp only [Except.error.injEq] at h
      simp only [Bool.and_eq_true, Bool.not_eq_true', List.contains_iff_mem] at hacc
      exact ⟨h.symm, Or.inr hacc⟩
    · split at h <;> cases h

theorem skipSim_imp {R : Rel} {q : Nat} {S : List Nat} (h : skipSim R q S = true) : ∃ s, s ∈ S ∧ LeqP R q s := by
  simp only [skipSim, List.any_eq_true] at h
  obtain ⟨s, hs, hq⟩ := h
  exact ⟨s, hs, LeqP.of_le hq⟩

/-- generic invariant of `stepChoices` -/
theorem stepChoices_ok {R : Rel} (htr : ∀ a b c, (a, b) ∈ R → (b, c) ∈ R → (a, c) ∈ R) {A B : TA} {ρ : Rule} :
    ∀ {iss : List (List Item)} {tmp tmp' : List Item}, stepChoices R A B ρ iss tmp = .ok tmp' →
      (∀ q S, SubR R tmp q S → SubR R tmp' q S) ∧
      (∀ is, is ∈ iss → CovR R tmp' ρ.parent (mkItem R B ρ is).S) ∧
      (∀ i, i ∈ tmp' → i ∈ tmp ∨ ∃ is, is ∈ iss ∧ i = mkItem R B ρ is ∧
        (ρ.parent ∈ A.final → (macroPost R B ρ.sym (is.map (·.S))).2 = true) ∧ (mkItem R B ρ is).S ≠ [])
  | [], tmp, tmp', h => by
    simp only [stepChoices, Except.ok.injEq] at h
    subst h
    exact ⟨fun _ _ h => h, fun _ h => by simp at h, fun i h => Or.inl h⟩
  | is :: iss, tmp, tmp', h => by
    unfold stepChoices at h
    split at h
    · cases h
    · next tmp₁ h₁ =>
      obtain ⟨he, hacc, hne⟩ := stepChoice_ok h₁
      obtain ⟨ih1, ih2, ih3⟩ := stepChoices_ok htr h
      refine ⟨?_, ?_, ?_⟩
      · intro q S hs
        apply ih1
        rcases he with ⟨_, he⟩ | he
        · exact he ▸ hs
        · exact he ▸ addTmp_mono htr hs
      · intro is' his'
        rcases List.mem_cons.mp his' with rfl | his'
        · rcases he with ⟨hskip, _⟩ | he
          · exact Or.inl (skipSim_imp hskip)
          · exact Or.inr (ih1 _ _ (he ▸ addTmp_self R tmp _))
        · exact ih2 is' his'
      · intro i hi
        rcases ih3 i hi with hi | ⟨is', his', hi⟩
        · rcases he with ⟨_, he⟩ | he
          · exact Or.inl (he ▸ hi)
          · rw [he] at hi
            rcases mem_addTmp hi with hi | hi
            · exact Or.inl hi
            · exact Or.inr ⟨is, List.mem_cons_self, hi, hacc, hne⟩
        · exact Or.inr ⟨is', List.mem_cons_of_mem _ his', hi⟩

theorem stepChoices_error {R : Rel} {A B : TA} {ρ : Rule} {e : Nat × Tree} :
    ∀ {iss : List (List Item)} {tmp : List Item}, stepChoices R A B ρ iss tmp = .error e →
      ∃ is, is ∈ iss ∧ e = (ρ.parent, (mkItem R B ρ is).t) ∧
        ((mkItem R B ρ is).S = [] ∨ ((macroPost R B ρ.sym (is.map (·.S))).2 = false ∧ ρ.parent ∈ A.final))
  | [], tmp, h => by simp [stepChoices] at h
  | is :: iss, tmp, h => by
    unfold stepChoices at h
    split at h
    · next e' h₁ =>
      simp only [Except.error.injEq] at h
      subst h
      exact ⟨is, List.mem_cons_self, stepChoice_error h₁⟩
    · obtain ⟨is', his', h'⟩ := stepChoices_error h
      exact ⟨is', List.mem_cons_of_mem _ his', h'⟩

/-! ### the closure invariant -/

/-- no bad pair, and the first components are parents of rules of `A` -/
def GoodR (A B : TA) (P : List Item) : Prop :=
  ∀ i, i ∈ P → i.q ∈ A.states ∧ (i.q ∈ A.final → accepting B i.S = true)

/-- the post-image of every choice of finished pairs that does not wait for a task in `T` is skipped or subsumed -/
def Pending (R : Rel) (A B : TA) (it : Item) (T : List (Rule × Nat)) (st : St) : Prop :=
  ∀ ρ, ρ ∈ A.rules → ∀ is, Choice (Done st) ρ.kids is → (∀ j, is[j]? = some it → (ρ, j) ∉ T) →
    CovR R st.processed ρ.parent (post B ρ.sym (is.map (·.S)))

/-- the post-image of every choice of finished pairs is skipped or subsumed -/
def Closed (R : Rel) (A B : TA) (st : St) : Prop :=
  ∀ ρ, ρ ∈ A.rules → ∀ is, Choice (Done st) ρ.kids is →
    CovR R st.processed ρ.parent (post B ρ.sym (is.map (·.S)))

theorem procTask_ok {R : Rel} (htr : ∀ a b c, (a, b) ∈ R → (b, c) ∈ R → (a, c) ∈ R) {A B : TA} {it : Item}
    {ρ₀ : Rule} {j₀ : Nat} {st st' : St} (h : procTask R A B it ρ₀ j₀ st = .ok st') :
    (∀ q S, SubR R st.processed q S → SubR R st'.processed q S) ∧
    (∀ i, Done st' i → Done st i) ∧
    (∀ is, Choice (· ∈ st.processed) ρ₀.kids is → is[j₀]? = some it →
      CovR R st'.processed ρ₀.parent (post B ρ₀.sym (is.map (·.S)))) ∧
    (∀ i, i ∈ st'.processed → i ∈ st.processed ∨ ∃ is, is ∈ choicesAt st.processed it ρ₀.kids j₀ ∧
        i = mkItem R B ρ₀ is ∧ (ρ₀.parent ∈ A.final → (macroPost R B ρ₀.sym (is.map (·.S))).2 = true) ∧
        (mkItem R B ρ₀ is).S ≠ []) ∧
    (∀ i, i ∈ st'.next → i ∈ st.next ∨ ∃ is, is ∈ choicesAt st.processed it ρ₀.kids j₀ ∧ i = mkItem R B ρ₀ is) := by
  unfold procTask at h
  split at h
  · cases h
  · next tmp htmp =>
    simp only [Except.ok.injEq] at h
    subst h
    obtain ⟨_, h2, h3⟩ := stepChoices_ok htr htmp
    refine ⟨fun q S hs => foldl_addItem_mono htr tmp st hs, fun i hi => foldl_addItem_done tmp st hi, ?_, ?_, ?_⟩
    · intro is his hj
      have hcov := h2 is (mem_choicesAt his hj)
      have hsub : ∀ x, x ∈ (mkItem R B ρ₀ is).S → x ∈ post B ρ₀.sym (is.map (·.S)) := fun x hx => mem_macroPost_sub hx
      rcases hcov with ⟨s, hs, hqs⟩ | ⟨i, hi, hq, hbel⟩
      · exact Or.inl ⟨s, hsub s hs, hqs⟩
      · obtain ⟨i', hi', hq', hbel'⟩ := foldl_addItem_self htr tmp st i hi
        refine Or.inr ⟨i', hi', hq.trans htr hq', ?_⟩
        exact (hbel'.trans htr hbel).trans htr (Below.of_sub hsub)
    · intro i hi
      rcases foldl_addItem_mem tmp st hi with hi | hi
      · exact Or.inl hi
      · rcases h3 i hi with hi | hi
        · simp at hi
        · exact Or.inr hi
    · intro i hi
      rcases foldl_addItem_mem_next tmp st hi with hi | hi
      · exact Or.inl hi
      · rcases h3 i hi with hi | ⟨is, his, hi, _⟩
        · simp at hi
        · exact Or.inr ⟨is, his, hi⟩

theorem procTask_pending {R : Rel} (htr : ∀ a b c, (a, b) ∈ R → (b, c) ∈ R → (a, c) ∈ R) {A B : TA} {it : Item}
    {ρ₀ : Rule} {j₀ : Nat} {T : List (Rule × Nat)} {st st' : St}
    (h : procTask R A B it ρ₀ j₀ st = .ok st') (hP : Pending R A B it ((ρ₀, j₀) :: T) st) :
    Pending R A B it T st' := by
  obtain ⟨h1, h2, h3, _⟩ := procTask_ok htr h
  intro ρ hρ is his hT
  have his' : Choice (Done st) ρ.kids is := his.imp h2
  by_cases hc : ∃ j, is[j]? = some it ∧ (ρ, j) = (ρ₀, j₀)
  · obtain ⟨j, hj, he⟩ := hc
    simp only [Prod.mk.injEq] at he
    obtain ⟨rfl, rfl⟩ := he
    exact h3 is (his'.imp (fun _ h => h.1)) hj
  · apply CovR.imp _ h1
    apply hP ρ hρ is his'
    intro j hj hm
    rcases List.mem_cons.mp hm with hm | hm
    · exact hc ⟨j, hj, hm⟩
    · exact hT j hj hm

theorem procTasks_pending {R : Rel} (htr : ∀ a b c, (a, b) ∈ R → (b, c) ∈ R → (a, c) ∈ R) {A B : TA} {it : Item} :
    ∀ {T : List (Rule × Nat)} {st st' : St},
    procTasks R A B it T st = .ok st' → Pending R A B it T st → Closed R A B st'
  | [], st, st', h, hP => by
    simp only [procTasks, Except.ok.injEq] at h
    subst h
    intro ρ hρ is his
    exact hP ρ hρ is his (fun _ _ hm => by simp at hm)
  | (ρ₀, j₀) :: T, st, st', h, hP => by
    unfold procTasks at h
    split at h
    · cases h
    · next st₁ h₁ => exact procTasks_pending htr h (procTask_pending htr h₁ hP)

/-- picking `it` from the work-list turns `Closed` into `Pending` for the tasks of `it` -/
theorem pending_of_closed {R : Rel} {A B : TA} {P : List Item} {it : Item} {rest : List Item}
    (h : Closed R A B ⟨P, it :: rest⟩) : Pending R A B it (tasks A it.q) ⟨P, rest⟩ := by
  intro ρ hρ is his hT
  apply h ρ hρ is
  have hn : ∀ j : Nat, is[j]? ≠ some it := by
    intro j hj
    exact hT j hj (mem_tasks.mpr ⟨hρ, (his.get hj).1⟩)
  have : Choice (fun i => Done ⟨P, it :: rest⟩ i ∨ i = it) ρ.kids is := by
    refine his.imp (fun i hi => ?_)
    by_cases he : i = it
    · exact Or.inr he
    · exact Or.inl ⟨hi.1, fun hm => by
        rcases List.mem_cons.mp hm with hm | hm
        · exact he hm
        · exact hi.2 hm⟩
  exact this.of_not_it hn

/-! ### `GoodR` -/

theorem procTasks_good {R : Rel} (htr : ∀ a b c, (a, b) ∈ R → (b, c) ∈ R → (a, c) ∈ R) {A B : TA}
    (hfin : FinB B R) {it : Item} :
    ∀ {T : List (Rule × Nat)} {st st' : St}, (∀ p, p ∈ T → p.1 ∈ A.rules) →
    procTasks R A B it T st = .ok st' → GoodR A B st.processed → GoodR A B st'.processed
  | [], st, st', _, h, hG => by
    simp only [procTasks, Except.ok.injEq] at h
    subst h; exact hG
  | (ρ₀, j₀) :: T, st, st', hT, h, hG => by
    unfold procTasks at h
    split at h
    · cases h
    · next st₁ h₁ =>
      apply procTasks_good htr hfin (fun p hp => hT p (List.mem_cons_of_mem _ hp)) h
      obtain ⟨_, _, _, h4, _⟩ := procTask_ok htr h₁
      intro i hi
      rcases h4 i hi with hi | ⟨is, _, rfl, hacc, _⟩
      · exact hG i hi
      · exact ⟨SimModel.parent_mem_states (hT _ List.mem_cons_self), fun hf => macroPost_flag hfin (hacc hf)⟩

/-! ### the loop -/

theorem loop_ok {R : Rel} (htr : ∀ a b c, (a, b) ∈ R → (b, c) ∈ R → (a, c) ∈ R) {A B : TA}
    (hfin : FinB B R) : ∀ {n : Nat} {st : St} {P : List Item},
    loop R A B n st = some (.ok P) → Closed R A B st → GoodR A B st.processed →
      Closed R A B ⟨P, []⟩ ∧ GoodR A B P
  | 0, _, _, h, _, _ => by simp [loop] at h
  | n+1, st, P, h, hC, hG => by
    unfold loop at h
    split at h
    · next hn =>
      simp only [Option.some.injEq, Except.ok.injEq] at h
      subst h
      refine ⟨?_, hG⟩
      have : st = ⟨st.processed, []⟩ := by cases st; simp_all
      rw [← this]; exact hC
    · next it rest hn =>
      split at h
      · simp at h
      · next st' h' =>
        have hC' : Closed R A B ⟨st.processed, it :: rest⟩ := by
          have : st = ⟨st.processed, it :: rest⟩ := by cases st; simp_all
          rw [← this]; exact hC
        exact loop_ok htr hfin h (procTasks_pending htr h' (pending_of_closed hC'))
          (procTasks_good htr hfin (fun p hp => (mem_tasks.mp (by exact hp)).1) h' hG)

/-! ### the leaf phase -/

theorem leafPhase_ok {R : Rel} (htr : ∀ a b c, (a, b) ∈ R → (b, c) ∈ R → (a, c) ∈ R) {A B : TA}
    (hfin : FinB B R) :
    ∀ {ρs : List Rule} {st st' : St}, leafPhase R A B ρs st = .ok st' → (∀ ρ, ρ ∈ ρs → ρ ∈ A.rules) →
    (∀ i, i ∈ st.processed → i ∈ st.next) → GoodR A B st.processed →
      (∀ i, i ∈ st'.processed → i ∈ st'.next) ∧ GoodR A B st'.processed ∧
      (∀ q S, SubR R st.processed q S → SubR R st'.processed q S) ∧
      (∀ ρ, ρ ∈ ρs → ρ.kids = [] → CovR R st'.processed ρ.parent (post B ρ.sym []))
  | [], st, st', h, _, hN, hG => by
    simp only [leafPhase, Except.ok.injEq] at h
    subst h
    exact ⟨hN, hG, fun _ _ h => h, fun _ h => by simp at h⟩
  | ρ :: ρs, st, st', h, hρs, hN, hG => by
    have hρs' : ∀ ρ', ρ' ∈ ρs → ρ' ∈ A.rules := fun ρ' h => hρs ρ' (List.mem_cons_of_mem _ h)
    unfold leafPhase at h
    split at h
    · next hk =>
      simp only at h
      split at h
      · cases h
      · next hacc =>
        split at h
        · next hskip =>
          obtain ⟨r1, r2, r3, r4⟩ := leafPhase_ok htr hfin h hρs' hN hG
          refine ⟨r1, r2, r3, ?_⟩
          intro ρ' hρ' hk'
          rcases List.mem_cons.mp hρ' with rfl | hρ'
          · obtain ⟨s, hs, hqs⟩ := skipSim_imp hskip
            exact Or.inl ⟨s, mem_macroPost_sub hs, hqs⟩
          · exact r4 ρ' hρ' hk'
        · have hN' : ∀ i, i ∈ (addItem R st ⟨ρ.parent, (macroPost R B ρ.sym []).1, .node ρ.sym []⟩).processed →
              i ∈ (addItem R st ⟨ρ.parent, (macroPost R B ρ.sym []).1, .node ρ.sym []⟩).next := by
            intro i hi
            unfold addItem at hi ⊢
            split
            · next hs => rw [if_pos hs] at hi; exact hN i hi
            · next hs =>
              rw [if_neg hs] at hi
              rcases List.mem_append.mp hi with hi | hi
              · obtain ⟨hP, hr⟩ := mem_refine.mp hi
                exact mem_insNext.mpr (Or.inr (mem_refine.mpr ⟨hN i hP, hr⟩))
              · exact mem_insNext.mpr (Or.inl (List.mem_singleton.mp hi))
          have hG' : GoodR A B (addItem R st ⟨ρ.parent, (macroPost R B ρ.sym []).1, .node ρ.sym []⟩).processed := by
            intro i hi
            rcases mem_addItem hi with hi | rfl
            · exact hG i hi
            · refine ⟨SimModel.parent_mem_states (hρs ρ List.mem_cons_self), fun hf => ?_⟩
              simp only [Bool.and_eq_true, Bool.not_eq_true', List.contains_iff_mem, not_and] at hacc
              simp only at hf ⊢
              cases hb : (macroPost R B ρ.sym []).2 with
              | true => exact macroPost_flag hfin hb
              | false => exact absurd hf (hacc hb)
          obtain ⟨r1, r2, r3, r4⟩ := leafPhase_ok htr hfin h hρs' hN' hG'
          refine ⟨r1, r2, fun q S hs => r3 q S (addItem_mono htr hs), ?_⟩
          intro ρ' hρ' hk'
          rcases List.mem_cons.mp hρ' with rfl | hρ'
          · have := r3 _ _ (addItem_self R st ⟨ρ'.parent, (macroPost R B ρ'.sym []).1, .node ρ'.sym []⟩)
            exact Or.inr (this.mono (fun x hx => mem_macroPost_sub hx))
          · exact r4 ρ' hρ' hk'
    · next hk =>
      obtain ⟨r1, r2, r3, r4⟩ := leafPhase_ok htr hfin h hρs' hN hG
      refine ⟨r1, r2, r3, ?_⟩
      intro ρ' hρ' hk'
      rcases List.mem_cons.mp hρ' with rfl | hρ'
      · rw [hk'] at hk; exact absurd rfl hk
      · exact r4 ρ' hρ' hk'

theorem leafPhase_closed {R : Rel} (htr : ∀ a b c, (a, b) ∈ R → (b, c) ∈ R → (a, c) ∈ R) {A B : TA}
    (hfin : FinB B R) {st : St}
    (h : leafPhase R A B A.rules ⟨[], []⟩ = .ok st) : Closed R A B st ∧ GoodR A B st.processed := by
  obtain ⟨r1, r2, _, r4⟩ := leafPhase_ok htr hfin h (fun _ h => h) (fun _ h => by simp at h) (fun _ h => by simp at h)
  refine ⟨?_, r2⟩
  intro ρ hρ is his
  cases hk : ρ.kids with
  | nil => rw [hk] at his; cases his; exact r4 ρ hρ hk
  | cons k ks =>
    rw [hk] at his
    cases his with
    | cons hd _ => exact absurd (r1 _ hd.2.1) hd.2.2

/-! ### the result of a finished `true` run passes the certificate check -/

theorem upCertSimB_of_closed {R : Rel} {A B : TA} {P : List Item} (hC : Closed R A B ⟨P, []⟩) (hG : GoodR A B P) :
    upCertSimB A B R (pairs P) = true := by
  rw [upCertSimB_iff]
  refine ⟨?_, ?_, ?_⟩
  · intro ρ hρ Ss hSs
    obtain ⟨is, his, rfl⟩ := choice_of_pairs hSs
    rcases hC ρ hρ is (his.imp (fun i hi => ⟨hi, by simp⟩)) with ⟨s, hs, hq⟩ | ⟨i, hi, hq, hbel⟩
    · exact Or.inl ⟨s, hs, hq⟩
    · refine Or.inr ⟨i.q, i.S, ?_, hq, hbel⟩
      simp only [pairs, List.mem_map, Prod.mk.injEq]
      exact ⟨i, hi, rfl, rfl⟩
  · intro q S hqS
    simp only [pairs, List.mem_map, Prod.mk.injEq] at hqS
    obtain ⟨i, hi, rfl, rfl⟩ := hqS
    exact (hG i hi).1
  · intro q S hqS hf
    simp only [pairs, List.mem_map, Prod.mk.injEq] at hqS
    obtain ⟨i, hi, rfl, rfl⟩ := hqS
    exact accepting_iff.mp ((hG i hi).2 hf)

/-- the final antichain of a `return true` passes the certificate check, for every transitive relation that respects
the final states of `B` -/
theorem run_ok_cert {R : Rel} (htr : ∀ a b c, (a, b) ∈ R → (b, c) ∈ R → (a, c) ∈ R) {A B : TA}
    (hfin : FinB B R) {fuel : Nat} {P : List Item}
    (h : run R A B fuel = some (.ok P)) : upCertSimB A B R (pairs P) = true := by
  unfold run at h
  split at h
  · simp at h
  · split at h
    · simp at h
    · next st hst =>
      obtain ⟨hC, hG⟩ := leafPhase_closed htr hfin hst
      obtain ⟨hC', hG'⟩ := loop_ok htr hfin h hC hG
      exact upCertSimB_of_closed hC' hG'

/-- an upward simulation of the disjoint union respects the final states of `B` -/
theorem fin_of_sim {A B : TA} {R : Rel} (hsim : IsUpSim (unionDisjoint A B) (RelOf R))
    (hdis : ∀ q, q ∈ A.states → q ∉ B.states) : FinB B R := by
  intro s s' h hs hs'
  have hU : s' ∈ (unionDisjoint A B).final := (hsim s s' h).1 (List.mem_append_right _ hs)
  rcases List.mem_append.mp hU with hA | hB
  · exact absurd hs' (hdis s' (SimModel.final_mem_states hA))
  · exact hB

/-- a finished `true` run with a validated transitive relation is never lost by the final check -/
theorem inclUpSim_of_run_ok {R : Rel} (htr : ∀ a b c, (a, b) ∈ R → (b, c) ∈ R → (a, c) ∈ R) {A B : TA}
    (hsim : isUpSimB (unionDisjoint A B) R = true) (hdis : InclDown.disjointB A B = true) {fuel : Nat}
    {P : List Item} (h : run R A B fuel = some (.ok P)) : inclUpSim A B R fuel = some (true, .closed (pairs P)) := by
  unfold inclUpSim
  rw [h]
  simp only
  have := run_ok_cert htr (fin_of_sim ((isUpSimB_iff _ R).mp hsim) (InclDown.disjointB_iff.mp hdis)) h
  unfold pairs at this
  rw [hsim, hdis, this]
  rfl

/-! ### the trees of the pairs; the `return false` exits -/

/-- the reflexive closure of an upward simulation is an upward simulation -/
theorem upSim_leqP {U : TA} {R : Rel} (hR : IsUpSim U (RelOf R)) : IsUpSim U (LeqP R) := by
  intro q r h
  rcases h with rfl | h
  · exact ⟨id, fun ρ hρ i hi => ⟨ρ, hρ, rfl, (SimModel.setAt_self _ _ _ hi).symm, LeqP.refl R _⟩⟩
  · obtain ⟨h1, h2⟩ := hR q r h
    refine ⟨h1, fun ρ hρ i hi => ?_⟩
    obtain ⟨σ, hσ, e₁, e₂, e₃⟩ := h2 ρ hρ i hi
    exact ⟨σ, hσ, e₁, e₂, Or.inr e₃⟩

/-- the tree of a pair reaches its `A`-state; its macro-state consists of states that `B` reaches on the tree, and every
state that `B` reaches on the tree is below one of them -/
def TreeOKR (R : Rel) (A B : TA) (i : Item) : Prop :=
  i.q ∈ reach A i.t ∧ (∀ x, x ∈ i.S → x ∈ reach B i.t) ∧ Below R (reach B i.t) i.S

theorem choice_matchR {R : Rel} {A B : TA} {ks : List Nat} {is : List Item} (h : Choice (TreeOKR R A B) ks is) :
    matchKids ks (reachL A (is.map (·.t))) = true ∧
    All2 (fun s s' => ∀ q, q ∈ s → q ∈ s') (is.map (·.S)) (reachL B (is.map (·.t))) ∧
    All2 (fun P T => ∀ s, s ∈ P → ∃ s', s' ∈ T ∧ LeqP R s s' ∧ s' ∈ B.states)
      (reachL B (is.map (·.t))) (is.map (·.S)) := by
  induction h with
  | nil => exact ⟨rfl, All2.nil, All2.nil⟩
  | @cons k i ks is hd _ ih =>
    simp only [List.map_cons, reachL, matchKids, Bool.and_eq_true, List.contains_iff_mem]
    refine ⟨⟨hd.1 ▸ hd.2.1, ih.1⟩, All2.cons hd.2.2.1 ih.2.1, All2.cons (fun s hs => ?_) ih.2.2⟩
    obtain ⟨s', hs', hle⟩ := hd.2.2.2 s hs
    exact ⟨s', hs', hle, reach_mem_states B i.t s' (hd.2.2.1 s' hs')⟩

theorem mkItem_treeOK {R : Rel} (htr : ∀ a b c, (a, b) ∈ R → (b, c) ∈ R → (a, c) ∈ R) {A B : TA}
    (hsim : IsUpSim (unionDisjoint A B) (RelOf R)) (hdis : ∀ q, q ∈ A.states → q ∉ B.states) {ρ : Rule}
    {is : List Item} (hρ : ρ ∈ A.rules) (h : Choice (TreeOKR R A B) ρ.kids is) : TreeOKR R A B (mkItem R B ρ is) := by
  obtain ⟨h1, h2, h3⟩ := choice_matchR h
  refine ⟨?_, ?_, ?_⟩
  · show ρ.parent ∈ reach A (Tree.node ρ.sym (is.map (·.t)))
    rw [reach, mem_post']
    exact ⟨ρ, hρ, rfl, h1, rfl⟩
  · intro x hx
    show x ∈ reach B (Tree.node ρ.sym (is.map (·.t)))
    rw [reach]
    exact post_mono B ρ.sym h2 x (mem_macroPost_sub hx)
  · show Below R (reach B (Tree.node ρ.sym (is.map (·.t)))) (macroPost R B ρ.sym (is.map (·.S))).1
    rw [reach]
    intro y hy
    obtain ⟨y', hy', hyy'⟩ := post_sim (comp_right A B hdis) (upSim_leqP hsim) (LeqP.refl R)
      (fun _ _ _ h₁ h₂ => h₁.trans htr h₂) ρ.sym h3 y hy
    obtain ⟨x, hx, hy'x⟩ := macroPost_cover (B := B) htr y' hy'
    exact ⟨x, hx, hyy'.trans htr hy'x⟩

theorem errOK_of_mkItem {R : Rel} {A B : TA} (hfin : FinB B R) {ρ : Rule} {is : List Item}
    (h : TreeOKR R A B (mkItem R B ρ is))
    (hc : (mkItem R B ρ is).S = [] ∨ ((macroPost R B ρ.sym (is.map (·.S))).2 = false ∧ ρ.parent ∈ A.final)) :
    ErrOK A B (ρ.parent, (mkItem R B ρ is).t) := by
  refine ⟨h.1, ?_⟩
  rcases hc with hc | ⟨hc, hf⟩
  · right
    intro x hx
    obtain ⟨y, hy, _⟩ := h.2.2 x hx
    rw [hc] at hy
    simp at hy
  · left
    refine ⟨hf, ?_⟩
    cases hb : accepting B (reach B (ρ.parent, (mkItem R B ρ is).t).2) with
    | false => rfl
    | true =>
      exfalso
      obtain ⟨y, hy, hyf⟩ := accepting_iff.mp hb
      obtain ⟨x, hx, hyx⟩ := h.2.2 y hy
      have hxf : x ∈ B.final := by
        rcases hyx with rfl | hyx
        · exact hyf
        · exact hfin y x hyx hyf (reach_mem_states B _ x (h.2.1 x hx))
      exact macroPost_noflag hc x hx hxf

/-- all pairs of the state have good trees -/
def AllOKR (R : Rel) (A B : TA) (st : St) : Prop :=
  (∀ i, i ∈ st.processed → TreeOKR R A B i) ∧ (∀ i, i ∈ st.next → TreeOKR R A B i)

/-- the hypotheses on the relation used for the `return false` exits: a transitive upward simulation of the disjoint
union of operands with disjoint states -/
structure SimHyp (R : Rel) (A B : TA) : Prop where
  trans : ∀ a b c, (a, b) ∈ R → (b, c) ∈ R → (a, c) ∈ R
  sim : IsUpSim (unionDisjoint A B) (RelOf R)
  dis : ∀ q, q ∈ A.states → q ∉ B.states

theorem SimHyp.fin {R : Rel} {A B : TA} (h : SimHyp R A B) : FinB B R := fin_of_sim h.sim h.dis

theorem procTask_tree {R : Rel} {A B : TA} (hR : SimHyp R A B) {it : Item} {ρ₀ : Rule} {j₀ : Nat} {st : St}
    (hit : TreeOKR R A B it) (hT : (ρ₀, j₀) ∈ tasks A it.q) (hst : AllOKR R A B st) :
    ∀ is, is ∈ choicesAt st.processed it ρ₀.kids j₀ → TreeOKR R A B (mkItem R B ρ₀ is) := by
  intro is his
  obtain ⟨hρ, hj⟩ := mem_tasks.mp hT
  apply mkItem_treeOK hR.trans hR.sim hR.dis hρ
  refine (choice_of_mem_choicesAt his hj).imp (fun i hi => ?_)
  rcases hi with hi | hi
  · exact hst.1 i hi
  · exact hi ▸ hit

theorem procTask_error {R : Rel} {A B : TA} {it : Item} {ρ₀ : Rule} {j₀ : Nat} {st : St} {e : Nat × Tree}
    (h : procTask R A B it ρ₀ j₀ st = .error e) :
    ∃ is, is ∈ choicesAt st.processed it ρ₀.kids j₀ ∧ e = (ρ₀.parent, (mkItem R B ρ₀ is).t) ∧
      ((mkItem R B ρ₀ is).S = [] ∨ ((macroPost R B ρ₀.sym (is.map (·.S))).2 = false ∧ ρ₀.parent ∈ A.final)) := by
  unfold procTask at h
  split at h
  · next e' he =>
    simp only [Except.error.injEq] at h
    subst h
    exact stepChoices_error he
  · cases h

theorem procTasks_tree {R : Rel} {A B : TA} (hR : SimHyp R A B) {it : Item} (hit : TreeOKR R A B it) :
    ∀ {T : List (Rule × Nat)} {st : St}, (∀ p, p ∈ T → p ∈ tasks A it.q) → AllOKR R A B st →
      (∀ st', procTasks R A B it T st = .ok st' → AllOKR R A B st') ∧
      (∀ e, procTasks R A B it T st = .error e → ErrOK A B e)
  | [], st, _, hst => by
    constructor
    · intro st' h
      simp only [procTasks, Except.ok.injEq] at h
      subst h; exact hst
    · intro e h
      simp [procTasks] at h
  | (ρ₀, j₀) :: T, st, hT, hst => by
    have hnew := procTask_tree hR hit (hT _ List.mem_cons_self) hst
    unfold procTasks
    split
    · next e' he =>
      constructor
      · intro st' h; cases h
      · intro e h
        simp only [Except.error.injEq] at h
        subst h
        obtain ⟨is, his, rfl, hc⟩ := procTask_error he
        exact errOK_of_mkItem hR.fin (hnew is his) hc
    · next st₁ h₁ =>
      obtain ⟨_, _, _, h4, h5⟩ := procTask_ok hR.trans h₁
      have hst₁ : AllOKR R A B st₁ := by
        constructor
        · intro i hi
          rcases h4 i hi with hi | ⟨is, his, rfl, _⟩
          · exact hst.1 i hi
          · exact hnew is his
        · intro i hi
          rcases h5 i hi with hi | ⟨is, his, rfl⟩
          · exact hst.2 i hi
          · exact hnew is his
      exact procTasks_tree hR hit (fun p hp => hT p (List.mem_cons_of_mem _ hp)) hst₁

theorem loop_tree {R : Rel} {A B : TA} (hR : SimHyp R A B) : ∀ {n : Nat} {st : St}, AllOKR R A B st →
    (∀ P, loop R A B n st = some (.ok P) → ∀ i, i ∈ P → TreeOKR R A B i) ∧
    (∀ e, loop R A B n st = some (.error e) → ErrOK A B e)
  | 0, _, _ => by simp [loop]
  | n+1, st, hst => by
    unfold loop
    split
    · next hn =>
      constructor
      · intro P h
        simp only [Option.some.injEq, Except.ok.injEq] at h
        subst h; exact hst.1
      · intro e h; simp at h
    · next it rest hn =>
      have hit : TreeOKR R A B it := hst.2 it (hn ▸ List.mem_cons_self)
      have hst₁ : AllOKR R A B ⟨st.processed, rest⟩ :=
        ⟨hst.1, fun i hi => hst.2 i (hn ▸ List.mem_cons_of_mem _ hi)⟩
      obtain ⟨h1, h2⟩ := procTasks_tree hR hit (T := tasks A it.q) (fun _ h => h) hst₁
      split
      · next e' he =>
        constructor
        · intro P h; simp at h
        · intro e h
          simp only [Option.some.injEq, Except.error.injEq] at h
          subst h; exact h2 _ he
      · next st' h' => exact loop_tree hR (h1 st' h')

theorem leaf_treeOK {R : Rel} {A B : TA} (hR : SimHyp R A B) {ρ : Rule} (hρ : ρ ∈ A.rules)
    (hk : ρ.kids.isEmpty = true) : TreeOKR R A B ⟨ρ.parent, (macroPost R B ρ.sym []).1, .node ρ.sym []⟩ := by
  have : Choice (TreeOKR R A B) ρ.kids [] := by
    rw [List.isEmpty_iff.mp hk]; exact All2.nil
  exact mkItem_treeOK hR.trans hR.sim hR.dis (is := []) hρ this

theorem leafPhase_tree {R : Rel} {A B : TA} (hR : SimHyp R A B) : ∀ {ρs : List Rule} {st : St},
    (∀ ρ, ρ ∈ ρs → ρ ∈ A.rules) → AllOKR R A B st →
    (∀ st', leafPhase R A B ρs st = .ok st' → AllOKR R A B st') ∧
    (∀ e, leafPhase R A B ρs st = .error e → ErrOK A B e)
  | [], st, _, hst => by
    constructor
    · intro st' h
      simp only [leafPhase, Except.ok.injEq] at h
      subst h; exact hst
    · intro e h; simp [leafPhase] at h
  | ρ :: ρs, st, hρs, hst => by
    have hρ : ρ ∈ A.rules := hρs ρ List.mem_cons_self
    have hρs' : ∀ ρ', ρ' ∈ ρs → ρ' ∈ A.rules := fun ρ' h => hρs ρ' (List.mem_cons_of_mem _ h)
    unfold leafPhase
    split
    · next hk =>
      have hT := leaf_treeOK (B := B) hR hρ hk
      simp only
      split
      · next hacc =>
        constructor
        · intro st' h; cases h
        · intro e h
          simp only [Except.error.injEq] at h
          subst h
          simp only [Bool.and_eq_true, Bool.not_eq_true', List.contains_iff_mem] at hacc
          exact errOK_of_mkItem hR.fin (is := []) hT (Or.inr hacc)
      · split
        · exact leafPhase_tree hR hρs' hst
        · apply leafPhase_tree hR hρs'
          constructor
          · intro i hi
            rcases mem_addItem hi with hi | rfl
            · exact hst.1 i hi
            · exact hT
          · intro i hi
            rcases mem_addItem_next hi with hi | rfl
            · exact hst.2 i hi
            · exact hT
    · exact leafPhase_tree hR hρs' hst

/-- a `return false` of the exploration pruned by a transitive upward simulation of the disjoint union is justified -/
theorem run_error_ok {R : Rel} {A B : TA} (hR : SimHyp R A B) {fuel : Nat} {e : Nat × Tree}
    (h : run R A B fuel = some (.error e)) : ErrOK A B e := by
  unfold run at h
  split at h
  · next ρ hρ =>
    simp only [Option.some.injEq, Except.error.injEq] at h
    subst h; exact sizeExit_ok hρ
  · have hl := leafPhase_tree hR (ρs := A.rules) (st := ⟨[], []⟩) (fun _ h => h)
      ⟨fun _ h => by simp at h, fun _ h => by simp at h⟩
    split at h
    · next e' he =>
      simp only [Option.some.injEq, Except.error.injEq] at h
      subst h; exact hl.2 _ he
    · next st hst => exact (loop_tree hR (hl.1 st hst)).2 e h

/-- the pairs of a finished `true` run carry trees that reach them -/
theorem run_ok_tree {R : Rel} {A B : TA} (hR : SimHyp R A B) {fuel : Nat} {P : List Item}
    (h : run R A B fuel = some (.ok P)) : ∀ i, i ∈ P → TreeOKR R A B i := by
  unfold run at h
  split at h
  · simp at h
  · have hl := leafPhase_tree hR (ρs := A.rules) (st := ⟨[], []⟩) (fun _ h => h)
      ⟨fun _ h => by simp at h, fun _ h => by simp at h⟩
    split at h
    · simp at h
    · next st hst => exact (loop_tree hR (hl.1 st hst)).1 P h

/-! ### Boolean test of transitivity (for examples and callers with a concrete relation) -/

def transB (R : Rel) : Bool := R.all (fun p => R.all (fun p' => p.2 != p'.1 || R.contains (p.1, p'.2)))

theorem transB_sound {R : Rel} (h : transB R = true) : ∀ a b c, (a, b) ∈ R → (b, c) ∈ R → (a, c) ∈ R := by
  intro a b c hab hbc
  simp only [transB, List.all_eq_true, Bool.or_eq_true, bne_iff_ne, ne_eq, List.contains_iff_mem] at h
  rcases h (a, b) hab (b, c) hbc with h | h
  · exact absurd rfl h
  · exact h

/-! ### examples (non-vacuity) -/
namespace InvEx
open InclUpSimEx InclUpEx

#guard (match run exR exP exQ 20 with | some (.ok P) => pairs P == [(2, [12]), (3, [11])] | _ => false)
#guard (match run (upSimRef (unionDisjoint exG exH)) exG exH 20 with
  | some (.error (q, t)) => q == 2 && showTree t == "2(0,1)" | _ => false)
#guard (match run (upSimRef (unionDisjoint exDeep exA')) exDeep exA' 20 with
  | some (.error (q, t)) => q == 5 && showTree t == "2(0)" | _ => false)

example : transB exR = true ∧ transB (upSimRef (unionDisjoint exP exQ)) = true := by decide
example : FinB exQ exR := fin_of_sim (A := exP) ((isUpSimB_iff _ _).mp (by decide)) (InclDown.disjointB_iff.mp (by decide))
example : ∃ P, run exR exP exQ 20 = some (.ok P) ∧ upCertSimB exP exQ exR (pairs P) = true := by
  refine ⟨_, rfl, ?_⟩
  exact run_ok_cert (transB_sound (by decide))
    (fin_of_sim (A := exP) ((isUpSimB_iff _ _).mp (by decide)) (InclDown.disjointB_iff.mp (by decide))) (fuel := 20) rfl
example : inclUpSim exP exQ exR 20 = some (true, .closed [(2, [12]), (3, [11])]) :=
  inclUpSim_of_run_ok (R := exR) (A := exP) (B := exQ) (transB_sound (by decide)) (by decide) (by decide) (fuel := 20) rfl
example : SimHyp (upSimRef (unionDisjoint exG exH)) exG exH :=
  ⟨(greatest_upSim_preorder _).2, upSimRef_sim _, InclDown.disjointB_iff.mp (by decide)⟩
example : ∃ e, run (upSimRef (unionDisjoint exG exH)) exG exH 20 = some (.error e) ∧ ErrOK exG exH e := by
  refine ⟨_, rfl, ?_⟩
  exact run_error_ok ⟨(greatest_upSim_preorder _).2, upSimRef_sim _, InclDown.disjointB_iff.mp (by decide)⟩
    (fuel := 20) rfl
example : ∀ i, i ∈ [(⟨2, [12], .node 0 []⟩ : Item)] → TreeOKR exR exP exQ i := by
  intro i hi
  rw [List.mem_singleton.mp hi]
  exact leaf_treeOK (ρ := ⟨0, [], 2⟩)
    ⟨transB_sound (by decide), (isUpSimB_iff _ _).mp (by decide), InclDown.disjointB_iff.mp (by decide)⟩
    (by decide) rfl

end InvEx

end InclUpSim
end Vata
