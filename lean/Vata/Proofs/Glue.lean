import Vata.Proofs.GlueAsgn
import Vata.Proofs.GlueDict
import Vata.Proofs.GlueTransl
import Vata.Proofs.GlueConv
import Vata.Proofs.GluePacked
/-!
# Histories over dictionaries and maps (`Vata/Glue.lean`, section 7) – the invariant of every live object

`history_inv`: after ANY history of operations of the `glue` kind whose steps stay inside the contracts (`OpOk`:
`Insert` of a new key and a new value, `Union` of dictionaries without common keys / values, weak translators whose
functor returns fresh values, helpers whose translation maps produce pairwise different numbers and – for the product –
pairwise different names), every live `TwoWayDict` satisfies its representation invariant (`TwoWayDict.Inv`: the two maps
are maps and are inverse to each other – `translate_inverse`, `size_eq`, `getReverseMap_spec` apply) and every live
`StateToStateMap` is a map.  `step_query_unchanged`: the strict translators and all read-only members leave every live
object as it was.

The theorems hold for every entry-preserving normalisation `norm` (`NormOk`); `norm_ok`: the one the driver uses
(`StateDict.norm`, the iteration order of the `std::map`s) is entry preserving.

The theorems about the single classes are in `GlueAsgn.lean` (`SymbolicVarAsgn`), `GluePacked.lean` (its packed
representation), `GlueDict.lean` (`TwoWayDict`), `GlueTransl.lean` (translators, `util.cc`), `GlueConv.lean` (`Convert`).
-/
set_option linter.unusedSectionVars false
set_option linter.unusedSimpArgs false
namespace Vata.Glue

/-! ### the normalisation used for the read-back -/

theorem insByKey_perm {κ ν : Type} (lt : κ → κ → Bool) (e : κ × ν) : ∀ (l : List (κ × ν)), (insByKey lt e l).Perm (e :: l)
  | [] => List.Perm.refl _
  | f :: r => by
    simp only [insByKey]
    split
    · exact ((insByKey_perm lt e r).cons f).trans (List.Perm.swap e f r)
    · exact List.Perm.refl _

theorem sortByKey_perm {κ ν : Type} (lt : κ → κ → Bool) : ∀ (l : List (κ × ν)), (sortByKey lt l).Perm l
  | [] => List.Perm.refl _
  | e :: r => (insByKey_perm lt e _).trans ((sortByKey_perm lt r).cons e)

/-- the invariant does not depend on the order of the entries -/
theorem inv_of_perm {α β : Type} [DecidableEq α] [DecidableEq β] {d d' : TwoWayDict α β} (hf : d'.fwd.Perm d.fwd)
    (hb : d'.bwd.Perm d.bwd) (h : d.Inv) : d'.Inv :=
  ⟨(hf.map Prod.fst).nodup_iff.2 h.fwdMap, (hb.map Prod.fst).nodup_iff.2 h.bwdMap,
    fun a b => by rw [hf.mem_iff, hb.mem_iff]; exact h.inverse a b⟩

/-- a normalisation only reorders the entries -/
def NormOk (norm : StateDict → StateDict) : Prop := ∀ d : StateDict, (norm d).fwd.Perm d.fwd ∧ (norm d).bwd.Perm d.bwd

theorem norm_ok : NormOk StateDict.norm := fun _ => ⟨sortByKey_perm _ _, sortByKey_perm _ _⟩

theorem norm_id_ok : NormOk id := fun _ => ⟨List.Perm.refl _, List.Perm.refl _⟩

/-- translations are not affected by the normalisation -/
theorem norm_translate {norm : StateDict → StateDict} (hn : NormOk norm) {d : StateDict} (h : d.Inv) (n : Name) (v : Nat) :
    ((norm d).translateFwd n = some v ↔ d.translateFwd n = some v) ∧ ((norm d).translateBwd v = some n ↔ d.translateBwd v = some n) := by
  have h' := inv_of_perm (hn d).1 (hn d).2 h
  unfold TwoWayDict.translateFwd TwoWayDict.translateBwd
  rw [lookup_eq_some_iff_mem h'.fwdMap, lookup_eq_some_iff_mem h.fwdMap, lookup_eq_some_iff_mem h'.bwdMap,
    lookup_eq_some_iff_mem h.bwdMap, (hn d).1.mem_iff, (hn d).2.mem_iff]
  exact ⟨Iff.rfl, Iff.rfl⟩

/-! ### weak translators fed with a sequence of keys -/

/-- the functor returns values no name has yet: the counter is above every number of the dictionary; the size-reading
functor is above them too; a constant functor is admissible only if it is never called -/
def AllocOk : Alloc → Nat → StateDict → List Name → Prop
  | .counter, cnt, d, _ => ∀ e ∈ d.bwd, e.1 < cnt
  | .size off, _, d, _ => ∀ e ∈ d.bwd, e.1 < d.size + off
  | .const _, _, d, keys => ∀ k ∈ keys, d.translateFwd k ≠ none

theorem lookup_none_of_lt {d : StateDict} {v : Nat} (h : ∀ e ∈ d.bwd, e.1 < v) : d.bwd.lookup v = none := by
  rw [lookup_eq_none_iff_not_mem]
  intro hm
  obtain ⟨e, he, rfl⟩ := List.mem_map.1 hm
  exact Nat.lt_irrefl _ (h e he)

theorem weakDictSeq_inv (f : Alloc) : ∀ (keys : List Name) (d : StateDict) (cnt : Nat) (out : List Nat),
    d.Inv → AllocOk f cnt d keys → (weakDictSeq f keys d cnt out).1.Inv
  | [], d, cnt, out, h, _ => h
  | a :: r, d, cnt, out, h, ok => by
    simp only [weakDictSeq]
    cases hl' : d.translateFwd a with
    | some b =>
      have hl := hl'
      unfold TwoWayDict.translateFwd at hl
      rw [hl]
      apply weakDictSeq_inv f r d cnt _ h
      cases f with
      | counter => exact ok
      | size off => exact ok
      | const c => exact fun k hk => ok k (List.mem_cons_of_mem _ hk)
    | none =>
      have hl := hl'
      unfold TwoWayDict.translateFwd at hl
      rw [hl]
      simp only
      rw [weakDict_of_none _ hl]
      cases f with
      | counter =>
        simp only [Alloc.run]
        have hb : d.bwd.lookup cnt = none := lookup_none_of_lt ok
        have hok : d.insertOk a cnt = true := by simp [TwoWayDict.insertOk, hl, hb]
        apply weakDictSeq_inv _ r _ _ _ (TwoWayDict.inv_insert h hok)
        rw [TwoWayDict.insert_of_ok hok]
        intro e he
        simp only [List.mem_append, List.mem_singleton] at he
        rcases he with he | rfl
        · exact Nat.lt_succ_of_lt (ok e he)
        · exact Nat.lt_succ_self _
      | size off =>
        simp only [Alloc.run]
        have hb : d.bwd.lookup (d.size + off) = none := lookup_none_of_lt ok
        have hok : d.insertOk a (d.size + off) = true := by simp [TwoWayDict.insertOk, hl, hb]
        apply weakDictSeq_inv _ r _ _ _ (TwoWayDict.inv_insert h hok)
        rw [TwoWayDict.insert_of_ok hok]
        intro e he
        simp only [List.mem_append, List.mem_singleton] at he
        simp only [TwoWayDict.size, List.length_append, List.length_singleton]
        rcases he with he | rfl
        · have := ok e he; simp only [TwoWayDict.size] at this; omega
        · simp only [TwoWayDict.size]; omega
      | const c => exact absurd hl' (ok a (by simp))

theorem weakMapSeq_isMap {α : Type} [DecidableEq α] (f : Alloc) : ∀ (keys : List α) (m : List (α × Nat)) (cnt : Nat) (out : List Nat),
    IsMap m → IsMap (weakMapSeq f keys m cnt out).1
  | [], m, cnt, out, h => h
  | a :: r, m, cnt, out, h => by
    simp only [weakMapSeq]
    cases hl : m.lookup a with
    | some b => exact weakMapSeq_isMap f r m cnt _ h
    | none => exact weakMapSeq_isMap f r _ _ _ (weakMap_isMap h _ a)

theorem weak2MapSeq_isMap {α : Type} [DecidableEq α] (f : Alloc) : ∀ (keys : List α) (m : List (α × Nat)) (cnt : Nat) (out : List Nat),
    IsMap m → IsMap (weak2MapSeq f keys m cnt out).1
  | [], m, cnt, out, h => h
  | a :: r, m, cnt, out, h => by
    simp only [weak2MapSeq]
    cases hl : m.lookup a with
    | some b => exact weak2MapSeq_isMap f r m cnt _ h
    | none =>
      apply weak2MapSeq_isMap f r _ _ _
      rw [weak2Map_of_none _ hl]
      exact isMap_append_single h _ hl

/-! ### histories -/

/-- every live dictionary satisfies the invariant, every live map is a map -/
def PoolInv (p : Pool) : Prop := (∀ d ∈ p.ds, d.Inv) ∧ (∀ m ∈ p.ms, IsMap m)

/-- the contract of a step -/
def OpOk (p : Pool) : Op → Prop
  | .dInsert i n v => (p.d i).insertOk n v = true
  | .dUnion i j => (∀ a ∈ (p.d j).fwd.map Prod.fst, a ∉ (p.d i).fwd.map Prod.fst) ∧
      (∀ b ∈ (p.d j).bwd.map Prod.fst, b ∉ (p.d i).bwd.map Prod.fst)
  | .dWeak i f cnt keys => AllocOk f cnt (p.d i) keys
  | .uni i j ml mr => ((unionEntries (p.d i) (p.d j) (ml.map p.m) (mr.map p.m)).map Prod.snd).Nodup
  | .prod i j pm => ∀ es, prodEntries (p.d i) (p.d j) (mapOfList pm) = some es → (es.map Prod.fst).Nodup ∧ (es.map Prod.snd).Nodup
  | _ => True

theorem poolInv_empty : PoolInv {} := ⟨by simp, by simp⟩

theorem PoolInv.d {p : Pool} (h : PoolInv p) (i : Nat) : (p.d i).Inv := by
  unfold Pool.d
  rw [List.getD_eq_getElem?_getD]
  cases hi : p.ds[i]? with
  | none => exact TwoWayDict.inv_empty
  | some d => exact h.1 d (List.mem_of_getElem? hi)

theorem PoolInv.m {p : Pool} (h : PoolInv p) (i : Nat) : IsMap (p.m i) := by
  unfold Pool.m
  rw [List.getD_eq_getElem?_getD]
  cases hi : p.ms[i]? with
  | none => exact isMap_nil
  | some m => exact h.2 m (List.mem_of_getElem? hi)

theorem PoolInv.addD {p : Pool} (h : PoolInv p) {d : StateDict} (hd : d.Inv) : PoolInv { p with ds := p.ds ++ [d] } :=
  ⟨fun x hx => by
    simp only [List.mem_append, List.mem_singleton] at hx
    rcases hx with hx | rfl
    · exact h.1 x hx
    · exact hd, h.2⟩

theorem PoolInv.setD {p : Pool} (h : PoolInv p) {d : StateDict} (hd : d.Inv) (i : Nat) : PoolInv { p with ds := p.ds.set i d } :=
  ⟨fun x hx => by
    rcases List.mem_or_eq_of_mem_set hx with hx | rfl
    · exact h.1 x hx
    · exact hd, h.2⟩

theorem PoolInv.addM {p : Pool} (h : PoolInv p) {m : List (Nat × Nat)} (hm : IsMap m) : PoolInv { p with ms := p.ms ++ [m] } :=
  ⟨h.1, fun x hx => by
    simp only [List.mem_append, List.mem_singleton] at hx
    rcases hx with hx | rfl
    · exact h.2 x hx
    · exact hm⟩

theorem PoolInv.setM {p : Pool} (h : PoolInv p) {m : List (Nat × Nat)} (hm : IsMap m) (i : Nat) : PoolInv { p with ms := p.ms.set i m } :=
  ⟨h.1, fun x hx => by
    rcases List.mem_or_eq_of_mem_set hx with hx | rfl
    · exact h.2 x hx
    · exact hm⟩

theorem inv_norm {norm : StateDict → StateDict} (hn : NormOk norm) {d : StateDict} (h : d.Inv) : (norm d).Inv :=
  inv_of_perm (hn d).1 (hn d).2 h

/-- one step inside its contract keeps the invariant of every live object -/
theorem step_inv {norm : StateDict → StateDict} (hn : NormOk norm) {p : Pool} (hp : PoolInv p) :
    ∀ (o : Op), OpOk p o → PoolInv (step norm p o)
  | .dNew, _ => hp.addD TwoWayDict.inv_empty
  | .dOfMap m, _ => by
    simp only [step]
    cases h : TwoWayDict.ofMap (mapOfList m) with
    | none => exact hp
    | some d => exact hp.addD (inv_norm hn (TwoWayDict.ofMap_inv (isMap_mapOfList m) h).1)
  | .dCopy i, _ => hp.addD (hp.d i)
  | .dInsert i n v, ok => hp.setD (inv_norm hn (TwoWayDict.inv_insert (hp.d i) ok)) i
  | .dUnion i j, ok => hp.addD (inv_norm hn (TwoWayDict.inv_union (hp.d i) (hp.d j) ok.1 ok.2).1)
  | .dWeak i f cnt keys, ok => hp.setD (inv_norm hn (weakDictSeq_inv f keys _ cnt [] (hp.d i) ok)) i
  | .dStrict _ _, _ => hp
  | .dStrictBwd _ _, _ => hp
  | .dQuery _, _ => hp
  | .mNew, _ => hp.addM isMap_nil
  | .mLit m, _ => hp.addM (isMap_mapOfList m)
  | .mCopy i, _ => hp.addM (hp.m i)
  | .mWeak i f cnt keys, _ => hp.setM (weakMapSeq_isMap f keys _ cnt [] (hp.m i)) i
  | .mWeak2 i f cnt keys, _ => hp.setM (weak2MapSeq_isMap f keys _ cnt [] (hp.m i)) i
  | .mStrict _ _, _ => hp
  | .uni i j ml mr, ok => hp.addD (inv_norm hn (unionDict_inv (hp.d i).fwdMap (hp.d j).fwdMap _ _ ok).1)
  | .prod i j pm, ok => by
    simp only [step]
    cases h : productDict (p.d i) (p.d j) (mapOfList pm) with
    | none => exact hp
    | some d =>
      rw [productDict_eq] at h
      cases he : prodEntries (p.d i) (p.d j) (mapOfList pm) with
      | none => rw [he] at h; cases h
      | some es =>
        obtain ⟨d', hd', hinv, _, _⟩ := productDict_inv he (ok es he).1 (ok es he).2
        rw [productDict_eq, he] at hd'
        rw [he] at h
        have : d = d' := by
          simp only [Option.map_some, Option.some.injEq] at h hd'
          rw [← h, ← hd']
        subst this
        exact hp.addD (inv_norm hn hinv)

/-- every step of the history is inside its contract -/
def RunOk (norm : StateDict → StateDict) : Pool → List Op → Prop
  | _, [] => True
  | p, o :: r => OpOk p o ∧ RunOk norm (step norm p o) r

/-- **in every history inside the contracts every live `TwoWayDict` is a bijection between its two maps** (and every
live map is a map) -/
theorem history_inv {norm : StateDict → StateDict} (hn : NormOk norm) : ∀ (ops : List Op) (p : Pool), PoolInv p →
    RunOk norm p ops → PoolInv (run norm p ops)
  | [], _, hp, _ => hp
  | o :: r, _, hp, ok => history_inv hn r _ (step_inv hn hp o ok.1) ok.2

/-- what the invariant gives for every live dictionary of such a history -/
theorem history_observe {norm : StateDict → StateDict} (hn : NormOk norm) (ops : List Op) (ok : RunOk norm {} ops) (i : Nat) :
    let d := (run norm {} ops).d i
    (∀ n v, d.translateFwd n = some v ↔ d.translateBwd v = some n) ∧
      (∀ n n' v, d.translateFwd n = some v → d.translateFwd n' = some v → n = n') ∧
      d.size = d.getReverseMap.length ∧
      (∀ n v, d.getReverseMap.lookup v = some n ↔ d.translateFwd n = some v) := by
  have h := (history_inv hn ops {} poolInv_empty ok).d i
  exact ⟨TwoWayDict.translate_inverse h, fun n n' v => TwoWayDict.translateFwd_injective h, TwoWayDict.size_eq h,
    (TwoWayDict.getReverseMap_spec h).2⟩

/-- `TranslatorStrict` (all three instantiations), the `const` call operators and every read-only member leave every live
object as it was -/
theorem step_query_unchanged (norm : StateDict → StateDict) (p : Pool) (i : Nat) (ks : List Name) (vs : List Nat) :
    step norm p (.dStrict i ks) = p ∧ step norm p (.dStrictBwd i vs) = p ∧ step norm p (.mStrict i vs) = p ∧
      step norm p (.dQuery i) = p := ⟨rfl, rfl, rfl, rfl⟩

/-- the Boolean contract of `Union` used by the driver is the one of `OpOk` -/
theorem unionOk_iff {d r : StateDict} (hr : r.Inv) : d.unionOk r = true ↔
    (∀ a ∈ r.fwd.map Prod.fst, a ∉ d.fwd.map Prod.fst) ∧ (∀ b ∈ r.bwd.map Prod.fst, b ∉ d.bwd.map Prod.fst) := by
  simp only [TwoWayDict.unionOk, List.all_eq_true, Bool.and_eq_true, Option.isNone_iff_eq_none, lookup_eq_none_iff_not_mem]
  constructor
  · intro h
    refine ⟨?_, ?_⟩
    · intro a ha
      obtain ⟨e, he, rfl⟩ := List.mem_map.1 ha
      exact (h e he).1
    · intro b hb
      obtain ⟨e, he, rfl⟩ := List.mem_map.1 hb
      have : (e.2, e.1) ∈ r.fwd := (hr.inverse e.2 e.1).2 he
      exact (h _ this).2
  · rintro ⟨h1, h2⟩ e he
    refine ⟨h1 _ (List.mem_map.2 ⟨e, he, rfl⟩), h2 _ ?_⟩
    have : (e.2, e.1) ∈ r.bwd := (hr.inverse e.1 e.2).1 he
    exact List.mem_map.2 ⟨_, this, rfl⟩

namespace GlueEx

/-- a history inside the contracts: two dictionaries, a weak translator with the library's counter discipline, the union
helper with a translation map that prunes one state, the product helper -/
def ops : List Op :=
  [.dOfMap [("a".toList, 0), ("b".toList, 1)], .dNew, .dInsert 1 "p".toList 0,
   .dWeak 1 .counter 1 ["q".toList, "p".toList, "r".toList], .mLit [(0, 10), (1, 11)], .mLit [(0, 20), (2, 22)],
   .uni 0 1 (some 0) (some 1), .prod 0 1 [((0, 0), 0), ((1, 2), 1)], .dStrict 0 ["a".toList], .dUnion 0 2]

example : (run StateDict.norm {} ops).ds.length = 5 := by decide

example : ((run StateDict.norm {} ops).d 2).fwd =
    [("a_1".toList, 10), ("b_1".toList, 11), ("p_2".toList, 20), ("r_2".toList, 22)] := by decide

example : ((run StateDict.norm {} ops).d 3).fwd = [("[a_1|p_2]".toList, 0), ("[b_1|r_2]".toList, 1)] := by decide

end GlueEx

end Vata.Glue
