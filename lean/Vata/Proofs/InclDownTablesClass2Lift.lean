import Vata.Proofs.InclDownTablesClassNullary
/-!
# Idempotence of a functor call on its own post-state: the generic lifting (property C07)

A *frame* is an invariant `G` on the pair (`childrenCache`, global state) of one functor and a preorder `Le` ("later in the life of
the same functor").  `Good Φ R F F' F''` says about three state-threading steps, for every state that satisfies `G`:

* `F` and `F'` return the same result (`F` = the step with the calls of the code, `F'` = the step with the calls of the model);
* a finished `F` keeps `G`, ends in a later state, and in EVERY later state `F''` (the same step, possibly with another ghost
  symbol) returns a result of the same kind WITHOUT touching the state (the step is idempotent on its post-state).

The property is lifted from the recursive call through every loop of `DownwardInclusionFunctor::operator()`
(`forAllL`, `allPos`, `anyTuple`, `tryPos`, `oneCf`, `cfAll`, `procTuple`, `procLeaf`), and yields the de-duplication lemma
`forAllL_dd_good`: in a loop over items, an item whose pair of leaves was processed before (result `holds`) can be dropped.
-/
namespace Vata
namespace InclDownTables
open M BddAbs BddAbsTD BddTraverse InclDown
open InclUp (normS prodWit Wit)

/-- an invariant of the state of one functor and the order "later" -/
structure Frame where
  G : List Pair → St → Prop
  Le : List Pair → St → List Pair → St → Prop
  refl : ∀ cc st, Le cc st cc st
  trans : ∀ {c1 s1 c2 s2 c3 s3}, Le c1 s1 c2 s2 → Le c2 s2 c3 s3 → Le c1 s1 c3 s3

abbrev Step (α : Type) := List Pair → St → Option (α × List Pair × St)

/-- see the header -/
def Good (Φ : Frame) {α : Type} (R : α → α → Prop) (F F' F'' : Step α) : Prop :=
  ∀ cc st, Φ.G cc st → F cc st = F' cc st ∧
    ∀ v cc' st', F cc st = some (v, cc', st') → Φ.G cc' st' ∧ Φ.Le cc st cc' st' ∧
      ∀ c2 s2, Φ.Le cc' st' c2 s2 → Φ.G c2 s2 → ∃ v', R v v' ∧ F'' c2 s2 = some (v', c2, s2)

/-- the same kind of verdict (the witness trees may differ) -/
def sameKind : Verdict → Verdict → Prop
  | .holds, .holds => True
  | .fails _, .fails _ => True
  | _, _ => False

theorem sameKind_holds {v : Verdict} (h : sameKind .holds v) : v = .holds := by
  cases v with
  | holds => rfl
  | fails w => cases h

theorem sameKind_fails {w : Tree} {v : Verdict} (h : sameKind (.fails w) v) : ∃ w', v = .fails w' := by
  cases v with
  | holds => cases h
  | fails w' => exact ⟨w', rfl⟩

/-- the calls: good for every pair with a non-empty set -/
def CallGood (Φ : Frame) (call call' call'' : Call) : Prop :=
  ∀ x X, X ≠ [] → Good Φ sameKind (fun cc st => call cc st x X) (fun cc st => call' cc st x X)
    (fun cc st => call'' cc st x X)

/-! ### `forAllL` -/

theorem good_forAllL {Φ : Frame} {α : Type} {f f' f'' : α → List Pair → St → Ret} :
    ∀ (l : List α), (∀ a, a ∈ l → Good Φ sameKind (f a) (f' a) (f'' a)) →
      Good Φ sameKind (forAllL f l) (forAllL f' l) (forAllL f'' l)
  | [], _ => by
    intro cc st hG
    refine ⟨rfl, ?_⟩
    intro v cc' st' h
    simp only [forAllL, Option.some.injEq, Prod.mk.injEq] at h
    obtain ⟨h1, h2, h3⟩ := h
    subst h1 h2 h3
    exact ⟨hG, Φ.refl _ _, fun c2 s2 _ _ => ⟨.holds, trivial, rfl⟩⟩
  | a :: l, H => by
    intro cc st hG
    obtain ⟨e1, p1⟩ := H a List.mem_cons_self cc st hG
    have ih := good_forAllL l (fun b hb => H b (List.mem_cons_of_mem _ hb))
    simp only [forAllL]
    rw [← e1]
    cases hr : f a cc st with
    | none => exact ⟨rfl, fun v cc' st' h => by cases h⟩
    | some r =>
      obtain ⟨v1, cc1, st1⟩ := r
      obtain ⟨g1, l1, q1⟩ := p1 v1 cc1 st1 hr
      cases v1 with
      | holds =>
        simp only []
        obtain ⟨e2, p2⟩ := ih cc1 st1 g1
        refine ⟨e2, ?_⟩
        intro v cc' st' h
        obtain ⟨g2, l2, q2⟩ := p2 v cc' st' h
        refine ⟨g2, Φ.trans l1 l2, ?_⟩
        intro c2 s2 hle hG2
        obtain ⟨v', hk, he⟩ := q1 c2 s2 (Φ.trans l2 hle) hG2
        have := sameKind_holds hk
        subst this
        obtain ⟨v'', hk2, he2⟩ := q2 c2 s2 hle hG2
        refine ⟨v'', hk2, ?_⟩
        simp only [he]
        exact he2
      | fails w =>
        simp only []
        refine ⟨by first | rfl | trivial, ?_⟩
        intro v cc' st' h
        simp only [Option.some.injEq, Prod.mk.injEq] at h
        obtain ⟨h1, h2, h3⟩ := h
        subst h1 h2 h3
        refine ⟨g1, l1, ?_⟩
        intro c2 s2 hle hG2
        obtain ⟨v', hk, he⟩ := q1 c2 s2 hle hG2
        obtain ⟨w', hw'⟩ := sameKind_fails hk
        subst hw'
        refine ⟨.fails w', trivial, ?_⟩
        simp only [he]

theorem good_allPos {Φ : Frame} {call call' call'' : Call} (hc : CallGood Φ call call' call'') (lhs rhs : List Nat) :
    Good Φ sameKind (allPos call lhs rhs) (allPos call' lhs rhs) (allPos call'' lhs rhs) := by
  unfold allPos
  exact good_forAllL _ (fun lr _ => hc lr.1 [lr.2] (by simp))

/-! ### phase 1 -/

theorem good_anyTuple {Φ : Frame} {call call' call'' : Call} (hc : CallGood Φ call call' call'') (lhs : List Nat) :
    ∀ (W : List (List Nat)), Good Φ Eq (anyTuple call lhs W) (anyTuple call' lhs W) (anyTuple call'' lhs W)
  | [] => by
    intro cc st hG
    refine ⟨rfl, ?_⟩
    intro v cc' st' h
    simp only [anyTuple, Option.some.injEq, Prod.mk.injEq] at h
    obtain ⟨h1, h2, h3⟩ := h
    subst h1 h2 h3
    exact ⟨hG, Φ.refl _ _, fun c2 s2 _ _ => ⟨false, rfl, rfl⟩⟩
  | w :: W => by
    intro cc st hG
    obtain ⟨e1, p1⟩ := good_allPos hc lhs w cc st hG
    have ih := good_anyTuple hc lhs W
    simp only [anyTuple]
    rw [← e1]
    cases hr : allPos call lhs w cc st with
    | none => exact ⟨rfl, fun v cc' st' h => by cases h⟩
    | some r =>
      obtain ⟨v1, cc1, st1⟩ := r
      obtain ⟨g1, l1, q1⟩ := p1 v1 cc1 st1 hr
      cases v1 with
      | holds =>
        simp only []
        refine ⟨by first | rfl | trivial, ?_⟩
        intro v cc' st' h
        simp only [Option.some.injEq, Prod.mk.injEq] at h
        obtain ⟨h1, h2, h3⟩ := h
        subst h1 h2 h3
        refine ⟨g1, l1, ?_⟩
        intro c2 s2 hle hG2
        obtain ⟨v', hk, he⟩ := q1 c2 s2 hle hG2
        have := sameKind_holds hk
        subst this
        refine ⟨true, rfl, ?_⟩
        simp only [he]
      | fails w0 =>
        simp only []
        obtain ⟨e2, p2⟩ := ih cc1 st1 g1
        refine ⟨e2, ?_⟩
        intro v cc' st' h
        obtain ⟨g2, l2, q2⟩ := p2 v cc' st' h
        refine ⟨g2, Φ.trans l1 l2, ?_⟩
        intro c2 s2 hle hG2
        obtain ⟨v', hk, he⟩ := q1 c2 s2 (Φ.trans l2 hle) hG2
        obtain ⟨w', hw'⟩ := sameKind_fails hk
        subst hw'
        obtain ⟨v'', hk2, he2⟩ := q2 c2 s2 hle hG2
        refine ⟨v'', hk2, ?_⟩
        simp only [he]
        exact he2

/-! ### one choice function -/

/-- both `none` (a position holds) or both a list of trees -/
def sameOpt (a b : Option (List Tree)) : Prop := a.isSome = b.isSome

theorem consT_val (t : Tree) (v : Option (List Tree)) (cc : List Pair) (st : St) :
    consT t (some (v, cc, st)) = some (v.map (t :: ·), cc, st) := by
  cases v <;> rfl

theorem good_tryPos {Φ : Frame} {call call' call'' : Call} (hc : CallGood Φ call call' call'') (wit : Wit)
    (post : List Nat → List Nat) (W : List (List Nat)) (cs : List Nat) :
    ∀ (ls : List Nat) (i : Nat), Good Φ sameOpt (tryPos call wit post W cs i ls) (tryPos call' wit post W cs i ls)
      (tryPos call'' wit post W cs i ls)
  | [], i => by
    intro cc st hG
    refine ⟨rfl, ?_⟩
    intro v cc' st' h
    simp only [tryPos, Option.some.injEq, Prod.mk.injEq] at h
    obtain ⟨h1, h2, h3⟩ := h
    subst h1 h2 h3
    exact ⟨hG, Φ.refl _ _, fun c2 s2 _ _ => ⟨some [], rfl, rfl⟩⟩
  | l :: ls, i => by
    intro cc st hG
    have ih := good_tryPos hc wit post W cs ls (i + 1)
    simp only [tryPos]
    by_cases hS : (posSet post W cs i).isEmpty = true
    · simp only [hS, if_true]
      obtain ⟨e2, p2⟩ := ih cc st hG
      refine ⟨by rw [e2], ?_⟩
      intro v cc' st' h
      cases hr : tryPos call wit post W cs (i + 1) ls cc st with
      | none => rw [hr] at h; cases h
      | some r =>
        obtain ⟨v0, cc0, st0⟩ := r
        rw [hr, consT_val] at h
        simp only [Option.some.injEq, Prod.mk.injEq] at h
        obtain ⟨h1, h2, h3⟩ := h
        subst h1 h2 h3
        obtain ⟨g2, l2, q2⟩ := p2 v0 cc0 st0 hr
        refine ⟨g2, l2, ?_⟩
        intro c2 s2 hle hG2
        obtain ⟨v'', hk2, he2⟩ := q2 c2 s2 hle hG2
        refine ⟨v''.map (InclDown.treeOf wit l :: ·), ?_, ?_⟩
        · unfold sameOpt at hk2 ⊢
          simp only [Option.isSome_map]
          exact hk2
        · rw [he2, consT_val]
    · have hne : posSet post W cs i ≠ [] := by
        intro h0; rw [h0] at hS; exact hS rfl
      simp only [hS, if_false, Bool.false_eq_true]
      obtain ⟨e1, p1⟩ := hc l (posSet post W cs i) hne cc st hG
      simp only [] at e1 p1
      rw [← e1]
      cases hr : call cc st l (posSet post W cs i) with
      | none => exact ⟨rfl, fun v cc' st' h => by cases h⟩
      | some r =>
        obtain ⟨v1, cc1, st1⟩ := r
        obtain ⟨g1, l1, q1⟩ := p1 v1 cc1 st1 hr
        cases v1 with
        | holds =>
          simp only []
          refine ⟨by first | rfl | trivial, ?_⟩
          intro v cc' st' h
          simp only [Option.some.injEq, Prod.mk.injEq] at h
          obtain ⟨h1, h2, h3⟩ := h
          subst h1 h2 h3
          refine ⟨g1, l1, ?_⟩
          intro c2 s2 hle hG2
          obtain ⟨v', hk, he⟩ := q1 c2 s2 hle hG2
          have := sameKind_holds hk
          subst this
          refine ⟨none, rfl, ?_⟩
          simp only [he]
        | fails w0 =>
          simp only []
          obtain ⟨e2, p2⟩ := ih cc1 st1 g1
          refine ⟨by rw [e2], ?_⟩
          intro v cc' st' h
          cases hr2 : tryPos call wit post W cs (i + 1) ls cc1 st1 with
          | none => rw [hr2] at h; cases h
          | some r =>
            obtain ⟨v0, cc0, st0⟩ := r
            rw [hr2, consT_val] at h
            simp only [Option.some.injEq, Prod.mk.injEq] at h
            obtain ⟨h1, h2, h3⟩ := h
            subst h1 h2 h3
            obtain ⟨g2, l2, q2⟩ := p2 v0 cc0 st0 hr2
            refine ⟨g2, Φ.trans l1 l2, ?_⟩
            intro c2 s2 hle hG2
            obtain ⟨v', hk, he⟩ := q1 c2 s2 (Φ.trans l2 hle) hG2
            obtain ⟨w', hw'⟩ := sameKind_fails hk
            subst hw'
            obtain ⟨v'', hk2, he2⟩ := q2 c2 s2 hle hG2
            refine ⟨v''.map (w' :: ·), ?_, ?_⟩
            · unfold sameOpt at hk2 ⊢
              simp only [Option.isSome_map]
              exact hk2
            · simp only [he]
              rw [he2, consT_val]

theorem good_oneCf {Φ : Frame} {call call' call'' : Call} (hc : CallGood Φ call call' call'') (wit : Wit)
    (post : List Nat → List Nat) (f f'' : Nat) (lhs : List Nat) (W : List (List Nat)) (cs : List Nat) :
    Good Φ sameKind (oneCf call wit post f lhs W cs) (oneCf call' wit post f lhs W cs)
      (oneCf call'' wit post f'' lhs W cs) := by
  intro cc st hG
  obtain ⟨e1, p1⟩ := good_tryPos hc wit post W cs lhs 0 cc st hG
  unfold oneCf
  rw [← e1]
  cases hr : tryPos call wit post W cs 0 lhs cc st with
  | none => exact ⟨rfl, fun v cc' st' h => by cases h⟩
  | some r =>
    obtain ⟨v1, cc1, st1⟩ := r
    obtain ⟨g1, l1, q1⟩ := p1 v1 cc1 st1 hr
    refine ⟨rfl, ?_⟩
    intro v cc' st' h
    cases v1 with
    | none =>
      simp only [Option.some.injEq, Prod.mk.injEq] at h
      obtain ⟨h1, h2, h3⟩ := h
      subst h1 h2 h3
      refine ⟨g1, l1, ?_⟩
      intro c2 s2 hle hG2
      obtain ⟨v', hk, he⟩ := q1 c2 s2 hle hG2
      cases v' with
      | some ts => cases hk
      | none => exact ⟨.holds, trivial, by rw [he]⟩
    | some ts =>
      simp only [Option.some.injEq, Prod.mk.injEq] at h
      obtain ⟨h1, h2, h3⟩ := h
      subst h1 h2 h3
      refine ⟨g1, l1, ?_⟩
      intro c2 s2 hle hG2
      obtain ⟨v', hk, he⟩ := q1 c2 s2 hle hG2
      cases v' with
      | none => cases hk
      | some ts' => exact ⟨.fails (.node f'' ts'), trivial, by rw [he]⟩

theorem good_cfAll {Φ : Frame} {one one' one'' : List Nat → List Pair → St → Ret} (n : Nat)
    (h1 : ∀ cs, Good Φ sameKind (one cs) (one' cs) (one'' cs)) :
    ∀ (m : Nat) (cs : List Nat), Good Φ sameKind (cfAll one n m cs) (cfAll one' n m cs) (cfAll one'' n m cs)
  | 0, cs => h1 cs
  | m+1, cs => by
    show Good Φ sameKind (forAllL (fun i cc st => cfAll one n m (i :: cs) cc st) (List.range n))
      (forAllL (fun i cc st => cfAll one' n m (i :: cs) cc st) (List.range n))
      (forAllL (fun i cc st => cfAll one'' n m (i :: cs) cc st) (List.range n))
    exact good_forAllL _ (fun i _ => good_cfAll n h1 m (i :: cs))

/-! ### one lhs tuple, one call of the functor -/

theorem good_procTuple {Φ : Frame} {call call' call'' : Call} (hc : CallGood Φ call call' call'') (wit : Wit)
    (post : List Nat → List Nat) (f f'' : Nat) (W : List (List Nat)) (lhs : List Nat) :
    Good Φ sameKind (procTuple call call wit post f W lhs) (procTuple call' call' wit post f W lhs)
      (procTuple call'' call'' wit post f'' W lhs) := by
  intro cc st hG
  obtain ⟨e1, p1⟩ := good_anyTuple hc lhs W cc st hG
  have hcf := good_cfAll (Φ := Φ) lhs.length (fun cs => good_oneCf hc wit post f f'' lhs W cs) W.length []
  unfold procTuple
  rw [← e1]
  cases hr : anyTuple call lhs W cc st with
  | none => exact ⟨rfl, fun v cc' st' h => by cases h⟩
  | some r =>
    obtain ⟨b, cc1, st1⟩ := r
    obtain ⟨g1, l1, q1⟩ := p1 b cc1 st1 hr
    cases b with
    | true =>
      simp only []
      refine ⟨by first | rfl | trivial, ?_⟩
      intro v cc' st' h
      simp only [Option.some.injEq, Prod.mk.injEq] at h
      obtain ⟨h1, h2, h3⟩ := h
      subst h1 h2 h3
      refine ⟨g1, l1, ?_⟩
      intro c2 s2 hle hG2
      obtain ⟨v', hk, he⟩ := q1 c2 s2 hle hG2
      subst hk
      exact ⟨.holds, trivial, by rw [he]⟩
    | false =>
      simp only []
      obtain ⟨e2, p2⟩ := hcf cc1 st1 g1
      refine ⟨e2, ?_⟩
      intro v cc' st' h
      obtain ⟨g2, l2, q2⟩ := p2 v cc' st' h
      refine ⟨g2, Φ.trans l1 l2, ?_⟩
      intro c2 s2 hle hG2
      obtain ⟨v', hk, he⟩ := q1 c2 s2 (Φ.trans l2 hle) hG2
      subst hk
      obtain ⟨v'', hk2, he2⟩ := q2 c2 s2 hle hG2
      exact ⟨v'', hk2, by rw [he]; exact he2⟩

theorem good_procLeaf {Φ : Frame} {call call' call'' : Call} (hc : CallGood Φ call call' call'') (wit : Wit)
    (post : List Nat → List Nat) (f f'' : Nat) (L W : List (List Nat)) :
    Good Φ sameKind (procLeaf call call wit post f L W) (procLeaf call' call' wit post f L W)
      (procLeaf call'' call'' wit post f'' L W) := by
  have hconst : ∀ (v v'' : Verdict), sameKind v v'' →
      Good Φ sameKind (fun cc st => some (v, cc, st)) (fun cc st => some (v, cc, st)) (fun cc st => some (v'', cc, st)) := by
    intro v v'' hk cc st hG
    refine ⟨rfl, ?_⟩
    intro v0 cc' st' h
    simp only [Option.some.injEq, Prod.mk.injEq] at h
    obtain ⟨h1, h2, h3⟩ := h
    subst h1 h2 h3
    exact ⟨hG, Φ.refl _ _, fun c2 s2 _ _ => ⟨v'', hk, rfl⟩⟩
  unfold procLeaf
  by_cases h1 : L.isEmpty = true
  · simp only [h1, if_true]; exact hconst _ _ trivial
  · simp only [h1, if_false, Bool.false_eq_true]
    by_cases h2 : (L.headD []).length = 0
    · simp only [h2, if_true]
      by_cases h3 : W.isEmpty = true
      · simp only [h3, if_true]; exact hconst _ _ trivial
      · simp only [h3, if_false, Bool.false_eq_true]; exact hconst _ _ trivial
    · simp only [h2, if_false]
      by_cases h3 : W.isEmpty = true
      · simp only [h3, if_true]; exact hconst _ _ trivial
      · simp only [h3, if_false, Bool.false_eq_true]
        exact good_forAllL _ (fun lhs _ => good_procTuple hc wit post f f'' W lhs)

/-! ### the de-duplication of a loop over items -/

/-- a loop over items: an item whose pair of leaves is among `s` (processed before with result `holds`) or occurred earlier in the
list is a call without effect – the idempotence of a call of the functor on its own post-state -/
theorem forAllL_dd_good {Φ : Frame} {F F' : It → List Pair → St → Ret}
    (hF : ∀ i j : It, i.2 = j.2 → Good Φ sameKind (F i) (F' i) (F j))
    (hE : ∀ i : It, i.2.1 = [] → ∀ cc st, F i cc st = some (.holds, cc, st)) :
    ∀ (l s : List It) (cc : List Pair) (st : St), Φ.G cc st →
      (∀ j, j ∈ s → ∀ i : It, i.2 = j.2 → ∀ c2 s2, Φ.Le cc st c2 s2 → Φ.G c2 s2 → F i c2 s2 = some (.holds, c2, s2)) →
      forAllL F l cc st = forAllL F (dd l s) cc st
  | [], s, cc, st, _, _ => rfl
  | i :: l, s, cc, st, hG, H => by
    simp only [dd]
    by_cases hc : (i.2.1.isEmpty || s.any (fun j => j.2 == i.2)) = true
    · rw [if_pos hc]
      have hskip : F i cc st = some (.holds, cc, st) := by
        rcases dd_cond.mp hc with h | ⟨j, hj, he⟩
        · exact hE i h cc st
        · exact H j hj i he.symm cc st (Φ.refl _ _) hG
      simp only [forAllL, hskip]
      exact forAllL_dd_good hF hE l s cc st hG H
    · rw [if_neg hc]
      simp only [forAllL]
      cases hr : F i cc st with
      | none => rfl
      | some r =>
        obtain ⟨v, cc', st'⟩ := r
        cases v with
        | fails w => rfl
        | holds =>
          simp only []
          have hg := fun j (he : i.2 = j.2) => ((hF i j he) cc st hG).2 .holds cc' st' hr
          obtain ⟨g1, l1, _⟩ := hg i rfl
          refine forAllL_dd_good hF hE l (s ++ [i]) cc' st' g1 ?_
          intro j hj k hk c2 s2 hle hG2
          rcases List.mem_append.mp hj with hj | hj
          · exact H j hj k hk c2 s2 (Φ.trans l1 hle) hG2
          · rw [List.mem_singleton.mp hj] at hk
            obtain ⟨_, _, q⟩ := hg k hk.symm
            obtain ⟨v', hk', he'⟩ := q c2 s2 hle hG2
            rw [sameKind_holds hk'] at he'
            exact he'

/-- agreement of two loops on the good states -/
theorem forAllL_agree {Φ : Frame} {α : Type} {f f' f'' : α → List Pair → St → Ret} (l : List α)
    (h : ∀ a, a ∈ l → Good Φ sameKind (f a) (f' a) (f'' a)) (cc : List Pair) (st : St) (hG : Φ.G cc st) :
    forAllL f l cc st = forAllL f' l cc st := (good_forAllL l h cc st hG).1

end InclDownTables
end Vata
