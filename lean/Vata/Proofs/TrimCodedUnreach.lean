import Vata.TrimCoded
import Vata.Proofs.TrimModel
/-!
# `RemoveUnreachableStates` as coded (`Vata/TrimCoded.lean`): the work-list computes `tdReach`, the fuel suffices,
the result has the rules of `removeUnreachable`, the repaired shortcut is sound
-/
namespace Vata.TrimCoded
open Vata

/-! ### the effect of the pushes -/

/-- `σ'` is `σ` after `insert`-and-push of the elements of `L` -/
def Ext (L : List Nat) (σ σ' : List Nat × List Nat) : Prop :=
  (∀ x, x ∈ σ'.1 ↔ x ∈ σ.1 ∨ x ∈ L) ∧ (∀ x, x ∈ σ'.2 ↔ x ∈ σ.2 ∨ (x ∈ L ∧ x ∉ σ.1))

theorem Ext.nil (σ : List Nat × List Nat) : Ext [] σ σ := by
  constructor <;> intro x <;> simp

theorem Ext.trans {L₁ L₂ : List Nat} {σ σ₁ σ₂ : List Nat × List Nat} (h₁ : Ext L₁ σ σ₁) (h₂ : Ext L₂ σ₁ σ₂) :
    Ext (L₁ ++ L₂) σ σ₂ := by
  obtain ⟨a1, b1⟩ := h₁
  obtain ⟨a2, b2⟩ := h₂
  constructor
  · intro x
    rw [a2, a1, List.mem_append, or_assoc]
  · intro x
    rw [b2, b1, a1, List.mem_append]
    by_cases hx : x ∈ σ.1 <;> by_cases h1 : x ∈ L₁ <;> simp [hx, h1]

theorem ext_pushNew (σ : List Nat × List Nat) (q : Nat) : Ext [q] σ (pushNew σ q) := by
  unfold pushNew
  by_cases h : σ.1.contains q = true
  · rw [if_pos h]
    have hq : q ∈ σ.1 := List.contains_iff_mem.mp h
    constructor
    · intro x
      simp only [List.mem_singleton]
      constructor
      · exact Or.inl
      · rintro (h | h)
        · exact h
        · rw [h]; exact hq
    · intro x
      simp only [List.mem_singleton]
      constructor
      · exact Or.inl
      · rintro (h | ⟨h, h'⟩)
        · exact h
        · rw [h] at h'; exact absurd hq h'
  · rw [if_neg h]
    have hq : q ∉ σ.1 := fun hq => h (List.contains_iff_mem.mpr hq)
    constructor
    · intro x
      simp only [List.mem_append, List.mem_singleton]
    · intro x
      simp only [List.mem_cons, List.not_mem_nil, or_false]
      constructor
      · rintro (h | h)
        · rw [h]; exact Or.inr ⟨rfl, hq⟩
        · exact Or.inl h
      · rintro (h | ⟨h, _⟩)
        · exact Or.inr h
        · exact Or.inl h

theorem ext_kids : ∀ (l : List Nat) (σ : List Nat × List Nat), Ext l σ (l.foldl pushNew σ)
  | [], σ => Ext.nil σ
  | q :: l, σ => by
    rw [List.foldl_cons]
    exact Ext.trans (L₁ := [q]) (ext_pushNew σ q) (ext_kids l (pushNew σ q))

theorem ext_cluster : ∀ (cl : List Rule) (σ : List Nat × List Nat), Ext (cl.flatMap (·.kids)) σ (procCluster cl σ)
  | [], σ => Ext.nil σ
  | r :: cl, σ => by
    unfold procCluster
    rw [List.foldl_cons, List.flatMap_cons]
    exact Ext.trans (ext_kids r.kids σ) (ext_cluster cl _)

/-! ### the measure -/

/-- work-list length + number of states of `A` not yet inserted -/
def umeasure (A : TA) (σ : List Nat × List Nat) : Nat :=
  σ.2.length + A.states.countP (fun q => !σ.1.contains q)

theorem umeasure_pushNew (A : TA) (σ : List Nat × List Nat) (q : Nat) (hq : q ∈ A.states) :
    umeasure A (pushNew σ q) ≤ umeasure A σ := by
  unfold pushNew
  by_cases h : σ.1.contains q = true
  · rw [if_pos h]; exact Nat.le_refl _
  · rw [if_neg h]
    unfold umeasure
    have := countP_lt_of_new (l := A.states) (p := fun x => !(σ.1 ++ [q]).contains x) (q := fun x => !σ.1.contains x)
      (by
        intro x _ hx
        simp only [Bool.not_eq_true', ← Bool.not_eq_true, List.contains_iff_mem, List.mem_append, not_or] at hx ⊢
        exact hx.1)
      ⟨q, hq, by simpa using h, by simp⟩
    simp only [List.length_cons]
    omega

theorem umeasure_kids (A : TA) : ∀ (l : List Nat) (σ : List Nat × List Nat), (∀ q, q ∈ l → q ∈ A.states) →
    umeasure A (l.foldl pushNew σ) ≤ umeasure A σ
  | [], _, _ => Nat.le_refl _
  | q :: l, σ, h => by
    rw [List.foldl_cons]
    exact Nat.le_trans (umeasure_kids A l _ (fun x hx => h x (List.mem_cons_of_mem _ hx)))
      (umeasure_pushNew A σ q (h q List.mem_cons_self))

theorem umeasure_cluster (A : TA) : ∀ (cl : List Rule) (σ : List Nat × List Nat), (∀ r, r ∈ cl → r ∈ A.rules) →
    umeasure A (procCluster cl σ) ≤ umeasure A σ
  | [], _, _ => Nat.le_refl _
  | r :: cl, σ, h => by
    unfold procCluster
    rw [List.foldl_cons]
    refine Nat.le_trans (umeasure_cluster A cl _ (fun x hx => h x (List.mem_cons_of_mem _ hx))) ?_
    apply umeasure_kids
    intro q hq
    exact mem_states.mpr (Or.inr ⟨r, h r List.mem_cons_self, Or.inr hq⟩)

/-! ### the loop invariant -/

structure UInv (A : TA) (σ : List Nat × List Nat) : Prop where
  sound : ∀ q, q ∈ σ.1 → q ∈ tdReach A
  wsub : ∀ q, q ∈ σ.2 → q ∈ σ.1
  fin : ∀ q, q ∈ A.final → q ∈ σ.1
  closed : ∀ r, r ∈ A.rules → r.parent ∈ σ.1 → r.parent ∉ σ.2 → ∀ k, k ∈ r.kids → k ∈ σ.1

theorem mem_clusterOf {A : TA} {s : Nat} {r : Rule} : r ∈ clusterOf A s ↔ r ∈ A.rules ∧ r.parent = s := by
  simp [clusterOf]

theorem uinv_step {A : TA} {R W : List Nat} {s : Nat} (h : UInv A (R, s :: W)) :
    UInv A (procCluster (clusterOf A s) (R, W)) := by
  obtain ⟨e1, e2⟩ := ext_cluster (clusterOf A s) (R, W)
  simp only [List.mem_flatMap] at e1 e2
  have hsR : s ∈ R := h.wsub s List.mem_cons_self
  constructor
  · intro q hq
    rcases (e1 q).mp hq with hq | ⟨r, hr, hk⟩
    · exact h.sound q hq
    · obtain ⟨hrA, hp⟩ := mem_clusterOf.mp hr
      exact tdReach_closed A r hrA (by rw [hp]; exact h.sound s hsR) q hk
  · intro q hq
    rcases (e2 q).mp hq with hq | ⟨hk, _⟩
    · exact (e1 q).mpr (Or.inl (h.wsub q (List.mem_cons_of_mem _ hq)))
    · exact (e1 q).mpr (Or.inr hk)
  · intro q hq
    exact (e1 q).mpr (Or.inl (h.fin q hq))
  · intro r hr hp hnw k hk
    by_cases hs : r.parent = s
    · exact (e1 k).mpr (Or.inr ⟨r, mem_clusterOf.mpr ⟨hr, hs⟩, hk⟩)
    · rcases (e1 r.parent).mp hp with hpR | hnew
      · refine (e1 k).mpr (Or.inl (h.closed r hr hpR ?_ k hk))
        intro hmem
        rcases List.mem_cons.mp hmem with h' | h'
        · exact hs h'
        · exact hnw ((e2 _).mpr (Or.inl h'))
      · by_cases hpR : r.parent ∈ R
        · refine (e1 k).mpr (Or.inl (h.closed r hr hpR ?_ k hk))
          intro hmem
          rcases List.mem_cons.mp hmem with h' | h'
          · exact hs h'
          · exact hnw ((e2 _).mpr (Or.inl h'))
        · exact absurd ((e2 _).mpr (Or.inr ⟨hnew, hpR⟩)) hnw

theorem unreachLoop_inv (A : TA) : ∀ (f : Nat) (σ : List Nat × List Nat), UInv A σ → umeasure A σ ≤ f →
    UInv A (unreachLoop A f σ) ∧ (unreachLoop A f σ).2 = []
  | 0, σ, h, hm => by
    unfold unreachLoop
    refine ⟨h, ?_⟩
    unfold umeasure at hm
    exact List.eq_nil_of_length_eq_zero (by omega)
  | f+1, (R, []), h, _ => by
    unfold unreachLoop
    exact ⟨h, rfl⟩
  | f+1, (R, s :: W), h, hm => by
    unfold unreachLoop
    apply unreachLoop_inv A f _ (uinv_step h)
    have h1 := umeasure_cluster A (clusterOf A s) (R, W) (fun r hr => (mem_clusterOf.mp hr).1)
    have h2 : umeasure A (R, s :: W) = umeasure A (R, W) + 1 := by
      unfold umeasure
      simp only [List.length_cons]
      omega
    omega

theorem uinv_init (A : TA) : UInv A (dedupL A.final, (dedupL A.final).reverse) := by
  constructor
  · intro q hq
    exact tdReach_final A q (mem_dedupL.mp hq)
  · intro q hq
    exact List.mem_reverse.mp hq
  · intro q hq
    exact mem_dedupL.mpr hq
  · intro r _ hp hnw
    exact absurd (List.mem_reverse.mpr hp) hnw

theorem umeasure_init (A : TA) : umeasure A (dedupL A.final, (dedupL A.final).reverse) ≤ unreachFuel A := by
  unfold umeasure unreachFuel
  have := List.countP_le_length (p := fun q => !(dedupL A.final).contains q) (l := A.states)
  simp only [List.length_reverse]
  omega

/-- totality: with the fuel `unreachFuel A` the work-list is empty at the end -/
theorem unreachLoop_done (A : TA) :
    (unreachLoop A (unreachFuel A) (dedupL A.final, (dedupL A.final).reverse)).2 = [] :=
  (unreachLoop_inv A _ _ (uinv_init A) (umeasure_init A)).2

/-- the work-list of `RemoveUnreachableStates` computes exactly the set `tdReach A` -/
theorem mem_unreachSet (A : TA) (q : Nat) : q ∈ unreachSet A ↔ q ∈ tdReach A := by
  obtain ⟨hI, hW⟩ := unreachLoop_inv A _ _ (uinv_init A) (umeasure_init A)
  constructor
  · exact hI.sound q
  · intro hq
    refine tdReachable_sub_closed (S := unreachSet A) hI.fin ?_ q (tdReach_sound A q hq)
    intro r hr hp k hk
    refine hI.closed r hr hp ?_ k hk
    rw [hW]
    exact List.not_mem_nil

theorem unreachSet_contains (A : TA) (q : Nat) : (unreachSet A).contains q = (tdReach A).contains q := by
  rw [Bool.eq_iff_iff, List.contains_iff_mem, List.contains_iff_mem]
  exact mem_unreachSet A q

/-! ### the result -/

theorem unreachWith_final (test : TA → List Nat → Bool) (A : TA) : (unreachWith test A).final = A.final := by
  unfold unreachWith
  simp only
  split <;> rfl

/-- when the repaired shortcut fires, the filter of `removeUnreachable` keeps every rule: the shortcut returns
exactly what the slow path would build (as a set of rules) and the list `removeUnreachable` builds -/
theorem shortcut_sound (A : TA) (h : testOwners A (unreachSet A) = true) :
    unreachCoded A = A ∧ removeUnreachable A = A := by
  constructor
  · unfold unreachCoded unreachWith
    simp only [h, if_true]
  · unfold removeUnreachable
    simp only
    congr 1
    rw [List.filter_eq_self]
    intro r hr
    unfold testOwners at h
    rw [List.all_eq_true] at h
    rw [← unreachSet_contains]
    exact h r hr

/-- the shortcut fires exactly when nothing would be removed -/
theorem shortcut_iff (A : TA) : testOwners A (unreachSet A) = true ↔ (removeUnreachable A).rules = A.rules := by
  constructor
  · intro h
    rw [(shortcut_sound A h).2]
  · intro h
    unfold removeUnreachable at h
    simp only at h
    rw [List.filter_eq_self] at h
    unfold testOwners
    rw [List.all_eq_true]
    intro r hr
    rw [unreachSet_contains]
    exact h r hr

/-- the rules of `unreachCoded A` are those of `removeUnreachable A` (as sets) -/
theorem mem_unreachCoded_rules (A : TA) (r : Rule) : r ∈ (unreachCoded A).rules ↔ r ∈ (removeUnreachable A).rules := by
  by_cases h : testOwners A (unreachSet A) = true
  · rw [(shortcut_sound A h).1, (shortcut_sound A h).2]
  · unfold unreachCoded unreachWith removeUnreachable
    simp only [h, Bool.false_eq_true, if_false, List.mem_flatMap, List.mem_filter, List.contains_iff_mem]
    constructor
    · rintro ⟨s, hs, hr⟩
      obtain ⟨hrA, hp⟩ := mem_clusterOf.mp hr
      refine ⟨hrA, ?_⟩
      rw [hp]
      exact (mem_unreachSet A s).mp hs
    · rintro ⟨hrA, hp⟩
      exact ⟨r.parent, (mem_unreachSet A _).mpr hp, mem_clusterOf.mpr ⟨hrA, rfl⟩⟩

end Vata.TrimCoded
