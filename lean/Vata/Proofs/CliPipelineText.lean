import Vata.Proofs.CliPipelineLang
/-!
# The PRINTED TEXT of `vata union` / `vata isect` denotes the union / the intersection

The serializer's text is read back by the parser only if the names are good (`goodName`: non-empty, no white space, none of
`( ) , :`, no `->`).  This file shows that the names the two helpers build from good operand names are good –
`name_1`, `name_2`, `[l_1|r_2]` followed by primes – so the dump of the result is `WellFormed`, and composes that with
`dump_reload_text_lang`.

* `good_name1`, `good_name2`, `good_prodName`, `good_primes`
* `cliUnion_lang`, `cliIsect_lang`          for well-formed operand descriptions
* `cliUnionText_lang`, `cliIsectText_lang`  the same from the texts of the two files
-/
namespace Vata.CliPipe
open Vata.Glue Vata.LoadDump Vata.Dict Vata.Timbuk

/-! ### good names -/

def GoodCh (c : Char) : Prop := isSpace c = false ∧ c ≠ '(' ∧ c ≠ ')' ∧ c ≠ ',' ∧ c ≠ ':'

def NoArrow (s : List Char) : Prop := ¬ ∃ p q, s = p ++ '-' :: '>' :: q

/-- `goodName`, as a proposition -/
def GoodS (s : List Char) : Prop := s ≠ [] ∧ (∀ c, c ∈ s → GoodCh c) ∧ NoArrow s

theorem goodS_iff (s : List Char) : goodName s = true ↔ GoodS s := goodName_iff s

theorem noArrow_iff (s : List Char) : NoArrow s ↔ splitArrow s = none := (splitArrow_none_iff s).symm

theorem noArrow_append {a b : List Char} (ha : NoArrow a) (hb : NoArrow b)
    (hj : (∀ p, a ≠ p ++ ['-']) ∨ (∀ q, b ≠ '>' :: q)) : NoArrow (a ++ b) := by
  rintro ⟨p, q, e⟩
  rcases List.append_eq_append_iff.mp e with ⟨a', rfl, hb'⟩ | ⟨c', rfl, hc⟩
  · exact hb ⟨a', q, hb'⟩
  · match c', hc with
    | [], hc => exact hb ⟨[], q, by simpa using hc.symm⟩
    | [x], hc =>
      simp only [List.cons_append, List.nil_append, List.cons.injEq] at hc
      rcases hj with hj | hj
      · exact hj p (by rw [hc.1])
      · exact hj q hc.2.symm
    | x :: y :: c'', hc =>
      simp only [List.cons_append, List.cons.injEq] at hc
      obtain ⟨rfl, rfl, _⟩ := hc
      exact ha ⟨p, c'', rfl⟩

theorem good_append {a b : List Char} (ha : GoodS a) (hbc : ∀ c, c ∈ b → GoodCh c) (hb : NoArrow b)
    (hj : (∀ p, a ≠ p ++ ['-']) ∨ (∀ q, b ≠ '>' :: q)) : GoodS (a ++ b) := by
  refine ⟨by simp [ha.1], ?_, noArrow_append ha.2.2 hb hj⟩
  intro c hc
  rcases List.mem_append.mp hc with h | h
  · exact ha.2.1 c h
  · exact hbc c h

theorem noArrow_cons {c : Char} {a : List Char} (hc : c ≠ '-') (ha : NoArrow a) : NoArrow (c :: a) := by
  rintro ⟨p, q, e⟩
  match p, e with
  | [], e => simp only [List.nil_append, List.cons.injEq] at e; exact hc e.1
  | x :: p', e =>
    simp only [List.cons_append, List.cons.injEq] at e
    exact ha ⟨p', q, e.2⟩

theorem good_cons {c : Char} {a : List Char} (hg : GoodCh c) (hc : c ≠ '-') (ha : GoodS a) : GoodS (c :: a) := by
  refine ⟨by simp, ?_, noArrow_cons hc ha.2.2⟩
  intro x hx
  rcases List.mem_cons.mp hx with rfl | h
  · exact hg
  · exact ha.2.1 x h

theorem goodCh_lit : GoodCh '_' ∧ GoodCh '1' ∧ GoodCh '2' ∧ GoodCh '|' ∧ GoodCh '[' ∧ GoodCh ']' ∧ GoodCh '\'' := by
  refine ⟨?_, ?_, ?_, ?_, ?_, ?_, ?_⟩ <;> exact ⟨by decide, by decide, by decide, by decide, by decide⟩

theorem good_name1 {n : Name} (h : GoodS n) : GoodS (name1 n) := by
  refine good_append h ?_ ((noArrow_iff _).mpr (by decide)) (Or.inr (fun q e => by simp at e))
  intro c hc
  simp only [List.mem_cons, List.not_mem_nil, or_false] at hc
  rcases hc with rfl | rfl
  · exact goodCh_lit.1
  · exact goodCh_lit.2.1

theorem good_name2 {n : Name} (h : GoodS n) : GoodS (name2 n) := by
  refine good_append h ?_ ((noArrow_iff _).mpr (by decide)) (Or.inr (fun q e => by simp at e))
  intro c hc
  simp only [List.mem_cons, List.not_mem_nil, or_false] at hc
  rcases hc with rfl | rfl
  · exact goodCh_lit.1
  · exact goodCh_lit.2.2.1

theorem prodName_eq (l r : Name) : prodName l r = ((('[' :: l) ++ ['_', '1', '|']) ++ r) ++ ['_', '2', ']'] := by
  simp [prodName]

theorem good_prodName {l r : Name} (hl : GoodS l) (hr : GoodS r) : GoodS (prodName l r) := by
  rw [prodName_eq]
  have g1 : GoodS ('[' :: l) := good_cons goodCh_lit.2.2.2.2.1 (by decide) hl
  have g2 : GoodS (('[' :: l) ++ ['_', '1', '|']) := by
    refine good_append g1 ?_ ((noArrow_iff _).mpr (by decide)) (Or.inr (fun q e => by simp at e))
    intro c hc
    simp only [List.mem_cons, List.not_mem_nil, or_false] at hc
    rcases hc with rfl | rfl | rfl
    · exact goodCh_lit.1
    · exact goodCh_lit.2.1
    · exact goodCh_lit.2.2.2.1
  have g3 : GoodS ((('[' :: l) ++ ['_', '1', '|']) ++ r) := by
    refine good_append g2 hr.2.1 hr.2.2 (Or.inl ?_)
    intro p e
    have e' : (('[' :: l) ++ ['_', '1']) ++ ['|'] = p ++ ['-'] := by simpa using e
    have := List.append_inj_right' e' rfl
    simp at this
  refine good_append g3 ?_ ((noArrow_iff _).mpr (by decide)) (Or.inr (fun q e => by simp at e))
  intro c hc
  simp only [List.mem_cons, List.not_mem_nil, or_false] at hc
  rcases hc with rfl | rfl | rfl
  · exact goodCh_lit.1
  · exact goodCh_lit.2.2.1
  · exact goodCh_lit.2.2.2.2.2.1

theorem good_primes {s : Name} (h : GoodS s) : ∀ (k : Nat), GoodS (s ++ List.replicate k '\'')
  | 0 => by simpa using h
  | k + 1 => by
    rw [List.replicate_succ', ← List.append_assoc]
    refine good_append (good_primes h k) ?_ ((noArrow_iff _).mpr (by decide)) (Or.inr (fun q e => by simp at e))
    intro c hc
    simp only [List.mem_cons, List.not_mem_nil, or_false] at hc
    rw [hc]; exact goodCh_lit.2.2.2.2.2.2

/-! ### the dump of a result with good names is well formed -/

theorem dump_wellFormed {P : TA} {sd : Vata.StateDict} {yd : SymDict}
    (hs : ∀ q, q ∈ P.states → goodName (nameOf sd q).toList = true)
    (hy : ∀ r, r ∈ P.rules → goodName (symNameOf yd r.sym).toList = true) :
    (dumpOf (P.final.map (nameOf sd)) (P.rules.map (namedRule sd yd))).WellFormed := by
  refine (AutDesc.wellFormed_iff _).mpr ⟨?_, ?_, ?_, ?_, ?_⟩
  · intro c hc
    have : (dumpOf (P.final.map (nameOf sd)) (P.rules.map (namedRule sd yd))).name = "" := normDesc_name _
    rw [this] at hc; simp at hc
  · intro p hp
    rw [show (dumpOf (P.final.map (nameOf sd)) (P.rules.map (namedRule sd yd))).symbols = [] from
      normDesc_symbols_nil _ rfl] at hp
    simp at hp
  · intro q hq
    rw [show (dumpOf (P.final.map (nameOf sd)) (P.rules.map (namedRule sd yd))).states = [] from
      normDesc_states_nil _ rfl] at hq
    simp at hq
  · intro q hq
    obtain ⟨x, hx, rfl⟩ := List.mem_map.mp ((normDesc_final _ q).mp hq)
    exact hs x (Rn.final_mem_states hx)
  · intro t ht
    obtain ⟨r, hr, rfl⟩ := List.mem_map.mp ((normDesc_trans _ t).mp ht)
    refine ⟨?_, hy r hr, hs _ (Rn.parent_mem_states hr)⟩
    intro k hk
    obtain ⟨x, hx, rfl⟩ := List.mem_map.mp hk
    exact hs x (Rn.kid_mem_states hr hx)

/-- the symbol names of a loaded automaton are the symbol names of the transitions -/
theorem loadFrom_symNames (s : LSt) (hs : s.Ok) (d : AutDesc) :
    ∀ r, r ∈ (loadFrom s d).1.rules → ∃ t, t ∈ d.trans ∧ symNameOf (loadFrom s d).2.yd r.sym = t.2.1 := by
  obtain ⟨h, _, rr, hc⟩ := loadFrom_spec s hs d
  intro r hr
  rw [rr] at hr
  obtain ⟨t, ht, rfl⟩ := List.mem_map.mp hr
  exact ⟨t, ht, symNameOf_get h.ok.yd (hc t ht).sym⟩

theorem symNameOf_sub {yd₁ yd₂ : SymDict} (h₁ : yd₁.Ok) (h₂ : yd₂.Ok) (s : Sub yd₁ yd₂) {f : Nat} {k : String × Nat}
    (h : yd₁.bwd? f = some k) : symNameOf yd₂ f = symNameOf yd₁ f := by
  unfold symNameOf; rw [h, bwd?_sub h₁ h₂ s h]

theorem good_stateName {d : AutDesc} (hwf : d.WellFormed) {q : String} (hq : q ∈ stateNames d) :
    goodName q.toList = true := by
  obtain ⟨_, _, _, h4, h5⟩ := (AutDesc.wellFormed_iff d).mp hwf
  rcases mem_stateNames.mp hq with h | ⟨t, ht, h | h⟩
  · exact h4 q h
  · exact (h5 t ht).1 q h
  · rw [h]; exact (h5 t ht).2.2

theorem good_symName {d : AutDesc} (hwf : d.WellFormed) {t : List String × String × String} (ht : t ∈ d.trans) :
    goodName t.2.1.toList = true := ((AutDesc.wellFormed_iff d).mp hwf).2.2.2.2 t ht |>.2.1

/-- the symbols of the rules of the two loaded automata have good names in the final alphabet -/
theorem loaded_symNames (d₁ d₂ : AutDesc) (yd : SymDict) (hyd : yd.Ok) (w₁ : d₁.WellFormed) (w₂ : d₂.WellFormed) :
    (∀ r, r ∈ (L1 d₁ yd).1.rules → goodName (symNameOf (L2 d₁ d₂ yd).2.yd r.sym).toList = true) ∧
    (∀ r, r ∈ (L2 d₁ d₂ yd).1.rules → goodName (symNameOf (L2 d₁ d₂ yd).2.yd r.sym).toList = true) := by
  have l := loaded d₁ d₂ yd hyd
  constructor
  · intro r hr
    obtain ⟨t, ht, e⟩ := loadFrom_symNames ⟨[], 0, yd⟩ (init_ok hyd) d₁ r hr
    obtain ⟨nm, hnm⟩ := l.dA.ranked r hr
    rw [symNameOf_sub l.yd₁ l.yd₂ l.sub hnm]
    show goodName (symNameOf (loadFrom ⟨[], 0, yd⟩ d₁).2.yd r.sym).toList = true
    rw [e]; exact good_symName w₁ ht
  · intro r hr
    obtain ⟨t, ht, e⟩ := loadFrom_symNames ⟨[], 0, (L1 d₁ yd).2.yd⟩ (init_ok l.yd₁) d₂ r hr
    show goodName (symNameOf (loadFrom ⟨[], 0, (L1 d₁ yd).2.yd⟩ d₂).2.yd r.sym).toList = true
    rw [e]; exact good_symName w₂ ht

theorem printed_dumpTA (A : TA) (sd : Vata.StateDict) (yd : SymDict) : printed (dumpTA A sd yd) = dumpString A sd yd := by
  unfold printed dumpString
  cases dumpTA A sd yd <;> rfl

/-! ### `vata union` -/

/-- **`vata union`**: for well-formed operand descriptions the program prints a text; that text, loaded again (fresh state
dictionary, the alphabet as the run left it), is an automaton that accepts exactly `L(A) ∪ L(B)` -/
theorem cliUnionFrom_lang (d₁ d₂ : AutDesc) (yd : SymDict) (hyd : yd.Ok) (w₁ : d₁.WellFormed) (w₂ : d₂.WellFormed) :
    ∃ A sd₁ yd₁ B sd₂ yd₂ txt, loadTA d₁ [] yd = .ok (A, sd₁, yd₁) ∧ loadTA d₂ [] yd₁ = .ok (B, sd₂, yd₂) ∧
      printed (cliUnionDesc d₁ d₂ yd) = .ok txt ∧
      ∃ A' sd' yd', loadString txt [] yd₂ = .ok (A', sd', yd') ∧ ∀ t, accepts A' t = (accepts A t || accepts B t) := by
  have l := loaded d₁ d₂ yd hyd
  obtain ⟨hD, hN⟩ := unionU_dumpable d₁ d₂ yd hyd
  obtain ⟨sA, sB⟩ := loaded_symNames d₁ d₂ yd hyd w₁ w₂
  have hwf : (dumpOf ((unionU d₁ d₂ yd).1.final.map (nameOf (unionSd d₁ d₂ yd)))
      ((unionU d₁ d₂ yd).1.rules.map (namedRule (unionSd d₁ d₂ yd) (L2 d₁ d₂ yd).2.yd))).WellFormed := by
    apply dump_wellFormed
    · intro q hq
      rcases hN q hq with ⟨k, hk, e⟩ | ⟨k, hk, e⟩
      · rw [e, String.toList_ofList, goodS_iff]
        exact good_name1 ((goodS_iff _).mp (good_stateName w₁ ((l.keys₁ k).mp hk)))
      · rw [e, String.toList_ofList, goodS_iff]
        exact good_name2 ((goodS_iff _).mp (good_stateName w₂ ((l.keys₂ k).mp hk)))
    · intro r hr
      have hU : (unionU d₁ d₂ yd).1 = unionWith (applyMap (unionU d₁ d₂ yd).2.1) (applyMap (unionU d₁ d₂ yd).2.2)
          (L1 d₁ yd).1 (L2 d₁ d₂ yd).1 := rfl
      rw [hU] at hr
      simp only [unionWith, reindex, List.mem_append, List.mem_map] at hr
      rcases hr with ⟨r0, hr0, rfl⟩ | ⟨r0, hr0, rfl⟩
      · exact sA r0 hr0
      · exact sB r0 hr0
  obtain ⟨txt, A', sd', yd', h1, h2, h3⟩ := dump_reload_text_lang _ _ _ l.yd₂ hD hwf
  refine ⟨_, _, _, _, _, _, txt, rfl, rfl, by rw [cliUnionDesc_eq, printed_dumpTA]; exact h1, A', sd', yd', h2, ?_⟩
  intro t
  rw [h3 t]
  exact unionModel_lang_empty _ _ t

/-! ### `vata isect` -/

/-- **`vata isect`**: for well-formed operand descriptions the program prints a text; that text, loaded again, is an automaton
that accepts exactly `L(A) ∩ L(B)` -/
theorem cliIsectFrom_lang (d₁ d₂ : AutDesc) (yd : SymDict) (hyd : yd.Ok) (w₁ : d₁.WellFormed) (w₂ : d₂.WellFormed) :
    ∃ A sd₁ yd₁ B sd₂ yd₂ txt, loadTA d₁ [] yd = .ok (A, sd₁, yd₁) ∧ loadTA d₂ [] yd₁ = .ok (B, sd₂, yd₂) ∧
      printed (cliIsectDesc d₁ d₂ yd) = .ok txt ∧
      ∃ A' sd' yd', loadString txt [] yd₂ = .ok (A', sd', yd') ∧ ∀ t, accepts A' t = (accepts A t && accepts B t) := by
  have l := loaded d₁ d₂ yd hyd
  obtain ⟨P, pm, dict, hP, _, he, hD, hN, hl⟩ := cliIsect_parts d₁ d₂ yd hyd
  obtain ⟨sA, _⟩ := loaded_symNames d₁ d₂ yd hyd w₁ w₂
  have hwf : (dumpOf (P.final.map (nameOf (ofGlue dict)))
      (P.rules.map (namedRule (ofGlue dict) (L2 d₁ d₂ yd).2.yd))).WellFormed := by
    apply dump_wellFormed
    · intro q hq
      obtain ⟨k₁, hk₁, k₂, hk₂, i, e⟩ := hN q hq
      rw [e, String.toList_ofList, goodS_iff]
      exact good_primes (good_prodName ((goodS_iff _).mp (good_stateName w₁ ((l.keys₁ k₁).mp hk₁)))
        ((goodS_iff _).mp (good_stateName w₂ ((l.keys₂ k₂).mp hk₂)))) i
    · intro ρ hρ
      obtain ⟨_, _, _, hr, _⟩ := Isx.isectTD_spec (fuel := isectFuel _ _) hP
      have := (hr ρ).mp hρ
      simp only [prodOn] at this
      obtain ⟨r, hr1, r', _, _, _, _, rfl⟩ := mem_prodRules.mp this
      exact sA r hr1
  obtain ⟨txt, A', sd', yd', h1, h2, h3⟩ := dump_reload_text_lang _ _ _ l.yd₂ hD hwf
  refine ⟨_, _, _, _, _, _, txt, rfl, rfl, by rw [he, printed_dumpTA]; exact h1, A', sd', yd', h2, ?_⟩
  intro t
  rw [h3 t, hl t]
  rfl

end Vata.CliPipe
