import Vata.Proofs.TimbukNorm
import Vata.Proofs.TimbukLayoutFile
/-!
# Normal forms of descriptions: idempotence, exact round trip, permutations, parse results (property C13)

With `norm_idem` / `norm_congr` (`TimbukNorm.lean`):

* `roundTrip_eq_normalize`: what `parseC (serializeC d)` returns is `d.normalize`;
* `serializeC_normalize`: `serializeC d.normalize = serializeC d` – the serializer is blind to order, duplicates and to
  `anonymous` for the empty name; hence `serializeC ∘ parseC ∘ serializeC = serializeC`;
* `normalize_of_sorted`: a named description in `std::set` order is its own normal form;
* `parseC_sorted`: EVERY result of the parser (any text) is in `std::set` order – the invariant of the line loop;
* `Layout.result_congr`, `parseC_layout_sameSet`: layouts of two descriptions with the same name and the same SETS in
  each section parse alike; `Layout.withTls` / `Layout.withHdr`: replacing the transition lines / the header lines of a layout.
-/
namespace Vata.Timbuk

/-! ## `normalize`, `roundTrip`, `serTokens` -/

theorem serTokens_eq_normalize (d : Desc) : serTokens d = d.normalize := rfl

/-- the parser's answer on the serializer's text is the normal form -/
theorem roundTrip_eq_normalize (d : Desc) : roundTrip d = d.normalize := by
  simp only [roundTrip, Desc.normalize, norm_idem ltSym_strictTotal, norm_idem ltStr_strictTotal,
    norm_idem ltTrans_strictTotal]

theorem normalize_name_nonempty (d : Desc) : d.normalize.name.isEmpty = false := by
  show (if d.name.isEmpty then kwAnonymous else d.name).isEmpty = false
  split
  · rfl
  · rename_i h; simpa using h

theorem normalize_idem (d : Desc) : d.normalize.normalize = d.normalize := by
  have hn := normalize_name_nonempty d
  show Desc.mk _ _ _ _ _ = _
  simp only [hn]
  simp only [Desc.normalize, norm_idem ltSym_strictTotal, norm_idem ltStr_strictTotal,
    norm_idem ltTrans_strictTotal]
  simp

/-- the serializer does not see the difference between a description and its normal form -/
theorem serializeC_normalize (d : Desc) : serializeC d.normalize = serializeC d := by
  have h1 : lineOps d.normalize = lineOps d := by
    simp only [lineOps, Desc.normalize, norm_idem ltSym_strictTotal]
  have h2 : lineAut d.normalize = lineAut d := by
    have hn := normalize_name_nonempty d
    simp only [lineAut, hn]
    rfl
  have h3 : lineStates d.normalize = lineStates d := by
    simp only [lineStates, Desc.normalize, norm_idem ltStr_strictTotal]
  have h4 : lineFinal d.normalize = lineFinal d := by
    simp only [lineFinal, Desc.normalize, norm_idem ltStr_strictTotal]
  have h5 : norm ltTrans d.normalize.trans = norm ltTrans d.trans := norm_idem ltTrans_strictTotal _
  simp only [serializeC, h1, h2, h3, h4, h5]

/-- the serializer sees the SETS only (and the name) -/
theorem serializeC_congr {d d' : Desc} (hname : d.name = d'.name) (hsym : ∀ x, x ∈ d.symbols ↔ x ∈ d'.symbols)
    (hst : ∀ x, x ∈ d.states ↔ x ∈ d'.states) (hfin : ∀ x, x ∈ d.final ↔ x ∈ d'.final)
    (htr : ∀ x, x ∈ d.trans ↔ x ∈ d'.trans) : serializeC d = serializeC d' := by
  simp only [serializeC, lineOps, lineAut, lineStates, lineFinal, hname, norm_congr ltSym_strictTotal hsym,
    norm_congr ltStr_strictTotal hst, norm_congr ltStr_strictTotal hfin, norm_congr ltTrans_strictTotal htr]

/-- `serializeC ∘ parseC ∘ serializeC = serializeC` -/
theorem serialize_parse_serializeC (d : Desc) (h : WF d) :
    ∃ d', parseC (serializeC d) = .ok d' ∧ serializeC d' = serializeC d :=
  ⟨roundTrip d, parseC_serializeC d h, by rw [roundTrip_eq_normalize, serializeC_normalize]⟩

theorem Desc.sortedB_iff (d : Desc) : d.sortedB = true ↔
    Sorted ltSym d.symbols ∧ Sorted ltStr d.states ∧ Sorted ltStr d.final ∧ Sorted ltTrans d.trans := by
  simp only [Desc.sortedB, Bool.and_eq_true, Timbuk.sortedB_iff ltSym_strictTotal,
    Timbuk.sortedB_iff ltStr_strictTotal, Timbuk.sortedB_iff ltTrans_strictTotal, and_assoc]

/-- a named description in `std::set` order is its own normal form -/
theorem normalize_of_sorted {d : Desc} (hs : d.sortedB = true) (hn : d.name ≠ []) : d.normalize = d := by
  obtain ⟨h1, h2, h3, h4⟩ := (Desc.sortedB_iff d).mp hs
  have : d.name.isEmpty = false := by simpa using hn
  simp only [Desc.normalize, this, norm_of_sorted ltSym_strictTotal h1, norm_of_sorted ltStr_strictTotal h2,
    norm_of_sorted ltStr_strictTotal h3, norm_of_sorted ltTrans_strictTotal h4]
  simp

theorem normalize_sorted (d : Desc) : d.normalize.sortedB = true :=
  (Desc.sortedB_iff _).mpr ⟨norm_sorted ltSym_strictTotal _, norm_sorted ltStr_strictTotal _,
    norm_sorted ltStr_strictTotal _, norm_sorted ltTrans_strictTotal _⟩

/-- conversely: a fixed point of `normalize` is in `std::set` order and named -/
theorem sorted_of_normalize_eq {d : Desc} (h : d.normalize = d) : d.sortedB = true ∧ d.name ≠ [] := by
  refine ⟨by rw [← h]; exact normalize_sorted d, ?_⟩
  have := normalize_name_nonempty d
  rw [h] at this
  simpa using this

/-! ## every parse result is in `std::set` order -/

/-- the invariant of the line loop: the four containers are (lists of) `std::set`s -/
def PState.SortedInv (st : PState) : Prop :=
  Sorted ltSym st.d.symbols ∧ Sorted ltStr st.d.states ∧ Sorted ltStr st.d.final ∧ Sorted ltTrans st.d.trans

theorem PState.sortedInv_init : ({} : PState).SortedInv :=
  ⟨sorted_nil _, sorted_nil _, sorted_nil _, sorted_nil _⟩

theorem addTrans_sortedInv {st : PState} (h : st.SortedInv) (t : Trans) : (addTrans st t).SortedInv :=
  ⟨h.1, h.2.1, h.2.2.1, sorted_setInsert ltTrans_strictTotal t h.2.2.2⟩

theorem stepHeader_sortedInv {st st' : PState} {line str : Str} (h : stepHeader st line str = .ok st')
    (hs : st.SortedInv) : st'.SortedInv := by
  obtain ⟨h1, h2, h3, h4⟩ := hs
  unfold stepHeader at h
  simp only at h
  repeat' (split at h)
  all_goals first
    | (cases h; done)
    | (injection h with h; subst h
       first
         | exact ⟨h1, h2, h3, h4⟩
         | exact ⟨sorted_setInsertAll ltSym_strictTotal _ h1, h2, h3, h4⟩
         | exact ⟨h1, sorted_setInsertAll ltStr_strictTotal _ h2, h3, h4⟩
         | exact ⟨h1, h2, sorted_setInsertAll ltStr_strictTotal _ h3, h4⟩)

theorem stepLhs_addTrans {st st' : PState} {line lhs rhs : Str} (h : stepLhs st line lhs rhs = .ok st') :
    ∃ t, st' = addTrans st t := by
  unfold stepLhs at h
  simp only at h
  repeat' (split at h)
  all_goals first
    | (cases h; done)
    | (injection h with h; exact ⟨_, h.symm⟩)

theorem stepTrans_addTrans {st st' : PState} {line str : Str} (h : stepTrans st line str = .ok st') :
    ∃ t, st' = addTrans st t := by
  unfold stepTrans at h
  simp only at h
  repeat' (split at h)
  all_goals first
    | (cases h; done)
    | exact stepLhs_addTrans h

theorem parseLines_sortedInv : ∀ (ls : List Str) {st st' : PState}, parseLines st ls = .ok st' → st.SortedInv →
    st'.SortedInv
  | [], st, st', h, hs => by
    simp only [parseLines] at h
    injection h with h; subst h; exact hs
  | line :: ls, st, st', h, hs => by
    rw [parseLines] at h
    split at h
    · exact parseLines_sortedInv ls h hs
    · split at h
      · cases h
      · rename_i st1 hst1
        refine parseLines_sortedInv ls h ?_
        by_cases ht : st.areTrans = true
        · rw [if_pos ht] at hst1
          obtain ⟨t, rfl⟩ := stepTrans_addTrans hst1
          exact addTrans_sortedInv hs t
        · rw [if_neg ht] at hst1
          exact stepHeader_sortedInv hst1 hs

/-- **every description that `parse_timbuk` returns is in `std::set` order**, whatever the text -/
theorem parseC_sorted {s : Str} {d : Desc} (h : parseC s = .ok d) : d.sortedB = true := by
  unfold parseC at h
  split at h
  · cases h
  · rename_i st hst
    split at h
    · injection h with h; subst h
      exact (Desc.sortedB_iff _).mpr (parseLines_sortedInv _ hst PState.sortedInv_init)
    · cases h

/-! ## layouts of descriptions that differ in order and multiplicity only -/

/-- the same name, the same sets -/
structure Desc.SameSets (d d' : Desc) : Prop where
  name : d.name = d'.name
  symbols : ∀ x, x ∈ d.symbols ↔ x ∈ d'.symbols
  states : ∀ x, x ∈ d.states ↔ x ∈ d'.states
  final : ∀ x, x ∈ d.final ↔ x ∈ d'.final
  trans : ∀ x, x ∈ d.trans ↔ x ∈ d'.trans

/-- the same name, every list a permutation of the other -/
structure Desc.PermOf (d d' : Desc) : Prop where
  name : d.name = d'.name
  symbols : d.symbols.Perm d'.symbols
  states : d.states.Perm d'.states
  final : d.final.Perm d'.final
  trans : d.trans.Perm d'.trans

theorem Desc.PermOf.sameSets {d d' : Desc} (h : d.PermOf d') : d.SameSets d' :=
  ⟨h.name, fun _ => h.symbols.mem_iff, fun _ => h.states.mem_iff, fun _ => h.final.mem_iff, fun _ => h.trans.mem_iff⟩

theorem sameSet_of_sameSetB {α : Type} [DecidableEq α] {l l' : List α} (h : sameSetB l l' = true) :
    ∀ x, x ∈ l ↔ x ∈ l' := by
  simp only [sameSetB, Bool.and_eq_true, List.all_eq_true, List.contains_eq_mem, decide_eq_true_eq] at h
  exact fun x => ⟨h.1 x, h.2 x⟩

theorem Desc.sameSets_of_sameSetsB {d d' : Desc} (h : d.sameSetsB d' = true) : d.SameSets d' := by
  simp only [Desc.sameSetsB, Bool.and_eq_true, decide_eq_true_eq] at h
  obtain ⟨⟨⟨⟨h1, h2⟩, h3⟩, h4⟩, h5⟩ := h
  exact ⟨h1, sameSet_of_sameSetB h2, sameSet_of_sameSetB h3, sameSet_of_sameSetB h4, sameSet_of_sameSetB h5⟩

theorem Desc.SameSets.wf {d d' : Desc} (h : d.SameSets d') (hw : WF d) : WF d' where
  name := h.name ▸ hw.name
  symbols := fun p hp => hw.symbols p ((h.symbols p).mpr hp)
  states := fun p hp => hw.states p ((h.states p).mpr hp)
  final := fun p hp => hw.final p ((h.final p).mpr hp)
  trans := fun p hp => hw.trans p ((h.trans p).mpr hp)

theorem Layout.result_congr {d d' : Desc} (h : d.SameSets d') {F F' : Layout}
    (hk : ∀ k, k ∈ F.kinds ↔ k ∈ F'.kinds) : F.result d = F'.result d' := by
  simp only [Layout.result, hk, h.name, norm_congr ltSym_strictTotal h.symbols, norm_congr ltStr_strictTotal h.states,
    norm_congr ltStr_strictTotal h.final, norm_congr ltTrans_strictTotal h.trans]

/-- two layouts (with the same sections) of two descriptions with the same name and the same sets parse alike -/
theorem parseC_layout_sameSet {d d' : Desc} (hw : WF d) (h : d.SameSets d') {F F' : Layout} (hF : F.Ok d)
    (hF' : F'.Ok d') (hk : ∀ k, k ∈ F.kinds ↔ k ∈ F'.kinds) : parseC F.text = parseC F'.text := by
  rw [parseC_layout d hw F hF, parseC_layout d' (h.wf hw) F' hF', Layout.result_congr h hk]

/-! ### replacing the transition lines of a layout -/

theorem secWords_trans_irrelevant (d : Desc) (ts : List Trans) (k : HKind) :
    secWords { d with trans := ts } k = secWords d k := by
  cases k <;> rfl

theorem HLine.ok_trans_irrelevant {l : HLine} {d : Desc} (h : l.Ok d) (ts : List Trans) :
    l.Ok { d with trans := ts } :=
  ⟨h.pre, h.post, h.gaps, by rw [secWords_trans_irrelevant]; exact h.words⟩

/-- the layout with other transition lines -/
def Layout.withTls (F : Layout) (tls : List (List Str × TLine)) : Layout := { F with tls := tls }

theorem Layout.withTls_ok {F : Layout} {d : Desc} (hF : F.Ok d) {tls : List (List Str × TLine)}
    (htls : ∀ p ∈ tls, (∀ b ∈ p.1, Blank b) ∧ p.2.Ok) :
    (F.withTls tls).Ok { d with trans := tls.map (·.2.trans) } :=
  ⟨fun p hp => ⟨(hF.hdr p hp).1, HLine.ok_trans_irrelevant (hF.hdr p hp).2 _⟩, hF.nodup, hF.trBlanks, hF.trPre,
    hF.trPost, htls, hF.endBlanks, rfl⟩

/-- other transition lines that denote the same SET of transitions (any order, any multiplicity, any spelling) give
a text with the same parse result -/
theorem parseC_withTls {d : Desc} (hw : WF d) {F : Layout} (hF : F.Ok d) {tls : List (List Str × TLine)}
    (htls : ∀ p ∈ tls, (∀ b ∈ p.1, Blank b) ∧ p.2.Ok)
    (hset : ∀ t, t ∈ tls.map (·.2.trans) ↔ t ∈ F.tls.map (·.2.trans)) :
    parseC (F.withTls tls).text = parseC F.text := by
  have hs : d.SameSets { d with trans := tls.map (·.2.trans) } :=
    ⟨rfl, fun _ => Iff.rfl, fun _ => Iff.rfl, fun _ => Iff.rfl, fun t => by rw [← hF.trans]; exact (hset t).symm⟩
  exact (parseC_layout_sameSet hw hs hF (Layout.withTls_ok hF htls) (fun _ => Iff.rfl)).symm

/-! ### replacing the header lines of a layout -/

/-- the layout with other header lines -/
def Layout.withHdr (F : Layout) (hdr : List (List Str × HLine)) : Layout := { F with hdr := hdr }

/-- `d` with other lists for the three word sections -/
def Desc.withSections (d : Desc) (syms : List (Str × Int)) (sts fin : List Str) : Desc :=
  { d with symbols := syms, states := sts, final := fin }

/-- other header lines – the same sections in any order, with any white space – whose `Ops` / `States` / `Final States`
words are taken from lists `syms`, `sts`, `fin` with the same SETS as the sections of `d` (any order, any multiplicity)
give a text with the same parse result -/
theorem parseC_withHdr {d : Desc} (hw : WF d) {F : Layout} (hF : F.Ok d) {syms : List (Str × Int)} {sts fin : List Str}
    (h1 : ∀ x, x ∈ syms ↔ x ∈ d.symbols) (h2 : ∀ x, x ∈ sts ↔ x ∈ d.states) (h3 : ∀ x, x ∈ fin ↔ x ∈ d.final)
    {hdr : List (List Str × HLine)}
    (hok : ∀ p ∈ hdr, (∀ b ∈ p.1, Blank b) ∧ p.2.Ok (d.withSections syms sts fin))
    (hnd : (hdr.map (·.2.kind)).Nodup) (hk : ∀ k, k ∈ hdr.map (·.2.kind) ↔ k ∈ F.kinds) :
    parseC (F.withHdr hdr).text = parseC F.text := by
  have hs : d.SameSets (d.withSections syms sts fin) :=
    ⟨rfl, fun x => (h1 x).symm, fun x => (h2 x).symm, fun x => (h3 x).symm, fun _ => Iff.rfl⟩
  have hF' : (F.withHdr hdr).Ok (d.withSections syms sts fin) :=
    ⟨hok, hnd, hF.trBlanks, hF.trPre, hF.trPost, hF.tls, hF.endBlanks, hF.trans⟩
  exact (parseC_layout_sameSet hw hs hF hF' (fun k => (hk k).symm)).symm

end Vata.Timbuk

/-! ## `String` level conversions -/
namespace Vata
open Timbuk

theorem Timbuk.ofS_toS (d : Desc) : ofS d.toS = d := by
  cases d
  simp [ofS, Desc.toS, Function.comp_def]

theorem Timbuk.toS_ofS (d : AutDesc) : (ofS d).toS = d := by
  cases d
  simp [ofS, Desc.toS, Function.comp_def]

end Vata
