import Vata.Proofs.NfaCliPipeline
/-!
# Proofs about the command-line pipeline for word automata, part 2: `vata -r expl_fa isect`
-/
namespace Vata.NfaCli
open Vata.CliPipe Vata.NfaLD Vata.Dict Vata.LoadDump Vata.Glue Vata.NfaS Vata.W

/-- every pair consists of a state of `A` and a state of `B` -/
def PairsOk (A B : NFA) (D : List (Nat × Nat)) : Prop := ∀ p, p ∈ D → p.1 ∈ nfaStates A ∧ p.2 ∈ nfaStates B

theorem nfaPairIter_states (A B : NFA) : ∀ (n : Nat) (D : List (Nat × Nat)), PairsOk A B D →
    PairsOk A B (nfaPairIter A B n D)
  | 0, D, h => h
  | n + 1, D, h => by
    unfold nfaPairIter
    split
    · exact h
    · apply nfaPairIter_states A B n
      intro p hp
      rcases List.mem_append.mp hp with hp | hp
      · exact h p hp
      · have hp' := (List.mem_filter.mp (List.mem_eraseDups.mp hp)).1
        obtain ⟨p0, _, a, h1, h2⟩ := mem_nfaPairSucc.mp hp'
        exact ⟨tgt_mem_nfaStates h1, tgt_mem_nfaStates h2⟩

theorem nfaProdPairs_states (A B : NFAS) : PairsOk A.toNFA B.toNFA (nfaProdPairs A B) := by
  apply nfaPairIter_states
  intro p hp
  have := mem_nfaStartPairs.mp (List.mem_eraseDups.mp hp)
  exact ⟨start_mem_nfaStates this.1, start_mem_nfaStates this.2⟩

/-- `Intersection` is the trimmed product on the discovered pairs, which are closed under joint successors -/
theorem nfasIsect_eq (A B : NFAS) :
    nfasIsect A B = nfasRemoveUseless (nfasProdOn A B (nfaProdPairs A B) (fun p => (nfaProdPairs A B).idxOf p)) ∧
    NfaPairClosed A.toNFA B.toNFA (nfaProdPairs A B) ∧
    nfasIntersection A B (nfaJointAll A.toNFA B.toNFA).length = some (nfasIsect A B) := by
  obtain ⟨P, hP⟩ := nfasIntersection_isSome A B
  have hP' := hP
  simp only [nfasIntersection] at hP
  split at hP
  · rename_i hc
    cases hP
    refine ⟨?_, nfaPairClosedB_iff.mp hc, ?_⟩
    · unfold nfasIsect; rw [hP']; rfl
    · unfold nfasIsect; rw [hP']; rfl
  · cases hP

/-- every state of the result is the number of a discovered pair -/
theorem nfasIsect_states (A B : NFAS) {q : Nat} (hq : q ∈ nfaStates (nfasIsect A B).toNFA) :
    ∃ p, p ∈ nfaProdPairs A B ∧ q = (nfaProdPairs A B).idxOf p := by
  obtain ⟨e, hcl, _⟩ := nfasIsect_eq A B
  rw [e] at hq
  have hstart : ∀ p, p ∈ nfaStartPairs A.toNFA B.toNFA → p ∈ nfaProdPairs A B :=
    fun p hp => sub_nfaPairIter _ _ _ _ p (List.mem_eraseDups.mpr hp)
  rcases mem_nfaStates.mp hq with h | h | ⟨e', he', h⟩
  · have h1 := ((mem_nfaRemoveUseless_start _ q).mp h).1
    obtain ⟨p, hp, rfl⟩ := List.mem_map.mp (show q ∈ (nfaStartPairs A.toNFA B.toNFA).map _ from h1)
    exact ⟨p, hstart p hp, rfl⟩
  · have h1 := ((mem_nfaRemoveUseless_final _ q).mp h).1
    obtain ⟨p, hp, _, _, rfl⟩ := mem_nfaProdOn_final.mp h1
    exact ⟨p, hp, rfl⟩
  · have h1 := ((mem_nfaRemoveUseless_trans _ e'.1 e'.2.1 e'.2.2).mp he').1
    obtain ⟨p, hp, q', hA, hB, e1, e2⟩ := mem_nfaProdOn_trans.mp h1
    rcases h with h | h
    · exact ⟨p, hp, h.trans e1⟩
    · exact ⟨q', hcl p hp _ q' hA hB, h.trans e2⟩

/-- the product dictionary exists and makes the result dumpable, every state under its own name -/
theorem isect_dumpable {A B : NFAS} {sd₁ sd₂ : Vata.StateDict} {yd₁ yd₂ : WSymDict} (hA : Dumpable A sd₁ yd₁)
    (hB : Dumpable B sd₂ yd₂) (hy₁ : yd₁.Ok) (hy₂ : yd₂.Ok) (hsub : Sub yd₁ yd₂) :
    ∃ dict, productDictFixed (toGlue sd₁) (toGlue sd₂) (nfaProdMap A B) = some dict ∧
      Dumpable (nfasIsect A B) (ofGlue dict) yd₂ ∧ NamesInj (nfasIsect A B) (ofGlue dict) := by
  have hsome : (productDictFixed (toGlue sd₁) (toGlue sd₂) (nfaProdMap A B)).isSome = true := by
    rw [productDictFixed_isSome_iff]
    intro e he
    obtain ⟨p, hp, rfl⟩ := List.mem_map.mp he
    obtain ⟨h1, h2⟩ := nfaProdPairs_states A B p hp
    obtain ⟨n1, hn1⟩ := hA.named _ h1
    obtain ⟨n2, hn2⟩ := hB.named _ h2
    exact ⟨⟨n1.toList, by rw [toGlue_bwd_lookup, hn1]; rfl⟩, ⟨n2.toList, by rw [toGlue_bwd_lookup, hn2]; rfl⟩⟩
  obtain ⟨dict, hd⟩ := Option.isSome_iff_exists.mp hsome
  obtain ⟨_, hnamed⟩ := productDictFixed_named hd
  obtain ⟨_, hinj⟩ := productDictFixed_injective hd
  obtain ⟨e, _, hI⟩ := nfasIsect_eq A B
  have hname : ∀ q, q ∈ nfaStates (nfasIsect A B).toNFA → ∃ n, dict.bwd.lookup q = some n := by
    intro q hq
    obtain ⟨p, hp, rfl⟩ := nfasIsect_states A B hq
    exact hnamed (p, (nfaProdPairs A B).idxOf p) (List.mem_map.mpr ⟨p, hp, rfl⟩)
  refine ⟨dict, hd, ⟨?_, ?_, ?_⟩, ?_⟩
  · intro q hq
    obtain ⟨n, hn⟩ := hname q hq
    exact ⟨String.ofList n, by rw [bwd?_ofGlue, hn]; rfl⟩
  · intro e' he'
    rw [e] at he'
    have h1 := ((mem_nfaRemoveUseless_trans _ e'.1 e'.2.1 e'.2.2).mp he').1
    obtain ⟨p, _, q', hAt, _, _, _⟩ := mem_nfaProdOn_trans.mp h1
    obtain ⟨k, hk⟩ := hA.syms _ hAt
    exact ⟨k, bwd?_sub' hy₁ hy₂ hsub hk⟩
  · intro s hs a ha
    obtain ⟨m, _, hm⟩ := nfasIntersection_start_syms A B _ _ hI
    obtain ⟨l, r, hl, hr, _, hsy⟩ := hm s hs
    rw [hsy] at ha
    rcases List.mem_append.mp ha with ha | ha
    · obtain ⟨k, hk⟩ := hA.startSyms l hl a ha
      exact ⟨k, bwd?_sub' hy₁ hy₂ hsub hk⟩
    · exact hB.startSyms r hr a ha
  · intro q q' hq hq' e'
    obtain ⟨n, hn⟩ := hname q hq
    obtain ⟨n', hn'⟩ := hname q' hq'
    rw [bwd?_ofGlue, bwd?_ofGlue, hn, hn'] at e'
    simp only [Option.map_some, Option.some.injEq] at e'
    have := ofList_inj e'
    subst this
    exact hinj q q' n hn hn'

/-- **`vata -r expl_fa isect`, description level**: for word-shaped inputs the pipeline succeeds, and the description handed to
the serializer, loaded again (fresh state dictionary, the alphabet as the run left it), accepts exactly `L(A) ∩ L(B)` -/
theorem cliNfaIsectDesc_lang (rtl : Bool) (d₁ d₂ : AutDesc) (yd : WSymDict) (hyd : yd.Ok) (hw₁ : d₁.WordShaped)
    (hw₂ : d₂.WordShaped) :
    ∃ A sd₁ yd₁ B sd₂ yd₂ out, loadNFA rtl d₁ [] yd = .ok (A, sd₁, yd₁) ∧ loadNFA rtl d₂ [] yd₁ = .ok (B, sd₂, yd₂) ∧
      cliNfaIsectDesc rtl d₁ d₂ yd = .ok out ∧
      ∃ P sd' yd', loadNFA rtl out [] yd₂ = .ok (P, sd', yd') ∧
        ∀ w, acceptsW P.toNFA w = (acceptsW A.toNFA w && acceptsW B.toNFA w) := by
  obtain ⟨A, sd₁, yd₁, B, sd₂, yd₂, l1, l2, lb, _, _, y1, y2, sub, D1, D2⟩ := loadBoth_spec rtl d₁ d₂ yd hyd hw₁ hw₂
  obtain ⟨dict, hd, hD, hI⟩ := isect_dumpable D1 D2 y1 y2 sub
  obtain ⟨out, P, sd', yd', h1, h2, h3, _⟩ := nfa_dump_load_lang rtl _ _ _ y2 hD hI
  refine ⟨A, sd₁, yd₁, B, sd₂, yd₂, out, l1, l2, ?_, P, sd', yd', h2, ?_⟩
  · unfold cliNfaIsectDesc; rw [lb]; simp only; rw [hd]; exact h1
  · intro w
    rw [h3 w]
    exact nfasIsect_lang A B w

end Vata.NfaCli
