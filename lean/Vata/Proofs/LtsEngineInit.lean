import Vata.Proofs.LtsEngineStep
/-!
# The LTS simulation engine: `init` establishes the invariant

Stage by stage: `initBlocks` (a well-formed state whose induced relation is the initial relation), `initRefine` (the
`fastSplit`s make every block uniform w.r.t. the enabled labels), `initPrune` (a block that enables a label is only
related to blocks all of whose states enable it), `initCounters` (counters, remove lists and the queue).
-/
namespace Vata.LE
open Vata.L

/-! ### lists of lists -/

theorem getD_map_nil {α β : Type} (f : List α → List β) (hf : f [] = []) (l : List (List α)) (i : Nat) :
    (l.map f).getD i [] = f (l.getD i []) := by
  simp only [List.getD_eq_getElem?_getD, List.getElem?_map]
  cases l[i]? with
  | none => simp [hf]
  | some x => simp

theorem getD_map_range {β : Type} (f : Nat → List β) (n i : Nat) (hi : i < n) :
    ((List.range n).map f).getD i [] = f i := by
  simp only [List.getD_eq_getElem?_getD, List.getElem?_map, List.getElem?_range hi, Option.map_some,
    Option.getD_some]

theorem disjoint_of_flatten_nodup : ∀ (l : List (List Nat)), l.flatten.Nodup →
    (∀ i j q, q ∈ l.getD i [] → q ∈ l.getD j [] → i = j) ∧ ∀ i, (l.getD i []).Nodup
  | [], _ => ⟨fun i j q h => by simp at h, fun i => by simp⟩
  | b :: l, h => by
    rw [List.flatten_cons] at h
    obtain ⟨hb, hl, hd⟩ := List.nodup_append.mp h
    obtain ⟨ih1, ih2⟩ := disjoint_of_flatten_nodup l hl
    have hsub : ∀ k q, q ∈ l.getD k [] → q ∈ l.flatten := by
      intro k q hq
      by_cases hk : k < l.length
      · exact List.mem_flatten.mpr ⟨_, getD_mem [] l k hk, hq⟩
      · rw [getD_ge _ _ _ (Nat.le_of_not_lt hk)] at hq; cases hq
    constructor
    · intro i j q hi hj
      cases i with
      | zero =>
        cases j with
        | zero => rfl
        | succ j =>
          simp only [List.getD_cons_zero, List.getD_cons_succ] at hi hj
          exact absurd rfl (hd q hi q (hsub j q hj))
      | succ i =>
        cases j with
        | zero =>
          simp only [List.getD_cons_zero, List.getD_cons_succ] at hi hj
          exact absurd rfl (hd q hj q (hsub i q hi))
        | succ j =>
          simp only [List.getD_cons_succ] at hi hj
          rw [ih1 i j q hi hj]
    · intro i
      cases i with
      | zero => simpa using hb
      | succ i => simpa using ih2 i

/-! ### `mkBlockList` -/

theorem mem_mkBlockList (l : List Nat) (q : Nat) : q ∈ mkBlockList l ↔ q ∈ l := by
  unfold mkBlockList
  cases h : l.getLast? with
  | none =>
    rw [List.getLast?_eq_none_iff.mp h]
  | some x =>
    have := dropLast_of_getLast? h
    simp only [List.mem_cons]
    rw [this]
    simp only [List.mem_append, List.mem_cons, List.not_mem_nil, or_false, List.dropLast_concat]
    constructor
    · rintro (h1 | h1)
      · exact Or.inr h1
      · exact Or.inl h1
    · rintro (h1 | h1)
      · exact Or.inr h1
      · exact Or.inl h1

theorem nodup_mkBlockList {l : List Nat} (h : l.Nodup) : (mkBlockList l).Nodup := by
  unfold mkBlockList
  cases hl : l.getLast? with
  | none => exact List.nodup_nil
  | some x =>
    have := dropLast_of_getLast? hl
    rw [this] at h
    obtain ⟨h1, _, h3⟩ := List.nodup_append.mp h
    exact List.nodup_cons.mpr ⟨fun hm => h3 x hm x (by simp) rfl, h1⟩

theorem mkBlockList_nil : mkBlockList [] = [] := rfl

theorem blockOf_map_mkBlockList (part : List (List Nat)) (q : Nat) :
    blockOf (part.map mkBlockList) q = blockOf part q := by
  unfold blockOf
  rw [List.findIdx_map]
  congr 1
  funext b
  simp only [Function.comp]
  rw [Bool.eq_iff_iff]
  simp only [List.contains_iff_mem, mem_mkBlockList]

/-! ### the preconditions -/

/-- what `isPartition` gives -/
theorem isPartition_spec {part : List (List Nat)} {n : Nat} (h : isPartition part n = true) :
    (∀ b, b ∈ part → b ≠ []) ∧ (∀ q, q ∈ part.flatten ↔ q < n) ∧ part.flatten.Nodup := by
  simp only [isPartition, Bool.and_eq_true, List.all_eq_true, Bool.not_eq_true', decide_eq_true_eq,
    List.mem_range, beq_iff_eq] at h
  obtain ⟨⟨h1, h2⟩, h3⟩ := h
  refine ⟨?_, ?_, ?_⟩
  · intro b hb he
    have := h1 b hb
    rw [he] at this
    simp at this
  · intro q
    constructor
    · exact h2 q
    · intro hq
      have := h3 q hq
      exact List.count_pos_iff.mp (by omega)
  · rw [List.nodup_iff_count]
    intro q
    by_cases hq : q < n
    · rw [h3 q hq]; exact Nat.le_refl _
    · have : q ∉ part.flatten := fun hm => hq (h2 q hm)
      rw [List.count_eq_zero.mpr this]; exact Nat.zero_le _

/-! ### stage A: `initBlocks` -/

theorem initBlocks_block (L : LTS) (part : List (List Nat)) (rel : Rel) (i : Nat) :
    (initBlocks L part rel).block i = mkBlockList (part.getD i []) :=
  getD_map_nil mkBlockList mkBlockList_nil part i

theorem initBlocks_row (L : LTS) (part : List (List Nat)) (rel : Rel) (i : Nat) (hi : i < part.length) :
    (initBlocks L part rel).row i = (List.range part.length).filter (fun j => rel.contains (i, j)) :=
  getD_map_range _ _ _ hi

theorem initBlocks_wf {L : LTS} {part : List (List Nat)} {rel : Rel} (hp : isPartition part L.n = true)
    (hc : isConsistent part rel = true) : WF L (initBlocks L part rel) := by
  obtain ⟨hne, hcov, hnd⟩ := isPartition_spec hp
  obtain ⟨hdisj, hnds⟩ := disjoint_of_flatten_nodup part hnd
  have hblock := initBlocks_block L part rel
  have hlen : (initBlocks L part rel).part.length = part.length := by simp [initBlocks]
  have hrowge : ∀ i, part.length ≤ i → (initBlocks L part rel).row i = [] := by
    intro i hi
    exact getD_ge _ _ _ (by simp [initBlocks]; exact hi)
  refine ⟨by simp [initBlocks], by simp [initBlocks], ?_, ?_, ?_, ?_, ?_, ?_, ?_, ?_⟩
  · intro i j q hi hj
    rw [hblock, mem_mkBlockList] at hi hj
    exact hdisj i j q hi hj
  · intro i; rw [hblock]; exact nodup_mkBlockList (hnds i)
  · intro q
    rw [← hcov q, List.mem_flatten]
    constructor
    · rintro ⟨b, hb, hq⟩
      obtain ⟨i, hi, he⟩ := (mem_iff_getD [] part b).mp hb
      exact ⟨i, by rw [hblock, mem_mkBlockList, he]; exact hq⟩
    · rintro ⟨i, hi⟩
      rw [hblock, mem_mkBlockList] at hi
      have hil : i < part.length := by
        refine Classical.byContradiction fun hn => ?_
        rw [getD_ge _ _ _ (Nat.le_of_not_lt hn)] at hi; cases hi
      exact ⟨_, getD_mem [] part i hil, hi⟩
  · intro i hi
    rw [hlen] at hi
    rw [hblock]
    have := hne _ (getD_mem [] part i hi)
    obtain ⟨x, hx⟩ := List.exists_mem_of_ne_nil _ this
    intro he
    have := (mem_mkBlockList _ x).mpr hx
    rw [he] at this; cases this
  · intro i j hj
    rw [hlen]
    by_cases hi : i < part.length
    · rw [initBlocks_row L part rel i hi] at hj
      exact List.mem_range.mp (List.mem_filter.mp hj).1
    · rw [hrowge i (Nat.le_of_not_lt hi)] at hj; cases hj
  · intro i hi
    rw [hlen] at hi
    rw [initBlocks_row L part rel i hi]
    refine List.mem_filter.mpr ⟨List.mem_range.mpr hi, ?_⟩
    simp only [isConsistent, List.all_eq_true, List.mem_range] at hc
    exact hc i hi
  · intro i hi
    have : (initBlocks L part rel).inset.getD i [] = mkInset L ((initBlocks L part rel).block i) :=
      getD_map_nil (mkInset L) rfl _ i
    rw [this]
    exact insFor_mkInset L _
  · intro i
    by_cases hi : i < part.length
    · rw [initBlocks_row L part rel i hi]; exact nodup_filter _ List.nodup_range
    · rw [hrowge i (Nat.le_of_not_lt hi)]; exact List.nodup_nil

/-- the induced relation of the first state is the relation given on the blocks -/
theorem initBlocks_R {L : LTS} {part : List (List Nat)} {rel : Rel} (hp : isPartition part L.n = true)
    (hc : isConsistent part rel = true) {x y : Nat} (hx : x < L.n) (hy : y < L.n) :
    (initBlocks L part rel).R x y ↔ (blockOf part x, blockOf part y) ∈ rel := by
  have w := initBlocks_wf (L := L) hp hc
  have hlen : (initBlocks L part rel).part.length = part.length := by simp [initBlocks]
  have hbo : ∀ q, blockOf (initBlocks L part rel).part q = blockOf part q := blockOf_map_mkBlockList part
  obtain ⟨hxl, _⟩ := w.blockOf_mem hx
  obtain ⟨hyl, _⟩ := w.blockOf_mem hy
  rw [hlen, hbo] at hxl hyl
  show blockOf (initBlocks L part rel).part y ∈ (initBlocks L part rel).row (blockOf (initBlocks L part rel).part x) ↔ _
  rw [hbo, hbo, initBlocks_row L part rel _ hxl, List.mem_filter, List.mem_range]
  simp only [List.contains_iff_mem]
  exact ⟨fun h => h.2, fun h => ⟨hyl, h⟩⟩

/-! ### stage B: `initRefine` -/

/-- all states of a block enable label `a`, or none does -/
def Uniform (L : LTS) (e : Eng) (a : Nat) : Prop :=
  ∀ i, i < e.part.length → (∀ q, q ∈ e.block i → hasOut L a q = true) ∨ (∀ q, q ∈ e.block i → hasOut L a q = false)

theorem Uniform.refine {L : LTS} {e0 e1 : Eng} {par : Nat → Nat} {a : Nat} (u : Uniform L e0 a)
    (r : RefineS L e0 e1 par) : Uniform L e1 a := by
  intro i hi
  rcases u (par i) (r.hpar i hi) with h | h
  · exact Or.inl (fun q hq => h q (r.hsub i q hq))
  · exact Or.inr (fun q hq => h q (r.hsub i q hq))

theorem nodup_delta1 (L : LTS) (a : Nat) : (delta1 L a).Nodup := nodup_filter _ List.nodup_range

theorem fastSplit_uniform {L : LTS} {e0 : Eng} (w0 : WF L e0) (a : Nat) :
    ∃ par, WF L (fastSplit L e0 (delta1 L a)) ∧ RefineS L e0 (fastSplit L e0 (delta1 L a)) par ∧
      Uniform L (fastSplit L e0 (delta1 L a)) a ∧
      (fastSplit L e0 (delta1 L a)).cnt = e0.cnt ∧ (fastSplit L e0 (delta1 L a)).rem = e0.rem ∧
      (fastSplit L e0 (delta1 L a)).queue = e0.queue ∧ (fastSplit L e0 (delta1 L a)).nextId = e0.nextId := by
  obtain ⟨par, w, r, hu, h1, h2, h3, h4⟩ := fastSplit_spec w0 (fun q hq => ((mem_delta1 L a q).mp hq).1)
    (nodup_delta1 L a)
  refine ⟨par, w, r, ?_, h1, h2, h3, h4⟩
  intro i hi
  rcases hu i hi with h | h
  · exact Or.inl (fun q hq => ((mem_delta1 L a q).mp (h q hq)).2)
  · refine Or.inr (fun q hq => ?_)
    cases hc : hasOut L a q with
    | false => rfl
    | true => exact absurd ((mem_delta1 L a q).mpr ⟨w.lt_of_mem hq, hc⟩) (h q hq)

theorem initRefine_fold {L : LTS} : ∀ (as : List Nat) (e0 : Eng), WF L e0 →
    ∃ par, WF L (as.foldl (fun e a => fastSplit L e (delta1 L a)) e0) ∧
      RefineS L e0 (as.foldl (fun e a => fastSplit L e (delta1 L a)) e0) par ∧
      (∀ a, a ∈ as → Uniform L (as.foldl (fun e a => fastSplit L e (delta1 L a)) e0) a) ∧
      (as.foldl (fun e a => fastSplit L e (delta1 L a)) e0).cnt = e0.cnt ∧
      (as.foldl (fun e a => fastSplit L e (delta1 L a)) e0).rem = e0.rem ∧
      (as.foldl (fun e a => fastSplit L e (delta1 L a)) e0).queue = e0.queue ∧
      (as.foldl (fun e a => fastSplit L e (delta1 L a)) e0).nextId = e0.nextId
  | [], e0, w0 => ⟨id, w0, RefineS.refl L e0, fun _ h => (by cases h), rfl, rfl, rfl, rfl⟩
  | a :: as, e0, w0 => by
    obtain ⟨p1, w1, r1, u1, c1, m1, q1, n1⟩ := fastSplit_uniform w0 a
    obtain ⟨p2, w2, r2, u2, c2, m2, q2, n2⟩ := initRefine_fold as (fastSplit L e0 (delta1 L a)) w1
    refine ⟨p1 ∘ p2, w2, r1.trans r2, ?_, c2.trans c1, m2.trans m1, q2.trans q1, n2.trans n1⟩
    intro a' ha'
    rcases List.mem_cons.mp ha' with h | h
    · rw [h]; exact u1.refine r2
    · exact u2 a' h

theorem initRefine_spec {L : LTS} {e0 : Eng} (w0 : WF L e0) :
    ∃ par, WF L (initRefine L e0) ∧ RefineS L e0 (initRefine L e0) par ∧ (∀ a, Uniform L (initRefine L e0) a) ∧
      (initRefine L e0).cnt = e0.cnt ∧ (initRefine L e0).rem = e0.rem ∧ (initRefine L e0).queue = e0.queue ∧
      (initRefine L e0).nextId = e0.nextId := by
  obtain ⟨par, w, r, u, h⟩ := initRefine_fold (List.range (labels L)) e0 w0
  refine ⟨par, w, r, ?_, h⟩
  intro a
  by_cases ha : a < labels L
  · exact u a (List.mem_range.mpr ha)
  · intro i _
    refine Or.inr (fun q _ => ?_)
    cases hc : hasOut L a q with
    | false => rfl
    | true =>
      obtain ⟨r', hr'⟩ := (hasOut_iff L a q).mp hc
      exact absurd (label_lt L hr') ha

/-! ### stage C: `initPrune` -/

theorem mem_foldl_filter (p : Nat → Nat → Bool) : ∀ (as row : List Nat) (col : Nat),
    col ∈ as.foldl (fun row a => row.filter (p a)) row ↔ col ∈ row ∧ ∀ a, a ∈ as → p a col = true
  | [], row, col => by simp
  | a :: as, row, col => by
    simp only [List.foldl_cons]
    rw [mem_foldl_filter p as, List.mem_filter]
    constructor
    · rintro ⟨⟨h1, h2⟩, h3⟩
      refine ⟨h1, fun a' ha' => ?_⟩
      rcases List.mem_cons.mp ha' with h | h
      · rw [h]; exact h2
      · exact h3 a' h
    · rintro ⟨h1, h2⟩
      exact ⟨⟨h1, h2 a List.mem_cons_self⟩, fun a' ha' => h2 a' (List.mem_cons_of_mem _ ha')⟩

theorem nodup_foldl_filter (p : Nat → Nat → Bool) : ∀ (as row : List Nat), row.Nodup →
    (as.foldl (fun row a => row.filter (p a)) row).Nodup
  | [], _, h => h
  | a :: as, row, h => by
    simp only [List.foldl_cons]
    exact nodup_foldl_filter p as _ (nodup_filter _ h)

theorem mem_outLabels (L : LTS) (blk : List Nat) (a : Nat) :
    a ∈ outLabels L blk ↔ ∃ s, s ∈ blk ∧ hasOut L a s = true := by
  simp only [outLabels, List.mem_flatMap, List.mem_filter, List.mem_range]
  constructor
  · rintro ⟨s, hs, _, h⟩; exact ⟨s, hs, h⟩
  · rintro ⟨s, hs, h⟩
    obtain ⟨r, hr⟩ := (hasOut_iff L a s).mp h
    exact ⟨s, hs, label_lt L hr, h⟩

theorem noPre_false (L : LTS) (e : Eng) (a i : Nat) :
    noPre L e a i = false ↔ ∀ s, s ∈ e.block i → hasOut L a s = true := by
  unfold noPre
  rw [Bool.eq_false_iff]
  simp only [ne_eq, List.any_eq_true, Bool.not_eq_true', not_exists, not_and, Bool.not_eq_false]

theorem initPrune_row (L : LTS) (e : Eng) (w : WF L e) (b1 col : Nat) :
    col ∈ (initPrune L e).row b1 ↔
      col ∈ e.row b1 ∧ ∀ a, (∃ s, s ∈ e.block b1 ∧ hasOut L a s = true) → ∀ s, s ∈ e.block col → hasOut L a s = true := by
  by_cases hb : b1 < e.part.length
  · have : (initPrune L e).row b1 = (outLabels L (e.block b1)).foldl
        (fun row a => row.filter (fun col => !noPre L e a col)) (e.row b1) := getD_map_range _ _ _ hb
    rw [this, mem_foldl_filter (fun a col => !noPre L e a col)]
    simp only [mem_outLabels, Bool.not_eq_true', noPre_false]
  · have h1 : (initPrune L e).row b1 = [] := getD_ge _ _ _ (by simp [initPrune]; omega)
    have h2 : e.row b1 = [] := getD_ge _ _ _ (by rw [w.hrel]; omega)
    rw [h1, h2]
    simp

theorem initPrune_wf {L : LTS} {e : Eng} (w : WF L e) (hu : ∀ a, Uniform L e a) : WF L (initPrune L e) := by
  have hrow := initPrune_row L e w
  have hpart : (initPrune L e).part = e.part := rfl
  refine ⟨by simp [initPrune], w.hins, w.hdisj, w.hnd, w.hcov, w.hne, ?_, ?_, w.hinset, ?_⟩
  · intro i j hj
    exact w.hrow i j ((hrow i j).mp hj).1
  · intro i hi
    rw [hrow]
    refine ⟨w.hrefl i hi, ?_⟩
    rintro a ⟨s, hs, hout⟩ s' hs'
    rcases hu a i hi with h | h
    · exact h s' hs'
    · rw [h s hs] at hout; cases hout
  · intro i
    by_cases hb : i < e.part.length
    · have : (initPrune L e).row i = (outLabels L (e.block i)).foldl
          (fun row a => row.filter (fun col => !noPre L e a col)) (e.row i) := getD_map_range _ _ _ hb
      rw [this]
      exact nodup_foldl_filter (fun a col => !noPre L e a col) _ _ (w.hrownd i)
    · have h1 : (initPrune L e).row i = [] := getD_ge _ _ _ (by simp [initPrune]; omega)
      rw [h1]; exact List.nodup_nil

/-- the relation on states after pruning -/
theorem initPrune_R {L : LTS} {e : Eng} (w : WF L e) (hu : ∀ a, Uniform L e a) {x y : Nat} (hx : x < L.n)
    (hy : y < L.n) :
    (initPrune L e).R x y ↔ e.R x y ∧ ∀ a, hasOut L a x = true → hasOut L a y = true := by
  obtain ⟨hxl, hxm⟩ := w.blockOf_mem hx
  obtain ⟨hyl, hym⟩ := w.blockOf_mem hy
  show blockOf e.part y ∈ (initPrune L e).row (blockOf e.part x) ↔ _
  rw [initPrune_row L e w]
  constructor
  · rintro ⟨h1, h2⟩
    exact ⟨h1, fun a ha => h2 a ⟨x, hxm, ha⟩ y hym⟩
  · rintro ⟨h1, h2⟩
    refine ⟨h1, ?_⟩
    rintro a ⟨s, hs, hout⟩ s' hs'
    have hxa : hasOut L a x = true := by
      rcases hu a _ hxl with h | h
      · exact h x hxm
      · rw [h s hs] at hout; cases hout
    have hya := h2 a hxa
    rcases hu a _ hyl with h | h
    · exact h s' hs'
    · rw [h y hym] at hya; cases hya

/-! ### stage D: `initCounters` -/

theorem initCount_eq (L : LTS) (e : Eng) (b1 a q : Nat) : initCount L e b1 a q = cntSpec L e b1 a q := by
  unfold initCount cntSpec post
  rw [← List.countP_eq_length_filter, List.countP_map, List.countP_filter]
  apply List.countP_congr
  intro ed _
  simp only [Function.comp, Bool.and_eq_true, beq_iff_eq, List.contains_iff_mem]
  constructor
  · rintro ⟨h1, h2, h3⟩; exact ⟨⟨h2, h3⟩, h1⟩
  · rintro ⟨⟨h2, h3⟩, h1⟩; exact ⟨h1, h2, h3⟩

theorem initCount_congr {L : LTS} {e e' : Eng} (h1 : e'.part = e.part) (h2 : e'.rel = e.rel) (b1 a q : Nat) :
    initCount L e' b1 a q = initCount L e b1 a q := by
  simp only [initCount, Eng.row, h1, h2]

theorem initRemove_congr {L : LTS} {e e' : Eng} (h1 : e'.part = e.part) (h2 : e'.rel = e.rel) (b1 a : Nat) :
    initRemove L e' b1 a = initRemove L e b1 a := by
  simp only [initRemove, Eng.row, Eng.block, h1, h2]

/-- the body of the counter loop -/
def cntStep (L : LTS) (b1 a : Nat) (e : Eng) (q : Nat) : Eng :=
  if initCount L e b1 a q == 0 then e else { e with cnt := setCnt e.cnt b1 a q (initCount L e b1 a q) }

/-- the counter loop of one slot -/
theorem initCnt_fold (L : LTS) (e0 : Eng) (b1 a : Nat) : ∀ (qs : List Nat) (e : Eng), e.part = e0.part →
    e.rel = e0.rel →
    (qs.foldl (cntStep L b1 a) e).part = e.part ∧ (qs.foldl (cntStep L b1 a) e).rel = e.rel ∧
      (qs.foldl (cntStep L b1 a) e).inset = e.inset ∧ (qs.foldl (cntStep L b1 a) e).rem = e.rem ∧
      (qs.foldl (cntStep L b1 a) e).queue = e.queue ∧ (qs.foldl (cntStep L b1 a) e).nextId = e.nextId ∧
      ∀ i a' q', (qs.foldl (cntStep L b1 a) e).cntv i a' q' =
        if i = b1 ∧ a' = a ∧ q' ∈ qs ∧ initCount L e0 b1 a q' ≠ 0 then initCount L e0 b1 a q' else e.cntv i a' q'
  | [], e, _, _ => by simp
  | q :: qs, e, hp, hr => by
    simp only [List.foldl_cons]
    by_cases hc : (initCount L e0 b1 a q == 0) = true
    · have hstep : cntStep L b1 a e q = e := by
        unfold cntStep; rw [initCount_congr hp hr, if_pos hc]
      rw [hstep]
      obtain ⟨h1, h2, h3, h4, h5, h6, h7⟩ := initCnt_fold L e0 b1 a qs e hp hr
      refine ⟨h1, h2, h3, h4, h5, h6, ?_⟩
      intro i a' q'
      rw [h7]
      have hc' : initCount L e0 b1 a q = 0 := by simpa using hc
      by_cases hq : q' = q
      · subst hq; simp [hc']
      · simp [hq]
    · have hstep : cntStep L b1 a e q = { e with cnt := setCnt e.cnt b1 a q (initCount L e0 b1 a q) } := by
        unfold cntStep; rw [initCount_congr hp hr, if_neg hc]
      rw [hstep]
      obtain ⟨h1, h2, h3, h4, h5, h6, h7⟩ := initCnt_fold L e0 b1 a qs
        { e with cnt := setCnt e.cnt b1 a q (initCount L e0 b1 a q) } hp hr
      refine ⟨h1, h2, h3, h4, h5, h6, ?_⟩
      intro i a' q'
      rw [h7]
      have hc' : initCount L e0 b1 a q ≠ 0 := by simpa using hc
      have hset : ({ e with cnt := setCnt e.cnt b1 a q (initCount L e0 b1 a q) } : Eng).cntv i a' q' =
          if i = b1 ∧ a' = a ∧ q' = q then initCount L e0 b1 a q else e.cntv i a' q' := by
        rw [cntv_eq, cntv_eq]; exact cget_setCnt _ _ _ _ _ _ _ _
      rw [hset]
      by_cases hk : i = b1 ∧ a' = a
      · by_cases hq : q' = q
        · subst hq; simp [hk, hc']
        · simp [hk, hq]
      · have : ¬ (i = b1 ∧ a' = a ∧ q' = q) := fun h => hk ⟨h.1, h.2.1⟩
        have h2' : ¬ (i = b1 ∧ a' = a ∧ q' ∈ qs ∧ initCount L e0 b1 a q' ≠ 0) := fun h => hk ⟨h.1, h.2.1⟩
        have h3' : ¬ (i = b1 ∧ a' = a ∧ q' ∈ q :: qs ∧ initCount L e0 b1 a q' ≠ 0) := fun h => hk ⟨h.1, h.2.1⟩
        rw [if_neg this, if_neg h2', if_neg h3']

theorem cntSpec_zero_of_not_delta1 {L : LTS} (hL : LtsOK L) (e : Eng) (b1 a q : Nat) (h : q ∉ delta1 L a) :
    cntSpec L e b1 a q = 0 := by
  rw [cntSpec_eq_zero]
  intro q' hed
  exact absurd ((mem_delta1 L a q).mpr ⟨(hL _ hed).1, (hasOut_iff L a q).mpr ⟨q', hed⟩⟩) h

/-- one slot of `initCounters` -/
theorem initSlot_spec {L : LTS} (hL : LtsOK L) {e0 e : Eng} {b1 a : Nat} (hp : e.part = e0.part)
    (hr : e.rel = e0.rel) (hz : ∀ q, e.cntv b1 a q = 0) :
    let e' := initSlot L b1 e a
    e'.part = e.part ∧ e'.rel = e.rel ∧ e'.inset = e.inset ∧
      (∀ i a' q, e'.cntv i a' q = if i = b1 ∧ a' = a then cntSpec L e0 b1 a q else e.cntv i a' q) ∧
      (∀ i a', ¬ (i = b1 ∧ a' = a) → e'.remv i a' = e.remv i a') ∧
      (e'.remv b1 a = if initRemove L e0 b1 a = [] then e.remv b1 a
        else some [(e.nextId, initRemove L e0 b1 a)]) ∧
      e'.queue = (if initRemove L e0 b1 a = [] then e.queue else (b1, a) :: e.queue) := by
  intro e'
  obtain ⟨h1, h2, h3, h4, h5, h6, h7⟩ := initCnt_fold L e0 b1 a (delta1 L a) e hp hr
  -- name the state after the counter loop
  generalize he1 : (delta1 L a).foldl (cntStep L b1 a) e = e1 at h1 h2 h3 h4 h5 h6 h7
  have hcnt : ∀ i a' q, e1.cntv i a' q = if i = b1 ∧ a' = a then cntSpec L e0 b1 a q else e.cntv i a' q := by
    intro i a' q
    rw [h7]
    by_cases hk : i = b1 ∧ a' = a
    · rw [if_pos hk]
      by_cases hc : q ∈ delta1 L a ∧ initCount L e0 b1 a q ≠ 0
      · rw [if_pos ⟨hk.1, hk.2, hc⟩, initCount_eq]
      · rw [if_neg (fun h => hc h.2.2), hk.1, hk.2, hz q]
        by_cases hq : q ∈ delta1 L a
        · have : initCount L e0 b1 a q = 0 := Classical.byContradiction fun h => hc ⟨hq, h⟩
          rw [← initCount_eq, this]
        · rw [cntSpec_zero_of_not_delta1 hL e0 b1 a q hq]
    · rw [if_neg hk, if_neg (fun h => hk ⟨h.1, h.2.1⟩)]
  have hrm : initRemove L e1 b1 a = initRemove L e0 b1 a := initRemove_congr (h1.trans hp) (h2.trans hr) b1 a
  have hdef : e' = if (initRemove L e0 b1 a).isEmpty then e1 else
      { e1 with
        rem := setRem e1.rem b1 a (some [(e1.nextId, initRemove L e0 b1 a)])
        nextId := e1.nextId + 1
        queue := (b1, a) :: e1.queue } := by
    show initSlot L b1 e a = _
    have hfold : (delta1 L a).foldl (fun (e : Eng) q =>
        let c := initCount L e b1 a q
        if c == 0 then e else { e with cnt := setCnt e.cnt b1 a q c }) e = e1 := he1
    unfold initSlot
    simp only []
    rw [hfold, hrm]
  by_cases hemp : initRemove L e0 b1 a = []
  · have : e' = e1 := by rw [hdef, hemp]; rfl
    rw [this, if_pos hemp, if_pos hemp]
    refine ⟨h1, h2, h3, hcnt, ?_, ?_, h5⟩
    · intro i a' _; rw [remv_eq, h4]; rfl
    · rw [remv_eq, h4]; rfl
  · have hne : (initRemove L e0 b1 a).isEmpty = false := by
      cases h : (initRemove L e0 b1 a) with
      | nil => exact absurd h hemp
      | cons x l => rfl
    have : e' = { e1 with
        rem := setRem e1.rem b1 a (some [(e1.nextId, initRemove L e0 b1 a)])
        nextId := e1.nextId + 1
        queue := (b1, a) :: e1.queue } := by rw [hdef, hne]; rfl
    rw [this, if_neg hemp, if_neg hemp]
    refine ⟨h1, h2, h3, hcnt, ?_, ?_, ?_⟩
    · intro i a' hk
      show rget (setRem e1.rem b1 a _) i a' = _
      rw [rget_setRem, if_neg hk, h4]; rfl
    · show rget (setRem e1.rem b1 a _) b1 a = _
      rw [rget_setRem, if_pos ⟨rfl, rfl⟩, h6]
    · show (b1, a) :: e1.queue = _
      rw [h5]

theorem initSlot_frame (L : LTS) (b1 : Nat) (e : Eng) (a : Nat) :
    (initSlot L b1 e a).part = e.part ∧ (initSlot L b1 e a).rel = e.rel ∧ (initSlot L b1 e a).inset = e.inset := by
  obtain ⟨h1, h2, h3, _⟩ := initCnt_fold L e b1 a (delta1 L a) e rfl rfl
  have hfold : (delta1 L a).foldl (fun (e : Eng) q =>
      let c := initCount L e b1 a q
      if c == 0 then e else { e with cnt := setCnt e.cnt b1 a q c }) e = (delta1 L a).foldl (cntStep L b1 a) e := rfl
  unfold initSlot
  simp only []
  rw [hfold]
  split
  · exact ⟨h1, h2, h3⟩
  · exact ⟨h1, h2, h3⟩

/-- the slots in the order `initCounters` visits them -/
def slotsOf (e : Eng) : List (Nat × Nat) :=
  (List.range e.part.length).flatMap (fun b1 => (e.ins b1).map (fun a => (b1, a)))

def initAll (L : LTS) (e : Eng) (ks : List (Nat × Nat)) : Eng := ks.foldl (fun e k => initSlot L k.1 e k.2) e

theorem initAll_frame (L : LTS) (ks : List (Nat × Nat)) (e : Eng) :
    (initAll L e ks).part = e.part ∧ (initAll L e ks).rel = e.rel ∧ (initAll L e ks).inset = e.inset := by
  induction ks generalizing e with
  | nil => exact ⟨rfl, rfl, rfl⟩
  | cons k ks ih =>
    obtain ⟨h1, h2, h3⟩ := ih (initSlot L k.1 e k.2)
    obtain ⟨g1, g2, g3⟩ := initSlot_frame L k.1 e k.2
    exact ⟨h1.trans g1, h2.trans g2, h3.trans g3⟩

theorem initAll_append (L : LTS) (e : Eng) (k1 k2 : List (Nat × Nat)) :
    initAll L e (k1 ++ k2) = initAll L (initAll L e k1) k2 := by
  simp [initAll, List.foldl_append]

theorem initCounters_aux (L : LTS) (e0 : Eng) (bs : List Nat) (e : Eng) (hi : e.inset = e0.inset) :
    bs.foldl (fun e b1 => (e.ins b1).foldl (initSlot L b1) e) e =
      initAll L e (bs.flatMap (fun b1 => (e0.ins b1).map (fun a => (b1, a)))) := by
  induction bs generalizing e with
  | nil => rfl
  | cons b bs ih =>
    have hins : e.ins b = e0.ins b := by simp only [Eng.ins, hi]
    simp only [List.foldl_cons, List.flatMap_cons]
    rw [initAll_append, hins]
    have h1 : (e0.ins b).foldl (initSlot L b) e = initAll L e ((e0.ins b).map (fun a => (b, a))) := by
      simp [initAll, List.foldl_map]
    rw [h1]
    exact ih _ ((initAll_frame L _ e).2.2.trans hi)

theorem initCounters_eq (L : LTS) (e : Eng) : initCounters L e = initAll L e (slotsOf e) :=
  initCounters_aux L e (List.range e.part.length) e rfl

structure DInv (L : LTS) (e0 e : Eng) (done : List (Nat × Nat)) : Prop where
  hp : e.part = e0.part
  hr : e.rel = e0.rel
  hi : e.inset = e0.inset
  hcd : ∀ i a, (i, a) ∈ done → ∀ q, e.cntv i a q = cntSpec L e0 i a q
  hcn : ∀ i a, (i, a) ∉ done → ∀ q, e.cntv i a q = 0
  hsd : ∀ i a, (i, a) ∈ done → slotL e i a = initRemove L e0 i a
  hsn : ∀ i a, (i, a) ∉ done → e.remv i a = none
  hqn : e.queue.Nodup
  hqi : ∀ i a, (e.remv i a).isSome = true ↔ (i, a) ∈ e.queue
  hqd : ∀ k, k ∈ e.queue → k ∈ done

theorem dinv_step {L : LTS} (hL : LtsOK L) {e0 e : Eng} {done : List (Nat × Nat)} {b1 a : Nat}
    (d : DInv L e0 e done) (hnd : (b1, a) ∉ done) : DInv L e0 (initSlot L b1 e a) ((b1, a) :: done) := by
  obtain ⟨s1, s2, s3, s4, s5, s6, s7⟩ := initSlot_spec hL d.hp d.hr (d.hcn b1 a hnd)
  have hnone : e.remv b1 a = none := d.hsn b1 a hnd
  have hnq : (b1, a) ∉ e.queue := fun h => hnd (d.hqd _ h)
  refine ⟨s1.trans d.hp, s2.trans d.hr, s3.trans d.hi, ?_, ?_, ?_, ?_, ?_, ?_, ?_⟩
  · intro i a' hm q
    rw [s4]
    by_cases hk : i = b1 ∧ a' = a
    · rw [if_pos hk, hk.1, hk.2]
    · rw [if_neg hk]
      rcases List.mem_cons.mp hm with h | h
      · injection h with h1 h2; exact absurd ⟨h1, h2⟩ hk
      · exact d.hcd i a' h q
  · intro i a' hm q
    have hk : ¬ (i = b1 ∧ a' = a) := fun h => hm (by rw [h.1, h.2]; exact List.mem_cons_self)
    rw [s4, if_neg hk]
    exact d.hcn i a' (fun h => hm (List.mem_cons_of_mem _ h)) q
  · intro i a' hm
    by_cases hk : i = b1 ∧ a' = a
    · rw [hk.1, hk.2]
      by_cases hemp : initRemove L e0 b1 a = []
      · rw [if_pos hemp, hnone] at s6
        rw [slotL_none s6, hemp]
      · rw [if_neg hemp] at s6
        rw [slotL_some s6]; simp [flat]
    · have : slotL (initSlot L b1 e a) i a' = slotL e i a' := by simp only [slotL, s5 i a' hk]
      rw [this]
      rcases List.mem_cons.mp hm with h | h
      · injection h with h1 h2; exact absurd ⟨h1, h2⟩ hk
      · exact d.hsd i a' h
  · intro i a' hm
    have hk : ¬ (i = b1 ∧ a' = a) := fun h => hm (by rw [h.1, h.2]; exact List.mem_cons_self)
    rw [s5 i a' hk]
    exact d.hsn i a' (fun h => hm (List.mem_cons_of_mem _ h))
  · rw [s7]
    split
    · exact d.hqn
    · exact List.nodup_cons.mpr ⟨hnq, d.hqn⟩
  · intro i a'
    rw [s7]
    by_cases hk : i = b1 ∧ a' = a
    · rw [hk.1, hk.2, s6]
      by_cases hemp : initRemove L e0 b1 a = []
      · rw [if_pos hemp, if_pos hemp, hnone]
        simp only [Option.isSome_none, Bool.false_eq_true, false_iff]
        exact hnq
      · rw [if_neg hemp, if_neg hemp]
        simp
    · rw [s5 i a' hk, d.hqi i a']
      split
      · exact Iff.rfl
      · rw [List.mem_cons]
        constructor
        · exact Or.inr
        · rintro (h | h)
          · injection h with h1 h2; exact absurd ⟨h1, h2⟩ hk
          · exact h
  · intro k hk
    rw [s7] at hk
    split at hk
    · exact List.mem_cons_of_mem _ (d.hqd k hk)
    · rcases List.mem_cons.mp hk with h | h
      · rw [h]; exact List.mem_cons_self
      · exact List.mem_cons_of_mem _ (d.hqd k h)

theorem dinv_fold {L : LTS} (hL : LtsOK L) {e0 : Eng} : ∀ (ks : List (Nat × Nat)) (e : Eng) (done : List (Nat × Nat)),
    ks.Nodup → (∀ k, k ∈ ks → k ∉ done) → DInv L e0 e done → DInv L e0 (initAll L e ks) (ks.reverse ++ done)
  | [], e, done, _, _, d => by simpa [initAll] using d
  | k :: ks, e, done, hn, hnd, d => by
    obtain ⟨b1, a⟩ := k
    have hn' := List.nodup_cons.mp hn
    have d1 := dinv_step hL d (hnd _ List.mem_cons_self)
    have := dinv_fold hL ks (initSlot L b1 e a) ((b1, a) :: done) hn'.2 (fun k hk hm => by
      rcases List.mem_cons.mp hm with h | h
      · exact hn'.1 (h ▸ hk)
      · exact hnd k (List.mem_cons_of_mem _ hk) h) d1
    simpa [initAll, List.reverse_cons, List.append_assoc] using this

theorem mem_slotsOf (e : Eng) (i a : Nat) : (i, a) ∈ slotsOf e ↔ i < e.part.length ∧ a ∈ e.ins i := by
  simp only [slotsOf, List.mem_flatMap, List.mem_map, List.mem_range, Prod.mk.injEq]
  constructor
  · rintro ⟨b, hb, a', ha', h1, h2⟩
    subst h1; subst h2
    exact ⟨hb, ha'⟩
  · rintro ⟨h1, h2⟩
    exact ⟨i, h1, a, h2, rfl, rfl⟩

theorem nodup_slotsOf {L : LTS} {e : Eng} (w : WF L e) : (slotsOf e).Nodup := by
  unfold slotsOf
  have key : ∀ bs : List Nat, bs.Nodup → (∀ b, b ∈ bs → b < e.part.length) →
      (bs.flatMap (fun b1 => (e.ins b1).map (fun a => (b1, a)))).Nodup := by
    intro bs
    induction bs with
    | nil => intro _ _; exact List.nodup_nil
    | cons b bs ih =>
      intro hn hlt
      have hn' := List.nodup_cons.mp hn
      rw [List.flatMap_cons]
      refine List.nodup_append.mpr ⟨?_, ih hn'.2 (fun c hc => hlt c (List.mem_cons_of_mem _ hc)), ?_⟩
      · have hnd : (e.ins b).Nodup := (w.hinset b (hlt b List.mem_cons_self)).1.1
        rw [List.nodup_iff_pairwise_ne, List.pairwise_map]
        exact List.Pairwise.imp (fun h he => h (by injection he)) (List.nodup_iff_pairwise_ne.mp hnd)
      · intro x hx y hy hxy
        simp only [List.mem_map] at hx
        simp only [List.mem_flatMap, List.mem_map] at hy
        obtain ⟨a1, _, h1⟩ := hx
        obtain ⟨b2, hb2, a2, _, h2⟩ := hy
        rw [← h1, ← h2] at hxy
        injection hxy with h3 _
        exact hn'.1 (h3 ▸ hb2)
  exact key _ List.nodup_range (fun b hb => List.mem_range.mp hb)

/-! ### the measure after `init` -/

theorem length_le_of_nodup_subset {α : Type} [DecidableEq α] {l l' : List α} (hl : l.Nodup) (hl' : l'.Nodup)
    (h : ∀ x, x ∈ l → x ∈ l') : l.length ≤ l'.length := by
  have h1 : (l'.filter (fun x => l.contains x)).length = l.length :=
    length_eq_of_nodup_ext (nodup_filter _ hl') hl (fun x => by
      simp only [List.mem_filter, List.contains_iff_mem]
      exact ⟨fun hx => hx.2, fun hx => ⟨h x hx, hx⟩⟩)
  have h2 := List.length_filter_le (fun x => l.contains x) l'
  omega

theorem length_slotsOf_le {L : LTS} {e : Eng} (w : WF L e) : (slotsOf e).length ≤ e.part.length * labels L := by
  unfold slotsOf
  have key : ∀ bs : List Nat, (∀ b, b ∈ bs → b < e.part.length) →
      (bs.flatMap (fun b1 => (e.ins b1).map (fun a => (b1, a)))).length ≤ bs.length * labels L := by
    intro bs
    induction bs with
    | nil => intro _; simp
    | cons b bs ih =>
      intro hlt
      rw [List.flatMap_cons, List.length_append, List.length_map, List.length_cons, Nat.succ_mul]
      have h1 := ih (fun c hc => hlt c (List.mem_cons_of_mem _ hc))
      have hb := hlt b List.mem_cons_self
      have h2 : (e.ins b).length ≤ labels L :=
        length_le_of_nodup_lt (w.hinset b hb).1.1 (fun a ha => w.ins_lt hb ha)
      omega
  have := key (List.range e.part.length) (fun b hb => List.mem_range.mp hb)
  rw [List.length_range] at this
  exact this

theorem length_keysOf (L : LTS) (len : Nat) : (keysOf L len).length = len * (labels L * L.n) := by
  induction len with
  | zero => simp [keysOf]
  | succ k ih =>
    rw [keysOf_succ, List.length_append, ih, length_blockKeys, Nat.succ_mul]

theorem pot_le_of_queue {L : LTS} {e : Eng} (w : WF L e) (hq : e.queue.length ≤ e.part.length * labels L) :
    pot L e ≤ L.n * (labels L + labels L * L.n) := by
  have h1 : posCnt L e ≤ e.part.length * (labels L * L.n) := by
    unfold posCnt
    rw [← length_keysOf]
    exact List.countP_le_length
  have h2 := w.len_le
  unfold pot
  have h3 : L.n * (labels L + labels L * L.n) =
      (L.n - e.part.length) * (labels L + labels L * L.n) + e.part.length * (labels L + labels L * L.n) := by
    rw [← Nat.add_mul]
    congr 1
    omega
  rw [h3, Nat.mul_add e.part.length]
  omega

/-! ### `init` establishes the invariant -/

theorem mem_initRel (part : List (List Nat)) (rel : Rel) (x y : Nat) :
    (x, y) ∈ initRel part rel ↔ x ∈ part.flatten ∧ y ∈ part.flatten ∧ (blockOf part x, blockOf part y) ∈ rel := by
  simp only [initRel, List.mem_flatMap, List.mem_map, List.mem_filter, List.contains_iff_mem, Prod.mk.injEq]
  constructor
  · rintro ⟨q, hq, r, ⟨hr, hrel⟩, h1, h2⟩
    subst h1; subst h2
    exact ⟨hq, hr, hrel⟩
  · rintro ⟨h1, h2, h3⟩
    exact ⟨x, h1, y, ⟨h2, h3⟩, rfl, rfl⟩

theorem mem_initRemove (L : LTS) (e : Eng) (b1 a q : Nat) :
    q ∈ initRemove L e b1 a ↔ q ∈ delta1 L a ∧ ∀ col, col ∈ e.row b1 → ∀ s, s ∈ e.block col → (q, a, s) ∉ L.edges := by
  simp only [initRemove, List.mem_filter, Bool.not_eq_true', Bool.eq_false_iff, ne_eq, List.any_eq_true,
    List.contains_iff_mem, mem_pre, not_exists, not_and]

/-- the block relation is transitive on the block indices -/
def RelTrans (part : List (List Nat)) (rel : Rel) : Prop :=
  ∀ i j k, i < part.length → j < part.length → k < part.length → (i, j) ∈ rel → (j, k) ∈ rel → (i, k) ∈ rel

theorem init_inv {L : LTS} {part : List (List Nat)} {rel : Rel} (hL : LtsOK L) (hp : isPartition part L.n = true)
    (hc : isConsistent part rel = true) (htr : RelTrans part rel) {S : Nat → Nat → Prop} (hS : IsSim L S)
    (hSI : ∀ y z, S y z → (y, z) ∈ initRel part rel) :
    Inv L S (RelOf (initRel part rel)) (engineInit L part rel) ∧
      pot L (engineInit L part rel) ≤ L.n * (labels L + labels L * L.n) := by
  obtain ⟨_, hcov, _⟩ := isPartition_spec hp
  have wA := initBlocks_wf (L := L) hp hc
  obtain ⟨parB, wB, rB, uB, tc, tr, tq, _⟩ := initRefine_spec wA
  have wC := initPrune_wf wB uB
  -- names for the stages
  generalize heA : initBlocks L part rel = eA at *
  generalize heB : initRefine L eA = eB at *
  generalize heC : initPrune L eB = eC at *
  have hengine : engineInit L part rel = initAll L eC (slotsOf eC) := by
    unfold engineInit
    rw [heA, heB, heC, initCounters_eq]
  have hcntC : eC.cnt = [] := by rw [← heC]; show eB.cnt = []; rw [tc, ← heA]; rfl
  have hremC : eC.rem = [] := by rw [← heC]; show eB.rem = []; rw [tr, ← heA]; rfl
  have hqC : eC.queue = [] := by rw [← heC]; show eB.queue = []; rw [tq, ← heA]; rfl
  have d0 : DInv L eC eC [] := by
    refine ⟨rfl, rfl, rfl, fun _ _ h => (by cases h), ?_, fun _ _ h => (by cases h), ?_, ?_, ?_, ?_⟩
    · intro i a _ q
      rw [cntv_eq, hcntC]; simp [cget]
    · intro i a _
      rw [remv_eq, hremC]; simp [rget]
    · rw [hqC]; exact List.nodup_nil
    · intro i a
      rw [remv_eq, hremC, hqC]; simp [rget]
    · intro k hk; rw [hqC] at hk; cases hk
  have dF := dinv_fold hL (slotsOf eC) eC [] (nodup_slotsOf wC) (fun _ _ h => by cases h) d0
  rw [← hengine] at dF
  generalize heD : engineInit L part rel = eD at *
  have hdone : ∀ i a, (i, a) ∈ (slotsOf eC).reverse ++ [] ↔ i < eC.part.length ∧ a ∈ eC.ins i := by
    intro i a; rw [List.append_nil, List.mem_reverse, mem_slotsOf]
  have wD : WF L eD := WF.congr dF.hp dF.hr dF.hi wC
  have hlenD : eD.part.length = eC.part.length := by rw [dF.hp]
  have hinsD : ∀ i, eD.ins i = eC.ins i := fun i => by simp only [Eng.ins, dF.hi]
  have hrowD : ∀ i, eD.row i = eC.row i := fun i => by simp only [Eng.row, dF.hr]
  have hblockD : ∀ i, eD.block i = eC.block i := fun i => by simp only [Eng.block, dF.hp]
  have hblockC : ∀ i, eC.block i = eB.block i := fun i => by rw [← heC]; rfl
  have hpartC : eC.part = eB.part := by rw [← heC]; rfl
  have hUD : ∀ i r, eD.U i r ↔ eC.U i r := U_congr dF.hp dF.hr
  -- the relation on states of the final state
  have hRD : ∀ x y, x < L.n → y < L.n →
      (eD.R x y ↔ (blockOf part x, blockOf part y) ∈ rel ∧ ∀ a, hasOut L a x = true → hasOut L a y = true) := by
    intro x y hx hy
    have h1 : eD.R x y ↔ eC.R x y := by
      show blockOf eD.part y ∈ eD.row (blockOf eD.part x) ↔ blockOf eC.part y ∈ eC.row (blockOf eC.part x)
      rw [dF.hp, hrowD]
    have h2 : eC.R x y ↔ eB.R x y ∧ ∀ a, hasOut L a x = true → hasOut L a y = true := by
      rw [← heC]; exact initPrune_R wB uB hx hy
    have h3 : eB.R x y ↔ eA.R x y := rB.rel_iff wA wB hx hy
    have h4 : eA.R x y ↔ (blockOf part x, blockOf part y) ∈ rel := by
      rw [← heA]; exact initBlocks_R hp hc hx hy
    rw [h1, h2, h3, h4]
  have hblt : ∀ x, x < L.n → blockOf part x < part.length := by
    intro x hx
    have := (wA.blockOf_mem hx).1
    rw [← heA] at this
    have h2 : (initBlocks L part rel).part.length = part.length := by simp [initBlocks]
    have h3 : blockOf (initBlocks L part rel).part x = blockOf part x := blockOf_map_mkBlockList part x
    rw [h3, h2] at this
    exact this
  have hSn : ∀ y z, S y z → y < L.n ∧ z < L.n := by
    intro y z h
    obtain ⟨h1, h2, _⟩ := (mem_initRel part rel y z).mp (hSI y z h)
    exact ⟨(hcov y).mp h1, (hcov z).mp h2⟩
  have hqlen : eD.queue.length ≤ eD.part.length * labels L := by
    rw [hlenD]
    refine Nat.le_trans (length_le_of_nodup_subset dF.hqn (nodup_slotsOf wC) ?_) (length_slotsOf_le wC)
    intro k hk
    have := dF.hqd k hk
    rw [List.append_nil, List.mem_reverse] at this
    exact this
  refine ⟨⟨wD, ⟨dF.hqn, dF.hqi, ?_⟩, ⟨?_, ?_, ?_, ?_⟩, ?_, ?_⟩, pot_le_of_queue wD hqlen⟩
  · intro i a h
    rw [hlenD]
    exact ((hdone i a).mp (dF.hqd _ h)).1
  · intro i a q hi ha
    rw [hlenD] at hi
    rw [hinsD] at ha
    rw [dF.hcd i a ((hdone i a).mpr ⟨hi, ha⟩) q, cntSpec_congr dF.hp dF.hr]
  · intro i a q q' hi hq hed hu
    by_cases hd : (i, a) ∈ (slotsOf eC).reverse ++ []
    · rw [dF.hsd i a hd, mem_initRemove] at hq
      have hu' : blockOf eC.part q' ∈ eC.row i := (hUD i q').mp hu
      exact hq.2 _ hu' q' (wC.blockOf_mem (hL _ hed).2).2 hed
    · rw [slotL_none (dF.hsn i a hd)] at hq; cases hq
  · intro i a hi
    by_cases hd : (i, a) ∈ (slotsOf eC).reverse ++ []
    · rw [dF.hsd i a hd]
      refine ⟨nodup_filter _ (nodup_delta1 L a), ?_⟩
      intro q hq
      exact ((mem_delta1 L a q).mp ((mem_initRemove L eC i a q).mp hq).1).1
    · rw [slotL_none (dF.hsn i a hd)]
      exact ⟨List.nodup_nil, fun q hq => by cases hq⟩
  · intro p a p' q hed hR hqn
    have hpn := (hL _ hed).1
    have hp'n := (hL _ hed).2
    by_cases hex : ∃ q', (q, a, q') ∈ L.edges ∧ eD.R p' q'
    · exact Or.inl hex
    · refine Or.inr (Or.inl ?_)
      obtain ⟨hlt, hmem⟩ := wD.blockOf_mem hp'n
      have hains : a ∈ eD.ins (blockOf eD.part p') :=
        (wD.mem_ins hlt a).mpr ⟨p', hmem, (hasIn_iff L a p').mpr ⟨p, hed⟩⟩
      rw [hlenD] at hlt
      rw [hinsD] at hains
      rw [dF.hsd _ a ((hdone _ a).mpr ⟨hlt, hains⟩), mem_initRemove]
      have hqout : hasOut L a q = true :=
        ((hRD p q hpn hqn).mp hR).2 a ((hasOut_iff L a p).mpr ⟨p', hed⟩)
      refine ⟨(mem_delta1 L a q).mpr ⟨hqn, hqout⟩, ?_⟩
      intro col hcol s hs hqs
      apply hex
      refine ⟨s, hqs, ?_⟩
      show blockOf eD.part s ∈ eD.row (blockOf eD.part p')
      rw [hrowD, dF.hp, wC.blockOf_eq hs]
      rw [dF.hp] at hcol
      exact hcol
  · intro x y z hx hxy hyz
    obtain ⟨hyn, hzn⟩ := hSn y z hyz
    obtain ⟨h1, h2⟩ := (hRD x y hx hyn).mp hxy
    obtain ⟨_, _, h3⟩ := (mem_initRel part rel y z).mp (hSI y z hyz)
    refine (hRD x z hx hzn).mpr ⟨htr _ _ _ (hblt x hx) (hblt y hyn) (hblt z hzn) h1 h3, ?_⟩
    intro a ha
    obtain ⟨y', hy'⟩ := (hasOut_iff L a y).mp (h2 a ha)
    obtain ⟨z', hz', _⟩ := hS y z hyz a y' hy'
    exact (hasOut_iff L a z).mpr ⟨z', hz'⟩
  · intro x y hx hy hxy
    exact (mem_initRel part rel x y).mpr ⟨(hcov x).mpr hx, (hcov y).mpr hy, ((hRD x y hx hy).mp hxy).1⟩

end Vata.LE
