import Vata.RcStoreXMono
import Vata.Proofs.RcStoreXRefine
/-!
# The second store invariant `WfInv` under the extended operations (C17): apply1, apply3, Project, ExtendWith, GetMtbddForPrefix

`WfInv s` (`Vata/Proofs/StoreRefine.lean`): every allocated inner node has `low ≠ high` and children with smaller variables.
For each builder of `Vata/RcStoreX.lean` except `renameNode` (see `Vata/Proofs/RcStoreXWfRename.lean`): the store afterwards
satisfies `WfInv`, and the root variable of the result stays below every bound `z` that bounds the root variables of the
arguments.  Only `WInv` (not "no counter is 0") is assumed, so the garbage left by `Project` does not matter.
-/
namespace Vata.RcSX
open Vata.R (Data Closed)
open Vata.RcS

theorem joinNode_wfInv {s : Store} {a b var : Nat} (h : WInv s []) (w : WfInv s) (ha : a ∈ s.ids) (hb : b ∈ s.ids)
    (va : VLt var (s.dat a)) (vb : VLt var (s.dat b)) :
    WfInv (joinNode s a b var).1 ∧ ∀ z, var < z → VLt z ((joinNode s a b var).1.dat (joinNode s a b var).2) := by
  unfold joinNode
  split
  · exact ⟨w, fun z hz => va.mono (Nat.le_of_lt hz)⟩
  · rename_i hne
    obtain ⟨_, _, _, d3, _⟩ := spawnInternal_inv (var := var) h ha hb
    refine ⟨spawnInternal_wfInv h w ha hb hne va vb, fun z hz => ?_⟩
    rw [d3]; exact hz

/-! ## unary apply -/

theorem recDescend1_wfInv (f : Nat → Nat) : ∀ (fuel : Nat) (s : Store) (n : Nat), WInv s [] → WfInv s → n ∈ s.ids →
    n < fuel →
    WfInv (recDescend1 f fuel s n).1 ∧
    (∀ z, VLt z (s.dat n) → VLt z ((recDescend1 f fuel s n).1.dat (recDescend1 f fuel s n).2))
  | 0, _, _, _, _, _, hf => by omega
  | fuel+1, s, n, h, w, hn, hf => by
    simp only [recDescend1]
    split
    · rename_i v hd
      obtain ⟨_, _, _, dl, _⟩ := spawnLeaf_inv (v := f v) h
      exact ⟨spawnLeaf_wfInv h w, fun z _ => by rw [dl]; trivial⟩
    · rename_i lo hi var hd
      obtain ⟨c1, c2⟩ := h.closed n hn lo hi var hd
      obtain ⟨o1, o2⟩ := h.ordered n hn lo hi var hd
      obtain ⟨a1, a2⟩ := w.ord n hn lo hi var hd
      obtain ⟨w1, e1, m1, _⟩ := recDescend1_inv f fuel s lo h c1 (by omega)
      obtain ⟨w2, e2, m2, _⟩ := recDescend1_inv f fuel _ hi w1 (e1.ids _ c2) (by omega)
      obtain ⟨q1, v1⟩ := recDescend1_wfInv f fuel s lo h w c1 (by omega)
      obtain ⟨q2, v2⟩ := recDescend1_wfInv f fuel _ hi w1 q1 (e1.ids _ c2) (by omega)
      have t1 := v1 var a1
      rw [← e2.dat _ (w1.fresh _ m1)] at t1
      have t2 := v2 var (by rw [e1.dat _ (h.fresh _ c2)]; exact a2)
      obtain ⟨q3, v3⟩ := joinNode_wfInv (var := var) w2 q2 (e2.ids _ m1) m2 t1 t2
      exact ⟨q3, fun z hz => v3 z (by rw [hd] at hz; exact hz)⟩

theorem apply1_wfInv (f : Nat → Nat) {s : Store} {a dst : Nat} (hi : WInv s []) (w : WfInv s) : WfInv (apply1 f s a dst) := by
  unfold apply1
  split
  · rename_i ra hfa hfd
    exact addHandle_wfInv (recDescend1_wfInv f (ra + 1) s ra hi w (hi.rin ra (root_mem hfa)) (Nat.lt_succ_self _)).1
  · exact w

/-! ## ternary apply -/

/-- the variable of the node spawned by `Apply3Functor::recDescend` -/
def topVar3 (d1 d2 d3 : Data) : Nat :=
  if br3 d3 d1 d2 = true then varOf d3 else if br3 d2 d1 d3 = true then varOf d2 else varOf d1

/-- `classifyCase`: every branched node carries the variable of the spawned node, every other node a smaller one; the
    variable of the spawned node is below every common bound of the three nodes -/
theorem br3_class (d1 d2 d3 : Data) (hb : ¬ (br3 d1 d2 d3 = false ∧ br3 d2 d1 d3 = false ∧ br3 d3 d1 d2 = false)) :
    (br3 d1 d2 d3 = true → varOf d1 = topVar3 d1 d2 d3) ∧ (br3 d1 d2 d3 = false → VLt (topVar3 d1 d2 d3) d1) ∧
    (br3 d2 d1 d3 = true → varOf d2 = topVar3 d1 d2 d3) ∧ (br3 d2 d1 d3 = false → VLt (topVar3 d1 d2 d3) d2) ∧
    (br3 d3 d1 d2 = true → varOf d3 = topVar3 d1 d2 d3) ∧ (br3 d3 d1 d2 = false → VLt (topVar3 d1 d2 d3) d3) ∧
    (∀ z, VLt z d1 → VLt z d2 → VLt z d3 → topVar3 d1 d2 d3 < z) := by
  cases d1 <;> cases d2 <;> cases d3 <;>
    simp only [br3, leOrLeaf, topVar3, varOf, VLt, Bool.and_true, Bool.true_and, Bool.and_eq_true, decide_eq_true_eq,
      Bool.false_eq_true, if_false, if_true, true_and, and_true, Bool.and_eq_false_iff, decide_eq_false_iff_not,
      not_true_eq_false, false_implies, implies_true, not_and] at hb ⊢ <;>
    grind

theorem kid_vlt (dat : Nat → Data) {n : Nat} {d : Data} (e : dat n = d)
    (o : ∀ lo hi x, d = .int lo hi x → VLt x (dat lo) ∧ VLt x (dat hi)) (b : Bool) (v : Nat)
    (h1 : b = true → varOf d = v) (h2 : b = false → VLt v d) :
    VLt v (dat (kids d b n).1) ∧ VLt v (dat (kids d b n).2) := by
  cases d with
  | leaf x => cases b <;> simp only [kids, e] <;> exact ⟨trivial, trivial⟩
  | int lo hi x =>
    cases b with
    | false => simp only [kids, e]; exact ⟨h2 rfl, h2 rfl⟩
    | true =>
      have := h1 rfl
      simp only [varOf] at this
      subst this
      simp only [kids]
      exact o lo hi x rfl

theorem recDescend3_wfInv (f : Nat → Nat → Nat → Nat) : ∀ (fuel : Nat) (s : Store) (n1 n2 n3 : Nat), WInv s [] → WfInv s →
    n1 ∈ s.ids → n2 ∈ s.ids → n3 ∈ s.ids → n1 + n2 + n3 < fuel →
    WfInv (recDescend3 f fuel s n1 n2 n3).1 ∧
    (∀ z, VLt z (s.dat n1) → VLt z (s.dat n2) → VLt z (s.dat n3) →
      VLt z ((recDescend3 f fuel s n1 n2 n3).1.dat (recDescend3 f fuel s n1 n2 n3).2))
  | 0, _, _, _, _, _, _, _, _, _, hf => by omega
  | fuel+1, s, n1, n2, n3, h, w, h1, h2, h3, hf => by
    simp only [recDescend3]
    split
    · obtain ⟨_, _, _, dl, _⟩ := spawnLeaf_inv (v := f (valOf (s.dat n1)) (valOf (s.dat n2)) (valOf (s.dat n3))) h
      exact ⟨spawnLeaf_wfInv h w, fun z _ _ _ => by rw [dl]; trivial⟩
    · rename_i hb
      obtain ⟨k11, k12, k21, k22, k31, k32, l1, l2⟩ := kids3_ok h h1 h2 h3 _ _ _ br3_true_isInt br3_true_isInt
        br3_true_isInt hb
      obtain ⟨w1, e1, m1, _⟩ := recDescend3_inv f fuel s _ _ _ h k11 k21 k31 (by omega)
      obtain ⟨w2, e2, m2, _⟩ := recDescend3_inv f fuel _ _ _ _ w1 (e1.ids _ k12) (e1.ids _ k22) (e1.ids _ k32) (by omega)
      obtain ⟨q1, v1⟩ := recDescend3_wfInv f fuel s _ _ _ h w k11 k21 k31 (by omega)
      obtain ⟨q2, v2⟩ := recDescend3_wfInv f fuel _ _ _ _ w1 q1 (e1.ids _ k12) (e1.ids _ k22) (e1.ids _ k32) (by omega)
      obtain ⟨c1, c1', c2, c2', c3, c3', clt⟩ := br3_class (s.dat n1) (s.dat n2) (s.dat n3) hb
      obtain ⟨a1, a2⟩ := kid_vlt s.dat (n := n1) rfl (fun lo hi x e => w.ord n1 h1 lo hi x e) _ _ c1 c1'
      obtain ⟨b1, b2⟩ := kid_vlt s.dat (n := n2) rfl (fun lo hi x e => w.ord n2 h2 lo hi x e) _ _ c2 c2'
      obtain ⟨g1, g2⟩ := kid_vlt s.dat (n := n3) rfl (fun lo hi x e => w.ord n3 h3 lo hi x e) _ _ c3 c3'
      have t1 := v1 _ a1 b1 g1
      rw [← e2.dat _ (w1.fresh _ m1)] at t1
      have t2 := v2 (topVar3 (s.dat n1) (s.dat n2) (s.dat n3)) (by rw [e1.dat _ (h.fresh _ k12)]; exact a2)
        (by rw [e1.dat _ (h.fresh _ k22)]; exact b2) (by rw [e1.dat _ (h.fresh _ k32)]; exact g2)
      obtain ⟨q3, v3⟩ := joinNode_wfInv (var := topVar3 (s.dat n1) (s.dat n2) (s.dat n3)) w2 q2 (e2.ids _ m1) m2 t1 t2
      exact ⟨q3, fun z z1 z2 z3 => v3 z (clt z z1 z2 z3)⟩

theorem apply3_wfInv (f : Nat → Nat → Nat → Nat) {s : Store} {a b c dst : Nat} (hi : WInv s []) (w : WfInv s) :
    WfInv (apply3 f s a b c dst) := by
  unfold apply3
  split
  · rename_i ra rb rc hfa hfb hfc hfd
    exact addHandle_wfInv (recDescend3_wfInv f (ra + rb + rc + 1) s ra rb rc hi w (hi.rin ra (root_mem hfa))
      (hi.rin rb (root_mem hfb)) (hi.rin rc (root_mem hfc)) (Nat.lt_succ_self _)).1
  · exact w

/-! ## Project -/

theorem projectNode_wfInv (f : Nat → Nat → Nat) (pred : Nat → Bool) : ∀ (fuel : Nat) (s : Store) (n : Nat), WInv s [] →
    WfInv s → n ∈ s.ids → n < fuel →
    WfInv (projectNode f pred fuel s n).1 ∧
    (∀ z, VLt z (s.dat n) → VLt z ((projectNode f pred fuel s n).1.dat (projectNode f pred fuel s n).2))
  | 0, _, _, _, _, _, hf => by omega
  | fuel+1, s, n, h, w, hn, hf => by
    simp only [projectNode]
    split
    · rename_i v hd
      obtain ⟨_, _, _, dl, _⟩ := spawnLeaf_inv (v := v) h
      exact ⟨spawnLeaf_wfInv h w, fun z _ => by rw [dl]; trivial⟩
    · rename_i lo hi var hd
      obtain ⟨c1, c2⟩ := h.closed n hn lo hi var hd
      obtain ⟨o1, o2⟩ := h.ordered n hn lo hi var hd
      obtain ⟨a1, a2⟩ := w.ord n hn lo hi var hd
      obtain ⟨w1, e1, m1⟩ := projectNode_inv f pred fuel s lo h c1 (by omega)
      obtain ⟨w2, e2, m2⟩ := projectNode_inv f pred fuel _ hi w1 (e1.ids _ c2) (by omega)
      obtain ⟨q1, v1⟩ := projectNode_wfInv f pred fuel s lo h w c1 (by omega)
      obtain ⟨q2, v2⟩ := projectNode_wfInv f pred fuel _ hi w1 q1 (e1.ids _ c2) (by omega)
      have t1 := v1 var a1
      rw [← e2.dat _ (w1.fresh _ m1)] at t1
      have t2 := v2 var (by rw [e1.dat _ (h.fresh _ c2)]; exact a2)
      split
      · obtain ⟨q3, v3⟩ := recDescend_wfInv f _ _ _ _ w2 q2 (e2.ids _ m1) m2 (Nat.lt_succ_self _)
        refine ⟨q3, fun z hz => ?_⟩
        have hz' : var ≤ z := by rw [hd] at hz; exact Nat.le_of_lt hz
        exact v3 z (t1.mono hz') (t2.mono hz')
      · obtain ⟨q3, v3⟩ := joinNode_wfInv (var := var) w2 q2 (e2.ids _ m1) m2 t1 t2
        exact ⟨q3, fun z hz => v3 z (by rw [hd] at hz; exact hz)⟩

theorem project_wfInv (f : Nat → Nat → Nat) (pred : Nat → Bool) {s : Store} {a dst : Nat} (hi : WInv s []) (w : WfInv s) :
    WfInv (project f pred s a dst) := by
  unfold project
  split
  · rename_i ra hfa hfd
    exact addHandle_wfInv (projectNode_wfInv f pred (ra + 1) s ra hi w (hi.rin ra (root_mem hfa)) (Nat.lt_succ_self _)).1
  · exact w

/-! ## GetMtbddForPrefix -/

theorem getPrefix_wfInv {s : Store} {a dst : Nat} {asgn : List (Option Bool)} {off : Nat} (w : WfInv s) :
    WfInv (getPrefix s a dst asgn off) := by
  unfold getPrefix
  split
  · exact addHandle_wfInv w
  · exact w

/-! ## ExtendWith -/

theorem vltB_iff {x : Nat} {d : Data} : vltB x d = true ↔ VLt x d := by
  cases d <;> simp [vltB, VLt]

/-- `buildCube_wfInv` of `StoreRefine.lean` with the exact condition: only the FIRST spawned node sits on the given root -/
theorem buildCube_wfInv' (sink d : Nat) : ∀ (as : List (Option Bool)) (s : Store) (proc i : Nat), WInv s [] → WfInv s →
    sink ∈ s.ids → proc ∈ s.ids → s.dat sink = .leaf d → proc ≠ sink →
    (∀ k, firstSet as = some k → VLt (i + k) (s.dat proc)) → WfInv (buildCube sink s proc i as).1
  | [], _, _, _, _, w, _, _, _, _, _ => w
  | none :: as, s, proc, i, h, w, hs, hp, ds, hne, hv => by
    simp only [buildCube]
    refine buildCube_wfInv' sink d as s proc (i+1) h w hs hp ds hne (fun k hk => ?_)
    have := hv (k+1) (by simp [firstSet, hk])
    rwa [show i + (k + 1) = i + 1 + k by omega] at this
  | some b :: as, s, proc, i, h, w, hs, hp, ds, hne, hv =>
    buildCube_wfInv sink d (some b :: as) s proc i h w hs hp ds hne (hv 0 rfl)

theorem cubeFinish_wfInv {r : Store × Nat} {node sink d : Nat} (w : WfInv r.1) : WfInv (cubeFinish r node sink d) := by
  unfold cubeFinish
  split
  · split
    · exact w.shrink rfl (fun x hx => List.mem_of_mem_erase hx)
    · exact w
  · exact w

theorem extendWith_wfInv {s : Store} {a dst : Nat} {asgn : List (Option Bool)} {off d : Nat} (hi : WInv s []) (w : WfInv s)
    (ok : ∀ ra, find a s.hs = some ra → find dst s.hs = none → ∀ k, firstSet asgn = some k → VLt (off + k) (s.dat ra)) :
    WfInv (extendWith s a dst asgn off d) := by
  unfold extendWith
  split
  · rename_i ra hfa hfd
    have hra : ra ∈ s.ids := hi.rin ra (root_mem hfa)
    split
    · exact addHandle_wfInv w
    · rename_i hnd
      obtain ⟨w2, e2, m2, d2, _⟩ := spawnLeaf_inv (v := d) hi
      have q2 := spawnLeaf_wfInv (v := d) hi w
      have dra : (spawnLeaf s d).1.dat ra = s.dat ra := e2.dat _ (hi.fresh _ hra)
      have hns : ra ≠ (spawnLeaf s d).2 := fun e => hnd (by rw [← dra, e, d2])
      apply addHandle_wfInv
      apply cubeFinish_wfInv
      rw [buildCubeT_eq]
      refine buildCube_wfInv' _ d asgn _ _ (0 + off) w2 q2 m2 (e2.ids _ hra) d2 hns (fun k hk => ?_)
      rw [dra, Nat.zero_add]
      exact ok ra hfa hfd k hk
  · exact w

end Vata.RcSX
