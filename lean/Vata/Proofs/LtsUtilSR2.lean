import Vata.Proofs.LtsUtilSR

/-!
# `SplittingRelation` — part 2: `erase` and the engine's erase loop over a row

`erase_refines`, `eraseRow_refines` (the loop reads `right_` of the cell just reclaimed: `erase_shape` shows that the
fields of the reclaimed cell stay intact).
-/
namespace Vata.LU.SR
namespace P
local notation "cs" => List.map Ptr.cell

/-! ### small facts about `lastP` / `headP` -/

theorem lastP_ne_cell {l : List Nat} {a : Nat} {b : Ptr} (h : a ∉ l) (hb : b ≠ .cell a) : lastP b l ≠ .cell a := by
  rcases lastP_cases l b with ⟨_, h2⟩ | ⟨x, h1, h2⟩
  · rw [h2]; exact hb
  · rw [h2]; intro e; exact h (Ptr.cell.inj e ▸ h1)

theorem headP_ne_cell {l : List Nat} {a : Nat} {e : Ptr} (h : a ∉ l) (hb : e ≠ .cell a) : headP l e ≠ .cell a := by
  rcases headP_cases l e with ⟨_, h2⟩ | ⟨x, h1, h2⟩
  · rw [h2]; exact hb
  · rw [h2]; intro e; exact h (Ptr.cell.inj e ▸ h1)

theorem lastP_rowS {l : List Nat} {i k : Nat} (h : k ≠ i) : lastP (.rowS i) l ≠ .rowS k := by
  rcases lastP_cases l (.rowS i) with ⟨_, h2⟩ | ⟨x, _, h2⟩ <;> rw [h2] <;> simp [Ne.symm h]

theorem headP_rowS {l : List Nat} {i k : Nat} (h : k ≠ i) : headP l (.rowS i) ≠ .rowS k := by
  rcases headP_cases l (.rowS i) with ⟨_, h2⟩ | ⟨x, _, h2⟩ <;> rw [h2] <;> simp [Ne.symm h]

theorem lastP_colS {l : List Nat} {i k : Nat} (h : k ≠ i) : lastP (.colS i) l ≠ .colS k := by
  rcases lastP_cases l (.colS i) with ⟨_, h2⟩ | ⟨x, _, h2⟩ <;> rw [h2] <;> simp [Ne.symm h]

theorem headP_colS {l : List Nat} {i k : Nat} (h : k ≠ i) : headP l (.colS i) ≠ .colS k := by
  rcases headP_cases l (.colS i) with ⟨_, h2⟩ | ⟨x, _, h2⟩ <;> rw [h2] <;> simp [Ne.symm h]

/-! ### frames for whole rows / columns -/

theorem DL_frame_closed {nxt prv nxt' prv' : Ptr → Option Ptr} (b e : Ptr) (l : List Nat)
    (h : DL nxt prv (b :: cs l ++ [e])) (h1 : ∀ p ∈ b :: cs l, nxt' p = nxt p)
    (h2 : ∀ p ∈ cs l ++ [e], prv' p = prv p) : DL nxt' prv' (b :: cs l ++ [e]) := by
  refine DL_congr _ h ?_ ?_
  · intro p hp; rw [List.dropLast_concat] at hp; exact h1 p hp
  · intro p hp; exact h2 p (by simpa using hp)

theorem RowC_frame {o o' : Obs} {R R' : Nat → List Nat} {k : Nat} (h : RowC o R k) (hR : R' k = R k)
    (h1 : ∀ p ∈ Ptr.rowS k :: cs (R k), o'.gr p = o.gr p)
    (h2 : ∀ p ∈ cs (R k) ++ [Ptr.rowS (k + 1)], o'.gl p = o.gl p) : RowC o' R' k := by
  unfold RowC; rw [hR]; exact DL_frame_closed _ _ _ h h1 h2

theorem ColC_frame {o o' : Obs} {C C' : Nat → List Nat} {k : Nat} (h : ColC o C k) (hC : C' k = C k)
    (h1 : ∀ p ∈ Ptr.colS k :: cs (C k), o'.gd p = o.gd p)
    (h2 : ∀ p ∈ cs (C k) ++ [Ptr.colS (k + 1)], o'.gu p = o.gu p) : ColC o' C' k := by
  unfold ColC; rw [hC]; exact DL_frame_closed _ _ _ h h1 h2

/-! ### removing one cell -/

/-- remove the address `e` from all lists -/
def rm (e : Nat) (R : Nat → List Nat) : Nat → List Nat := fun k => (R k).filter (fun a => a != e)

theorem mem_rm {e a k : Nat} {R : Nat → List Nat} : a ∈ rm e R k ↔ a ∈ R k ∧ a ≠ e := by
  simp [rm, List.mem_filter]

theorem rm_sublist (e k : Nat) (R : Nat → List Nat) : (rm e R k).Sublist (R k) := List.filter_sublist

theorem rm_of_not_mem {e k : Nat} {R : Nat → List Nat} (h : e ∉ R k) : rm e R k = R k := by
  unfold rm; rw [List.filter_eq_self]; intro a ha; simp; intro e'; exact h (e' ▸ ha)

theorem rm_mid {e k : Nat} {R : Nat → List Nat} {l1 l2 : List Nat} (h : R k = l1 ++ e :: l2) (hnd : (R k).Nodup) :
    rm e R k = l1 ++ l2 := by
  rw [h] at hnd
  have h1 : e ∉ l1 := fun hm => (List.nodup_append.1 hnd).2.2 e hm e (by simp) rfl
  have h2 : e ∉ l2 := (List.nodup_cons.1 (List.nodup_append.1 hnd).2.1).1
  unfold rm; rw [h, List.filter_append, List.filter_cons]
  simp only [bne_self_eq_false, Bool.false_eq_true, if_false]
  rw [List.filter_eq_self.2, List.filter_eq_self.2]
  · intro a ha; simp; intro e'; exact h2 (e' ▸ ha)
  · intro a ha; simp; intro e'; exact h1 (e' ▸ ha)

theorem Data.rm {col row : Nat → Nat} {n : Nat} {R C : Nat → List Nat} (d : Data col row n R C) (e : Nat) :
    Data col row n (rm e R) (rm e C) where
  rrow i a ha := d.rrow i a (mem_rm.1 ha).1
  ccol j a ha := d.ccol j a (mem_rm.1 ha).1
  rc i a ha := mem_rm.2 ⟨d.rc i a (mem_rm.1 ha).1, (mem_rm.1 ha).2⟩
  cr j a ha := mem_rm.2 ⟨d.cr j a (mem_rm.1 ha).1, (mem_rm.1 ha).2⟩
  rlt i a ha := d.rlt i a (mem_rm.1 ha).1
  rnd i := List.Nodup.sublist ((rm_sublist e i R).map col) (d.rnd i)
  csorted j := List.Pairwise.sublist ((rm_sublist e j C).map row) (d.csorted j)

theorem Shape.erase {o : Obs} {n : Nat} {R C : Nat → List Nat} (h : Shape o n R C) {i e : Nat} {l1 l2 m1 m2 : List Nat}
    (hR : R i = l1 ++ e :: l2) (hC : C (o.col e) = m1 ++ e :: m2) :
    Shape { o with gd := upd o.gd (lastP (.colS (o.col e)) m1) (headP m2 (.colS (o.col e + 1))),
                   gu := upd o.gu (headP m2 (.colS (o.col e + 1))) (lastP (.colS (o.col e)) m1),
                   gr := upd o.gr (lastP (.rowS i) l1) (headP l2 (.rowS (i + 1))),
                   gl := upd o.gl (headP l2 (.rowS (i + 1))) (lastP (.rowS i) l1),
                   free := e :: o.free } n (rm e R) (rm e C) := by
  have d := h.data
  have heR : e ∈ R i := by rw [hR]; simp
  have heC : e ∈ C (o.col e) := by rw [hC]; simp
  have hi : i < n := (d.rlt i e heR).1
  have hj : o.col e < n := (d.rlt i e heR).2
  have hndR := d.R_nodup i
  have hndC := d.C_nodup (o.col e)
  have hl1 : ∀ a ∈ l1, a ∈ R i := fun a ha => by rw [hR]; simp [ha]
  have hl2 : ∀ a ∈ l2, a ∈ R i := fun a ha => by rw [hR]; simp [ha]
  have hm1 : ∀ a ∈ m1, a ∈ C (o.col e) := fun a ha => by rw [hC]; simp [ha]
  have hm2 : ∀ a ∈ m2, a ∈ C (o.col e) := fun a ha => by rw [hC]; simp [ha]
  refine ⟨d.rm e, ⟨?_, ?_, ?_, ?_⟩, ?_, ?_, h.size, h.nr, h.nc⟩
  · intro k a ha; exact h.mem.lt k a (mem_rm.1 ha).1
  · intro k a ha
    have := mem_rm.1 ha
    show a ∉ e :: o.free
    simp only [List.mem_cons, not_or]
    exact ⟨this.2, h.mem.nfree k a this.1⟩
  · show (e :: o.free).Nodup
    exact List.nodup_cons.2 ⟨h.mem.nfree i e heR, h.mem.fnd⟩
  · intro a ha
    show a < o.next
    rcases List.mem_cons.1 ha with rfl | ha
    · exact h.mem.lt i _ heR
    · exact h.mem.flt a ha
  · intro k hk
    by_cases hki : k = i
    · subst hki
      unfold RowC
      rw [rm_mid hR hndR]
      have hc := h.rowC k hk
      unfold RowC at hc; rw [hR] at hc
      refine DL_remove _ _ l1 l2 e hc ?_ (fun y hy => upd_ne _ _ hy) (upd_same _ _ _)
        (fun y hy => upd_ne _ _ hy) (upd_same _ _ _)
      rw [← hR]; exact chain_nodup_row _ _ _ hndR (by omega)
    · have hek : e ∉ R k := fun hm => hki ((d.rrow k e hm).symm.trans (d.rrow i e heR))
      refine RowC_frame (h.rowC k hk) (rm_of_not_mem hek) ?_ ?_
      · intro p hp
        refine upd_ne _ _ ?_
        rcases List.mem_cons.1 hp with rfl | hp
        · exact (lastP_rowS hki).symm
        · obtain ⟨a, ha, rfl⟩ := List.mem_map.1 hp
          refine (lastP_ne_cell ?_ (by simp)).symm
          intro hm; exact hki ((d.rrow k a ha).symm.trans (d.rrow i a (hl1 a hm)))
      · intro p hp
        refine upd_ne _ _ ?_
        rcases List.mem_append.1 hp with hp | hp
        · obtain ⟨a, ha, rfl⟩ := List.mem_map.1 hp
          refine (headP_ne_cell ?_ (by simp)).symm
          intro hm; exact hki ((d.rrow k a ha).symm.trans (d.rrow i a (hl2 a hm)))
        · rw [List.mem_singleton.1 hp]
          exact (headP_rowS (by omega)).symm
  · intro k hk
    by_cases hkj : k = o.col e
    · subst hkj
      unfold ColC
      rw [rm_mid hC hndC]
      have hc := h.colC _ hk
      unfold ColC at hc; rw [hC] at hc
      refine DL_remove _ _ m1 m2 e hc ?_ (fun y hy => upd_ne _ _ hy) (upd_same _ _ _)
        (fun y hy => upd_ne _ _ hy) (upd_same _ _ _)
      rw [← hC]; exact chain_nodup_col _ _ _ hndC (by omega)
    · have hek : e ∉ C k := fun hm => hkj (d.ccol k e hm).symm
      refine ColC_frame (h.colC k hk) (rm_of_not_mem hek) ?_ ?_
      · intro p hp
        refine upd_ne _ _ ?_
        rcases List.mem_cons.1 hp with rfl | hp
        · exact (lastP_colS hkj).symm
        · obtain ⟨a, ha, rfl⟩ := List.mem_map.1 hp
          refine (lastP_ne_cell ?_ (by simp)).symm
          intro hm; exact hkj ((d.ccol k a ha).symm.trans (d.ccol _ a (hm1 a hm)))
      · intro p hp
        refine upd_ne _ _ ?_
        rcases List.mem_append.1 hp with hp | hp
        · obtain ⟨a, ha, rfl⟩ := List.mem_map.1 hp
          refine (headP_ne_cell ?_ (by simp)).symm
          intro hm; exact hkj ((d.ccol k a ha).symm.trans (d.ccol _ a (hm2 a hm)))
        · rw [List.mem_singleton.1 hp]
          exact (headP_colS (by omega)).symm

theorem erase_obs {s : T} {e : Nat} {L Rr U D : Ptr}
    (hl : (obs s).gl (.cell e) = some L) (hr : (obs s).gr (.cell e) = some Rr)
    (hu : (obs s).gu (.cell e) = some U) (hd : (obs s).gd (.cell e) = some D)
    (hL : (obs s).gr L = some (.cell e)) (hRr : (obs s).gl Rr = some (.cell e))
    (hU : (obs s).gd U = some (.cell e)) (hD : (obs s).gu D = some (.cell e))
    (hLe : L ≠ .cell e) (hUe : U ≠ .cell e) :
    ∃ s', erase s e = some s' ∧
      obs s' = { obs s with gd := upd (obs s).gd U D, gu := upd (obs s).gu D U, gr := upd (obs s).gr L Rr,
                            gl := upd (obs s).gl Rr L, free := e :: (obs s).free } := by
  unfold erase
  simp only [up_of hu, down_of hd]
  obtain ⟨s1, h1, e1⟩ := setDown_obs D hU
  have a1 : (obs s1).gd (.cell e) = some D := by rw [e1]; simp only []; rw [upd_ne _ _ hUe.symm]; exact hd
  have b1 : (obs s1).gu (.cell e) = some U := by rw [e1]; exact hu
  have c1 : (obs s1).gu D = some (.cell e) := by rw [e1]; exact hD
  obtain ⟨s2, h2, e2⟩ := setUp_obs U c1
  have a2 : (obs s2).gl (.cell e) = some L := by rw [e2, e1]; exact hl
  have b2 : (obs s2).gr (.cell e) = some Rr := by rw [e2, e1]; exact hr
  have c2 : (obs s2).gr L = some (.cell e) := by rw [e2, e1]; exact hL
  obtain ⟨s3, h3, e3⟩ := setRight_obs Rr c2
  have a3 : (obs s3).gr (.cell e) = some Rr := by rw [e3]; simp only []; rw [upd_ne _ _ hLe.symm]; exact b2
  have b3 : (obs s3).gl (.cell e) = some L := by rw [e3]; exact a2
  have c3 : (obs s3).gl Rr = some (.cell e) := by rw [e3, e2, e1]; exact hRr
  obtain ⟨s4, h4, e4⟩ := setLeft_obs L c3
  simp only [h1, down_of a1, up_of b1, h2, left_of a2, right_of b2, h3, right_of a3, left_of b3, h4]
  refine ⟨_, rfl, ?_⟩
  show ({ obs s4 with free := e :: (obs s4).free } : Obs) = _
  rw [e4, e3, e2, e1]

theorem inj_of_nodup_map {α β : Type} (f : α → β) : ∀ {l : List α}, (l.map f).Nodup → ∀ {x y : α}, x ∈ l → y ∈ l →
    f x = f y → x = y
  | [], _, _, _, hx, _, _ => by simp at hx
  | a :: l, h, x, y, hx, hy, e => by
    simp only [List.map_cons, List.nodup_cons, List.mem_map, not_exists, not_and] at h
    rcases List.mem_cons.1 hx with hx | hx <;> rcases List.mem_cons.1 hy with hy | hy
    · rw [hx, hy]
    · rw [hx] at e; exact absurd e.symm (h.1 y hy)
    · rw [hy] at e; exact absurd e (h.1 x hx)
    · exact inj_of_nodup_map f h.2 hx hy e

/-- `erase` of a live cell: succeeds, keeps the shape (the cell is gone from its row and its column), and leaves the
fields of the reclaimed cell and all `col`/`row` fields intact -/
theorem erase_shape {s : T} {n : Nat} {R C : Nat → List Nat} (h : Shape (obs s) n R C) {i e : Nat} (he : e ∈ R i) :
    ∃ s', erase s e = some s' ∧ Shape (obs s') n (rm e R) (rm e C) ∧ (obs s').col = (obs s).col ∧
      (obs s').row = (obs s).row ∧ (obs s').gr (.cell e) = (obs s).gr (.cell e) ∧
      s'.rows.length = s.rows.length := by
  have d := h.data
  obtain ⟨l1, l2, hR⟩ := List.append_of_mem he
  obtain ⟨m1, m2, hC⟩ := List.append_of_mem (d.rc i e he)
  have hi : i < n := (d.rlt i e he).1
  have hj : (obs s).col e < n := (d.rlt i e he).2
  have hr := h.rowC i hi
  have hc := h.colC _ hj
  unfold RowC at hr; unfold ColC at hc
  rw [hR] at hr; rw [hC] at hc
  obtain ⟨r1, r2, r3, r4⟩ := DL_mid _ _ _ _ _ hr
  obtain ⟨c1, c2, c3, c4⟩ := DL_mid _ _ _ _ _ hc
  have hndR := d.R_nodup i
  have hndC := d.C_nodup ((obs s).col e)
  rw [hR] at hndR; rw [hC] at hndC
  have hl1 : e ∉ l1 := fun hm => (List.nodup_append.1 hndR).2.2 e hm e (by simp) rfl
  have hm1 : e ∉ m1 := fun hm => (List.nodup_append.1 hndC).2.2 e hm e (by simp) rfl
  have hLe : lastP (.rowS i) l1 ≠ .cell e := lastP_ne_cell hl1 (by simp)
  have hUe : lastP (.colS ((obs s).col e)) m1 ≠ .cell e := lastP_ne_cell hm1 (by simp)
  obtain ⟨s', h1, h2⟩ := erase_obs r2 r1 c2 c1 r3 r4 c3 c4 hLe hUe
  refine ⟨s', h1, ?_, ?_, ?_, ?_, ?_⟩
  · rw [h2]; exact h.erase hR hC
  · rw [h2]
  · rw [h2]
  · rw [h2]; exact upd_ne _ _ hLe.symm
  · have : (obs s').nr = (obs s).nr := by rw [h2]
    exact this

theorem eraseLoop_spec (mask : List Nat) (i n : Nat) : ∀ (todo : List Nat) (fuel : Nat) (s : T) (R C : Nat → List Nat)
    (kept : List Nat), Shape (obs s) n R C → i < n → R i = kept ++ todo → todo.length < fuel →
    ∃ s' R' C', eraseLoop mask i fuel s (headP todo (.rowS (i + 1))) = some s' ∧ Shape (obs s') n R' C' ∧
      R' i = kept ++ todo.filter (fun a => !mask.contains ((obs s).col a)) ∧ (∀ k, k ≠ i → R' k = R k) ∧
      (obs s').col = (obs s).col ∧ s'.rows.length = s.rows.length
  | [], fuel + 1, s, R, C, kept, h, _, hR, _ =>
    ⟨s, R, C, by simp [eraseLoop], h, by simpa using hR, fun _ _ => rfl, rfl, rfl⟩
  | a :: todo, fuel + 1, s, R, C, kept, h, hi, hR, hf => by
    have d := h.data
    have ha : a ∈ R i := by rw [hR]; simp
    have hr := h.rowC i hi
    unfold RowC at hr; rw [hR] at hr
    obtain ⟨r1, -, -, -⟩ := DL_mid _ _ _ _ _ hr
    simp only [headP_cons, eraseLoop, reduceCtorEq, if_false]
    by_cases hm : mask.contains (s.cells.get a).col = true
    · obtain ⟨s1, e1, hs1, hcol, -, hgr, hlen1⟩ := erase_shape h ha
      simp only [hm, if_true, e1]
      rw [right_of (hgr.trans r1)]
      have hR1 : rm a R i = kept ++ todo := rm_mid hR (d.R_nodup i)
      obtain ⟨s', R', C', e2, hs', hR', hk', hcol', hlen'⟩ :=
        eraseLoop_spec mask i n todo fuel s1 (rm a R) (rm a C) kept hs1 hi hR1 (by simpa using hf)
      refine ⟨s', R', C', e2, hs', ?_, ?_, hcol'.trans hcol, hlen'.trans hlen1⟩
      · rw [hR', hcol, List.filter_cons]
        have : (obs s).col a ∈ mask := by simpa [col_cell] using hm
        simp [this]
      · intro k hk
        rw [hk' k hk]
        exact rm_of_not_mem (fun hmem => hk ((d.rrow k a hmem).symm.trans (d.rrow i a ha)))
    · simp only [hm, if_false, Bool.false_eq_true]
      rw [right_of r1]
      obtain ⟨s', R', C', e2, hs', hR', hk', hcol', hlen'⟩ :=
        eraseLoop_spec mask i n todo fuel s R C (kept ++ [a]) h hi (by rw [hR]; simp) (by simpa using hf)
      refine ⟨s', R', C', e2, hs', ?_, hk', hcol', hlen'⟩
      rw [hR', List.filter_cons]
      have : (obs s).col a ∉ mask := by simpa [col_cell] using hm
      simp [this]

end P

/-- `eraseRow_refines` together with "the capacity does not change" -/
theorem eraseRow_refines_cap {s : T} {rel : List (List Nat)} (h : Inv s rel) {i : Nat} (hi : i < rel.length)
    (mask : List Nat) :
    ∃ s', eraseRow s i mask = some s' ∧
      Inv s' (rel.set i ((rel.getD i []).filter (fun c => !mask.contains c))) ∧ s'.rows.length = s.rows.length := by
  obtain ⟨R, C, hs, hv⟩ := h
  have hr := hs.rowC i hi
  obtain ⟨rw, h1, h2⟩ := P.rows_first (P.DL_head _ _ _ hr)
  have hlen : (R i).length < s.next + 1 :=
    Nat.lt_succ_of_le (P.length_le_of_lt (hs.data.R_nodup i) (hs.mem.lt i))
  obtain ⟨s', R', C', e, hs', hR', hk, hcol, hcap⟩ :=
    P.eraseLoop_spec mask i rel.length (R i) (s.next + 1) s R C [] hs hi (by simp) hlen
  refine ⟨s', by simp only [eraseRow, h1, h2]; exact e, ⟨R', C', by simpa using hs', ?_⟩, hcap⟩
  intro k hk'
  rw [List.length_set] at hk'
  rw [hcol]
  by_cases hki : k = i
  · subst hki
    rw [hR', List.getD_eq_getElem?_getD, List.getElem?_set_self (by simpa using hk'), Option.getD_some, ← hv k hi]
    simp [List.filter_map, Function.comp_def]
  · rw [hk k hki, List.getD_eq_getElem?_getD, List.getElem?_set_ne (fun e => hki e.symm), ← List.getD_eq_getElem?_getD]
    exact hv k hk'

/-- erasing through the row iterator (the engine's loop) is `filter` on that row of the value -/
theorem eraseRow_refines {s : T} {rel : List (List Nat)} (h : Inv s rel) {i : Nat} (hi : i < rel.length)
    (mask : List Nat) :
    ∃ s', eraseRow s i mask = some s' ∧
      Inv s' (rel.set i ((rel.getD i []).filter (fun c => !mask.contains c))) := by
  obtain ⟨s', h1, h2, _⟩ := eraseRow_refines_cap h hi mask
  exact ⟨s', h1, h2⟩

/-- `erase(iter)` for an iterator of `row(i)` standing on the entry `c`: that entry leaves the row of the value -/
theorem erase_refines {s : T} {rel : List (List Nat)} (h : Inv s rel) {i : Nat} (hi : i < rel.length)
    {l : List (Nat × Nat)} (hl : rowCells s i = some l) {e c : Nat} (he : (e, c) ∈ l) :
    ∃ s', erase s e = some s' ∧ Inv s' (rel.set i ((rel.getD i []).filter (fun x => x != c))) := by
  obtain ⟨R, C, hs, hv⟩ := h
  rw [hs.rowCells_eq hi] at hl
  obtain rfl := Option.some.inj hl
  obtain ⟨a, ha, hac⟩ := List.mem_map.1 he
  obtain ⟨rfl, rfl⟩ := Prod.mk.inj hac
  obtain ⟨s', e1, hs', hcol, -, -, -⟩ := P.erase_shape hs ha
  refine ⟨s', e1, P.rm a R, P.rm a C, by simpa using hs', ?_⟩
  intro k hk'
  rw [List.length_set] at hk'
  rw [hcol]
  by_cases hki : k = i
  · subst hki
    rw [List.getD_eq_getElem?_getD, List.getElem?_set_self (by simpa using hk'), Option.getD_some, ← hv k hi,
      List.filter_map]
    congr 1
    unfold P.rm
    refine List.filter_congr (fun x hx => ?_)
    by_cases hxa : x = a
    · subst hxa; simp
    · have : (P.obs s).col x ≠ (P.obs s).col a := fun e => hxa (P.inj_of_nodup_map _ (hs.data.rnd k) hx ha e)
      rw [bne_iff_ne.2 hxa]; exact (bne_iff_ne.2 this).symm
  · rw [P.rm_of_not_mem (fun hmem => hki ((hs.data.rrow k a hmem).symm.trans (hs.data.rrow i a ha))),
      List.getD_eq_getElem?_getD, List.getElem?_set_ne (fun e => hki e.symm), ← List.getD_eq_getElem?_getD]
    exact hv k hk'

namespace P

end P
end Vata.LU.SR
