import Vata.MtbddOps
/-!
# MTBDD operations: semantic correctness and preservation of well-formedness (property C17)

Model: `Vata/MtbddOps.lean` (+ `mk`, `apply2` of `Vata/Apply.lean`, `Node`, `eval`, `WF`, `canonicity` of `Vata/Mtbdd.lean`).
`WF` = ordered (larger variable nearer the root) and reduced (`lo ≠ hi`).

* §0 `below_mk`, `wf_mk`, `below_of_wf_varLt`, `exists_below`, `eq_iff_sem` (`operator==` decides semantic equality)
* §1 `agrees_iff`, `constructLoop_eval`, `constructOn_eval`, `construct_eval_agrees`, `construct_eval`, `constructLoop_wf`,
     `constructOn_wf`, `construct_wf`, `construct_below`, `extendWith_eval`, `extendWith_wf`
* §2 `apply1_eval`, `apply1_below`, `apply1_wf`
* §3 `apply2_below`, `apply2_wf`
* §4 `branch3_var`, `branch3_none`, `apply3_eval`, `topVar3_dom`, `apply3_below`, `apply3_wf`
* §5 `project_below`, `project_wf`, `projectVar_wf`, `project_eval` (one variable, idempotent operation),
     `project_ub`, `project_least` (any predicate: least upper bound for an ACI operation)
* §6 `rename_eval`, `rename_below`, `rename_inj`, `rename_wf`
* §7 `getValue_dontcare`, `getValue_total`
* §8 `getPaths_sound`, `getPaths_complete`, `getPaths_iff`
* §9 `getPrefix_eval`, `getPrefix_wf`
* §10 `mem_voidApply1`, `mem_voidApply2`
* §11 examples
-/
namespace Vata.M
variable {α β γ δ : Type}

/-! ## 0. the reducing constructor `mk`, generalities on `Below` / `WF` -/

theorem below_mk [DecidableEq α] {x y : Nat} {lo hi : Node α} (hy : y < x) (hl : Below x lo) (hh : Below x hi) :
    Below x (mk y lo hi) := by
  unfold mk
  split
  · exact hl
  · exact ⟨hy, hl, hh⟩

theorem wf_mk [DecidableEq α] {x : Nat} {lo hi : Node α} (bl : Below x lo) (bh : Below x hi) (wl : WF lo) (wh : WF hi) :
    WF (mk x lo hi) := by
  unfold mk
  split
  · exact wl
  · rename_i h; exact ⟨h, bl, bh, wl, wh⟩

/-- the root variable (if any) is smaller than `x` -/
def VarLt (x : Nat) : Node α → Prop
  | .leaf _ => True
  | .node y _ _ => y < x

theorem below_of_wf_varLt {x : Nat} : ∀ {a : Node α}, WF a → VarLt x a → Below x a
  | .leaf _, _, _ => trivial
  | .node _ _ _, ⟨_, bl, bh, _, _⟩, h => ⟨h, Below.mono (Nat.le_of_lt h) bl, Below.mono (Nat.le_of_lt h) bh⟩

theorem exists_below : ∀ (a : Node α), ∃ x, Below x a
  | .leaf _ => ⟨0, trivial⟩
  | .node y lo hi => by
    obtain ⟨x1, h1⟩ := exists_below lo
    obtain ⟨x2, h2⟩ := exists_below hi
    exact ⟨x1 + x2 + y + 1, by omega, Below.mono (by omega) h1, Below.mono (by omega) h2⟩

/-- `operator==` (pointer equality of hash-consed, i.e. structural equality of ordered reduced diagrams) decides
    semantic equality -/
theorem eq_iff_sem {a b : Node α} (wa : WF a) (wb : WF b) : a = b ↔ ∀ ρ, eval a ρ = eval b ρ :=
  ⟨fun h _ => by rw [h], canonicity a b wa wb⟩

/-! ## 1. `construct` -/

theorem agrees_iff (ρ : Nat → Bool) : ∀ (as : List (Option Bool)) (i : Nat),
    agrees ρ as i = true ↔ ∀ j b, as[j]? = some (some b) → ρ (i + j) = b
  | [], i => by simp [agrees]
  | none :: as, i => by
    rw [agrees, agrees_iff ρ as (i + 1)]
    constructor
    · intro h j b hj
      cases j with
      | zero => simp at hj
      | succ j => have := h j b (by simpa using hj); rw [← this]; congr 1; omega
    · intro h j b hj
      have := h (j + 1) b (by simpa using hj); rw [← this]; congr 1; omega
  | some c :: as, i => by
    rw [agrees, Bool.and_eq_true, agrees_iff ρ as (i + 1)]
    constructor
    · rintro ⟨h0, h⟩ j b hj
      cases j with
      | zero => simp at hj; subst hj; simpa using h0
      | succ j => have := h j b (by simpa using hj); rw [← this]; congr 1; omega
    · intro h
      refine ⟨?_, ?_⟩
      · have := h 0 c (by simp); simpa using this
      · intro j b hj
        have := h (j + 1) b (by simpa using hj); rw [← this]; congr 1; omega

theorem constructLoop_eval (tr : Nat → Nat) (sink : Node α) (ρ : Nat → Bool) :
    ∀ (as : List (Option Bool)) (i : Nat) (p : Node α),
      eval (constructLoop tr sink as i p) ρ
        = if agrees (fun j => ρ (tr j)) as i = true then eval p ρ else eval sink ρ
  | [], i, p => by simp [constructLoop, agrees]
  | none :: as, i, p => by rw [constructLoop, constructLoop_eval tr sink ρ as (i + 1) p, agrees]
  | some true :: as, i, p => by
    rw [constructLoop, constructLoop_eval tr sink ρ as (i + 1) _, agrees]
    cases h : ρ (tr i) <;> simp [eval, h]
  | some false :: as, i, p => by
    rw [constructLoop, constructLoop_eval tr sink ρ as (i + 1) _, agrees]
    cases h : ρ (tr i) <;> simp [eval, h]

theorem constructOn_eval [DecidableEq α] (tr : Nat → Nat) (asgn : List (Option Bool)) (a : Node α) (d : α)
    (ρ : Nat → Bool) :
    eval (constructOn tr asgn a d) ρ = if agrees (fun j => ρ (tr j)) asgn 0 = true then eval a ρ else d := by
  unfold constructOn
  split
  · rename_i h; subst h; simp [eval]
  · rw [constructLoop_eval]; rfl

/-- Boolean form of `construct_eval` -/
theorem construct_eval_agrees [DecidableEq α] (asgn : List (Option Bool)) (v d : α) (ρ : Nat → Bool) :
    eval (construct asgn v d) ρ = if agrees ρ asgn 0 = true then v else d := by
  unfold construct; rw [constructOn_eval]; rfl

open Classical in
/-- the MTBDD built by `constructMTBDD(asgn, v, d)` has the value `v` on the cube `asgn` and `d` elsewhere -/
theorem construct_eval [DecidableEq α] (asgn : List (Option Bool)) (v d : α) (ρ : Nat → Bool) :
    eval (construct asgn v d) ρ = if (∀ i b, asgn[i]? = some (some b) → ρ i = b) then v else d := by
  rw [construct_eval_agrees]
  have := agrees_iff ρ asgn 0
  simp only [Nat.zero_add] at this
  by_cases h : agrees ρ asgn 0 = true
  · rw [if_pos h, if_pos (this.mp h)]
  · rw [if_neg h, if_neg (fun h' => h (this.mpr h'))]

theorem constructLoop_wf (tr : Nat → Nat) (htr : ∀ i, tr i < tr (i + 1)) (d : α) :
    ∀ (as : List (Option Bool)) (i : Nat) (p : Node α), WF p → Below (tr i) p → p ≠ .leaf d →
      WF (constructLoop tr (.leaf d) as i p) ∧ Below (tr (i + as.length)) (constructLoop tr (.leaf d) as i p)
  | [], i, p, wp, bp, _ => ⟨wp, bp⟩
  | none :: as, i, p, wp, bp, hp => by
    have := constructLoop_wf tr htr d as (i + 1) p wp (Below.mono (Nat.le_of_lt (htr i)) bp) hp
    rw [constructLoop, List.length_cons, show i + (as.length + 1) = i + 1 + as.length by omega]
    exact this
  | some true :: as, i, p, wp, bp, hp => by
    have := constructLoop_wf tr htr d as (i + 1) (.node (tr i) (.leaf d) p)
      ⟨fun h => hp h.symm, trivial, bp, trivial, wp⟩
      ⟨htr i, trivial, Below.mono (Nat.le_of_lt (htr i)) bp⟩ (by simp)
    rw [constructLoop, List.length_cons, show i + (as.length + 1) = i + 1 + as.length by omega]
    exact this
  | some false :: as, i, p, wp, bp, hp => by
    have := constructLoop_wf tr htr d as (i + 1) (.node (tr i) p (.leaf d))
      ⟨hp, bp, trivial, wp, trivial⟩
      ⟨htr i, Below.mono (Nat.le_of_lt (htr i)) bp, trivial⟩ (by simp)
    rw [constructLoop, List.length_cons, show i + (as.length + 1) = i + 1 + as.length by omega]
    exact this

theorem constructOn_wf [DecidableEq α] (tr : Nat → Nat) (htr : ∀ i, tr i < tr (i + 1))
    (asgn : List (Option Bool)) (a : Node α) (d : α) (wa : WF a) (ba : Below (tr 0) a) :
    WF (constructOn tr asgn a d) ∧ Below (tr asgn.length) (constructOn tr asgn a d) := by
  unfold constructOn
  split
  · rename_i h; subst h; exact ⟨trivial, trivial⟩
  · rename_i h
    have := constructLoop_wf tr htr d asgn 0 a wa ba h
    rwa [Nat.zero_add] at this

theorem construct_wf [DecidableEq α] (asgn : List (Option Bool)) (v d : α) : WF (construct asgn v d) :=
  (constructOn_wf (fun x => x) (fun i => Nat.lt_succ_self i) asgn (.leaf v) d trivial trivial).1

theorem construct_below [DecidableEq α] (asgn : List (Option Bool)) (v d : α) :
    Below asgn.length (construct asgn v d) :=
  (constructOn_wf (fun x => x) (fun i => Nat.lt_succ_self i) asgn (.leaf v) d trivial trivial).2

/-- `ExtendWith`: value of the extended diagram -/
theorem extendWith_eval [DecidableEq α] (asgn : List (Option Bool)) (off : Nat) (a : Node α) (d : α)
    (ρ : Nat → Bool) :
    eval (extendWith asgn off a d) ρ = if agrees (fun j => ρ (j + off)) asgn 0 = true then eval a ρ else d := by
  unfold extendWith; rw [constructOn_eval]

/-- `ExtendWith` keeps diagrams ordered and reduced provided all variables of the argument are below the offset
    (as in the only use, `ExtendWith(prefix, SYMBOL_SIZE)`) -/
theorem extendWith_wf [DecidableEq α] (asgn : List (Option Bool)) (off : Nat) (a : Node α) (d : α)
    (wa : WF a) (ba : Below off a) : WF (extendWith asgn off a d) :=
  (constructOn_wf (fun x => x + off) (fun i => by omega) asgn a d wa (by simpa using ba)).1

/-! ## 2. `apply1` -/

theorem apply1_eval [DecidableEq β] (f : α → β) (ρ : Nat → Bool) :
    ∀ (a : Node α), eval (apply1 f a) ρ = f (eval a ρ)
  | .leaf v => rfl
  | .node x lo hi => by
    rw [apply1, eval_mk, apply1_eval f ρ lo, apply1_eval f ρ hi]; simp only [eval]; split <;> rfl

theorem apply1_below [DecidableEq β] (f : α → β) {x : Nat} :
    ∀ {a : Node α}, Below x a → Below x (apply1 f a)
  | .leaf _, _ => trivial
  | .node _ _ _, ⟨h, bl, bh⟩ => by
    rw [apply1]; exact below_mk h (apply1_below f bl) (apply1_below f bh)

theorem apply1_wf [DecidableEq β] (f : α → β) : ∀ {a : Node α}, WF a → WF (apply1 f a)
  | .leaf _, _ => trivial
  | .node _ _ _, ⟨_, bl, bh, wl, wh⟩ => by
    rw [apply1]; exact wf_mk (apply1_below f bl) (apply1_below f bh) (apply1_wf f wl) (apply1_wf f wh)

/-! ## 3. `apply2` keeps diagrams ordered and reduced -/

theorem apply2_below [DecidableEq γ] (f : α → β → γ) {z : Nat} :
    ∀ (a : Node α) (b : Node β), Below z a → Below z b → Below z (apply2 f a b) := by
  intro a b
  induction a, b using apply2.induct with
  | case1 v w => intro _ _; rw [apply2]; trivial
  | case2 x lo hi w ih1 ih2 =>
    intro ⟨h, bl, bh⟩ hb; rw [apply2]; exact below_mk h (ih1 bl hb) (ih2 bh hb)
  | case3 v y lo hi ih1 ih2 =>
    intro ha ⟨h, bl, bh⟩; rw [apply2]; exact below_mk h (ih1 ha bl) (ih2 ha bh)
  | case4 x alo ahi blo bhi ih1 ih2 =>
    intro ⟨h, al, ah⟩ ⟨_, bl, bh⟩
    rw [apply2]; simp only [if_true]; exact below_mk h (ih1 al bl) (ih2 ah bh)
  | case5 x alo ahi y blo bhi hne hlt ih1 ih2 =>
    intro ⟨h, al, ah⟩ hb
    rw [apply2]; simp only [hne, hlt, if_false, if_true]; exact below_mk h (ih1 al hb) (ih2 ah hb)
  | case6 x alo ahi y blo bhi hne hlt ih1 ih2 =>
    intro ha ⟨h, bl, bh⟩
    rw [apply2]; simp only [hne, hlt, if_false]; exact below_mk h (ih1 ha bl) (ih2 ha bh)

theorem apply2_wf [DecidableEq γ] (f : α → β → γ) :
    ∀ (a : Node α) (b : Node β), WF a → WF b → WF (apply2 f a b) := by
  intro a b
  induction a, b using apply2.induct with
  | case1 v w => intro _ _; rw [apply2]; trivial
  | case2 x lo hi w ih1 ih2 =>
    intro ⟨_, bl, bh, wl, wh⟩ hb; rw [apply2]
    exact wf_mk (apply2_below f _ _ bl trivial) (apply2_below f _ _ bh trivial) (ih1 wl hb) (ih2 wh hb)
  | case3 v y lo hi ih1 ih2 =>
    intro ha ⟨_, bl, bh, wl, wh⟩; rw [apply2]
    exact wf_mk (apply2_below f _ _ trivial bl) (apply2_below f _ _ trivial bh) (ih1 ha wl) (ih2 ha wh)
  | case4 x alo ahi blo bhi ih1 ih2 =>
    intro ⟨_, al, ah, wal, wah⟩ ⟨_, bl, bh, wbl, wbh⟩
    rw [apply2]; simp only [if_true]
    exact wf_mk (apply2_below f _ _ al bl) (apply2_below f _ _ ah bh) (ih1 wal wbl) (ih2 wah wbh)
  | case5 x alo ahi y blo bhi hne hlt ih1 ih2 =>
    intro ⟨_, al, ah, wal, wah⟩ wb
    have bb : Below x (Node.node y blo bhi) := below_of_wf_varLt wb hlt
    rw [apply2]; simp only [hne, hlt, if_false, if_true]
    exact wf_mk (apply2_below f _ _ al bb) (apply2_below f _ _ ah bb) (ih1 wal wb) (ih2 wah wb)
  | case6 x alo ahi y blo bhi hne hlt ih1 ih2 =>
    intro wa ⟨_, bl, bh, wbl, wbh⟩
    have hxy : x < y := by omega
    have ba : Below y (Node.node x alo ahi) := below_of_wf_varLt wa hxy
    rw [apply2]; simp only [hne, hlt, if_false]
    exact wf_mk (apply2_below f _ _ ba bl) (apply2_below f _ _ ba bh) (ih1 wa wbl) (ih2 wa wbh)

/-! ## 4. `apply3` -/

theorem branch3_node {a : Node α} {b : Node β} {c : Node γ} (h : branch3 a b c = true) :
    a = .node (varOf a) (lowIf true a) (highIf true a) := by
  cases a with
  | leaf v => simp [branch3] at h
  | node x lo hi => rfl

theorem branch3_le {a : Node α} {b : Node β} {c : Node γ} (h : branch3 a b c = true) :
    leafOrLe (varOf a) b = true ∧ leafOrLe (varOf a) c = true := by
  cases a with
  | leaf v => simp [branch3] at h
  | node x lo hi => simpa [branch3, varOf] using h

theorem leafOrLe_node {x : Nat} {a : Node α} (h : leafOrLe x a = true) (y : Nat) (lo hi : Node α)
    (ha : a = .node y lo hi) : y ≤ x := by
  subst ha; simpa [leafOrLe] using h

/-- two branched nodes carry the same variable -/
theorem branch3_pair {a : Node α} {b : Node β}
    (h1 : leafOrLe (varOf a) b = true) (h2 : leafOrLe (varOf b) a = true)
    (na : a = .node (varOf a) (lowIf true a) (highIf true a))
    (nb : b = .node (varOf b) (lowIf true b) (highIf true b)) : varOf a = varOf b := by
  have := leafOrLe_node h1 _ _ _ nb
  have := leafOrLe_node h2 _ _ _ na
  omega

/-- all the branched nodes carry the same variable, the `var` of `recDescend` -/
theorem branch3_var (a : Node α) (b : Node β) (c : Node γ) :
    (branch3 a b c = true → varOf a = topVar3 a b c) ∧
    (branch3 b a c = true → varOf b = topVar3 a b c) ∧
    (branch3 c a b = true → varOf c = topVar3 a b c) := by
  unfold topVar3
  refine ⟨fun h1 => ?_, fun h2 => ?_, fun h3 => ?_⟩
  · by_cases h3 : branch3 c a b = true
    · rw [if_pos h3]
      exact branch3_pair (branch3_le h1).2 (branch3_le h3).1 (branch3_node h1) (branch3_node h3)
    · rw [if_neg h3]
      by_cases h2 : branch3 b a c = true
      · rw [if_pos h2]; exact branch3_pair (branch3_le h1).1 (branch3_le h2).1 (branch3_node h1) (branch3_node h2)
      · rw [if_neg h2]
  · by_cases h3 : branch3 c a b = true
    · rw [if_pos h3]
      exact branch3_pair (branch3_le h2).2 (branch3_le h3).2 (branch3_node h2) (branch3_node h3)
    · rw [if_neg h3, if_pos h2]
  · rw [if_pos h3]

/-- if nothing is branched, all three nodes are leaves -/
theorem branch3_none {a : Node α} {b : Node β} {c : Node γ}
    (h : ¬ (branch3 a b c || branch3 b a c || branch3 c a b) = true) :
    a = .leaf (leafVal a) ∧ b = .leaf (leafVal b) ∧ c = .leaf (leafVal c) := by
  simp only [Bool.or_eq_true, not_or, Bool.not_eq_true] at h
  obtain ⟨⟨h1, h2⟩, h3⟩ := h
  cases a <;> cases b <;> cases c <;>
    simp only [branch3, leafOrLe, Bool.and_eq_false_iff, decide_eq_false_iff_not, Bool.and_true, Bool.true_and,
      Bool.true_eq_false] at h1 h2 h3 <;>
    first | exact ⟨rfl, rfl, rfl⟩ | omega

theorem eval_split (br : Bool) (a : Node α) (x : Nat) (h : br = true → varOf a = x) (ρ : Nat → Bool)
    (hn : br = true → a = .node (varOf a) (lowIf true a) (highIf true a)) :
    eval a ρ = if ρ x then eval (highIf br a) ρ else eval (lowIf br a) ρ := by
  cases br with
  | false => cases a <;> simp [lowIf, highIf]
  | true =>
    have h1 := h rfl; have h2 := hn rfl
    rw [h1] at h2
    conv => lhs; rw [h2]
    simp only [eval]

theorem apply3_eval [DecidableEq δ] (f : α → β → γ → δ) (ρ : Nat → Bool) :
    ∀ (a : Node α) (b : Node β) (c : Node γ), eval (apply3 f a b c) ρ = f (eval a ρ) (eval b ρ) (eval c ρ) := by
  intro a b c
  induction a, b, c using apply3.induct with
  | case1 a b c h ih1 ih2 =>
    rw [apply3, if_pos h, eval_mk, ih1, ih2]
    obtain ⟨v1, v2, v3⟩ := branch3_var a b c
    rw [eval_split (branch3 a b c) a _ v1 ρ branch3_node, eval_split (branch3 b a c) b _ v2 ρ branch3_node,
      eval_split (branch3 c a b) c _ v3 ρ branch3_node]
    split <;> rfl
  | case2 a b c h =>
    rw [apply3, if_neg h]
    obtain ⟨ha, hb, hc⟩ := branch3_none h
    rw [ha, hb, hc]; rfl

theorem below_lowIf {x : Nat} (br : Bool) : ∀ {a : Node α}, Below x a → Below x (lowIf br a)
  | .leaf _, _ => by cases br <;> trivial
  | .node _ _ _, h => by cases br; exact h; exact h.2.1
theorem below_highIf {x : Nat} (br : Bool) : ∀ {a : Node α}, Below x a → Below x (highIf br a)
  | .leaf _, _ => by cases br <;> trivial
  | .node _ _ _, h => by cases br; exact h; exact h.2.2
theorem wf_lowIf (br : Bool) : ∀ {a : Node α}, WF a → WF (lowIf br a)
  | .leaf _, _ => by cases br <;> trivial
  | .node _ _ _, h => by cases br; exact h; exact h.2.2.2.1
theorem wf_highIf (br : Bool) : ∀ {a : Node α}, WF a → WF (highIf br a)
  | .leaf _, _ => by cases br <;> trivial
  | .node _ _ _, h => by cases br; exact h; exact h.2.2.2.2

theorem varOf_lt_of_below {x : Nat} {a : Node α} (na : a = .node (varOf a) (lowIf true a) (highIf true a))
    (h : Below x a) : varOf a < x := by
  rw [na] at h; exact h.1

theorem leafOrLe_self {a : Node α} : leafOrLe (varOf a) a = true := by
  cases a <;> simp [leafOrLe, varOf]

/-- the variable chosen by `recDescend` dominates the root variables of all three nodes -/
theorem topVar3_dom {a : Node α} {b : Node β} {c : Node γ}
    (h : (branch3 a b c || branch3 b a c || branch3 c a b) = true) :
    leafOrLe (topVar3 a b c) a = true ∧ leafOrLe (topVar3 a b c) b = true ∧ leafOrLe (topVar3 a b c) c = true := by
  obtain ⟨v1, v2, v3⟩ := branch3_var a b c
  simp only [Bool.or_eq_true] at h
  rcases h with (h | h) | h
  · rw [← v1 h]; exact ⟨leafOrLe_self, (branch3_le h).1, (branch3_le h).2⟩
  · rw [← v2 h]; exact ⟨(branch3_le h).1, leafOrLe_self, (branch3_le h).2⟩
  · rw [← v3 h]; exact ⟨(branch3_le h).1, (branch3_le h).2, leafOrLe_self⟩

theorem topVar3_lt {x : Nat} {a : Node α} {b : Node β} {c : Node γ}
    (h : (branch3 a b c || branch3 b a c || branch3 c a b) = true)
    (ba : Below x a) (bb : Below x b) (bc : Below x c) : topVar3 a b c < x := by
  obtain ⟨v1, v2, v3⟩ := branch3_var a b c
  simp only [Bool.or_eq_true] at h
  rcases h with (h | h) | h
  · rw [← v1 h]; exact varOf_lt_of_below (branch3_node h) ba
  · rw [← v2 h]; exact varOf_lt_of_below (branch3_node h) bb
  · rw [← v3 h]; exact varOf_lt_of_below (branch3_node h) bc

/-- a node that is not branched is a leaf or has a root variable strictly below the chosen one -/
theorem notBranched_varLt {X : Nat} {a : Node α} {b : Node β} {c : Node γ}
    (da : leafOrLe X a = true) (db : leafOrLe X b = true) (dc : leafOrLe X c = true)
    (h : ¬ branch3 a b c = true) : VarLt X a := by
  cases a with
  | leaf v => trivial
  | node x lo hi =>
    have hx : x ≤ X := by simpa [leafOrLe] using da
    show x < X
    rcases Nat.lt_or_ge x X with hlt | hge
    · exact hlt
    · exfalso
      have : x = X := by omega
      subst this
      apply h
      simp [branch3, db, dc]

theorem below_top_lowIf {X : Nat} {br : Bool} {a : Node α} (wa : WF a)
    (h1 : br = true → varOf a = X) (h2 : ¬ br = true → VarLt X a) : Below X (lowIf br a) := by
  cases br with
  | false => exact below_of_wf_varLt wa (h2 (by simp))
  | true =>
    cases a with
    | leaf v => trivial
    | node x lo hi => have := h1 rfl; simp only [varOf] at this; subst this; exact wa.2.1

theorem below_top_highIf {X : Nat} {br : Bool} {a : Node α} (wa : WF a)
    (h1 : br = true → varOf a = X) (h2 : ¬ br = true → VarLt X a) : Below X (highIf br a) := by
  cases br with
  | false => exact below_of_wf_varLt wa (h2 (by simp))
  | true =>
    cases a with
    | leaf v => trivial
    | node x lo hi => have := h1 rfl; simp only [varOf] at this; subst this; exact wa.2.2.1

theorem apply3_below [DecidableEq δ] (f : α → β → γ → δ) {x : Nat} :
    ∀ (a : Node α) (b : Node β) (c : Node γ), Below x a → Below x b → Below x c → Below x (apply3 f a b c) := by
  intro a b c
  induction a, b, c using apply3.induct with
  | case1 a b c h ih1 ih2 =>
    intro ba bb bc
    rw [apply3, if_pos h]
    exact below_mk (topVar3_lt h ba bb bc)
      (ih1 (below_lowIf _ ba) (below_lowIf _ bb) (below_lowIf _ bc))
      (ih2 (below_highIf _ ba) (below_highIf _ bb) (below_highIf _ bc))
  | case2 a b c h => intro _ _ _; rw [apply3, if_neg h]; trivial

theorem apply3_wf [DecidableEq δ] (f : α → β → γ → δ) :
    ∀ (a : Node α) (b : Node β) (c : Node γ), WF a → WF b → WF c → WF (apply3 f a b c) := by
  intro a b c
  induction a, b, c using apply3.induct with
  | case1 a b c h ih1 ih2 =>
    intro wa wb wc
    rw [apply3, if_pos h]
    obtain ⟨v1, v2, v3⟩ := branch3_var a b c
    obtain ⟨da, db, dc⟩ := topVar3_dom h
    have n1 := notBranched_varLt (b := b) (c := c) da db dc
    have n2 := notBranched_varLt (b := a) (c := c) db da dc
    have n3 := notBranched_varLt (b := a) (c := b) dc da db
    exact wf_mk
      (apply3_below f _ _ _ (below_top_lowIf wa v1 n1) (below_top_lowIf wb v2 n2) (below_top_lowIf wc v3 n3))
      (apply3_below f _ _ _ (below_top_highIf wa v1 n1) (below_top_highIf wb v2 n2) (below_top_highIf wc v3 n3))
      (ih1 (wf_lowIf _ wa) (wf_lowIf _ wb) (wf_lowIf _ wc))
      (ih2 (wf_highIf _ wa) (wf_highIf _ wb) (wf_highIf _ wc))
  | case2 a b c h => intro _ _ _; rw [apply3, if_neg h]; trivial

/-! ## 5. projection -/

theorem project_below [DecidableEq α] (pred : Nat → Bool) (f : α → α → α) {x : Nat} :
    ∀ {a : Node α}, Below x a → Below x (project pred f a)
  | .leaf _, _ => trivial
  | .node y lo hi, ⟨h, bl, bh⟩ => by
    rw [project]
    split
    · exact apply2_below f _ _ (project_below pred f bl) (project_below pred f bh)
    · exact below_mk h (project_below pred f bl) (project_below pred f bh)

theorem project_wf [DecidableEq α] (pred : Nat → Bool) (f : α → α → α) :
    ∀ {a : Node α}, WF a → WF (project pred f a)
  | .leaf _, _ => trivial
  | .node y lo hi, ⟨_, bl, bh, wl, wh⟩ => by
    rw [project]
    split
    · exact apply2_wf f _ _ (project_wf pred f wl) (project_wf pred f wh)
    · exact wf_mk (project_below pred f bl) (project_below pred f bh) (project_wf pred f wl) (project_wf pred f wh)

theorem projectVar_wf [DecidableEq α] (x : Nat) (f : α → α → α) {a : Node α} (wa : WF a) :
    WF (projectVar x f a) := project_wf _ f wa

/-- removing one variable `x` from an ordered diagram with an idempotent leaf operation `f`:
    the result combines the two cofactors by `f` -/
theorem project_eval [DecidableEq α] (x : Nat) (f : α → α → α) (idem : ∀ v, f v v = v) (ρ : Nat → Bool) :
    ∀ {a : Node α}, WF a →
      eval (projectVar x f a) ρ = f (eval a (upd ρ x false)) (eval a (upd ρ x true))
  | .leaf v, _ => by simp [projectVar, project, eval, idem]
  | .node y lo hi, ⟨_, bl, bh, wl, wh⟩ => by
    have ihl := project_eval x f idem ρ wl
    have ihh := project_eval x f idem ρ wh
    unfold projectVar at ihl ihh ⊢
    rw [project]
    by_cases hy : y = x
    · subst hy
      simp only [beq_self_eq_true, if_true]
      rw [apply2_eval, ihl, ihh, eval_node_false ρ bl, eval_node_true ρ bh,
        eval_upd_of_below false ρ bl, eval_upd_of_below true ρ bl,
        eval_upd_of_below false ρ bh, eval_upd_of_below true ρ bh, idem, idem]
    · have hb : (y == x) = false := by simpa using hy
      simp only [hb, Bool.false_eq_true, if_false]
      rw [eval_mk, ihl, ihh]
      simp only [eval, upd, hy, if_false]
      split <;> rfl

/-! ### the general projection: least upper bound over the removed variables

For an associative, commutative and idempotent `f` (e.g. set union) write `u ≤ v` for `f u v = v`.  The value of the
projection at `ρ` is the least upper bound of the values `eval a ρ'` over all `ρ'` that agree with `ρ` outside `pred`. -/

/-- upper bound; no orderedness is needed -/
theorem project_ub [DecidableEq α] (pred : Nat → Bool) (f : α → α → α)
    (assoc : ∀ u v w, f (f u v) w = f u (f v w)) (comm : ∀ u v, f u v = f v u) (idem : ∀ v, f v v = v)
    (ρ ρ' : Nat → Bool) (hag : ∀ y, pred y = false → ρ' y = ρ y) :
    ∀ (a : Node α), f (eval a ρ') (eval (project pred f a) ρ) = eval (project pred f a) ρ
  | .leaf v => by simp [project, eval, idem]
  | .node y lo hi => by
    have ihl := project_ub pred f assoc comm idem ρ ρ' hag lo
    have ihh := project_ub pred f assoc comm idem ρ ρ' hag hi
    rw [project]
    cases hp : pred y with
    | true =>
      simp only [if_true, apply2_eval, eval]
      split
      · rw [comm (eval (project pred f lo) ρ), ← assoc, ihh]
      · rw [← assoc, ihl]
    | false =>
      simp only [Bool.false_eq_true, if_false, eval_mk, eval, hag y hp]
      split
      · exact ihh
      · exact ihl

/-- least among the upper bounds; needs an ordered diagram -/
theorem project_least [DecidableEq α] (pred : Nat → Bool) (f : α → α → α)
    (assoc : ∀ u v w, f (f u v) w = f u (f v w)) (u : α) (ρ : Nat → Bool) :
    ∀ {a : Node α}, WF a →
      (∀ ρ', (∀ y, pred y = false → ρ' y = ρ y) → f (eval a ρ') u = u) → f (eval (project pred f a) ρ) u = u
  | .leaf v, _, h => by simpa [project, eval] using h ρ (fun _ _ => rfl)
  | .node y lo hi, ⟨_, bl, bh, wl, wh⟩, h => by
    have hl : ∀ b, (pred y = false → ρ y = b) → ∀ ρ', (∀ z, pred z = false → ρ' z = ρ z) →
        f (eval (if b then hi else lo) ρ') u = u := by
      intro b hb ρ' hag
      have := h (upd ρ' y b) (by
        intro z hz
        unfold upd
        split
        · rename_i e; subst e; exact (hb hz).symm
        · exact hag z hz)
      cases b with
      | false => rw [eval_node_false ρ' bl] at this; simpa using this
      | true => rw [eval_node_true ρ' bh] at this; simpa using this
    rw [project]
    cases hp : pred y with
    | true =>
      have ihl := project_least pred f assoc u ρ wl (hl false (by simp [hp]))
      have ihh := project_least pred f assoc u ρ wh (hl true (by simp [hp]))
      simp only [if_true, apply2_eval]
      rw [assoc, ihh, ihl]
    | false =>
      simp only [Bool.false_eq_true, if_false, eval_mk]
      cases hr : ρ y with
      | true => simpa using project_least pred f assoc u ρ wh (hl true (fun _ => hr))
      | false => simpa using project_least pred f assoc u ρ wl (hl false (fun _ => hr))

/-! ## 6. renaming -/

/-- holds for every renaming (monotonicity is only needed for well-formedness) -/
theorem rename_eval (r : Nat → Nat) (σ : Nat → Bool) : ∀ (a : Node α), eval (rename r a) σ = eval a (σ ∘ r)
  | .leaf _ => rfl
  | .node x lo hi => by simp only [rename, eval, rename_eval r σ lo, rename_eval r σ hi, Function.comp]

theorem rename_below (r : Nat → Nat) (mono : ∀ x y, x < y → r x < r y) {x : Nat} :
    ∀ {a : Node α}, Below x a → Below (r x) (rename r a)
  | .leaf _, _ => trivial
  | .node _ _ _, ⟨h, bl, bh⟩ => ⟨mono _ _ h, rename_below r mono bl, rename_below r mono bh⟩

theorem rename_inj (r : Nat → Nat) (inj : ∀ x y, r x = r y → x = y) :
    ∀ (a b : Node α), rename r a = rename r b → a = b
  | .leaf _, .leaf _, h => by simpa [rename] using h
  | .leaf _, .node _ _ _, h => by simp [rename] at h
  | .node _ _ _, .leaf _, h => by simp [rename] at h
  | .node x l1 h1, .node y l2 h2, h => by
    simp only [rename, Node.node.injEq] at h
    rw [inj x y h.1, rename_inj r inj l1 l2 h.2.1, rename_inj r inj h1 h2 h.2.2]

theorem rename_wf (r : Nat → Nat) (mono : ∀ x y, x < y → r x < r y) :
    ∀ {a : Node α}, WF a → WF (rename r a)
  | .leaf _, _ => trivial
  | .node x lo hi, ⟨hne, bl, bh, wl, wh⟩ => by
    have inj : ∀ x y, r x = r y → x = y := by
      intro x y h
      rcases Nat.lt_trichotomy x y with hlt | heq | hgt
      · have := mono _ _ hlt; omega
      · exact heq
      · have := mono _ _ hgt; omega
    exact ⟨fun h => hne (rename_inj r inj _ _ h), rename_below r mono bl, rename_below r mono bh,
      rename_wf r mono wl, rename_wf r mono wh⟩

/-! ## 7. `GetValue` with don't-care positions in the query -/

/-- `GetValue` treats every position that is not `ONE` (that is `ZERO`, `DONT_CARE`, or missing) as `false`:
    for a query with don't cares the value for the assignment with all don't cares set to 0 is returned -/
theorem getValue_dontcare (q : List (Option Bool)) :
    ∀ (a : Node α), getValue a q = eval a (fun i => decide (q[i]? = some (some true)))
  | .leaf _ => rfl
  | .node x lo hi => by
    simp only [getValue, eval, getValue_dontcare q lo, getValue_dontcare q hi, decide_eq_true_eq]

/-- the variables occurring in `a` have a definite value in `q` -/
def Covers (q : List (Option Bool)) : Node α → Prop
  | .leaf _ => True
  | .node x lo hi => (∃ b, q[x]? = some (some b)) ∧ Covers q lo ∧ Covers q hi

/-- for a query that fixes all variables of the diagram `GetValue` is the value under any total assignment
    that agrees with the query -/
theorem getValue_total (q : List (Option Bool)) (ρ : Nat → Bool) (hag : agrees ρ q 0 = true) :
    ∀ (a : Node α), Covers q a → getValue a q = eval a ρ
  | .leaf _, _ => rfl
  | .node x lo hi, ⟨⟨b, hb⟩, cl, ch⟩ => by
    have := (agrees_iff ρ q 0).mp hag x b hb
    rw [Nat.zero_add] at this
    simp only [getValue, eval, getValue_total q ρ hag lo cl, getValue_total q ρ hag hi ch, hb, this]
    cases b <;> simp

/-! ## 8. `GetPaths` -/

/-- no variable below `x` is fixed by the symbolic assignment -/
def Free (x : Nat) (as : List (Option Bool)) : Prop := ∀ j b, j < x → as[j]? ≠ some (some b)

theorem addUpTo_get (as : List (Option Bool)) (x j : Nat) (b : Bool) :
    (addUpTo as x)[j]? = some (some b) ↔ as[j]? = some (some b) := by
  unfold addUpTo
  rw [List.getElem?_append]
  split
  · exact Iff.rfl
  · rename_i h
    rw [List.getElem?_replicate]
    have : as[j]? = none := List.getElem?_eq_none (by omega)
    rw [this]
    split <;> simp

theorem addUpTo_length (as : List (Option Bool)) (x : Nat) : x < (addUpTo as x).length := by
  unfold addUpTo; rw [List.length_append, List.length_replicate]; omega

theorem set_get (as : List (Option Bool)) (x j : Nat) (c b : Bool) :
    ((addUpTo as x).set x (some c))[j]? = some (some b) ↔
      (j = x ∧ c = b) ∨ (j ≠ x ∧ as[j]? = some (some b)) := by
  rw [List.getElem?_set]
  by_cases h : x = j
  · subst h
    simp [addUpTo_length as x]
  · rw [if_neg h, addUpTo_get]
    constructor
    · intro h'; exact Or.inr ⟨fun e => h e.symm, h'⟩
    · rintro (⟨e, _⟩ | ⟨_, h'⟩)
      · exact absurd e.symm h
      · exact h'

theorem agrees_set (ρ : Nat → Bool) (as : List (Option Bool)) (x : Nat) (c : Bool)
    (hx : ∀ b, as[x]? ≠ some (some b)) :
    agrees ρ ((addUpTo as x).set x (some c)) 0 = true ↔ agrees ρ as 0 = true ∧ ρ x = c := by
  rw [agrees_iff, agrees_iff]
  simp only [Nat.zero_add, set_get]
  constructor
  · intro h
    refine ⟨fun j b hj => ?_, h x c (Or.inl ⟨rfl, rfl⟩)⟩
    by_cases e : j = x
    · subst e; exact absurd hj (hx b)
    · exact h j b (Or.inr ⟨e, hj⟩)
  · rintro ⟨h, hc⟩ j b (⟨e, e'⟩ | ⟨_, hj⟩)
    · subst e; subst e'; exact hc
    · exact h j b hj

theorem free_set {x y : Nat} {as : List (Option Bool)} (c : Bool) (hf : Free x as) (hy : y < x) :
    Free y ((addUpTo as y).set y (some c)) := by
  intro j b hj
  rw [Ne, set_get]
  rintro (⟨e, _⟩ | ⟨_, h⟩)
  · omega
  · exact hf j b (by omega) h

theorem getPathsRec_sound (ρ : Nat → Bool) :
    ∀ (a : Node α) (as : List (Option Bool)) (x : Nat), WF a → Below x a → Free x as →
      ∀ p v, (p, v) ∈ getPathsRec as a → agrees ρ p 0 = true → agrees ρ as 0 = true ∧ eval a ρ = v
  | .leaf w, as, x, _, _, _, p, v, hm, hp => by
    simp only [getPathsRec, List.mem_singleton, Prod.mk.injEq] at hm
    obtain ⟨e1, e2⟩ := hm
    subst e1; subst e2; exact ⟨hp, rfl⟩
  | .node y lo hi, as, x, ⟨_, bl, bh, wl, wh⟩, ⟨hy, _, _⟩, hf, p, v, hm, hp => by
    have hx : ∀ b, as[y]? ≠ some (some b) := fun b => hf y b hy
    simp only [getPathsRec, List.mem_append] at hm
    rcases hm with hm | hm
    · obtain ⟨h1, h2⟩ := getPathsRec_sound ρ lo _ y wl bl (free_set false hf hy) p v hm hp
      obtain ⟨h3, h4⟩ := (agrees_set ρ as y false hx).mp h1
      exact ⟨h3, by simpa [eval, h4] using h2⟩
    · obtain ⟨h1, h2⟩ := getPathsRec_sound ρ hi _ y wh bh (free_set true hf hy) p v hm hp
      obtain ⟨h3, h4⟩ := (agrees_set ρ as y true hx).mp h1
      exact ⟨h3, by simpa [eval, h4] using h2⟩

theorem getPathsRec_complete (ρ : Nat → Bool) :
    ∀ (a : Node α) (as : List (Option Bool)) (x : Nat), WF a → Below x a → Free x as → agrees ρ as 0 = true →
      ∃ p, (p, eval a ρ) ∈ getPathsRec as a ∧ agrees ρ p 0 = true
  | .leaf w, as, x, _, _, _, hp => ⟨as, by simp [getPathsRec, eval], hp⟩
  | .node y lo hi, as, x, ⟨_, bl, bh, wl, wh⟩, ⟨hy, _, _⟩, hf, hp => by
    have hx : ∀ b, as[y]? ≠ some (some b) := fun b => hf y b hy
    cases hr : ρ y with
    | false =>
      obtain ⟨p, h1, h2⟩ := getPathsRec_complete ρ lo _ y wl bl (free_set false hf hy)
        ((agrees_set ρ as y false hx).mpr ⟨hp, hr⟩)
      exact ⟨p, by simp only [getPathsRec, List.mem_append, eval, hr]; exact Or.inl h1, h2⟩
    | true =>
      obtain ⟨p, h1, h2⟩ := getPathsRec_complete ρ hi _ y wh bh (free_set true hf hy)
        ((agrees_set ρ as y true hx).mpr ⟨hp, hr⟩)
      exact ⟨p, by simp only [getPathsRec, List.mem_append, eval, hr]; exact Or.inr h1, h2⟩

theorem free_nil (x : Nat) : Free x [] := by intro j b _; simp

/-- every total assignment that agrees with a listed path gets the listed value -/
theorem getPaths_sound {a : Node α} (wa : WF a) {p : List (Option Bool)} {v : α} (hm : (p, v) ∈ getPaths a)
    (ρ : Nat → Bool) (hp : agrees ρ p 0 = true) : eval a ρ = v := by
  obtain ⟨x, hx⟩ := exists_below a
  exact (getPathsRec_sound ρ a [] x wa hx (free_nil x) p v hm hp).2

/-- every total assignment agrees with some listed path -/
theorem getPaths_complete {a : Node α} (wa : WF a) (ρ : Nat → Bool) :
    ∃ p, (p, eval a ρ) ∈ getPaths a ∧ agrees ρ p 0 = true := by
  obtain ⟨x, hx⟩ := exists_below a
  exact getPathsRec_complete ρ a [] x wa hx (free_nil x) rfl

/-- the listed paths describe the function of the diagram exactly -/
theorem getPaths_iff {a : Node α} (wa : WF a) (ρ : Nat → Bool) (v : α) :
    eval a ρ = v ↔ ∃ p, (p, v) ∈ getPaths a ∧ agrees ρ p 0 = true := by
  constructor
  · intro h; subst h; exact getPaths_complete wa ρ
  · rintro ⟨p, hm, hp⟩; exact getPaths_sound wa hm ρ hp

/-! ## 9. `GetMtbddForPrefix` -/

theorem getPrefix_eval (asgn : List (Option Bool)) (off : Nat) (ρ : Nat → Bool) :
    ∀ {a : Node α}, WF a →
      eval (getPrefix asgn off a) ρ
        = eval a (fun i => if i < off then ρ i else decide (asgn[i - off]? = some (some true)))
  | .leaf _, _ => rfl
  | .node x lo hi, ⟨_, bl, bh, wl, wh⟩ => by
    rw [getPrefix]
    by_cases hx : x < off
    · rw [if_pos hx]
      -- below the offset the two assignments coincide
      have key : ∀ {n : Node α} {z : Nat}, z ≤ off → Below z n →
          eval n ρ = eval n (fun i => if i < off then ρ i else decide (asgn[i - off]? = some (some true))) := by
        intro n
        induction n with
        | leaf v => intro _ _ _; rfl
        | node y l h ihl ihh =>
          intro z hz ⟨hy, b1, b2⟩
          have hy' : y < off := by omega
          simp only [eval, hy', if_true]
          rw [ihl hz b1, ihh hz b2]
      exact key (Nat.le_refl off) (⟨hx, Below.mono (Nat.le_of_lt hx) bl, Below.mono (Nat.le_of_lt hx) bh⟩ :
        Below off (Node.node x lo hi))
    · rw [if_neg hx]
      simp only [eval, hx, if_false, decide_eq_true_eq]
      split
      · exact getPrefix_eval asgn off ρ wh
      · exact getPrefix_eval asgn off ρ wl

theorem getPrefix_wf (asgn : List (Option Bool)) (off : Nat) :
    ∀ {a : Node α}, WF a → WF (getPrefix asgn off a) ∧ Below off (getPrefix asgn off a)
  | .leaf _, _ => ⟨trivial, trivial⟩
  | .node x lo hi, w => by
    rw [getPrefix]
    split
    · rename_i hx; exact ⟨w, below_of_wf_varLt w hx⟩
    · split
      · exact getPrefix_wf asgn off w.2.2.2.2
      · exact getPrefix_wf asgn off w.2.2.2.1

/-! ## 10. `VoidApply1Functor`, `VoidApply2Functor`: the set of visited leaves (pairs of leaves) -/

theorem mem_voidApply1 {v : α} : ∀ {a : Node α}, WF a → (v ∈ voidApply1 a ↔ ∃ ρ, eval a ρ = v)
  | .leaf w, _ => by
    simp only [voidApply1, List.mem_singleton, eval]
    exact ⟨fun h => ⟨fun _ => false, h.symm⟩, fun ⟨_, h⟩ => h.symm⟩
  | .node x lo hi, ⟨_, bl, bh, wl, wh⟩ => by
    simp only [voidApply1, List.mem_append, mem_voidApply1 wl, mem_voidApply1 wh]
    constructor
    · rintro (⟨ρ, h⟩ | ⟨ρ, h⟩)
      · exact ⟨upd ρ x false, by rw [eval_node_false ρ bl]; exact h⟩
      · exact ⟨upd ρ x true, by rw [eval_node_true ρ bh]; exact h⟩
    · rintro ⟨ρ, h⟩
      simp only [eval] at h
      split at h
      · exact Or.inr ⟨ρ, h⟩
      · exact Or.inl ⟨ρ, h⟩


/-- `a0`, `a1` are the cofactors of `a` with respect to the variable `x` -/
def IsCof (x : Nat) (a a0 a1 : Node α) : Prop :=
  (∀ ρ, eval a ρ = if ρ x then eval a1 ρ else eval a0 ρ) ∧
  (∀ ρ b, eval a0 (upd ρ x b) = eval a0 ρ) ∧ (∀ ρ b, eval a1 (upd ρ x b) = eval a1 ρ)

theorem isCof_node {x : Nat} {lo hi : Node α} (bl : Below x lo) (bh : Below x hi) :
    IsCof x (.node x lo hi) lo hi :=
  ⟨fun _ => rfl, fun ρ b => eval_upd_of_below b ρ bl, fun ρ b => eval_upd_of_below b ρ bh⟩

theorem isCof_const {x : Nat} {a : Node α} (ba : Below x a) : IsCof x a a a :=
  ⟨fun ρ => by split <;> rfl, fun ρ b => eval_upd_of_below b ρ ba, fun ρ b => eval_upd_of_below b ρ ba⟩

theorem exists_split {x : Nat} {a a0 a1 : Node α} {b b0 b1 : Node β} (ha : IsCof x a a0 a1)
    (hb : IsCof x b b0 b1) (u : α) (v : β) :
    (∃ ρ, eval a ρ = u ∧ eval b ρ = v) ↔
      (∃ ρ, eval a0 ρ = u ∧ eval b0 ρ = v) ∨ (∃ ρ, eval a1 ρ = u ∧ eval b1 ρ = v) := by
  obtain ⟨a_e, a_0, a_1⟩ := ha
  obtain ⟨b_e, b_0, b_1⟩ := hb
  constructor
  · rintro ⟨ρ, h1, h2⟩
    rw [a_e] at h1; rw [b_e] at h2
    cases hx : ρ x with
    | false => rw [hx] at h1 h2; exact Or.inl ⟨ρ, by simpa using h1, by simpa using h2⟩
    | true => rw [hx] at h1 h2; exact Or.inr ⟨ρ, by simpa using h1, by simpa using h2⟩
  · rintro (⟨ρ, h1, h2⟩ | ⟨ρ, h1, h2⟩)
    · refine ⟨upd ρ x false, ?_, ?_⟩
      · rw [a_e]; simp only [upd, if_true, Bool.false_eq_true, if_false]; exact (a_0 ρ false).trans h1
      · rw [b_e]; simp only [upd, if_true, Bool.false_eq_true, if_false]; exact (b_0 ρ false).trans h2
    · refine ⟨upd ρ x true, ?_, ?_⟩
      · rw [a_e]; simp only [upd, if_true]; exact (a_1 ρ true).trans h1
      · rw [b_e]; simp only [upd, if_true]; exact (b_1 ρ true).trans h2

/-- `VoidApply2Functor` visits exactly the pairs of values that the two diagrams take simultaneously -/
theorem mem_voidApply2 (u : α) (v : β) :
    ∀ (a : Node α) (b : Node β), WF a → WF b →
      ((u, v) ∈ voidApply2 a b ↔ ∃ ρ, eval a ρ = u ∧ eval b ρ = v) := by
  intro a b
  induction a, b using voidApply2.induct with
  | case1 v' w =>
    intro _ _
    simp only [voidApply2, List.mem_singleton, Prod.mk.injEq, eval]
    exact ⟨fun ⟨h1, h2⟩ => ⟨fun _ => false, h1.symm, h2.symm⟩, fun ⟨_, h1, h2⟩ => ⟨h1.symm, h2.symm⟩⟩
  | case2 x lo hi w ih1 ih2 =>
    intro ⟨_, bl, bh, wl, wh⟩ wb
    rw [voidApply2, List.mem_append, ih1 wl wb, ih2 wh wb]
    exact (exists_split (isCof_node bl bh) (isCof_const (x := x) (a := Node.leaf w) trivial) u v).symm
  | case3 v' y lo hi ih1 ih2 =>
    intro wa ⟨_, bl, bh, wl, wh⟩
    rw [voidApply2, List.mem_append, ih1 wa wl, ih2 wa wh]
    exact (exists_split (isCof_const (x := y) (a := Node.leaf v') trivial) (isCof_node bl bh) u v).symm
  | case4 x alo ahi blo bhi ih1 ih2 =>
    intro ⟨_, al, ah, wal, wah⟩ ⟨_, bl, bh, wbl, wbh⟩
    rw [voidApply2]; simp only [if_true]
    rw [List.mem_append, ih1 wal wbl, ih2 wah wbh]
    exact (exists_split (isCof_node al ah) (isCof_node bl bh) u v).symm
  | case5 x alo ahi y blo bhi hne hlt ih1 ih2 =>
    intro ⟨_, al, ah, wal, wah⟩ wb
    have bb : Below x (Node.node y blo bhi) := below_of_wf_varLt wb hlt
    rw [voidApply2]; simp only [hne, hlt, if_false, if_true]
    rw [List.mem_append, ih1 wal wb, ih2 wah wb]
    exact (exists_split (isCof_node al ah) (isCof_const bb) u v).symm
  | case6 x alo ahi y blo bhi hne hlt ih1 ih2 =>
    intro wa ⟨_, bl, bh, wbl, wbh⟩
    have hxy : x < y := by omega
    have ba : Below y (Node.node x alo ahi) := below_of_wf_varLt wa hxy
    rw [voidApply2]; simp only [hne, hlt, if_false]
    rw [List.mem_append, ih1 wa wbl, ih2 wa wbh]
    exact (exists_split (isCof_const ba) (isCof_node bl bh) u v).symm

/-! ## 11. examples (non-vacuity of the hypotheses, concrete values of the model) -/
namespace OpsEx

/-- `constructMTBDD("1X0", 5, 0)`: value 5 iff `x0 = 1 ∧ x2 = 0` -/
def exA : Node Nat := construct [some true, none, some false] 5 0
/-- `constructMTBDD("X1", 10, 0)` -/
def exB : Node Nat := construct [none, some true] 10 0
/-- `constructMTBDD("XX0", 100, 0)` -/
def exC : Node Nat := construct [none, none, some false] 100 0

theorem exA_eq : exA = .node 2 (.node 0 (.leaf 0) (.leaf 5)) (.leaf 0) := by decide
theorem exB_eq : exB = .node 1 (.leaf 0) (.leaf 10) := by decide
theorem exC_eq : exC = .node 2 (.leaf 100) (.leaf 0) := by decide
theorem exA_wf : WF exA := construct_wf _ _ _
theorem exB_wf : WF exB := construct_wf _ _ _
theorem exC_wf : WF exC := construct_wf _ _ _

-- construct
example : construct [some true, none] 7 7 = .leaf 7 := by decide
example : eval exA (fun i => i == 0) = 5 := by decide
example : eval exA (fun i => i == 0 || i == 1) = 5 := by decide
example : eval exA (fun _ => true) = 0 := by decide
example : agrees (fun i => i == 0) [some true, none, some false] 0 = true := by decide

-- GetValue: the query `1XX` returns 5 although the concretisation `1X1` has the value 0
example : getValue exA [some true, none, none] = 5 := by decide
example : getValue exA [some true, none, some true] = 0 := by decide
example : Covers [some true, none, some false] exA := by
  rw [exA_eq]; exact ⟨⟨false, rfl⟩, ⟨⟨true, rfl⟩, trivial, trivial⟩, trivial⟩
example : getValue exA [some true, none, some false] = eval exA (fun i => i == 0) :=
  getValue_total _ _ (by decide) _ (by rw [exA_eq]; exact ⟨⟨false, rfl⟩, ⟨⟨true, rfl⟩, trivial, trivial⟩, trivial⟩)

-- apply1 (with and without reduction)
example : apply1 (fun v => v + 1) exA = .node 2 (.node 0 (.leaf 1) (.leaf 6)) (.leaf 1) := by decide
example : apply1 (fun v => v % 5) exA = .leaf 0 := by decide
example : WF (apply1 (fun v => v + 1) exA) := apply1_wf _ exA_wf

-- apply2
example : apply2 (fun a b => a + b) exA exB
    = .node 2 (.node 1 (.node 0 (.leaf 0) (.leaf 5)) (.node 0 (.leaf 10) (.leaf 15))) (.node 1 (.leaf 0) (.leaf 10)) := by
  rw [exA_eq, exB_eq]; simp [apply2, mk]
example : WF (apply2 (fun a b => a + b) exA exB) := apply2_wf _ _ _ exA_wf exB_wf

-- apply3
example : apply3 (fun a b c => a + b + c) exA exB exC =
    .node 2 (.node 1 (.node 0 (.leaf 100) (.leaf 105)) (.node 0 (.leaf 110) (.leaf 115)))
      (.node 1 (.leaf 0) (.leaf 10)) := by
  rw [exA_eq, exB_eq, exC_eq]
  simp [apply3, branch3, leafOrLe, lowIf, highIf, topVar3, varOf, leafVal, mk]
example : WF (apply3 (fun a b c => a + b + c) exA exB exC) := apply3_wf _ _ _ _ exA_wf exB_wf exC_wf
example : eval (apply3 (fun a b c => a + b + c) exA exB exC) (fun i => i == 0) = 105 := by
  rw [apply3_eval]; decide

-- `operator==`: two different computations of the same function give the identical diagram
example : apply2 (fun a b => a + b) exA exB = apply2 (fun a b => b + a) exB exA :=
  (eq_iff_sem (apply2_wf _ _ _ exA_wf exB_wf) (apply2_wf _ _ _ exB_wf exA_wf)).mpr
    (fun ρ => by rw [apply2_eval, apply2_eval])
-- without reducedness the equivalence fails
example : (Node.node 0 (.leaf 1) (.leaf 1) : Node Nat) ≠ .leaf 1 ∧
    ∀ ρ, eval (Node.node 0 (.leaf 1) (.leaf 1) : Node Nat) ρ = eval (.leaf 1) ρ :=
  ⟨by decide, fun ρ => by simp [eval]⟩

-- projection
example : projectVar 0 max exA = .node 2 (.leaf 5) (.leaf 0) := by
  rw [exA_eq]; simp [projectVar, project, apply2, mk]
example : projectVar 2 max exA = .node 0 (.leaf 0) (.leaf 5) := by
  rw [exA_eq]; simp [projectVar, project, apply2, mk]
example : project (fun _ => true) max exA = .leaf 5 := by
  rw [exA_eq]; simp [project, apply2]
example (ρ : Nat → Bool) : eval (projectVar 0 max exA) ρ = max (eval exA (upd ρ 0 false)) (eval exA (upd ρ 0 true)) :=
  project_eval 0 max Nat.max_self ρ exA_wf
/-- idempotence is necessary: with addition (the unit test of the library) a variable that has been removed by the
    reduction is not "summed over" -/
example : eval (projectVar 0 (fun a b => a + b) (Node.leaf 1)) (fun _ => false)
    ≠ eval (Node.leaf 1) (upd (fun _ => false) 0 false) + eval (Node.leaf 1) (upd (fun _ => false) 0 true) := by
  decide

-- renaming
example : rename (fun x => 2 * x + 1) exA = .node 5 (.node 1 (.leaf 0) (.leaf 5)) (.leaf 0) := by decide
example : WF (rename (fun x => 2 * x + 1) exA) := rename_wf _ (fun x y h => by omega) exA_wf
/-- a renaming that does not respect the order breaks orderedness -/
example : ¬ WF (rename (fun x => 2 - x) exA) := by
  rw [exA_eq]; simp [rename, WF, Below]

-- paths
example : getPaths exA =
    [([some false, none, some false], 0), ([some true, none, some false], 5), ([none, none, some true], 0)] := by
  decide
example : getPaths (Node.leaf 3) = [([], 3)] := by decide

-- ExtendWith / GetMtbddForPrefix
example : extendWith [some true, some false] 3 exA 0
    = .node 4 (.node 3 (.leaf 0) (.node 2 (.node 0 (.leaf 0) (.leaf 5)) (.leaf 0))) (.leaf 0) := by decide
example : WF (extendWith [some true, some false] 3 exA 0) :=
  extendWith_wf _ _ _ _ exA_wf (by rw [exA_eq]; simp [Below])
example : getPrefix [some true, some false] 3 (extendWith [some true, some false] 3 exA 0) = exA := by decide
example : getPrefix [some false, some false] 3 (extendWith [some true, some false] 3 exA 0) = .leaf 0 := by decide

-- VoidApply2
example : voidApply2 exB exC = [(0, 100), (10, 100), (0, 0), (10, 0)] := by
  rw [exB_eq, exC_eq]; simp [voidApply2]
example : voidApply1 exA = [0, 5, 0] := by decide

end OpsEx
end Vata.M
