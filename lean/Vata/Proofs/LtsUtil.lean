import Vata.LtsUtil
import Vata.LtsEngine
import Vata.Proofs.LtsUtilCA
import Vata.Proofs.LtsUtilLayout
import Vata.Proofs.LtsUtilSS
import Vata.Proofs.LtsUtilSC5
import Vata.Proofs.LtsUtilSL2
import Vata.Proofs.LtsUtilSR6
/-!
# The utility classes of the LTS engine: the values of `Vata/LtsUtil.lean` ARE the values of `Vata/LtsEngine.lean`

`Vata/LtsUtil.lean` states the value side of every class (`aAdd`, `aRemove`, `aSplit`, `flat`, …) without importing the
engine model.  Here: they are literally the functions the engine model uses, and the engine's element-wise erase loop is the
`filter` of `SR.aStep`.  The refinement theorems themselves are in `Vata/Proofs/LtsUtil{CA,Layout,SS,SC*,SL*,SR*}.lean`.
-/
namespace Vata.LU.Glue
open Vata.LU

/-- `SmartSet::add` on values = `insAdd` of the engine model -/
theorem aAdd_eq_insAdd (s : List (Nat × Nat)) (a : Nat) : SS.aAdd s a = Vata.LE.insAdd s a := by
  induction s with
  | nil => rfl
  | cons bc s ih => obtain ⟨b, c⟩ := bc; simp only [SS.aAdd, Vata.LE.insAdd, ih]

/-- `SmartSet::removeStrict` on values = `insRemove` -/
theorem aRemove_eq_insRemove (s : List (Nat × Nat)) (a : Nat) : SS.aRemove s a = Vata.LE.insRemove s a := by
  induction s with
  | nil => rfl
  | cons bc s ih => obtain ⟨b, c⟩ := bc; simp only [SS.aRemove, Vata.LE.insRemove, ih]

/-- iteration order of a `SmartSet` = `insKeys` -/
theorem aKeys_eq_insKeys (s : List (Nat × Nat)) : SS.aKeys s = Vata.LE.insKeys s := rfl

/-- `SplittingRelation::split` on values = `relSplit` -/
theorem aSplit_eq_relSplit (rel : List (List Nat)) (i : Nat) : SR.aSplit rel i = Vata.LE.relSplit rel i := rfl

/-- iteration of a `SharedList` on values = `flat` -/
theorem flat_eq (r : SL.RemList) : SL.flat r = Vata.LE.flat r := rfl

/-- the engine model erases the masked columns of a row one at a time while it iterates the row as it was on entry
(`pruneRow`/`pruneCol`: `filter (· != col)` per masked column) -/
def eraseEach (mask : List Nat) (row : List Nat) : List Nat :=
  row.foldl (fun r col => if mask.contains col then r.filter (fun c => c != col) else r) row

theorem eraseEach_aux (mask : List Nat) (cols r : List Nat) :
    cols.foldl (fun r col => if mask.contains col then r.filter (fun c => c != col) else r) r =
      r.filter (fun c => !(mask.contains c && cols.contains c)) := by
  induction cols generalizing r with
  | nil =>
    have : r.filter (fun c => !(mask.contains c && ([] : List Nat).contains c)) = r :=
      List.filter_eq_self.2 (fun c _ => by simp)
    rw [this]; rfl
  | cons col cols ih =>
    rw [List.foldl_cons, ih]
    by_cases hm : mask.contains col = true
    · rw [if_pos hm, List.filter_filter]
      apply List.filter_congr
      intro c _
      rw [List.contains_cons]
      cases h1 : (c == col) <;> cases h2 : mask.contains c <;> cases h3 : cols.contains c <;> simp_all
    · rw [if_neg hm]
      apply List.filter_congr
      intro c _
      rw [List.contains_cons]
      cases h1 : (c == col) <;> cases h2 : mask.contains c <;> cases h3 : cols.contains c <;> simp_all

/-- … which is the `filter` of `SR.aStep (.eraseRow i mask)` -/
theorem eraseEach_eq_filter (mask row : List Nat) : eraseEach mask row = row.filter (fun c => !mask.contains c) := by
  unfold eraseEach
  rw [eraseEach_aux]
  apply List.filter_congr
  intro c hc
  have : row.contains c = true := List.contains_iff_mem.2 hc
  rw [this, Bool.and_true]

example : eraseEach [1, 3] [0, 1, 2, 3, 4] = [0, 2, 4] := by decide

end Vata.LU.Glue
