import Vata.Proofs.ComplOrd
/-!
# The alphabet as `Compute` reads it: one rank per symbol number

* `dictSg_of_nodup`: when the symbol numbers of the dictionary are pairwise distinct, `symbolMap` / `ranks` hold exactly the
  listed ranked symbols; `mem_dictSg_of_oneRank`: when a number may be listed several times but always with the same rank,
  they hold the same SET of ranked symbols.
* `tdW_eq_raw`: when the rules of `A` use the symbol `f` with the rank `n` only, the set `W` the code collects
  (`transitionIndex[state][symbol]`, no look at the lengths) is the `W` of the model.
-/
namespace Vata
namespace Compl

theorem mem_dictSg_sub : ∀ {Sg : List (Nat × Nat)} {fa : Nat × Nat}, fa ∈ dictSg Sg → fa ∈ Sg
  | [], _, h => h
  | gb :: Sg, fa, h => by
    simp only [dictSg, List.mem_cons, List.mem_filter] at h
    rcases h with h | ⟨h, _⟩
    · exact h ▸ List.mem_cons_self
    · exact List.mem_cons_of_mem _ (mem_dictSg_sub h)

/-- every listed symbol number is in `symbolMap`, with the rank of its first entry -/
theorem dictSg_covers : ∀ {Sg : List (Nat × Nat)} {fa : Nat × Nat}, fa ∈ Sg → ∃ n, (fa.1, n) ∈ dictSg Sg
  | gb :: Sg, fa, h => by
    rcases List.mem_cons.mp h with rfl | h
    · exact ⟨fa.2, List.mem_cons_self⟩
    · obtain ⟨n, hn⟩ := dictSg_covers h
      by_cases e : fa.1 = gb.1
      · exact ⟨gb.2, by rw [e]; exact List.mem_cons_self⟩
      · refine ⟨n, ?_⟩
        simp only [dictSg, List.mem_cons, List.mem_filter]
        right
        exact ⟨hn, by simpa using e⟩

theorem oneRankB_iff {Sg : List (Nat × Nat)} :
    oneRankB Sg = true ↔ ∀ f n m, (f, n) ∈ Sg → (f, m) ∈ Sg → n = m := by
  simp only [oneRankB, List.all_eq_true, Bool.or_eq_true, bne_iff_ne, ne_eq, beq_iff_eq, Prod.forall]
  constructor
  · intro h f n m h1 h2
    rcases h f m h2 f n h1 with h | h
    · exact absurd rfl h
    · exact h
  · intro h f m h2 g n h1
    by_cases e : g = f
    · subst e; exact Or.inr (h g n m h1 h2)
    · exact Or.inl e

/-- with one rank per symbol number `symbolMap` / `ranks` hold the listed ranked symbols (as a set) -/
theorem mem_dictSg_of_oneRank {Sg : List (Nat × Nat)} (h : oneRankB Sg = true) (fa : Nat × Nat) :
    fa ∈ dictSg Sg ↔ fa ∈ Sg := by
  constructor
  · exact mem_dictSg_sub
  · intro hfa
    obtain ⟨n, hn⟩ := dictSg_covers hfa
    have : n = fa.2 := oneRankB_iff.mp h fa.1 n fa.2 (mem_dictSg_sub hn) hfa
    rw [this] at hn
    exact hn

/-- with pairwise distinct symbol numbers nothing is dropped -/
theorem dictSg_of_nodup : ∀ {Sg : List (Nat × Nat)}, (Sg.map Prod.fst).Nodup → dictSg Sg = Sg
  | [], _ => rfl
  | fa :: Sg, h => by
    rw [List.map_cons, List.nodup_cons] at h
    rw [dictSg, dictSg_of_nodup h.2]
    congr 1
    apply List.filter_eq_self.mpr
    intro gb hgb
    simp only [bne_iff_ne, ne_eq]
    intro e
    exact h.1 (e ▸ List.mem_map_of_mem hgb)

theorem ranksRespectedB_iff {A : TA} {Sg : List (Nat × Nat)} :
    ranksRespectedB A Sg = true ↔ ∀ r f n, r ∈ A.rules → (f, n) ∈ Sg → r.sym = f → r.kids.length = n := by
  simp only [ranksRespectedB, List.all_eq_true, Bool.or_eq_true, bne_iff_ne, ne_eq, beq_iff_eq, Prod.forall]
  constructor
  · intro h r f n hr hfa e
    rcases h r hr f n hfa with h | h
    · exact absurd e.symm h
    · exact h
  · intro h r hr f n hfa
    by_cases e : f = r.sym
    · exact Or.inr (h r f n hr hfa e.symm)
    · exact Or.inl e

/-- when the `f`-rules of `A` have `n` children, `transitionIndex[state][f]` is the `W` of the model -/
theorem tdW_eq_raw {A : TA} {f n : Nat} (h : ∀ r, r ∈ A.rules → r.sym = f → r.kids.length = n) (P : List Nat) :
    tdWRaw A P f = tdW A P f n := by
  unfold tdWRaw tdW
  congr 2
  funext q
  congr 1
  apply List.filter_congr
  intro r hr
  by_cases e : r.sym = f
  · simp [e, h r hr e]
  · simp [e]

end Compl
end Vata
