import Vata.Proofs.InclDownTablesClass2Main
/-!
# From the calls to the whole run (identity preorder; property C07)

At the root (`ws = []`) the relative-completeness part of `GI` follows from `Inv`: a set closed relative to itself is a
certificate, its pairs hold on every tree (`down_certR_sound`), and every entry of `nonincluded` carries a separating tree.
Hence the loop over the final states on the tables is the loop of the abstract model (`rootLoopT_eq_good`, `runTD_eq_good`),
provided the right-hand set of the root pairs is not empty.
-/
namespace Vata
namespace InclDownTables
open M BddAbs BddAbsTD BddTraverse InclDown
open InclUp (normS prodWit Wit)

theorem gi_nil_of_inv {A B : Vata.TA} {cc : List Pair} {st : St} (hI : Inv idOrd A B [] cc st)
    (hNE : ∀ t, t ∈ st.trues → t.2 ≠ []) : GI A B [] cc st := by
  refine ⟨hI, ?_, fun t ht => hNE t (by simpa using ht)⟩
  intro y Y hs himp
  obtain ⟨S0, hm, hsub⟩ := hs
  rw [List.append_nil] at hm
  obtain ⟨e, he, e1, e2⟩ := himp
  have hR := hI.ni e he
  have hcert : DownCertR (leAP idOrd) (leBP idOrd) (leABP idOrd) A B st.trues := by
    intro p P hpP ρ hρ hpar c hc
    have := hI.closed (p, P) hpP ρ hρ hpar c hc
    rw [List.append_nil] at this
    exact this
  have hH := down_certR_sound A B _ _ _ (idOrd_langOrd A B) st.trues hcert e.2.2
  obtain ⟨r, hr1, hr2⟩ := hH y S0 hm (by rw [← e1]; exact hR.1)
  exact hR.2 r (e2 r (hsub r hr1)) hr2

theorem rootLoopT_eq_good {TA TB : TableTD} {A B : Vata.TA} {wit : Wit}
    (hbody : ∀ (ws : List Pair) (cT cM : Call), CallGood (frameI A B ws) cT cM cT → ∀ p P cc st, GI A B ws cc st →
      bodyT cT cT TA TB wit normS p P cc st = body cM cM A B wit normS p P cc st)
    (hspec : ∀ fuel ws, CallSpec idOrd A B ws (expandT idOrd TA TB wit fuel ws)) (hW : WitOK A wit)
    (fuel : Nat) (FB : List Nat) (hFB : FB ≠ []) :
    ∀ (fs : List Nat) (cc : List Pair) (st : St), GI A B [] cc st →
      rootLoopT idOrd TA TB wit fuel FB fs cc st = rootLoop idOrd A B wit fuel FB fs cc st
  | [], _, _, _ => rfl
  | f :: fs, cc, st, hG => by
    obtain ⟨hcg, _⟩ := full_expand hbody hspec fuel []
    have hcM := callGood_model hcg
    have hb := hbody [] _ _ hcg f FB cc st hG
    simp only [rootLoopT, rootLoop, byPre_id, Bool.false_eq_true, if_false]
    rw [hb]
    have hcall := expand_spec (idOrd_langOrd A B) ordRefl_id hW fuel []
    have hbs := body_spec (idOrd_langOrd A B) hcall hcall (postOK_normS ordRefl_id) hW f FB
    have gb := (good_body hcM A B wit normS f FB cc st hG).2
    cases hr : body (expand idOrd A B wit fuel []) (expand idOrd A B wit fuel []) A B wit normS f FB cc st with
    | none => rfl
    | some r =>
      obtain ⟨v, cc1, st1⟩ := r
      cases v with
      | fails w => rfl
      | holds =>
        simp only []
        obtain ⟨g1, g2, g3⟩ := hbs cc st _ _ _ hr hG.1
        obtain ⟨k1, _, _⟩ := gb _ _ _ hr
        have hsub : ∀ x, x ∈ st1.trues ++ [] → x ∈ addTrue st1.trues (f, FB) ++ [] := by
          intro x hx
          simp only [List.append_nil] at hx ⊢
          exact mem_addTrue.mpr (Or.inl hx)
        have hI2 : Inv idOrd A B [] cc1 ⟨st1.nonIncl, addTrue st1.trues (f, FB)⟩ := by
          refine ⟨fun x hx => ccOK_mono hsub (g1.cc_sub x hx), ?_, g1.ni⟩
          intro x hx
          rcases mem_addTrue.mp hx with h' | h'
          · exact closedAt_mono hsub (g1.closed x h')
          · rw [h']; exact closedAt_mono hsub g3
        refine rootLoopT_eq_good hbody hspec hW fuel FB hFB fs cc1 _ (gi_nil_of_inv hI2 ?_)
        intro t ht
        rcases mem_addTrue.mp ht with h' | h'
        · exact k1.2.2 t (List.mem_append_left _ h')
        · rw [h']; exact hFB

theorem runTD_eq_good {TA TB : TableTD} {A B : Vata.TA}
    (hbody : ∀ (ws : List Pair) (cT cM : Call), CallGood (frameI A B ws) cT cM cT → ∀ p P cc st, GI A B ws cc st →
      bodyT cT cT TA TB (prodWit A) normS p P cc st = body cM cM A B (prodWit A) normS p P cc st)
    (hspec : ∀ fuel ws, CallSpec idOrd A B ws (expandT idOrd TA TB (prodWit A) fuel ws)) (hW : WitOK A (prodWit A))
    (hFB : B.final ≠ []) (fuel : Nat) :
    runTD idOrd TA A.final TB B.final (prodWit A) fuel = run idOrd A B fuel := by
  unfold runTD run
  have hne : normS B.final ≠ [] := by
    obtain ⟨s, hs⟩ := List.exists_mem_of_ne_nil _ hFB
    exact List.ne_nil_of_mem (InclUp.mem_normS.mpr hs)
  rw [rootLoopT_eq_good hbody hspec hW fuel _ hne (dedup A.final) [] ⟨[], []⟩
    (gi_nil_of_inv (inv_init idOrd A B) (fun t ht => by cases ht))]
  rfl

end InclDownTables
end Vata
