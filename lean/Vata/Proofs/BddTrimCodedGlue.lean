import Vata.Proofs.BddTrimCodedBuild
/-!
# `RemoveUselessStates` (top-down) as coded: the useful states, the restriction, the result (property C08)
-/
namespace Vata
namespace BddTrimCoded
open M BddAbs BddAbsTD

/-- **the coded analysis computes `usefulTD`**: every answer of the two loops (graph construction, propagation) is, as a
set, the set of the productive states of the part of the skeleton reachable from the final states -/
theorem usefulCoded_correct {T : TableTD} {F : List Nat} (hF : F.Nodup) {fuel : Nat} {U : List Nat}
    (h : usefulCoded T F fuel = some U) (q : Nat) : q ∈ U ↔ q ∈ usefulTD T F := by
  unfold usefulCoded at h
  split at h
  · simp at h
  · rename_i B hB
    split at h
    · simp at h
    · rename_i P hP
      simp only [Option.some.injEq] at h
      subst h
      exact propLoop_correct (buildLoop_spec hF hB) hP q

/-! ### the restriction as coded -/

theorem takeWhile_length_iff (p : Nat → Bool) : ∀ l : List Nat, (l.takeWhile p).length = l.length ↔ ∀ x, x ∈ l → p x = true
  | [] => by simp
  | x :: l => by
    rw [List.takeWhile_cons]
    by_cases hx : p x = true
    · simp only [hx, if_true, List.length_cons, Nat.add_right_cancel_iff, takeWhile_length_iff p l, List.mem_cons,
        forall_eq_or_imp, true_and]
    · have hx' : p x = false := by simpa using hx
      rw [if_neg hx]
      constructor
      · intro h; simp at h
      · intro h; exact absurd (h x (by simp)) hx

theorem takeWhile_all (p : Nat → Bool) : ∀ l : List Nat, (∀ x, x ∈ l → p x = true) → l.takeWhile p = l
  | [], _ => rfl
  | x :: l, h => by
    rw [List.takeWhile_cons, if_pos (h x (by simp)), takeWhile_all p l (fun y hy => h y (List.mem_cons_of_mem _ hy))]

theorem mem_restrictFold (U : List Nat) (ks : List Nat) : ∀ (l acc : List (List Nat)),
    ks ∈ l.foldl (fun res tuple =>
      let resultTuple := tuple.takeWhile (fun q => U.contains q)
      if resultTuple.length == tuple.length then insT resultTuple res else res) acc ↔
    ks ∈ acc ∨ (ks ∈ l ∧ ∀ k, k ∈ ks → k ∈ U)
  | [], acc => by simp
  | t :: l, acc => by
    rw [List.foldl_cons, mem_restrictFold U ks l]
    dsimp only
    by_cases hall : ∀ x, x ∈ t → U.contains x = true
    · have e1 := (takeWhile_length_iff (fun q => U.contains q) t).mpr hall
      have e2 := takeWhile_all (fun q => U.contains q) t hall
      rw [e2, if_pos (by simp), mem_insT]
      constructor
      · rintro ((rfl | h) | ⟨h1, h2⟩)
        · exact Or.inr ⟨by simp, fun k hk => List.contains_iff_mem.mp (hall k hk)⟩
        · exact Or.inl h
        · exact Or.inr ⟨List.mem_cons_of_mem _ h1, h2⟩
      · rintro (h | ⟨h1, h2⟩)
        · exact Or.inl (Or.inr h)
        · simp only [List.mem_cons] at h1
          rcases h1 with rfl | h1
          · exact Or.inl (Or.inl rfl)
          · exact Or.inr ⟨h1, h2⟩
    · have e1 : ¬ ((t.takeWhile (fun q => U.contains q)).length = t.length) :=
        fun e => hall ((takeWhile_length_iff (fun q => U.contains q) t).mp e)
      rw [if_neg (by simpa using e1)]
      constructor
      · rintro (h | ⟨h1, h2⟩)
        · exact Or.inl h
        · exact Or.inr ⟨List.mem_cons_of_mem _ h1, h2⟩
      · rintro (h | ⟨h1, h2⟩)
        · exact Or.inl h
        · simp only [List.mem_cons] at h1
          rcases h1 with rfl | h1
          · exact absurd (fun x hx => List.contains_iff_mem.mpr (h2 x hx)) hall
          · exact Or.inr ⟨h1, h2⟩

theorem mem_restrictLeafCoded {U : List Nat} {l : List (List Nat)} {ks : List Nat} :
    ks ∈ restrictLeafCoded U l ↔ ks ∈ l ∧ ∀ k, k ∈ ks → k ∈ U := by
  unfold restrictLeafCoded
  rw [mem_restrictFold]
  simp

theorem hasRuleTD_restrictCoded (T : TableTD) (F U : List Nat) (ρ : Nat → Bool) (p : Nat) (ks : List Nat) :
    HasRuleTD (restrictCoded T F U).1 ρ p ks ↔ HasRuleTD T ρ p ks ∧ p ∈ U ∧ ∀ k, k ∈ ks → k ∈ U := by
  unfold restrictCoded
  constructor
  · intro h
    have hk := hasRuleTD_key h
    unfold HasRuleTD at h
    dsimp only at h hk
    rw [getTD_mapKeys _ (fun p => apply1 (restrictLeafCoded U) (getTD T p))] at h
    simp only [keysTD, List.map_map, List.mem_map, List.mem_filter, List.contains_iff_mem] at hk
    obtain ⟨p', ⟨_, hpU⟩, e⟩ := hk
    have e' : p' = p := e
    subst e'
    split at h
    · rw [apply1_eval, mem_restrictLeafCoded] at h
      exact ⟨h.1, hpU, h.2⟩
    · simp [eval] at h
  · rintro ⟨h, hpU, hks⟩
    have hk := hasRuleTD_key h
    unfold HasRuleTD
    dsimp only
    rw [getTD_mapKeys _ (fun p => apply1 (restrictLeafCoded U) (getTD T p)),
      if_pos (by simp only [List.mem_filter, List.contains_iff_mem]; exact ⟨hk, hpU⟩), apply1_eval, mem_restrictLeafCoded]
    exact ⟨h, hks⟩

theorem tableTDWF_restrictCoded {T : TableTD} (hT : TableTDWF T) (F U : List Nat) : TableTDWF (restrictCoded T F U).1 := by
  intro p
  unfold restrictCoded
  dsimp only
  rw [getTD_mapKeys _ (fun p => apply1 (restrictLeafCoded U) (getTD T p))]
  split
  · exact apply1_wf _ (hT p)
  · trivial

theorem absTD_restrictCoded (syms : List Nat) (T : TableTD) (F U : List Nat) :
    SetEqTA (absTD syms (restrictCoded T F U).1 (restrictCoded T F U).2) (restrict (absTD syms T F) U) := by
  refine ⟨fun r => ?_, fun q => Iff.rfl⟩
  rw [mem_restrict_rules]
  show r ∈ absRulesTD syms _ ↔ r ∈ absRulesTD syms T ∧ _
  rw [mem_absRulesTD, mem_absRulesTD]
  simp only [hasRuleTD_restrictCoded]
  constructor
  · rintro ⟨hs, n, hn, h1, h2⟩; exact ⟨⟨hs, n, hn, h1⟩, h2⟩
  · rintro ⟨⟨hs, n, hn, h1⟩, h2⟩; exact ⟨hs, n, hn, h1, h2⟩

/-- **`RemoveUselessStates` (top-down) as coded, on the abstraction, is `removeUseless`** – every answer -/
theorem removeUselessTDCoded_abs {syms : List Nat} {T : TableTD} {F : List Nat} (hF : F.Nodup) (hT : TableTDWF T)
    (hc : SymsCompleteTD syms T) {fuel fuel' : Nat} {R : TableTD × List Nat}
    (h : removeUselessTDCoded T F fuel fuel' = some R) :
    SetEqTA (absTD syms R.1 R.2) (removeUseless (absTD syms T F)) ∧
      R.2 = (removeUselessTD T F).2 := by
  unfold removeUselessTDCoded at h
  split at h
  · simp at h
  · rename_i U hU
    dsimp only at h
    split at h
    · simp at h
    · rename_i R' hR'
      simp only [Option.some.injEq] at h
      subst h
      have hUs := usefulCoded_correct hF hU
      refine ⟨?_, ?_⟩
      · refine (tdUnreachWL_abs hR').trans ?_
        refine (absTD_removeUnreachable _ (tableTDWF_restrictCoded hT F U)
          (symsCompleteTD_sub _ (hasRuleTD_restrictCoded T F U) hc)).trans ?_
        refine (setEqTA_removeUnreachable (absTD_restrictCoded syms T F U)).trans ?_
        exact removeUseless_alt _ _ (fun q => (hUs q).trans (mem_usefulTD F hT hc q))
      · show F.filter _ = F.filter _
        apply List.filter_congr
        intro q _
        rw [Bool.eq_iff_iff, List.contains_iff_mem, List.contains_iff_mem]
        exact hUs q

end BddTrimCoded
end Vata
