import Vata.Proofs.RcStore
import Vata.Proofs.MtbddOps
/-!
# Pointer equality is semantic equality: refinement from the node store to diagrams (C17, C18)

Store model: `Vata/RcStore.lean` (`RcS.Store`, operations, `unfold`, `denote`), invariant `RcS.Inv` of `Vata/Proofs/RcStore.lean`.
Tree model: `Vata/Mtbdd.lean` (`M.Node`, `M.eval`, `M.WF`, `M.canonicity`), `Vata/Apply.lean` (`M.mk`, `M.apply2`),
`Vata/MtbddOps.lean` (`M.construct`).

* §1 `diagram s n` = the unfolding of node `n`; `WInv.diagram_inj`, `unfold_injective` (hash-consing: two allocated nodes with
     the same unfolding are the same node)
* §2 `WfInv` (every allocated inner node has `lo ≠ hi` and children with smaller variables), `diagram_wf`; preservation
     by every store operation (`stepF_wfInv`, `runF_wfInv`); `unfold_wf`
* §3 `Inv.node_eq_iff_same_function`, `handle_eq_iff_same_function`, `handle_eq_iff_same_getValue`
* §4 refinement: `buildCube_diagram`, `construct_refines`, `construct_denotes`; `recDescend_diagram`, `apply2_refines`,
     `apply_denotes`; `copy_denotes`, `assign_denotes`
* §5 examples
-/
namespace Vata.RcS
open Vata.R (Data Closed)

/-! ## 1. the diagram of a node, hash-consing -/

/-- the diagram (tree) below node `n`: `unfold` with the fuel `n+1` used by `denote` -/
def diagram (s : Store) (n : Nat) : M.Node Nat := unfold s.dat (n+1) n

theorem denote_eq_eval (s : Store) (n : Nat) (ρ : Nat → Bool) : denote s n ρ = M.eval (diagram s n) ρ := rfl

theorem diagram_congr {s s' : Store} (h : s'.dat = s.dat) (n : Nat) : diagram s' n = diagram s n := by
  unfold diagram; rw [h]

theorem WInv.unfold_fuel {s : Store} {P : List Nat} (h : WInv s P) : ∀ (f1 f2 n : Nat), n ∈ s.ids → n < f1 → n < f2 →
    unfold s.dat f1 n = unfold s.dat f2 n
  | 0, _, _, _, h, _ => by omega
  | _+1, 0, _, _, _, h => by omega
  | f1+1, f2+1, n, hn, h1, h2 => by
    simp only [unfold]
    split
    · rfl
    · rename_i lo hi' var hd
      obtain ⟨c1, c2⟩ := h.closed n hn lo hi' var hd
      obtain ⟨o1, o2⟩ := h.ordered n hn lo hi' var hd
      rw [h.unfold_fuel f1 f2 lo c1 (by omega) (by omega), h.unfold_fuel f1 f2 hi' c2 (by omega) (by omega)]

theorem diagram_leaf {s : Store} {n v : Nat} (hd : s.dat n = .leaf v) : diagram s n = .leaf v := by
  simp only [diagram, unfold, hd]

theorem WInv.diagram_int {s : Store} {P : List Nat} (h : WInv s P) {n lo hi var : Nat} (hn : n ∈ s.ids)
    (hd : s.dat n = .int lo hi var) : diagram s n = .node var (diagram s lo) (diagram s hi) := by
  obtain ⟨c1, c2⟩ := h.closed n hn lo hi var hd
  obtain ⟨o1, o2⟩ := h.ordered n hn lo hi var hd
  have hu : unfold s.dat (n+1) n = .node var (unfold s.dat n lo) (unfold s.dat n hi) := by simp only [unfold, hd]
  unfold diagram
  rw [hu, h.unfold_fuel n (lo+1) lo c1 o1 (Nat.lt_succ_self _), h.unfold_fuel n (hi+1) hi c2 o2 (Nat.lt_succ_self _)]

/-- the diagrams of the existing nodes do not change when the store is extended by allocations -/
theorem WInv.diagram_ext {s s' : Store} {P : List Nat} (h : WInv s P) (e : Ext s s') {n : Nat} (hn : n ∈ s.ids) :
    diagram s' n = diagram s n :=
  unfold_congr h.closed (fun m hm => e.dat m (h.fresh m hm)) (n+1) n hn

theorem WInv.diagram_inj_aux {s : Store} {P : List Nat} (h : WInv s P) : ∀ (k n1 n2 : Nat), n1 < k → n1 ∈ s.ids →
    n2 ∈ s.ids → diagram s n1 = diagram s n2 → n1 = n2
  | 0, _, _, hk, _, _, _ => by omega
  | k+1, n1, n2, hk, h1, h2, he => by
    cases hd1 : s.dat n1 with
    | leaf v1 =>
      cases hd2 : s.dat n2 with
      | leaf v2 =>
        rw [diagram_leaf hd1, diagram_leaf hd2] at he
        cases he
        exact keys_inj h.leafK ((h.leafOk _ _).mpr ⟨h1, hd1⟩) ((h.leafOk _ _).mpr ⟨h2, hd2⟩)
      | int lo2 hi2 var2 =>
        rw [diagram_leaf hd1, h.diagram_int h2 hd2] at he
        cases he
    | int lo1 hi1 var1 =>
      cases hd2 : s.dat n2 with
      | leaf v2 =>
        rw [h.diagram_int h1 hd1, diagram_leaf hd2] at he
        cases he
      | int lo2 hi2 var2 =>
        rw [h.diagram_int h1 hd1, h.diagram_int h2 hd2] at he
        injection he with ev el eh
        obtain ⟨c1, c2⟩ := h.closed n1 h1 lo1 hi1 var1 hd1
        obtain ⟨c3, c4⟩ := h.closed n2 h2 lo2 hi2 var2 hd2
        obtain ⟨o1, o2⟩ := h.ordered n1 h1 lo1 hi1 var1 hd1
        have e1 : lo1 = lo2 := h.diagram_inj_aux k lo1 lo2 (by omega) c1 c3 el
        have e2 : hi1 = hi2 := h.diagram_inj_aux k hi1 hi2 (by omega) c2 c4 eh
        subst ev; subst e1; subst e2
        exact keys_inj h.intK ((h.intOk (lo1, hi1, var1) _).mpr ⟨h1, hd1⟩) ((h.intOk (lo1, hi1, var1) _).mpr ⟨h2, hd2⟩)

/-- hash-consing, also inside an operation: two allocated nodes with the same diagram are the same node -/
theorem WInv.diagram_inj {s : Store} {P : List Nat} (h : WInv s P) {n1 n2 : Nat} (h1 : n1 ∈ s.ids) (h2 : n2 ∈ s.ids)
    (he : diagram s n1 = diagram s n2) : n1 = n2 :=
  h.diagram_inj_aux (n1+1) n1 n2 (Nat.lt_succ_self _) h1 h2 he

/-- `unfold_injective`: in a store that satisfies the invariant (every store reached by an operation list does,
    `runF_inv`), two allocated nodes whose unfoldings are structurally equal are the same node -/
theorem unfold_injective {s : Store} (hi : Inv s) {r₁ r₂ : Nat} (h₁ : r₁ ∈ s.ids) (h₂ : r₂ ∈ s.ids)
    (he : unfold s.dat (r₁+1) r₁ = unfold s.dat (r₂+1) r₂) : r₁ = r₂ :=
  hi.1.diagram_inj h₁ h₂ he

theorem WInv.diagram_eq_iff {s : Store} {P : List Nat} (h : WInv s P) {n1 n2 : Nat} (h1 : n1 ∈ s.ids) (h2 : n2 ∈ s.ids) :
    diagram s n1 = diagram s n2 ↔ n1 = n2 :=
  ⟨h.diagram_inj h1 h2, fun e => by rw [e]⟩

/-! ## 2. every allocated node unfolds to an ordered, reduced diagram -/

/-- the variable of the node (if it is an inner node) is smaller than `x` -/
def VLt (x : Nat) : Data → Prop
  | .leaf _ => True
  | .int _ _ y => y < x

theorem VLt.mono {x z : Nat} (hxz : x ≤ z) : ∀ {d : Data}, VLt x d → VLt z d
  | .leaf _, _ => trivial
  | .int _ _ _, h => Nat.lt_of_lt_of_le h hxz

/-- second invariant: every allocated inner node is reduced (`low ≠ high`, the `assert` of `recDescend`) and its
    children carry smaller variables -/
structure WfInv (s : Store) : Prop where
  red : ∀ m, m ∈ s.ids → ∀ lo hi var, s.dat m = .int lo hi var → lo ≠ hi
  ord : ∀ m, m ∈ s.ids → ∀ lo hi var, s.dat m = .int lo hi var → VLt var (s.dat lo) ∧ VLt var (s.dat hi)

theorem wfInv_empty : WfInv empty := ⟨fun m hm => by simp [empty] at hm, fun m hm => by simp [empty] at hm⟩

theorem WInv.varLt_diagram {s : Store} {P : List Nat} (h : WInv s P) {n x : Nat} (hn : n ∈ s.ids) (hv : VLt x (s.dat n)) :
    M.VarLt x (diagram s n) := by
  cases hd : s.dat n with
  | leaf v => rw [diagram_leaf hd]; trivial
  | int lo hi var => rw [h.diagram_int hn hd]; rw [hd] at hv; exact hv

theorem diagram_wf_aux {s : Store} {P : List Nat} (h : WInv s P) (w : WfInv s) : ∀ (k n : Nat), n < k → n ∈ s.ids →
    M.WF (diagram s n)
  | 0, _, hk, _ => by omega
  | k+1, n, hk, hn => by
    cases hd : s.dat n with
    | leaf v => rw [diagram_leaf hd]; trivial
    | int lo hi var =>
      rw [h.diagram_int hn hd]
      obtain ⟨c1, c2⟩ := h.closed n hn lo hi var hd
      obtain ⟨o1, o2⟩ := h.ordered n hn lo hi var hd
      obtain ⟨v1, v2⟩ := w.ord n hn lo hi var hd
      have w1 := diagram_wf_aux h w k lo (by omega) c1
      have w2 := diagram_wf_aux h w k hi (by omega) c2
      exact ⟨fun e => w.red n hn lo hi var hd (h.diagram_inj c1 c2 e),
        M.below_of_wf_varLt w1 (h.varLt_diagram c1 v1), M.below_of_wf_varLt w2 (h.varLt_diagram c2 v2), w1, w2⟩

/-- the diagram of every allocated node is ordered and reduced -/
theorem diagram_wf {s : Store} {P : List Nat} (h : WInv s P) (w : WfInv s) {n : Nat} (hn : n ∈ s.ids) :
    M.WF (diagram s n) :=
  diagram_wf_aux h w (n+1) n (Nat.lt_succ_self _) hn

/-! ### preservation -/

/-- operations that free nodes or only touch counters / handles -/
theorem WfInv.shrink {s s' : Store} (w : WfInv s) (hd : s'.dat = s.dat) (hids : ∀ x, x ∈ s'.ids → x ∈ s.ids) : WfInv s' :=
  ⟨fun m hm lo hi var hdm => w.red m (hids m hm) lo hi var (hd ▸ hdm),
   fun m hm lo hi var hdm => by rw [hd] at hdm ⊢; exact w.ord m (hids m hm) lo hi var hdm⟩

/-- a fresh node `s.next` with contents `d` -/
theorem WfInv.alloc {s s' : Store} {d : Data} (h : WInv s []) (w : WfInv s) (hids : s'.ids = s.next :: s.ids)
    (hdat : s'.dat = setF s.dat s.next d)
    (hd : ∀ lo hi var, d = .int lo hi var →
      lo ∈ s.ids ∧ hi ∈ s.ids ∧ lo ≠ hi ∧ VLt var (s.dat lo) ∧ VLt var (s.dat hi)) : WfInv s' := by
  have hN : s.next ∉ s.ids := fun hm => Nat.lt_irrefl _ (h.fresh _ hm)
  have hne : ∀ x, x ∈ s.ids → x ≠ s.next := fun x hx e => hN (e ▸ hx)
  have hdN : s'.dat s.next = d := by rw [hdat, setF_same]
  have hdx : ∀ x, x ∈ s.ids → s'.dat x = s.dat x := fun x hx => by rw [hdat, setF_ne _ _ (hne x hx)]
  have key : ∀ m, m ∈ s'.ids → ∀ lo hi var, s'.dat m = .int lo hi var →
      lo ≠ hi ∧ VLt var (s'.dat lo) ∧ VLt var (s'.dat hi) := by
    intro m hm lo hi var hdm
    rw [hids] at hm
    rcases List.mem_cons.mp hm with e | hm
    · subst e
      rw [hdN] at hdm
      obtain ⟨a, b, c, d1, d2⟩ := hd lo hi var hdm
      rw [hdx lo a, hdx hi b]
      exact ⟨c, d1, d2⟩
    · rw [hdx m hm] at hdm
      obtain ⟨c1, c2⟩ := h.closed m hm lo hi var hdm
      rw [hdx lo c1, hdx hi c2]
      exact ⟨w.red m hm lo hi var hdm, w.ord m hm lo hi var hdm⟩
  exact ⟨fun m hm lo hi var hdm => (key m hm lo hi var hdm).1, fun m hm lo hi var hdm => (key m hm lo hi var hdm).2⟩

theorem spawnLeaf_wfInv {s : Store} {v : Nat} (h : WInv s []) (w : WfInv s) : WfInv (spawnLeaf s v).1 := by
  unfold spawnLeaf
  split
  · exact w
  · exact WfInv.alloc (d := .leaf v) h w rfl rfl (fun lo hi var e => by cases e)

theorem spawnInternal_wfInv {s : Store} {lo hi var : Nat} (h : WInv s []) (w : WfInv s) (hlo : lo ∈ s.ids)
    (hhi : hi ∈ s.ids) (hne : lo ≠ hi) (vlo : VLt var (s.dat lo)) (vhi : VLt var (s.dat hi)) :
    WfInv (spawnInternal s lo hi var).1 := by
  unfold spawnInternal
  split
  · exact w
  · refine WfInv.alloc (d := .int lo hi var) h w rfl rfl ?_
    intro lo' hi' var' e
    cases e
    exact ⟨hlo, hhi, hne, vlo, vhi⟩

theorem addHandle_wfInv {s : Store} {h r : Nat} (w : WfInv s) : WfInv (addHandle s h r) :=
  w.shrink rfl (fun _ hx => hx)

theorem copy_wfInv {s : Store} {src dst : Nat} (w : WfInv s) : WfInv (copy s src dst) := by
  unfold copy
  split
  · exact addHandle_wfInv w
  · exact w

theorem destroy_wfInv {s : Store} {h : Nat} (hi : Inv s) (w : WfInv s) : WfInv (destroy s h) := by
  unfold destroy
  split
  · exact w
  · rename_i r hf
    have h1 := hsErase_inv hi.1 (find_some_mem hf)
    obtain ⟨_, _, hd, _, _, _, hs⟩ := release_inv (s.ids.length + 1) _ r [] h1 hi.2 (Nat.lt_succ_self _)
    exact w.shrink hd hs

theorem assign_wfInv {s : Store} {src dst : Nat} (hi : Inv s) (w : WfInv s) : WfInv (assign s src dst) := by
  unfold assign
  split
  · exact w
  · split
    · exact copy_wfInv (destroy_wfInv hi w)
    · exact w

/-! ### `constructMTBDD` -/

theorem buildCube_wfInv (sink d : Nat) : ∀ (as : List (Option Bool)) (s : Store) (proc i : Nat), WInv s [] → WfInv s →
    sink ∈ s.ids → proc ∈ s.ids → s.dat sink = .leaf d → proc ≠ sink → VLt i (s.dat proc) →
    WfInv (buildCube sink s proc i as).1
  | [], _, _, _, _, w, _, _, _, _, _ => w
  | none :: as, s, proc, i, h, w, hs, hp, ds, hne, hv => by
    simp only [buildCube]
    exact buildCube_wfInv sink d as s proc (i+1) h w hs hp ds hne (hv.mono (Nat.le_succ i))
  | some true :: as, s, proc, i, h, w, hs, hp, ds, hne, hv => by
    simp only [buildCube]
    obtain ⟨w1, e1, m1, d1, _⟩ := spawnInternal_inv (var := i) h hs hp
    have ws := spawnInternal_wfInv (var := i) h w hs hp (Ne.symm hne) (by rw [ds]; trivial) hv
    have ds1 : (spawnInternal s sink proc i).1.dat sink = .leaf d := by rw [e1.dat _ (h.fresh _ hs)]; exact ds
    refine buildCube_wfInv sink d as _ _ (i+1) w1 ws (e1.ids _ hs) m1 ds1 ?_ (by rw [d1]; exact Nat.lt_succ_self i)
    intro e; rw [e, ds1] at d1; cases d1
  | some false :: as, s, proc, i, h, w, hs, hp, ds, hne, hv => by
    simp only [buildCube]
    obtain ⟨w1, e1, m1, d1, _⟩ := spawnInternal_inv (var := i) h hp hs
    have ws := spawnInternal_wfInv (var := i) h w hp hs hne hv (by rw [ds]; trivial)
    have ds1 : (spawnInternal s proc sink i).1.dat sink = .leaf d := by rw [e1.dat _ (h.fresh _ hs)]; exact ds
    refine buildCube_wfInv sink d as _ _ (i+1) w1 ws (e1.ids _ hs) m1 ds1 ?_ (by rw [d1]; exact Nat.lt_succ_self i)
    intro e; rw [e, ds1] at d1; cases d1

/-! ### `recDescend` -/

/-- the variable of the node spawned by `recDescend` -/
def topVar (d1 d2 : Data) : Nat := if br d2 d1 = true then varOf d2 else varOf d1

theorem topVar_lt {d1 d2 : Data} (hb : ¬ (br d1 d2 = false ∧ br d2 d1 = false)) {z : Nat} (z1 : VLt z d1) (z2 : VLt z d2) :
    topVar d1 d2 < z := by
  cases d1 with
  | leaf v =>
    cases d2 with
    | leaf w => simp [br] at hb
    | int lo hi y => simp only [br, topVar, varOf, if_true]; exact z2
  | int lo hi x =>
    cases d2 with
    | leaf w => simp only [br, topVar, varOf, Bool.false_eq_true, if_false]; exact z1
    | int lo' hi' y =>
      simp only [topVar, varOf]
      split
      · exact z2
      · exact z1

/-- the successors used by `recDescend` carry variables smaller than the variable of the spawned node -/
theorem kids_vlt (dat : Nat → Data) {n1 n2 : Nat} {d1 d2 : Data} (e1 : dat n1 = d1) (e2 : dat n2 = d2)
    (o1 : ∀ lo hi x, d1 = .int lo hi x → VLt x (dat lo) ∧ VLt x (dat hi))
    (o2 : ∀ lo hi x, d2 = .int lo hi x → VLt x (dat lo) ∧ VLt x (dat hi))
    (hb : ¬ (br d1 d2 = false ∧ br d2 d1 = false)) :
    VLt (topVar d1 d2) (dat (kids d1 (br d1 d2) n1).1) ∧ VLt (topVar d1 d2) (dat (kids d1 (br d1 d2) n1).2) ∧
    VLt (topVar d1 d2) (dat (kids d2 (br d2 d1) n2).1) ∧ VLt (topVar d1 d2) (dat (kids d2 (br d2 d1) n2).2) := by
  cases d1 with
  | leaf v =>
    cases d2 with
    | leaf w => simp [br] at hb
    | int lo hi y =>
      obtain ⟨a, b⟩ := o2 lo hi y rfl
      simp only [br, topVar, varOf, kids, if_true, e1]
      exact ⟨trivial, trivial, a, b⟩
  | int lo hi x =>
    cases d2 with
    | leaf w =>
      obtain ⟨a, b⟩ := o1 lo hi x rfl
      simp only [br, topVar, varOf, kids, e2]
      exact ⟨a, b, trivial, trivial⟩
    | int lo' hi' y =>
      obtain ⟨a, b⟩ := o1 lo hi x rfl
      obtain ⟨a', b'⟩ := o2 lo' hi' y rfl
      simp only [br, topVar, varOf]
      by_cases hxy : x ≥ y <;> by_cases hyx : y ≥ x
      · have : x = y := by omega
        subst this
        simp only [hxy, decide_true, if_true, kids]
        exact ⟨a, b, a', b'⟩
      · simp only [hxy, hyx, decide_true, decide_false, kids, e2, VLt, Bool.false_eq_true, if_false]
        exact ⟨a, b, by omega, by omega⟩
      · simp only [hxy, hyx, decide_true, decide_false, kids, e1, VLt, if_true]
        exact ⟨by omega, by omega, a', b'⟩
      · omega


theorem recDescend_wfInv (f : Nat → Nat → Nat) : ∀ (fuel : Nat) (s : Store) (n1 n2 : Nat), WInv s [] → WfInv s →
    n1 ∈ s.ids → n2 ∈ s.ids → n1 + n2 < fuel →
    WfInv (recDescend f fuel s n1 n2).1 ∧
    (∀ z, VLt z (s.dat n1) → VLt z (s.dat n2) →
      VLt z ((recDescend f fuel s n1 n2).1.dat (recDescend f fuel s n1 n2).2))
  | 0, _, _, _, _, _, _, _, hf => by omega
  | fuel+1, s, n1, n2, h, w, h1, h2, hf => by
    simp only [recDescend]
    split
    · obtain ⟨_, _, _, dl, _⟩ := spawnLeaf_inv (v := f (valOf (s.dat n1)) (valOf (s.dat n2))) h
      exact ⟨spawnLeaf_wfInv h w, fun z _ _ => by rw [dl]; trivial⟩
    · rename_i hb
      obtain ⟨k11, k12, k21, k22, l1, l2⟩ := kids_ok h h1 h2 hb
      obtain ⟨w1, e1, m1, _⟩ := recDescend_inv f fuel s _ _ h k11 k21 (by omega)
      obtain ⟨w2, e2, m2, _⟩ := recDescend_inv f fuel _ _ _ w1 (e1.ids _ k12) (e1.ids _ k22) (by omega)
      obtain ⟨q1, v1⟩ := recDescend_wfInv f fuel s _ _ h w k11 k21 (by omega)
      obtain ⟨q2, v2⟩ := recDescend_wfInv f fuel _ _ _ w1 q1 (e1.ids _ k12) (e1.ids _ k22) (by omega)
      obtain ⟨a1, a2, a3, a4⟩ := kids_vlt s.dat (n1 := n1) (n2 := n2) rfl rfl (fun lo hi x e => w.ord n1 h1 lo hi x e)
        (fun lo hi x e => w.ord n2 h2 lo hi x e) hb
      have t1 := v1 _ a1 a3
      rw [← e2.dat _ (w1.fresh _ m1)] at t1
      have t2 := v2 (topVar (s.dat n1) (s.dat n2)) (by rw [e1.dat _ (h.fresh _ k12)]; exact a2)
        (by rw [e1.dat _ (h.fresh _ k22)]; exact a4)
      split
      · refine ⟨q2, ?_⟩
        intro z zz1 zz2
        exact t1.mono (Nat.le_of_lt (topVar_lt hb zz1 zz2))
      · rename_i hne
        obtain ⟨_, _, _, d3, _⟩ := spawnInternal_inv
          (var := if br (s.dat n2) (s.dat n1) = true then varOf (s.dat n2) else varOf (s.dat n1)) w2 (e2.ids _ m1) m2
        refine ⟨spawnInternal_wfInv w2 q2 (e2.ids _ m1) m2 hne t1 t2, ?_⟩
        intro z zz1 zz2
        rw [d3]
        exact topVar_lt hb zz1 zz2

theorem apply2_wfInv (f : Nat → Nat → Nat) {s : Store} {a b dst : Nat} (hi : Inv s) (w : WfInv s) :
    WfInv (apply2 f s a b dst) := by
  unfold apply2
  split
  · rename_i ra rb hfa hfb hfd
    have hra : ra ∈ s.ids := hi.1.rin ra (root_mem hfa)
    have hrb : rb ∈ s.ids := hi.1.rin rb (root_mem hfb)
    exact addHandle_wfInv (recDescend_wfInv f (ra + rb + 1) s ra rb hi.1 w hra hrb (Nat.lt_succ_self _)).1
  · exact w


theorem construct_wfInv {s : Store} {h v d : Nat} {asgn : List (Option Bool)} (hi : Inv s) (w : WfInv s) :
    WfInv (construct s h asgn v d) := by
  simp only [construct]
  split
  · exact w
  · obtain ⟨w1, e1, m1, d1, _⟩ := spawnLeaf_inv (v := v) hi.1
    have q1 := spawnLeaf_wfInv (v := v) hi.1 w
    split
    · exact addHandle_wfInv q1
    · rename_i hvd
      obtain ⟨w2, e2, m2, d2, _⟩ := spawnLeaf_inv (v := d) w1
      have q2 := spawnLeaf_wfInv (v := d) w1 q1
      have dn : (spawnLeaf (spawnLeaf s v).1 d).1.dat (spawnLeaf s v).2 = .leaf v := by
        rw [e2.dat _ (w1.fresh _ m1)]; exact d1
      have hns : (spawnLeaf s v).2 ≠ (spawnLeaf (spawnLeaf s v).1 d).2 := by
        intro e; rw [e, d2] at dn; cases dn; exact hvd rfl
      have q3 := buildCube_wfInv _ d asgn _ _ 0 w2 q2 m2 (e2.ids _ m1) d2 hns (by rw [dn]; trivial)
      apply addHandle_wfInv
      split
      · split
        · exact q3.shrink rfl (fun x hx => List.mem_of_mem_erase hx)
        · exact q3
      · exact q3

/-- every operation preserves the second invariant -/
theorem stepF_wfInv (f : Nat → Nat → Nat) {s : Store} (op : Op) (hi : Inv s) (w : WfInv s) : WfInv (stepF f s op) := by
  cases op with
  | construct h asgn v d => exact construct_wfInv hi w
  | copy src dst => exact copy_wfInv w
  | assign src dst => exact assign_wfInv hi w
  | apply a b dst => exact apply2_wfInv f hi w
  | destroy h => exact destroy_wfInv hi w

theorem foldl_wfInv (f : Nat → Nat → Nat) : ∀ (ops : List Op) (s : Store), Inv s → WfInv s → WfInv (ops.foldl (stepF f) s)
  | [], _, _, w => w
  | op :: ops, s, h, w => foldl_wfInv f ops (stepF f s op) (stepF_inv f op h).1 (stepF_wfInv f op h w)

/-- the second invariant holds after every operation list -/
theorem runF_wfInv (f : Nat → Nat → Nat) (ops : List Op) : WfInv (runF f ops) :=
  foldl_wfInv f ops empty inv_empty wfInv_empty

/-- `unfold_wf`: after every operation list, every allocated node unfolds to a well-formed (ordered, reduced) diagram -/
theorem unfold_wf (f : Nat → Nat → Nat) (ops : List Op) (n : Nat) (hn : n ∈ (runF f ops).ids) :
    M.WF (unfold (runF f ops).dat (n+1) n) :=
  diagram_wf (runF_inv f ops).1 (runF_wfInv f ops) hn

/-! ## 3. pointer equality of roots is equality of the denoted functions -/

/-- in a store satisfying both invariants two allocated nodes are the same node iff they denote the same function -/
theorem Inv.node_eq_iff_same_function {s : Store} (hi : Inv s) (w : WfInv s) {r₁ r₂ : Nat} (h₁ : r₁ ∈ s.ids)
    (h₂ : r₂ ∈ s.ids) : r₁ = r₂ ↔ ∀ ρ, denote s r₁ ρ = denote s r₂ ρ := by
  constructor
  · intro e ρ; rw [e]
  · intro he
    exact hi.1.diagram_inj h₁ h₂ (M.canonicity _ _ (diagram_wf hi.1 w h₁) (diagram_wf hi.1 w h₂) he)

/-- `handle_eq_iff_same_function`: after every operation list, two live handles have the same root pointer
    (`operator==` of `OndriksMTBDD`) iff they denote the same function -/
theorem handle_eq_iff_same_function (f : Nat → Nat → Nat) (ops : List Op) {h₁ h₂ r₁ r₂ : Nat}
    (hm₁ : (h₁, r₁) ∈ (runF f ops).hs) (hm₂ : (h₂, r₂) ∈ (runF f ops).hs) :
    r₁ = r₂ ↔ ∀ ρ, denote (runF f ops) r₁ ρ = denote (runF f ops) r₂ ρ :=
  have hi := runF_inv f ops
  hi.node_eq_iff_same_function (runF_wfInv f ops) (hi.1.rin r₁ (List.mem_map.mpr ⟨(h₁, r₁), hm₁, rfl⟩))
    (hi.1.rin r₂ (List.mem_map.mpr ⟨(h₂, r₂), hm₂, rfl⟩))

/-- the same in terms of the observers: `find h hs` is `getRoot()`, `getValue` is `GetValue` -/
theorem handle_eq_iff_same_getValue (f : Nat → Nat → Nat) (ops : List Op) {h₁ h₂ r₁ r₂ : Nat}
    (hf₁ : find h₁ (runF f ops).hs = some r₁) (hf₂ : find h₂ (runF f ops).hs = some r₂) :
    find h₁ (runF f ops).hs = find h₂ (runF f ops).hs ↔
      ∀ ρ, getValue (runF f ops) h₁ ρ = getValue (runF f ops) h₂ ρ := by
  have := handle_eq_iff_same_function f ops (find_some_mem hf₁) (find_some_mem hf₂)
  simp only [getValue, hf₁, hf₂, Option.map_some, Option.some.injEq]
  exact this


/-! ## 4. refinement: the store operations compute the tree operations -/

/-! ### `construct` -/

theorem buildCube_diagram (sink d : Nat) : ∀ (as : List (Option Bool)) (s : Store) (proc i : Nat), WInv s [] →
    sink ∈ s.ids → proc ∈ s.ids → s.dat sink = .leaf d →
    diagram (buildCube sink s proc i as).1 (buildCube sink s proc i as).2 =
      M.constructLoop (fun x => x) (.leaf d) as i (diagram s proc)
  | [], _, _, _, _, _, _, _ => rfl
  | none :: as, s, proc, i, h, hs, hp, ds => by
    simp only [buildCube, M.constructLoop]
    exact buildCube_diagram sink d as s proc (i+1) h hs hp ds
  | some true :: as, s, proc, i, h, hs, hp, ds => by
    simp only [buildCube, M.constructLoop]
    obtain ⟨w1, e1, m1, d1, _⟩ := spawnInternal_inv (var := i) h hs hp
    have ds1 : (spawnInternal s sink proc i).1.dat sink = .leaf d := by rw [e1.dat _ (h.fresh _ hs)]; exact ds
    rw [buildCube_diagram sink d as _ _ (i+1) w1 (e1.ids _ hs) m1 ds1, w1.diagram_int m1 d1, h.diagram_ext e1 hs,
      h.diagram_ext e1 hp, diagram_leaf ds]
  | some false :: as, s, proc, i, h, hs, hp, ds => by
    simp only [buildCube, M.constructLoop]
    obtain ⟨w1, e1, m1, d1, _⟩ := spawnInternal_inv (var := i) h hp hs
    have ds1 : (spawnInternal s proc sink i).1.dat sink = .leaf d := by rw [e1.dat _ (h.fresh _ hs)]; exact ds
    rw [buildCube_diagram sink d as _ _ (i+1) w1 (e1.ids _ hs) m1 ds1, w1.diagram_int m1 d1, h.diagram_ext e1 hs,
      h.diagram_ext e1 hp, diagram_leaf ds]

theorem find_addHandle (s : Store) (h r : Nat) : find h (addHandle s h r).hs = some r := by
  simp [addHandle, find]

theorem diagram_addHandle (s : Store) (h r n : Nat) : diagram (addHandle s h r) n = diagram s n := rfl

theorem ite_dispose_dat (c1 c2 : Prop) [Decidable c1] [Decidable c2] (t : Store) (n v : Nat) :
    (if c1 then (if c2 then disposeLeaf t n v else t) else t).dat = t.dat := by
  split
  · split <;> rfl
  · rfl

/-- `OndriksMTBDD h(asgn, v, d)` on the store creates a handle whose root unfolds to the diagram `M.construct asgn v d`
    of the tree model -/
theorem construct_refines {s : Store} {h v d : Nat} {asgn : List (Option Bool)} (hi : Inv s) (hf : find h s.hs = none) :
    ∃ r, find h (construct s h asgn v d).hs = some r ∧ diagram (construct s h asgn v d) r = M.construct asgn v d := by
  simp only [construct, hf]
  obtain ⟨w1, e1, m1, d1, _⟩ := spawnLeaf_inv (v := v) hi.1
  split
  · rename_i hvd
    refine ⟨_, find_addHandle _ _ _, ?_⟩
    rw [diagram_addHandle, diagram_leaf d1]
    simp [M.construct, M.constructOn, hvd]
  · rename_i hvd
    obtain ⟨w2, e2, m2, d2, _⟩ := spawnLeaf_inv (v := d) w1
    have dn : (spawnLeaf (spawnLeaf s v).1 d).1.dat (spawnLeaf s v).2 = .leaf v := by
      rw [e2.dat _ (w1.fresh _ m1)]; exact d1
    refine ⟨_, find_addHandle _ _ _, ?_⟩
    rw [diagram_addHandle, diagram_congr (ite_dispose_dat _ _ _ _ _),
      buildCube_diagram _ d asgn _ _ 0 w2 m2 (e2.ids _ m1) d2, diagram_leaf dn]
    have : (M.Node.leaf v : M.Node Nat) ≠ .leaf d := fun e => hvd (by cases e; rfl)
    simp only [M.construct, M.constructOn, this, if_false]


/-! ### `apply` -/

/-- one unfolding of `M.apply2` on the diagrams of two nodes, in the vocabulary of `recDescend`
    (`br` = `classifyCase2`, `kids` = the low / high successors) -/
theorem apply2_step (f : Nat → Nat → Nat) {s : Store} {P : List Nat} (h : WInv s P) {n1 n2 : Nat} (h1 : n1 ∈ s.ids)
    (h2 : n2 ∈ s.ids) :
    (br (s.dat n1) (s.dat n2) = false ∧ br (s.dat n2) (s.dat n1) = false →
      M.apply2 f (diagram s n1) (diagram s n2) = .leaf (f (valOf (s.dat n1)) (valOf (s.dat n2)))) ∧
    (¬ (br (s.dat n1) (s.dat n2) = false ∧ br (s.dat n2) (s.dat n1) = false) →
      M.apply2 f (diagram s n1) (diagram s n2) =
        M.mk (if br (s.dat n2) (s.dat n1) = true then varOf (s.dat n2) else varOf (s.dat n1))
          (M.apply2 f (diagram s (kids (s.dat n1) (br (s.dat n1) (s.dat n2)) n1).1)
            (diagram s (kids (s.dat n2) (br (s.dat n2) (s.dat n1)) n2).1))
          (M.apply2 f (diagram s (kids (s.dat n1) (br (s.dat n1) (s.dat n2)) n1).2)
            (diagram s (kids (s.dat n2) (br (s.dat n2) (s.dat n1)) n2).2))) := by
  cases hd1 : s.dat n1 with
  | leaf v =>
    cases hd2 : s.dat n2 with
    | leaf w =>
      refine ⟨fun _ => ?_, fun hb => absurd ⟨rfl, rfl⟩ hb⟩
      rw [diagram_leaf hd1, diagram_leaf hd2, M.apply2]; rfl
    | int lo hi y =>
      refine ⟨fun hb => by simp [br] at hb, fun _ => ?_⟩
      simp only [br, kids, varOf, if_true]
      rw [diagram_leaf hd1, h.diagram_int h2 hd2, M.apply2]
  | int lo hi x =>
    cases hd2 : s.dat n2 with
    | leaf w =>
      refine ⟨fun hb => by simp [br] at hb, fun _ => ?_⟩
      simp only [br, kids, varOf, Bool.false_eq_true, if_false]
      rw [h.diagram_int h1 hd1, diagram_leaf hd2, M.apply2]
    | int lo' hi' y =>
      refine ⟨fun hb => by simp only [br, decide_eq_false_iff_not] at hb; omega, fun _ => ?_⟩
      simp only [br, varOf]
      rw [h.diagram_int h1 hd1, h.diagram_int h2 hd2, M.apply2]
      by_cases hxy : x = y
      · subst hxy
        simp only [Nat.le_refl, ge_iff_le, decide_true, if_true, kids]
      · by_cases hlt : y < x
        · have g1 : x ≥ y := by omega
          have g2 : ¬ y ≥ x := by omega
          simp only [hxy, hlt, g1, g2, decide_true, decide_false, if_true, if_false, kids, Bool.false_eq_true]
          rw [h.diagram_int h2 hd2]
        · have g1 : ¬ x ≥ y := by omega
          have g2 : y ≥ x := by omega
          simp only [hxy, hlt, g1, g2, decide_true, decide_false, if_true, if_false, kids]
          rw [h.diagram_int h1 hd1]


/-- `Apply2Functor::recDescend` on the store computes `M.apply2` on the diagrams -/
theorem recDescend_diagram (f : Nat → Nat → Nat) : ∀ (fuel : Nat) (s : Store) (n1 n2 : Nat), WInv s [] → n1 ∈ s.ids →
    n2 ∈ s.ids → n1 + n2 < fuel →
    diagram (recDescend f fuel s n1 n2).1 (recDescend f fuel s n1 n2).2 = M.apply2 f (diagram s n1) (diagram s n2)
  | 0, _, _, _, _, _, _, hf => by omega
  | fuel+1, s, n1, n2, h, h1, h2, hf => by
    obtain ⟨st1, st2⟩ := apply2_step f h h1 h2
    simp only [recDescend]
    split
    · rename_i hb
      obtain ⟨_, _, _, dl, _⟩ := spawnLeaf_inv (v := f (valOf (s.dat n1)) (valOf (s.dat n2))) h
      rw [diagram_leaf dl, st1 hb]
    · rename_i hb
      obtain ⟨k11, k12, k21, k22, l1, l2⟩ := kids_ok h h1 h2 hb
      obtain ⟨w1, e1, m1, _⟩ := recDescend_inv f fuel s _ _ h k11 k21 (by omega)
      obtain ⟨w2, e2, m2, _⟩ := recDescend_inv f fuel _ _ _ w1 (e1.ids _ k12) (e1.ids _ k22) (by omega)
      have i1 := recDescend_diagram f fuel s _ _ h k11 k21 (by omega)
      have i2 := recDescend_diagram f fuel _ _ _ w1 (e1.ids _ k12) (e1.ids _ k22) (by omega)
      rw [h.diagram_ext e1 k12, h.diagram_ext e1 k22] at i2
      rw [← w1.diagram_ext e2 m1] at i1
      rw [st2 hb, ← i1, ← i2]
      unfold M.mk
      split
      · rename_i heq
        rw [if_pos ((w2.diagram_eq_iff (e2.ids _ m1) m2).mpr heq)]
      · rename_i hne
        obtain ⟨w3, e3, m3, d3, _⟩ := spawnInternal_inv
          (var := if br (s.dat n2) (s.dat n1) = true then varOf (s.dat n2) else varOf (s.dat n1)) w2 (e2.ids _ m1) m2
        rw [if_neg (fun e => hne ((w2.diagram_eq_iff (e2.ids _ m1) m2).mp e)), w3.diagram_int m3 d3,
          w2.diagram_ext e3 (e2.ids _ m1), w2.diagram_ext e3 m2]


/-- `OndriksMTBDD dst = apply(a, b)` on the store: the new handle's root unfolds to `M.apply2 f` of the operands'
    diagrams, hence denotes the pointwise operation -/
theorem apply2_refines (f : Nat → Nat → Nat) {s : Store} {a b dst ra rb : Nat} (hi : Inv s) (ha : find a s.hs = some ra)
    (hb : find b s.hs = some rb) (hd : find dst s.hs = none) :
    ∃ r, find dst (apply2 f s a b dst).hs = some r ∧
      diagram (apply2 f s a b dst) r = M.apply2 f (diagram s ra) (diagram s rb) ∧
      ∀ ρ, denote (apply2 f s a b dst) r ρ = f (denote s ra ρ) (denote s rb ρ) := by
  have hra : ra ∈ s.ids := hi.1.rin ra (root_mem ha)
  have hrb : rb ∈ s.ids := hi.1.rin rb (root_mem hb)
  have key : diagram (apply2 f s a b dst) (recDescend f (ra + rb + 1) s ra rb).2 =
      M.apply2 f (diagram s ra) (diagram s rb) := by
    simp only [apply2, ha, hb, hd]
    rw [diagram_addHandle, recDescend_diagram f _ s ra rb hi.1 hra hrb (Nat.lt_succ_self _)]
  refine ⟨(recDescend f (ra + rb + 1) s ra rb).2, ?_, key, ?_⟩
  · simp only [apply2, ha, hb, hd]
    exact find_addHandle _ _ _
  · intro ρ
    rw [denote_eq_eval, key, M.apply2_eval]
    rfl

theorem find_none_of_not_mem {κ : Type} [DecidableEq κ] {k : κ} : ∀ {t : List (κ × Nat)}, (∀ n, (k, n) ∉ t) → find k t = none
  | [], _ => rfl
  | (k', m) :: t, h => by
    simp only [find]
    split
    · rename_i e; subst e; exact absurd List.mem_cons_self (h m)
    · exact find_none_of_not_mem (fun n hn => h n (List.mem_cons_of_mem _ hn))

/-- a handle that is not the target of the operation keeps its root and the diagram of its root -/
theorem Inv.find_frame {s s' : Store} {t : Nat} (hi : Inv s) (hi' : Inv s') (fr : Frame t s s') {h r : Nat}
    (hf : find h s.hs = some r) (ht : h ≠ t) : find h s'.hs = some r ∧ diagram s' r = diagram s r :=
  have := hi.frame_denote fr (find_some_mem hf) ht
  ⟨mem_find hi'.1.hsK this.1, this.2.1⟩

/-- the copy constructor `OndriksMTBDD dst(src)`: the new handle has the root of the source; no diagram changes -/
theorem copy_refines {s : Store} {src dst r : Nat} (hs : find src s.hs = some r) (hd : find dst s.hs = none) :
    find dst (copy s src dst).hs = some r ∧ find src (copy s src dst).hs = some r ∧
    ∀ n, diagram (copy s src dst) n = diagram s n := by
  have hne : dst ≠ src := fun e => by rw [e, hs] at hd; cases hd
  simp only [copy, hs, hd]
  refine ⟨find_addHandle _ _ _, ?_, fun n => rfl⟩
  show find src ((dst, r) :: s.hs) = some r
  simp only [find, hne, if_false]
  exact hs

/-- `dst = src` (`operator=`) for two different live handles: `dst` gets the root of `src`, whose diagram is unchanged -/
theorem assign_refines {s : Store} {src dst r r' : Nat} (hi : Inv s) (hne : src ≠ dst) (hs : find src s.hs = some r)
    (hd : find dst s.hs = some r') :
    find dst (assign s src dst).hs = some r ∧ find src (assign s src dst).hs = some r ∧
    diagram (assign s src dst) r = diagram s r := by
  obtain ⟨i1, f1, n1⟩ := destroy_inv (h := dst) hi
  obtain ⟨s1, d1⟩ := hi.find_frame i1 f1 hs hne
  obtain ⟨c1, c2, c3⟩ := copy_refines s1 (find_none_of_not_mem n1)
  simp only [assign, hne, if_false, hs, hd]
  exact ⟨c1, c2, (c3 r).trans d1⟩

/-! ### the same for operation lists -/

theorem runF_snoc (f : Nat → Nat → Nat) (ops : List Op) (op : Op) : runF f (ops ++ [op]) = stepF f (runF f ops) op := by
  simp [runF, List.foldl_append]

/-- `construct_denotes`: after any operation list, `OndriksMTBDD h(asgn, v, d)` for a fresh handle name `h` creates a handle
    whose root unfolds to the tree-model diagram `M.construct asgn v d` and which denotes the cube function: `v` on the
    assignments that agree with `asgn`, `d` elsewhere -/
theorem construct_denotes (f : Nat → Nat → Nat) (ops : List Op) (h : Nat) (asgn : List (Option Bool)) (v d : Nat)
    (hf : find h (runF f ops).hs = none) :
    ∃ r, find h (runF f (ops ++ [.construct h asgn v d])).hs = some r ∧
      unfold (runF f (ops ++ [.construct h asgn v d])).dat (r+1) r = M.construct asgn v d ∧
      ∀ ρ, denote (runF f (ops ++ [.construct h asgn v d])) r ρ = if M.agrees ρ asgn 0 = true then v else d := by
  rw [runF_snoc]
  obtain ⟨r, h1, h2⟩ := construct_refines (asgn := asgn) (v := v) (d := d) (runF_inv f ops) hf
  refine ⟨r, h1, h2, fun ρ => ?_⟩
  rw [denote_eq_eval]
  show M.eval (diagram (construct (runF f ops) h asgn v d) r) ρ = _
  rw [h2, M.construct_eval_agrees]

/-- `apply_denotes`: after any operation list, `OndriksMTBDD dst = apply(a, b)` for live `a`, `b` and a fresh name `dst`
    creates a handle whose root unfolds to `M.apply2 f` of the operands' diagrams and which denotes the pointwise `f` of
    the operands (which are still live, with the same roots and diagrams) -/
theorem apply_denotes (f : Nat → Nat → Nat) (ops : List Op) (a b dst ra rb : Nat)
    (ha : find a (runF f ops).hs = some ra) (hb : find b (runF f ops).hs = some rb)
    (hd : find dst (runF f ops).hs = none) :
    ∃ r, find dst (runF f (ops ++ [.apply a b dst])).hs = some r ∧
      find a (runF f (ops ++ [.apply a b dst])).hs = some ra ∧ find b (runF f (ops ++ [.apply a b dst])).hs = some rb ∧
      unfold (runF f (ops ++ [.apply a b dst])).dat (r+1) r =
        M.apply2 f (unfold (runF f (ops ++ [.apply a b dst])).dat (ra+1) ra)
          (unfold (runF f (ops ++ [.apply a b dst])).dat (rb+1) rb) ∧
      ∀ ρ, denote (runF f (ops ++ [.apply a b dst])) r ρ =
        f (denote (runF f (ops ++ [.apply a b dst])) ra ρ) (denote (runF f (ops ++ [.apply a b dst])) rb ρ) := by
  rw [runF_snoc]
  have hi := runF_inv f ops
  obtain ⟨i1, f1⟩ := apply2_inv f (a := a) (b := b) (dst := dst) hi
  obtain ⟨r, h1, h2, _⟩ := apply2_refines f hi ha hb hd
  have nea : a ≠ dst := fun e => by rw [e, hd] at ha; cases ha
  have neb : b ≠ dst := fun e => by rw [e, hd] at hb; cases hb
  obtain ⟨a1, a2⟩ := hi.find_frame i1 f1 ha nea
  obtain ⟨b1, b2⟩ := hi.find_frame i1 f1 hb neb
  have key : diagram (apply2 f (runF f ops) a b dst) r =
      M.apply2 f (diagram (apply2 f (runF f ops) a b dst) ra) (diagram (apply2 f (runF f ops) a b dst) rb) := by
    rw [a2, b2]; exact h2
  refine ⟨r, h1, a1, b1, key, fun ρ => ?_⟩
  show M.eval (diagram (apply2 f (runF f ops) a b dst) r) ρ = _
  rw [key, M.apply2_eval]
  rfl

/-- after any operation list, the copy constructor gives the new handle the root of its source -/
theorem copy_denotes (f : Nat → Nat → Nat) (ops : List Op) (src dst r : Nat)
    (hs : find src (runF f ops).hs = some r) (hd : find dst (runF f ops).hs = none) :
    find dst (runF f (ops ++ [.copy src dst])).hs = some r ∧ find src (runF f (ops ++ [.copy src dst])).hs = some r ∧
    ∀ ρ, denote (runF f (ops ++ [.copy src dst])) r ρ = denote (runF f ops) r ρ := by
  rw [runF_snoc]
  obtain ⟨c1, c2, c3⟩ := copy_refines hs hd
  exact ⟨c1, c2, fun ρ => by rw [denote_eq_eval]; show M.eval (diagram (copy (runF f ops) src dst) r) ρ = _; rw [c3]; rfl⟩

/-- after any operation list, `dst = src` for two different live handles gives `dst` the root of `src`, which denotes
    what it denoted before -/
theorem assign_denotes (f : Nat → Nat → Nat) (ops : List Op) (src dst r r' : Nat) (hne : src ≠ dst)
    (hs : find src (runF f ops).hs = some r) (hd : find dst (runF f ops).hs = some r') :
    find dst (runF f (ops ++ [.assign src dst])).hs = some r ∧ find src (runF f (ops ++ [.assign src dst])).hs = some r ∧
    ∀ ρ, denote (runF f (ops ++ [.assign src dst])) r ρ = denote (runF f ops) r ρ := by
  rw [runF_snoc]
  obtain ⟨c1, c2, c3⟩ := assign_refines (runF_inv f ops) hne hs hd
  exact ⟨c1, c2, fun ρ => by rw [denote_eq_eval]; show M.eval (diagram (assign (runF f ops) src dst) r) ρ = _; rw [c3]; rfl⟩


/-! ### the same in terms of the observer `getValue` (`GetValue` of a handle for a total assignment) -/

theorem getValue_of_find {s : Store} {h r : Nat} (hf : find h s.hs = some r) (ρ : Nat → Bool) :
    getValue s h ρ = some (denote s r ρ) := by
  simp only [getValue, hf, Option.map_some]

theorem construct_getValue (f : Nat → Nat → Nat) (ops : List Op) (h : Nat) (asgn : List (Option Bool)) (v d : Nat)
    (hf : find h (runF f ops).hs = none) (ρ : Nat → Bool) :
    getValue (runF f (ops ++ [.construct h asgn v d])) h ρ = some (if M.agrees ρ asgn 0 = true then v else d) := by
  obtain ⟨r, h1, _, h3⟩ := construct_denotes f ops h asgn v d hf
  rw [getValue_of_find h1, h3]

theorem apply_getValue (f : Nat → Nat → Nat) (ops : List Op) (a b dst : Nat) (ρ : Nat → Bool) (va vb : Nat)
    (ha : getValue (runF f ops) a ρ = some va) (hb : getValue (runF f ops) b ρ = some vb)
    (hd : find dst (runF f ops).hs = none) :
    getValue (runF f (ops ++ [.apply a b dst])) dst ρ = some (f va vb) ∧
    getValue (runF f (ops ++ [.apply a b dst])) a ρ = some va ∧
    getValue (runF f (ops ++ [.apply a b dst])) b ρ = some vb := by
  cases hfa : find a (runF f ops).hs with
  | none => simp [getValue, hfa] at ha
  | some ra =>
    cases hfb : find b (runF f ops).hs with
    | none => simp [getValue, hfb] at hb
    | some rb =>
      rw [getValue_of_find hfa] at ha
      rw [getValue_of_find hfb] at hb
      have hi := runF_inv f ops
      have nea : a ≠ dst := fun e => by rw [e, hd] at hfa; cases hfa
      have neb : b ≠ dst := fun e => by rw [e, hd] at hfb; cases hfb
      obtain ⟨r, h1, _, h3⟩ := apply2_refines f hi hfa hfb hd
      obtain ⟨i1, f1⟩ := apply2_inv f (a := a) (b := b) (dst := dst) hi
      have fa := hi.frame_denote f1 (find_some_mem hfa) nea
      have fb := hi.frame_denote f1 (find_some_mem hfb) neb
      rw [runF_snoc]
      show getValue (apply2 f (runF f ops) a b dst) dst ρ = _ ∧ getValue (apply2 f (runF f ops) a b dst) a ρ = _ ∧
        getValue (apply2 f (runF f ops) a b dst) b ρ = _
      rw [getValue_of_find h1, getValue_of_find (mem_find i1.1.hsK fa.1), getValue_of_find (mem_find i1.1.hsK fb.1),
        h3, fa.2.2, fb.2.2]
      cases ha; cases hb
      exact ⟨rfl, rfl, rfl⟩

theorem copy_getValue (f : Nat → Nat → Nat) (ops : List Op) (src dst r : Nat)
    (hs : find src (runF f ops).hs = some r) (hd : find dst (runF f ops).hs = none) (ρ : Nat → Bool) :
    getValue (runF f (ops ++ [.copy src dst])) dst ρ = getValue (runF f ops) src ρ ∧
    getValue (runF f (ops ++ [.copy src dst])) src ρ = getValue (runF f ops) src ρ := by
  obtain ⟨c1, c2, c3⟩ := copy_denotes f ops src dst r hs hd
  rw [getValue_of_find c1, getValue_of_find c2, getValue_of_find hs, c3]
  exact ⟨rfl, rfl⟩

theorem assign_getValue (f : Nat → Nat → Nat) (ops : List Op) (src dst r r' : Nat) (hne : src ≠ dst)
    (hs : find src (runF f ops).hs = some r) (hd : find dst (runF f ops).hs = some r') (ρ : Nat → Bool) :
    getValue (runF f (ops ++ [.assign src dst])) dst ρ = getValue (runF f ops) src ρ ∧
    getValue (runF f (ops ++ [.assign src dst])) src ρ = getValue (runF f ops) src ρ := by
  obtain ⟨c1, c2, c3⟩ := assign_denotes f ops src dst r r' hne hs hd
  rw [getValue_of_find c1, getValue_of_find c2, getValue_of_find hs, c3]
  exact ⟨rfl, rfl⟩

/-! ## 5. non-vacuity -/
namespace RefineEx

/-- cubes over different assignment lists that denote the same function (handles 0, 1), two applies with swapped
    operands (handles 3, 4), a destructor in between, further constructions and applies -/
def ops : List Op :=
  [.construct 0 [some true, none] 5 0, .construct 1 [some true] 5 0, .construct 2 [some false, some true] 7 0,
   .apply 0 2 3, .apply 2 1 4, .destroy 0, .construct 5 [none, some true] 7 0, .apply 5 1 6]

example : (runF applyOp ops).hs = [(6, 9), (5, 8), (4, 7), (3, 7), (2, 5), (1, 2)] ∧
    (runF applyOp ops).ids = [9, 8, 7, 6, 5, 4, 3, 2, 1, 0] ∧ tableSizes (runF applyOp ops) = (3, 7) := by decide

-- `unfold_injective`, `unfold_wf`: its hypotheses hold for allocated inner nodes of a store with sharing
example : Inv (runF applyOp ops) ∧ 7 ∈ (runF applyOp ops).ids ∧ 9 ∈ (runF applyOp ops).ids :=
  ⟨runF_inv _ _, by decide, by decide⟩
example : unfold (runF applyOp ops).dat 8 7 = .node 1 (.node 0 (.leaf 0) (.leaf 5)) (.node 0 (.leaf 7) (.leaf 5)) ∧
    unfold (runF applyOp ops).dat 10 9 = .node 1 (.node 0 (.leaf 0) (.leaf 5)) (.leaf 7) := by decide
example : M.WF (unfold (runF applyOp ops).dat 8 7) := unfold_wf applyOp ops 7 (by decide)
example : WfInv (runF applyOp ops) := runF_wfInv _ _

-- `handle_eq_iff_same_function`: handles 3 and 4 (max is commutative; handles 0 and 1 denote the same function) have the
-- same root; handles 5 and 6 have different roots, hence denote different functions
example : (3, 7) ∈ (runF applyOp ops).hs ∧ (4, 7) ∈ (runF applyOp ops).hs ∧ (5, 8) ∈ (runF applyOp ops).hs ∧
    (6, 9) ∈ (runF applyOp ops).hs := by decide
example : ¬ ∀ ρ, denote (runF applyOp ops) 8 ρ = denote (runF applyOp ops) 9 ρ := fun h =>
  absurd ((handle_eq_iff_same_function applyOp ops (h₁ := 5) (h₂ := 6) (by decide) (by decide)).mpr h) (by decide)

-- `construct_denotes`, `apply_denotes`, `copy_denotes`, `assign_denotes`: their hypotheses hold in this store
example : find 7 (runF applyOp ops).hs = none ∧ find 5 (runF applyOp ops).hs = some 8 ∧
    find 1 (runF applyOp ops).hs = some 2 ∧ (5 : Nat) ≠ 1 := by decide
example : ∃ r, find 7 (runF applyOp (ops ++ [.apply 5 1 7])).hs = some r ∧
    ∀ ρ, denote (runF applyOp (ops ++ [.apply 5 1 7])) r ρ =
      applyOp (denote (runF applyOp (ops ++ [.apply 5 1 7])) 8 ρ) (denote (runF applyOp (ops ++ [.apply 5 1 7])) 2 ρ) :=
  let ⟨r, h1, _, _, _, h5⟩ := apply_denotes applyOp ops 5 1 7 8 2 (by decide) (by decide) (by decide)
  ⟨r, h1, h5⟩
-- the new apply result is the node that handle 6 already has (same function, same pointer)
example : find 7 (runF applyOp (ops ++ [.apply 5 1 7])).hs = some 9 := by decide
example : ∀ ρ, getValue (runF applyOp (ops ++ [.construct 7 [none, some false] 3 4])) 7 ρ =
    some (if M.agrees ρ [none, some false] 0 = true then 3 else 4) :=
  construct_getValue applyOp ops 7 _ 3 4 (by decide)
example : find 1 (runF applyOp (ops ++ [.assign 5 1])).hs = some 8 :=
  (assign_denotes applyOp ops 5 1 8 2 (by decide) (by decide) (by decide)).1
example : find 7 (runF applyOp (ops ++ [.copy 5 7])).hs = some 8 :=
  (copy_denotes applyOp ops 5 7 8 (by decide) (by decide)).1

end RefineEx

end Vata.RcS
