import Vata.BddAbs
import Vata.Proofs.MtbddOps
import Vata.Proofs.InclUpInv
import Vata.Isect
/-!
# The leaf operations of the symbolic bottom-up tables lift to rule sets (property C08)

With `HasRule T ρ ks p` (`p ∈ eval (GetMtbdd ks) ρ`: the rule `ρ(ks) → p` is in the table `T`):

* `absBU_add`, `absBU_addTransition` : `AddTransition` adds exactly the rules of the cube / the one rule;
* `absBU_ofRules`  : the table built by `AddTransition` from a list of rules has exactly these rules (the encoding is the
  identity on the abstract automaton), `mem_absRules`, `absRules_ofRules` for the executable `absRules`;
* `absBU_union`, `absBU_unionDisj`, `absRules_union` : table-wise `apply2 (· ∪ ·)` gives the union of the rule sets;
* `absBU_isect`, `absBU_isect_prod` : `apply2` with the pairwise product of the leaf sets gives the rules of the product
  automaton (`prodRules` of `Vata/Isect.lean`) on that pair of tuples.

Everything follows from `apply2_eval` (the apply is pointwise on the leaves) and `construct_eval_agrees`.
-/
namespace Vata
namespace BddAbs
open M InclUp

/-! ### leaf operations -/

theorem mem_unionS {a b : List Nat} {x : Nat} : x ∈ unionS a b ↔ x ∈ a ∨ x ∈ b := by
  simp only [unionS, mem_normS, List.mem_append]

theorem mem_prodS {tr : Nat × Nat → Nat} {a b : List Nat} {x : Nat} :
    x ∈ prodS tr a b ↔ ∃ p₁ p₂, p₁ ∈ a ∧ p₂ ∈ b ∧ tr (p₁, p₂) = x := by
  simp only [prodS, mem_normS, List.mem_flatMap, List.mem_map]
  constructor
  · rintro ⟨p₁, h1, p₂, h2, h⟩; exact ⟨p₁, p₂, h1, h2, h⟩
  · rintro ⟨p₁, p₂, h1, h2, h⟩; exact ⟨p₁, h1, p₂, h2, h⟩

/-! ### the table -/

theorem getE_filter_ne (ks ks' : List Nat) (hne : ks ≠ ks') : ∀ es : List (List Nat × MT),
    getE (es.filter (fun e => e.1 != ks)) ks' = getE es ks'
  | [] => rfl
  | (k, m) :: es => by
    by_cases hk : k = ks
    · subst hk
      have : (List.filter (fun e => e.1 != k) ((k, m) :: es)) = List.filter (fun e => e.1 != k) es := by
        simp
      rw [this, getE_filter_ne k ks' hne es]
      simp only [getE, hne, if_false]
    · have : (List.filter (fun e => e.1 != ks) ((k, m) :: es)) = (k, m) :: List.filter (fun e => e.1 != ks) es := by
        simp [hk]
      rw [this]
      simp only [getE]
      rw [getE_filter_ne ks ks' hne es]

theorem getE_setE (es : List (List Nat × MT)) (ks ks' : List Nat) (m : MT) :
    getE (setE es ks m) ks' = if ks = ks' then m else getE es ks' := by
  simp only [setE, getE]
  split
  · rfl
  · next h => exact getE_filter_ne ks ks' h es

/-- `GetMtbdd` after `SetMtbdd` -/
theorem get_set (T : Table) (ks ks' : List Nat) (m : MT) :
    (T.set ks m).get ks' = if ks = ks' then m else T.get ks' := by
  unfold Table.set Table.get
  by_cases h : ks = []
  · subst h
    by_cases h' : ks' = []
    · subst h'; simp
    · have : ¬ ([] : List Nat) = ks' := fun e => h' e.symm
      simp [h', this]
  · by_cases h' : ks' = []
    · subst h'; simp [h]
    · simp only [h, h', if_false]
      exact getE_setE _ _ _ _

theorem getE_not_key {es : List (List Nat × MT)} {ks : List Nat} (h : ks ∉ es.map (·.1)) : getE es ks = .leaf [] := by
  induction es with
  | nil => rfl
  | cons e es ih =>
    obtain ⟨k, m⟩ := e
    simp only [List.map_cons, List.mem_cons, not_or] at h
    simp only [getE]
    rw [if_neg (fun e => h.1 e.symm)]
    exact ih h.2

theorem getE_append (es es' : List (List Nat × MT)) (ks : List Nat) :
    getE (es ++ es') ks = if ks ∈ es.map (·.1) then getE es ks else getE es' ks := by
  induction es with
  | nil => simp
  | cons e es ih =>
    obtain ⟨k, m⟩ := e
    simp only [List.cons_append, getE, List.map_cons, List.mem_cons]
    by_cases hk : k = ks
    · subst hk; simp
    · have : ¬ ks = k := fun e => hk e.symm
      simp only [hk, this, if_false, false_or]
      exact ih

theorem getE_mapKeys (L : List (List Nat)) (g : List Nat → MT) (ks : List Nat) :
    getE (L.map (fun k => (k, g k))) ks = if ks ∈ L then g ks else .leaf [] := by
  induction L with
  | nil => simp [getE]
  | cons k L ih =>
    simp only [List.map_cons, getE, List.mem_cons]
    by_cases hk : k = ks
    · subst hk; simp
    · have : ¬ ks = k := fun e => hk e.symm
      simp only [hk, this, if_false, false_or]
      exact ih

/-! ### the abstraction -/

theorem hasRule_empty (ρ : Nat → Bool) (ks : List Nat) (p : Nat) : ¬ HasRule Table.empty ρ ks p := by
  unfold HasRule Table.get Table.empty
  split <;> simp [getE, eval]

/-- a tuple without an MTBDD has no rule -/
theorem hasRule_key {T : Table} {ρ : Nat → Bool} {ks : List Nat} {p : Nat} (h : HasRule T ρ ks p) : ks ∈ T.keys := by
  unfold HasRule Table.get at h
  unfold Table.keys
  by_cases hk : ks = []
  · subst hk; exact List.mem_cons_self
  · rw [if_neg hk] at h
    refine List.mem_cons_of_mem _ ?_
    apply Classical.byContradiction
    intro hn
    rw [getE_not_key hn] at h
    simp [eval] at h

theorem mem_absRules {syms : List Nat} {T : Table} {r : Rule} :
    r ∈ absRules syms T ↔ r.sym ∈ syms ∧ HasRule T (bits r.sym) r.kids r.parent := by
  simp only [absRules, List.mem_flatMap, List.mem_map]
  constructor
  · rintro ⟨ks, _, f, hf, p, hp, rfl⟩
    exact ⟨hf, hp⟩
  · rintro ⟨hf, hp⟩
    exact ⟨r.kids, hasRule_key hp, r.sym, hf, r.parent, hp, rfl⟩

/-! ### `AddTransition` -/

/-- `AddTransition` with a cube of symbols adds the rules `ρ(ks) → p` for the valuations `ρ` in the cube -/
theorem absBU_add (T : Table) (ks : List Nat) (asgn : List (Option Bool)) (p : Nat)
    (ρ : Nat → Bool) (ks' : List Nat) (p' : Nat) :
    HasRule (addCube T ks asgn p) ρ ks' p' ↔
      HasRule T ρ ks' p' ∨ (ks' = ks ∧ p' = p ∧ agrees ρ asgn 0 = true) := by
  unfold HasRule addCube
  rw [get_set]
  by_cases h : ks = ks'
  · subst h
    rw [if_pos rfl, apply2_eval, mem_unionS, construct_eval_agrees]
    by_cases ha : agrees ρ asgn 0 = true
    · simp [ha]
    · simp [ha]
  · rw [if_neg h]
    have : ¬ ks' = ks := fun e => h e.symm
    simp [this]

theorem agrees_go (ρ : Nat → Bool) (f : Nat) : ∀ (n i : Nat),
    agrees ρ ((List.range' i n).map (fun j => some (f.testBit j))) i = true ↔ ∀ j, i ≤ j → j < i + n → ρ j = f.testBit j
  | 0, i => by
    simp only [List.range'_zero, List.map_nil, agrees, true_iff]
    intro j h1 h2; omega
  | n+1, i => by
    simp only [List.range'_succ, List.map_cons, agrees, Bool.and_eq_true, beq_iff_eq]
    rw [agrees_go ρ f n (i + 1)]
    constructor
    · rintro ⟨h0, h⟩ j h1 h2
      by_cases hj : j = i
      · subst hj; exact h0
      · exact h j (by omega) (by omega)
    · intro h
      exact ⟨h i (Nat.le_refl _) (by omega), fun j h1 h2 => h j (by omega) (by omega)⟩

/-- the cube of a numbered symbol contains the valuation of a numbered symbol iff the 16 low bits agree -/
theorem agrees_symAsgn (g f : Nat) : agrees (bits g) (symAsgn f) 0 = true ↔ ∀ j, j < 16 → g.testBit j = f.testBit j := by
  have := agrees_go (bits g) f 16 0
  simp only [Nat.zero_add, Nat.zero_le, true_implies] at this
  rw [symAsgn, List.range_eq_range']
  exact this

theorem agrees_symAsgn_lt {g f : Nat} (hg : g < 2 ^ 16) (hf : f < 2 ^ 16) :
    agrees (bits g) (symAsgn f) 0 = true ↔ g = f := by
  rw [agrees_symAsgn]
  constructor
  · intro h
    apply Nat.eq_of_testBit_eq
    intro i
    by_cases hi : i < 16
    · exact h i hi
    · have hp : 2 ^ 16 ≤ 2 ^ i := Nat.pow_le_pow_right (by decide) (by omega)
      rw [Nat.testBit_lt_two_pow (Nat.lt_of_lt_of_le hg hp), Nat.testBit_lt_two_pow (Nat.lt_of_lt_of_le hf hp)]
  · rintro rfl j _; rfl

/-- `AddTransition(ks, f, p)` adds exactly the rule `f(ks) → p` (symbols are 16-bit numbers) -/
theorem absBU_addTransition (T : Table) (ks : List Nat) (f p : Nat) (hf : f < 2 ^ 16)
    (g : Nat) (hg : g < 2 ^ 16) (ks' : List Nat) (p' : Nat) :
    HasRule (addTransition T ks f p) (bits g) ks' p' ↔
      HasRule T (bits g) ks' p' ∨ (g = f ∧ ks' = ks ∧ p' = p) := by
  unfold addTransition
  rw [absBU_add, agrees_symAsgn_lt hg hf]
  constructor
  · rintro (h | ⟨h1, h2, h3⟩)
    · exact Or.inl h
    · exact Or.inr ⟨h3, h1, h2⟩
  · rintro (h | ⟨h1, h2, h3⟩)
    · exact Or.inl h
    · exact Or.inr ⟨h2, h3, h1⟩

theorem absBU_foldl (g : Nat) (hg : g < 2 ^ 16) (ks : List Nat) (p : Nat) :
    ∀ (rs : List Rule) (T : Table), (∀ r, r ∈ rs → r.sym < 2 ^ 16) →
      (HasRule (rs.foldl (fun T r => addTransition T r.kids r.sym r.parent) T) (bits g) ks p ↔
        HasRule T (bits g) ks p ∨ (⟨g, ks, p⟩ : Rule) ∈ rs)
  | [], T, _ => by simp
  | r :: rs, T, h => by
    rw [List.foldl_cons, absBU_foldl g hg ks p rs _ (fun r' hr' => h r' (List.mem_cons_of_mem _ hr')),
      absBU_addTransition T r.kids r.sym r.parent (h r List.mem_cons_self) g hg, List.mem_cons]
    have : (⟨g, ks, p⟩ : Rule) = r ↔ (g = r.sym ∧ ks = r.kids ∧ p = r.parent) := by
      cases r; simp
    rw [this]
    constructor
    · rintro ((h | h) | h)
      · exact Or.inl h
      · exact Or.inr (Or.inl h)
      · exact Or.inr (Or.inr h)
    · rintro (h | h | h)
      · exact Or.inl (Or.inl h)
      · exact Or.inl (Or.inr h)
      · exact Or.inr h

/-- the abstraction of the encoding of a rule list is the rule list -/
theorem absBU_ofRules (rs : List Rule) (hrs : ∀ r, r ∈ rs → r.sym < 2 ^ 16) (g : Nat) (hg : g < 2 ^ 16)
    (ks : List Nat) (p : Nat) : HasRule (ofRules rs) (bits g) ks p ↔ (⟨g, ks, p⟩ : Rule) ∈ rs := by
  unfold ofRules
  rw [absBU_foldl g hg ks p rs _ hrs]
  simp [hasRule_empty]

/-- … for the executable abstraction: the same rules, as sets -/
theorem absRules_ofRules (rs : List Rule) (syms : List Nat) (hrs : ∀ r, r ∈ rs → r.sym < 2 ^ 16)
    (hs : ∀ f, f ∈ syms → f < 2 ^ 16) (r : Rule) : r ∈ absRules syms (ofRules rs) ↔ r.sym ∈ syms ∧ r ∈ rs := by
  rw [mem_absRules]
  constructor
  · rintro ⟨h1, h2⟩; exact ⟨h1, (absBU_ofRules rs hrs r.sym (hs _ h1) r.kids r.parent).mp h2⟩
  · rintro ⟨h1, h2⟩; exact ⟨h1, (absBU_ofRules rs hrs r.sym (hs _ h1) r.kids r.parent).mpr h2⟩

/-! ### union -/

/-- table-wise `apply2 (· ∪ ·)` gives the union of the rule sets -/
theorem absBU_union (T₁ T₂ : Table) (ρ : Nat → Bool) (ks : List Nat) (p : Nat) :
    HasRule (unionT T₁ T₂) ρ ks p ↔ HasRule T₁ ρ ks p ∨ HasRule T₂ ρ ks p := by
  unfold HasRule unionT Table.get
  by_cases hk : ks = []
  · simp only [hk, if_true]
    rw [apply2_eval, mem_unionS]
  · simp only [hk, if_false]
    rw [getE_mapKeys]
    split
    · rw [apply2_eval, mem_unionS]
    · next hn =>
      simp only [List.mem_append, not_or] at hn
      rw [getE_not_key hn.1, getE_not_key hn.2]
      simp [eval]

/-- `Union` of tables with disjoint non-empty tuples (as after `ReindexStates`) -/
theorem absBU_unionDisj (T₁ T₂ : Table) (hd : ∀ k, k ∈ T₁.entries.map (·.1) → k ∉ T₂.entries.map (·.1))
    (ρ : Nat → Bool) (ks : List Nat) (p : Nat) :
    HasRule (unionDisj T₁ T₂) ρ ks p ↔ HasRule T₁ ρ ks p ∨ HasRule T₂ ρ ks p := by
  unfold HasRule unionDisj Table.get
  by_cases hk : ks = []
  · simp only [hk, if_true]
    rw [apply2_eval, mem_unionS]
  · simp only [hk, if_false]
    rw [getE_append]
    split
    · next h2 =>
      have h1 : ks ∉ T₁.entries.map (·.1) := fun h1 => hd ks h1 h2
      rw [getE_not_key h1]
      simp [eval]
    · next h2 =>
      rw [getE_not_key h2]
      simp [eval]

theorem absRules_union (syms : List Nat) (T₁ T₂ : Table) (r : Rule) :
    r ∈ absRules syms (unionT T₁ T₂) ↔ r ∈ absRules syms T₁ ∨ r ∈ absRules syms T₂ := by
  simp only [mem_absRules, absBU_union]
  constructor
  · rintro ⟨h, h1 | h2⟩
    · exact Or.inl ⟨h, h1⟩
    · exact Or.inr ⟨h, h2⟩
  · rintro (⟨h, h1⟩ | ⟨h, h2⟩)
    · exact ⟨h, Or.inl h1⟩
    · exact ⟨h, Or.inr h2⟩

/-! ### intersection -/

/-- `apply2` with the pairwise product of the leaf sets: the rules of the new tuple are the pairs of rules of the two
tuples (same symbol); the other tuples keep their rules -/
theorem absBU_isect (tr : Nat × Nat → Nat) (T T₁ T₂ : Table) (ks₁ ks₂ ks : List Nat) (ρ : Nat → Bool)
    (ks' : List Nat) (p : Nat) :
    HasRule (isectAt tr T T₁ T₂ ks₁ ks₂ ks) ρ ks' p ↔
      if ks = ks' then ∃ p₁ p₂, HasRule T₁ ρ ks₁ p₁ ∧ HasRule T₂ ρ ks₂ p₂ ∧ tr (p₁, p₂) = p
      else HasRule T ρ ks' p := by
  unfold HasRule isectAt
  rw [get_set]
  split
  · rw [apply2_eval, mem_prodS]
  · exact Iff.rfl

/-- … in terms of the product automaton of `Vata/Isect.lean`: when `T₁`, `T₂` hold the rules of `A`, `B`, the MTBDD set
for the product tuple of `ks₁`, `ks₂` holds the rules of `prodRules A B D m` made of an `A`-rule on `ks₁` and a `B`-rule on
`ks₂` (for parents in `D`; `D` = all pairs in the C++ at this point) -/
theorem absBU_isect_prod (A B : TA) (D : List (Nat × Nat)) (m : Nat × Nat → Nat) (T T₁ T₂ : Table)
    (ks₁ ks₂ : List Nat) (hl : ks₂.length = ks₁.length) (f : Nat)
    (h₁ : ∀ p, HasRule T₁ (bits f) ks₁ p ↔ (⟨f, ks₁, p⟩ : Rule) ∈ A.rules)
    (h₂ : ∀ p, HasRule T₂ (bits f) ks₂ p ↔ (⟨f, ks₂, p⟩ : Rule) ∈ B.rules)
    (hD : ∀ p₁ p₂, (⟨f, ks₁, p₁⟩ : Rule) ∈ A.rules → (⟨f, ks₂, p₂⟩ : Rule) ∈ B.rules → (p₁, p₂) ∈ D) (p : Nat) :
    HasRule (isectAt m T T₁ T₂ ks₁ ks₂ ((ks₁.zip ks₂).map m)) (bits f) ((ks₁.zip ks₂).map m) p ↔
      ∃ r, r ∈ A.rules ∧ ∃ r', r' ∈ B.rules ∧ r.sym = f ∧ r'.sym = f ∧ r.kids = ks₁ ∧ r'.kids = ks₂ ∧
        m (r.parent, r'.parent) = p ∧
        (⟨f, (ks₁.zip ks₂).map m, p⟩ : Rule) ∈ prodRules A B D m := by
  rw [absBU_isect, if_pos rfl]
  constructor
  · rintro ⟨p₁, p₂, hp1, hp2, hp⟩
    have hr1 := (h₁ p₁).mp hp1
    have hr2 := (h₂ p₂).mp hp2
    refine ⟨_, hr1, _, hr2, rfl, rfl, rfl, rfl, hp, ?_⟩
    rw [mem_prodRules]
    exact ⟨_, hr1, _, hr2, rfl, hl, hD p₁ p₂ hr1 hr2, by rw [← hp]⟩
  · rintro ⟨r, hr, r', hr', hs, hs', hk, hk', hp, _⟩
    refine ⟨r.parent, r'.parent, (h₁ _).mpr ?_, (h₂ _).mpr ?_, hp⟩
    · rw [← hs, ← hk]; exact hr
    · rw [← hs', ← hk']; exact hr'

/-! ### examples (non-vacuity) -/
namespace BddAbsEx

/-- `a → 1`, `b → 1`, `g(1,1) → 2` -/
def rsA : List Rule := [⟨0, [], 1⟩, ⟨1, [], 1⟩, ⟨2, [1, 1], 2⟩]
/-- `a → 3`, `b → 4`, `g(3,3) → 9`, `g(4,4) → 9` -/
def rsB : List Rule := [⟨0, [], 3⟩, ⟨1, [], 4⟩, ⟨2, [3, 3], 9⟩, ⟨2, [4, 4], 9⟩]

def showRules (rs : List Rule) : List (Nat × List Nat × Nat) := rs.map (fun r => (r.sym, r.kids, r.parent))

-- the encoding and its abstraction
#guard showRules (absRules [0, 1, 2, 3] (ofRules rsA)) == [(0, [], 1), (1, [], 1), (2, [1, 1], 2)]
#guard showRules (absRules [0, 1, 2, 3] (ofRules rsB)) == [(0, [], 3), (1, [], 4), (2, [4, 4], 9), (2, [3, 3], 9)]
-- the nullary MTBDD of `rsB` branches on the bit 0 of the symbol (`a` = 0, `b` = 1) and on the higher bits
#guard eval ((ofRules rsB).get []) (bits 0) == [3]
#guard eval ((ofRules rsB).get []) (bits 1) == [4]
#guard eval ((ofRules rsB).get []) (bits 2) == []
-- union
#guard showRules (absRules [0, 1, 2] (unionT (ofRules rsA) (ofRules rsB))) ==
  [(0, [], 1), (0, [], 3), (1, [], 1), (1, [], 4), (2, [1, 1], 2), (2, [4, 4], 9), (2, [3, 3], 9)]
#guard showRules (absRules [0, 1, 2] (unionDisj (ofRules rsA) (ofRules rsB))) ==
  [(0, [], 1), (0, [], 3), (1, [], 1), (1, [], 4), (2, [4, 4], 9), (2, [3, 3], 9), (2, [1, 1], 2)]
-- a cube with a don't-care: the symbols 0 and 1 (bit 0 free, the other 15 bits 0)
#guard showRules (absRules [0, 1, 2] (addCube Table.empty [7] (none :: (List.replicate 15 (some false))) 5)) ==
  [(0, [7], 5), (1, [7], 5)]
-- intersection on the leaves and on the tuples `(1,1)`/`(3,3)` with the pairing `10·x + y`
#guard showRules (absRules [0, 1, 2]
    (isectAt (fun p => 10 * p.1 + p.2) (isectAt (fun p => 10 * p.1 + p.2) Table.empty (ofRules rsA) (ofRules rsB) [] [] [])
      (ofRules rsA) (ofRules rsB) [1, 1] [3, 3] [13, 13])) == [(0, [], 13), (1, [], 14), (2, [13, 13], 29)]

example : HasRule (ofRules rsA) (bits 2) [1, 1] 2 :=
  (absBU_ofRules rsA (by decide) 2 (by decide) [1, 1] 2).mpr (by decide)
example : ¬ HasRule (ofRules rsA) (bits 2) [1, 1] 1 :=
  fun h => absurd ((absBU_ofRules rsA (by decide) 2 (by decide) [1, 1] 1).mp h) (by decide)
example : HasRule (unionT (ofRules rsA) (ofRules rsB)) (bits 1) [] 4 :=
  (absBU_union _ _ _ _ _).mpr (Or.inr ((absBU_ofRules rsB (by decide) 1 (by decide) [] 4).mpr (by decide)))
example : HasRule (addTransition (ofRules rsA) [2] 3 7) (bits 3) [2] 7 :=
  (absBU_addTransition _ [2] 3 7 (by decide) 3 (by decide) [2] 7).mpr (Or.inr ⟨rfl, rfl, rfl⟩)
-- the hypothesis of `absBU_unionDisj` on the example (tuples `(1,1)` against `(3,3)`, `(4,4)`)
example : ∀ k, k ∈ (ofRules rsA).entries.map (·.1) → k ∉ (ofRules rsB).entries.map (·.1) := by decide

end BddAbsEx

end BddAbs
end Vata
