import Vata.LtsEngine
/-!
# Container lemmas for the LTS simulation engine model (`Vata/LtsEngine.lean`)

`lset`/`getD`, the counter and remove tables, `blockOf`, `SmartSet` lists (`insAdd`, `insRemove`), `dedupF`,
`rotateAfter`/`trySplit`, `relSplit`.
-/
namespace Vata.LE
open Vata.L

/-! ### `lset` -/

theorem getD_lset {α : Type} (d : α) (l : List α) (k j : Nat) (v : α) :
    (lset d l k v).getD j d = if j = k then v else l.getD j d := by
  unfold lset
  simp only [List.getD_eq_getElem?_getD]
  split
  · rename_i h
    rw [List.getElem?_set]
    by_cases hjk : j = k
    · subst hjk; simp [h]
    · have : ¬ k = j := fun e => hjk e.symm
      simp [this, hjk]
  · rename_i h
    have hk : l.length ≤ k := Nat.le_of_not_lt h
    by_cases hjk : j = k
    · subst hjk
      rw [if_pos rfl, List.getElem?_append]
      have : ¬ j < (l ++ List.replicate (j - l.length) d).length := by
        simp only [List.length_append, List.length_replicate]; omega
      rw [if_neg this]
      have : j - (l ++ List.replicate (j - l.length) d).length = 0 := by
        simp only [List.length_append, List.length_replicate]; omega
      rw [this]; rfl
    · rw [if_neg hjk, List.getElem?_append]
      split
      · rename_i h2
        rw [List.getElem?_append]
        split
        · rfl
        · rename_i h3
          rw [List.getElem?_replicate, List.getElem?_eq_none (Nat.le_of_not_lt h3)]
          split <;> rfl
      · rename_i h2
        simp only [List.length_append, List.length_replicate] at h2
        have h4 : l.length ≤ j := by omega
        rw [List.getElem?_eq_none h4]
        have : 0 < j - (l ++ List.replicate (k - l.length) d).length := by
          simp only [List.length_append, List.length_replicate]; omega
        rw [List.getElem?_eq_none (by simp only [List.length_cons, List.length_nil]; omega)]

/-! ### the tables -/

def cget (cnt : List (List (List Nat))) (i a q : Nat) : Nat := ((cnt.getD i []).getD a []).getD q 0
def rget (rem : List (List (Option RemList))) (i a : Nat) : Option RemList := (rem.getD i []).getD a none

theorem cntv_eq (e : Eng) (i a q : Nat) : e.cntv i a q = cget e.cnt i a q := rfl
theorem remv_eq (e : Eng) (i a : Nat) : e.remv i a = rget e.rem i a := rfl

theorem cget_setCnt (cnt : List (List (List Nat))) (i a q v i' a' q' : Nat) :
    cget (setCnt cnt i a q v) i' a' q' = if i' = i ∧ a' = a ∧ q' = q then v else cget cnt i' a' q' := by
  unfold cget setCnt
  rw [getD_lset]
  by_cases hi : i' = i
  · subst hi
    rw [if_pos rfl, getD_lset]
    by_cases ha : a' = a
    · subst ha
      rw [if_pos rfl, getD_lset]
      by_cases hq : q' = q
      · simp [hq]
      · simp [hq]
    · simp [ha]
  · simp [hi]

theorem cget_setCntRow (cnt : List (List (List Nat))) (i a : Nat) (row : List Nat) (i' a' q' : Nat) :
    cget (setCntRow cnt i a row) i' a' q' = if i' = i ∧ a' = a then row.getD q' 0 else cget cnt i' a' q' := by
  unfold cget setCntRow
  rw [getD_lset]
  by_cases hi : i' = i
  · subst hi
    rw [if_pos rfl, getD_lset]
    by_cases ha : a' = a
    · simp [ha]
    · simp [ha]
  · simp [hi]

theorem rget_setRem (rem : List (List (Option RemList))) (i a : Nat) (v : Option RemList) (i' a' : Nat) :
    rget (setRem rem i a v) i' a' = if i' = i ∧ a' = a then v else rget rem i' a' := by
  unfold rget setRem
  rw [getD_lset]
  by_cases hi : i' = i
  · subst hi
    rw [if_pos rfl, getD_lset]
    by_cases ha : a' = a
    · simp [ha]
    · simp [ha]
  · simp [hi]

/-! ### `getD` on `set` / `++` -/

theorem getD_set_append {α : Type} (d : α) (l : List α) (b : Nat) (v w : α) (hb : b < l.length) (i : Nat) :
    (l.set b v ++ [w]).getD i d = if i = b then v else if i = l.length then w else l.getD i d := by
  simp only [List.getD_eq_getElem?_getD, List.getElem?_append, List.length_set, List.getElem?_set]
  by_cases hib : i = b
  · subst hib; simp [hb]
  · have : ¬ b = i := fun e => hib e.symm
    rw [if_neg hib]
    by_cases hil : i = l.length
    · subst hil; simp
    · rw [if_neg hil]
      split
      · simp
      · rename_i h
        have h1 : l.length ≤ i := Nat.le_of_not_lt h
        rw [List.getElem?_eq_none h1]
        have : 0 < i - l.length := by omega
        rw [List.getElem?_eq_none (by simp only [List.length_cons, List.length_nil]; omega)]

theorem getD_ge {α : Type} (d : α) (l : List α) (i : Nat) (h : l.length ≤ i) : l.getD i d = d := by
  rw [List.getD_eq_getElem?_getD, List.getElem?_eq_none h]; rfl

theorem getD_mem {α : Type} (d : α) (l : List α) (i : Nat) (h : i < l.length) : l.getD i d ∈ l := by
  rw [List.getD_eq_getElem?_getD, List.getElem?_eq_getElem h]
  exact List.getElem_mem h

theorem mem_iff_getD {α : Type} (d : α) (l : List α) (x : α) : x ∈ l ↔ ∃ i, i < l.length ∧ l.getD i d = x := by
  constructor
  · intro h
    obtain ⟨i, hi, he⟩ := List.getElem_of_mem h
    exact ⟨i, hi, by rw [List.getD_eq_getElem?_getD, List.getElem?_eq_getElem hi, ← he]; rfl⟩
  · rintro ⟨i, hi, he⟩
    rw [← he]; exact getD_mem d l i hi

/-! ### `blockOf` -/

theorem blockOf_eq (part : List (List Nat)) (q i : Nat)
    (hdisj : ∀ i j q, q ∈ part.getD i [] → q ∈ part.getD j [] → i = j)
    (h : q ∈ part.getD i []) : blockOf part q = i := by
  have hi : i < part.length := by
    refine Classical.byContradiction fun hn => ?_
    rw [getD_ge _ _ _ (Nat.le_of_not_lt hn)] at h
    cases h
  unfold blockOf
  rw [List.findIdx_eq hi]
  have hget : ∀ j (hj : j < part.length), part[j] = part.getD j [] := by
    intro j hj
    rw [List.getD_eq_getElem?_getD, List.getElem?_eq_getElem hj]; rfl
  constructor
  · rw [hget i hi]; simpa using h
  · intro j hji
    have hj : j < part.length := Nat.lt_trans hji hi
    rw [hget j hj]
    cases hc : (part.getD j []).contains q
    · rfl
    · have := hdisj j i q (by simpa using hc) h
      omega

theorem blockOf_lt (part : List (List Nat)) (q : Nat) (h : ∃ i, q ∈ part.getD i []) :
    blockOf part q < part.length ∧ q ∈ part.getD (blockOf part q) [] := by
  obtain ⟨i, hi⟩ := h
  have hil : i < part.length := by
    refine Classical.byContradiction fun hn => ?_
    rw [getD_ge _ _ _ (Nat.le_of_not_lt hn)] at hi
    cases hi
  have hex : ∃ x, x ∈ part ∧ (fun b : List Nat => b.contains q) x = true :=
    ⟨part.getD i [], getD_mem _ _ _ hil, by simpa using hi⟩
  have hlt := List.findIdx_lt_length_of_exists hex
  refine ⟨hlt, ?_⟩
  have := @List.findIdx_getElem _ (fun b : List Nat => b.contains q) part hlt
  unfold blockOf
  rw [List.getD_eq_getElem?_getD, List.getElem?_eq_getElem hlt]
  simpa using this

/-! ### nodup lists as sets -/

theorem nodup_filter {α : Type} (p : α → Bool) {l : List α} (h : l.Nodup) : (l.filter p).Nodup :=
  List.Nodup.sublist List.filter_sublist h

theorem length_eq_of_nodup_ext {α : Type} [DecidableEq α] {l₁ l₂ : List α} (h₁ : l₁.Nodup) (h₂ : l₂.Nodup)
    (h : ∀ x, x ∈ l₁ ↔ x ∈ l₂) : l₁.length = l₂.length :=
  ((List.perm_ext_iff_of_nodup h₁ h₂).mpr h).length_eq

/-- counting in a set that is the disjoint union of two others -/
theorem countP_split {α : Type} [DecidableEq α] (p : α → Bool) {A B C : List α} (hA : A.Nodup) (hB : B.Nodup)
    (hC : C.Nodup) (hdisj : ∀ x, x ∈ B → x ∈ C → False) (h : ∀ x, x ∈ A ↔ x ∈ B ∨ x ∈ C) :
    A.countP p = B.countP p + C.countP p := by
  have hBC : (B ++ C).Nodup := List.nodup_append.mpr ⟨hB, hC, fun a ha b hb e => hdisj a ha (e ▸ hb)⟩
  have hperm : A.Perm (B ++ C) := (List.perm_ext_iff_of_nodup hA hBC).mpr (fun x => by rw [h x, List.mem_append])
  rw [hperm.countP_eq, List.countP_append]

/-- a duplicate-free sublist-as-set of the same length is everything -/
theorem subset_of_length_eq {l t : List Nat} (hl : l.Nodup) (ht : t.Nodup) (hsub : ∀ x, x ∈ t → x ∈ l)
    (hlen : t.length = l.length) : ∀ x, x ∈ l → x ∈ t := by
  have h1 : (l.filter (fun x => t.contains x)).length = t.length :=
    length_eq_of_nodup_ext (nodup_filter _ hl) ht (fun x => by
      simp only [List.mem_filter, List.contains_iff_mem]
      exact ⟨fun h => h.2, fun h => ⟨hsub x h, h⟩⟩)
  have h2 := List.length_filter_eq_length_iff.mp (h1.trans hlen)
  intro x hx
  simpa using h2 x hx

theorem exists_not_mem_of_length_lt {l t : List Nat} (hl : l.Nodup) (ht : t.Nodup) (hsub : ∀ x, x ∈ t → x ∈ l)
    (hlen : t.length ≠ l.length) : ∃ x, x ∈ l ∧ x ∉ t := by
  refine Classical.byContradiction fun hn => ?_
  have hall : ∀ x, x ∈ l → x ∈ t := fun x hx => Classical.byContradiction fun hc => hn ⟨x, hx, hc⟩
  exact hlen (length_eq_of_nodup_ext ht hl (fun x => ⟨hsub x, hall x⟩))

/-! ### `rotateAfter`, `trySplit` -/

theorem split_at_idxOf {l : List Nat} {x : Nat} (hx : x ∈ l) :
    l = l.take (l.idxOf x) ++ x :: l.drop (l.idxOf x + 1) := by
  have hi : l.idxOf x < l.length := List.idxOf_lt_length_iff.mpr hx
  have h1 := (List.take_append_drop (l.idxOf x) l).symm
  rw [List.drop_eq_getElem_cons hi, List.getElem_idxOf hi] at h1
  exact h1

theorem mem_rotateAfter {l : List Nat} {x : Nat} (hl : l.Nodup) (hx : x ∈ l) (q : Nat) :
    q ∈ rotateAfter x l ↔ q ∈ l ∧ q ≠ x := by
  have hsp := split_at_idxOf hx
  have hnd := hl
  rw [hsp] at hnd
  have hnd' := List.nodup_append.mp hnd
  have hx2 := (List.nodup_cons.mp hnd'.2.1).1
  unfold rotateAfter
  rw [List.mem_append]
  constructor
  · rintro (h | h)
    · exact ⟨List.mem_of_mem_drop h, fun e => hx2 (e ▸ h)⟩
    · exact ⟨List.mem_of_mem_take h, fun e => hnd'.2.2 q h x (List.mem_cons_self) e⟩
  · rintro ⟨h, hne⟩
    rw [hsp, List.mem_append, List.mem_cons] at h
    rcases h with h | h | h
    · exact Or.inr h
    · exact absurd h hne
    · exact Or.inl h

theorem nodup_rotateAfter {l : List Nat} {x : Nat} (hl : l.Nodup) (hx : x ∈ l) : (rotateAfter x l).Nodup := by
  have hsp := split_at_idxOf hx
  have hnd := hl
  rw [hsp] at hnd
  have hnd' := List.nodup_append.mp hnd
  have hd := (List.nodup_cons.mp hnd'.2.1).2
  unfold rotateAfter
  refine List.nodup_append.mpr ⟨hd, hnd'.1, ?_⟩
  intro a ha b hb e
  exact hnd'.2.2 b hb a (List.mem_cons_of_mem _ ha) e.symm

theorem mem_of_getLast? {l : List Nat} {x : Nat} (h : l.getLast? = some x) : x ∈ l := by
  obtain ⟨ys, hys⟩ := List.getLast?_eq_some_iff.mp h
  rw [hys]; simp

theorem dropLast_of_getLast? {l : List Nat} {x : Nat} (h : l.getLast? = some x) : l = l.dropLast ++ [x] := by
  obtain ⟨ys, hys⟩ := List.getLast?_eq_some_iff.mp h
  rw [hys, List.dropLast_concat]

/-- what `trySplit` returns when it splits -/
theorem trySplit_some {blk tmp rest new : List Nat} (hb : blk.Nodup) (ht : tmp.Nodup)
    (hsub : ∀ x, x ∈ tmp → x ∈ blk) (h : trySplit blk tmp = some (rest, new)) :
    (∀ q, q ∈ new ↔ q ∈ tmp) ∧ (∀ q, q ∈ rest ↔ q ∈ blk ∧ q ∉ tmp) ∧ rest.Nodup ∧ new.Nodup ∧
      rest ≠ [] ∧ new ≠ [] := by
  unfold trySplit at h
  split at h
  · cases h
  · rename_i hlen
    split at h
    · cases h
    · rename_i last hlast
      have hdl := dropLast_of_getLast? hlast
      have hlastmem : last ∈ tmp := mem_of_getLast? hlast
      have hpiv : (tmp.dropLast.getLast?).getD last ∈ tmp := by
        cases hp : tmp.dropLast.getLast? with
        | none => exact hlastmem
        | some p =>
          have : p ∈ tmp.dropLast := mem_of_getLast? hp
          rw [hdl]; exact List.mem_append_left _ this
      simp only [Option.some.injEq, Prod.mk.injEq] at h
      obtain ⟨h1, h2⟩ := h
      have hnew : ∀ q, q ∈ new ↔ q ∈ tmp := by
        intro q
        rw [← h2, List.mem_cons]
        constructor
        · rintro (e | e)
          · exact e ▸ hlastmem
          · rw [hdl]; exact List.mem_append_left _ e
        · intro hq
          rw [hdl, List.mem_append] at hq
          rcases hq with hq | hq
          · exact Or.inr hq
          · exact Or.inl (by simpa using hq)
      have hrest : ∀ q, q ∈ rest ↔ q ∈ blk ∧ q ∉ tmp := by
        intro q
        rw [← h1, List.mem_filter, mem_rotateAfter hb (hsub _ hpiv)]
        simp only [Bool.not_eq_true', List.contains_eq_mem, decide_eq_false_iff_not]
        constructor
        · rintro ⟨⟨a, _⟩, b⟩; exact ⟨a, b⟩
        · rintro ⟨a, b⟩; exact ⟨⟨a, fun e => b (e ▸ hpiv)⟩, b⟩
      have hlen' : tmp.length ≠ blk.length := by simpa using hlen
      refine ⟨hnew, hrest, ?_, ?_, ?_, ?_⟩
      · rw [← h1]; exact nodup_filter _ (nodup_rotateAfter hb (hsub _ hpiv))
      · rw [← h2]
        have hnd := ht
        rw [hdl] at hnd
        have := List.nodup_append.mp hnd
        exact List.nodup_cons.mpr ⟨fun hm => this.2.2 last hm last (by simp) rfl, this.1⟩
      · obtain ⟨x, hx, hxt⟩ := exists_not_mem_of_length_lt hb ht hsub hlen'
        intro e
        have := (hrest x).mpr ⟨hx, hxt⟩
        rw [e] at this; cases this
      · rw [← h2]; exact List.cons_ne_nil _ _

/-- … and when it does not -/
theorem trySplit_none {blk tmp : List Nat} (hb : blk.Nodup) (ht : tmp.Nodup)
    (hsub : ∀ x, x ∈ tmp → x ∈ blk) (hne : tmp ≠ []) (h : trySplit blk tmp = none) : ∀ x, x ∈ blk → x ∈ tmp := by
  unfold trySplit at h
  split at h
  · rename_i hlen
    exact subset_of_length_eq hb ht hsub (by simpa using hlen)
  · split at h
    · rename_i hl
      exact absurd (List.getLast?_eq_none_iff.mp hl) hne
    · cases h

/-! ### `SmartSet` lists -/

/-- the count stored for a key (0 = absent) -/
def insCount : List (Nat × Nat) → Nat → Nat
  | [], _ => 0
  | (b, c) :: s, a => if b == a then c else insCount s a

/-- keys pairwise different, stored counts positive -/
def InsOK (s : List (Nat × Nat)) : Prop := (insKeys s).Nodup ∧ ∀ p, p ∈ s → 0 < p.2

theorem insOK_nil : InsOK [] := ⟨List.nodup_nil, fun _ h => by cases h⟩

theorem insOK_tail {b c : Nat} {s : List (Nat × Nat)} (h : InsOK ((b, c) :: s)) : InsOK s :=
  ⟨(List.nodup_cons.mp h.1).2, fun p hp => h.2 p (List.mem_cons_of_mem _ hp)⟩

theorem mem_insKeys_insAdd (s : List (Nat × Nat)) (a x : Nat) :
    x ∈ insKeys (insAdd s a) ↔ x ∈ insKeys s ∨ x = a := by
  induction s with
  | nil => simp [insAdd, insKeys]
  | cons p s ih =>
    obtain ⟨b, c⟩ := p
    simp only [insAdd]
    split
    · rename_i hba
      have : b = a := by simpa using hba
      subst this
      simp only [insKeys, List.map_cons, List.mem_cons]
      constructor
      · intro h; exact Or.inl h
      · rintro (h | h)
        · exact h
        · exact Or.inl h
    · simp only [insKeys, List.map_cons, List.mem_cons] at ih ⊢
      rw [ih]
      constructor
      · rintro (h | h | h)
        · exact Or.inl (Or.inl h)
        · exact Or.inl (Or.inr h)
        · exact Or.inr h
      · rintro ((h | h) | h)
        · exact Or.inl h
        · exact Or.inr (Or.inl h)
        · exact Or.inr (Or.inr h)

theorem insOK_insAdd {s : List (Nat × Nat)} (h : InsOK s) (a : Nat) : InsOK (insAdd s a) := by
  induction s with
  | nil =>
    refine ⟨by simp [insAdd, insKeys], ?_⟩
    intro p hp
    simp only [insAdd, List.mem_cons, List.not_mem_nil, or_false] at hp
    rw [hp]; exact Nat.one_pos
  | cons p s ih =>
    obtain ⟨b, c⟩ := p
    simp only [insAdd]
    split
    · refine ⟨h.1, ?_⟩
      intro p hp
      rcases List.mem_cons.mp hp with e | e
      · rw [e]; exact Nat.succ_pos _
      · exact h.2 p (List.mem_cons_of_mem _ e)
    · rename_i hba
      have hne : ¬ b = a := by simpa using hba
      have ih' := ih (insOK_tail h)
      refine ⟨?_, ?_⟩
      · show (b :: insKeys (insAdd s a)).Nodup
        refine List.nodup_cons.mpr ⟨?_, ih'.1⟩
        rw [mem_insKeys_insAdd]
        rintro (hm | hm)
        · exact (List.nodup_cons.mp h.1).1 hm
        · exact hne hm
      · intro p hp
        rcases List.mem_cons.mp hp with e | e
        · rw [e]; exact h.2 (b, c) List.mem_cons_self
        · exact ih'.2 p e

theorem insCount_insAdd (s : List (Nat × Nat)) (a x : Nat) :
    insCount (insAdd s a) x = insCount s x + (if x = a then 1 else 0) := by
  induction s with
  | nil =>
    simp only [insAdd, insCount]
    by_cases h : x = a
    · subst h; simp
    · have : ¬ a = x := fun e => h e.symm
      simp [h, this]
  | cons p s ih =>
    obtain ⟨b, c⟩ := p
    simp only [insAdd]
    split
    · rename_i hba
      have : b = a := by simpa using hba
      subst this
      simp only [insCount]
      by_cases h : x = b
      · subst h; simp
      · have : ¬ b = x := fun e => h e.symm
        simp [h, this]
    · rename_i hba
      have hne : ¬ b = a := by simpa using hba
      simp only [insCount]
      by_cases h : b = x
      · subst h
        simp [hne]
      · simp [h, ih]

theorem insCount_pos_iff {s : List (Nat × Nat)} (h : InsOK s) (a : Nat) : 0 < insCount s a ↔ a ∈ insKeys s := by
  induction s with
  | nil => simp [insCount, insKeys]
  | cons p s ih =>
    obtain ⟨b, c⟩ := p
    simp only [insCount, insKeys, List.map_cons, List.mem_cons]
    by_cases hba : b = a
    · subst hba
      simp only [beq_self_eq_true, if_true, true_or, iff_true]
      exact h.2 (b, c) List.mem_cons_self
    · have : ¬ a = b := fun e => hba e.symm
      simp only [beq_iff_eq, hba, if_false, this, false_or]
      exact ih (insOK_tail h)

theorem insCount_eq_zero {s : List (Nat × Nat)} (a : Nat) (h : a ∉ insKeys s) : insCount s a = 0 := by
  induction s with
  | nil => rfl
  | cons p s ih =>
    obtain ⟨b, c⟩ := p
    simp only [insKeys, List.map_cons, List.mem_cons, not_or] at h
    simp only [insCount]
    have : ¬ b = a := fun e => h.1 e.symm
    simp only [beq_iff_eq, this, if_false]
    exact ih h.2

theorem mem_insKeys_insRemove (s : List (Nat × Nat)) (a x : Nat) :
    x ∈ insKeys (insRemove s a) → x ∈ insKeys s := by
  induction s with
  | nil => simp [insRemove]
  | cons p s ih =>
    obtain ⟨b, c⟩ := p
    simp only [insRemove]
    split
    · split
      · intro h; exact List.mem_cons_of_mem _ h
      · intro h; exact h
    · simp only [insKeys, List.map_cons, List.mem_cons] at ih ⊢
      rintro (h | h)
      · exact Or.inl h
      · exact Or.inr (ih h)

theorem insOK_insRemove {s : List (Nat × Nat)} (h : InsOK s) (a : Nat) : InsOK (insRemove s a) := by
  induction s with
  | nil => exact insOK_nil
  | cons p s ih =>
    obtain ⟨b, c⟩ := p
    simp only [insRemove]
    split
    · split
      · exact insOK_tail h
      · rename_i hc
        refine ⟨h.1, ?_⟩
        intro p hp
        rcases List.mem_cons.mp hp with e | e
        · rw [e]; show 0 < c - 1; omega
        · exact h.2 p (List.mem_cons_of_mem _ e)
    · have ih' := ih (insOK_tail h)
      refine ⟨?_, ?_⟩
      · show (b :: insKeys (insRemove s a)).Nodup
        exact List.nodup_cons.mpr ⟨fun hm => (List.nodup_cons.mp h.1).1 (mem_insKeys_insRemove s a b hm), ih'.1⟩
      · intro p hp
        rcases List.mem_cons.mp hp with e | e
        · rw [e]; exact h.2 (b, c) List.mem_cons_self
        · exact ih'.2 p e

theorem insCount_insRemove {s : List (Nat × Nat)} (h : InsOK s) (a x : Nat) :
    insCount (insRemove s a) x = insCount s x - (if x = a then 1 else 0) := by
  induction s with
  | nil => simp [insRemove, insCount]
  | cons p s ih =>
    obtain ⟨b, c⟩ := p
    simp only [insRemove]
    split
    · rename_i hba
      have hba' : b = a := by simpa using hba
      subst hba'
      have hnotin : b ∉ insKeys s := (List.nodup_cons.mp h.1).1
      split
      · rename_i hc
        have hc1 : c = 1 := by have := h.2 (b, c) List.mem_cons_self; simp only at this; omega
        simp only [insCount]
        by_cases hx : x = b
        · subst hx; simp [hc1, insCount_eq_zero _ hnotin]
        · have : ¬ b = x := fun e => hx e.symm
          simp [hx, this]
      · simp only [insCount]
        by_cases hx : x = b
        · subst hx; simp
        · have : ¬ b = x := fun e => hx e.symm
          simp [hx, this]
    · rename_i hba
      have hne : ¬ b = a := by simpa using hba
      simp only [insCount]
      by_cases hx : b = x
      · subst hx; simp [hne]
      · simp only [beq_iff_eq, hx, if_false]
        exact ih (insOK_tail h)

/-! ### labels -/

theorem foldl_max_ge (es : List (Nat × Nat × Nat)) (m : Nat) :
    m ≤ es.foldl (fun m e => max m (e.2.1 + 1)) m ∧
    ∀ e, e ∈ es → e.2.1 < es.foldl (fun m e => max m (e.2.1 + 1)) m := by
  induction es generalizing m with
  | nil => exact ⟨Nat.le_refl _, fun _ h => by cases h⟩
  | cons x es ih =>
    simp only [List.foldl_cons]
    have := ih (max m (x.2.1 + 1))
    refine ⟨by omega, ?_⟩
    intro e he
    rcases List.mem_cons.mp he with e1 | e1
    · rw [e1]; omega
    · exact this.2 e e1

theorem label_lt (L : LTS) {e : Nat × Nat × Nat} (h : e ∈ L.edges) : e.2.1 < labels L :=
  (foldl_max_ge L.edges 0).2 e h

theorem hasIn_iff (L : LTS) (a r : Nat) : hasIn L a r = true ↔ ∃ p, (p, a, r) ∈ L.edges := by
  simp only [hasIn, List.any_eq_true, Bool.and_eq_true, beq_iff_eq]
  constructor
  · rintro ⟨⟨p, a', r'⟩, he, h1, h2⟩
    simp only at h1 h2
    exact ⟨p, by rw [← h1, ← h2]; exact he⟩
  · rintro ⟨p, hp⟩
    exact ⟨(p, a, r), hp, rfl, rfl⟩

theorem hasOut_iff (L : LTS) (a q : Nat) : hasOut L a q = true ↔ ∃ r, (q, a, r) ∈ L.edges := by
  simp only [hasOut, List.any_eq_true, Bool.and_eq_true, beq_iff_eq]
  constructor
  · rintro ⟨⟨p, a', r'⟩, he, h1, h2⟩
    simp only at h1 h2
    exact ⟨r', by rw [← h1, ← h2]; exact he⟩
  · rintro ⟨r, hr⟩
    exact ⟨(q, a, r), hr, rfl, rfl⟩

theorem mem_bwLabels (L : LTS) (a r : Nat) : a ∈ bwLabels L r ↔ hasIn L a r = true := by
  simp only [bwLabels, List.mem_filter, List.mem_range]
  constructor
  · exact fun h => h.2
  · intro h
    obtain ⟨p, hp⟩ := (hasIn_iff L a r).mp h
    exact ⟨label_lt L hp, h⟩

theorem nodup_bwLabels (L : LTS) (r : Nat) : (bwLabels L r).Nodup := nodup_filter _ List.nodup_range

theorem mem_pre (L : LTS) (a r p : Nat) : p ∈ pre L a r ↔ (p, a, r) ∈ L.edges := by
  simp only [pre, List.mem_map, List.mem_filter, Bool.and_eq_true, beq_iff_eq]
  constructor
  · rintro ⟨⟨p', a', r'⟩, ⟨he, h1, h2⟩, h3⟩
    simp only at h1 h2 h3
    rw [← h1, ← h2, ← h3]; exact he
  · intro h
    exact ⟨(p, a, r), ⟨h, rfl, rfl⟩, rfl⟩

theorem mem_post (L : LTS) (a q r : Nat) : r ∈ post L a q ↔ (q, a, r) ∈ L.edges := by
  simp only [post, List.mem_map, List.mem_filter, Bool.and_eq_true, beq_iff_eq]
  constructor
  · rintro ⟨⟨p', a', r'⟩, ⟨he, h1, h2⟩, h3⟩
    simp only at h1 h2 h3
    rw [← h1, ← h2, ← h3]; exact he
  · intro h
    exact ⟨(q, a, r), ⟨h, rfl, rfl⟩, rfl⟩

theorem mem_delta1 (L : LTS) (a q : Nat) : q ∈ delta1 L a ↔ q < L.n ∧ hasOut L a q = true := by
  simp only [delta1, List.mem_filter, List.mem_range]

/-! ### `dedupF` -/

theorem mem_dedupF (seen l : List Nat) (x : Nat) : x ∈ dedupF seen l ↔ x ∈ l ∧ x ∉ seen := by
  induction l generalizing seen with
  | nil => simp [dedupF]
  | cons y l ih =>
    simp only [dedupF]
    split
    · rename_i hs
      have hs' : y ∈ seen := by simpa using hs
      rw [ih, List.mem_cons]
      constructor
      · rintro ⟨h1, h2⟩; exact ⟨Or.inr h1, h2⟩
      · rintro ⟨h1 | h1, h2⟩
        · exact absurd (h1 ▸ hs') h2
        · exact ⟨h1, h2⟩
    · rename_i hs
      have hs' : y ∉ seen := by simpa using hs
      rw [List.mem_cons, ih, List.mem_cons, List.mem_cons]
      constructor
      · rintro (h | ⟨h1, h2⟩)
        · exact ⟨Or.inl h, h ▸ hs'⟩
        · exact ⟨Or.inr h1, fun hc => h2 (Or.inr hc)⟩
      · rintro ⟨h1 | h1, h2⟩
        · exact Or.inl h1
        · by_cases hxy : x = y
          · exact Or.inl hxy
          · exact Or.inr ⟨h1, fun hc => hc.elim hxy h2⟩

theorem nodup_dedupF (seen l : List Nat) : (dedupF seen l).Nodup := by
  induction l generalizing seen with
  | nil => exact List.nodup_nil
  | cons y l ih =>
    simp only [dedupF]
    split
    · exact ih seen
    · refine List.nodup_cons.mpr ⟨?_, ih _⟩
      rw [mem_dedupF]
      rintro ⟨_, h2⟩
      exact h2 List.mem_cons_self

/-! ### `relSplit` -/

theorem relSplit_length (rel : List (List Nat)) (i : Nat) : (relSplit rel i).length = rel.length + 1 := by
  simp [relSplit]

theorem relSplit_getD (rel : List (List Nat)) (i k : Nat) :
    (relSplit rel i).getD k [] =
      if k < rel.length then (if (rel.getD k []).contains i then rel.getD k [] ++ [rel.length] else rel.getD k [])
      else if k = rel.length then rel.getD i [] ++ [rel.length] else [] := by
  unfold relSplit
  simp only [List.getD_eq_getElem?_getD, List.getElem?_append, List.length_map]
  split
  · rename_i h
    rw [List.getElem?_map, List.getElem?_eq_getElem h]
    simp only [Option.map_some, Option.getD_some]
  · rename_i h
    by_cases hk : k = rel.length
    · subst hk; simp
    · rw [if_neg hk]
      have : 0 < k - rel.length := by omega
      rw [List.getElem?_eq_none (by simp only [List.length_cons, List.length_nil]; omega)]
      rfl

end Vata.LE
