import Vata.Proofs.LtsUtilSC4

/-!
# `SharedCounter` as coded refines a table of numbers (part 5: the theorems)

Model: section `namespace SC` of `Vata/LtsUtil.lean`; invariant `Vata.LU.SC.Inv` (in `LtsUtilSC.lean`).
-/
namespace Vata.LU.SC
open P

/-- the empty world satisfies the invariant -/
theorem inv_empty (cfg : Cfg) : Inv cfg World.empty [] := by
  refine ⟨rfl, fun i => by simp [World.empty], ?_, List.nodup_nil, ?_⟩
  · intro i c a hc; simp [World.empty] at hc
  · intro p hp; simp [World.empty, Mem.empty] at hp

/-- One call inside the discipline: the class is defined there, keeps the invariant, follows the table of numbers,
and returns what the table says. -/
theorem step_refines_out {cfg : Cfg} {w : World} {aw : AWorld} {op : Op} (hinv : Inv cfg w aw)
    (hok : ok cfg aw op = true) :
    ∃ w' out, step cfg w op = some (w', out) ∧ Inv cfg w' (aStep cfg aw op) ∧ out = aOut cfg aw op := by
  obtain ⟨m, cs⟩ := w
  cases op with
  | new => exact ⟨_, _, rfl, append_cnt hinv, rfl⟩
  | copyCtor i =>
    simp only [ok] at hok
    cases ha : aw.getD i none with
    | none => rw [ha] at hok; cases hok
    | some a =>
      obtain ⟨c, hc⟩ := hinv.live_some ha
      refine ⟨_, [], ?_, append_cnt hinv, rfl⟩
      simp only [step, World.cnt, hc]
  | resize i n =>
    simp only [ok] at hok
    cases ha : aw.getD i none with
    | none => rw [ha] at hok; cases hok
    | some a =>
      rw [ha] at hok
      obtain ⟨c, hc⟩ := hinv.live_some ha
      have hc' : cs.getD i none = some c := hc
      have hph : a.phase = .fresh := by simpa using hok
      refine ⟨_, [], ?_, resize_inv (n := n) hinv hc' ha hph, rfl⟩
      simp only [step, World.cnt, hc]
  | set i l q n =>
    simp only [ok] at hok
    cases ha : aw.getD i none with
    | none => rw [ha] at hok; cases hok
    | some a =>
      cases hk : keyIdx cfg l q with
      | none => rw [ha, hk] at hok; cases hok
      | some idx =>
        rw [ha, hk] at hok
        simp only [Bool.and_eq_true, beq_iff_eq, decide_eq_true_eq] at hok
        obtain ⟨⟨⟨h1, h2⟩, h3⟩, h4⟩ := hok
        obtain ⟨c, hc⟩ := hinv.live_some ha
        have hc' : cs.getD i none = some c := hc
        obtain ⟨mc, e1, e2⟩ := set_inv hinv hc' ha hk h1 h2 h3 h4
        refine ⟨⟨mc.1, cs.set i (some mc.2)⟩, [], ?_, ?_, rfl⟩
        · simp only [step, World.cnt, hc, e1, Option.map_some]
        · simp only [aStep, ha, hk]; exact e2
  | init i =>
    simp only [ok] at hok
    cases ha : aw.getD i none with
    | none => rw [ha] at hok; cases hok
    | some a =>
      rw [ha] at hok
      obtain ⟨c, hc⟩ := hinv.live_some ha
      have hc' : cs.getD i none = some c := hc
      have hph : a.phase = .filling := by simpa using hok
      refine ⟨⟨(initRows cfg m c).1, cs.set i (some (initRows cfg m c).2)⟩, [], ?_, ?_, rfl⟩
      · simp only [step, World.cnt, hc]
      · simp only [aStep, ha]; exact init_inv hinv hc' ha hph
  | decr i l q =>
    simp only [ok] at hok
    cases ha : aw.getD i none with
    | none => rw [ha] at hok; cases hok
    | some a =>
      cases hk : keyIdx cfg l q with
      | none => rw [ha, hk] at hok; cases hok
      | some idx =>
        rw [ha, hk] at hok
        simp only [Bool.and_eq_true, beq_iff_eq, decide_eq_true_eq] at hok
        obtain ⟨⟨h1, h2⟩, h3⟩ := hok
        obtain ⟨c, hc⟩ := hinv.live_some ha
        have hc' : cs.getD i none = some c := hc
        obtain ⟨r, e1, e2, e3, _⟩ := decr_inv hinv hc' ha hk h1 h2 h3
        refine ⟨⟨r.1, cs.set i (some r.2.1)⟩, [r.2.2], ?_, ?_, ?_⟩
        · simp only [step, World.cnt, hc, e1, Option.map_some]
        · simp only [aStep, ha, hk]; exact e2
        · simp only [aOut, ha, hk, e3]
  | copyLabels i j labels =>
    simp only [ok] at hok
    cases had : aw.getD i none with
    | none => rw [had] at hok; simp at hok
    | some ad =>
      cases has : aw.getD j none with
      | none => rw [had, has] at hok; simp at hok
      | some s =>
        rw [had, has] at hok
        simp only [Bool.and_eq_true, beq_iff_eq, bne_iff_ne, ne_eq] at hok
        obtain ⟨⟨h1, h2⟩, h3, h4⟩ := hok
        obtain ⟨d, hd⟩ := hinv.live_some had
        obtain ⟨src, hsrc⟩ := hinv.live_some has
        have hd' : cs.getD i none = some d := hd
        have hsrc' : cs.getD j none = some src := hsrc
        obtain ⟨mc, e1, e2⟩ := copyLabels_inv hinv h1 h2 hd' had h3 hsrc' has h4
        refine ⟨⟨mc.1, cs.set i (some mc.2)⟩, [], ?_, ?_, rfl⟩
        · simp only [step, World.cnt, hd, hsrc, if_neg h1, e1, Option.map_some]
        · simp only [aStep, has]; exact e2
  | destroy i =>
    simp only [ok] at hok
    cases ha : aw.getD i none with
    | none => rw [ha] at hok; cases hok
    | some a =>
      rw [ha] at hok
      obtain ⟨c, hc⟩ := hinv.live_some ha
      have hc' : cs.getD i none = some c := hc
      have hph : a.phase ≠ .filling := by simpa using hok
      refine ⟨_, [], ?_, destroy_inv hinv hc' ha hph, rfl⟩
      simp only [step, World.cnt, hc]


/-- Goal 3, as stated in the task. -/
theorem step_refines {cfg : Cfg} {w : World} {aw : AWorld} {op : Op} (hinv : Inv cfg w aw)
    (hok : ok cfg aw op = true) :
    ∃ w' out, step cfg w op = some (w', out) ∧ Inv cfg w' (aStep cfg aw op) ∧
      (∀ i l q, op = .decr i l q → out = aOut cfg aw op) := by
  obtain ⟨w', out, h1, h2, h3⟩ := step_refines_out hinv hok
  exact ⟨w', out, h1, h2, fun _ _ _ _ => h3⟩

/-! ## observation -/

/-- Goal 4: a positive entry of the table is what `get` returns (in the filling and in the running phase). -/
theorem get_refines {cfg : Cfg} {w : World} {aw : AWorld} {i l q idx : Nat} {a : A} {c : Cnt}
    (hinv : Inv cfg w aw) (ha : aw.getD i none = some a) (hc : w.cnt i = some c) (hk : keyIdx cfg l q = some idx)
    (hidx : idx < a.rows * cfg.rowSize) (hpos : 0 < a.at idx) : get cfg w.mem c l q = some (a.at idx) := by
  obtain ⟨hloc, hrs⟩ := locate_of_keyIdx hk
  have hold : CntInv cfg w.mem w.cnts c a := hinv.cnt i c a hc ha
  have hrl : idx / cfg.rowSize < c.length := by rw [hold.len]; exact div_lt_rows hidx
  have hr : c[idx / cfg.rowSize]? = some c[idx / cfg.rowSize] := List.getElem?_eq_getElem hrl
  generalize c[idx / cfg.rowSize] = row at hr
  have hrow := hold.rows _ row hr
  have hcol : idx % cfg.rowSize < cfg.rowSize := Nat.mod_lt _ hrs
  have hfpos : 0 < a.at (idx / cfg.rowSize * cfg.rowSize + idx % cfg.rowSize) := by rw [idx_split]; exact hpos
  unfold get
  simp only [hloc, hr]
  cases hd : row.data with
  | none =>
    simp only
    have := (hrow.noData hd).2.sum_eq hcol hfpos
    simp only [idx_split] at this
    rw [hrow.master, this]
  | some p =>
    simp only
    have := (hrow.data p hd).cols _ hcol hfpos
    rw [this, idx_split]

/-! ## consequences of the invariant -/

/-- `refs p cs` counts the rows whose `data_` is `p` -/
theorem rowRefs_eq_countP (p : Nat) : ∀ (c : List Row), rowRefs p c = c.countP (fun row => row.data == some p)
  | [] => rfl
  | row :: rest => by
    rw [List.countP_cons, rowRefs, rowRefs_eq_countP p rest]
    by_cases h : row.data = some p
    · simp [h]; omega
    · simp [h]

/-- Goal 5a (running phase): the reference count cell of a row is the number of (counter, row) pairs of the world
that point to it, and that number is at least 1. -/
theorem refcount_eq_sharers {cfg : Cfg} {w : World} {aw : AWorld} {i r p : Nat} {a : A} {c : Cnt} {row : Row}
    (hinv : Inv cfg w aw) (ha : aw.getD i none = some a) (hc : w.cnt i = some c) (hph : a.phase = .running)
    (hr : c[r]? = some row) (hd : row.data = some p) :
    cell w.mem p cfg.rowSize = refs p w.cnts ∧ 1 ≤ refs p w.cnts := by
  have hold : CntInv cfg w.mem w.cnts c a := hinv.cnt i c a hc ha
  exact ⟨((hold.rows r row hr).data p hd).run hph, refs_pos_of_get hc hr hd⟩

/-- Goal 5a (filling phase): a row under construction has exactly one owner and count 0 ("one column so far") or 1. -/
theorem refcount_filling {cfg : Cfg} {w : World} {aw : AWorld} {i r p : Nat} {a : A} {c : Cnt} {row : Row}
    (hinv : Inv cfg w aw) (ha : aw.getD i none = some a) (hc : w.cnt i = some c) (hph : a.phase = .filling)
    (hr : c[r]? = some row) (hd : row.data = some p) :
    refs p w.cnts = 1 ∧ (cell w.mem p cfg.rowSize = 0 ∨ cell w.mem p cfg.rowSize = 1) := by
  have hold : CntInv cfg w.mem w.cnts c a := hinv.cnt i c a hc ha
  obtain ⟨h1, _, h3⟩ := ((hold.rows r row hr).data p hd).fill hph
  exact ⟨h1, by rcases h3 with h | h; exact Or.inr h; exact Or.inl h.1⟩

/-- Goal 5b: a row in the allocator's free list is referenced by no live counter ("no row freed while shared"),
and the free list has no duplicates ("no double free"). -/
theorem free_not_referenced {cfg : Cfg} {w : World} {aw : AWorld} (hinv : Inv cfg w aw) :
    w.mem.free.Nodup ∧
    ∀ p, p ∈ w.mem.free → ∀ (i : Nat) (c : Cnt) (r : Nat) (row : Row),
      w.cnt i = some c → c[r]? = some row → row.data ≠ some p := by
  refine ⟨hinv.nodup, ?_⟩
  intro p hp i c r row hc hr hd
  have := refs_pos_of_get (cs := w.cnts) hc hr hd
  have := (hinv.free p hp).2
  omega

/-- every row a live counter points to is a well-formed row of the allocator: allocated, of `rowSize + 1` cells -/
theorem row_wellformed {cfg : Cfg} {w : World} {aw : AWorld} {i r p : Nat} {c : Cnt} {row : Row}
    (hinv : Inv cfg w aw) (hc : w.cnt i = some c) (hr : c[r]? = some row) (hd : row.data = some p) :
    p < w.mem.next ∧ (w.mem.cells.get p).length = cfg.rowSize + 1 :=
  hinv.ref (refs_pos_of_get (cs := w.cnts) hc hr hd)

/-- what `step` does on `decr` -/
theorem step_decr_eq {cfg : Cfg} {w w' : World} {i l q : Nat} {out : List Nat}
    (h : step cfg w (.decr i l q) = some (w', out)) :
    ∃ c r, w.cnt i = some c ∧ decr cfg w.mem c l q = some r ∧ w' = ⟨r.1, w.cnts.set i (some r.2.1)⟩ ∧ out = [r.2.2] := by
  simp only [step] at h
  cases hc : w.cnt i with
  | none => rw [hc] at h; cases h
  | some c =>
    rw [hc] at h
    simp only at h
    cases hr : decr cfg w.mem c l q with
    | none => rw [hr] at h; cases h
    | some r =>
      rw [hr] at h
      simp only [Option.map_some, Option.some.injEq, Prod.mk.injEq] at h
      exact ⟨c, r, rfl, hr, h.1.symm, h.2.symm⟩

/-- Goal 5c ("copy before the first write to a shared row"): a `decr` never writes a data column of a row that has
two or more sharers. -/
theorem decr_no_shared_write {cfg : Cfg} {w w' : World} {aw : AWorld} {i l q : Nat} {out : List Nat}
    (hinv : Inv cfg w aw) (hok : ok cfg aw (.decr i l q) = true) (h : step cfg w (.decr i l q) = some (w', out)) :
    ∀ p, 2 ≤ refs p w.cnts → ∀ col, col < cfg.rowSize → cell w'.mem p col = cell w.mem p col := by
  obtain ⟨c, r, hc, hr, hw, _⟩ := step_decr_eq h
  simp only [ok] at hok
  cases ha : aw.getD i none with
  | none => rw [ha] at hok; cases hok
  | some a =>
    cases hk : keyIdx cfg l q with
    | none => rw [ha, hk] at hok; cases hok
    | some idx =>
      rw [ha, hk] at hok
      simp only [Bool.and_eq_true, beq_iff_eq, decide_eq_true_eq] at hok
      obtain ⟨⟨h1, h2⟩, h3⟩ := hok
      obtain ⟨m, cs⟩ := w
      have hc' : cs.getD i none = some c := hc
      obtain ⟨r', e1, _, _, e4⟩ := decr_inv hinv hc' ha hk h1 h2 h3
      have : r' = r := by
        have : some r' = some r := by rw [← e1]; exact hr
        exact Option.some.inj this
      subst this
      subst hw
      exact e4

/-- Goal 5c: a `decr` on counter `i` changes nothing another live counter `j` observes: `j` is the same object, its
table is the same, and `get` of every positive entry returns the same number before and after. -/
theorem decr_other_unchanged {cfg : Cfg} {w w' : World} {aw : AWorld} {i j l q : Nat} {out : List Nat} {a : A} {c : Cnt}
    (hinv : Inv cfg w aw) (hok : ok cfg aw (.decr i l q) = true) (h : step cfg w (.decr i l q) = some (w', out))
    (hji : j ≠ i) (ha : aw.getD j none = some a) (hc : w.cnt j = some c) :
    w'.cnt j = some c ∧ (aStep cfg aw (.decr i l q)).getD j none = some a ∧
    ∀ l' q' idx', keyIdx cfg l' q' = some idx' → idx' < a.rows * cfg.rowSize → 0 < a.at idx' →
      get cfg w'.mem c l' q' = get cfg w.mem c l' q' := by
  obtain ⟨w'', out', g1, g2, _⟩ := step_refines_out hinv hok
  rw [h] at g1
  simp only [Option.some.injEq, Prod.mk.injEq] at g1
  obtain ⟨g1, _⟩ := g1
  subst g1
  obtain ⟨ci, r, _, _, hw, _⟩ := step_decr_eq h
  have hc' : w'.cnt j = some c := by
    rw [hw]
    show (w.cnts.set i (some r.2.1)).getD j none = some c
    rw [getD_set, if_neg (fun h => hji h.1)]; exact hc
  have ha' : (aStep cfg aw (.decr i l q)).getD j none = some a := by
    simp only [aStep]
    split
    · rw [getD_set, if_neg (fun h => hji h.1)]; exact ha
    · exact ha
  refine ⟨hc', ha', ?_⟩
  intro l' q' idx' hk hidx hpos
  rw [get_refines g2 ha' hc' hk hidx hpos, get_refines hinv ha hc hk hidx hpos]

/-! ## histories -/

/-- a history of calls on the class as coded; `none` = some call was undefined -/
def run (cfg : Cfg) : World → List Op → Option (World × List (List Nat))
  | w, [] => some (w, [])
  | w, op :: ops =>
    match step cfg w op with
    | none => none
    | some (w', out) => (run cfg w' ops).map (fun r => (r.1, out :: r.2))

/-- the same history on the table of numbers -/
def aRun (cfg : Cfg) : AWorld → List Op → AWorld × List (List Nat)
  | aw, [] => (aw, [])
  | aw, op :: ops => ((aRun cfg (aStep cfg aw op) ops).1, aOut cfg aw op :: (aRun cfg (aStep cfg aw op) ops).2)

/-- every call of the history is inside the discipline -/
def okAll (cfg : Cfg) : AWorld → List Op → Bool
  | _, [] => true
  | aw, op :: ops => ok cfg aw op && okAll cfg (aStep cfg aw op) ops

/-- Goal 6: along every history inside the discipline the class is defined, returns what the table of numbers
returns and ends in a world that satisfies the invariant against the final table. -/
theorem run_refines {cfg : Cfg} : ∀ (ops : List Op) {w : World} {aw : AWorld}, Inv cfg w aw → okAll cfg aw ops = true →
    ∃ w', run cfg w ops = some (w', (aRun cfg aw ops).2) ∧ Inv cfg w' (aRun cfg aw ops).1
  | [], w, aw, hinv, _ => ⟨w, rfl, hinv⟩
  | op :: ops, w, aw, hinv, hok => by
    simp only [okAll, Bool.and_eq_true] at hok
    obtain ⟨w1, out, h1, h2, h3⟩ := step_refines_out hinv hok.1
    obtain ⟨w', g1, g2⟩ := run_refines ops h2 hok.2
    refine ⟨w', ?_, g2⟩
    simp only [run, h1, g1, Option.map_some, aRun, h3]

/-- histories that start with no counter at all -/
theorem run_refines_empty {cfg : Cfg} (ops : List Op) (hok : okAll cfg [] ops = true) :
    ∃ w', run cfg World.empty ops = some (w', (aRun cfg [] ops).2) ∧ Inv cfg w' (aRun cfg [] ops).1 :=
  run_refines ops (inv_empty cfg) hok

/-- every world reachable inside the discipline satisfies the invariant (so Goals 4 and 5 hold in it) -/
theorem reachable_inv {cfg : Cfg} {ops : List Op} {w' : World} {outs : List (List Nat)}
    (hok : okAll cfg [] ops = true) (h : run cfg World.empty ops = some (w', outs)) :
    Inv cfg w' (aRun cfg [] ops).1 ∧ outs = (aRun cfg [] ops).2 := by
  obtain ⟨w'', g1, g2⟩ := run_refines_empty ops hok
  rw [h] at g1
  simp only [Option.some.injEq, Prod.mk.injEq] at g1
  obtain ⟨g1, g3⟩ := g1
  subst g1
  exact ⟨g2, g3⟩


/-! ## non-vacuity: a concrete history through every branch of the class

Layout of `SimulationEngine::init` for 2 labels over 2 states, `delta1 = [{0, 1}, {0}]`, `rowSize = 2`: key indices
`(0,0) ↦ 0`, `(0,1) ↦ 1`, `(1,0) ↦ 2`; label 0 = row 0, label 1 = row 1.  The history fills a counter (a row with two
columns: count 1, kept by `init()`; a row with one column: count 0, reclaimed by `init()`), shares it twice with
`copyLabels`, and decrements through all four branches of `decr` (copy on write into a RECYCLED row, in place, everything
in `master_`, `master_ = 2` with reclaim, `master_ = data_[col]` on a shared row without reclaim), then destroys all. -/
namespace Ex

def exCfg : Cfg := mkCfg 2 2 7 [[0, 1], [0]]

def exOps : List Op :=
  [.new, .resize 0 2, .set 0 0 0 3, .set 0 0 1 1, .set 0 1 0 2, .init 0, .copyCtor 0, .copyLabels 1 0 [0, 1],
   .decr 1 0 0, .decr 0 0 1, .decr 0 1 0, .decr 1 0 0, .decr 1 0 0, .decr 1 0 1, .new, .copyLabels 2 0 [1, 0],
   .decr 0 0 0, .destroy 1, .destroy 0, .destroy 2]

/-- the history is inside the discipline (hypothesis of `run_refines`, and of `step_refines` at every step) -/
example : okAll exCfg [] exOps = true := by decide

/-- what the table of numbers returns -/
example : aRun exCfg [] exOps =
    ([none, none, none], [[], [], [], [], [], [], [], [], [2], [0], [1], [1], [0], [0], [], [], [2], [], [], []]) := by
  decide

/-- `run_refines` on it: the class as coded returns the same numbers … -/
example : (run exCfg World.empty exOps).map (·.2) = some (aRun exCfg [] exOps).2 := by decide

/-- … and ends with both rows back in the free list, each once -/
example : (run exCfg World.empty exOps).map (fun r => (r.1.mem.free, r.1.mem.next)) = some ([0, 1], 2) := by decide

example : ∃ w', run exCfg World.empty exOps = some (w', (aRun exCfg [] exOps).2) ∧ Inv exCfg w' (aRun exCfg [] exOps).1 :=
  run_refines_empty exOps (by decide)

/-- `step_refines` at a non-trivial point: the copy-on-write `decr` after the first `copyLabels` -/
example : ok exCfg (aRun exCfg [] (exOps.take 8)).1 (.decr 1 0 0) = true := by decide

/-- at that point row 0 (address 0) has two sharers and its count cell says so (`refcount_eq_sharers`), -/
example : (run exCfg World.empty (exOps.take 8)).map (fun r => (refs 0 r.1.cnts, cell r.1.mem 0 exCfg.rowSize)) =
    some (2, 2) := by decide

/-- `get_refines`: both counters observe 3 at `(label 0, state 0)`; after the `decr` on counter 1, counter 0 still
observes 3 (`decr_other_unchanged`), counter 1 observes 2 in its private copy, which is the recycled row 1 -/
example : (run exCfg World.empty (exOps.take 8)).map
      (fun r => ((r.1.cnt 0).bind (fun c => get exCfg r.1.mem c 0 0), (r.1.cnt 1).bind (fun c => get exCfg r.1.mem c 0 0))) =
    some (some 3, some 3) := by decide

example : (run exCfg World.empty (exOps.take 9)).map
      (fun r => ((r.1.cnt 0).bind (fun c => get exCfg r.1.mem c 0 0), (r.1.cnt 1).bind (fun c => get exCfg r.1.mem c 0 0),
                 (r.1.cnt 1).map (fun c => c.map (·.data)))) =
    some (some 3, some 2, some [some 1, none]) := by decide

/-- outside the discipline the class is NOT defined / does not follow the table: a second `set` of the same key … -/
example : ok exCfg (aRun exCfg [] (exOps.take 3)).1 (.set 0 0 0 5) = false := by decide

/-- … and `decr` of an entry that is 0 -/
example : ok exCfg (aRun exCfg [] (exOps.take 14)).1 (.decr 1 0 1) = false := by decide

/-- `get_refines` is restricted to POSITIVE entries, and has to be: a column that was never `set` holds whatever the
allocator's initializer left there (here the harness' poison 7; with the engine's allocator, uninitialized memory).
Three key indices in one row of size 3, two of them set: `get` of the third returns 7 where the table says 0. -/
example : (run (mkCfg 3 3 7 [[0, 1, 2]]) World.empty [.new, .resize 0 1, .set 0 0 0 3, .set 0 0 1 1, .init 0]).bind
      (fun r => (r.1.cnt 0).bind (fun c => get (mkCfg 3 3 7 [[0, 1, 2]]) r.1.mem c 0 2)) = some 7 ∧
    ((aRun (mkCfg 3 3 7 [[0, 1, 2]]) [] [.new, .resize 0 1, .set 0 0 0 3, .set 0 0 1 1, .init 0]).1.getD 0 none).map
      (fun a => a.at 2) = some 0 := by decide

end Ex

end Vata.LU.SC
