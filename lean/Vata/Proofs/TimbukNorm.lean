import Vata.TimbukNormal
import Vata.Proofs.Timbuk
import Vata.Proofs.TimbukOrder
/-!
# `std::set` normal forms: `norm` is sorting with removal of duplicates (property C13)

`norm lt xs` inserts the elements of `xs` one after the other into an empty `std::set` (`setInsert`, the list of the
elements in iteration order).  With the order theory of `TimbukOrder.lean`:

* `sorted_setInsert`, `norm_sorted`: the list stays strictly increasing (`Sorted`);
* `sorted_ext`: a strictly increasing list is determined by its set of elements;
* `norm_congr`: `norm` depends on the SET of elements only – so it is invariant under permutation (`norm_perm`) and
  under duplication (`norm_append_self`, `norm_cons_of_mem`);
* `norm_of_sorted`, `norm_idem`: `norm` is the identity on strictly increasing lists, hence idempotent;
* `sortedB` (`Vata/TimbukNormal.lean`): the executable test, `sortedB_iff`, `norm_eq_self_iff`.

(`mem_norm` is in `Vata/Proofs/Timbuk.lean`.)
-/
namespace Vata.Timbuk

variable {α : Type}

/-- strictly increasing for `lt` (every earlier element is below every later one): the iteration order of a `std::set` -/
def Sorted (lt : α → α → Bool) (l : List α) : Prop := l.Pairwise (fun a b => lt a b = true)

theorem sorted_nil (lt : α → α → Bool) : Sorted lt [] := List.Pairwise.nil

theorem sorted_cons {lt : α → α → Bool} {a : α} {l : List α} :
    Sorted lt (a :: l) ↔ (∀ b ∈ l, lt a b = true) ∧ Sorted lt l := List.pairwise_cons

/-- `std::set::insert` keeps the iteration order strictly increasing -/
theorem sorted_setInsert [DecidableEq α] {lt : α → α → Bool} (h : StrictTotal lt) (x : α) :
    ∀ {l : List α}, Sorted lt l → Sorted lt (setInsert lt x l)
  | [], _ => sorted_cons.mpr ⟨(by intro b hb; cases hb), sorted_nil lt⟩
  | y :: ys, hs => by
    obtain ⟨hy, hys⟩ := sorted_cons.mp hs
    unfold setInsert
    split
    · exact hs
    · rename_i hne
      split
      · rename_i hlt
        refine sorted_cons.mpr ⟨?_, hs⟩
        intro b hb
        rcases List.mem_cons.mp hb with hb | hb
        · subst hb; exact hlt
        · exact h.trans hlt (hy b hb)
      · rename_i hnlt
        have hyx : lt y x = true := by
          rcases h.le_cases (Bool.eq_false_iff.mpr hnlt) with h1 | h1
          · exact h1
          · exact absurd h1.symm hne
        refine sorted_cons.mpr ⟨?_, sorted_setInsert h x hys⟩
        intro b hb
        rcases (mem_setInsert lt x b ys).mp hb with hb | hb
        · subst hb; exact hyx
        · exact hy b hb

theorem sorted_setInsertAll [DecidableEq α] {lt : α → α → Bool} (h : StrictTotal lt) :
    ∀ (xs : List α) {acc : List α}, Sorted lt acc → Sorted lt (setInsertAll lt acc xs)
  | [], _, hs => hs
  | x :: xs, acc, hs => by
    have : setInsertAll lt acc (x :: xs) = setInsertAll lt (setInsert lt x acc) xs := rfl
    rw [this]
    exact sorted_setInsertAll h xs (sorted_setInsert h x hs)

/-- the list of a `std::set` is strictly increasing -/
theorem norm_sorted [DecidableEq α] {lt : α → α → Bool} (h : StrictTotal lt) (xs : List α) : Sorted lt (norm lt xs) :=
  sorted_setInsertAll h xs (sorted_nil lt)

/-- a strictly increasing list has no duplicates -/
theorem Sorted.nodup {lt : α → α → Bool} (h : StrictTotal lt) {l : List α} (hs : Sorted lt l) : l.Nodup := by
  unfold Sorted at hs
  unfold List.Nodup
  exact hs.imp (fun {a b} hab => h.ne_of_lt hab)

/-- **a strictly increasing list is determined by its elements** -/
theorem sorted_ext {lt : α → α → Bool} (h : StrictTotal lt) : ∀ {l₁ l₂ : List α},
    Sorted lt l₁ → Sorted lt l₂ → (∀ x, x ∈ l₁ ↔ x ∈ l₂) → l₁ = l₂
  | [], [], _, _, _ => rfl
  | [], b :: bs, _, _, hm => by
    have := (hm b).mpr List.mem_cons_self
    cases this
  | a :: as, [], _, _, hm => by
    have := (hm a).mp List.mem_cons_self
    cases this
  | a :: as, b :: bs, h1, h2, hm => by
    obtain ⟨ha, has⟩ := sorted_cons.mp h1
    obtain ⟨hb, hbs⟩ := sorted_cons.mp h2
    have eab : a = b := by
      rcases List.mem_cons.mp ((hm a).mp List.mem_cons_self) with e | hin
      · exact e
      · rcases List.mem_cons.mp ((hm b).mpr List.mem_cons_self) with e | hin'
        · exact e.symm
        · have l1 := hb a hin
          have l2 := ha b hin'
          rw [h.asymm l1] at l2; cases l2
    subst eab
    have hm' : ∀ x, x ∈ as ↔ x ∈ bs := by
      intro x
      constructor
      · intro hx
        rcases List.mem_cons.mp ((hm x).mp (List.mem_cons_of_mem _ hx)) with e | hin
        · subst e
          have := ha x hx
          rw [h.irrefl] at this; cases this
        · exact hin
      · intro hx
        rcases List.mem_cons.mp ((hm x).mpr (List.mem_cons_of_mem _ hx)) with e | hin
        · subst e
          have := hb x hx
          rw [h.irrefl] at this; cases this
        · exact hin
    rw [sorted_ext h has hbs hm']

/-- **`norm` depends on the set of elements only** -/
theorem norm_congr [DecidableEq α] {lt : α → α → Bool} (h : StrictTotal lt) {l₁ l₂ : List α}
    (hm : ∀ x, x ∈ l₁ ↔ x ∈ l₂) : norm lt l₁ = norm lt l₂ :=
  sorted_ext h (norm_sorted h l₁) (norm_sorted h l₂) (fun x => by rw [mem_norm, mem_norm, hm])

/-- permutation invariance -/
theorem norm_perm [DecidableEq α] {lt : α → α → Bool} (h : StrictTotal lt) {l₁ l₂ : List α} (hp : l₁.Perm l₂) :
    norm lt l₁ = norm lt l₂ :=
  norm_congr h (fun _ => hp.mem_iff)

/-- duplicating the whole list changes nothing -/
theorem norm_append_self [DecidableEq α] {lt : α → α → Bool} (h : StrictTotal lt) (l : List α) :
    norm lt (l ++ l) = norm lt l :=
  norm_congr h (fun x => by simp)

/-- an element that is already there changes nothing -/
theorem norm_cons_of_mem [DecidableEq α] {lt : α → α → Bool} (h : StrictTotal lt) {a : α} {l : List α} (ha : a ∈ l) :
    norm lt (a :: l) = norm lt l :=
  norm_congr h (fun x => by
    constructor
    · intro hx
      rcases List.mem_cons.mp hx with e | hx
      · subst e; exact ha
      · exact hx
    · exact List.mem_cons_of_mem _)

/-- `norm` is the identity on strictly increasing lists -/
theorem norm_of_sorted [DecidableEq α] {lt : α → α → Bool} (h : StrictTotal lt) {l : List α} (hs : Sorted lt l) :
    norm lt l = l :=
  sorted_ext h (norm_sorted h l) hs (mem_norm lt · l)

/-- **`norm` is idempotent** -/
theorem norm_idem [DecidableEq α] {lt : α → α → Bool} (h : StrictTotal lt) (l : List α) :
    norm lt (norm lt l) = norm lt l :=
  norm_of_sorted h (norm_sorted h l)

/-- inserting into a set that already is one: the set of all elements -/
theorem setInsertAll_eq_norm [DecidableEq α] {lt : α → α → Bool} (h : StrictTotal lt) {acc : List α}
    (hs : Sorted lt acc) (xs : List α) : setInsertAll lt acc xs = norm lt (acc ++ xs) :=
  sorted_ext h (sorted_setInsertAll h xs hs) (norm_sorted h _)
    (fun x => by rw [mem_setInsertAll, mem_norm, List.mem_append])

/-! ## the executable test -/

theorem sortedB_iff {lt : α → α → Bool} (h : StrictTotal lt) : ∀ l : List α, sortedB lt l = true ↔ Sorted lt l
  | [] => by simp [sortedB, sorted_nil]
  | [a] => by
    simp only [sortedB, true_iff]
    exact sorted_cons.mpr ⟨(by intro b hb; cases hb), sorted_nil lt⟩
  | a :: b :: r => by
    simp only [sortedB, Bool.and_eq_true]
    rw [sortedB_iff h (b :: r)]
    constructor
    · rintro ⟨hab, hs⟩
      refine sorted_cons.mpr ⟨?_, hs⟩
      intro c hc
      rcases List.mem_cons.mp hc with e | hc
      · subst e; exact hab
      · exact h.trans hab ((sorted_cons.mp hs).1 c hc)
    · intro hs
      exact ⟨(sorted_cons.mp hs).1 b List.mem_cons_self, (sorted_cons.mp hs).2⟩

/-- the lists that `norm` leaves alone are exactly the strictly increasing ones -/
theorem norm_eq_self_iff [DecidableEq α] {lt : α → α → Bool} (h : StrictTotal lt) (l : List α) :
    norm lt l = l ↔ sortedB lt l = true := by
  rw [sortedB_iff h]
  constructor
  · intro e; rw [← e]; exact norm_sorted h l
  · exact norm_of_sorted h

end Vata.Timbuk
