import Vata.FunctorCachesDownOpt
import Vata.Proofs.FunctorCachesDownSim
/-!
# The functor's `operator()` over any functor state: a simulation relation is preserved (C01, C07)

The combinators `forAllLG` … `bodyG` of `Vata/FunctorCachesDownOpt.lean` against `InclDown.forAllL` … `InclDown.body`, for an
arbitrary relation `R` between (functor state, global state) on the cached side and (`childrenCache`, `St`) on the value side:
if the calls of `expand` preserve `R`, the whole `operator()` does (`bodyG_rel`).  The proofs are those of
`Vata/Proofs/FunctorCachesDownSim.lean` with the relation abstracted.
-/
namespace Vata
namespace FCD
open Vata.InclDown Vata.CM
open Vata.FCU (Heap hval hLookup hCollect Live)
open Vata.InclUp (normS prodWit Wit)

def RetRelG {γ : Type} {φ σ : Type} (R : φ → σ → List Pair → St → Prop) :
    Option (γ × φ × σ) → Option (γ × List Pair × St) → Prop
  | none, none => True
  | some (v, ccC, stC), some (v', cc, st) => v = v' ∧ R ccC stC cc st
  | _, _ => False

theorem retRelG_none {γ : Type} {φ σ : Type} {R : φ → σ → List Pair → St → Prop} : RetRelG (γ := γ) R none none := by
  simp [RetRelG]

theorem retRelG_some {γ : Type} {φ σ : Type} {R : φ → σ → List Pair → St → Prop} {v : γ} {ccC : φ} {stC : σ}
    {cc : List Pair} {st : St} (h : R ccC stC cc st) :
    RetRelG R (some (v, ccC, stC)) (some (v, cc, st)) := by
  simp only [RetRelG]; exact ⟨trivial, h⟩

theorem retRelG_elim {γ : Type} {φ σ : Type} {R : φ → σ → List Pair → St → Prop} {rc : Option (γ × φ × σ)}
    {r : Option (γ × List Pair × St)} (h : RetRelG R rc r) :
    (rc = none ∧ r = none) ∨
    ∃ v ccC stC cc st, rc = some (v, ccC, stC) ∧ r = some (v, cc, st) ∧ R ccC stC cc st := by
  cases rc with
  | none =>
    cases r with
    | none => exact Or.inl ⟨rfl, rfl⟩
    | some y => simp [RetRelG] at h
  | some x =>
    obtain ⟨v, ccC, stC⟩ := x
    cases r with
    | none => simp [RetRelG] at h
    | some y =>
      obtain ⟨v', cc, st⟩ := y
      simp only [RetRelG] at h
      obtain ⟨rfl, hr⟩ := h
      exact Or.inr ⟨_, _, _, _, _, rfl, rfl, hr⟩

def StepRelG {γ : Type} {φ σ : Type} (R : φ → σ → List Pair → St → Prop) (fC : φ → σ → Option (γ × φ × σ))
    (f : List Pair → St → Option (γ × List Pair × St)) : Prop :=
  ∀ ccC stC cc st, R ccC stC cc st → RetRelG R (fC ccC stC) (f cc st)

def CallRelG {φ σ : Type} (R : φ → σ → List Pair → St → Prop) (cC : CallG φ σ) (c : Call) : Prop :=
  ∀ q Q, StepRelG R (fun cc st => cC cc st q Q) (fun cc st => c cc st q Q)

/-! ### the functor's `operator()` -/

theorem forAllLG_rel {α : Type} {φ σ : Type} {R : φ → σ → List Pair → St → Prop} {fC : α → φ → σ → RetG φ σ}
    {f : α → List Pair → St → Ret} (hf : ∀ a, StepRelG R (fC a) (f a)) :
    ∀ l : List α, StepRelG R (forAllLG fC l) (forAllL f l)
  | [] => fun ccC stC cc st h => by simp only [forAllLG, forAllL]; exact retRelG_some h
  | a :: l => fun ccC stC cc st h => by
    rcases retRelG_elim (hf a ccC stC cc st h) with ⟨e1, e2⟩ | ⟨v, ccC', stC', cc', st', e1, e2, hr⟩
    · simp only [forAllLG, forAllL, e1, e2]; exact retRelG_none
    · cases v with
      | holds => simp only [forAllLG, forAllL, e1, e2]; exact forAllLG_rel hf l _ _ _ _ hr
      | fails w => simp only [forAllLG, forAllL, e1, e2]; exact retRelG_some hr

theorem allPosG_rel {φ σ : Type} {R : φ → σ → List Pair → St → Prop} {cC : CallG φ σ} {c : Call} (hc : CallRelG R cC c)
    (lhs rhs : List Nat) : StepRelG R (allPosG cC lhs rhs) (allPos c lhs rhs) :=
  forAllLG_rel (α := Nat × Nat) (fC := fun lr cc st => cC cc st lr.1 [lr.2]) (f := fun lr cc st => c cc st lr.1 [lr.2])
    (fun lr => hc lr.1 [lr.2]) (lhs.zip rhs)

theorem anyTupleG_rel {φ σ : Type} {R : φ → σ → List Pair → St → Prop} {cC : CallG φ σ} {c : Call} (hc : CallRelG R cC c)
    (lhs : List Nat) : ∀ W : List (List Nat), StepRelG R (anyTupleG cC lhs W) (anyTuple c lhs W)
  | [] => fun ccC stC cc st h => by simp only [anyTupleG, anyTuple]; exact retRelG_some h
  | w :: W => fun ccC stC cc st h => by
    rcases retRelG_elim (allPosG_rel hc lhs w ccC stC cc st h) with ⟨e1, e2⟩ | ⟨v, ccC', stC', cc', st', e1, e2, hr⟩
    · simp only [anyTupleG, anyTuple, e1, e2]; exact retRelG_none
    · cases v with
      | holds => simp only [anyTupleG, anyTuple, e1, e2]; exact retRelG_some hr
      | fails t => simp only [anyTupleG, anyTuple, e1, e2]; exact anyTupleG_rel hc lhs W _ _ _ _ hr

theorem consTG_rel {φ σ : Type} {R : φ → σ → List Pair → St → Prop} (t : Tree) {rc : Option (Option (List Tree) × φ × σ)}
    {r : Option (Option (List Tree) × List Pair × St)} (h : RetRelG R rc r) : RetRelG R (consTG t rc) (consT t r) := by
  rcases retRelG_elim h with ⟨e1, e2⟩ | ⟨v, ccC', stC', cc', st', e1, e2, hr⟩
  · subst e1; subst e2; exact retRelG_none
  · subst e1; subst e2
    cases v with
    | none => exact retRelG_some hr
    | some ts => exact retRelG_some hr

theorem tryPosG_rel {φ σ : Type} {R : φ → σ → List Pair → St → Prop} {cC : CallG φ σ} {c : Call} (hc : CallRelG R cC c)
    (wit : Wit) (post : List Nat → List Nat) (W : List (List Nat)) (cs : List Nat) :
    ∀ (ls : List Nat) (i : Nat), StepRelG R (tryPosG cC wit post W cs i ls) (tryPos c wit post W cs i ls)
  | [], i => fun ccC stC cc st h => by simp only [tryPosG, tryPos]; exact retRelG_some h
  | l :: ls, i => fun ccC stC cc st h => by
    simp only [tryPosG, tryPos]
    split
    · exact consTG_rel _ (tryPosG_rel hc wit post W cs ls (i+1) _ _ _ _ h)
    · rcases retRelG_elim (hc l (posSet post W cs i) ccC stC cc st h) with ⟨e1, e2⟩ | ⟨v, ccC', stC', cc', st', e1, e2, hr⟩
      · simp only at e1 e2; simp only [e1, e2]; exact retRelG_none
      · simp only at e1 e2
        cases v with
        | holds => simp only [e1, e2]; exact retRelG_some hr
        | fails t => simp only [e1, e2]; exact consTG_rel _ (tryPosG_rel hc wit post W cs ls (i+1) _ _ _ _ hr)

theorem oneCfG_rel {φ σ : Type} {R : φ → σ → List Pair → St → Prop} {cC : CallG φ σ} {c : Call} (hc : CallRelG R cC c)
    (wit : Wit) (post : List Nat → List Nat) (f : Nat) (lhs : List Nat) (W : List (List Nat)) (cs : List Nat) :
    StepRelG R (oneCfG cC wit post f lhs W cs) (oneCf c wit post f lhs W cs) := fun ccC stC cc st h => by
  rcases retRelG_elim (tryPosG_rel hc wit post W cs lhs 0 ccC stC cc st h) with ⟨e1, e2⟩ | ⟨v, ccC', stC', cc', st', e1, e2, hr⟩
  · simp only [oneCfG, oneCf, e1, e2]; exact retRelG_none
  · cases v with
    | none => simp only [oneCfG, oneCf, e1, e2]; exact retRelG_some hr
    | some ts => simp only [oneCfG, oneCf, e1, e2]; exact retRelG_some hr

theorem cfAllG_rel {φ σ : Type} {R : φ → σ → List Pair → St → Prop} {oneC : List Nat → φ → σ → RetG φ σ}
    {one : List Nat → List Pair → St → Ret} (h1 : ∀ cs, StepRelG R (oneC cs) (one cs)) (n : Nat) :
    ∀ (m : Nat) (cs : List Nat), StepRelG R (cfAllG oneC n m cs) (cfAll one n m cs)
  | 0, cs => fun ccC stC cc st h => by simp only [cfAllG, cfAll]; exact h1 cs _ _ _ _ h
  | m+1, cs => fun ccC stC cc st h => by
    simp only [cfAllG, cfAll]
    exact forAllLG_rel (fun i => cfAllG_rel h1 n m (i :: cs)) _ _ _ _ _ h

theorem procTupleG_rel {φ σ : Type} {R : φ → σ → List Pair → St → Prop} {c1C c2C : CallG φ σ} {c1 c2 : Call}
    (hc1 : CallRelG R c1C c1) (hc2 : CallRelG R c2C c2) (wit : Wit) (post : List Nat → List Nat) (f : Nat)
    (W : List (List Nat)) (lhs : List Nat) :
    StepRelG R (procTupleG c1C c2C wit post f W lhs) (procTuple c1 c2 wit post f W lhs) := fun ccC stC cc st h => by
  rcases retRelG_elim (anyTupleG_rel hc1 lhs W ccC stC cc st h) with ⟨e1, e2⟩ | ⟨v, ccC', stC', cc', st', e1, e2, hr⟩
  · simp only [procTupleG, procTuple, e1, e2]; exact retRelG_none
  · cases v with
    | true => simp only [procTupleG, procTuple, e1, e2]; exact retRelG_some hr
    | false =>
      simp only [procTupleG, procTuple, e1, e2]
      exact cfAllG_rel (fun cs => oneCfG_rel hc2 wit post f lhs W cs) _ _ _ _ _ _ _ hr

theorem procGroupG_rel {φ σ : Type} {R : φ → σ → List Pair → St → Prop} {c1C c2C : CallG φ σ} {c1 c2 : Call}
    (hc1 : CallRelG R c1C c1) (hc2 : CallRelG R c2C c2) (A B : TA) (wit : Wit) (post : List Nat → List Nat)
    (p : Nat) (P : List Nat) (f n : Nat) :
    StepRelG R (procGroupG c1C c2C A B wit post p P f n) (procGroup c1 c2 A B wit post p P f n) :=
  fun ccC stC cc st h => by
  simp only [procGroupG, procGroup]
  split
  · split
    · exact retRelG_some h
    · exact retRelG_some h
  · split
    · exact retRelG_some h
    · exact forAllLG_rel (fun lhs => procTupleG_rel hc1 hc2 wit post f _ lhs) _ _ _ _ _ h

theorem bodyG_rel {φ σ : Type} {R : φ → σ → List Pair → St → Prop} {c1C c2C : CallG φ σ} {c1 c2 : Call}
    (hc1 : CallRelG R c1C c1) (hc2 : CallRelG R c2C c2) (A B : TA) (wit : Wit) (post : List Nat → List Nat)
    (p : Nat) (P : List Nat) :
    StepRelG R (bodyG c1C c2C A B wit post p P) (body c1 c2 A B wit post p P) :=
  forAllLG_rel (α := Nat × Nat) (fC := fun g => procGroupG c1C c2C A B wit post p P g.1 g.2)
    (f := fun g => procGroup c1 c2 A B wit post p P g.1 g.2)
    (fun g => procGroupG_rel hc1 hc2 A B wit post p P g.1 g.2) (lhsGroups A p)


end FCD
end Vata
