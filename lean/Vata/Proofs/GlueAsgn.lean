import Vata.Glue
import Vata.BddAbs
/-!
# `SymbolicVarAsgn` – theorems about the model of `Vata/Glue.lean` (section 1)

* `ofNum_eq_bitsLE`, `toNum_bitsLE`, `bitsLE_getElem?`: `SymbolicVarAsgn(n, k)` for `n ≤ 31` is the `n`-bit binary
  representation of `k`, variable `i` = bit `i` (variable 0 = the FIRST character of `ToString()` = least significant);
  `ofNum_eq_none_iff`: beyond 32 variables the constructor is undefined behaviour; `ofNum_32_high`: with exactly 32
  variables, variable 31 is the OR of the bits 31 … 63.
* `toNum_inc`: `operator++` is `+1` modulo `2^length()` on concrete assignments (`inc_wrap`: the carry is dropped).
* `ofStr_toStr`, `toStr_ofStr`, `ofStr_isSome_iff`: string constructor and `ToString` are inverse.
* `mem_allSyms`, `allSyms_nodup`, `allSyms_length`, `allSyms_sorted`: the concretisation.
* `addVariablesUpTo_eq`, `toStr_addVariablesUpTo`: padding with `X`.
* `lt_irrefl`, `lt_asymm`, `lt_trans`, `lt_total`, `lt_iff_toNum`: `operator<` is a strict total order; on concrete
  assignments of one length it is the order of the numbers.
-/
set_option linter.unusedSimpArgs false
namespace Vata.Glue

/-! ### `SymbolicVarAsgn(size, n)` -/

theorem bitsLE_length (s n : Nat) : (bitsLE s n).length = s := by
  induction s generalizing n with
  | zero => rfl
  | succ s ih => simp [bitsLE, ih]

theorem toNum_bitsLE (s n : Nat) : toNum (bitsLE s n) = n % 2 ^ s := by
  induction s generalizing n with
  | zero => simp [bitsLE, toNum, Nat.mod_one]
  | succ s ih =>
    simp only [bitsLE, toNum, ih]
    rw [Nat.pow_succ', Nat.mod_mul]
    have h2 : n % 2 = 0 ∨ n % 2 = 1 := by omega
    rcases h2 with h2 | h2 <;> simp [h2]

theorem bitsLE_getElem? (s n i : Nat) (h : i < s) : (bitsLE s n)[i]? = some (some (n.testBit i)) := by
  induction s generalizing n i with
  | zero => omega
  | succ s ih =>
    cases i with
    | zero =>
      simp only [bitsLE, List.getElem?_cons_zero, Nat.testBit_zero]
    | succ i =>
      simp only [bitsLE, List.getElem?_cons_succ]
      rw [ih (n / 2) i (by omega), Nat.testBit_succ]

theorem bitsLE_eq_range_map (s n : Nat) : bitsLE s n = (List.range s).map (fun i => some (n.testBit i)) := by
  apply List.ext_getElem?
  intro i
  by_cases h : i < s
  · rw [bitsLE_getElem? s n i h]
    simp [h]
  · have h1 : (bitsLE s n).length ≤ i := by rw [bitsLE_length]; omega
    rw [List.getElem?_eq_none h1, List.getElem?_eq_none (by simp; omega)]

theorem isConcrete_bitsLE (s n : Nat) : isConcrete (bitsLE s n) = true := by
  induction s generalizing n with
  | zero => rfl
  | succ s ih => simp [bitsLE, isConcrete] at *; exact ih _

theorem ofNumFrom_eq (n : Nat) : ∀ (k i : Nat), i + k ≤ 31 →
    ofNumFrom n i k = some ((List.range' i k).map (fun j => some (n.testBit j)))
  | 0, _, _ => rfl
  | k + 1, i, h => by
    have h1 : maskTest n i = some (n.testBit i) := by
      unfold maskTest; rw [if_pos (by omega)]
    simp only [ofNumFrom, h1, ofNumFrom_eq n k (i + 1) (by omega), List.range'_succ, List.map_cons]

/-- `SymbolicVarAsgn(size, n)`, `size ≤ 31`: the `size` lowest bits of `n`, least significant first -/
theorem ofNum_eq_bitsLE {size : Nat} (n : Nat) (h : size ≤ 31) : ofNum size n = some (bitsLE size n) := by
  unfold ofNum
  rw [ofNumFrom_eq n size 0 (by omega), bitsLE_eq_range_map, List.range_eq_range']

theorem ofNumFrom_none (n : Nat) : ∀ (k i : Nat), 32 < i + k → i ≤ 32 → ofNumFrom n i k = none
  | 0, i, h, h' => by omega
  | k + 1, i, h, h' => by
    by_cases hi : i = 32
    · subst hi
      simp [ofNumFrom, maskTest]
    · have := ofNumFrom_none n k (i + 1) (by omega) (by omega)
      simp only [ofNumFrom, this]
      cases maskTest n i <;> rfl

theorem ofNumFrom_isSome (n : Nat) : ∀ (k i : Nat), i + k ≤ 32 → (ofNumFrom n i k).isSome = true
  | 0, _, _ => rfl
  | k + 1, i, h => by
    have h1 : ∃ b, maskTest n i = some b := by
      unfold maskTest
      by_cases h31 : i < 31
      · exact ⟨_, if_pos h31⟩
      · have : i = 31 := by omega
        subst this
        exact ⟨_, rfl⟩
    obtain ⟨b, hb⟩ := h1
    have := ofNumFrom_isSome n k (i + 1) (by omega)
    obtain ⟨r, hr⟩ := Option.isSome_iff_exists.1 this
    simp [ofNumFrom, hb, hr]

/-- the constructor is undefined behaviour exactly beyond 32 variables -/
theorem ofNum_eq_none_iff (size n : Nat) : ofNum size n = none ↔ 32 < size := by
  constructor
  · intro h
    by_cases h' : size ≤ 32
    · have := ofNumFrom_isSome n size 0 (by omega)
      unfold ofNum at h
      rw [h] at this
      exact absurd this (by simp)
    · omega
  · intro h
    exact ofNumFrom_none n size 0 (by omega) (by omega)

/-- with exactly 32 variables, variable 31 does not hold bit 31 of the number but the OR of the bits 31 … 63: here bit 31
of `2^32` is 0, yet the variable is `ONE` -/
theorem ofNum_32_high : (ofNum 32 (2 ^ 32)).map (fun a => get a 31) = some (some (some true)) ∧ (2 ^ 32).testBit 31 = false := by
  decide

/-- the model of `BddAbs` / `LoadDump` for the 16-bit symbol assignments is this constructor -/
theorem ofNum_symbol_size (f : Nat) : ofNum SYMBOL_SIZE f = some (BddAbs.symAsgn f) := by
  rw [ofNum_eq_bitsLE f (by decide), bitsLE_eq_range_map]
  rfl

theorem zeroSymbol_eq : zeroSymbol = some (List.replicate 16 (some false)) := by decide

/-- a concrete assignment is the binary representation of its number -/
theorem bitsLE_toNum : ∀ (a : Asgn), isConcrete a = true → bitsLE a.length (toNum a) = a
  | [], _ => rfl
  | v :: r, h => by
    simp only [isConcrete, List.all_cons, Bool.and_eq_true] at h
    have ih := bitsLE_toNum r (by simpa [isConcrete] using h.2)
    cases v with
    | none => simp at h
    | some b =>
      cases b
      · simp only [List.length_cons, bitsLE, toNum]
        have h1 : (0 + 2 * toNum r) % 2 = 0 := by omega
        have h2 : (0 + 2 * toNum r) / 2 = toNum r := by omega
        simp [h1, h2, ih]
      · simp only [List.length_cons, bitsLE, toNum]
        have h1 : (1 + 2 * toNum r) % 2 = 1 := by omega
        have h2 : (1 + 2 * toNum r) / 2 = toNum r := by omega
        simp [h1, h2, ih]

theorem toNum_cons_true (r : Asgn) : toNum (some true :: r) = 1 + 2 * toNum r := by simp [toNum]
theorem toNum_cons_false (r : Asgn) : toNum (some false :: r) = 2 * toNum r := by simp [toNum]

theorem toNum_lt : ∀ (a : Asgn), toNum a < 2 ^ a.length
  | [] => by simp [toNum]
  | v :: r => by
    have ih := toNum_lt r
    simp only [toNum, List.length_cons, Nat.pow_succ]
    split <;> omega

/-! ### `operator++` -/

theorem inc_length : ∀ (a : Asgn), (inc a).length = a.length
  | [] => rfl
  | some false :: r => rfl
  | some true :: r => by simp [inc, inc_length r]
  | none :: r => by simp [inc, inc_length r]

theorem inc_concrete : ∀ (a : Asgn), isConcrete a = true → isConcrete (inc a) = true
  | [], _ => rfl
  | some false :: r, h => by simpa [inc, isConcrete] using h
  | some true :: r, h => by
    simp only [isConcrete, List.all_cons, Bool.and_eq_true] at h
    have := inc_concrete r (by simpa [isConcrete] using h.2)
    simpa [inc, isConcrete] using this
  | none :: r, h => by simp [isConcrete] at h

/-- `operator++` on a concrete assignment: `+1` modulo `2^length()` (variable 0 is the least significant bit) -/
theorem toNum_inc : ∀ (a : Asgn), isConcrete a = true → toNum (inc a) = (toNum a + 1) % 2 ^ a.length
  | [], _ => by simp [inc, toNum, Nat.mod_one]
  | some false :: r, _ => by
    have := toNum_lt r
    simp only [inc, toNum_cons_true, toNum_cons_false, List.length_cons, Nat.pow_succ]
    rw [Nat.mod_eq_of_lt] <;> omega
  | some true :: r, h => by
    simp only [isConcrete, List.all_cons, Bool.and_eq_true] at h
    have ih := toNum_inc r (by simpa [isConcrete] using h.2)
    have hl := toNum_lt r
    simp only [inc, toNum_cons_true, toNum_cons_false, List.length_cons, Nat.pow_succ, ih]
    have e : 1 + 2 * toNum r + 1 = 2 * (toNum r + 1) := by omega
    rw [e, Nat.mul_comm (2 ^ r.length) 2, Nat.mul_mod_mul_left]
  | none :: r, h => by simp [isConcrete] at h

/-- the carry out of the last variable is dropped -/
theorem inc_wrap (n : Nat) : inc (List.replicate n (some true)) = List.replicate n (some false) := by
  induction n with
  | zero => rfl
  | succ n ih => simp [List.replicate_succ, inc, ih]

/-- on the binary representations: `++` of the representation of `k` is the representation of `k + 1` -/
theorem inc_bitsLE (s k : Nat) : inc (bitsLE s k) = bitsLE s (k + 1) := by
  have h1 := bitsLE_toNum (inc (bitsLE s k)) (inc_concrete _ (isConcrete_bitsLE s k))
  rw [inc_length, bitsLE_length, toNum_inc _ (isConcrete_bitsLE s k), toNum_bitsLE, bitsLE_length] at h1
  rw [← h1]
  have h2 := bitsLE_toNum (bitsLE s (k + 1)) (isConcrete_bitsLE s (k + 1))
  rw [bitsLE_length, toNum_bitsLE] at h2
  rw [← h2]
  congr 1
  exact Nat.mod_add_mod k (2 ^ s) 1

/-! ### string constructor and `ToString` -/

theorem charVal?_valChar (v : Val) : charVal? (valChar v) = some v := by
  cases v with
  | none => rfl
  | some b => cases b <;> rfl

theorem valChar_of_charVal? {c : Char} {v : Val} (h : charVal? c = some v) : valChar v = c := by
  unfold charVal? at h
  split at h
  · cases h; simp [valChar, *]
  · split at h
    · cases h; simp [valChar, *]
    · split at h
      · cases h; simp [valChar, *]
      · cases h

/-- from-string ∘ `ToString` = id -/
theorem ofStr_toStr : ∀ (a : Asgn), ofStr (toStr a) = some a
  | [] => rfl
  | v :: r => by
    have ih := ofStr_toStr r
    unfold toStr at ih ⊢
    simp only [List.map_cons, ofStr, charVal?_valChar, ih]

/-- `ToString` ∘ from-string = id (where the constructor does not throw) -/
theorem toStr_ofStr : ∀ (s : List Char) (a : Asgn), ofStr s = some a → toStr a = s
  | [], a, h => by cases h; rfl
  | c :: r, a, h => by
    simp only [ofStr] at h
    cases hc : charVal? c with
    | none => rw [hc] at h; cases h
    | some v =>
      rw [hc] at h
      cases hr : ofStr r with
      | none => rw [hr] at h; cases h
      | some a' =>
        rw [hr] at h
        cases h
        have ih := toStr_ofStr r a' hr
        unfold toStr at ih ⊢
        simp [valChar_of_charVal? hc, ih]

/-- the constructor throws exactly on a character other than `0`, `1`, `X` -/
theorem ofStr_isSome_iff : ∀ (s : List Char), (ofStr s).isSome = true ↔ ∀ c ∈ s, c = '0' ∨ c = '1' ∨ c = 'X'
  | [] => by simp [ofStr]
  | c :: r => by
    have ih := ofStr_isSome_iff r
    simp only [ofStr, List.mem_cons, forall_eq_or_imp]
    rw [← ih]
    unfold charVal?
    by_cases h0 : c = '0'
    · subst h0; cases hr : ofStr r <;> simp
    · by_cases h1 : c = '1'
      · subst h1; cases hr : ofStr r <;> simp
      · by_cases hx : c = 'X'
        · subst hx; cases hr : ofStr r <;> simp
        · simp [h0, h1, hx]

theorem toStr_length (a : Asgn) : (toStr a).length = length a := by simp [toStr, length]

theorem ofStr_length {s : List Char} {a : Asgn} (h : ofStr s = some a) : a.length = s.length := by
  rw [← toStr_ofStr s a h, toStr_length]; rfl

/-! ### `GetIthVariableValue`, `SetIthVariableValue`, `AddVariablesUpTo`, `append` -/

theorem get_set_eq (a : Asgn) (i : Nat) (v : Val) (h : i < a.length) : get (set a i v) i = some v := by
  simp [get, set, h]

theorem get_set_ne (a : Asgn) (i j : Nat) (v : Val) (h : i ≠ j) : get (set a i v) j = get a j := by
  simp [get, set, List.getElem?_set_ne h]

theorem set_length (a : Asgn) (i : Nat) (v : Val) : (set a i v).length = a.length := by simp [set]

/-- `AddVariablesUpTo` pads with `X` up to the index (and never shortens) -/
theorem addVariablesUpTo_eq (a : Asgn) (m : Nat) :
    addVariablesUpTo a m = a ++ List.replicate (m + 1 - a.length) none := by
  unfold addVariablesUpTo
  simp only
  split
  · rfl
  · have : m + 1 - a.length = 0 := by omega
    simp [this]

theorem addVariablesUpTo_length (a : Asgn) (m : Nat) : (addVariablesUpTo a m).length = max a.length (m + 1) := by
  rw [addVariablesUpTo_eq]; simp; omega

theorem toStr_addVariablesUpTo (a : Asgn) (m : Nat) :
    toStr (addVariablesUpTo a m) = toStr a ++ List.replicate (m + 1 - a.length) 'X' := by
  rw [addVariablesUpTo_eq]; simp [toStr, valChar]

theorem get_addVariablesUpTo_old (a : Asgn) (m i : Nat) (h : i < a.length) : get (addVariablesUpTo a m) i = get a i := by
  rw [addVariablesUpTo_eq]; simp [get, List.getElem?_append_left h]

theorem get_addVariablesUpTo_new (a : Asgn) (m i : Nat) (h : a.length ≤ i) (h' : i ≤ m) :
    get (addVariablesUpTo a m) i = some none := by
  rw [addVariablesUpTo_eq]
  simp only [get]
  rw [List.getElem?_append_right h, List.getElem?_replicate, if_pos (by omega)]

theorem toStr_append (a p : Asgn) : toStr (append a p) = toStr a ++ toStr p := by simp [toStr, append]

theorem get_append_new (a p : Asgn) (i : Nat) : get (append a p) (a.length + i) = get p i := by
  simp only [get, append]
  rw [List.getElem?_append_right (by omega), Nat.add_sub_cancel_left]

/-! ### the concretisation of don't cares -/

/-- membership: exactly the total assignments that agree with the symbolic one -/
theorem mem_allSyms : ∀ (a c : Asgn), c ∈ allSyms a ↔ agrees c a = true
  | [], c => by cases c <;> simp [allSyms, agrees]
  | none :: r, c => by
    simp only [allSyms, List.mem_append, List.mem_map]
    constructor
    · rintro (⟨x, hx, rfl⟩ | ⟨x, hx, rfl⟩) <;> simpa [agrees] using (mem_allSyms r x).1 hx
    · intro h
      match c, h with
      | some false :: cs, h => exact Or.inl ⟨cs, (mem_allSyms r cs).2 (by simpa [agrees] using h), rfl⟩
      | some true :: cs, h => exact Or.inr ⟨cs, (mem_allSyms r cs).2 (by simpa [agrees] using h), rfl⟩
  | some b :: r, c => by
    simp only [allSyms, List.mem_map]
    constructor
    · rintro ⟨x, hx, rfl⟩
      simpa [agrees] using (mem_allSyms r x).1 hx
    · intro h
      match c, h with
      | some c0 :: cs, h =>
        simp only [agrees, Bool.and_eq_true, beq_iff_eq] at h
        exact ⟨cs, (mem_allSyms r cs).2 h.2, by rw [h.1]⟩

/-- what `agrees` says: same length, total, and equal to the symbolic assignment wherever that one cares -/
theorem agrees_iff : ∀ (c a : Asgn), agrees c a = true ↔
    c.length = a.length ∧ isConcrete c = true ∧ ∀ (i : Nat) (b : Bool), a[i]? = some (some b) → c[i]? = some (some b)
  | [], [] => by simp [agrees, isConcrete]
  | [], _ :: _ => by simp [agrees]
  | _ :: _, [] => by simp [agrees]
  | none :: cs, _ :: r => by simp [agrees, isConcrete]
  | some c0 :: cs, none :: r => by
    simp only [agrees, agrees_iff cs r, List.length_cons, isConcrete, List.all_cons, Option.isSome_some, Bool.true_and]
    constructor
    · rintro ⟨h1, h2, h3⟩
      refine ⟨by omega, h2, ?_⟩
      intro i b hi
      cases i with
      | zero => simp at hi
      | succ i => simpa using h3 i b (by simpa using hi)
    · rintro ⟨h1, h2, h3⟩
      refine ⟨by omega, h2, ?_⟩
      intro i b hi
      simpa using h3 (i + 1) b (by simpa using hi)
  | some c0 :: cs, some b0 :: r => by
    simp only [agrees, agrees_iff cs r, List.length_cons, isConcrete, List.all_cons, Option.isSome_some, Bool.true_and,
      Bool.and_eq_true, beq_iff_eq]
    constructor
    · rintro ⟨h0, h1, h2, h3⟩
      refine ⟨by omega, h2, ?_⟩
      intro i b hi
      cases i with
      | zero => simp at hi ⊢; rw [h0, hi]
      | succ i => simpa using h3 i b (by simpa using hi)
    · rintro ⟨h1, h2, h3⟩
      refine ⟨?_, by omega, h2, ?_⟩
      · simpa using h3 0 b0 (by simp)
      · intro i b hi
        simpa using h3 (i + 1) b (by simpa using hi)

theorem map_cons_nodup {l : List Asgn} (v : Val) (h : l.Nodup) : (l.map (v :: ·)).Nodup := by
  induction l with
  | nil => simp
  | cons x r ih =>
    rw [List.nodup_cons] at h
    simp only [List.map_cons, List.nodup_cons, List.mem_map, List.cons.injEq, true_and, exists_eq_right]
    exact ⟨h.1, ih h.2⟩

/-- every concrete assignment is produced once -/
theorem allSyms_nodup : ∀ (a : Asgn), (allSyms a).Nodup
  | [] => by simp [allSyms]
  | none :: r => by
    simp only [allSyms]
    rw [List.nodup_append]
    refine ⟨map_cons_nodup _ (allSyms_nodup r), map_cons_nodup _ (allSyms_nodup r), ?_⟩
    intro x hx y hy
    simp only [List.mem_map] at hx hy
    obtain ⟨x', _, rfl⟩ := hx
    obtain ⟨y', _, rfl⟩ := hy
    simp
  | some b :: r => by
    simp only [allSyms]
    exact map_cons_nodup _ (allSyms_nodup r)

/-- `2^k` concrete assignments for `k` don't cares -/
theorem allSyms_length : ∀ (a : Asgn), (allSyms a).length = 2 ^ a.count none
  | [] => by simp [allSyms]
  | none :: r => by
    simp only [allSyms, List.length_append, List.length_map, allSyms_length r, List.count_cons_self, Nat.pow_succ]
    omega
  | some b :: r => by
    simp only [allSyms, List.length_map, allSyms_length r]
    rw [List.count_cons_of_ne (by simp)]

theorem map_cons_sorted {l : List Asgn} (b : Bool) (h : l.Pairwise (fun x y => lexLt x y = true)) :
    (l.map (some b :: ·)).Pairwise (fun x y => lexLt x y = true) := by
  induction l with
  | nil => simp
  | cons x r ih =>
    rw [List.pairwise_cons] at h
    simp only [List.map_cons, List.pairwise_cons, List.mem_map]
    refine ⟨?_, ih h.2⟩
    rintro y ⟨y', hy', rfl⟩
    simp [lexLt, h.1 y' hy']

/-- the coded order: lexicographic with variable 0 most significant and `0` before `1` (the order of the `ToString()`s) -/
theorem allSyms_sorted : ∀ (a : Asgn), (allSyms a).Pairwise (fun x y => lexLt x y = true)
  | [] => by simp [allSyms]
  | none :: r => by
    simp only [allSyms]
    rw [List.pairwise_append]
    refine ⟨map_cons_sorted _ (allSyms_sorted r), map_cons_sorted _ (allSyms_sorted r), ?_⟩
    intro x hx y hy
    simp only [List.mem_map] at hx hy
    obtain ⟨x', _, rfl⟩ := hx
    obtain ⟨y', _, rfl⟩ := hy
    simp [lexLt]
  | some b :: r => by
    simp only [allSyms]
    exact map_cons_sorted _ (allSyms_sorted r)

/-- a concrete assignment concretises to itself -/
theorem allSyms_concrete : ∀ (a : Asgn), isConcrete a = true → allSyms a = [a]
  | [], _ => rfl
  | none :: r, h => by simp [isConcrete] at h
  | some b :: r, h => by
    simp only [isConcrete, List.all_cons, Bool.and_eq_true] at h
    simp [allSyms, allSyms_concrete r (by simpa [isConcrete] using h.2)]

/-! ### `operator<` -/

/-- the rank of a value in the coded order `0 < X < 1` -/
def rank : Val → Nat
  | some false => 0
  | none => 1
  | some true => 2

theorem cmpVal_lt (x y : Val) : cmpVal x y = .lt ↔ rank x < rank y := by
  cases x with
  | none => cases y with
    | none => simp [cmpVal, rank]
    | some b => cases b <;> simp [cmpVal, rank]
  | some a => cases a <;> cases y with
    | none => simp [cmpVal, rank]
    | some b => cases b <;> simp [cmpVal, rank]

theorem cmpVal_gt (x y : Val) : cmpVal x y = .gt ↔ rank y < rank x := by
  cases x with
  | none => cases y with
    | none => simp [cmpVal, rank]
    | some b => cases b <;> simp [cmpVal, rank]
  | some a => cases a <;> cases y with
    | none => simp [cmpVal, rank]
    | some b => cases b <;> simp [cmpVal, rank]

theorem cmpVal_eq (x y : Val) : cmpVal x y = .eq ↔ x = y := by
  cases x with
  | none => cases y with
    | none => simp [cmpVal]
    | some b => cases b <;> simp [cmpVal]
  | some a => cases a <;> cases y with
    | none => simp [cmpVal]
    | some b => cases b <;> simp [cmpVal]

theorem rank_inj {x y : Val} (h : rank x = rank y) : x = y := by
  cases x with
  | none => cases y with
    | none => rfl
    | some b => cases b <;> simp [rank] at h
  | some a => cases a <;> cases y with
    | none => simp [rank] at h
    | some b => cases b <;> simp [rank] at h <;> rfl

/-- the loop as a lexicographic comparison of ranks -/
theorem ltLoop_cons (x y : Val) (xs ys : List Val) :
    ltLoop (x :: xs) (y :: ys) = (decide (rank x < rank y) || (decide (x = y) && ltLoop xs ys)) := by
  simp only [ltLoop]
  cases h : cmpVal x y with
  | lt =>
    have := (cmpVal_lt x y).1 h
    simp [this]
  | gt =>
    have := (cmpVal_gt x y).1 h
    have hne : x ≠ y := by intro e; subst e; omega
    have : ¬ rank x < rank y := by omega
    simp [this, hne]
  | eq =>
    have := (cmpVal_eq x y).1 h
    subst this
    simp

theorem ltLoop_irrefl : ∀ (xs : List Val), ltLoop xs xs = false
  | [] => rfl
  | x :: xs => by rw [ltLoop_cons]; simp [ltLoop_irrefl xs]

theorem ltLoop_trans : ∀ (xs ys zs : List Val), ltLoop xs ys = true → ltLoop ys zs = true → ltLoop xs zs = true
  | [], _, _, h, _ => by simp [ltLoop] at h
  | _ :: _, [], _, h, _ => by simp [ltLoop] at h
  | _ :: _, _ :: _, [], _, h => by simp [ltLoop] at h
  | x :: xs, y :: ys, z :: zs, h1, h2 => by
    rw [ltLoop_cons] at h1 h2 ⊢
    simp only [Bool.or_eq_true, decide_eq_true_eq, Bool.and_eq_true] at h1 h2 ⊢
    rcases h1 with h1 | ⟨e1, h1⟩
    · rcases h2 with h2 | ⟨e2, h2⟩
      · left; omega
      · subst e2; left; exact h1
    · subst e1
      rcases h2 with h2 | ⟨e2, h2⟩
      · left; exact h2
      · subst e2; right; exact ⟨rfl, ltLoop_trans xs ys zs h1 h2⟩

theorem ltLoop_total : ∀ (xs ys : List Val), xs.length = ys.length → xs ≠ ys → ltLoop xs ys = true ∨ ltLoop ys xs = true
  | [], [], _, h => absurd rfl h
  | [], _ :: _, h, _ => by simp at h
  | _ :: _, [], h, _ => by simp at h
  | x :: xs, y :: ys, hl, hne => by
    rw [ltLoop_cons, ltLoop_cons]
    simp only [Bool.or_eq_true, decide_eq_true_eq, Bool.and_eq_true]
    by_cases hxy : x = y
    · subst hxy
      have : xs ≠ ys := by intro e; subst e; exact hne rfl
      rcases ltLoop_total xs ys (by simpa using hl) this with h | h
      · left; right; exact ⟨rfl, h⟩
      · right; right; exact ⟨rfl, h⟩
    · have : rank x ≠ rank y := fun e => hxy (rank_inj e)
      rcases Nat.lt_or_gt_of_ne this with h | h
      · left; left; exact h
      · right; left; exact h

theorem lt_irrefl (a : Asgn) : lt a a = false := by
  simp [lt, ltLoop_irrefl]

theorem lt_trans {a b c : Asgn} (h1 : lt a b = true) (h2 : lt b c = true) : lt a c = true := by
  unfold lt at *
  by_cases hab : a.length = b.length
  · by_cases hbc : b.length = c.length
    · have hac : a.length = c.length := by omega
      simp only [hab, hbc, hac, Nat.lt_irrefl, decide_false, Bool.or_self, Bool.false_eq_true, if_false] at h1 h2 ⊢
      exact ltLoop_trans _ _ _ h1 h2
    · split at h2
      · simp only [decide_eq_true_eq] at h2
        rw [if_pos (by simp; omega)]
        simp; omega
      · rename_i h; simp at h; omega
  · split at h1
    · simp only [decide_eq_true_eq] at h1
      split at h2
      · simp only [decide_eq_true_eq] at h2
        rw [if_pos (by simp; omega)]
        simp; omega
      · rename_i h; simp at h
        have : b.length = c.length := by omega
        rw [if_pos (by simp; omega)]
        simp; omega
    · rename_i h; simp at h; omega

theorem lt_asymm {a b : Asgn} (h1 : lt a b = true) : lt b a = false := by
  cases h : lt b a with
  | false => rfl
  | true => have := lt_trans h1 h; rw [lt_irrefl] at this; cases this

/-- two different assignments are comparable: `operator<` is a strict TOTAL order (usable as the order of `std::map` keys) -/
theorem lt_total {a b : Asgn} (h : a ≠ b) : lt a b = true ∨ lt b a = true := by
  unfold lt
  by_cases hl : a.length = b.length
  · simp only [hl, Nat.lt_irrefl, decide_false, Bool.or_self, Bool.false_eq_true, if_false]
    apply ltLoop_total
    · simp [hl]
    · intro e; exact h (List.reverse_inj.1 e)
  · rcases Nat.lt_or_gt_of_ne hl with h' | h'
    · left; rw [if_pos (by simp; omega)]; simp; omega
    · right; rw [if_pos (by simp; omega)]; simp; omega

/-- the number of a big-endian list of values -/
def beNum (acc : Nat) : List Val → Nat
  | [] => acc
  | v :: r => beNum (2 * acc + (if v = some true then 1 else 0)) r

theorem beNum_acc : ∀ (xs : List Val) (acc : Nat), beNum acc xs = acc * 2 ^ xs.length + beNum 0 xs
  | [], acc => by simp [beNum]
  | v :: r, acc => by
    rw [beNum, beNum_acc r, beNum, beNum_acc r (2 * 0 + _)]
    simp only [List.length_cons, Nat.pow_succ]
    rw [Nat.add_mul, Nat.add_mul, Nat.mul_zero, Nat.zero_mul, Nat.zero_add]
    rw [Nat.add_assoc, Nat.mul_comm (2 ^ r.length) 2, ← Nat.mul_assoc, Nat.mul_comm acc 2]

theorem beNum_lt : ∀ (xs : List Val), beNum 0 xs < 2 ^ xs.length
  | [] => by simp [beNum]
  | v :: r => by
    have ih := beNum_lt r
    rw [beNum, beNum_acc]
    simp only [List.length_cons, Nat.pow_succ]
    split <;> omega

theorem beNum_append_single : ∀ (l : List Val) (acc : Nat) (v : Val),
    beNum acc (l ++ [v]) = 2 * beNum acc l + (if v = some true then 1 else 0)
  | [], acc, v => by simp [beNum]
  | x :: l, acc, v => by simp only [List.cons_append, beNum, beNum_append_single l]

theorem toNum_eq_beNum : ∀ (a : Asgn), toNum a = beNum 0 a.reverse
  | [] => rfl
  | v :: r => by
    rw [List.reverse_cons, toNum, toNum_eq_beNum r, beNum_append_single]
    omega

theorem ltLoop_iff_beNum : ∀ (xs ys : List Val), xs.length = ys.length → isConcrete xs = true → isConcrete ys = true →
    (ltLoop xs ys = true ↔ beNum 0 xs < beNum 0 ys)
  | [], [], _, _, _ => by simp [ltLoop, beNum]
  | [], _ :: _, h, _, _ => by simp at h
  | _ :: _, [], h, _, _ => by simp at h
  | x :: xs, y :: ys, hl, hx, hy => by
    simp only [isConcrete, List.all_cons, Bool.and_eq_true] at hx hy
    have hl' : xs.length = ys.length := by simpa using hl
    have ih := ltLoop_iff_beNum xs ys hl' (by simpa [isConcrete] using hx.2) (by simpa [isConcrete] using hy.2)
    rw [ltLoop_cons]
    simp only [Bool.or_eq_true, decide_eq_true_eq, Bool.and_eq_true, beNum]
    rw [beNum_acc xs, beNum_acc ys, ih, hl']
    have bx := beNum_lt xs
    have by' := beNum_lt ys
    rw [hl'] at bx
    generalize beNum 0 xs = p at *
    generalize beNum 0 ys = q at *
    generalize 2 ^ ys.length = w at *
    cases x with
    | none => simp at hx
    | some bx' =>
      cases y with
      | none => simp at hy
      | some by'' =>
        cases bx' <;> cases by'' <;> simp [rank] <;> omega

/-- on concrete assignments of one length `operator<` is the order of the numbers (variable 0 least significant) -/
theorem lt_iff_toNum {a b : Asgn} (hl : a.length = b.length) (ha : isConcrete a = true) (hb : isConcrete b = true) :
    lt a b = true ↔ toNum a < toNum b := by
  unfold lt
  simp only [hl, Nat.lt_irrefl, decide_false, Bool.or_self, Bool.false_eq_true, if_false]
  rw [toNum_eq_beNum, toNum_eq_beNum]
  apply ltLoop_iff_beNum
  · simp [hl]
  · simpa [isConcrete] using ha
  · simpa [isConcrete] using hb

/-- shorter assignments come first, whatever they contain -/
theorem lt_of_length_lt {a b : Asgn} (h : a.length < b.length) : lt a b = true := by
  unfold lt; rw [if_pos (by simp; omega)]; simp; omega

end Vata.Glue
