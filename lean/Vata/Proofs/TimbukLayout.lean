import Vata.Proofs.Timbuk
/-!
# The Timbuk parser on text the serializer did not write – line level (property C13)

* a header line is judged by the WORDS `read_word` cuts out of it (`stepHeader_eq_W`): any non-empty runs of white space
  between the words, leading and trailing white space are immaterial (`stepHeader_gaps`);
* a transition line in any of the layouts `pre sym [ws ( ws k ws , ws k ws ) ] ws -> ws q post`, nullary rules with or
  without parentheses, blanks inside the empty parentheses (`stepTrans_tline`).
-/
namespace Vata.Timbuk
open Vata.T (splitDelim splitDelim_append_nodelim splitDelim_nodelim joinWith splitDelim_joinWith)

/-! ## white space that is not a line end -/

/-- white characters other than `\n`: blank, tab, `\v`, `\f`, `\r` -/
def Blank (s : Str) : Prop := ∀ c ∈ s, isSpace c = true ∧ c ≠ '\n'

theorem Blank.allWs {s : Str} (h : Blank s) : AllWs s := fun c hc => (h c hc).1
theorem Blank.noNl {s : Str} (h : Blank s) : '\n' ∉ s := fun hc => (h _ hc).2 rfl
theorem blank_nil : Blank [] := by intro c hc; cases hc

theorem isSpace_cases {c : Char} (h : isSpace c = true) :
    c = ' ' ∨ c = '\t' ∨ c = '\n' ∨ c = '\x0b' ∨ c = '\x0c' ∨ c = '\r' := by
  simp only [isSpace, Bool.or_eq_true, beq_iff_eq] at h
  rcases h with ((((h | h) | h) | h) | h) | h <;> simp [h]

/-- a white character is none of the characters the transition parser looks for -/
theorem isSpace_ne {c : Char} (h : isSpace c = true) :
    c ≠ '-' ∧ c ≠ '>' ∧ c ≠ '(' ∧ c ≠ ')' ∧ c ≠ ',' ∧ c ≠ ':' := by
  rcases isSpace_cases h with h | h | h | h | h | h <;> subst h <;> decide

theorem AllWs.not_mem {s : Str} (h : AllWs s) {c : Char} (hc : isSpace c = false) : c ∉ s := by
  intro hm; rw [h c hm] at hc; cases hc

theorem allWs_append {a b : Str} (ha : AllWs a) (hb : AllWs b) : AllWs (a ++ b) := by
  intro c hc
  rcases List.mem_append.mp hc with hc | hc
  · exact ha c hc
  · exact hb c hc

theorem noWs_append {a b : Str} (ha : NoWs a) (hb : NoWs b) : NoWs (a ++ b) := by
  intro c hc
  rcases List.mem_append.mp hc with hc | hc
  · exact ha c hc
  · exact hb c hc

theorem trim_allWs {s : Str} (h : AllWs s) : trim s = [] := by
  unfold trim
  have : trimL s = [] := dropWhile_all h
  rw [this]; rfl

theorem headWs_of_allWs {g : Str} (rest : Str) (hg : AllWs g) (hne : g ≠ []) : HeadWs (g ++ rest) := by
  intro c hc
  cases g with
  | nil => exact absurd rfl hne
  | cons a r => simp at hc; subst hc; exact hg _ List.mem_cons_self

/-! ## the word loop: only the words count -/

theorem readWord_nil : readWord [] = ([], []) := rfl

theorem readWords_nil : readWords [] = [] := by rw [readWords]

theorem readWords_eq_nil_iff (s : Str) : readWords s = [] ↔ s = [] := by
  cases s with
  | nil => simp [readWords_nil]
  | cons c r => rw [readWords]; simp

/-- the first word is the head of the word list -/
theorem readWord_fst (s : Str) : (readWord s).1 = (readWords s).headD [] := by
  cases s with
  | nil => rw [readWords_nil]; rfl
  | cons c r => rw [readWords]; rfl

/-- the words of the rest are the tail of the word list -/
theorem readWords_snd (s : Str) : readWords (readWord s).2 = (readWords s).tail := by
  cases s with
  | nil => rw [readWord_nil, readWords_nil]; rfl
  | cons c r => rw [readWords_ne (s := c :: r) (by simp)]; rfl

/-- `stepHeader` as a function of the list of words of the trimmed line -/
def stepHeaderW (st : PState) (line : Str) (ws : List Str) : Except String PState :=
  let first := ws.headD []
  if first = kwTransitions then .ok { st with areTrans := true }
  else if first = kwAutomaton then
    if st.autP then .error "parse_timbukAutomaton already parsed!"
    else if ws.tail.tail ≠ [] then .error (errUnexpected line "has")
    else .ok { st with autP := true, d := { st.d with name := ws.tail.headD [] } }
  else if first = kwOps then
    if st.opsP then .error "parse_timbukOps already parsed!"
    else
      match parseTokens ws.tail with
      | .error e => .error e
      | .ok ps => .ok { st with opsP := true, d := { st.d with symbols := setInsertAll ltSym st.d.symbols ps } }
  else if first = kwStates then
    if st.statesP then .error "parse_timbukStates already parsed!"
    else
      match parseTokens ws.tail with
      | .error e => .error e
      | .ok ps => .ok { st with statesP := true,
                                d := { st.d with states := setInsertAll ltStr st.d.states (ps.map (·.1)) } }
  else if first = kwFinal then
    if ws.tail.headD [] ≠ kwStates then .error (errUnexpected line "contains")
    else if st.finalP then .error "parse_timbukFinal States already parsed!"
    else
      match parseTokens ws.tail.tail with
      | .error e => .error e
      | .ok ps => .ok { st with finalP := true,
                                d := { st.d with final := setInsertAll ltStr st.d.final (ps.map (·.1)) } }
  else .error (errUnexpected line "contains")

/-- a header line is judged by its words alone -/
theorem stepHeader_eq_W (st : PState) (line str : Str) :
    stepHeader st line str = stepHeaderW st line (readWords str) := by
  have e1 : (readWord (readWord str).2).1 = (readWords str).tail.headD [] := by
    rw [readWord_fst, readWords_snd]
  have e2 : readWords (readWord (readWord str).2).2 = (readWords str).tail.tail := by
    rw [readWords_snd, readWords_snd]
  have e3 : ((readWord (readWord str).2).2 ≠ []) = ((readWords str).tail.tail ≠ []) := by
    rw [← e2]; simp [readWords_eq_nil_iff]
  unfold stepHeader stepHeaderW
  simp only [readWord_fst str, e1, e2, e3, readWords_snd]
  rfl

theorem stepHeader_congr (st : PState) (line : Str) {a b : Str} (h : readWords a = readWords b) :
    stepHeader st line a = stepHeader st line b := by
  rw [stepHeader_eq_W, stepHeader_eq_W, h]

/-! ## words with arbitrary gaps -/

/-- `g1 w1 g2 w2 …`: every word preceded by its gap -/
def gapCat (gws : List (Str × Str)) : Str := (gws.map (fun p => p.1 ++ p.2)).flatten

/-- the gaps are non-empty white space, the words are words -/
def GapsOk (gws : List (Str × Str)) : Prop := ∀ p ∈ gws, AllWs p.1 ∧ p.1 ≠ [] ∧ Word p.2

theorem gapCat_cons (p : Str × Str) (r : List (Str × Str)) : gapCat (p :: r) = p.1 ++ (p.2 ++ gapCat r) := by
  simp [gapCat]

theorem GapsOk.tail {p : Str × Str} {r : List (Str × Str)} (h : GapsOk (p :: r)) : GapsOk r :=
  fun x hx => h x (List.mem_cons_of_mem _ hx)

theorem gapCat_headWs {gws : List (Str × Str)} (h : GapsOk gws) : HeadWs (gapCat gws) := by
  cases gws with
  | nil => intro c hc; simp [gapCat] at hc
  | cons p r =>
    rw [gapCat_cons]
    exact headWs_of_allWs _ (h p List.mem_cons_self).1 (h p List.mem_cons_self).2.1

/-- a word followed by gap-separated words ends with a non-white character -/
theorem word_gapCat_lastOk {w : Str} (hw : Word w) : ∀ {gws : List (Str × Str)}, GapsOk gws → LastOk (w ++ gapCat gws)
  | [], _ => by simpa [gapCat] using hw.2.lastOk
  | p :: r, h => by
    have hp := h p List.mem_cons_self
    have ih := word_gapCat_lastOk hp.2.2 h.tail
    rw [gapCat_cons]
    have e : w ++ (p.1 ++ (p.2 ++ gapCat r)) = (w ++ p.1) ++ (p.2 ++ gapCat r) := by simp
    rw [e]
    exact lastOk_append (by simp [hp.2.2.1]) ih

theorem word_gapCat_headOk {w : Str} (hw : Word w) (rest : Str) : HeadOk (w ++ rest) :=
  headOk_append hw.1 hw.2.headOk

theorem readWords_word_gapCat {w : Str} (hw : Word w) :
    ∀ {gws : List (Str × Str)}, GapsOk gws → readWords (w ++ gapCat gws) = w :: gws.map (·.2)
  | [], _ => by
    have hne : w ++ gapCat [] ≠ [] := by simp [gapCat, hw.1]
    rw [readWords_ne hne]
    have : w ++ gapCat [] = w := by simp [gapCat]
    rw [this, readWord_word hw.2, readWords_nil]; rfl
  | p :: r, h => by
    have hp := h p List.mem_cons_self
    have hne : w ++ gapCat (p :: r) ≠ [] := by simp [hw.1]
    rw [readWords_ne hne, readWord_append hw.2 (gapCat_headWs h)]
    simp only
    have : trim (gapCat (p :: r)) = p.2 ++ gapCat r := by
      rw [gapCat_cons]
      have := trim_pad (pre := p.1) (post := []) (p.2 ++ gapCat r) hp.1 (by intro c hc; cases hc)
        (word_gapCat_headOk hp.2.2 _) (word_gapCat_lastOk hp.2.2 h.tail)
      simpa using this
    rw [this, readWords_word_gapCat hp.2.2 h.tail]
    rfl

/-- `pre w g1 w1 g2 w2 … post` -/
def layWords (pre w : Str) (gws : List (Str × Str)) (post : Str) : Str := pre ++ (w ++ gapCat gws) ++ post

theorem trim_layWords {pre w post : Str} {gws : List (Str × Str)} (hpre : AllWs pre) (hpost : AllWs post)
    (hw : Word w) (h : GapsOk gws) : trim (layWords pre w gws post) = w ++ gapCat gws :=
  trim_pad _ hpre hpost (word_gapCat_headOk hw _) (word_gapCat_lastOk hw h)

/-- a header line with arbitrary gaps, leading and trailing white space is treated like the words joined by single
blanks -/
theorem stepHeader_gaps (st : PState) (line : Str) {pre w post : Str} {gws : List (Str × Str)} (hpre : AllWs pre)
    (hpost : AllWs post) (hw : Word w) (h : GapsOk gws) :
    stepHeader st line (trim (layWords pre w gws post)) = stepHeader st line (joinSp (w :: gws.map (·.2))) := by
  rw [trim_layWords hpre hpost hw h]
  apply stepHeader_congr
  rw [readWords_word_gapCat hw h, readWords_joinSp]
  intro x hx
  rcases List.mem_cons.mp hx with hx | hx
  · subst hx; exact hw
  · obtain ⟨p, hp, rfl⟩ := List.mem_map.mp hx
    exact (h p hp).2.2

theorem trim_layWords_ne {pre w post : Str} {gws : List (Str × Str)} (hpre : AllWs pre) (hpost : AllWs post)
    (hw : Word w) (h : GapsOk gws) : trim (layWords pre w gws post) ≠ [] := by
  rw [trim_layWords hpre hpost hw h]; simp [hw.1]

/-- `Automaton` without a name: the name is empty -/
theorem stepHeader_aut_noname (st : PState) (line : Str) (hst : st.autP = false) :
    stepHeader st line (joinSp [kwAutomaton]) = .ok { st with autP := true, d := { st.d with name := [] } } := by
  have h1 : kwAutomaton ≠ kwTransitions := by decide
  unfold stepHeader
  have : readWord (joinSp [kwAutomaton]) = (kwAutomaton, []) := readWord_word kwAutomaton_word.2
  rw [this]
  simp only [if_neg h1, if_pos, hst, readWord_nil]
  simp

/-! ## `->` -/

/-- the first `->` of `lhs->rest` is the one after an arrow-free `lhs` -/
theorem splitArrow_first' {lhs : Str} (h : splitArrow lhs = none) (rest : Str) :
    splitArrow (lhs ++ '-' :: '>' :: rest) = some (lhs, rest) := by
  induction lhs using splitArrow.induct with
  | case1 => simp [splitArrow]
  | case2 c => simp [splitArrow]
  | case3 c c' r hc => simp [splitArrow, hc] at h
  | case4 c c' r hc h' ih =>
    have := ih h'
    simp only [List.cons_append] at this ⊢
    simp [splitArrow, hc, this]
  | case5 c c' r hc p s hr ih => simp [splitArrow, hc, hr] at h

theorem noArrow_of_no_minus {s : Str} (h : '-' ∉ s) : splitArrow s = none := by
  rw [splitArrow_none_iff]
  rintro ⟨p, q, rfl⟩
  exact h (by simp)

theorem noArrow_ws {s : Str} (h : AllWs s) : splitArrow s = none :=
  noArrow_of_no_minus (h.not_mem (by decide))

/-- white space in front keeps a text arrow-free -/
theorem noArrow_ws_append {g b : Str} (hg : AllWs g) (hb : splitArrow b = none) : splitArrow (g ++ b) = none := by
  induction g with
  | nil => exact hb
  | cons c r ih =>
    exact splitArrow_cons_sep (ih (fun x hx => hg x (List.mem_cons_of_mem _ hx)))
      (isSpace_ne (hg c List.mem_cons_self)).1

/-- white space behind keeps a text arrow-free -/
theorem noArrow_append_ws {a g : Str} (ha : splitArrow a = none) (hg : AllWs g) : splitArrow (a ++ g) = none := by
  cases g with
  | nil => simpa using ha
  | cons c r =>
    have hc := isSpace_ne (hg c List.mem_cons_self)
    exact splitArrow_sep c ha (noArrow_ws (fun x hx => hg x (List.mem_cons_of_mem _ hx))) hc.1 hc.2.1

/-! ## a transition line in free layout -/

/-- one transition line: `pre sym [afterSym ( body ) ] beforeArrow -> afterArrow par post`; `args = none`: no
parentheses (nullary only); `args = some (afterSym, inner, kids)`: `body` is `inner` (white) when there are no children,
else the children `(padL, name, padR)` joined by commas -/
structure TLine where
  pre : Str
  sym : Str
  args : Option (Str × Str × List (Str × Str × Str))
  beforeArrow : Str
  afterArrow : Str
  par : Str
  post : Str
deriving Repr

/-- the pieces between the commas -/
def TLine.pieces : Option (Str × Str × List (Str × Str × Str)) → List Str
  | none => []
  | some (_, inner, []) => [inner]
  | some (_, _, k :: ks) => (k :: ks).map (fun k => k.1 ++ k.2.1 ++ k.2.2)

/-- the part between symbol and arrow gap -/
def TLine.argStr (a : Option (Str × Str × List (Str × Str × Str))) : Str :=
  match a with
  | none => []
  | some (afterSym, _, _) => afterSym ++ '(' :: joinWith ',' (TLine.pieces a) ++ [')']

def TLine.lhs (l : TLine) : Str := l.sym ++ TLine.argStr l.args
def TLine.core (l : TLine) : Str := l.lhs ++ l.beforeArrow ++ '-' :: '>' :: l.afterArrow ++ l.par
/-- the text of the line -/
def TLine.text (l : TLine) : Str := l.pre ++ l.core ++ l.post

def TLine.kids (l : TLine) : List Str :=
  match l.args with
  | none => []
  | some (_, _, ks) => ks.map (·.2.1)

/-- the transition the line denotes -/
def TLine.trans (l : TLine) : Trans := (l.kids, l.sym, l.par)

/-- all the padding is white space without line end; the names are good -/
structure TLine.Ok (l : TLine) : Prop where
  pre : Blank l.pre
  post : Blank l.post
  beforeArrow : Blank l.beforeArrow
  afterArrow : Blank l.afterArrow
  sym : Good l.sym
  par : Good l.par
  args : ∀ a i ks, l.args = some (a, i, ks) → Blank a ∧ Blank i ∧ ∀ k ∈ ks, Blank k.1 ∧ Good k.2.1 ∧ Blank k.2.2

theorem joinWith_cons_cons (d : Char) (p q : Str) (ps : List Str) :
    joinWith d (p :: q :: ps) = p ++ d :: joinWith d (q :: ps) := rfl

theorem mem_joinWith {c d : Char} : ∀ {ps : List Str}, c ∈ joinWith d ps → c = d ∨ ∃ p ∈ ps, c ∈ p
  | [], h => by simp [joinWith] at h
  | [p], h => Or.inr ⟨p, List.mem_cons_self, h⟩
  | p :: q :: ps, h => by
    rw [joinWith_cons_cons] at h
    rcases List.mem_append.mp h with h | h
    · exact Or.inr ⟨p, List.mem_cons_self, h⟩
    · rcases List.mem_cons.mp h with h | h
      · exact Or.inl h
      · rcases mem_joinWith h with h | ⟨x, hx, h⟩
        · exact Or.inl h
        · exact Or.inr ⟨x, List.mem_cons_of_mem _ hx, h⟩

/-- arrow-free pieces joined by commas and closed by `)` and white space are arrow-free -/
theorem noArrow_joinWith_close {tail : Str} (ht : splitArrow tail = none) :
    ∀ {ps : List Str}, ps ≠ [] → (∀ p ∈ ps, splitArrow p = none) → splitArrow (joinWith ',' ps ++ ')' :: tail) = none
  | [], h, _ => absurd rfl h
  | [p], _, hp => splitArrow_sep ')' (hp p List.mem_cons_self) ht (by decide) (by decide)
  | p :: q :: ps, _, hp => by
    rw [joinWith_cons_cons]
    have ih := noArrow_joinWith_close ht (ps := q :: ps) (by simp) (fun x hx => hp x (List.mem_cons_of_mem _ hx))
    have : p ++ ',' :: joinWith ',' (q :: ps) ++ ')' :: tail = p ++ ',' :: (joinWith ',' (q :: ps) ++ ')' :: tail) := by
      simp
    rw [this]
    exact splitArrow_sep ',' (hp p List.mem_cons_self) ih (by decide) (by decide)

/-- what is known about the pieces of a well laid out line -/
theorem TLine.pieces_spec {a i : Str} {ks : List (Str × Str × Str)}
    (h : Blank a ∧ Blank i ∧ ∀ k ∈ ks, Blank k.1 ∧ Good k.2.1 ∧ Blank k.2.2) :
    TLine.pieces (some (a, i, ks)) ≠ [] ∧
    (∀ p ∈ TLine.pieces (some (a, i, ks)), splitArrow p = none ∧ ',' ∉ p ∧ ')' ∉ p ∧ '\n' ∉ p) ∧
    (TLine.pieces (some (a, i, ks))).map trim = (if ks = [] then [[]] else ks.map (·.2.1)) := by
  obtain ⟨_, hi, hk⟩ := h
  cases ks with
  | nil =>
    refine ⟨by simp [TLine.pieces], ?_, ?_⟩
    · intro p hp
      simp only [TLine.pieces, List.mem_singleton] at hp
      subst hp
      exact ⟨noArrow_ws hi.allWs, hi.allWs.not_mem (by decide), hi.allWs.not_mem (by decide), hi.noNl⟩
    · simp [TLine.pieces, trim_allWs hi.allWs]
  | cons k ks =>
    refine ⟨by simp [TLine.pieces], ?_, ?_⟩
    · intro p hp
      simp only [TLine.pieces] at hp
      obtain ⟨x, hx, rfl⟩ := List.mem_map.mp hp
      obtain ⟨h1, h2, h3⟩ := hk x hx
      refine ⟨noArrow_append_ws (noArrow_ws_append h1.allWs h2.noArrow) h3.allWs, ?_, ?_, ?_⟩
      · intro hc
        simp only [List.mem_append] at hc
        rcases hc with (hc | hc) | hc
        · exact h1.allWs.not_mem (by decide) hc
        · exact h2.noComma hc
        · exact h3.allWs.not_mem (by decide) hc
      · intro hc
        simp only [List.mem_append] at hc
        rcases hc with (hc | hc) | hc
        · exact h1.allWs.not_mem (by decide) hc
        · exact h2.noRP hc
        · exact h3.allWs.not_mem (by decide) hc
      · intro hc
        simp only [List.mem_append] at hc
        rcases hc with (hc | hc) | hc
        · exact h1.noNl hc
        · exact nl_not_noWs h2.noWs hc
        · exact h3.noNl hc
    · have : ∀ (l : List (Str × Str × Str)), (∀ k ∈ l, Blank k.1 ∧ Good k.2.1 ∧ Blank k.2.2) →
          (l.map (fun k => k.1 ++ k.2.1 ++ k.2.2)).map trim = l.map (·.2.1) := by
        intro l hl
        induction l with
        | nil => rfl
        | cons x xs ih =>
          obtain ⟨h1, h2, h3⟩ := hl x List.mem_cons_self
          simp only [List.map_cons, trim_pad _ h1.allWs h3.allWs h2.noWs.headOk h2.noWs.lastOk,
            ih (fun y hy => hl y (List.mem_cons_of_mem _ hy))]
      simp only [TLine.pieces]
      rw [this _ hk]
      simp

theorem TLine.lhs_noArrow {l : TLine} (h : l.Ok) : splitArrow (l.lhs ++ l.beforeArrow) = none := by
  unfold TLine.lhs
  cases ha : l.args with
  | none =>
    simp only [TLine.argStr, List.append_nil]
    exact noArrow_append_ws h.sym.noArrow h.beforeArrow.allWs
  | some x =>
    obtain ⟨a, i, ks⟩ := x
    have hx := h.args a i ks ha
    obtain ⟨hne, hp, _⟩ := TLine.pieces_spec hx
    have e : l.sym ++ TLine.argStr (some (a, i, ks)) ++ l.beforeArrow =
        (l.sym ++ a) ++ '(' :: (joinWith ',' (TLine.pieces (some (a, i, ks))) ++ ')' :: l.beforeArrow) := by
      simp [TLine.argStr]
    rw [e]
    exact splitArrow_sep '(' (noArrow_append_ws h.sym.noArrow hx.1.allWs)
      (noArrow_joinWith_close (noArrow_ws h.beforeArrow.allWs) hne (fun p hp' => (hp p hp').1)) (by decide) (by decide)

theorem TLine.lhs_headOk {l : TLine} (h : l.Ok) (rest : Str) : HeadOk (l.lhs ++ rest) := by
  unfold TLine.lhs
  rw [List.append_assoc]
  exact headOk_append h.sym.ne h.sym.noWs.headOk

theorem TLine.lhs_lastOk {l : TLine} (h : l.Ok) : LastOk l.lhs := by
  unfold TLine.lhs
  cases ha : l.args with
  | none => simpa [TLine.argStr] using h.sym.noWs.lastOk
  | some x =>
    obtain ⟨a, i, ks⟩ := x
    have e : l.sym ++ TLine.argStr (some (a, i, ks)) =
        (l.sym ++ a ++ '(' :: joinWith ',' (TLine.pieces (some (a, i, ks)))) ++ [')'] := by
      simp [TLine.argStr]
    rw [e]
    exact lastOk_append (by simp) (by intro c hc; simp at hc; subst hc; decide)

theorem TLine.trim_text {l : TLine} (h : l.Ok) : trim l.text = l.core := by
  unfold TLine.text
  refine trim_pad _ h.pre.allWs h.post.allWs ?_ ?_
  · unfold TLine.core
    simp only [List.append_assoc]
    exact TLine.lhs_headOk h _
  · unfold TLine.core
    have e : l.lhs ++ l.beforeArrow ++ '-' :: '>' :: l.afterArrow ++ l.par =
        (l.lhs ++ l.beforeArrow ++ '-' :: '>' :: l.afterArrow) ++ l.par := by simp
    rw [e]
    exact lastOk_append h.par.ne h.par.noWs.lastOk

theorem TLine.core_ne {l : TLine} : l.core ≠ [] := by
  unfold TLine.core; simp

/-- the analysis of the left-hand side of a line in free layout -/
theorem stepLhs_tline (st : PState) (line : Str) {l : TLine} (h : l.Ok) :
    stepLhs st line l.lhs l.par = .ok (addTrans st l.trans) := by
  cases ha : l.args with
  | none =>
    have e : l.lhs = l.sym := by simp [TLine.lhs, ha, TLine.argStr]
    have e' : l.trans = ([], l.sym, l.par) := by simp [TLine.trans, TLine.kids, ha]
    rw [e, e']
    exact stepLhs_leaf st line h.sym
  | some x =>
    obtain ⟨a, i, ks⟩ := x
    have hx := h.args a i ks ha
    obtain ⟨hne, hp, htrim⟩ := TLine.pieces_spec hx
    have hs := h.sym
    have hrp : ')' ∉ joinWith ',' (TLine.pieces (some (a, i, ks))) := by
      intro hc
      rcases mem_joinWith hc with hc | ⟨p, hp', hc⟩
      · revert hc; decide
      · exact (hp p hp').2.2.1 hc
    have hlpA : '(' ∉ l.sym ++ a := by
      intro hc
      rcases List.mem_append.mp hc with hc | hc
      · exact hs.noLP hc
      · exact hx.1.allWs.not_mem (by decide) hc
    have hrpA : ')' ∉ l.sym ++ a := by
      intro hc
      rcases List.mem_append.mp hc with hc | hc
      · exact hs.noRP hc
      · exact hx.1.allWs.not_mem (by decide) hc
    have elhs : l.lhs = (l.sym ++ a) ++ '(' :: (joinWith ',' (TLine.pieces (some (a, i, ks))) ++ [')']) := by
      simp [TLine.lhs, ha, TLine.argStr]
    have e1 : l.lhs.dropWhile (fun c => c != '(') = '(' :: (joinWith ',' (TLine.pieces (some (a, i, ks))) ++ [')']) := by
      rw [elhs, List.dropWhile_append_of_pos (ne_colon_all hlpA), List.dropWhile_cons_of_neg (by simp)]
    have e2 : l.lhs.takeWhile (fun c => c != '(') = l.sym ++ a := by
      rw [elhs, List.takeWhile_append_of_pos (ne_colon_all hlpA), List.takeWhile_cons_of_neg (by simp), List.append_nil]
    have e3 : (joinWith ',' (TLine.pieces (some (a, i, ks))) ++ [')']).dropWhile (fun c => c != ')') = [')'] := by
      rw [List.dropWhile_append_of_pos (ne_colon_all hrp), List.dropWhile_cons_of_neg (by simp)]
    have e4 : (joinWith ',' (TLine.pieces (some (a, i, ks))) ++ [')']).takeWhile (fun c => c != ')') =
        joinWith ',' (TLine.pieces (some (a, i, ks))) := by
      rw [List.takeWhile_append_of_pos (ne_colon_all hrp), List.takeWhile_cons_of_neg (by simp), List.append_nil]
    have e5 : (splitDelim ',' (joinWith ',' (TLine.pieces (some (a, i, ks))))).map trim =
        (if ks = [] then [[]] else ks.map (·.2.1)) := by
      rw [splitDelim_joinWith ',' _ hne (fun p hp' => (hp p hp').2.1), htrim]
    have e6 : trim (l.sym ++ a) = l.sym := by
      have := trim_pad (pre := []) (post := a) l.sym (by intro c hc; cases hc) hx.1.allWs hs.noWs.headOk hs.noWs.lastOk
      simpa using this
    have e7 : l.sym.isEmpty = false := by simpa using hs.ne
    have e8 : (if ks = [] then [[]] else ks.map (·.2.1)).any containsWs = false := by
      split
      · decide
      · rw [List.any_eq_false]
        intro x hx'
        obtain ⟨k, hk, rfl⟩ := List.mem_map.mp hx'
        simp [containsWs_noWs (hx.2.2 k hk).2.1.noWs]
    have e9 : (if (if ks = [] then [[]] else ks.map (·.2.1)) = [[]] then [] else
        (if ks = [] then [[]] else ks.map (·.2.1))) = ks.map (·.2.1) := by
      cases ks with
      | nil => simp
      | cons k ks' =>
        have : (k.2.1 :: ks'.map (·.2.1)) ≠ [[]] := by
          intro hh
          exact (hx.2.2 k List.mem_cons_self).2.1.ne (List.cons.inj hh).1
        simp [this]
    have e' : l.trans = (ks.map (·.2.1), l.sym, l.par) := by simp [TLine.trans, TLine.kids, ha]
    unfold stepLhs
    simp only [e1, e2, e3, e4, e5, e6, e7, e8, contains_false hrpA]
    simp only [e9, e']
    simp

/-- **a transition line in free layout inserts the transition it denotes** -/
theorem stepTrans_tline (st : PState) (line : Str) {l : TLine} (h : l.Ok) :
    stepTrans st line (trim l.text) = .ok (addTrans st l.trans) := by
  rw [TLine.trim_text h]
  unfold stepTrans TLine.core
  have e : l.lhs ++ l.beforeArrow ++ '-' :: '>' :: l.afterArrow ++ l.par =
      (l.lhs ++ l.beforeArrow) ++ '-' :: '>' :: (l.afterArrow ++ l.par) := by simp
  rw [e, splitArrow_first' (TLine.lhs_noArrow h)]
  have t1 : trim (l.lhs ++ l.beforeArrow) = l.lhs := by
    have := trim_pad (pre := []) (post := l.beforeArrow) l.lhs (by intro c hc; cases hc) h.beforeArrow.allWs
      (by simpa using TLine.lhs_headOk h []) (TLine.lhs_lastOk h)
    simpa using this
  have t2 : trim (l.afterArrow ++ l.par) = l.par := by
    have := trim_pad (pre := l.afterArrow) (post := []) l.par h.afterArrow.allWs (by intro c hc; cases hc)
      h.par.noWs.headOk h.par.noWs.lastOk
    simpa using this
  simp only [t1, t2, containsWs_noWs h.par.noWs]
  have : l.par.isEmpty = false := by simpa using h.par.ne
  simp only [this, Bool.or_false, Bool.false_eq_true, if_false]
  exact stepLhs_tline st line h

/-- a well laid out transition line contains no line end -/
theorem TLine.text_noNl {l : TLine} (h : l.Ok) : '\n' ∉ l.text := by
  have hargs : '\n' ∉ TLine.argStr l.args := by
    cases ha : l.args with
    | none => simp [TLine.argStr]
    | some x =>
      obtain ⟨a, i, ks⟩ := x
      have hx := h.args a i ks ha
      obtain ⟨_, hp, _⟩ := TLine.pieces_spec hx
      intro hc
      simp only [TLine.argStr, List.mem_append, List.mem_cons] at hc
      rcases hc with (hc | hc | hc) | hc
      · exact hx.1.noNl hc
      · revert hc; decide
      · rcases mem_joinWith hc with hc | ⟨p, hp', hc⟩
        · revert hc; decide
        · exact (hp p hp').2.2.2 hc
      · revert hc; decide
  intro hc
  simp only [TLine.text, TLine.core, TLine.lhs, List.append_assoc, List.cons_append, List.mem_append,
    List.mem_cons] at hc
  rcases hc with hc | hc | hc | hc | hc | hc | hc | hc | hc
  · exact h.pre.noNl hc
  · exact nl_not_noWs h.sym.noWs hc
  · exact hargs hc
  · exact h.beforeArrow.noNl hc
  · revert hc; decide
  · revert hc; decide
  · exact h.afterArrow.noNl hc
  · exact nl_not_noWs h.par.noWs hc
  · exact h.post.noNl hc

end Vata.Timbuk
