import Vata.Proofs.InclDownTablesClass2Lift
/-!
# The relative-completeness invariant of the downward exploration (identity preorder; property C07)

`GI A B ws cc st` – the invariant of one functor with the pending calls `ws`:

* `Inv` of `Vata/Proofs/InclDownInv.lean` (what `childrenCache` covers is subsumed by `trues ++ ws`, every pair of `trues` is closed
  relative to `trues ++ ws`, every entry of `nonincluded` carries a separating tree);
* **relative completeness**: no entry of `nonincluded` implies a pair that is subsumed by `trues ++ ws` (a pair concluded `true`
  under the pending calls is never implied by an entry of `nonincluded`);
* no pair of `trues ++ ws` has an empty right-hand set (the functor never calls `expand` with an empty set).

`LeI` – "later": what `childrenCache` covers stays covered, what `nonincluded` implies stays implied, `trues` grows.

`body_nofail`: when the pair `(x, X)` is subsumed by a CLOSED pair `(x, S')`, `S' ⊆ X`, the body of the call for `(x, X)` cannot
fail, provided the recursive calls do not fail on subsumed pairs (`RCall`) – the induction step of relative completeness.  The
paper argument: a failing choice function of `(x, X)` restricts to a choice function of `(x, S')`, which has a subsumed position;
the call for that position is a call on a subsumed pair.
-/
namespace Vata
namespace InclDownTables
open M BddAbs BddAbsTD BddTraverse InclDown
open InclUp (normS prodWit Wit)

/-! ### the tests of the functor for the identity preorder -/

theorem setLe_id {P' P : List Nat} : setLe idOrd P' P = true ↔ ∀ s, s ∈ P' → s ∈ P := by
  simp [setLe, idOrd]

theorem covers_id {X : List Pair} {p : Nat} {P : List Nat} : covers idOrd X p P = true ↔ Sub X p P := by
  simp only [covers, List.any_eq_true, Bool.and_eq_true, setLe_id]
  constructor
  · rintro ⟨x, hx, h1, h2⟩
    have : p = x.1 := by simpa [idOrd] using h1
    exact ⟨x.2, by rw [this]; exact hx, h2⟩
  · rintro ⟨S', hx, h⟩
    exact ⟨(p, S'), hx, by simp [idOrd], h⟩

theorem byPre_id (p : Nat) (P : List Nat) : byPre idOrd p P = false := by
  simp [byPre, idOrd]

/-- `isNoninclusionImplied` -/
def Impl (ni : List (Nat × List Nat × Tree)) (p : Nat) (P : List Nat) : Prop :=
  ∃ e, e ∈ ni ∧ e.1 = p ∧ ∀ s, s ∈ P → s ∈ e.2.1

theorem niFind_isSome_iff {ni : List (Nat × List Nat × Tree)} {p : Nat} {P : List Nat} :
    (niFind idOrd ni p P).isSome = true ↔ Impl ni p P := by
  unfold niFind Impl
  rw [List.find?_isSome]
  constructor
  · rintro ⟨e, he, h⟩
    simp only [Bool.and_eq_true, setLe_id] at h
    exact ⟨e, he, by simpa [idOrd] using h.1, h.2⟩
  · rintro ⟨e, he, h1, h2⟩
    refine ⟨e, he, ?_⟩
    simp only [Bool.and_eq_true, setLe_id]
    exact ⟨by simp [idOrd, h1], h2⟩

theorem niFind_none_iff {ni : List (Nat × List Nat × Tree)} {p : Nat} {P : List Nat} :
    niFind idOrd ni p P = none ↔ ¬ Impl ni p P := by
  rw [← niFind_isSome_iff]
  cases niFind idOrd ni p P <;> simp

theorem sub_mono {X X' : List Pair} {k : Nat} {S S' : List Nat} (hX : ∀ x, x ∈ X → x ∈ X') (hS : ∀ s, s ∈ S → s ∈ S')
    (h : Sub X k S) : Sub X' k S' := by
  obtain ⟨S0, h1, h2⟩ := h
  exact ⟨S0, hX _ h1, fun s hs => hS s (h2 s hs)⟩

theorem sub_ccAdd_mono {cc : List Pair} {p x : Nat} {P X : List Nat} (h : Sub cc x X) : Sub (ccAdd idOrd cc p P) x X := by
  unfold ccAdd
  split
  · exact h
  · obtain ⟨S0, h1, h2⟩ := h
    by_cases hk : (idOrd.leA (x, S0).1 p && setLe idOrd P (x, S0).2) = true
    · simp only [Bool.and_eq_true, setLe_id] at hk
      have hx : x = p := by simpa [idOrd] using hk.1
      exact ⟨P, by rw [hx]; exact List.mem_append_right _ List.mem_cons_self, fun s hs => h2 s (hk.2 s hs)⟩
    · exact ⟨S0, List.mem_append_left _ (List.mem_filter.mpr ⟨h1, by
        cases hb : (idOrd.leA (x, S0).1 p && setLe idOrd P (x, S0).2) with
        | true => exact absurd hb hk
        | false => rfl⟩), h2⟩

theorem sub_ccAdd_self (cc : List Pair) (p : Nat) (P : List Nat) : Sub (ccAdd idOrd cc p P) p P := by
  unfold ccAdd
  split
  · next h => exact covers_id.mp h
  · exact ⟨P, List.mem_append_right _ List.mem_cons_self, fun s hs => hs⟩

theorem impl_niAdd_mono {ni : List (Nat × List Nat × Tree)} {p x : Nat} {P X : List Nat} {w : Tree} (h : Impl ni x X) :
    Impl (niAdd idOrd ni p P w) x X := by
  unfold niAdd
  split
  · exact h
  · obtain ⟨e, h1, h2, h3⟩ := h
    by_cases hk : (idOrd.leA p e.1 && setLe idOrd e.2.1 P) = true
    · simp only [Bool.and_eq_true, setLe_id] at hk
      have hx : p = e.1 := by simpa [idOrd] using hk.1
      exact ⟨(p, P, w), List.mem_append_right _ List.mem_cons_self, by rw [hx, h2], fun s hs => hk.2 s (h3 s hs)⟩
    · exact ⟨e, List.mem_append_left _ (List.mem_filter.mpr ⟨h1, by
        cases hb : (idOrd.leA p e.1 && setLe idOrd e.2.1 P) with
        | true => exact absurd hb hk
        | false => rfl⟩), h2, h3⟩

theorem impl_niAdd_self (ni : List (Nat × List Nat × Tree)) (p : Nat) (P : List Nat) (w : Tree) :
    Impl (niAdd idOrd ni p P w) p P := by
  unfold niAdd
  split
  · next h => exact niFind_isSome_iff.mp h
  · exact ⟨(p, P, w), List.mem_append_right _ List.mem_cons_self, rfl, fun s hs => hs⟩

/-! ### the invariant and the order -/

/-- the invariant of one functor (pending calls `ws`) -/
def GI (A B : Vata.TA) (ws cc : List Pair) (st : St) : Prop :=
  Inv idOrd A B ws cc st ∧ (∀ x X, Sub (st.trues ++ ws) x X → ¬ Impl st.nonIncl x X) ∧
    (∀ t, t ∈ st.trues ++ ws → t.2 ≠ [])

/-- later in the life of the functor -/
def LeI (cc : List Pair) (st : St) (cc' : List Pair) (st' : St) : Prop :=
  (∀ x X, Sub cc x X → Sub cc' x X) ∧ (∀ x X, Impl st.nonIncl x X → Impl st'.nonIncl x X) ∧
    (∀ t, t ∈ st.trues → t ∈ st'.trues)

def frameI (A B : Vata.TA) (ws : List Pair) : Frame where
  G := GI A B ws
  Le := LeI
  refl := fun _ _ => ⟨fun _ _ h => h, fun _ _ h => h, fun _ h => h⟩
  trans := fun h1 h2 => ⟨fun x X h => h2.1 x X (h1.1 x X h), fun x X h => h2.2.1 x X (h1.2.1 x X h),
    fun t h => h2.2.2 t (h1.2.2 t h)⟩

/-- relative completeness of the calls: a call for a pair subsumed by `trues ++ ws` does not fail -/
def RCall (A B : Vata.TA) (ws : List Pair) (call : Call) : Prop :=
  ∀ y Y cc st, Y ≠ [] → GI A B ws cc st → Sub (st.trues ++ ws) y Y → ∀ w c' s', call cc st y Y ≠ some (.fails w, c', s')

/-- a step does not fail -/
def NoFail (F : List Pair → St → Ret) (cc : List Pair) (st : St) : Prop := ∀ w c' s', F cc st ≠ some (.fails w, c', s')

/-- `Good` for one function: the agreement part is trivial -/
abbrev Good1 (Φ : Frame) {α : Type} (R : α → α → Prop) (F : Step α) : Prop := Good Φ R F F F

/-! ### the loops do not fail -/

theorem nofail_forAllL {Φ : Frame} {α : Type} {f : α → List Pair → St → Ret} (cc0 : List Pair) (st0 : St) :
    ∀ (l : List α), (∀ a, a ∈ l → Good1 Φ sameKind (f a)) →
      (∀ a, a ∈ l → ∀ cc st, Φ.G cc st → Φ.Le cc0 st0 cc st → NoFail (f a) cc st) →
      ∀ cc st, Φ.G cc st → Φ.Le cc0 st0 cc st → NoFail (forAllL f l) cc st
  | [], _, _, cc, st, _, _ => by
    intro w c' s' h
    simp [forAllL] at h
  | a :: l, hg, hn, cc, st, hG, hle => by
    intro w c' s' h
    simp only [forAllL] at h
    cases hr : f a cc st with
    | none => rw [hr] at h; cases h
    | some r =>
      obtain ⟨v1, cc1, st1⟩ := r
      rw [hr] at h
      cases v1 with
      | fails w1 => exact hn a List.mem_cons_self cc st hG hle w1 cc1 st1 hr
      | holds =>
        simp only [] at h
        obtain ⟨g1, l1, _⟩ := (hg a List.mem_cons_self cc st hG).2 _ _ _ hr
        exact nofail_forAllL cc0 st0 l (fun b hb => hg b (List.mem_cons_of_mem _ hb))
          (fun b hb => hn b (List.mem_cons_of_mem _ hb)) cc1 st1 g1 (Φ.trans hle l1) w c' s' h

theorem nofail_cfAll {Φ : Frame} {one : List Nat → List Pair → St → Ret} (n : Nat) (cc0 : List Pair) (st0 : St)
    (hg : ∀ cs, Good1 Φ sameKind (one cs)) :
    ∀ (m : Nat) (cs : List Nat),
      (∀ cs', cs'.length = m → (∀ c, c ∈ cs' → c < n) → ∀ cc st, Φ.G cc st → Φ.Le cc0 st0 cc st →
        NoFail (one (cs' ++ cs)) cc st) →
      ∀ cc st, Φ.G cc st → Φ.Le cc0 st0 cc st → NoFail (cfAll one n m cs) cc st
  | 0, cs, H, cc, st, hG, hle => by
    have := H [] rfl (fun c hc => by cases hc) cc st hG hle
    simpa [cfAll] using this
  | m+1, cs, H, cc, st, hG, hle => by
    show NoFail (forAllL (fun i cc st => cfAll one n m (i :: cs) cc st) (List.range n)) cc st
    refine nofail_forAllL cc0 st0 _ (fun i _ => good_cfAll n hg m (i :: cs)) ?_ cc st hG hle
    intro i hi cc1 st1 hG1 hle1
    refine nofail_cfAll n cc0 st0 hg m (i :: cs) ?_ cc1 st1 hG1 hle1
    intro cs' hl hlt cc2 st2 hG2 hle2
    have := H (cs' ++ [i]) (by simp [hl]) (fun c hc => by
      rcases List.mem_append.mp hc with h | h
      · exact hlt c h
      · rw [List.mem_singleton.mp h]; exact List.mem_range.mp hi) cc2 st2 hG2 hle2
    simpa using this

/-! ### one choice function with a subsumed position does not fail -/

theorem tryPos_nofail {A B : Vata.TA} {ws : List Pair} {call : Call} (hc : CallGood (frameI A B ws) call call call)
    (hrc : RCall A B ws call) (wit : Wit) (W : List (List Nat)) (cs : List Nat) (T0 : List Pair) :
    ∀ (ls : List Nat) (i : Nat) (cc : List Pair) (st : St), GI A B ws cc st → (∀ t, t ∈ T0 → t ∈ st.trues) →
      (∃ j k, ls[j]? = some k ∧ Sub (T0 ++ ws) k (rawSet W cs (i + j))) →
      ∀ ts c' s', tryPos call wit normS W cs i ls cc st ≠ some (some ts, c', s')
  | [], i, cc, st, _, _, ⟨j, k, hk, _⟩ => by simp at hk
  | l :: ls, i, cc, st, hG, hT, ⟨j, k, hk, hs⟩ => by
    intro ts c' s' h
    simp only [tryPos] at h
    cases j with
    | zero =>
      simp only [List.getElem?_cons_zero, Option.some.injEq] at hk
      subst hk
      rw [Nat.add_zero] at hs
      have hs' : Sub (st.trues ++ ws) l (posSet normS W cs i) :=
        sub_mono (app_mono hT) (fun s hs => InclUp.mem_normS.mpr hs) hs
      have hne : posSet normS W cs i ≠ [] := by
        obtain ⟨S0, h1, h2⟩ := hs'
        have hne0 := hG.2.2 _ h1
        obtain ⟨s, hs0⟩ := List.exists_mem_of_ne_nil _ hne0
        exact List.ne_nil_of_mem (h2 s hs0)
      have hS : ¬ (posSet normS W cs i).isEmpty = true := by
        intro h0; exact hne (List.isEmpty_iff.mp h0)
      rw [if_neg hS] at h
      cases hr : call cc st l (posSet normS W cs i) with
      | none => rw [hr] at h; cases h
      | some r =>
        obtain ⟨v1, cc1, st1⟩ := r
        rw [hr] at h
        cases v1 with
        | holds => simp at h
        | fails w => exact hrc l _ cc st hne hG hs' w cc1 st1 hr
    | succ j =>
      simp only [List.getElem?_cons_succ] at hk
      have hs2 : Sub (T0 ++ ws) k (rawSet W cs (i + 1 + j)) := by
        have : i + (j + 1) = i + 1 + j := by omega
        rw [this] at hs; exact hs
      by_cases hS : (posSet normS W cs i).isEmpty = true
      · rw [if_pos hS] at h
        rcases consT_some h with ⟨_, h2⟩ | ⟨ts', h1, _⟩
        · cases h2
        · exact tryPos_nofail hc hrc wit W cs T0 ls (i + 1) cc st hG hT ⟨j, k, hk, hs2⟩ ts' c' s' h1
      · rw [if_neg hS] at h
        have hne : posSet normS W cs i ≠ [] := by
          intro h0; rw [h0] at hS; exact hS rfl
        cases hr : call cc st l (posSet normS W cs i) with
        | none => rw [hr] at h; cases h
        | some r =>
          obtain ⟨v1, cc1, st1⟩ := r
          rw [hr] at h
          cases v1 with
          | holds => simp at h
          | fails w =>
            simp only [] at h
            obtain ⟨g1, l1, _⟩ := (hc l _ hne cc st hG).2 _ _ _ hr
            rcases consT_some h with ⟨_, h2⟩ | ⟨ts', h1, _⟩
            · cases h2
            · exact tryPos_nofail hc hrc wit W cs T0 ls (i + 1) cc1 st1 g1 (fun t ht => l1.2.2 t (hT t ht))
                ⟨j, k, hk, hs2⟩ ts' c' s' h1

theorem oneCf_nofail {A B : Vata.TA} {ws : List Pair} {call : Call} (hc : CallGood (frameI A B ws) call call call)
    (hrc : RCall A B ws call) (wit : Wit) (f : Nat) (lhs : List Nat) (W : List (List Nat)) (cs : List Nat) (T0 : List Pair)
    (cc : List Pair) (st : St) (hG : GI A B ws cc st) (hT : ∀ t, t ∈ T0 → t ∈ st.trues)
    (hpos : ∃ j k, lhs[j]? = some k ∧ Sub (T0 ++ ws) k (rawSet W cs j)) :
    NoFail (oneCf call wit normS f lhs W cs) cc st := by
  intro w c' s' h
  unfold oneCf at h
  split at h
  · cases h
  · next ts cc1 st1 heq =>
    obtain ⟨j, k, hk, hs⟩ := hpos
    exact tryPos_nofail hc hrc wit W cs T0 lhs 0 cc st hG hT ⟨j, k, hk, by rw [Nat.zero_add]; exact hs⟩ ts cc1 st1 heq
  · cases h

/-! ### from the closure condition of the subsuming pair to the choice functions of the call -/

/-- the choice function on rules that a choice function on the tuple list `W` induces -/
def cfOf (W : List (List Nat)) (cs : List Nat) (σ : Rule) : Nat :=
  (((W.zip cs).find? (fun wc => wc.1 == σ.kids)).map (·.2)).getD 0

theorem zip_snd_mem : ∀ {W : List (List Nat)} {cs : List Nat} {wc : List Nat × Nat}, wc ∈ W.zip cs → wc.2 ∈ cs
  | [], _, _, h => by simp at h
  | _ :: _, [], _, h => by simp at h
  | w :: W, c :: cs, wc, h => by
    simp only [List.zip_cons_cons, List.mem_cons] at h
    rcases h with h | h
    · rw [h]; exact List.mem_cons_self
    · exact List.mem_cons_of_mem _ (zip_snd_mem h)

theorem cfOf_lt {W : List (List Nat)} {cs : List Nat} {n : Nat} (hn : 0 < n) (hcs : ∀ c, c ∈ cs → c < n) (σ : Rule) :
    cfOf W cs σ < n := by
  unfold cfOf
  cases hf : (W.zip cs).find? (fun wc => wc.1 == σ.kids) with
  | none => simpa using hn
  | some wc =>
    simp only [Option.map_some, Option.getD_some]
    exact hcs _ (zip_snd_mem (List.mem_of_find?_eq_some hf))

theorem cfOf_zip {W : List (List Nat)} {cs : List Nat} (hl : cs.length = W.length) {σ : Rule} (hσ : σ.kids ∈ W) :
    (σ.kids, cfOf W cs σ) ∈ W.zip cs := by
  obtain ⟨c, hc, _⟩ := zip_mem_of_length hσ hl
  unfold cfOf
  cases hf : (W.zip cs).find? (fun wc => wc.1 == σ.kids) with
  | none =>
    have := List.find?_eq_none.mp hf _ hc
    simp at this
  | some wc =>
    have h1 := List.mem_of_find?_eq_some hf
    have h2 := List.find?_some hf
    simp only [beq_iff_eq] at h2
    simp only [Option.map_some, Option.getD_some]
    rw [← h2]
    exact h1

theorem rulesOf_mono {B : Vata.TA} {S' X : List Nat} {f n : Nat} (h : ∀ s, s ∈ S' → s ∈ X) {σ : Rule}
    (hσ : σ ∈ rulesOf B S' f n) : σ ∈ rulesOf B X f n := by
  obtain ⟨h1, h2, h3, h4⟩ := mem_rulesOf.mp hσ
  exact mem_rulesOf.mpr ⟨h1, h _ h2, h3, h4⟩

/-- a closed pair `(x, S')`, `S' ⊆ X`: every choice function on the tuples of `X` has a subsumed position -/
theorem pos_of_closed {A B : Vata.TA} {T : List Pair} {x : Nat} {S' X : List Nat} (hsub : ∀ s, s ∈ S' → s ∈ X)
    (hcl : ClosedAt idOrd A B T (x, S')) {ρ : Rule} (hρ : ρ ∈ A.rules) (hp : ρ.parent = x) (hn : 0 < ρ.kids.length)
    {cs : List Nat} (hl : cs.length = (rhsTuples B X ρ.sym ρ.kids.length).length) (hcs : ∀ c, c ∈ cs → c < ρ.kids.length) :
    ∃ j k, ρ.kids[j]? = some k ∧ Sub T k (rawSet (rhsTuples B X ρ.sym ρ.kids.length) cs j) := by
  obtain ⟨i, k, hk, hs⟩ := hcl ρ hρ hp (cfOf (rhsTuples B X ρ.sym ρ.kids.length) cs) (fun r _ => cfOf_lt hn hcs r)
  refine ⟨i, k, hk, sub_mono (fun _ h => h) ?_ (subR_id_iff.mp hs)⟩
  intro s hs'
  obtain ⟨σ, hσ, hcσ, hget⟩ := mem_sset.mp hs'
  have hσX := rulesOf_mono hsub hσ
  have hW : σ.kids ∈ rhsTuples B X ρ.sym ρ.kids.length := mem_rhsTuples.mpr ⟨σ, hσX, rfl⟩
  have := cfOf_zip hl hW
  exact mem_rawSet.mpr ⟨σ.kids, _, this, hcσ, hget⟩

/-- the tuples of `X` for a group of a closed pair are not empty -/
theorem rhs_ne_of_closed {A B : Vata.TA} {T : List Pair} {x : Nat} {S' X : List Nat} (hsub : ∀ s, s ∈ S' → s ∈ X)
    (hcl : ClosedAt idOrd A B T (x, S')) (hne : ∀ t, t ∈ T → t.2 ≠ []) {ρ : Rule} (hρ : ρ ∈ A.rules) (hp : ρ.parent = x) :
    rhsTuples B X ρ.sym ρ.kids.length ≠ [] := by
  have hex : ∃ σ, σ ∈ rulesOf B S' ρ.sym ρ.kids.length := by
    cases hR : rulesOf B S' ρ.sym ρ.kids.length with
    | cons σ R => exact ⟨σ, List.mem_cons_self⟩
    | nil =>
      exfalso
      have hcl' := hcl ρ hρ hp (fun _ => 0) (fun r hr => by rw [hR] at hr; cases hr)
      obtain ⟨i, k, _, hs⟩ := hcl'
      obtain ⟨S0, h1, h2⟩ := subR_id_iff.mp hs
      have hne0 := hne _ h1
      obtain ⟨s, hs0⟩ := List.exists_mem_of_ne_nil _ hne0
      have := h2 s hs0
      rw [hR] at this
      simp [sset] at this
  obtain ⟨σ, hσ⟩ := hex
  exact List.ne_nil_of_mem (mem_rhsTuples.mpr ⟨σ, rulesOf_mono hsub hσ, rfl⟩)

/-! ### the body of a call for a pair subsumed by a closed pair does not fail -/

theorem body_nofail {A B : Vata.TA} {ws : List Pair} {call : Call} (hc : CallGood (frameI A B ws) call call call)
    (hrc : RCall A B ws call) (wit : Wit) (x : Nat) (S' X : List Nat) (hsub : ∀ s, s ∈ S' → s ∈ X)
    (cc : List Pair) (st : St) (hG : GI A B ws cc st) (hcl : ClosedAt idOrd A B (st.trues ++ ws) (x, S')) :
    NoFail (body call call A B wit normS x X) cc st := by
  have hNE : ∀ t, t ∈ st.trues ++ ws → t.2 ≠ [] := hG.2.2
  unfold body
  refine nofail_forAllL (Φ := frameI A B ws) cc st _ ?_ ?_ cc st hG ((frameI A B ws).refl _ _)
  · intro g hg
    have : procGroup call call A B wit normS x X g.1 g.2 =
        procLeaf call call wit normS g.1 (lhsTuples A x g.1 g.2) (rhsTuples B X g.1 g.2) := by
      funext cc st; exact procGroup_eq_procLeaf call call A B wit normS x X hg cc st
    show Good1 _ sameKind (procGroup call call A B wit normS x X g.1 g.2)
    rw [this]
    exact good_procLeaf hc wit normS g.1 g.1 _ _
  · intro g hg cc1 st1 hG1 hle1
    obtain ⟨ρ0, r1, r2, r3, r4⟩ := mem_lhsGroups.mp hg
    have hW0 : rhsTuples B X g.1 g.2 ≠ [] := by
      have := rhs_ne_of_closed hsub hcl hNE r1 r2
      rw [r3, r4] at this; exact this
    have hWe : ¬ (rhsTuples B X g.1 g.2).isEmpty = true := fun h0 => hW0 (List.isEmpty_iff.mp h0)
    intro w c' s' h
    unfold procGroup at h
    simp only [hWe, if_false, Bool.false_eq_true] at h
    by_cases hn : g.2 = 0
    · simp [hn] at h
    · simp only [hn, if_false] at h
      revert h
      refine nofail_forAllL (Φ := frameI A B ws) cc st _ (fun lhs _ => good_procTuple hc wit normS g.1 g.1 _ lhs) ?_
        cc1 st1 hG1 hle1 w c' s'
      intro lhs hlhs cc2 st2 hG2 hle2 w2 c2 s2 h2
      obtain ⟨ρ, q1, q2, q3, q4, q5⟩ := mem_lhsTuples.mp hlhs
      unfold procTuple at h2
      cases hr : anyTuple call lhs (rhsTuples B X g.1 g.2) cc2 st2 with
      | none => rw [hr] at h2; cases h2
      | some r =>
        obtain ⟨b, cc3, st3⟩ := r
        rw [hr] at h2
        obtain ⟨g3, l3, _⟩ := (good_anyTuple hc lhs (rhsTuples B X g.1 g.2) cc2 st2 hG2).2 _ _ _ hr
        cases b with
        | true => simp at h2
        | false =>
          simp only [] at h2
          have hle3 : LeI cc st cc3 st3 := (frameI A B ws).trans hle2 l3
          refine nofail_cfAll (Φ := frameI A B ws) lhs.length cc st
            (fun cs => good_oneCf hc wit normS g.1 g.1 lhs (rhsTuples B X g.1 g.2) cs)
            (rhsTuples B X g.1 g.2).length [] ?_ cc3 st3 g3 hle3 w2 c2 s2 h2
          intro cs' hl hlt cc4 st4 hG4 hle4
          rw [List.append_nil]
          refine oneCf_nofail hc hrc wit g.1 lhs _ cs' st.trues cc4 st4 hG4 hle4.2.2 ?_
          have hlen : ρ.kids.length = g.2 := q4
          have hpos := pos_of_closed (cs := cs') hsub hcl q1 q2 (by omega)
            (by rw [q3, q4]; exact hl) (by rw [q5]; exact hlt)
          rw [q3, q4, q5] at hpos
          exact hpos

end InclDownTables
end Vata
