import Vata.NfaLoadDump
import Vata.Proofs.LoadDump
import Vata.Proofs.NfaStart
/-!
# Proofs about the load / dump of word automata as coded (`Vata/NfaLoadDump.lean`), part 1: what a load computes, what a
dump writes, load ∘ dump, the rank-2 exception
-/
namespace Vata
namespace NfaLD
open Dict LoadDump NfaS Timbuk

/-! ## the translators -/

/-- both dictionaries `Ok`, the state counter at the size -/
structure WSt.Ok (s : WSt) : Prop where
  sd : s.sd.Ok
  cnt : s.cnt = s.sd.length
  yd : s.yd.Ok

/-- from `s` to `s'` the state names `Q` and the symbol names `Y` were translated -/
structure Step (s s' : WSt) (Q : List String) (Y : List String) : Prop where
  ok : s'.Ok
  sd : Sub s.sd s'.sd
  yd : Sub s.yd s'.yd
  sdKeys : ∀ q, q ∈ s'.sd.keys ↔ q ∈ s.sd.keys ∨ q ∈ Q
  ydKeys : ∀ k, k ∈ s'.yd.keys ↔ k ∈ s.yd.keys ∨ k ∈ Y

theorem Step.refl {s : WSt} (h : s.Ok) : Step s s [] [] :=
  ⟨h, Sub.refl _, Sub.refl _, by simp, by simp⟩

theorem Step.trans {s s' s'' : WSt} {Q Q' Y Y' : List String} (h : Step s s' Q Y) (h' : Step s' s'' Q' Y') :
    Step s s'' (Q ++ Q') (Y ++ Y') :=
  ⟨h'.ok, h.sd.trans h'.sd, h.yd.trans h'.yd,
    fun q => by rw [h'.sdKeys, h.sdKeys, List.mem_append, or_assoc],
    fun k => by rw [h'.ydKeys, h.ydKeys, List.mem_append, or_assoc]⟩

/-- only the SETS of translated names matter -/
theorem Step.congr {s s' : WSt} {Q Q' Y Y' : List String} (h : Step s s' Q Y) (eQ : ∀ q, q ∈ Q ↔ q ∈ Q')
    (eY : ∀ k, k ∈ Y ↔ k ∈ Y') : Step s s' Q' Y' :=
  ⟨h.ok, h.sd, h.yd, fun q => by rw [h.sdKeys, eQ], fun k => by rw [h.ydKeys, eY]⟩

theorem trState_spec (s : WSt) (hs : s.Ok) (q : String) :
    Step s (trState s q).2 [q] [] ∧ (trState s q).2.sd.fwd? q = some (trState s q).1 := by
  have h := weak_spec s.sd hs.sd q
  rw [← hs.cnt] at h
  obtain ⟨h1, h2, h3, h4, h5⟩ := h
  refine ⟨⟨⟨h1, h2, hs.yd⟩, h3, Sub.refl _, ?_, by simp [trState]⟩, h4⟩
  intro q'; rw [List.mem_singleton]; exact h5 q'

theorem trSym_spec (s : WSt) (hs : s.Ok) (k : String) :
    Step s (trSym s k).2 [] [k] ∧ (trSym s k).2.yd.fwd? k = some (trSym s k).1 := by
  obtain ⟨h1, _, h3, h4, h5⟩ := weak_spec s.yd hs.yd k
  refine ⟨⟨⟨hs.sd, hs.cnt, h1⟩, Sub.refl _, h3, by simp [trSym], ?_⟩, h4⟩
  intro k'; rw [List.mem_singleton]; exact h5 k'

theorem regSyms_spec (s : WSt) (hs : s.Ok) (ps : List (String × Int)) :
    Step s (regSyms s ps) [] (ps.map (·.1)) := by
  induction ps generalizing s with
  | nil => exact Step.refl hs
  | cons p ps ih =>
    obtain ⟨h1, _⟩ := trSym_spec s hs p.1
    exact (h1.trans (ih _ h1.ok)).congr (by simp) (by simp)

theorem trFinals_spec (qs : List String) : ∀ (s : WSt) (_ : s.Ok) (A : NFAS),
    Step s (trFinals s A qs).2 qs [] ∧
      (trFinals s A qs).1 = (qs.map (trFinals s A qs).2.sd.get).foldl nfasSetFinal A := by
  induction qs with
  | nil => intro s hs A; exact ⟨Step.refl hs, rfl⟩
  | cons q qs ih =>
    intro s hs A
    obtain ⟨h1, r1⟩ := trState_spec s hs q
    obtain ⟨h2, r2⟩ := ih (trState s q).2 h1.ok (nfasSetFinal A (trState s q).1)
    refine ⟨(h1.trans h2).congr (by simp) (by simp), ?_⟩
    show (trFinals (trState s q).2 (nfasSetFinal A (trState s q).1) qs).1 = _
    rw [r2]
    simp only [trFinals, List.map_cons, List.foldl_cons]
    rw [get_of_fwd (h2.sd _ _ r1)]

theorem trNullary_spec (s : WSt) (hs : s.Ok) (sym parent : String) :
    Step s (trNullary s sym parent).2 [parent] [sym] ∧
      (trNullary s sym parent).2.sd.fwd? parent = some (trNullary s sym parent).1.1 ∧
      (trNullary s sym parent).2.yd.fwd? sym = some (trNullary s sym parent).1.2 := by
  obtain ⟨h1, r1⟩ := trState_spec s hs parent
  obtain ⟨h2, r2⟩ := trSym_spec (trState s parent).2 h1.ok sym
  exact ⟨(h1.trans h2).congr (by simp) (by simp), h2.sd _ _ r1, r2⟩

theorem trUnary_spec (rtl : Bool) (s : WSt) (hs : s.Ok) (l sym parent : String) :
    Step s (trUnary rtl s l sym parent).2 [l, parent] [sym] ∧
      (trUnary rtl s l sym parent).2.sd.fwd? l = some (trUnary rtl s l sym parent).1.1 ∧
      (trUnary rtl s l sym parent).2.yd.fwd? sym = some (trUnary rtl s l sym parent).1.2.1 ∧
      (trUnary rtl s l sym parent).2.sd.fwd? parent = some (trUnary rtl s l sym parent).1.2.2 := by
  cases rtl with
  | true =>
    obtain ⟨h1, r1⟩ := trState_spec s hs parent
    obtain ⟨h2, r2⟩ := trSym_spec (trState s parent).2 h1.ok sym
    obtain ⟨h3, r3⟩ := trState_spec (trSym (trState s parent).2 sym).2 h2.ok l
    refine ⟨((h1.trans h2).trans h3).congr ?_ (by simp), r3, h3.yd _ _ r2, h3.sd _ _ (h2.sd _ _ r1)⟩
    intro q; simp only [List.append_nil, List.mem_append, List.mem_cons, List.not_mem_nil, or_false]
    exact Or.comm
  | false =>
    obtain ⟨h1, r1⟩ := trState_spec s hs l
    obtain ⟨h2, r2⟩ := trSym_spec (trState s l).2 h1.ok sym
    obtain ⟨h3, r3⟩ := trState_spec (trSym (trState s l).2 sym).2 h2.ok parent
    refine ⟨((h1.trans h2).trans h3).congr ?_ (by simp), h3.sd _ _ (h2.sd _ _ r1), h3.yd _ _ r2, r3⟩
    intro q; simp

/-! ## what the transition loop builds -/

/-- the `SetStateStart` calls of a load, under the dictionaries `sd`, `yd` -/
def startsOf (sd : StateDict) (yd : WSymDict) (ts : List (List String × String × String)) : List (Nat × Nat) :=
  ts.filterMap (fun t => match t.1 with
    | [] => some (sd.get t.2.2, yd.get t.2.1)
    | _ => none)

/-- the `AddTransition` calls of a load -/
def transOf (sd : StateDict) (yd : WSymDict) (ts : List (List String × String × String)) : List (Nat × Nat × Nat) :=
  ts.filterMap (fun t => match t.1 with
    | [l] => some (sd.get l, yd.get t.2.1, sd.get t.2.2)
    | _ => none)

/-- `A` after the `SetStateStart` calls `L` and the `AddTransition` calls `U`, in any interleaving -/
def build (A : NFAS) (L : List (Nat × Nat)) (U : List (Nat × Nat × Nat)) : NFAS :=
  ⟨⟨(nfasAddStarts A L).start, A.final, A.trans ++ U⟩, (nfasAddStarts A L).startSyms⟩

theorem build_nil (A : NFAS) : build A [] [] = A := by
  simp only [build, nfasAddStarts, List.foldl_nil, List.append_nil]

theorem build_setStart (A : NFAS) (q a : Nat) (L : List (Nat × Nat)) (U : List (Nat × Nat × Nat)) :
    build (nfasSetStart A q a) L U = build A ((q, a) :: L) U := rfl

theorem addStarts_congr (L : List (Nat × Nat)) : ∀ (A B : NFAS), A.start = B.start → A.startSyms = B.startSyms →
    (nfasAddStarts A L).start = (nfasAddStarts B L).start ∧ (nfasAddStarts A L).startSyms = (nfasAddStarts B L).startSyms := by
  induction L with
  | nil => intro A B h1 h2; exact ⟨h1, h2⟩
  | cons p L ih =>
    intro A B h1 h2
    exact ih (nfasSetStart A p.1 p.2) (nfasSetStart B p.1 p.2)
      (by show insN A.start p.1 = insN B.start p.1; rw [h1])
      (by show smAddSym A.startSyms p.1 p.2 = smAddSym B.startSyms p.1 p.2; rw [h2])

theorem build_addTrans (A : NFAS) (p a q : Nat) (L : List (Nat × Nat)) (U : List (Nat × Nat × Nat)) :
    build (nfasAddTrans A p a q) L U = build A L ((p, a, q) :: U) := by
  obtain ⟨h1, h2⟩ := addStarts_congr L (nfasAddTrans A p a q) A rfl rfl
  unfold build
  rw [h1, h2]
  show NFAS.mk ⟨_, A.final, (A.trans ++ [(p, a, q)]) ++ U⟩ _ = _
  rw [List.append_assoc]; rfl

theorem filterMap_congr' {α β : Type} {f g : α → Option β} : ∀ {l : List α}, (∀ a, a ∈ l → f a = g a) →
    l.filterMap f = l.filterMap g
  | [], _ => rfl
  | a :: l, h => by
    rw [List.filterMap_cons, List.filterMap_cons, h a List.mem_cons_self,
      filterMap_congr' (fun b hb => h b (List.mem_cons_of_mem _ hb))]

theorem startsOf_sub {s s' : WSt} {Q Y : List String} (h : Step s s' Q Y) (ts : List (List String × String × String))
    (hk : ∀ t, t ∈ ts → t.1 = [] → t.2.2 ∈ s.sd.keys ∧ t.2.1 ∈ s.yd.keys) :
    startsOf s'.sd s'.yd ts = startsOf s.sd s.yd ts := by
  unfold startsOf
  apply filterMap_congr'
  intro t ht
  rcases ht1 : t.1 with _ | ⟨l, _ | _⟩
  · simp only; rw [h.sd.get (hk t ht ht1).1, h.yd.get (hk t ht ht1).2]
  · rfl
  · rfl

/-- the state names of a rule are known to `s` -/
def Known (s : WSt) (t : List String × String × String) : Prop :=
  (∀ q, q ∈ t.1 → q ∈ s.sd.keys) ∧ t.2.2 ∈ s.sd.keys ∧ t.2.1 ∈ s.yd.keys

theorem Known.lift {s s' : WSt} {Q Y : List String} (h : Step s s' Q Y) {t : List String × String × String}
    (hk : Known s t) : Known s' t :=
  ⟨fun q hq => h.sd.keys (hk.1 q hq), h.sd.keys hk.2.1, h.yd.keys hk.2.2⟩

theorem startsOf_lift {s s' : WSt} {Q Y : List String} (h : Step s s' Q Y) {ts : List (List String × String × String)}
    (hk : ∀ t, t ∈ ts → Known s t) : startsOf s'.sd s'.yd ts = startsOf s.sd s.yd ts :=
  startsOf_sub h ts (fun t ht _ => ⟨(hk t ht).2.1, (hk t ht).2.2⟩)

theorem transOf_lift {s s' : WSt} {Q Y : List String} (h : Step s s' Q Y) {ts : List (List String × String × String)}
    (hk : ∀ t, t ∈ ts → Known s t) : transOf s'.sd s'.yd ts = transOf s.sd s.yd ts := by
  unfold transOf
  apply filterMap_congr'
  intro t ht
  rcases ht1 : t.1 with _ | ⟨l, _ | _⟩
  · rfl
  · simp only
    rw [h.sd.get ((hk t ht).1 l (by rw [ht1]; exact List.mem_singleton.mpr rfl)), h.sd.get (hk t ht).2.1,
      h.yd.get (hk t ht).2.2]
  · rfl

/-- the loop over the transitions of a word-shaped description never throws; it translates exactly the names of the rules and
builds the `SetStateStart` / `AddTransition` calls of the rules under the FINAL dictionaries -/
theorem trTrans_spec (rtl : Bool) (ts : List (List String × String × String)) : ∀ (s : WSt) (_ : s.Ok) (A : NFAS),
    (∀ t, t ∈ ts → t.1.length ≤ 1) →
    ∃ A' s', trTrans rtl s A ts = .ok (A', s') ∧ Step s s' (ts.flatMap stNames) (ts.map (·.2.1)) ∧
      (∀ t, t ∈ ts → Known s' t) ∧ A' = build A (startsOf s'.sd s'.yd ts) (transOf s'.sd s'.yd ts) := by
  induction ts with
  | nil => intro s hs A _; exact ⟨A, s, rfl, Step.refl hs, by simp, (build_nil A).symm⟩
  | cons t ts ih =>
    intro s hs A hw
    have hw' : ∀ t', t' ∈ ts → t'.1.length ≤ 1 := fun t' h => hw t' (List.mem_cons_of_mem _ h)
    rcases ht1 : t.1 with _ | ⟨l, _ | ⟨l', r⟩⟩
    · -- a nullary rule
      obtain ⟨h1, r1, r2⟩ := trNullary_spec s hs t.2.1 t.2.2
      obtain ⟨A', s', e, h2, k2, b2⟩ := ih (trNullary s t.2.1 t.2.2).2 h1.ok
        (nfasSetStart A (trNullary s t.2.1 t.2.2).1.1 (trNullary s t.2.1 t.2.2).1.2) hw'
      have kt : Known (trNullary s t.2.1 t.2.2).2 t :=
        ⟨by rw [ht1]; simp, (h1.sdKeys _).mpr (Or.inr (by simp)), (h1.ydKeys _).mpr (Or.inr (by simp))⟩
      refine ⟨A', s', ?_, (h1.trans h2).congr ?_ (by simp), ?_, ?_⟩
      · simp only [trTrans, ht1]; exact e
      · intro q; simp [stNames, ht1]
      · intro t' ht'
        rcases List.mem_cons.mp ht' with e' | hm
        · rw [e']; exact kt.lift h2
        · exact k2 t' hm
      · rw [b2, build_setStart]
        have e1 : startsOf s'.sd s'.yd (t :: ts) = (s'.sd.get t.2.2, s'.yd.get t.2.1) :: startsOf s'.sd s'.yd ts := by
          simp [startsOf, ht1]
        have e2 : transOf s'.sd s'.yd (t :: ts) = transOf s'.sd s'.yd ts := by
          simp [transOf, ht1]
        rw [e1, e2, get_of_fwd (h2.sd _ _ r1), get_of_fwd (h2.yd _ _ r2)]
    · -- a unary rule
      obtain ⟨h1, r1, r2, r3⟩ := trUnary_spec rtl s hs l t.2.1 t.2.2
      obtain ⟨A', s', e, h2, k2, b2⟩ := ih (trUnary rtl s l t.2.1 t.2.2).2 h1.ok
        (nfasAddTrans A (trUnary rtl s l t.2.1 t.2.2).1.1 (trUnary rtl s l t.2.1 t.2.2).1.2.1
          (trUnary rtl s l t.2.1 t.2.2).1.2.2) hw'
      have kt : Known (trUnary rtl s l t.2.1 t.2.2).2 t :=
        ⟨by rw [ht1]; intro q hq; rw [List.mem_singleton.mp hq]; exact (h1.sdKeys _).mpr (Or.inr (by simp)),
          (h1.sdKeys _).mpr (Or.inr (by simp)), (h1.ydKeys _).mpr (Or.inr (by simp))⟩
      refine ⟨A', s', ?_, (h1.trans h2).congr ?_ (by simp), ?_, ?_⟩
      · simp only [trTrans, ht1]; exact e
      · intro q; simp [stNames, ht1]
      · intro t' ht'
        rcases List.mem_cons.mp ht' with e' | hm
        · rw [e']; exact kt.lift h2
        · exact k2 t' hm
      · rw [b2, build_addTrans]
        have e1 : startsOf s'.sd s'.yd (t :: ts) = startsOf s'.sd s'.yd ts := by
          simp [startsOf, ht1]
        have e2 : transOf s'.sd s'.yd (t :: ts) =
            (s'.sd.get l, s'.yd.get t.2.1, s'.sd.get t.2.2) :: transOf s'.sd s'.yd ts := by
          simp [transOf, ht1]
        rw [e1, e2, get_of_fwd (h2.sd _ _ r1), get_of_fwd (h2.yd _ _ r2), get_of_fwd (h2.sd _ _ r3)]
    · exact absurd (hw t List.mem_cons_self) (by rw [ht1]; simp)

/-- the loop throws exactly when some rule has two or more children -/
theorem trTrans_error_iff (rtl : Bool) (ts : List (List String × String × String)) : ∀ (s : WSt) (A : NFAS),
    (trTrans rtl s A ts = .error "Not a finite automaton" ↔ ∃ t, t ∈ ts ∧ 2 ≤ t.1.length) ∧
    (∀ e, trTrans rtl s A ts = .error e → e = "Not a finite automaton") := by
  induction ts with
  | nil => intro s A; simp [trTrans]
  | cons t ts ih =>
    intro s A
    rcases ht1 : t.1 with _ | ⟨l, _ | ⟨l', r⟩⟩
    · simp only [trTrans, ht1]
      obtain ⟨i1, i2⟩ := ih (trNullary s t.2.1 t.2.2).2
        (nfasSetStart A (trNullary s t.2.1 t.2.2).1.1 (trNullary s t.2.1 t.2.2).1.2)
      refine ⟨?_, i2⟩
      rw [i1]
      constructor
      · rintro ⟨t', h, h2⟩; exact ⟨t', List.mem_cons_of_mem _ h, h2⟩
      · rintro ⟨t', h, h2⟩
        rcases List.mem_cons.mp h with e | h
        · rw [e, ht1] at h2; simp at h2
        · exact ⟨t', h, h2⟩
    · simp only [trTrans, ht1]
      obtain ⟨i1, i2⟩ := ih (trUnary rtl s l t.2.1 t.2.2).2
        (nfasAddTrans A (trUnary rtl s l t.2.1 t.2.2).1.1 (trUnary rtl s l t.2.1 t.2.2).1.2.1
          (trUnary rtl s l t.2.1 t.2.2).1.2.2)
      refine ⟨?_, i2⟩
      rw [i1]
      constructor
      · rintro ⟨t', h, h2⟩; exact ⟨t', List.mem_cons_of_mem _ h, h2⟩
      · rintro ⟨t', h, h2⟩
        rcases List.mem_cons.mp h with e | h
        · rw [e, ht1] at h2; simp at h2
        · exact ⟨t', h, h2⟩
    · have e0 : trTrans rtl s A (t :: ts) = .error "Not a finite automaton" := by simp only [trTrans, ht1]
      rw [e0]
      refine ⟨⟨fun _ => ⟨t, List.mem_cons_self, by rw [ht1]; simp⟩, fun _ => rfl⟩, ?_⟩
      intro e he; exact (Except.error.inj he).symm

/-! ## the whole load -/

/-- the symbol names that a load translates -/
def symNames (d : AutDesc) : List String := d.symbols.map (·.1) ++ d.trans.map (·.2.1)

/-- what `loadFromAutDescInternal` computes for a word-shaped description, in terms of the dictionaries it leaves -/
theorem loadFrom_spec (rtl : Bool) (s : WSt) (hs : s.Ok) (d : AutDesc) (hw : d.WordShaped) :
    ∃ A s', loadFrom rtl s d = .ok (A, s') ∧ Step s s' (stateNames d) (symNames d) ∧
      (∀ t, t ∈ d.trans → Known s' t) ∧
      (∀ q, q ∈ A.final ↔ q ∈ d.final.map s'.sd.get) ∧
      A.trans = transOf s'.sd s'.yd d.trans ∧
      (∀ q, q ∈ A.start ↔ ∃ a, (q, a) ∈ startsOf s'.sd s'.yd d.trans) ∧
      (∀ q a, a ∈ A.symsOf q ↔ (q, a) ∈ startsOf s'.sd s'.yd d.trans) := by
  have h0 := regSyms_spec s hs d.symbols
  obtain ⟨h1, r1⟩ := trFinals_spec d.final (regSyms s d.symbols) h0.ok nfasEmpty
  obtain ⟨A, s', e, h2, k2, b2⟩ := trTrans_spec rtl d.trans _ h1.ok (trFinals (regSyms s d.symbols) nfasEmpty d.final).1 hw
  obtain ⟨f1, f2, f3, f4⟩ := nfasSetFinals_spec
    (d.final.map (trFinals (regSyms s d.symbols) nfasEmpty d.final).2.sd.get) nfasEmpty
  rw [← r1] at f1 f2 f3 f4
  obtain ⟨a1, a2, a3, a4, _⟩ := nfasAddStarts_spec (startsOf s'.sd s'.yd d.trans)
    (trFinals (regSyms s d.symbols) nfasEmpty d.final).1
  refine ⟨A, s', e, ((h0.trans h1).trans h2).congr (by simp [stateNames]) (by simp [symNames]), k2, ?_, ?_, ?_, ?_⟩
  · intro q
    rw [b2]
    show q ∈ (trFinals (regSyms s d.symbols) nfasEmpty d.final).1.final ↔ _
    rw [f4 q]
    simp only [nfasEmpty, List.not_mem_nil, false_or, List.mem_map]
    constructor
    · rintro ⟨n, hn, rfl⟩; exact ⟨n, hn, h2.sd.get ((h1.sdKeys n).mpr (Or.inr hn))⟩
    · rintro ⟨n, hn, rfl⟩; exact ⟨n, hn, (h2.sd.get ((h1.sdKeys n).mpr (Or.inr hn))).symm⟩
  · rw [b2]
    show (trFinals (regSyms s d.symbols) nfasEmpty d.final).1.trans ++ _ = _
    rw [f2]; rfl
  · intro q
    rw [b2]
    show q ∈ (nfasAddStarts _ _).start ↔ _
    rw [a3 q, f1]
    simp [nfasEmpty]
  · intro q a
    rw [b2]
    show a ∈ (nfasAddStarts _ _).symsOf q ↔ _
    rw [a4 q a]
    have : (trFinals (regSyms s d.symbols) nfasEmpty d.final).1.symsOf q = [] := by
      unfold NFAS.symsOf; rw [f3]; rfl
    rw [this]; simp

theorem init_ok {yd : WSymDict} (h : yd.Ok) : (⟨[], 0, yd⟩ : WSt).Ok := ⟨ok_nil, rfl, h⟩

theorem mem_startsOf {sd : StateDict} {yd : WSymDict} {ts : List (List String × String × String)} {x : Nat × Nat} :
    x ∈ startsOf sd yd ts ↔ ∃ t, t ∈ ts ∧ t.1 = [] ∧ x = (sd.get t.2.2, yd.get t.2.1) := by
  simp only [startsOf, List.mem_filterMap]
  constructor
  · rintro ⟨t, ht, h⟩
    rcases ht1 : t.1 with _ | ⟨l, r⟩
    · rw [ht1] at h; exact ⟨t, ht, ht1, (Option.some.inj h).symm⟩
    · rw [ht1] at h; cases h
  · rintro ⟨t, ht, ht1, rfl⟩
    exact ⟨t, ht, by rw [ht1]⟩

theorem mem_transOf {sd : StateDict} {yd : WSymDict} {ts : List (List String × String × String)} {x : Nat × Nat × Nat} :
    x ∈ transOf sd yd ts ↔ ∃ t l, t ∈ ts ∧ t.1 = [l] ∧ x = (sd.get l, yd.get t.2.1, sd.get t.2.2) := by
  simp only [transOf, List.mem_filterMap]
  constructor
  · rintro ⟨t, ht, h⟩
    rcases ht1 : t.1 with _ | ⟨l, _ | _⟩
    · rw [ht1] at h; cases h
    · rw [ht1] at h; exact ⟨t, l, ht, ht1, (Option.some.inj h).symm⟩
    · rw [ht1] at h; cases h
  · rintro ⟨t, l, ht, ht1, rfl⟩
    exact ⟨t, ht, by rw [ht1]⟩

/-! ## the dump -/

/-- the name of a symbol (`""` if it has none) -/
def symName (yd : WSymDict) (f : Nat) : String := (yd.bwd? f).getD ""

/-- what the dictionaries must provide for a dump to succeed: every state and every symbol in use has a name -/
structure Dumpable (A : NFAS) (sd : StateDict) (yd : WSymDict) : Prop where
  named : ∀ q, q ∈ nfaStates A.toNFA → ∃ n, sd.bwd? q = some n
  syms : ∀ e, e ∈ A.trans → ∃ k, yd.bwd? e.2.1 = some k
  startSyms : ∀ s, s ∈ A.start → ∀ a, a ∈ A.symsOf s → ∃ k, yd.bwd? a = some k

theorem backSym_symName {yd : WSymDict} {f : Nat} (h : ∃ k, yd.bwd? f = some k) : backSym yd f = .ok (symName yd f) := by
  obtain ⟨k, hk⟩ := h
  simp [backSym, symName, hk]

/-- the nullary rules the dump writes for the start state `s` -/
def startRules (firstOnly : Bool) (sd : StateDict) (yd : WSymDict) (A : NFAS) (s : Nat) :
    List (List String × String × String) :=
  if (A.symsOf s).isEmpty then [([], "x", nameOf sd s)]
  else (if firstOnly then (A.symsOf s).take 1 else A.symsOf s).map (fun a => ([], symName yd a, nameOf sd s))

/-- a transition under the names -/
def namedTrans (sd : StateDict) (yd : WSymDict) (e : Nat × Nat × Nat) : List String × String × String :=
  ([nameOf sd e.1], symName yd e.2.1, nameOf sd e.2.2)

/-- the transitions of the dump, before sorting -/
def dumpRules (firstOnly : Bool) (sd : StateDict) (yd : WSymDict) (A : NFAS) : List (List String × String × String) :=
  (A.start.map (startRules firstOnly sd yd A)).flatten ++ A.trans.map (namedTrans sd yd)

theorem mem_take_one {α : Type} {l : List α} {a : α} (h : a ∈ l.take 1) : a ∈ l := List.mem_of_mem_take h

/-- the dump of a dumpable automaton (with or without the `break`) -/
theorem dumpWith_dumpable (firstOnly : Bool) {A : NFAS} {sd : StateDict} {yd : WSymDict} (hD : Dumpable A sd yd) :
    dumpWith firstOnly A sd yd = .ok (dumpOf (A.final.map (nameOf sd)) (dumpRules firstOnly sd yd A)) := by
  unfold dumpWith
  rw [mapE_ok (backState sd) (nameOf sd) A.final
      (fun q hq => backState_nameOf (hD.named q (final_mem_nfaStates hq))),
    mapE_ok (dumpStart firstOnly sd yd A) (startRules firstOnly sd yd A) A.start ?_,
    mapE_ok (dumpTrans sd yd) (namedTrans sd yd) A.trans ?_]
  · rfl
  · intro e he
    unfold dumpTrans namedTrans
    rw [backState_nameOf (hD.named _ (src_mem_nfaStates (a := e.2.1) (q := e.2.2) he)), backSym_symName (hD.syms e he),
      backState_nameOf (hD.named _ (tgt_mem_nfaStates (p := e.1) (a := e.2.1) he))]
  · intro s hs
    have hn := backState_nameOf (hD.named s (start_mem_nfaStates hs))
    unfold dumpStart startRules
    split
    · rw [hn]
    · apply mapE_ok
      intro a ha
      have ha' : a ∈ A.symsOf s := by
        cases firstOnly
        · exact ha
        · exact mem_take_one ha
      unfold dumpStartRule
      rw [backSym_symName (hD.startSyms s hs a ha'), hn]

/-- membership in the rules of the current dump -/
theorem mem_dumpRules {sd : StateDict} {yd : WSymDict} {A : NFAS} {t : List String × String × String} :
    t ∈ dumpRules false sd yd A ↔
      (∃ s, s ∈ A.start ∧ A.symsOf s = [] ∧ t = ([], "x", nameOf sd s)) ∨
      (∃ s a, s ∈ A.start ∧ a ∈ A.symsOf s ∧ t = ([], symName yd a, nameOf sd s)) ∨
      (∃ e, e ∈ A.trans ∧ t = namedTrans sd yd e) := by
  simp only [dumpRules, List.mem_append, List.mem_flatten, List.mem_map]
  constructor
  · rintro (⟨l, ⟨s, hs, rfl⟩, ht⟩ | ⟨e, he, rfl⟩)
    · unfold startRules at ht
      split at ht
      · rename_i he
        exact Or.inl ⟨s, hs, List.isEmpty_iff.mp he, List.mem_singleton.mp ht⟩
      · simp only [Bool.false_eq_true, if_false, List.mem_map] at ht
        obtain ⟨a, ha, rfl⟩ := ht
        exact Or.inr (Or.inl ⟨s, a, hs, ha, rfl⟩)
    · exact Or.inr (Or.inr ⟨e, he, rfl⟩)
  · rintro (⟨s, hs, he, rfl⟩ | ⟨s, a, hs, ha, rfl⟩ | ⟨e, he, rfl⟩)
    · refine Or.inl ⟨_, ⟨s, hs, rfl⟩, ?_⟩
      unfold startRules; rw [he]; simp
    · refine Or.inl ⟨_, ⟨s, hs, rfl⟩, ?_⟩
      unfold startRules
      have : (A.symsOf s).isEmpty = false := by
        cases h : A.symsOf s with
        | nil => rw [h] at ha; cases ha
        | cons _ _ => rfl
      rw [this]
      simp only [Bool.false_eq_true, if_false, List.mem_map]
      exact ⟨a, ha, rfl⟩
    · exact Or.inr ⟨e, he, rfl⟩

/-! ## load, then dump -/

theorem nameOf_get {sd : StateDict} (h : sd.Ok) {q : String} (hq : q ∈ sd.keys) : nameOf sd (sd.get q) = q := by
  unfold nameOf; rw [h.bwd_get hq]; rfl

theorem symName_get {yd : WSymDict} (h : yd.Ok) {k : String} (hk : k ∈ yd.keys) : symName yd (yd.get k) = k := by
  unfold symName; rw [h.bwd_get hk]; rfl

/-- an automaton that was loaded is dumpable with the dictionaries the load left, and its dump has exactly the final states
and the rules of the description -/
theorem loadFrom_dump (rtl : Bool) (s : WSt) (hs : s.Ok) (d : AutDesc) (hw : d.WordShaped) :
    ∃ A s', loadFrom rtl s d = .ok (A, s') ∧ Step s s' (stateNames d) (symNames d) ∧ Dumpable A s'.sd s'.yd ∧
      (A.final.map (nameOf s'.sd)) ≈ d.final ∧ dumpRules false s'.sd s'.yd A ≈ d.trans := by
  obtain ⟨A, s', e, h, hk, hf, ht, hst, hsy⟩ := loadFrom_spec rtl s hs d hw
  have hfk : ∀ n, n ∈ d.final → n ∈ s'.sd.keys := fun n hn => (h.sdKeys n).mpr (Or.inr (by simp [stateNames, hn]))
  refine ⟨A, s', e, h, ⟨?_, ?_, ?_⟩, ?_, ?_⟩
  · intro q hq
    rcases mem_nfaStates.mp hq with hq | hq | ⟨e', he', hq⟩
    · obtain ⟨a, ha⟩ := (hst q).mp hq
      obtain ⟨t, htm, _, hx⟩ := mem_startsOf.mp ha
      rw [(Prod.mk.inj hx).1]
      exact ⟨_, h.ok.sd.bwd_get (hk t htm).2.1⟩
    · obtain ⟨n, hn, rfl⟩ := List.mem_map.mp ((hf q).mp hq)
      exact ⟨_, h.ok.sd.bwd_get (hfk n hn)⟩
    · rw [show A.toNFA.trans = A.trans from rfl, ht] at he'
      obtain ⟨t, l, htm, ht1, rfl⟩ := mem_transOf.mp he'
      rcases hq with rfl | rfl
      · exact ⟨_, h.ok.sd.bwd_get ((hk t htm).1 l (by rw [ht1]; simp))⟩
      · exact ⟨_, h.ok.sd.bwd_get (hk t htm).2.1⟩
  · intro e' he'
    rw [ht] at he'
    obtain ⟨t, l, htm, _, rfl⟩ := mem_transOf.mp he'
    exact ⟨_, h.ok.yd.bwd_get (hk t htm).2.2⟩
  · intro q _ a ha
    obtain ⟨t, htm, _, hx⟩ := mem_startsOf.mp ((hsy q a).mp ha)
    rw [(Prod.mk.inj hx).2]
    exact ⟨_, h.ok.yd.bwd_get (hk t htm).2.2⟩
  · intro n
    simp only [List.mem_map]
    constructor
    · rintro ⟨q, hq, rfl⟩
      obtain ⟨n, hn, rfl⟩ := List.mem_map.mp ((hf q).mp hq)
      rw [nameOf_get h.ok.sd (hfk n hn)]; exact hn
    · intro hn
      exact ⟨s'.sd.get n, (hf _).mpr (List.mem_map.mpr ⟨n, hn, rfl⟩), nameOf_get h.ok.sd (hfk n hn)⟩
  · intro t
    rw [mem_dumpRules]
    constructor
    · rintro (⟨q, hq, he', _⟩ | ⟨q, a, _, ha, rfl⟩ | ⟨e', he', rfl⟩)
      · obtain ⟨a, ha⟩ := (hst q).mp hq
        have := (hsy q a).mpr ha
        rw [he'] at this; cases this
      · obtain ⟨t, htm, ht1, hx⟩ := mem_startsOf.mp ((hsy q a).mp ha)
        rw [(Prod.mk.inj hx).1, (Prod.mk.inj hx).2, symName_get h.ok.yd (hk t htm).2.2,
          nameOf_get h.ok.sd (hk t htm).2.1, ← ht1]
        exact htm
      · rw [ht] at he'
        obtain ⟨t, l, htm, ht1, rfl⟩ := mem_transOf.mp he'
        unfold namedTrans
        simp only
        rw [symName_get h.ok.yd (hk t htm).2.2, nameOf_get h.ok.sd (hk t htm).2.1,
          nameOf_get h.ok.sd ((hk t htm).1 l (by rw [ht1]; simp)), ← ht1]
        exact htm
    · intro htm
      rcases ht1 : t.1 with _ | ⟨l, _ | ⟨l', r⟩⟩
      · refine Or.inr (Or.inl ⟨s'.sd.get t.2.2, s'.yd.get t.2.1, ?_, ?_, ?_⟩)
        · exact (hst _).mpr ⟨_, mem_startsOf.mpr ⟨t, htm, ht1, rfl⟩⟩
        · exact (hsy _ _).mpr (mem_startsOf.mpr ⟨t, htm, ht1, rfl⟩)
        · rw [symName_get h.ok.yd (hk t htm).2.2, nameOf_get h.ok.sd (hk t htm).2.1, ← ht1]
      · refine Or.inr (Or.inr ⟨(s'.sd.get l, s'.yd.get t.2.1, s'.sd.get t.2.2), ?_, ?_⟩)
        · rw [ht]; exact mem_transOf.mpr ⟨t, l, htm, ht1, rfl⟩
        · unfold namedTrans
          simp only
          rw [symName_get h.ok.yd (hk t htm).2.2, nameOf_get h.ok.sd (hk t htm).2.1,
            nameOf_get h.ok.sd ((hk t htm).1 l (by rw [ht1]; simp)), ← ht1]
      · exact absurd (hw t htm) (by rw [ht1]; simp)

end NfaLD

open NfaLD LoadDump Dict Timbuk

/-- **load, then dump** of a word-shaped description (fresh state dictionary, an alphabet that may be in use) -/
theorem nfa_load_dump_roundtrip (rtl : Bool) (d : AutDesc) (yd : WSymDict) (hyd : yd.Ok) (hw : d.WordShaped) :
    ∃ A sd yd' d', loadNFA rtl d [] yd = .ok (A, sd, yd') ∧ sd.Ok ∧ yd'.Ok ∧ Dict.Sub yd yd' ∧
      dumpNFA A sd yd' = .ok d' ∧ d'.final ≈ d.final ∧ d'.trans ≈ d.trans ∧
      d'.name = "" ∧ d'.symbols = [] ∧ d'.states = [] := by
  obtain ⟨A, s', e, h, hD, hf, ht⟩ := loadFrom_dump rtl ⟨[], 0, yd⟩ (init_ok hyd) d hw
  refine ⟨A, s'.sd, s'.yd, _, ?_, h.ok.sd, h.ok.yd, h.yd, dumpWith_dumpable false hD, ?_, ?_, ?_, ?_, ?_⟩
  · unfold loadNFA; rw [e]
  · exact fun x => (normDesc_final _ x).trans (hf x)
  · exact fun x => (normDesc_trans _ x).trans (ht x)
  · exact (normDesc_name _).trans rfl
  · exact normDesc_symbols_nil _ rfl
  · exact normDesc_states_nil _ rfl

/-- what the loader does with a rule of rank ≥ 2: it throws `"Not a finite automaton"`; and it throws nothing else -/
theorem nfa_load_error_iff (rtl : Bool) (d : AutDesc) (sd : StateDict) (yd : WSymDict) :
    (loadNFA rtl d sd yd = .error "Not a finite automaton" ↔ ¬ d.WordShaped) ∧
    (∀ e, loadNFA rtl d sd yd = .error e → e = "Not a finite automaton") := by
  obtain ⟨i1, i2⟩ := trTrans_error_iff rtl d.trans
    (trFinals (regSyms ⟨sd, 0, yd⟩ d.symbols) nfasEmpty d.final).2 (trFinals (regSyms ⟨sd, 0, yd⟩ d.symbols) nfasEmpty d.final).1
  have key : ∀ e, loadNFA rtl d sd yd = .error e ↔ loadFrom rtl ⟨sd, 0, yd⟩ d = .error e := by
    intro e
    unfold loadNFA
    cases h : loadFrom rtl ⟨sd, 0, yd⟩ d with
    | error x => simp
    | ok r => simp
  refine ⟨?_, fun e he => i2 e ((key e).mp he)⟩
  rw [key]
  show trTrans rtl _ _ d.trans = _ ↔ _
  rw [i1]
  unfold AutDesc.WordShaped
  constructor
  · rintro ⟨t, ht, h2⟩ hw; have := hw t ht; omega
  · intro hn
    apply Classical.byContradiction
    intro hne
    apply hn
    intro t ht
    apply Classical.byContradiction
    intro hl
    exact hne ⟨t, ht, by omega⟩

end Vata
