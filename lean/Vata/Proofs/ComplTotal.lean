import Vata.Proofs.Compl
/-!
# Complementation: termination of the reference and of the model (totality with an explicit fuel bound)

Every macro-state / profile is a strictly sorted list of states occurring in `A`; there are at most `2 ^ |states A|` of
them and the lists of discovered ones are duplicate-free.  Hence

* `complTD_total`  : `2 ^ A.states.length + 1 ≤ fuel → ∃ C, complTD A Sg fuel = some C`;
* `complRef_total` : `2 ^ A.states.length ≤ fuel → ∃ C, complRef A Sg fuel = some C`.
-/
namespace Vata
namespace Compl
open InclUp (normS mem_normS normS_sorted insS)

/-! ### counting strictly sorted lists over a finite universe -/

/-- all sublists of `U` -/
def subl : List Nat → List (List Nat)
  | [] => [[]]
  | x :: U => subl U ++ (subl U).map (fun S => x :: S)

theorem length_subl : ∀ U : List Nat, (subl U).length = 2 ^ U.length
  | [] => rfl
  | x :: U => by
    simp only [subl, List.length_append, List.length_map, length_subl U, List.length_cons, Nat.pow_succ]
    omega

theorem nil_mem_subl : ∀ U : List Nat, [] ∈ subl U
  | [] => by simp [subl]
  | x :: U => by simp [subl, nil_mem_subl U]

theorem mem_subl : ∀ {U S : List Nat}, U.Pairwise (· < ·) → S.Pairwise (· < ·) → (∀ q, q ∈ S → q ∈ U) → S ∈ subl U
  | U, [], _, _, _ => nil_mem_subl U
  | [], y :: S, _, _, hsub => nomatch hsub y List.mem_cons_self
  | x :: U, y :: S, hU, hS, hsub => by
    have hxU := (List.pairwise_cons.mp hU).1
    have hU' := (List.pairwise_cons.mp hU).2
    have hyS := (List.pairwise_cons.mp hS).1
    have hS' := (List.pairwise_cons.mp hS).2
    simp only [subl, List.mem_append, List.mem_map]
    by_cases hyx : y = x
    · subst hyx
      right
      refine ⟨S, mem_subl hU' hS' ?_, rfl⟩
      intro q hq
      have hlt := hyS q hq
      rcases List.mem_cons.mp (hsub q (List.mem_cons_of_mem _ hq)) with h | h
      · omega
      · exact h
    · left
      have hyU : y ∈ U := by
        rcases List.mem_cons.mp (hsub y List.mem_cons_self) with h | h
        · exact absurd h hyx
        · exact h
      have hxy := hxU y hyU
      apply mem_subl hU' hS
      intro q hq
      rcases List.mem_cons.mp (hsub q hq) with h | h
      · rcases List.mem_cons.mp hq with h' | h'
        · omega
        · have := hyS q h'; omega
      · exact h

/-- strictly sorted, all members in `U` -/
def Small (U : List Nat) (P : List Nat) : Prop := P.Pairwise (· < ·) ∧ ∀ q, q ∈ P → q ∈ U

theorem length_le_of_small {U : List Nat} (hU : U.Pairwise (· < ·)) {L : List (List Nat)} (hn : L.Nodup)
    (hs : ∀ P, P ∈ L → Small U P) : L.length ≤ 2 ^ U.length := by
  rw [← length_subl]
  apply hn.length_le_of_subset
  intro P hP
  exact mem_subl hU (hs P hP).1 (hs P hP).2

theorem length_insS_le (x : Nat) : ∀ l : List Nat, (insS x l).length ≤ l.length + 1
  | [] => by simp [insS]
  | y :: l => by
    unfold insS
    split
    · simp
    · split
      · simp
      · have := length_insS_le x l
        simp only [List.length_cons]
        omega

theorem length_normS_le : ∀ l : List Nat, (normS l).length ≤ l.length
  | [] => by simp [normS]
  | x :: l => by
    have h1 : normS (x :: l) = insS x (normS l) := rfl
    have h2 := length_insS_le x (normS l)
    have h3 := length_normS_le l
    rw [h1, List.length_cons]
    omega

/-- the universe: the states occurring in `A`, sorted -/
def stU (A : TA) : List Nat := normS A.states

theorem mem_stU {A : TA} {q : Nat} : q ∈ stU A ↔ Occurs A q := by
  unfold stU
  rw [mem_normS, mem_states]

theorem pow_stU_le (A : TA) : 2 ^ (stU A).length ≤ 2 ^ A.states.length :=
  Nat.pow_le_pow_right (by omega) (length_normS_le _)

def AllSmall (A : TA) (L : List (List Nat)) : Prop := ∀ P, P ∈ L → Small (stU A) P

theorem AllSmall.length_le {A : TA} {L : List (List Nat)} (h : AllSmall A L) (hn : L.Nodup) :
    L.length ≤ 2 ^ (stU A).length :=
  length_le_of_small (normS_sorted _) hn h

theorem small_nil (A : TA) : Small (stU A) [] := ⟨List.Pairwise.nil, fun _ h => nomatch h⟩

theorem small_final (A : TA) : Small (stU A) (normS A.final) :=
  ⟨normS_sorted _, fun _ hq => mem_stU.mpr (Or.inl (mem_normS.mp hq))⟩

/-! ### the top-down construction terminates -/

theorem macroAt_small {A : TA} {P : List Nat} {f n : Nat} {c : List Nat} {i : Nat} (hi : i < n) :
    Small (stU A) (macroAt (tdW A P f n) c i) := by
  refine ⟨normS_sorted _, ?_⟩
  intro q hq
  obtain ⟨w, hz, rfl⟩ := mem_macroAt.mp hq
  obtain ⟨r, hr, _, _, hl, rfl⟩ := mem_tdW.mp (List.of_mem_zip hz).1
  have hi' : i < r.kids.length := by omega
  have : r.kids.getD i 0 = r.kids[i] := by simp [List.getD_eq_getElem?_getD, hi']
  rw [this]
  exact mem_stU.mpr (Or.inr ⟨r, hr, Or.inr (List.getElem_mem hi')⟩)

theorem addMacro_mem {cache : List (List Nat)} {P Q : List Nat} (h : Q ∈ (addMacro cache P).1) :
    Q ∈ cache ∨ Q = P := by
  unfold addMacro at h
  split at h
  · exact Or.inl h
  · simpa using h

theorem addMacros_mem : ∀ {Ps cache : List (List Nat)} {Q : List Nat}, Q ∈ (addMacros cache Ps).1 →
    Q ∈ cache ∨ Q ∈ Ps
  | [], _, _, h => Or.inl h
  | P :: Ps, cache, Q, h => by
    simp only [addMacros] at h
    rcases addMacros_mem (Ps := Ps) h with h | h
    · rcases addMacro_mem h with h | h
      · exact Or.inl h
      · exact Or.inr (h ▸ List.mem_cons_self)
    · exact Or.inr (List.mem_cons_of_mem _ h)

theorem procChoice_small {A : TA} {P : List Nat} {f n k : Nat} {st : St} {c : List Nat}
    (h : AllSmall A st.cache) : AllSmall A (procChoice f n (tdW A P f n) k st c).cache := by
  intro Q hQ
  unfold procChoice at hQ
  rcases addMacros_mem hQ with hQ | hQ
  · exact h Q hQ
  · simp only [macros, List.mem_map, List.mem_range] at hQ
    obtain ⟨i, hi, rfl⟩ := hQ
    exact macroAt_small hi

theorem foldl_pres {α σ : Type} (step : σ → α → σ) (I : σ → Prop) (hstep : ∀ s x, I s → I (step s x)) :
    ∀ (l : List α) (s : σ), I s → I (l.foldl step s)
  | [], _, h => h
  | x :: l, s, h => foldl_pres step I hstep l (step s x) (hstep s x h)

theorem procSym_small {A : TA} {P : List Nat} {k : Nat} {st : St} {fa : Nat × Nat}
    (h : AllSmall A st.cache) : AllSmall A (procSym A P k st fa).cache := by
  unfold procSym
  simp only
  split
  · split
    · exact h
    · intro Q hQ
      rcases addMacro_mem hQ with hQ | hQ
      · exact h Q hQ
      · rw [hQ]; exact small_nil A
  · split
    · exact h
    · exact foldl_pres _ (fun s => AllSmall A s.cache) (fun s c hs => procChoice_small hs) _ st h

theorem loop_total {A : TA} {Sg : List (Nat × Nat)} : ∀ (fuel k : Nat) (st : St), Inv A Sg k st →
    AllSmall A st.cache → k ≤ st.cache.length → 2 ^ (stU A).length < fuel + k → ∃ st', loop A Sg fuel k st = some st'
  | 0, k, st, hinv, hs, hk, hf => by
    have := hs.length_le hinv.1.1
    omega
  | fuel+1, k, st, hinv, hs, hk, hf => by
    unfold loop
    split
    · exact ⟨st, rfl⟩
    · next P hP =>
      have hklen : k < st.cache.length := (List.getElem?_eq_some_iff.mp hP).1
      have hle := (symFold_spec (A := A) (Sg := Sg) ⟨hinv.1, hP⟩).2.1
      apply loop_total fuel (k+1) _ (hinv.step hP)
        (foldl_pres _ (fun s => AllSmall A s.cache) (fun s fa hs => procSym_small hs) _ st hs)
      · have := hle.1.length_le
        omega
      · omega

theorem tdRun_total {A : TA} {Sg : List (Nat × Nat)} {fuel : Nat} (h : 2 ^ A.states.length + 1 ≤ fuel) :
    ∃ st, tdRun A Sg fuel = some st := by
  apply loop_total fuel 0 _ (Inv.init A Sg)
  · intro P hP
    rw [List.mem_singleton.mp hP]
    exact small_final A
  · exact Nat.zero_le _
  · have := pow_stU_le A
    omega

/-- with `2 ^ |states A| + 1` units of fuel the model returns an automaton -/
theorem complTD_total {A : TA} {Sg : List (Nat × Nat)} {fuel : Nat} (h : 2 ^ A.states.length + 1 ≤ fuel) :
    ∃ C, complTD A Sg fuel = some C := by
  obtain ⟨st, hst⟩ := tdRun_total (Sg := Sg) h
  rw [complTD_eq, hst]
  exact ⟨_, rfl⟩

/-! ### the determinisation terminates -/

theorem insM_nodup {x : List Nat} {l : List (List Nat)} (h : l.Nodup) : (insM x l).Nodup := by
  unfold insM
  split
  · exact h
  · next hx =>
    have hx' : x ∉ l := fun hm => hx (List.contains_iff_mem.mpr hm)
    rw [List.nodup_append]
    refine ⟨h, by simp, ?_⟩
    intro a ha b hb
    rw [List.mem_singleton.mp hb]
    rintro rfl
    exact hx' ha

theorem unionM_nodup : ∀ {l S : List (List Nat)}, S.Nodup → (unionM S l).Nodup
  | [], _, h => h
  | x :: l, S, h => by
    unfold unionM
    rw [List.foldl_cons]
    exact unionM_nodup (l := l) (insM_nodup h)

theorem post_small (A : TA) (f : Nat) (ps : List (List Nat)) : Small (stU A) (normS (post A f ps)) := by
  refine ⟨normS_sorted _, ?_⟩
  intro q hq
  obtain ⟨r, hr, _, _, hp⟩ := mem_post'.mp (mem_normS.mp hq)
  exact mem_stU.mpr (Or.inr ⟨r, hr, Or.inl hp⟩)

theorem detStep_small (A : TA) (Sg : List (Nat × Nat)) (Ps : List (List Nat)) : AllSmall A (detStep A Sg Ps) := by
  intro p hp
  simp only [detStep, List.mem_flatMap, List.mem_map] at hp
  obtain ⟨fa, _, ps, _, rfl⟩ := hp
  exact post_small A _ _

theorem exists_new_of_not_closed {A : TA} {Sg : List (Nat × Nat)} {Ps : List (List Nat)}
    (h : ¬ detClosedB A Sg Ps = true) : ∃ p, p ∈ detStep A Sg Ps ∧ p ∉ Ps := by
  apply Classical.byContradiction
  intro hne
  apply h
  unfold detClosedB
  rw [List.all_eq_true]
  intro p hp
  rw [List.contains_iff_mem]
  apply Classical.byContradiction
  intro hn
  exact hne ⟨p, hp, hn⟩

theorem detSat_total {A : TA} {Sg : List (Nat × Nat)} : ∀ (fuel : Nat) (Ps : List (List Nat)), Ps.Nodup →
    AllSmall A Ps → 2 ^ (stU A).length ≤ fuel + Ps.length → ∃ Ps', detSat A Sg fuel Ps = some Ps'
  | 0, Ps, hn, hs, hf => by
    unfold detSat
    split
    · exact ⟨Ps, rfl⟩
    · next hc =>
      exfalso
      obtain ⟨p, hp, hpn⟩ := exists_new_of_not_closed hc
      have hn' : (p :: Ps).Nodup := List.nodup_cons.mpr ⟨hpn, hn⟩
      have hs' : AllSmall A (p :: Ps) := by
        intro Q hQ
        rcases List.mem_cons.mp hQ with rfl | hQ
        · exact detStep_small A Sg Ps _ hp
        · exact hs Q hQ
      have := hs'.length_le hn'
      simp only [List.length_cons] at this
      omega
  | fuel+1, Ps, hn, hs, hf => by
    unfold detSat
    split
    · exact ⟨Ps, rfl⟩
    · next hc =>
      obtain ⟨p, hp, hpn⟩ := exists_new_of_not_closed hc
      apply detSat_total fuel _ (unionM_nodup hn)
      · intro Q hQ
        rcases mem_unionM.mp hQ with hQ | hQ
        · exact hs Q hQ
        · exact detStep_small A Sg Ps Q hQ
      · have hn' : (p :: Ps).Nodup := List.nodup_cons.mpr ⟨hpn, hn⟩
        have : (p :: Ps).length ≤ (unionM Ps (detStep A Sg Ps)).length := by
          apply hn'.length_le_of_subset
          intro Q hQ
          rcases List.mem_cons.mp hQ with rfl | hQ
          · exact mem_unionM.mpr (Or.inr hp)
          · exact mem_unionM.mpr (Or.inl hQ)
        simp only [List.length_cons] at this
        omega

/-- with `2 ^ |states A|` units of fuel the reference returns an automaton -/
theorem complRef_total {A : TA} {Sg : List (Nat × Nat)} {fuel : Nat} (h : 2 ^ A.states.length ≤ fuel) :
    ∃ C, complRef A Sg fuel = some C := by
  obtain ⟨Ps, hPs⟩ := detSat_total (A := A) (Sg := Sg) fuel [] List.nodup_nil (fun _ h => nomatch h)
    (by have := pow_stU_le A; simp only [List.length_nil]; omega)
  unfold complRef
  rw [hPs]
  exact ⟨_, rfl⟩

/-! ### unconditional forms -/

/-- the model, run with the fuel bound, returns the complement of `A` over `Sg` -/
theorem complTD_correct (A : TA) (Sg : List (Nat × Nat)) :
    ∃ C, complTD A Sg (2 ^ A.states.length + 1) = some C ∧
      ∀ t, (overSig Sg t = true → accepts C t = !accepts A t) ∧ (overSig Sg t = false → accepts C t = false) := by
  obtain ⟨C, hC⟩ := complTD_total (A := A) (Sg := Sg) (Nat.le_refl _)
  exact ⟨C, hC, complTD_spec hC⟩

/-- the reference, run with the fuel bound, returns the complement of `A` over `Sg` -/
theorem complRef_correct (A : TA) (Sg : List (Nat × Nat)) :
    ∃ C, complRef A Sg (2 ^ A.states.length) = some C ∧
      ∀ t, (overSig Sg t = true → accepts C t = !accepts A t) ∧ (overSig Sg t = false → accepts C t = false) := by
  obtain ⟨C, hC⟩ := complRef_total (A := A) (Sg := Sg) (Nat.le_refl _)
  exact ⟨C, hC, complRef_spec hC⟩

/-- the model and the reference agree on the language whenever both return -/
theorem complTD_equiv_complRef {A : TA} {Sg : List (Nat × Nat)} {f₁ f₂ : Nat} {C D : TA}
    (h₁ : complTD A Sg f₁ = some C) (h₂ : complRef A Sg f₂ = some D) : ∀ t, accepts C t = accepts D t := by
  intro t
  obtain ⟨c1, c2⟩ := complTD_spec h₁ t
  obtain ⟨d1, d2⟩ := complRef_spec h₂ t
  cases ho : overSig Sg t with
  | true => rw [c1 ho, d1 ho]
  | false => rw [c2 ho, d2 ho]

/-- non-vacuity of the fuel bounds: `aLeft` has three states, so `9` resp. `8` units suffice -/
example : 2 ^ Ex.aLeft.states.length + 1 ≤ 9 := by decide

end Compl
end Vata
