import Vata.CliArgs
/-!
# The command line of the `vata` binary – theorems about the model `Vata/CliArgs.lean`
-/
namespace Vata.CliArgs
open Vata.Dispatch (fAlg fDir fCache fRec fSim fOrder fEquiv)

/-! ## `std::string::operator<` is a strict total order; `std::map` -/

theorem ltStr_irrefl : ∀ a : Str, ltStr a a = false
  | [] => rfl
  | c :: r => by simp [ltStr, ltStr_irrefl r]

theorem ltStr_trans : ∀ {a b c : Str}, ltStr a b = true → ltStr b c = true → ltStr a c = true
  | [], [], _, h, _ => by simp [ltStr] at h
  | [], _ :: _, [], _, h => by simp [ltStr] at h
  | [], _ :: _, _ :: _, _, _ => rfl
  | _ :: _, [], _, h, _ => by simp [ltStr] at h
  | _ :: _, _ :: _, [], _, h => by simp [ltStr] at h
  | x :: a, y :: b, z :: c, h₁, h₂ => by
    simp only [ltStr] at h₁ h₂ ⊢
    split at h₁
    · split at h₂
      · have : x.toNat < z.toNat := by omega
        simp [this]
      · split at h₂
        · simp at h₂
        · have : x.toNat < z.toNat := by omega
          simp [this]
    · split at h₁
      · simp at h₁
      · split at h₂
        · have : x.toNat < z.toNat := by omega
          simp [this]
        · split at h₂
          · simp at h₂
          · have h1 : ¬ x.toNat < z.toNat := by omega
            have h2 : ¬ z.toNat < x.toNat := by omega
            simp [h1, h2, ltStr_trans h₁ h₂]

/-- trichotomy -/
theorem ltStr_total : ∀ {a b : Str}, ltStr a b = false → a ≠ b → ltStr b a = true
  | [], [], _, h => absurd rfl h
  | [], _ :: _, h, _ => by simp [ltStr] at h
  | _ :: _, [], _, _ => rfl
  | x :: a, y :: b, h, hne => by
    simp only [ltStr] at h ⊢
    split at h
    · simp at h
    · split at h
      · rename_i h1 h2
        simp [h2]
      · rename_i h1 h2
        have hxy : x = y := Char.toNat_inj.mp (by omega)
        subst hxy
        simp only [Nat.lt_irrefl, if_false]
        exact ltStr_total h (fun e => hne (by rw [e]))

theorem ltStr_asymm {a b : Str} (h : ltStr a b = true) : ltStr b a = false := by
  cases hb : ltStr b a with
  | false => rfl
  | true => have := ltStr_trans h hb; rw [ltStr_irrefl] at this; cases this

theorem ltStr_ne {a b : Str} (h : ltStr a b = true) : a ≠ b := by
  intro e; subst e; rw [ltStr_irrefl] at h; cases h

/-- the representation invariant of `std::map`: strictly increasing keys -/
def SortedMap {β : Type} (m : SMap β) : Prop := m.Pairwise (fun e f => ltStr e.1 f.1 = true)

instance {β : Type} (m : SMap β) : Decidable (SortedMap m) := by unfold SortedMap; infer_instance

theorem sortedMap_nil {β : Type} : SortedMap ([] : SMap β) := List.Pairwise.nil

theorem mapFind_nil {β : Type} (k : Str) : mapFind ([] : SMap β) k = none := rfl

theorem mapFind_cons {β : Type} (k k' : Str) (v : β) (m : SMap β) :
    mapFind ((k', v) :: m) k = if k' = k then some v else mapFind m k := by
  simp only [mapFind, List.find?_cons]
  by_cases h : k' = k <;> simp [h]

/-- a key smaller than the first key of a sorted map is not in it -/
theorem mapFind_lt_head {β : Type} {k k' : Str} {v : β} {m : SMap β} (hs : SortedMap ((k', v) :: m))
    (h : ltStr k k' = true) : mapFind ((k', v) :: m) k = none := by
  rw [mapFind_cons, if_neg (fun e => ltStr_ne h e.symm)]
  have hs' := List.pairwise_cons.mp hs
  induction m with
  | nil => rfl
  | cons e m ih =>
    obtain ⟨k'', v''⟩ := e
    have hk : ltStr k k'' = true := ltStr_trans h (hs'.1 _ List.mem_cons_self)
    rw [mapFind_cons, if_neg (fun e => ltStr_ne hk e.symm)]
    apply ih
    · exact List.Pairwise.sublist (List.Sublist.cons_cons _ (List.sublist_cons_self _ _)) hs
    · exact ⟨fun a ha => hs'.1 a (List.mem_cons_of_mem _ ha), (List.pairwise_cons.mp hs'.2).2⟩

/-- `insert` reports "inserted" iff the key was absent -/
theorem mapInsert_snd {β : Type} (k : Str) (v : β) : ∀ {m : SMap β}, SortedMap m →
    (mapInsert k v m).2 = (mapFind m k).isNone
  | [], _ => rfl
  | (k', v') :: m, hs => by
    simp only [mapInsert]
    by_cases h1 : k = k'
    · simp [h1, mapFind_cons]
    · by_cases h2 : ltStr k k' = true
      · simp [h1, h2, mapFind_lt_head hs h2]
      · have h1' : ¬ k' = k := fun e => h1 e.symm
        simp only [h1, h2, if_false, Bool.false_eq_true, mapFind_cons, h1']
        exact mapInsert_snd k v (List.pairwise_cons.mp hs).2

theorem mapInsert_keys {β : Type} (k : Str) (v : β) : ∀ (m : SMap β) (e : Str × β),
    e ∈ (mapInsert k v m).1 → e = (k, v) ∨ e ∈ m
  | [], e, h => by simp [mapInsert] at h; exact Or.inl h
  | (k', v') :: m, e, h => by
    simp only [mapInsert] at h
    by_cases h1 : k = k'
    · simp only [h1, if_true] at h; exact Or.inr h
    · by_cases h2 : ltStr k k' = true
      · simp only [h1, h2, if_false, if_true] at h
        rcases List.mem_cons.mp h with h | h
        · exact Or.inl h
        · exact Or.inr h
      · simp only [h1, h2, if_false, Bool.false_eq_true] at h
        rcases List.mem_cons.mp h with h | h
        · exact Or.inr (h ▸ List.mem_cons_self)
        · rcases mapInsert_keys k v m e h with h | h
          · exact Or.inl h
          · exact Or.inr (List.mem_cons_of_mem _ h)

/-- `insert` keeps the invariant -/
theorem mapInsert_sorted {β : Type} (k : Str) (v : β) : ∀ {m : SMap β}, SortedMap m → SortedMap (mapInsert k v m).1
  | [], _ => by simp [mapInsert, SortedMap]
  | (k', v') :: m, hs => by
    simp only [mapInsert]
    by_cases h1 : k = k'
    · simpa [h1] using hs
    · by_cases h2 : ltStr k k' = true
      · simp only [h1, h2, if_false, if_true]
        refine List.pairwise_cons.mpr ⟨?_, hs⟩
        intro e he
        rcases List.mem_cons.mp he with he | he
        · rw [he]; exact h2
        · exact ltStr_trans h2 ((List.pairwise_cons.mp hs).1 e he)
      · simp only [h1, h2, if_false, Bool.false_eq_true]
        have hs' := List.pairwise_cons.mp hs
        refine List.pairwise_cons.mpr ⟨?_, mapInsert_sorted k v hs'.2⟩
        intro e he
        rcases mapInsert_keys k v m e he with he | he
        · rw [he]; exact ltStr_total (a := k) (b := k') (by simpa using h2) h1
        · exact hs'.1 e he

/-- `insert` does not overwrite: the key keeps its old value if it had one, other keys are untouched -/
theorem mapFind_insert {β : Type} (k : Str) (v : β) (k₂ : Str) : ∀ {m : SMap β}, SortedMap m →
    mapFind (mapInsert k v m).1 k₂ = if k₂ = k then some ((mapFind m k).getD v) else mapFind m k₂
  | [], _ => by
    simp only [mapInsert, mapFind_cons, mapFind_nil, Option.getD_none]
    by_cases h : k₂ = k
    · simp [h]
    · have : ¬ k = k₂ := fun e => h e.symm
      simp [h, this]
  | (k', v') :: m, hs => by
    simp only [mapInsert]
    by_cases h1 : k = k'
    · subst h1
      simp only [if_true, mapFind_cons]
      by_cases h : k₂ = k
      · simp [h]
      · have : ¬ k = k₂ := fun e => h e.symm
        simp [h, this]
    · by_cases h2 : ltStr k k' = true
      · simp only [h1, h2, if_false, if_true]
        rw [mapFind_lt_head hs h2, mapFind_cons]
        by_cases h : k₂ = k
        · simp [h]
        · have : ¬ k = k₂ := fun e => h e.symm
          simp [h, this]
      · simp only [h1, h2, if_false, Bool.false_eq_true]
        have h1' : ¬ k' = k := fun e => h1 e.symm
        rw [mapFind_cons, mapFind_insert k v k₂ (List.pairwise_cons.mp hs).2, mapFind_cons, mapFind_cons, if_neg h1']
        by_cases h : k' = k₂
        · have : ¬ k₂ = k := fun e => h1' (h.trans e)
          simp [h, this]
        · simp [h]

theorem withDefault_sorted (k v : String) {m : Options} (hs : SortedMap m) : SortedMap (withDefault k v m) :=
  mapInsert_sorted _ _ hs

/-- `options[k]` after `options.insert(make_pair(d, v))` -/
theorem mapGet_withDefault (d v : String) (k : Str) {m : Options} (hs : SortedMap m) :
    mapGet (withDefault d v m) k = if k = lit d then (mapFind m k).getD (lit v) else mapGet m k := by
  unfold mapGet withDefault
  rw [mapFind_insert _ _ _ hs]
  by_cases h : k = lit d
  · simp [h]
  · simp [h]

/-! ## `parseArguments`: the pointer-level loop never reads outside `argv` and is the list-level loop -/

theorem stepWord_ne_two (cur : Str) (st st' : St) : stepWord cur st ≠ .two st' := by
  unfold stepWord
  cases st.ps <;> simp only []
  · split
    · simp
    · split
      · simp
      · split <;> simp
  all_goals simp

/-- an element that does not make the loop read a second one: the second one is irrelevant, and one element is consumed -/
theorem stepArg_not_readsNext {cur : Str} {st : St} (h : readsNext cur st = false) (next : Option Str) :
    stepArg cur next st = stepArg cur none st ∧ ∀ st', stepArg cur none st ≠ .two st' := by
  unfold readsNext at h
  unfold stepArg
  cases hc : classify cur <;> simp only [hc] at h ⊢
  case word => exact ⟨by trivial, stepWord_ne_two cur st⟩
  case repr | inFmt | outFmt | opts =>
    simp only [Bool.not_eq_eq_eq_not, Bool.not_false] at h
    simp [h]
  case bothFmt =>
    simp only [Bool.not_eq_eq_eq_not, Bool.not_false] at h
    simp [h]
  all_goals (refine ⟨by trivial, ?_⟩; intro st'; first | (split <;> simp) | simp)

/-- a flag with an argument as the last element: `The '-x' flag needs an argument.` -/
theorem stepArg_readsNext_none {cur : Str} {st : St} (h : readsNext cur st = true) :
    ∃ m, stepArg cur none st = .err m := by
  unfold readsNext at h
  unfold stepArg
  cases hc : classify cur <;> simp only [hc] at h ⊢
  case repr | inFmt | outFmt | opts | bothFmt =>
    simp only [Bool.not_eq_eq_eq_not, Bool.not_true, Bool.or_eq_false_iff] at h
    simp [h, flagArg]
  all_goals (exact absurd h (by decide))

theorem drop_take_succ {α : Type} (l : List α) (pos n : Nat) (h : pos < l.length) :
    (l.drop pos).take (n + 1) = l[pos] :: (l.drop (pos + 1)).take n := by
  rw [List.drop_eq_getElem_cons h, List.take_succ_cons]

/-- the loop on `argc` / `argv` with explicit reads computes the list-level loop on `argv[pos .. pos + argc)`, provided
that range lies inside the vector; in particular it never yields `outOfBounds` -/
theorem parseRaw_eq (argv : List Str) : ∀ (n pos : Nat) (st : St), pos + n ≤ argv.length →
    parseRaw argv n pos st = Raw.ofExcept (parseLoop ((argv.drop pos).take n) st) := by
  intro n
  induction n using Nat.strongRecOn with
  | _ n ih =>
    intro pos st hle
    cases n with
    | zero => simp [parseRaw, parseLoop]
    | succ n =>
      have hpos : pos < argv.length := by omega
      rw [drop_take_succ argv pos n hpos]
      unfold parseRaw
      simp only [List.getElem?_eq_getElem hpos]
      by_cases hr : readsNext argv[pos] st = true
      · simp only [hr, if_true]
        cases n with
        | zero =>
          obtain ⟨m, hm⟩ := stepArg_readsNext_none hr
          simp [parseLoop, hm, Raw.ofExcept]
        | succ m =>
          have hpos1 : pos + 1 < argv.length := by omega
          rw [drop_take_succ argv (pos + 1) m hpos1]
          simp only [List.getElem?_eq_getElem hpos1, parseLoop]
          cases hs : stepArg argv[pos] (some argv[pos + 1]) st with
          | brk st' => rfl
          | one st' =>
            simp only []
            rw [ih (m + 1) (by omega) (pos + 1) st' (by omega), drop_take_succ argv (pos + 1) m hpos1]
          | two st' =>
            simp only []
            rw [ih m (by omega) (pos + 2) st' (by omega)]
          | err e => rfl
      · have hr' : readsNext argv[pos] st = false := by simpa using hr
        simp only [hr', Bool.false_eq_true, if_false]
        cases n with
        | zero =>
          simp only [List.take_zero, parseLoop]
          cases hs : stepArg argv[pos] none st with
          | brk st' => rfl
          | one st' => simp [parseRaw]
          | two st' => exact absurd hs ((stepArg_not_readsNext hr' none).2 st')
          | err e => rfl
        | succ m =>
          have hpos1 : pos + 1 < argv.length := by omega
          rw [drop_take_succ argv (pos + 1) m hpos1]
          simp only [parseLoop, (stepArg_not_readsNext hr' (some argv[pos + 1])).1]
          cases hs : stepArg argv[pos] none st with
          | brk st' => rfl
          | one st' =>
            simp only []
            rw [ih (m + 1) (by omega) (pos + 1) st' (by omega), drop_take_succ argv (pos + 1) m hpos1]
          | two st' => exact absurd hs ((stepArg_not_readsNext hr' none).2 st')
          | err e => rfl

/-- `parseArguments(argc, argv)` with the `argc` the C runtime passes -/
theorem parseRaw_full (argv : List Str) : parseRaw argv argv.length 0 {} = Raw.ofExcept (parse argv) := by
  rw [parseRaw_eq argv argv.length 0 {} (by omega)]
  simp [parse]

/-- … and with any smaller `argc`: exactly the first `argc` elements are looked at -/
theorem parseRaw_prefix (argv : List Str) (argc : Nat) (h : argc ≤ argv.length) :
    parseRaw argv argc 0 {} = Raw.ofExcept (parse (argv.take argc)) := by
  rw [parseRaw_eq argv argc 0 {} (by omega)]
  simp [parse]

theorem ofExcept_ne_oob (r : Except Str Arguments) (i : Nat) : Raw.ofExcept r ≠ .outOfBounds i := by
  cases r <;> simp [Raw.ofExcept]

/-- no `argv` vector makes `parseArguments` read past its end -/
theorem parseRaw_in_bounds (argv : List Str) (argc : Nat) (h : argc ≤ argv.length) (i : Nat) :
    parseRaw argv argc 0 {} ≠ .outOfBounds i := by
  rw [parseRaw_prefix argv argc h]; exact ofExcept_ne_oob _ _

/-! ## the `-o` list -/

theorem takeWhile_ne_append (c : Char) : ∀ (k v : Str), c ∉ k → (k ++ c :: v).takeWhile (· != c) = k
  | [], v, _ => by simp
  | x :: k, v, h => by
    have hx : x ≠ c := fun e => h (e ▸ List.mem_cons_self)
    have hk : c ∉ k := fun e => h (List.mem_cons_of_mem _ e)
    simp [hx, takeWhile_ne_append c k v hk]

theorem dropWhile_ne_append (c : Char) : ∀ (k v : Str), c ∉ k → (k ++ c :: v).dropWhile (· != c) = c :: v
  | [], v, _ => by simp
  | x :: k, v, h => by
    have hx : x ≠ c := fun e => h (e ▸ List.mem_cons_self)
    have hk : c ∉ k := fun e => h (List.mem_cons_of_mem _ e)
    simp [hx, dropWhile_ne_append c k v hk]

theorem dropWhile_ne_nil (c : Char) : ∀ (o : Str), o.dropWhile (· != c) = [] → c ∉ o
  | [], _ => by simp
  | x :: o, h => by
    by_cases hx : x = c
    · simp [hx] at h
    · simp only [List.dropWhile_cons, bne_iff_ne, ne_eq, hx, not_false_eq_true, if_true] at h
      have := dropWhile_ne_nil c o h
      simp only [List.mem_cons, not_or]
      exact ⟨fun e => hx e.symm, this⟩

theorem dropWhile_ne_of_not_mem (c : Char) : ∀ (o : Str), c ∉ o → o.dropWhile (· != c) = []
  | [], _ => rfl
  | x :: o, h => by
    have hx : x ≠ c := fun e => h (e ▸ List.mem_cons_self)
    have ho : c ∉ o := fun e => h (List.mem_cons_of_mem _ e)
    simp [hx, dropWhile_ne_of_not_mem c o ho]

theorem not_mem_takeWhile_ne (c : Char) : ∀ (o : Str), c ∉ o.takeWhile (· != c)
  | [] => by simp
  | x :: o => by
    by_cases hx : x = c
    · simp [hx]
    · simp only [List.takeWhile_cons, bne_iff_ne, ne_eq, hx, not_false_eq_true, if_true, List.mem_cons, not_or]
      exact ⟨fun e => hx e.symm, not_mem_takeWhile_ne c o⟩

theorem dropWhile_ne_head (c : Char) : ∀ (o : Str) (x : Char) (r : Str), o.dropWhile (· != c) = x :: r → x = c
  | [], _, _, h => by simp at h
  | y :: o, x, r, h => by
    by_cases hy : y = c
    · simp [hy] at h; exact h.1.symm
    · simp only [List.dropWhile_cons, bne_iff_ne, ne_eq, hy, not_false_eq_true, if_true] at h
      exact dropWhile_ne_head c o x r h

/-- what `processOption` accepts: a non-empty piece without `=` (the value is then the EMPTY string), or `name=value` cut
at the FIRST `=` with both sides non-empty (the value may contain further `=`) -/
theorem processOption_ok_iff (o k v : Str) : processOption o = .ok (k, v) ↔
    (o ≠ [] ∧ '=' ∉ o ∧ k = o ∧ v = []) ∨ (k ≠ [] ∧ v ≠ [] ∧ '=' ∉ k ∧ o = k ++ '=' :: v) := by
  constructor
  · intro h
    unfold processOption at h
    by_cases ho : o = []
    · simp [ho] at h
    · simp only [ho, if_false] at h
      split at h
      · rename_i hd
        simp only [Except.ok.injEq, Prod.mk.injEq] at h
        exact Or.inl ⟨ho, dropWhile_ne_nil '=' o hd, h.1.symm, h.2.symm⟩
      · rename_i x value hd
        split at h
        · simp at h
        · rename_i hne
          simp only [not_or] at hne
          simp only [Except.ok.injEq, Prod.mk.injEq] at h
          have hx := dropWhile_ne_head '=' o x value hd
          have hsplit := List.takeWhile_append_dropWhile (p := (· != '=')) (l := o)
          rw [hd, h.1, h.2, hx] at hsplit
          refine Or.inr ⟨h.1 ▸ hne.1, h.2 ▸ hne.2, h.1 ▸ not_mem_takeWhile_ne '=' o, hsplit.symm⟩
  · rintro (⟨ho, hne, hk, hv⟩ | ⟨hk, hv, hne, ho⟩)
    · unfold processOption
      have hd : o.dropWhile (· != '=') = [] := dropWhile_ne_of_not_mem '=' o hne
      simp [ho, hd, hk, hv]
    · unfold processOption
      have ho' : o ≠ [] := by rw [ho]; cases k <;> simp
      simp only [ho', if_false]
      rw [ho, dropWhile_ne_append '=' k v hne, takeWhile_ne_append '=' k v hne]
      simp [hk, hv]

/-- the error texts of `processOption` -/
theorem processOption_error (o e : Str) (h : processOption o = .error e) :
    e = lit "Malformed options: '" ++ o ++ lit "'" ∨ e = lit "Malformed option: '" ++ o ++ lit "'" := by
  unfold processOption at h
  split at h
  · simp only [Except.error.injEq] at h; exact Or.inl h.symm
  · split at h
    · simp at h
    · split at h
      · simp only [Except.error.injEq] at h; exact Or.inr h.symm
      · simp at h

/-- `processOption` on every piece, in order -/
def piecesKV : List Str → Except Str (List (Str × Str))
  | [] => .ok []
  | p :: ps =>
    match processOption p with
    | .error e => .error e
    | .ok kv =>
      match piecesKV ps with
      | .error e => .error e
      | .ok r => .ok (kv :: r)

/-- inserting a list of pairs with `insert` (no overwrite) -/
def insertAll (kvs : List (Str × Str)) (m : Options) : Options :=
  kvs.foldl (fun m e => (mapInsert e.1 e.2 m).1) m

theorem insertAll_sorted : ∀ (kvs : List (Str × Str)) {m : Options}, SortedMap m → SortedMap (insertAll kvs m)
  | [], _, h => h
  | e :: kvs, _, h => insertAll_sorted kvs (mapInsert_sorted e.1 e.2 h)

/-- looking up in the result: the FIRST pair with the key wins, unless the map already had the key -/
theorem mapFind_insertAll : ∀ (kvs : List (Str × Str)) {m : Options}, SortedMap m → ∀ k,
    mapFind (insertAll kvs m) k = match mapFind m k with
      | some v => some v
      | none => (kvs.find? (fun e => e.1 = k)).map (·.2)
  | [], m, _, k => by cases h : mapFind m k <;> simp [insertAll, h]
  | e :: kvs, m, hs, k => by
    show mapFind (insertAll kvs (mapInsert e.1 e.2 m).1) k = _
    rw [mapFind_insertAll kvs (mapInsert_sorted e.1 e.2 hs) k, mapFind_insert e.1 e.2 k hs]
    by_cases hk : k = e.1
    · subst hk
      cases h : mapFind m e.1 <;> simp
    · have hk' : ¬ e.1 = k := fun x => hk x.symm
      cases h : mapFind m k <;> simp [hk, hk']

/-- the `-o` loop succeeds exactly when every piece is accepted by `processOption` and no option name occurs twice (nor is
already in the map); the result is the map holding the pairs -/
theorem insertPieces_ok_iff : ∀ (ps : List Str) {m : Options} (m' : Options), SortedMap m →
    (insertPieces ps m = .ok m' ↔ ∃ kvs, piecesKV ps = .ok kvs ∧ (kvs.map (·.1)).Nodup ∧
      (∀ e, e ∈ kvs → mapFind m e.1 = none) ∧ m' = insertAll kvs m)
  | [], m, m', _ => by
    simp only [insertPieces, Except.ok.injEq, piecesKV]
    constructor
    · intro h; exact ⟨[], rfl, by simp, by simp, h.symm⟩
    · rintro ⟨kvs, h, _, _, h'⟩; cases h; exact h'.symm
  | p :: ps, m, m', hs => by
    simp only [insertPieces, piecesKV]
    cases hp : processOption p with
    | error e => simp
    | ok kv =>
      obtain ⟨k, v⟩ := kv
      simp only []
      have hsnd := mapInsert_snd k v hs
      by_cases hf : (mapInsert k v m).2 = true
      · have hnone : mapFind m k = none := by
          rw [hf] at hsnd; cases hx : mapFind m k <;> simp [hx] at hsnd ⊢
        simp only [hf, if_true]
        rw [insertPieces_ok_iff ps m' (mapInsert_sorted k v hs)]
        constructor
        · rintro ⟨kvs, h1, h2, h3, h4⟩
          refine ⟨(k, v) :: kvs, by simp [h1], ?_, ?_, by simpa [insertAll] using h4⟩
          · simp only [List.map_cons, List.nodup_cons]
            refine ⟨?_, h2⟩
            intro hmem
            obtain ⟨e, he, hek⟩ := List.mem_map.mp hmem
            have := h3 e he
            rw [mapFind_insert k v e.1 hs, if_pos hek] at this
            simp at this
          · intro e he
            rcases List.mem_cons.mp he with he | he
            · rw [he]; exact hnone
            · have := h3 e he
              rw [mapFind_insert k v e.1 hs] at this
              by_cases hek : e.1 = k
              · rw [if_pos hek] at this; simp at this
              · rw [if_neg hek] at this; exact this
        · rintro ⟨kvs, h1, h2, h3, h4⟩
          cases hq : piecesKV ps with
          | error e => simp [hq] at h1
          | ok r =>
            simp only [hq, Except.ok.injEq] at h1
            subst h1
            simp only [List.map_cons, List.nodup_cons] at h2
            refine ⟨r, rfl, h2.2, ?_, by simpa [insertAll] using h4⟩
            intro e he
            rw [mapFind_insert k v e.1 hs]
            have hek : ¬ e.1 = k := fun x => h2.1 (x ▸ List.mem_map_of_mem he)
            rw [if_neg hek]
            exact h3 e (List.mem_cons_of_mem _ he)
      · have hsome : mapFind m k ≠ none := by
          intro hx; rw [hx] at hsnd; simp at hsnd; exact hf hsnd
        simp only [hf, if_false, Bool.false_eq_true]
        constructor
        · intro h; simp at h
        · rintro ⟨kvs, h1, _, h3, _⟩
          cases hq : piecesKV ps with
          | error e => simp [hq] at h1
          | ok r =>
            simp only [hq, Except.ok.injEq] at h1
            subst h1
            exact absurd (h3 (k, v) List.mem_cons_self) hsome

/-- the error texts of the `-o` loop -/
theorem insertPieces_error : ∀ (ps : List Str) (m : Options) (e : Str), insertPieces ps m = .error e →
    ∃ p, p ∈ ps ∧ (e = lit "Malformed options: '" ++ p ++ lit "'" ∨ e = lit "Malformed option: '" ++ p ++ lit "'" ∨
      ∃ k v, processOption p = .ok (k, v) ∧ e = lit "Option for '" ++ k ++ lit "' specified more than once")
  | [], _, _, h => by simp [insertPieces] at h
  | p :: ps, m, e, h => by
    simp only [insertPieces] at h
    cases hp : processOption p with
    | error e' =>
      simp only [hp, Except.error.injEq] at h
      subst h
      rcases processOption_error p e' hp with h | h
      · exact ⟨p, List.mem_cons_self, Or.inl h⟩
      · exact ⟨p, List.mem_cons_self, Or.inr (Or.inl h)⟩
    | ok kv =>
      obtain ⟨k, v⟩ := kv
      simp only [hp] at h
      split at h
      · obtain ⟨q, hq, hr⟩ := insertPieces_error ps _ e h
        exact ⟨q, List.mem_cons_of_mem _ hq, hr⟩
      · simp only [Except.error.injEq] at h
        exact ⟨p, List.mem_cons_self, Or.inr (Or.inr ⟨k, v, hp, h.symm⟩)⟩

/-! ## the option handling of `CheckInclusion` -/

/-- the value `CheckInclusion` sees for an option: what `-o` gave, else the inserted default -/
def optVal (m : Options) (k d : String) : Str := (mapFind m (lit k)).getD (lit d)

theorem mapFind_withDefault (d v : String) (k : Str) {m : Options} (hs : SortedMap m) :
    mapFind (withDefault d v m) k = if k = lit d then some ((mapFind m k).getD (lit v)) else mapFind m k := by
  unfold withDefault
  rw [mapFind_insert _ _ _ hs]
  by_cases h : k = lit d <;> simp [h]

theorem inclDefaults_sorted {m : Options} (hs : SortedMap m) : SortedMap (inclDefaults m) := by
  unfold inclDefaults
  repeat apply withDefault_sorted
  exact hs

/-- after the seven `insert`s every inclusion option has a value: the user's if given, else the default -/
theorem mapGet_inclDefaults {m : Options} (hs : SortedMap m) :
    mapGet (inclDefaults m) (lit "alg") = optVal m "alg" "antichains" ∧
    mapGet (inclDefaults m) (lit "dir") = optVal m "dir" "up" ∧
    mapGet (inclDefaults m) (lit "rec") = optVal m "rec" "no" ∧
    mapGet (inclDefaults m) (lit "optC") = optVal m "optC" "no" ∧
    mapGet (inclDefaults m) (lit "sim") = optVal m "sim" "no" ∧
    mapGet (inclDefaults m) (lit "order") = optVal m "order" "depth" ∧
    mapGet (inclDefaults m) (lit "timeS") = optVal m "timeS" "yes" := by
  have h1 := withDefault_sorted "sim" "no" hs
  have h2 := withDefault_sorted "dir" "up" h1
  have h3 := withDefault_sorted "optC" "no" h2
  have h4 := withDefault_sorted "timeS" "yes" h3
  have h5 := withDefault_sorted "rec" "no" h4
  have h6 := withDefault_sorted "alg" "antichains" h5
  unfold inclDefaults mapGet optVal
  refine ⟨?_, ?_, ?_, ?_, ?_, ?_, ?_⟩ <;>
    rw [mapFind_withDefault _ _ _ h6, mapFind_withDefault _ _ _ h5, mapFind_withDefault _ _ _ h4,
      mapFind_withDefault _ _ _ h3, mapFind_withDefault _ _ _ h2, mapFind_withDefault _ _ _ h1,
      mapFind_withDefault _ _ _ hs] <;>
    simp (config := { decide := true }) only [if_true, if_false, Option.getD_some]

theorem choose_ok_iff (m : Options) (k a b : String) (err : Str) (hab : lit a ≠ lit b) (x : Bool) :
    choose m k a b err = .ok x ↔ mapGet m (lit k) = (if x then lit b else lit a) := by
  unfold choose
  by_cases h1 : mapGet m (lit k) = lit a
  · cases x
    · simp [h1]
    · simp only [h1, if_true, Except.ok.injEq, Bool.false_eq_true, false_iff]
      exact hab
  · by_cases h2 : mapGet m (lit k) = lit b
    · have hba : ¬ lit b = lit a := fun e => hab e.symm
      cases x <;> simp [h2, hba]
    · cases x <;> simp [h1, h2]

theorem choose_error (m : Options) (k a b : String) (err e : Str) (h : choose m k a b err = .error e) : e = err := by
  unfold choose at h
  split at h
  · simp at h
  · split at h
    · simp at h
    · simp only [Except.error.injEq] at h; exact h.symm

theorem bind_eq_ok {α β : Type} (x : Except Str α) (f : α → Except Str β) (b : β) :
    x.bind f = .ok b ↔ ∃ a, x = .ok a ∧ f a = .ok b := by
  cases x <;> simp [Except.bind]

theorem bind_eq_error {α β : Type} (x : Except Str α) (f : α → Except Str β) (e : Str) :
    x.bind f = .error e ↔ x = .error e ∨ ∃ a, x = .ok a ∧ f a = .error e := by
  cases x <;> simp [Except.bind]

theorem choose_err_irrel (m : Options) (k a b : String) (e₁ e₂ : Str) (x : Bool) (h : choose m k a b e₁ = .ok x) :
    choose m k a b e₂ = .ok x := by
  unfold choose at h ⊢
  by_cases h1 : mapGet m (lit k) = lit a
  · simpa [h1] using h
  · by_cases h2 : mapGet m (lit k) = lit b
    · simpa [h1, h2] using h
    · simp [h1, h2] at h

/-- the seven blocks in sequence -/
theorem checkInclusionOpts_ok_iff' (opts : Options) (c : InclChoice) :
    checkInclusionOpts opts = .ok c ↔
      ∃ err, choose (inclDefaults opts) "alg" "antichains" "congr" err = .ok c.congr ∧
        choose (inclDefaults opts) "dir" "up" "down" err = .ok c.down ∧
        choose (inclDefaults opts) "rec" "no" "yes" err = .ok c.recursive ∧
        choose (inclDefaults opts) "optC" "no" "yes" err = .ok c.cache ∧
        choose (inclDefaults opts) "sim" "no" "yes" err = .ok c.sim ∧
        choose (inclDefaults opts) "order" "depth" "breadth" err = .ok c.breadth ∧
        choose (inclDefaults opts) "timeS" "no" "yes" err = .ok c.timeS := by
  unfold checkInclusionOpts
  simp only [bind_eq_ok, Except.ok.injEq]
  constructor
  · rintro ⟨a1, h1, a2, h2, a3, h3, a4, h4, a5, h5, a6, h6, a7, h7, rfl⟩
    exact ⟨_, h1, h2, h3, h4, h5, h6, h7⟩
  · rintro ⟨err, h1, h2, h3, h4, h5, h6, h7⟩
    exact ⟨_, choose_err_irrel _ _ _ _ _ _ _ h1, _, choose_err_irrel _ _ _ _ _ _ _ h2, _, choose_err_irrel _ _ _ _ _ _ _ h3,
      _, choose_err_irrel _ _ _ _ _ _ _ h4, _, choose_err_irrel _ _ _ _ _ _ _ h5, _, choose_err_irrel _ _ _ _ _ _ _ h6,
      _, choose_err_irrel _ _ _ _ _ _ _ h7, rfl⟩

/-- **what `CheckInclusion` accepts**: the options map is accepted iff each of the seven inclusion options – the user's
value if `-o` gave one, else the default – is EXACTLY one of its two words (case-sensitive, no surrounding blanks; an
option given without `=value` has the value `""` and is rejected); every other option name is ignored.  The choice is
then determined by the values. -/
theorem checkInclusionOpts_ok_iff {opts : Options} (hs : SortedMap opts) (c : InclChoice) :
    checkInclusionOpts opts = .ok c ↔
      optVal opts "alg" "antichains" = (if c.congr then lit "congr" else lit "antichains") ∧
      optVal opts "dir" "up" = (if c.down then lit "down" else lit "up") ∧
      optVal opts "rec" "no" = (if c.recursive then lit "yes" else lit "no") ∧
      optVal opts "optC" "no" = (if c.cache then lit "yes" else lit "no") ∧
      optVal opts "sim" "no" = (if c.sim then lit "yes" else lit "no") ∧
      optVal opts "order" "depth" = (if c.breadth then lit "breadth" else lit "depth") ∧
      optVal opts "timeS" "yes" = (if c.timeS then lit "yes" else lit "no") := by
  obtain ⟨g1, g2, g3, g4, g5, g6, g7⟩ := mapGet_inclDefaults hs
  rw [checkInclusionOpts_ok_iff']
  constructor
  · rintro ⟨err, h1, h2, h3, h4, h5, h6, h7⟩
    rw [choose_ok_iff _ _ _ _ _ (by decide)] at h1 h2 h3 h4 h5 h6 h7
    rw [← g1, ← g2, ← g3, ← g4, ← g5, ← g6, ← g7]
    exact ⟨h1, h2, h3, h4, h5, h6, h7⟩
  · rintro ⟨h1, h2, h3, h4, h5, h6, h7⟩
    refine ⟨[], ?_⟩
    rw [← g1] at h1; rw [← g2] at h2; rw [← g3] at h3; rw [← g4] at h4; rw [← g5] at h5; rw [← g6] at h6
    rw [← g7] at h7
    simp only [choose_ok_iff _ _ _ _ _ (by decide : lit "antichains" ≠ lit "congr"),
      choose_ok_iff _ _ _ _ _ (by decide : lit "up" ≠ lit "down"),
      choose_ok_iff _ _ _ _ _ (by decide : lit "no" ≠ lit "yes"),
      choose_ok_iff _ _ _ _ _ (by decide : lit "depth" ≠ lit "breadth")]
    exact ⟨h1, h2, h3, h4, h5, h6, h7⟩

/-- every rejection is `optErrorEx`, whose text lists the whole map after the defaults were inserted -/
theorem checkInclusionOpts_error (opts : Options) (e : Str) (h : checkInclusionOpts opts = .error e) :
    e = lit "Invalid options for inclusion: " ++ showOptions (inclDefaults opts) := by
  unfold checkInclusionOpts at h
  simp only [bind_eq_error] at h
  rcases h with h | ⟨_, _, h | ⟨_, _, h | ⟨_, _, h | ⟨_, _, h | ⟨_, _, h | ⟨_, _, h | ⟨_, _, h⟩⟩⟩⟩⟩⟩⟩
  all_goals first | exact choose_error _ _ _ _ _ _ h | cases h

/-! ## the option word -/

/-- **flag-wise specification of the option word**: each `InclParam` bit is set iff the corresponding option has its
non-default word; the EQUIV bit is never set; (`timeS` is not part of the word) -/
theorem word_spec (c : InclChoice) :
    Vata.Dispatch.has c.word fAlg = c.congr ∧ Vata.Dispatch.has c.word fDir = c.down ∧
    Vata.Dispatch.has c.word fRec = c.recursive ∧ Vata.Dispatch.has c.word fCache = c.cache ∧
    Vata.Dispatch.has c.word fSim = c.sim ∧ Vata.Dispatch.has c.word fOrder = c.breadth ∧
    Vata.Dispatch.has c.word fEquiv = false ∧ c.word < 64 := by
  obtain ⟨a, b, c, d, e, f, g⟩ := c
  cases a <;> cases b <;> cases c <;> cases d <;> cases e <;> cases f <;> cases g <;> decide

/-- … as a sum -/
theorem word_eq_sum (c : InclChoice) :
    c.word = (if c.congr then fAlg else 0) + (if c.down then fDir else 0) + (if c.recursive then fRec else 0) +
      (if c.cache then fCache else 0) + (if c.sim then fSim else 0) + (if c.breadth then fOrder else 0) := by
  obtain ⟨a, b, c, d, e, f, g⟩ := c
  cases a <;> cases b <;> cases c <;> cases d <;> cases e <;> cases f <;> cases g <;> decide

/-- the choice with a given word -/
def choiceOfWord (w : Nat) (timeS : Bool) : InclChoice :=
  ⟨Vata.Dispatch.has w fAlg, Vata.Dispatch.has w fDir, Vata.Dispatch.has w fRec, Vata.Dispatch.has w fCache,
    Vata.Dispatch.has w fSim, Vata.Dispatch.has w fOrder, timeS⟩

/-- the words `CheckInclusion` can produce are exactly the numbers below 64 (all combinations of the six bits other than
EQUIV) -/
theorem word_choiceOfWord : ∀ w, w < 64 → ∀ t, (choiceOfWord w t).word = w := by decide

/-! ## invariants of the parsing loop -/

theorem finish_ok_iff (st : St) (a : Arguments) : finish st = .ok a ↔ st.ps = .done ∧ st.args = a := by
  unfold finish
  by_cases h : st.ps = .done <;> simp [h]

/-- a successful iteration: `break`, or one / two elements consumed -/
def Step.yields (s : Step) (st' : St) : Prop := s = .brk st' ∨ s = .one st' ∨ s = .two st'

/-- induction principle: a property of the local state that holds initially and is kept by every successful iteration holds
for the state the result is taken from -/
theorem parseLoop_inv (P : St → Prop)
    (hstep : ∀ cur next st st', P st → (stepArg cur next st).yields st' → P st') :
    ∀ (n : Nat) (argv : List Str), argv.length = n → ∀ (st : St) (a : Arguments), P st → parseLoop argv st = .ok a →
      ∃ st', P st' ∧ st'.ps = .done ∧ st'.args = a := by
  intro n
  induction n using Nat.strongRecOn with
  | _ n ih =>
    intro argv hn st a hP h
    match argv, hn with
    | [], _ =>
      simp only [parseLoop] at h
      exact ⟨st, hP, (finish_ok_iff st a).mp h⟩
    | [cur], _ =>
      simp only [parseLoop] at h
      cases hs : stepArg cur none st with
      | brk st' => rw [hs] at h; exact ⟨st', hstep _ _ _ _ hP (Or.inl hs), (finish_ok_iff st' a).mp h⟩
      | one st' => rw [hs] at h; exact ⟨st', hstep _ _ _ _ hP (Or.inr (Or.inl hs)), (finish_ok_iff st' a).mp h⟩
      | two st' => rw [hs] at h; exact ⟨st', hstep _ _ _ _ hP (Or.inr (Or.inr hs)), (finish_ok_iff st' a).mp h⟩
      | err e => rw [hs] at h; simp at h
    | cur :: nxt :: rest, hn =>
      simp only [parseLoop] at h
      simp only [List.length_cons] at hn
      cases hs : stepArg cur (some nxt) st with
      | brk st' => rw [hs] at h; exact ⟨st', hstep _ _ _ _ hP (Or.inl hs), (finish_ok_iff st' a).mp h⟩
      | one st' =>
        rw [hs] at h
        exact ih (rest.length + 1) (by omega) (nxt :: rest) (by simp) st' a (hstep _ _ _ _ hP (Or.inr (Or.inl hs))) h
      | two st' =>
        rw [hs] at h
        exact ih rest.length (by omega) rest rfl st' a (hstep _ _ _ _ hP (Or.inr (Or.inr hs))) h
      | err e => rw [hs] at h; simp at h

theorem parse_inv (P : St → Prop) (h0 : P {})
    (hstep : ∀ cur next st st', P st → (stepArg cur next st).yields st' → P st')
    {argv : List Str} {a : Arguments} (h : parse argv = .ok a) : ∃ st', P st' ∧ st'.ps = .done ∧ st'.args = a :=
  parseLoop_inv P hstep argv.length argv rfl {} a h0 h

theorem parseOptionList_sorted {arg : Str} {m m' : Options} (hs : SortedMap m) (h : parseOptionList arg m = .ok m') :
    SortedMap m' := by
  unfold parseOptionList at h
  obtain ⟨kvs, _, _, _, rfl⟩ := (insertPieces_ok_iff _ m' hs).mp h
  exact insertAll_sorted kvs hs

/-- how an iteration changes the options map: not at all, or it is the first `-o` and the map is what `parseOptionList`
makes of its argument -/
theorem stepArg_options {cur : Str} {next : Option Str} {st st' : St} (h : (stepArg cur next st).yields st') :
    (st'.args.options = st.args.options ∧ st'.seen.options = st.seen.options) ∨
    (st.seen.options = false ∧ st'.seen.options = true ∧ ∃ arg, next = some arg ∧
      parseOptionList arg st.args.options = .ok st'.args.options) := by
  unfold Step.yields stepArg at h
  cases hc : classify cur <;> simp only [hc] at h
  case opts =>
    by_cases hseen : st.seen.options = true
    · simp [hseen] at h
    · have hseen' : st.seen.options = false := by simpa using hseen
      simp only [hseen', Bool.false_eq_true, if_false, flagArg] at h
      cases next with
      | none => simp at h
      | some arg =>
        simp only [] at h
        cases hp : parseOptionList arg st.args.options with
        | error e => simp [hp] at h
        | ok m =>
          simp only [hp, Step.two.injEq, reduceCtorEq, false_or] at h
          subst h
          exact Or.inr ⟨hseen', rfl, arg, rfl, hp⟩
  case word =>
    left
    unfold stepWord at h
    cases hps : st.ps <;> simp only [hps] at h
    · split at h
      · simp only [Step.brk.injEq, reduceCtorEq, or_false] at h; subst h; exact ⟨rfl, rfl⟩
      · split at h
        · simp only [Step.brk.injEq, reduceCtorEq, or_false] at h; subst h; exact ⟨rfl, rfl⟩
        · split at h
          · simp only [Step.one.injEq, reduceCtorEq, or_false, false_or] at h; subst h; exact ⟨rfl, rfl⟩
          · simp at h
    · simp only [Step.one.injEq, reduceCtorEq, or_false, false_or] at h; subst h; exact ⟨rfl, rfl⟩
    · simp only [Step.one.injEq, reduceCtorEq, or_false, false_or] at h; subst h; exact ⟨rfl, rfl⟩
    · simp only [Step.one.injEq, reduceCtorEq, or_false, false_or] at h; subst h; exact ⟨rfl, rfl⟩
    · simp at h
  case help | version =>
    simp only [Step.brk.injEq, reduceCtorEq, or_false] at h; subst h; exact Or.inl ⟨rfl, rfl⟩
  case badFlag => simp at h
  case showTime | verbose | pruneUnreach | pruneUseless | dontOutput =>
    left
    split at h
    · simp at h
    · simp only [Step.one.injEq, reduceCtorEq, or_false, false_or] at h; subst h; exact ⟨rfl, rfl⟩
  case repr | inFmt | outFmt | bothFmt =>
    left
    split at h
    · simp at h
    · cases next with
      | none => simp [flagArg] at h
      | some arg =>
        simp only [flagArg] at h
        split at h
        · simp at h
        · simp only [Step.two.injEq, reduceCtorEq, false_or] at h; subst h; exact ⟨rfl, rfl⟩

/-- the options of a successful parse: empty (no `-o`), or what ONE `-o` argument of the vector denotes; always a
well-formed `std::map` -/
theorem parse_options {argv : List Str} {a : Arguments} (h : parse argv = .ok a) :
    SortedMap a.options ∧ (a.options = [] ∨ ∃ arg, arg ∈ argv ∧ parseOptionList arg [] = .ok a.options) := by
  -- the membership part needs the vector: generalise to "some string"
  have key : ∃ st' : St, (SortedMap st'.args.options ∧ (st'.seen.options = false → st'.args.options = []) ∧
      (st'.args.options = [] ∨ ∃ arg, parseOptionList arg [] = .ok st'.args.options)) ∧ st'.ps = .done ∧ st'.args = a := by
    refine parse_inv _ ⟨sortedMap_nil, fun _ => rfl, Or.inl rfl⟩ ?_ h
    intro cur next st st' ⟨hs, hseen, hor⟩ hy
    rcases stepArg_options hy with ⟨h1, h2⟩ | ⟨h1, h2, arg, _, h4⟩
    · rw [h1, h2]; exact ⟨hs, hseen, hor⟩
    · rw [hseen h1] at h4
      exact ⟨parseOptionList_sorted sortedMap_nil h4, (fun h => by rw [h2] at h; cases h), Or.inr ⟨arg, h4⟩⟩
  obtain ⟨st', ⟨hs, _, _⟩, _, rfl⟩ := key
  refine ⟨hs, ?_⟩
  -- second pass with the vector in the invariant
  have key2 : ∀ (n : Nat) (l : List Str), l.length = n → ∀ st a, (∀ x, x ∈ l → x ∈ argv) →
      (st.seen.options = false → st.args.options = []) →
      (st.args.options = [] ∨ ∃ arg, arg ∈ argv ∧ parseOptionList arg [] = .ok st.args.options) →
      parseLoop l st = .ok a → (a.options = [] ∨ ∃ arg, arg ∈ argv ∧ parseOptionList arg [] = .ok a.options) := by
    intro n
    induction n using Nat.strongRecOn with
    | _ n ih =>
      intro l hn st a hsub hseen hor hl
      have step : ∀ cur next st', cur ∈ l → (∀ x, next = some x → x ∈ argv) → (stepArg cur next st).yields st' →
          (st'.seen.options = false → st'.args.options = []) ∧
          (st'.args.options = [] ∨ ∃ arg, arg ∈ argv ∧ parseOptionList arg [] = .ok st'.args.options) := by
        intro cur next st' _ hnext hy
        rcases stepArg_options hy with ⟨h1, h2⟩ | ⟨h1, h2, arg, h3, h4⟩
        · rw [h1, h2]; exact ⟨hseen, hor⟩
        · rw [hseen h1] at h4
          exact ⟨(fun h => by rw [h2] at h; cases h), Or.inr ⟨arg, hnext arg h3, h4⟩⟩
      match l, hn with
      | [], _ =>
        simp only [parseLoop] at hl
        rw [← ((finish_ok_iff st a).mp hl).2]; exact hor
      | [cur], _ =>
        simp only [parseLoop] at hl
        have hno : ∀ x, (none : Option Str) = some x → x ∈ argv := fun x hx => by cases hx
        cases hs : stepArg cur none st with
        | brk st' =>
          rw [hs] at hl; rw [← ((finish_ok_iff st' a).mp hl).2]
          exact (step cur none st' List.mem_cons_self hno (Or.inl hs)).2
        | one st' =>
          rw [hs] at hl; rw [← ((finish_ok_iff st' a).mp hl).2]
          exact (step cur none st' List.mem_cons_self hno (Or.inr (Or.inl hs))).2
        | two st' =>
          rw [hs] at hl; rw [← ((finish_ok_iff st' a).mp hl).2]
          exact (step cur none st' List.mem_cons_self hno (Or.inr (Or.inr hs))).2
        | err e => rw [hs] at hl; simp at hl
      | cur :: nxt :: rest, hn =>
        simp only [parseLoop] at hl
        simp only [List.length_cons] at hn
        have hnx : ∀ x, some nxt = some x → x ∈ argv := fun x hx => by
          cases hx; exact hsub _ (List.mem_cons_of_mem _ List.mem_cons_self)
        cases hs : stepArg cur (some nxt) st with
        | brk st' =>
          rw [hs] at hl; rw [← ((finish_ok_iff st' a).mp hl).2]
          exact (step cur _ st' List.mem_cons_self hnx (Or.inl hs)).2
        | one st' =>
          rw [hs] at hl
          have := step cur _ st' List.mem_cons_self hnx (Or.inr (Or.inl hs))
          exact ih (rest.length + 1) (by omega) (nxt :: rest) (by simp) st' a
            (fun x hx => hsub x (List.mem_cons_of_mem _ hx)) this.1 this.2 hl
        | two st' =>
          rw [hs] at hl
          have := step cur _ st' List.mem_cons_self hnx (Or.inr (Or.inr hs))
          exact ih rest.length (by omega) rest rfl st' a
            (fun x hx => hsub x (List.mem_cons_of_mem _ (List.mem_cons_of_mem _ hx))) this.1 this.2 hl
        | err e => rw [hs] at hl; simp at hl
  exact key2 argv.length argv rfl {} st'.args (fun _ hx => hx) (fun _ => rfl) (Or.inl rfl) h

/-! ### command word, operand count and file names -/

/-- the number of file operands of a command -/
def arity : Command → Nat
  | .help | .version => 0
  | .load | .witness | .cmpl | .sim | .red => 1
  | .union | .isect | .incl | .equiv => 2

theorem commandWord_spec {s : Str} {c : Command} {n : Nat} {ps : PState} (h : commandWord s = some (c, n, ps)) :
    n = arity c ∧ c ≠ .help ∧ c ≠ .version ∧ ((n = 1 ∧ ps = .loadFile) ∨ (n = 2 ∧ ps = .load2Files1)) := by
  unfold commandWord at h
  repeat (first | (split at h; · (simp only [Option.some.injEq, Prod.mk.injEq] at h; obtain ⟨rfl, rfl, rfl⟩ := h; simp [arity])) | (simp at h))

/-- the relation between the parser state and the command fields of `args` -/
def WF (st : St) : Prop :=
  match st.ps with
  | .command => st.args.command = .help ∧ st.args.operands = 0 ∧ st.args.fileName1 = [] ∧ st.args.fileName2 = []
  | .loadFile => arity st.args.command = 1 ∧ st.args.operands = 1 ∧ st.args.fileName1 = [] ∧ st.args.fileName2 = []
  | .load2Files1 => arity st.args.command = 2 ∧ st.args.operands = 2 ∧ st.args.fileName1 = [] ∧ st.args.fileName2 = []
  | .load2Files2 => arity st.args.command = 2 ∧ st.args.operands = 2 ∧ st.args.fileName2 = []
  | .done => st.args.command = .help ∨ st.args.command = .version ∨
      (st.args.operands = arity st.args.command ∧ 1 ≤ st.args.operands ∧ (st.args.operands = 1 → st.args.fileName2 = []))

/-- an iteration that is not a word, `-h` or `-v` leaves the parser state and the command fields alone -/
theorem stepArg_core {cur : Str} {next : Option Str} {st st' : St} (h : (stepArg cur next st).yields st') :
    (classify cur = .word ∧ (stepWord cur st).yields st') ∨
    (st'.ps = .done ∧ (st'.args.command = .help ∨ st'.args.command = .version)) ∨
    (st'.ps = st.ps ∧ st'.args.command = st.args.command ∧ st'.args.operands = st.args.operands ∧
      st'.args.fileName1 = st.args.fileName1 ∧ st'.args.fileName2 = st.args.fileName2) := by
  unfold Step.yields stepArg at h
  cases hc : classify cur <;> simp only [hc] at h
  case word => exact Or.inl ⟨rfl, h⟩
  case help =>
    simp only [Step.brk.injEq, reduceCtorEq, or_false] at h; subst h; exact Or.inr (Or.inl ⟨rfl, Or.inl rfl⟩)
  case version =>
    simp only [Step.brk.injEq, reduceCtorEq, or_false] at h; subst h; exact Or.inr (Or.inl ⟨rfl, Or.inr rfl⟩)
  case badFlag => simp at h
  case showTime | verbose | pruneUnreach | pruneUseless | dontOutput =>
    right; right
    split at h
    · simp at h
    · simp only [Step.one.injEq, reduceCtorEq, or_false, false_or] at h; subst h; exact ⟨rfl, rfl, rfl, rfl, rfl⟩
  case repr | inFmt | outFmt | bothFmt | opts =>
    right; right
    split at h
    · simp at h
    · cases next with
      | none => simp [flagArg] at h
      | some arg =>
        simp only [flagArg] at h
        split at h
        · simp at h
        · simp only [Step.two.injEq, reduceCtorEq, false_or] at h; subst h; exact ⟨rfl, rfl, rfl, rfl, rfl⟩

theorem stepWord_WF {cur : Str} {st st' : St} (hw : WF st) (h : (stepWord cur st).yields st') : WF st' := by
  unfold Step.yields stepWord at h
  unfold WF at hw
  cases hps : st.ps <;> simp only [hps] at h hw
  · split at h
    · simp only [Step.brk.injEq, reduceCtorEq, or_false] at h; subst h; simp [WF]
    · split at h
      · simp only [Step.brk.injEq, reduceCtorEq, or_false] at h; subst h; simp [WF]
      · split at h
        · rename_i c n ps hcw
          simp only [Step.one.injEq, reduceCtorEq, or_false, false_or] at h; subst h
          obtain ⟨h1, _, _, h4⟩ := commandWord_spec hcw
          rcases h4 with ⟨rfl, rfl⟩ | ⟨rfl, rfl⟩
          · simp [WF, ← h1, hw.2.2.1, hw.2.2.2]
          · simp [WF, ← h1, hw.2.2.1, hw.2.2.2]
        · simp at h
  · simp only [Step.one.injEq, reduceCtorEq, or_false, false_or] at h; subst h
    simp [WF, hw.1, hw.2.1, hw.2.2.2]
  · simp only [Step.one.injEq, reduceCtorEq, or_false, false_or] at h; subst h
    simp [WF, hw.1, hw.2.1, hw.2.2.2]
  · simp only [Step.one.injEq, reduceCtorEq, or_false, false_or] at h; subst h
    simp [WF, hw.1, hw.2.1]
  · simp at h

theorem stepArg_WF {cur : Str} {next : Option Str} {st st' : St} (hw : WF st) (h : (stepArg cur next st).yields st') :
    WF st' := by
  rcases stepArg_core h with ⟨_, h⟩ | ⟨h1, h2⟩ | ⟨h1, h2, h3, h4, h5⟩
  · exact stepWord_WF hw h
  · unfold WF; rw [h1]
    rcases h2 with h2 | h2
    · exact Or.inl h2
    · exact Or.inr (Or.inl h2)
  · unfold WF at hw ⊢
    rw [h1, h2, h3, h4, h5]; exact hw

/-- **the command fields of a successful parse**: `help` / `version` (then nothing else is looked at by `main`), or a
command with exactly its number of operands (`fileName2` empty for the one-operand commands) -/
theorem parse_wf {argv : List Str} {a : Arguments} (h : parse argv = .ok a) :
    a.command = .help ∨ a.command = .version ∨
      (a.operands = arity a.command ∧ 1 ≤ a.operands ∧ (a.operands = 1 → a.fileName2 = [])) := by
  obtain ⟨st', hw, hd, rfl⟩ := parse_inv WF (by simp [WF]) (fun _ _ _ _ hw hy => stepArg_WF hw hy) h
  unfold WF at hw
  rw [hd] at hw
  exact hw

/-! ## every option word is reachable from the command line; which words a representation implements -/

/-- the `-r` word of a representation -/
def repName : Rep → Str
  | .expl => lit "expl"
  | .bddTd => lit "bdd-td"
  | .bddBu => lit "bdd-bu"
  | .explFa => lit "expl_fa"

/-- parse `argv`, require the command `incl` on representation `r`, run the option handling of `CheckInclusion` -/
def inclChoiceOf (r : Rep) (argv : List Str) : Option InclChoice :=
  match parse argv with
  | .error _ => none
  | .ok a =>
    if a.command = .incl ∧ a.representation = r ∧ a.operands = 2 then
      match checkInclusionOpts a.options with
      | .ok c => some c
      | .error _ => none
    else none

set_option maxRecDepth 100000 in
theorem reach_antichains : ∀ b c d e f g : Bool,
    inclChoiceOf .expl [lit "-o", optionString ⟨false, b, c, d, e, f, g⟩, lit "incl", lit "a", lit "b"] =
      some ⟨false, b, c, d, e, f, g⟩ := by decide +kernel

set_option maxRecDepth 100000 in
theorem reach_congr : ∀ b c d e f g : Bool,
    inclChoiceOf .expl [lit "-o", optionString ⟨true, b, c, d, e, f, g⟩, lit "incl", lit "a", lit "b"] =
      some ⟨true, b, c, d, e, f, g⟩ := by decide +kernel

/-- **every choice of the seven inclusion options is reachable**: the `-o` argument that spells the choice out is parsed
and accepted and yields exactly this choice (hence, `word_choiceOfWord`, every option word below 64) -/
theorem reach_all (c : InclChoice) :
    inclChoiceOf .expl [lit "-o", optionString c, lit "incl", lit "a", lit "b"] = some c := by
  obtain ⟨a, b, c, d, e, f, g⟩ := c
  cases a
  · exact reach_antichains b c d e f g
  · exact reach_congr b c d e f g

/-- the command line that selects the case with word `w` on representation `r` -/
def selectArgv (r : Rep) (w : Nat) : List Str :=
  [lit "-r", repName r, lit "-o", optionString (choiceOfWord w true), lit "incl", lit "a", lit "b"]

def reachesWord (r : Rep) (w : Nat) : Bool :=
  match inclChoiceOf r (selectArgv r w) with
  | some c => c.word == w
  | none => false

set_option maxRecDepth 100000 in
/-- **every implemented selection whose word has no EQUIV bit is reachable**: for each representation and each `case` of
its dispatcher (table regenerated from the sources) the command line `selectArgv` is parsed, selects the
representation, its options are accepted by `CheckInclusion` and produce exactly the word of the case -/
theorem reach_table : ∀ r : Rep, (table r).all (fun c => Vata.Dispatch.has c.word fEquiv || reachesWord r c.word) = true := by
  intro r; cases r <;> decide +kernel

/-- the only cases with the EQUIV bit: the two equivalence cases of the word automata -/
theorem equiv_cases : ∀ r : Rep, ((table r).filter (fun c => Vata.Dispatch.has c.word fEquiv)).map (·.word) =
    (if r = .explFa then [65, 97] else []) := by
  intro r; cases r <;> decide

/-- `CheckInclusion` never sets the EQUIV bit: the cases `CONGR_DEPTH_EQUIV_NOSIM` (65) and `CONGR_BREADTH_EQUIV_NOSIM`
(97) of the word-automata dispatcher cannot be selected by `incl` with any options -/
theorem equiv_unreachable_by_incl {opts : Options} {c : InclChoice} (_ : checkInclusionOpts opts = .ok c) :
    Vata.Dispatch.has c.word fEquiv = false ∧ c.word ≠ 65 ∧ c.word ≠ 97 := by
  have := word_spec c
  refine ⟨this.2.2.2.2.2.2.1, ?_, ?_⟩ <;> omega

/-- `CheckEquiv` (command `equiv`) builds exactly those two words – and then throws in every case: with accepted options
`"Equivalence not implemented"`, otherwise `optErrorEx` -/
theorem checkEquiv_always_throws (opts : Options) :
    ((checkEquivOpts opts).2 = none ∧
        (checkEquivOpts opts).1 = lit "Invalid options for equivalence: " ++ showOptions (withDefault "order" "depth" opts)) ∨
    ((checkEquivOpts opts).1 = lit "Equivalence not implemented" ∧
        ((checkEquivOpts opts).2 = Vata.Gen.namedWords.lookup "CONGR_DEPTH_EQUIV_NOSIM" ∨
         (checkEquivOpts opts).2 = Vata.Gen.namedWords.lookup "CONGR_BREADTH_EQUIV_NOSIM")) := by
  unfold checkEquivOpts
  simp only []
  cases h : choose (withDefault "order" "depth" opts) "order" "depth" "breadth"
      (lit "Invalid options for equivalence: " ++ showOptions (withDefault "order" "depth" opts)) with
  | error e => left; exact ⟨rfl, choose_error _ _ _ _ _ _ h⟩
  | ok b =>
    right
    refine ⟨rfl, ?_⟩
    cases b
    · left; decide
    · right; decide

/-! ### which combinations of the options a representation implements -/

/-- explicit tree automata: antichains only, search order `depth`; upward needs `rec=no, optC=no`; downward
non-recursive needs `optC=no` -/
def implExpl (c : InclChoice) : Bool :=
  !c.congr && !c.breadth && (if c.down then (c.recursive || !c.cache) else (!c.recursive && !c.cache))

/-- top-down BDD: downward recursive only -/
def implTd (c : InclChoice) : Bool := !c.congr && !c.breadth && c.down && c.recursive

/-- bottom-up BDD: upward (`rec=no, optC=no`), or downward recursive WITH simulation and `optC=no` -/
def implBu (c : InclChoice) : Bool :=
  !c.congr && !c.breadth && (if c.down then (c.recursive && !c.cache && c.sim) else (!c.recursive && !c.cache))

/-- word automata: `dir=up, rec=no, optC=no`; antichains with `order=depth`; congruence with any order but
`order=breadth, sim=yes` -/
def implFa (c : InclChoice) : Bool :=
  !c.down && !c.recursive && !c.cache && (if c.congr then !(c.breadth && c.sim) else !c.breadth)

def impl : Rep → InclChoice → Bool
  | .expl => implExpl
  | .bddTd => implTd
  | .bddBu => implBu
  | .explFa => implFa

/-- **which accepted option combinations reach a `case`, which the `default:` (NotImplementedException)**, per
representation, against the regenerated dispatch tables -/
theorem implemented_iff : ∀ (r : Rep) (a b c d e f g : Bool),
    implemented r (InclChoice.word ⟨a, b, c, d, e, f, g⟩) = impl r ⟨a, b, c, d, e, f, g⟩ := by
  intro r; cases r <;> decide +kernel

end Vata.CliArgs
