import Vata.Proofs.CowHeapFADenote
/-!
# What the values of the finite-automaton heap model denote – part 2: the work-list loop of `RemoveUnreachableStates`

`reachLoop_spec`: run with enough fuel from a work-list that contains every state whose successors are not all reached, the
loop returns exactly the states reachable through the clusters `lookup` finds.  With one cluster per state (`KeysNodup`)
these are the states reachable in the automaton the value denotes (`mem_reachStates`), hence
`vUnreach_denote`, `vUseless_denote`; the congruences of `nfasReverse` / `nfasRemoveUnreachable` for `NEquiv`;
preservation of the representation invariant `WFV` by every value-level operation.
-/
namespace Vata.CowHeapFA

open Vata Vata.W Vata.NfaS
open Vata.Store (Cluster upsert insTuple addToCluster addToMap KeysNodup)
open Vata.CowHeap (Val)
open Vata.CowHeapX (missing mem_missing)

/-! ### association lists -/

theorem lookup_none_iff {β : Type} {l : List (Nat × β)} {k : Nat} : l.lookup k = none ↔ k ∉ l.map Prod.fst := by
  induction l with
  | nil => simp
  | cons kv l ih =>
    obtain ⟨k0, v0⟩ := kv
    rw [Store.lookup_cons']
    by_cases e : k = k0
    · simp [e]
    · simp only [e, if_false, ih, List.map_cons, List.mem_cons, false_or]

theorem lookup_append_none {β : Type} {l : List (Nat × β)} {kc : Nat × β} {k : Nat} (h : l.lookup k = none)
    (hne : k ≠ kc.1) : (l ++ [kc]).lookup k = none := by
  rw [lookup_none_iff] at h ⊢
  simp only [List.map_append, List.map_cons, List.map_nil, List.mem_append, List.mem_singleton]
  rintro (h' | h')
  · exact h h'
  · exact hne h'

theorem eq_none_of_not_isSome {α : Type} {o : Option α} (h : ¬ o.isSome = true) : o = none := by
  cases o with
  | none => rfl
  | some v => simp at h

/-- the keys `insert(first, last)` adds are new … -/
theorem missing_keys_new {β : Type} {acc l : List (Nat × β)} {x : Nat × β} (h : x ∈ missing acc l) :
    acc.lookup x.1 = none := by
  induction l generalizing acc with
  | nil => simp [missing] at h
  | cons kc l ih =>
    simp only [missing] at h
    split at h
    · exact ih h
    · rename_i hn
      rcases List.mem_cons.mp h with e | h'
      · rw [e]; exact eq_none_of_not_isSome hn
      · have := ih h'
        rw [lookup_none_iff] at this ⊢
        intro hm
        apply this
        simp only [List.map_append, List.mem_append]
        exact Or.inl hm

/-- … and the container keeps one entry per key -/
theorem keysNodup_append_missing {β : Type} {acc : List (Nat × β)} (l : List (Nat × β)) (ha : KeysNodup acc) :
    KeysNodup (acc ++ missing acc l) := by
  induction l generalizing acc with
  | nil => simpa [missing] using ha
  | cons kc l ih =>
    simp only [missing]
    split
    · exact ih ha
    · rename_i hn
      have hk : kc.1 ∉ acc.map Prod.fst := by
        rw [← lookup_none_iff]
        exact eq_none_of_not_isSome hn
      have ha' : KeysNodup (acc ++ [kc]) := by
        unfold KeysNodup at ha ⊢
        rw [List.map_append, List.nodup_append]
        refine ⟨ha, by simp, ?_⟩
        intro a ha1 b hb
        simp only [List.map_cons, List.map_nil, List.mem_singleton] at hb
        subst hb
        intro e
        exact hk (e ▸ ha1)
      have := ih ha'
      rwa [List.append_assoc, List.singleton_append] at this

theorem keysNodup_missing_nil {β : Type} (l : List (Nat × β)) : KeysNodup (missing [] l) := by
  have := keysNodup_append_missing l (acc := []) Store.keysNodup_nil
  simpa using this

/-- entries of a list in which a key determines the value all survive `insert(first, last)` when their key is new -/
theorem mem_missing_of_functional {β : Type} {acc l : List (Nat × β)} {x : Nat × β}
    (hf : ∀ y, y ∈ l → ∀ z, z ∈ l → y.1 = z.1 → y = z) (hx : x ∈ l) (hn : acc.lookup x.1 = none) :
    x ∈ missing acc l := by
  induction l generalizing acc with
  | nil => simp at hx
  | cons kc l ih =>
    have hf' : ∀ y, y ∈ l → ∀ z, z ∈ l → y.1 = z.1 → y = z :=
      fun y hy z hz => hf y (List.mem_cons_of_mem _ hy) z (List.mem_cons_of_mem _ hz)
    simp only [missing]
    split
    · rename_i hs
      rcases List.mem_cons.mp hx with e | h'
      · rw [← e, hn] at hs; simp at hs
      · exact ih hf' h' hn
    · rcases List.mem_cons.mp hx with e | h'
      · rw [e]; exact List.mem_cons_self
      · by_cases e : x = kc
        · rw [e]; exact List.mem_cons_self
        · apply List.mem_cons_of_mem
          apply ih hf' h'
          apply lookup_append_none hn
          intro e1
          exact e (hf x hx kc List.mem_cons_self e1)

theorem mem_pick_iff {β : Type} {es : List (Nat × β)} {keys : List Nat} {x : Nat × β} :
    x ∈ pick es keys ↔ x.1 ∈ keys ∧ es.lookup x.1 = some x.2 := by
  simp only [pick, List.mem_filterMap]
  constructor
  · rintro ⟨q, hq, h⟩
    cases hl : es.lookup q with
    | none => rw [hl] at h; simp at h
    | some c =>
      rw [hl] at h
      simp only [Option.map_some, Option.some.injEq] at h
      subst h
      exact ⟨hq, hl⟩
  · rintro ⟨hq, hl⟩
    exact ⟨x.1, hq, by rw [hl]; rfl⟩

theorem pick_functional {β : Type} (es : List (Nat × β)) (keys : List Nat) :
    ∀ y, y ∈ pick es keys → ∀ z, z ∈ pick es keys → y.1 = z.1 → y = z := by
  intro y hy z hz e
  obtain ⟨_, h1⟩ := mem_pick_iff.mp hy
  obtain ⟨_, h2⟩ := mem_pick_iff.mp hz
  rw [e, h2] at h1
  exact Prod.ext e (Option.some.inj h1).symm

/-- the entries `RemoveUnreachableStates` / `GetCandidateTree` end up with -/
theorem mem_missing_pick {β : Type} {es : List (Nat × β)} {keys : List Nat} {x : Nat × β} :
    x ∈ missing [] (pick es keys) ↔ x.1 ∈ keys ∧ es.lookup x.1 = some x.2 := by
  rw [← mem_pick_iff]
  exact ⟨mem_missing, fun h => mem_missing_of_functional (pick_functional es keys) h rfl⟩

/-! ### transitions and clusters -/

theorem mem_clTrans {q : Nat} {c : Cluster} {e : Nat × Nat × Nat} :
    e ∈ clTrans q c ↔ e.1 = q ∧ ∃ st, st ∈ c ∧ e.2.1 = st.1 ∧ ∃ r, r ∈ st.2 ∧ e.2.2 = r.headD 0 := by
  simp only [clTrans, List.mem_flatMap, List.mem_map]
  constructor
  · rintro ⟨st, hst, r, hr, rfl⟩; exact ⟨rfl, st, hst, rfl, r, hr, rfl⟩
  · rintro ⟨h1, st, hst, h2, r, hr, h3⟩
    refine ⟨st, hst, r, hr, ?_⟩
    rw [← h1, ← h2, ← h3]

theorem mem_transOf {t : Val} {e : Nat × Nat × Nat} : e ∈ transOf t ↔ ∃ c, (e.1, c) ∈ t ∧ e ∈ clTrans e.1 c := by
  rw [transOf_eq, List.mem_flatMap]
  constructor
  · rintro ⟨qc, hqc, h⟩
    have := (mem_clTrans.mp h).1
    refine ⟨qc.2, ?_, ?_⟩
    · rw [this]; exact hqc
    · rw [this]; exact h
  · rintro ⟨c, hc, h⟩; exact ⟨(e.1, c), hc, h⟩

theorem mem_targets {q p : Nat} {c : Cluster} : q ∈ targets c ↔ ∃ a, (p, a, q) ∈ clTrans p c := by
  simp only [targets, clTrans, List.mem_flatMap, List.mem_map]
  constructor
  · rintro ⟨st, hst, r, hr, rfl⟩; exact ⟨st.1, st, hst, r, hr, rfl⟩
  · rintro ⟨a, st, hst, r, hr, e⟩
    refine ⟨st, hst, r, hr, ?_⟩
    exact (congrArg (fun x => x.2.2) e)

/-- the successor relation the loops see: through the cluster `find` returns -/
def Succ (t : Val) (p q : Nat) : Prop := ∃ c, t.lookup p = some c ∧ q ∈ targets c

/-- with one cluster per state these are the transitions -/
theorem succ_iff {t : Val} (hk : KeysNodup t) {p q : Nat} : Succ t p q ↔ ∃ a, (p, a, q) ∈ transOf t := by
  constructor
  · rintro ⟨c, hl, hq⟩
    obtain ⟨a, ha⟩ := (mem_targets (p := p)).mp hq
    exact ⟨a, mem_transOf.mpr ⟨c, Store.mem_of_lookup hl, ha⟩⟩
  · rintro ⟨a, ha⟩
    obtain ⟨c, hc, h⟩ := mem_transOf.mp ha
    exact ⟨c, Store.lookup_of_mem hk hc, mem_targets.mpr ⟨a, h⟩⟩

/-! ### the loop of `RemoveUnreachableStates` -/

theorem inner_spec (ts reach stack : List Nat) :
    (∀ q, q ∈ (ts.foldl (fun (rs : List Nat × List Nat) q =>
        if rs.1.contains q then rs else (rs.1 ++ [q], q :: rs.2)) (reach, stack)).1 ↔ q ∈ reach ∨ q ∈ ts) ∧
    (∀ p, p ∈ (ts.foldl (fun (rs : List Nat × List Nat) q =>
        if rs.1.contains q then rs else (rs.1 ++ [q], q :: rs.2)) (reach, stack)).2 ↔
      p ∈ stack ∨ (p ∈ ts ∧ p ∉ reach)) := by
  induction ts generalizing reach stack with
  | nil => simp
  | cons q ts ih =>
    rw [List.foldl_cons]
    cases hc : reach.contains q with
    | true =>
      simp only [if_true]
      have hq : q ∈ reach := List.contains_iff_mem.mp hc
      obtain ⟨h1, h2⟩ := ih reach stack
      refine ⟨fun x => ?_, fun p => ?_⟩
      · rw [h1, List.mem_cons]
        constructor
        · rintro (h | h)
          · exact Or.inl h
          · exact Or.inr (Or.inr h)
        · rintro (h | h | h)
          · exact Or.inl h
          · exact Or.inl (h ▸ hq)
          · exact Or.inr h
      · rw [h2, List.mem_cons]
        constructor
        · rintro (h | ⟨h, h'⟩)
          · exact Or.inl h
          · exact Or.inr ⟨Or.inr h, h'⟩
        · rintro (h | ⟨h | h, h'⟩)
          · exact Or.inl h
          · exact absurd (h ▸ hq) h'
          · exact Or.inr ⟨h, h'⟩
    | false =>
      simp only [Bool.false_eq_true, if_false]
      have hq : q ∉ reach := fun h => by rw [List.contains_iff_mem.mpr h] at hc; cases hc
      obtain ⟨h1, h2⟩ := ih (reach ++ [q]) (q :: stack)
      refine ⟨fun x => ?_, fun p => ?_⟩
      · rw [h1]
        simp only [List.mem_append, List.mem_cons, List.not_mem_nil, or_false]
        constructor
        · rintro ((h | h) | h)
          · exact Or.inl h
          · exact Or.inr (Or.inl h)
          · exact Or.inr (Or.inr h)
        · rintro (h | h | h)
          · exact Or.inl (Or.inl h)
          · exact Or.inl (Or.inr h)
          · exact Or.inr h
      · rw [h2]
        simp only [List.mem_append, List.mem_cons, List.not_mem_nil, or_false, not_or]
        constructor
        · rintro ((h | h) | ⟨h, h', _⟩)
          · exact Or.inr ⟨Or.inl h, h ▸ hq⟩
          · exact Or.inl h
          · exact Or.inr ⟨Or.inr h, h'⟩
        · rintro (h | ⟨h | h, h'⟩)
          · exact Or.inl (Or.inr h)
          · exact Or.inl (Or.inl h)
          · by_cases e : p = q
            · exact Or.inl (Or.inl e)
            · exact Or.inr ⟨h, h', e⟩

/-- the loop run to its end: the result contains `reach`, is closed under the successor relation, and is the least such
    set – provided every state of `reach` whose successors are not all in `reach` is still on the work-list -/
theorem reachLoop_spec (t : Val) (U : List Nat)
    (hU : ∀ act c, t.lookup act = some c → ∀ q, q ∈ targets c → q ∈ U) :
    ∀ (n : Nat) (reach stack : List Nat), stack.length + unreached U reach ≤ n →
      (∀ p, p ∈ stack → p ∈ reach) →
      (∀ p, p ∈ reach → p ∈ stack ∨ ∀ q, Succ t p q → q ∈ reach) →
      (∀ q, q ∈ reach → q ∈ reachLoop t n reach stack) ∧
      (∀ p, p ∈ reachLoop t n reach stack → ∀ q, Succ t p q → q ∈ reachLoop t n reach stack) ∧
      (∀ P : Nat → Prop, (∀ q, q ∈ reach → P q) → (∀ p q, P p → Succ t p q → P q) →
        ∀ q, q ∈ reachLoop t n reach stack → P q) := by
  intro n
  induction n with
  | zero =>
    intro reach stack h _ hI
    have hs : stack = [] := List.eq_nil_of_length_eq_zero (by omega)
    subst hs
    simp only [reachLoop]
    refine ⟨fun q h => h, fun p hp q hq => ?_, fun P h0 _ q hq => h0 q hq⟩
    rcases hI p hp with h' | h'
    · simp at h'
    · exact h' q hq
  | succ n ih =>
    intro reach stack h hsub hI
    cases stack with
    | nil =>
      simp only [reachLoop]
      refine ⟨fun q h => h, fun p hp q hq => ?_, fun P h0 _ q hq => h0 q hq⟩
      rcases hI p hp with h' | h'
      · simp at h'
      · exact h' q hq
    | cons act st =>
      simp only [reachLoop]
      simp only [List.length_cons] at h
      have hact : act ∈ reach := hsub act List.mem_cons_self
      cases hl : t.lookup act with
      | none =>
        simp only
        apply ih reach st (by omega) (fun p hp => hsub p (List.mem_cons_of_mem _ hp))
        intro p hp
        rcases hI p hp with h' | h'
        · rcases List.mem_cons.mp h' with e | h''
          · right
            rintro q ⟨c, hc, _⟩
            rw [e, hl] at hc; cases hc
          · exact Or.inl h''
        · exact Or.inr h'
      | some c =>
        simp only
        have hm := inner_measure U (targets c) (hU act c hl) reach st
        obtain ⟨f1, f2⟩ := inner_spec (targets c) reach st
        obtain ⟨r1, r2, r3⟩ := ih
          ((targets c).foldl (fun (rs : List Nat × List Nat) q =>
            if rs.1.contains q then rs else (rs.1 ++ [q], q :: rs.2)) (reach, st)).1
          ((targets c).foldl (fun (rs : List Nat × List Nat) q =>
            if rs.1.contains q then rs else (rs.1 ++ [q], q :: rs.2)) (reach, st)).2 (by omega)
          (fun p hp => by
            rcases (f2 p).mp hp with h' | h'
            · exact (f1 p).mpr (Or.inl (hsub p (List.mem_cons_of_mem _ h')))
            · exact (f1 p).mpr (Or.inr h'.1))
          (fun p hp => by
            by_cases hpr : p ∈ reach
            · rcases hI p hpr with h' | h'
              · rcases List.mem_cons.mp h' with e | h''
                · right
                  rintro q ⟨c', hc', hq⟩
                  rw [e, hl] at hc'
                  cases hc'
                  exact (f1 q).mpr (Or.inr hq)
                · exact Or.inl ((f2 p).mpr (Or.inl h''))
              · exact Or.inr (fun q hq => (f1 q).mpr (Or.inl (h' q hq)))
            · rcases (f1 p).mp hp with h' | h'
              · exact absurd h' hpr
              · exact Or.inl ((f2 p).mpr (Or.inr ⟨h', hpr⟩)))
        refine ⟨fun q hq => r1 q ((f1 q).mpr (Or.inl hq)), r2, fun P h0 h1 q hq => ?_⟩
        apply r3 P ?_ h1 q hq
        intro x hx
        rcases (f1 x).mp hx with h' | h'
        · exact h0 x h'
        · exact h1 act x (h0 act hact) ⟨c, hl, h'⟩

/-- `reachableStates` at the end of `RemoveUnreachableStates`: exactly the states reachable from the start states -/
theorem mem_reachStates (v : FAVal) (hk : KeysNodup v.trans) (q : Nat) : q ∈ reachStates v ↔ NfaReach v.toNFA q := by
  have hs0 : ∀ x, x ∈ v.mem.start.foldl Vata.insN [] ↔ x ∈ v.mem.start := by
    intro x; rw [mem_foldl_insN]; simp
  have hfuel : (v.mem.start.foldl Vata.insN []).reverse.length +
      unreached ((transOf v.trans).map (fun e => e.2.2)) (v.mem.start.foldl Vata.insN []) ≤
      (v.mem.start.foldl Vata.insN []).length + (transOf v.trans).length + 1 := by
    have := unreached_le ((transOf v.trans).map (fun e => e.2.2)) (v.mem.start.foldl Vata.insN [])
    simp only [List.length_map, List.length_reverse] at this ⊢
    omega
  obtain ⟨r1, r2, r3⟩ := reachLoop_spec v.trans ((transOf v.trans).map (fun e => e.2.2)) (targets_in_trans v.trans)
    _ (v.mem.start.foldl Vata.insN []) (v.mem.start.foldl Vata.insN []).reverse hfuel
    (fun p hp => List.mem_reverse.mp hp) (fun p hp => Or.inl (List.mem_reverse.mpr hp))
  unfold reachStates
  simp only
  constructor
  · apply r3 (fun q => NfaReach v.toNFA q)
    · intro s hs
      exact NfaReach.of_start ((hs0 s).mp hs)
    · intro p q' hp hsucc
      obtain ⟨a, ha⟩ := (succ_iff hk).mp hsucc
      exact NfaReach.step hp ha
  · rintro ⟨s, hs, w, hp⟩
    exact (Path.restrict (A := v.toNFA) (fun x => x ∈ reachLoop v.trans _ _ _)
      (fun p a q' he hpR => ⟨he, r2 p hpR q' ((succ_iff hk).mpr ⟨a, he⟩)⟩) hp (r1 s ((hs0 s).mpr hs))).2

theorem mem_foldl_finalFilter (F reach init : List Nat) (x : Nat) :
    x ∈ reach.foldl (fun f q => if F.contains q then Vata.insN f q else f) init ↔ x ∈ init ∨ (x ∈ reach ∧ x ∈ F) := by
  induction reach generalizing init with
  | nil => simp
  | cons y l ih =>
    rw [List.foldl_cons, ih]
    cases hc : F.contains y with
    | true =>
      have hy : y ∈ F := List.contains_iff_mem.mp hc
      simp only [if_true, NfaS.mem_insN, List.mem_cons]
      constructor
      · rintro ((h | h) | ⟨h, h'⟩)
        · exact Or.inl h
        · exact Or.inr ⟨Or.inl h, h ▸ hy⟩
        · exact Or.inr ⟨Or.inr h, h'⟩
      · rintro (h | ⟨h | h, h'⟩)
        · exact Or.inl (Or.inl h)
        · exact Or.inl (Or.inr h)
        · exact Or.inr ⟨h, h'⟩
    | false =>
      have hy : y ∉ F := fun h => by rw [List.contains_iff_mem.mpr h] at hc; cases hc
      simp only [Bool.false_eq_true, if_false, List.mem_cons]
      constructor
      · rintro (h | ⟨h, h'⟩)
        · exact Or.inl h
        · exact Or.inr ⟨Or.inr h, h'⟩
      · rintro (h | ⟨h | h, h'⟩)
        · exact Or.inl h
        · exact absurd (h ▸ h') hy
        · exact Or.inr ⟨h, h'⟩

/-- the transitions of the clusters taken over under the keys `keys` -/
theorem mem_transOf_missing_pick {t : Val} (hk : KeysNodup t) (keys : List Nat) (e : Nat × Nat × Nat) :
    e ∈ transOf (missing [] (pick t keys)) ↔ e ∈ transOf t ∧ e.1 ∈ keys := by
  rw [mem_transOf, mem_transOf]
  constructor
  · rintro ⟨c, hc, h⟩
    obtain ⟨h1, h2⟩ := mem_missing_pick.mp hc
    exact ⟨⟨c, Store.mem_of_lookup h2, h⟩, h1⟩
  · rintro ⟨⟨c, hc, h⟩, h1⟩
    exact ⟨c, mem_missing_pick.mpr ⟨h1, Store.lookup_of_mem hk hc⟩, h⟩

/-- `RemoveUnreachableStates` -/
theorem vUnreach_denote (v : FAVal) (hk : KeysNodup v.trans) :
    NEquiv (vUnreach v).toNFAS (nfasRemoveUnreachable v.toNFAS) := by
  refine ⟨fun q => ?_, fun q => ?_, fun e => ?_, fun _ => rfl⟩
  · show q ∈ v.mem.start ↔ q ∈ (nfaRemoveUnreachable v.toNFA).start
    rw [nfaRemoveUnreachable_start]; rfl
  · show q ∈ (reachStates v).foldl (fun f q => if v.mem.final.contains q then Vata.insN f q else f) [] ↔
      q ∈ (nfaRemoveUnreachable v.toNFA).final
    rw [mem_foldl_finalFilter, mem_nfaRemoveUnreachable_final, mem_reachStates v hk]
    simp only [List.not_mem_nil, false_or]
    exact ⟨fun h => ⟨h.2, h.1⟩, fun h => ⟨h.2, h.1⟩⟩
  · show e ∈ transOf (missing [] (pick v.trans (reachStates v))) ↔ e ∈ (nfaRemoveUnreachable v.toNFA).trans
    rw [mem_transOf_missing_pick hk, mem_nfaRemoveUnreachable_trans, mem_reachStates v hk]
    rfl

/-! ### congruences -/

theorem smFind_map_nil (l : List Nat) (q : Nat) :
    smFind (l.map (fun f => (f, ([] : List Nat)))) q = if q ∈ l then some [] else none := by
  induction l with
  | nil => rfl
  | cons x l ih =>
    simp only [List.map_cons, smFind, ih, List.mem_cons]
    by_cases e : x = q
    · simp [e]
    · have e' : ¬ q = x := fun h => e h.symm
      simp [e, e']

theorem nfasReverse_congr {A B : NFAS} (h : NEquiv A B) : NEquiv (nfasReverse A) (nfasReverse B) := by
  refine ⟨h.final, h.start, fun e => ?_, fun q => ?_⟩
  · obtain ⟨p, a, r⟩ := e
    show (p, a, r) ∈ (nfaReverse A.toNFA).trans ↔ (p, a, r) ∈ (nfaReverse B.toNFA).trans
    rw [mem_nfaReverse_trans, mem_nfaReverse_trans]
    exact h.trans _
  · show smFind (A.startSyms ++ (A.final.filter (fun f => !smHas A.startSyms f)).map (fun f => (f, []))) q =
      smFind (B.startSyms ++ (B.final.filter (fun f => !smHas B.startSyms f)).map (fun f => (f, []))) q
    apply smFind_congr_append q (h.syms q)
    rw [smFind_map_nil, smFind_map_nil]
    have : q ∈ A.final.filter (fun f => !smHas A.startSyms f) ↔ q ∈ B.final.filter (fun f => !smHas B.startSyms f) := by
      simp only [List.mem_filter, smHas, h.syms q, h.final q]
    simp only [this]

theorem nfasRemoveUnreachable_congr {A B : NFAS} (h : NEquiv A B) :
    NEquiv (nfasRemoveUnreachable A) (nfasRemoveUnreachable B) := by
  refine ⟨fun q => ?_, fun q => ?_, fun e => ?_, h.syms⟩
  · show q ∈ (nfaRemoveUnreachable A.toNFA).start ↔ q ∈ (nfaRemoveUnreachable B.toNFA).start
    rw [nfaRemoveUnreachable_start, nfaRemoveUnreachable_start]; exact h.start q
  · show q ∈ (nfaRemoveUnreachable A.toNFA).final ↔ q ∈ (nfaRemoveUnreachable B.toNFA).final
    rw [mem_nfaRemoveUnreachable_final, mem_nfaRemoveUnreachable_final]
    exact and_congr (h.final q) (h.reach q)
  · show e ∈ (nfaRemoveUnreachable A.toNFA).trans ↔ e ∈ (nfaRemoveUnreachable B.toNFA).trans
    rw [mem_nfaRemoveUnreachable_trans, mem_nfaRemoveUnreachable_trans]
    exact and_congr (h.trans e) (h.reach e.1)

theorem nfasRemoveUseless_congr {A B : NFAS} (h : NEquiv A B) : NEquiv (nfasRemoveUseless A) (nfasRemoveUseless B) :=
  nfasReverse_congr (nfasRemoveUnreachable_congr (nfasReverse_congr (nfasRemoveUnreachable_congr h)))

/-! ### the representation invariant is kept -/

theorem keysNodup_foldl_upsert {α β : Type} (key : α → Nat) (g : α → Option β → β) (src : List α)
    {l : List (Nat × β)} (h : KeysNodup l) : KeysNodup (src.foldl (fun l a => upsert (key a) (g a) l) l) := by
  induction src generalizing l with
  | nil => exact h
  | cons a src ih => exact ih (Store.keysNodup_upsert _ _ h)

theorem keysNodup_vReverse (v : FAVal) : KeysNodup (vReverse v).trans := by
  show KeysNodup ((transOf v.trans).foldl (fun t e => addToMap e.2.2 e.2.1 [e.1] t) [])
  exact keysNodup_foldl_upsert (α := Nat × Nat × Nat) (fun e => e.2.2)
    (fun e o => addToCluster e.2.1 [e.1] (o.getD [])) _ Store.keysNodup_nil

theorem keysNodup_vUnreach (v : FAVal) : KeysNodup (vUnreach v).trans := keysNodup_missing_nil _

/-- a cluster holds non-empty tuples only -/
def ClOk (c : Cluster) : Prop := ∀ st, st ∈ c → ∀ r, r ∈ st.2 → r ≠ []

theorem tuplesOk_iff {t : Val} : TuplesOk t ↔ ∀ qc, qc ∈ t → ClOk qc.2 := Iff.rfl

theorem clOk_nil : ClOk [] := by intro st h; simp at h

theorem clOk_addToCluster (a r : Nat) {c : Cluster} (h : ClOk c) : ClOk (addToCluster a [r] c) := by
  intro st hst
  refine Store.forall_upsert (P := fun ts => ∀ r, r ∈ ts → r ≠ []) a (fun o => insTuple [r] (o.getD [])) ?_ ?_
    (fun st hst => h st hst) st hst
  · intro x hx
    simp only [Option.getD_none, Store.mem_insTuple, List.not_mem_nil, false_or] at hx
    rw [hx]; simp
  · intro ts hts x hx
    simp only [Option.getD_some, Store.mem_insTuple] at hx
    rcases hx with hx | hx
    · exact hts x hx
    · rw [hx]; simp

theorem tuplesOk_addToMap (l a r : Nat) {t : Val} (h : TuplesOk t) : TuplesOk (addToMap l a [r] t) := by
  rw [tuplesOk_iff] at h ⊢
  exact Store.forall_upsert (P := ClOk) l (fun o => addToCluster a [r] (o.getD []))
    (clOk_addToCluster a r clOk_nil) (fun c hc => clOk_addToCluster a r hc) h

theorem forall_foldl_upsert {α β : Type} {P : β → Prop} (key : α → Nat) (g : α → Option β → β) (src : List α)
    (h0 : ∀ a, a ∈ src → P (g a none)) (h1 : ∀ a, a ∈ src → ∀ v, P v → P (g a (some v)))
    {l : List (Nat × β)} (hl : ∀ kv, kv ∈ l → P kv.2) :
    ∀ kv, kv ∈ src.foldl (fun l a => upsert (key a) (g a) l) l → P kv.2 := by
  induction src generalizing l with
  | nil => exact hl
  | cons a src ih =>
    rw [List.foldl_cons]
    apply ih (fun b hb => h0 b (List.mem_cons_of_mem _ hb)) (fun b hb => h1 b (List.mem_cons_of_mem _ hb))
    exact Store.forall_upsert _ _ (h0 a List.mem_cons_self) (h1 a List.mem_cons_self) hl

theorem tuplesOk_vReverse (v : FAVal) : TuplesOk (vReverse v).trans := by
  show TuplesOk ((transOf v.trans).foldl (fun t e => addToMap e.2.2 e.2.1 [e.1] t) [])
  rw [tuplesOk_iff]
  apply forall_foldl_upsert (α := Nat × Nat × Nat) (P := ClOk) (fun e => e.2.2)
    (fun e o => addToCluster e.2.1 [e.1] (o.getD []))
  · intro e _; exact clOk_addToCluster _ _ clOk_nil
  · intro e _ c hc; exact clOk_addToCluster _ _ hc
  · intro kv h; simp at h

theorem clOk_reindexCluster (idx : Nat → Nat) {src c : Cluster} (hs : ClOk src) (hc : ClOk c) :
    ClOk (reindexCluster idx src c) := by
  have key : ∀ (l : List (List Nat)) (ts : Store.TupleSet), (∀ r, r ∈ l → r ≠ []) → (∀ r, r ∈ ts → r ≠ []) →
      ∀ r, r ∈ l.foldl (fun ts t => insTuple (t.map idx) ts) ts → r ≠ [] := by
    intro l ts hl hts r hr
    rcases (mem_foldl_insTuple (fun t => t.map idx) l ts r).mp hr with h | ⟨x, hx, e⟩
    · exact hts r h
    · rw [e]
      intro e'
      exact hl x hx (List.map_eq_nil_iff.mp e')
  intro st hst
  exact forall_foldl_upsert (α := Nat × Store.TupleSet) (P := fun ts => ∀ r, r ∈ ts → r ≠ []) (fun st => st.1)
    (fun st o => st.2.foldl (fun ts (t : List Nat) => insTuple (t.map idx) ts) (o.getD [])) src
    (fun a ha => key a.2 [] (hs a ha) (by intro r h; simp at h))
    (fun a ha ts hts => key a.2 ts (hs a ha) hts) (fun st hst => hc st hst) st hst

theorem wfv_vNew : WFV vNew := ⟨Store.keysNodup_nil, by intro qc h; simp [vNew] at h⟩
theorem wfv_vAdd (l a r : Nat) {v : FAVal} (h : WFV v) : WFV (vAdd l a r v) :=
  ⟨Store.keysNodup_upsert _ _ h.keys, tuplesOk_addToMap l a r h.tup⟩
theorem wfv_vReverse (v : FAVal) : WFV (vReverse v) := ⟨keysNodup_vReverse v, tuplesOk_vReverse v⟩

theorem wfv_pick (v : FAVal) (h : TuplesOk v.trans) (m : Members) (keys : List Nat) :
    WFV ⟨m, missing [] (pick v.trans keys)⟩ := by
  refine ⟨keysNodup_missing_nil _, ?_⟩
  intro qc hqc
  exact h qc (Store.mem_of_lookup (mem_missing_pick.mp hqc).2)

theorem wfv_vUnreach {v : FAVal} (h : TuplesOk v.trans) : WFV (vUnreach v) := wfv_pick v h _ _
theorem wfv_vCandRaw {v : FAVal} (h : TuplesOk v.trans) : WFV (vCandRaw v) := wfv_pick v h _ _
theorem wfv_vUseless (v : FAVal) : WFV (vUseless v) := wfv_vReverse _
theorem wfv_vCandidate (v : FAVal) : WFV (vCandidate v) := wfv_vReverse _

theorem wfv_vUnionDisj {s t : FAVal} (hs : WFV s) (ht : WFV t) : WFV (vUnionDisj s t) := by
  refine ⟨keysNodup_append_missing _ hs.keys, ?_⟩
  intro qc hqc
  rcases List.mem_append.mp hqc with h | h
  · exact hs.tup qc h
  · exact ht.tup qc (mem_missing h)

theorem wfv_vReindex (idx : Nat → Nat) {s d : FAVal} (hs : WFV s) (hd : WFV d) : WFV (vReindex idx s d) := by
  refine ⟨keysNodup_foldl_upsert (α := Nat × Cluster) (fun qc => idx qc.1)
    (fun qc o => reindexCluster idx qc.2 (o.getD [])) _ hd.keys, ?_⟩
  show TuplesOk (reindexTrans idx s.trans d.trans)
  rw [tuplesOk_iff]
  exact forall_foldl_upsert (α := Nat × Cluster) (P := ClOk) (fun qc => idx qc.1)
    (fun qc o => reindexCluster idx qc.2 (o.getD [])) s.trans
    (fun a ha => clOk_reindexCluster idx (hs.tup a ha) clOk_nil)
    (fun a ha c hc => clOk_reindexCluster idx (hs.tup a ha) hc) hd.tup

/-! ### `RemoveUselessStates` -/

/-- `RemoveUselessStates` = `RemoveUnreachableStates().Reverse().RemoveUnreachableStates().Reverse()` -/
theorem vUseless_denote (v : FAVal) (hk : KeysNodup v.trans) :
    NEquiv (vUseless v).toNFAS (nfasRemoveUseless v.toNFAS) := by
  have h1 := vUnreach_denote v hk
  have h2 := (vReverse_denote (vUnreach v)).trans' (nfasReverse_congr h1)
  have h3 := (vUnreach_denote (vReverse (vUnreach v)) (keysNodup_vReverse _)).trans' (nfasRemoveUnreachable_congr h2)
  exact (vReverse_denote _).trans' (nfasReverse_congr h3)

end Vata.CowHeapFA
