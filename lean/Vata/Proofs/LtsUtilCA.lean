import Vata.LtsUtil
/-!
# `CachingAllocator` / `CachingArrayAllocator` as coded (`src/util/caching_allocator.hh`)

The value of an allocator is the set of LIVE objects (handed out, not reclaimed).  Discipline: only a live object is
reclaimed.  Theorems: the free list (`store_`) never holds a live object and never holds an object twice, `operator()`
never hands out a live object, recycling is LIFO, the initializer runs once per allocation.

The same allocator sits inside `SharedCounter`'s memory (`SC.Mem`), `SharedList`'s world (`SL.W`, twice) and
`SplittingRelation` (`SR.T.free`); the invariants of those classes contain this one.
-/
namespace Vata.LU.CA

/-- representation invariant relative to the live set -/
structure Inv (a : T) (live : A) : Prop where
  free_nodup : a.free.Nodup
  free_lt : ∀ p ∈ a.free, p < a.next
  free_dead : ∀ p ∈ a.free, p ∉ live
  live_lt : ∀ p ∈ live, p < a.next
  live_nodup : live.Nodup

theorem inv_mk : Inv mk [] :=
  ⟨List.nodup_nil, by simp [mk], by simp [mk], by simp, List.nodup_nil⟩

/-- `operator()` never hands out a live object, and the object becomes live -/
theorem alloc_spec {a : T} {live : A} (h : Inv a live) :
    (alloc a).1 ∉ live ∧ Inv (alloc a).2 ((alloc a).1 :: live) ∧ (alloc a).2.inits = a.inits + 1 := by
  unfold alloc
  cases hf : a.free with
  | nil =>
    refine ⟨fun hm => Nat.lt_irrefl _ (h.live_lt _ hm), ?_, rfl⟩
    refine ⟨by simp [List.nodup_nil], by simp, by simp, ?_, ?_⟩
    · intro p hp
      rcases List.mem_cons.1 hp with rfl | hp
      · exact Nat.lt_succ_self _
      · exact Nat.lt_succ_of_lt (h.live_lt p hp)
    · exact List.nodup_cons.2 ⟨fun hm => Nat.lt_irrefl _ (h.live_lt _ hm), h.live_nodup⟩
  | cons p f =>
    have hnd := h.free_nodup
    rw [hf] at hnd
    have hp : p ∈ a.free := by rw [hf]; exact List.mem_cons_self
    refine ⟨h.free_dead p hp, ?_, rfl⟩
    refine ⟨(List.nodup_cons.1 hnd).2, ?_, ?_, ?_, ?_⟩
    · intro q hq; exact h.free_lt q (by rw [hf]; exact List.mem_cons_of_mem _ hq)
    · intro q hq hm
      rcases List.mem_cons.1 hm with rfl | hm
      · exact (List.nodup_cons.1 hnd).1 hq
      · exact h.free_dead q (by rw [hf]; exact List.mem_cons_of_mem _ hq) hm
    · intro q hq
      rcases List.mem_cons.1 hq with rfl | hq
      · exact h.free_lt _ hp
      · exact h.live_lt q hq
    · exact List.nodup_cons.2 ⟨h.free_dead p hp, h.live_nodup⟩

/-- `reclaim(p)` of a live object -/
theorem reclaim_spec {a : T} {live : A} (h : Inv a live) {p : Nat} (hp : p ∈ live) :
    Inv (reclaim a p) (live.filter (· != p)) := by
  unfold reclaim
  refine ⟨List.nodup_cons.2 ⟨fun hm => h.free_dead p hm hp, h.free_nodup⟩, ?_, ?_, ?_, ?_⟩
  · intro q hq
    rcases List.mem_cons.1 hq with rfl | hq
    · exact h.live_lt _ hp
    · exact h.free_lt q hq
  · intro q hq hm
    have hm' := List.mem_filter.1 hm
    rcases List.mem_cons.1 hq with rfl | hq
    · simp at hm'
    · exact h.free_dead q hq hm'.1
  · intro q hq; exact h.live_lt q (List.mem_filter.1 hq).1
  · exact h.live_nodup.sublist List.filter_sublist

/-- recycling is LIFO: the object reclaimed last is handed out next (with its content untouched by the allocator) -/
theorem alloc_reclaim (a : T) (p : Nat) : alloc (reclaim a p) = (p, { a with inits := a.inits + 1 }) := rfl

/-- with an empty store a new object is made -/
theorem alloc_fresh {a : T} (h : a.free = []) : (alloc a).1 = a.next ∧ (alloc a).2.next = a.next + 1 := by
  unfold alloc; rw [h]; exact ⟨rfl, rfl⟩

/-- one call inside the discipline keeps the invariant -/
theorem step_refines {a : T} {live : A} (h : Inv a live) (op : Op) (hok : ok live op = true) :
    Inv (step a op).1 (aStep live (step a op).2 op) := by
  cases op with
  | alloc => exact (alloc_spec h).2.1
  | reclaim p =>
    have hp : p ∈ live := by simpa [ok] using hok
    simpa [step, aStep] using reclaim_spec h hp

/-! ### histories -/

def run : T → A → List Op → Option (T × A)
  | a, live, [] => some (a, live)
  | a, live, op :: ops => if ok live op then run (step a op).1 (aStep live (step a op).2 op) ops else none

/-- for every history inside the discipline: the free list never holds a live object, nor an object twice -/
theorem run_refines {a : T} {live : A} (h : Inv a live) (ops : List Op) {a' : T} {live' : A}
    (hr : run a live ops = some (a', live')) : Inv a' live' := by
  induction ops generalizing a live with
  | nil => simp [run] at hr; rcases hr with ⟨rfl, rfl⟩; exact h
  | cons op ops ih =>
    unfold run at hr
    by_cases hok : ok live op = true
    · rw [if_pos hok] at hr
      exact ih (step_refines h op hok) hr
    · rw [if_neg hok] at hr; cases hr

/-- the initializer functor has run exactly once per allocation -/
theorem step_inits (a : T) (op : Op) : (step a op).1.inits = a.inits + (match op with | .alloc => 1 | .reclaim _ => 0) := by
  cases op with
  | alloc => unfold step alloc; cases a.free <;> rfl
  | reclaim p => rfl

example : run mk [] [.alloc, .alloc, .reclaim 0, .alloc, .reclaim 1, .reclaim 0, .alloc, .alloc, .alloc] =
    some (⟨[], 3, 6⟩, [2, 1, 0]) := by decide

/-- outside the discipline (an object reclaimed twice) the allocator hands out a live object -/
example : (step (step (step (step (step mk .alloc).1 (.reclaim 0)).1 (.reclaim 0)).1 .alloc).1 .alloc).2 = [0] ∧
    (step (step (step (step mk .alloc).1 (.reclaim 0)).1 (.reclaim 0)).1 .alloc).2 = [0] := by decide

end Vata.LU.CA

/-! # The key layout of `SimulationEngine::init` and `getRowSize` -/
namespace Vata.LU.SC

theorem sqrt_lt_of_lt_sq {n k : Nat} (h : n < k * k) : Nat.sqrt n < k := by
  apply Nat.lt_of_not_le
  intro hk
  have := Nat.mul_le_mul hk hk
  have := Nat.sqrt_le n
  omega

theorem le_sqrt_of_sq_le {n k : Nat} (h : k * k ≤ n) : k ≤ Nat.sqrt n := by
  apply Nat.le_of_lt_succ
  apply Nat.lt_of_not_le
  intro hk
  have h1 : Nat.succ (Nat.sqrt n) * Nat.succ (Nat.sqrt n) ≤ k * k := Nat.mul_le_mul hk hk
  have := Nat.lt_succ_sqrt n
  omega

/-- `getRowSize`: 31 counters per row (plus the reference count) below 4096 states … -/
theorem getRowSize_small {n : Nat} (h : n < 4096) : getRowSize n = 31 := by
  have h1 : Nat.sqrt n < 64 := sqrt_lt_of_lt_sq (by omega)
  have h2 : ¬ 32 ≤ Nat.sqrt n / 2 := by omega
  simp [getRowSize, getRowSize.go, h2]

/-- … and 63 from 4096 states up to 16383 -/
theorem getRowSize_medium {n : Nat} (h1 : 4096 ≤ n) (h2 : n < 16384) : getRowSize n = 63 := by
  have h3 : Nat.sqrt n < 128 := sqrt_lt_of_lt_sq (by omega)
  have h4 : 64 ≤ Nat.sqrt n := le_sqrt_of_sq_le (by omega)
  have h5 : 32 ≤ Nat.sqrt n / 2 := by omega
  have h6 : ¬ 64 ≤ Nat.sqrt n / 2 := by omega
  simp [getRowSize, getRowSize.go, h5, h6]

example : getRowSize 4095 = 31 ∧ getRowSize 4096 = 63 := ⟨getRowSize_small (by omega), getRowSize_medium (by omega) (by omega)⟩

/-- the layout of a small system: three labels, the second one without transitions; label 0 fills row 0 and one entry of
row 1, label 2 shares row 1 with it -/
example : mkLayout 3 4 [[0, 1, 2, 3], [], [1, 3]] =
    ([0, 1, 2, 3, 2 ^ 64 - 1, 2 ^ 64 - 1, 2 ^ 64 - 1, 2 ^ 64 - 1, 2 ^ 64 - 1, 4, 2 ^ 64 - 1, 5], [(0, 2), (1, 1), (1, 2)]) := by
  decide

/-- as coded, a label without transitions in FRONT of all others gets the range `[0, (2^64 - 1) / rowSize)` (the
subtraction `x + 0 - 1` wraps); harmless, because such a label is never in an inset -/
example : (mkLayout 31 4 [[], [0]]).2 = [(0, (2 ^ 64 - 1) / 31), (0, 1)] := by decide

end Vata.LU.SC
