import Vata.Proofs.BddIsectTotal
/-!
# The bottom-up symbolic intersection is total (C08)

For operand tables as the C++ holds them (`TableOk`: no entry for the empty tuple in the map, one entry per tuple):

* `matchPos_eq`: the two-stage search of the C++ (`firstMatch`, then `i`) finds the first common position of the pair;
  `buTuple_some`, `buTuple_none`: the tuple of the product is built iff all component pairs are in the translation map,
  and it is the tuple of their numbers;
* `PInv`, `buPair_pinv`, `buProc_pinv`: the invariant of the two nested loops over the pairs of tuples for one entry of the
  work-set – every entry of the result table is the pure product of two operand MTBDDs for the current map (`EntOk`),
  and every examined pair of tuples that contains the processed pair and whose component pairs were all known has its
  entry;
* `BInv`, `BInv.pop`, `buLoop_inv`, `binv_init`, `binv_cert`, **`bddIsectBUFrom_of_loop`**, `bddIsectBUFrom_none_iff`: the loop
  invariant (a pair of tuples all of whose component pairs have been TAKEN from the work-set has its entry – it got it when
  the last of them was taken –; the final states are the numbers of the taken pairs of final states); at the end the
  certificate check `buCertB` succeeds: the model returns `none` only when the fuel runs out;
* `buLoop_total`, **`bddIsectBUFrom_isSome`**, `bddIsectBURef_isSome`, **`bddIsectBURef_lang`**: the fuel `buFuel` (pairs of leaf
  states) suffices; the reference instance is total and correct.
-/
namespace Vata
namespace BddIsect
open M BddAbs BddAbsTD

/-! ### tables -/

theorem mem_keys_set {T : Table} {ks kk : List Nat} {m : MT} : kk ∈ (T.set ks m).keys ↔ kk = ks ∨ kk ∈ T.keys := by
  unfold Table.set Table.keys
  by_cases h : ks = []
  · subst h
    simp only [if_true, List.mem_cons]
    constructor
    · rintro (h | h)
      · exact Or.inl h
      · exact Or.inr (Or.inr h)
    · rintro (h | h | h)
      · exact Or.inl h
      · exact Or.inl h
      · exact Or.inr h
  · simp only [h, if_false, setE, List.map_cons, List.mem_cons, List.mem_map, List.mem_filter, bne_iff_ne]
    constructor
    · rintro (h1 | h1 | ⟨e, ⟨he, _⟩, rfl⟩)
      · exact Or.inr (Or.inl h1)
      · exact Or.inl h1
      · exact Or.inr (Or.inr ⟨e, he, rfl⟩)
    · rintro (h1 | h1 | ⟨e, he, rfl⟩)
      · exact Or.inr (Or.inl h1)
      · exact Or.inl h1
      · by_cases hk : e.1 = ks
        · exact Or.inr (Or.inl hk)
        · exact Or.inr (Or.inr ⟨e, ⟨he, hk⟩, rfl⟩)

/-- the pairs the iterator yields are the tuples with an MTBDD, each with what `GetMtbdd` returns -/
theorem pairs_get {T : Table} (hT : TableOk T) {e : List Nat × MT} (he : e ∈ pairs T) :
    e.1 ∈ T.keys ∧ e.2 = T.get e.1 := by
  unfold pairs at he
  unfold Table.keys Table.get
  rcases List.mem_cons.mp he with rfl | he
  · exact ⟨List.mem_cons_self, by simp⟩
  · exact ⟨List.mem_cons_of_mem _ (List.mem_map.mpr ⟨e, he, rfl⟩), by rw [if_neg (hT e he).1, (hT e he).2]⟩

theorem keys_pairs {T : Table} {ks : List Nat} (h : ks ∈ T.keys) : (ks, T.get ks) ∈ pairs T := by
  unfold Table.keys at h
  unfold pairs Table.get
  by_cases hk : ks = []
  · subst hk; simp
  · rw [if_neg hk]
    rcases List.mem_cons.mp h with h | h
    · exact absurd h hk
    · exact List.mem_cons_of_mem _ (getE_mem h)

/-! ### tuples of the product -/

theorem map_injOn {tr : Nat × Nat → Nat} {D : List (Nat × Nat)} (hinj : InjOn tr D) :
    ∀ (l l' : List (Nat × Nat)), (∀ c, c ∈ l → c ∈ D) → (∀ c, c ∈ l' → c ∈ D) → l.map tr = l'.map tr → l = l'
  | [], [], _, _, _ => rfl
  | [], _ :: _, _, _, h => by simp at h
  | _ :: _, [], _, _, h => by simp at h
  | c :: l, c' :: l', h1, h2, h => by
    simp only [List.map_cons, List.cons.injEq] at h
    rw [hinj c (h1 c List.mem_cons_self) c' (h2 c' List.mem_cons_self) h.1,
      map_injOn hinj l l' (fun x hx => h1 x (List.mem_cons_of_mem _ hx)) (fun x hx => h2 x (List.mem_cons_of_mem _ hx)) h.2]

theorem zip_inj {ks ks' ks2 ks2' : List Nat} (hl : ks'.length = ks.length) (hl2 : ks2'.length = ks2.length)
    (h : ks.zip ks' = ks2.zip ks2') : ks = ks2 ∧ ks' = ks2' := by
  have h1 := List.map_fst_zip (l₁ := ks) (l₂ := ks') (by omega)
  have h2 := List.map_snd_zip (l₁ := ks) (l₂ := ks') (by omega)
  have h3 := List.map_fst_zip (l₁ := ks2) (l₂ := ks2') (by omega)
  have h4 := List.map_snd_zip (l₁ := ks2) (l₂ := ks2') (by omega)
  rw [h] at h1 h2
  exact ⟨h1.symm.trans h3, h2.symm.trans h4⟩

theorem matchPos_eq_aux (p1 p2 : Nat) : ∀ (ks ks' : List Nat), ks'.length = ks.length →
    matchPos ks ks' (p1, p2) = (ks.zip ks').findIdx? (fun c => c == (p1, p2))
  | [], _, _ => by simp [matchPos]
  | a :: l, [], h => by simp at h
  | a :: l, b :: l', h => by
    have ih := matchPos_eq_aux p1 p2 l l' (by simpa using h)
    unfold matchPos at ih ⊢
    simp only at ih ⊢
    rw [List.findIdx_cons, List.zip_cons_cons, List.findIdx?_cons]
    by_cases ha : a = p1
    · subst ha
      by_cases hb : b = p2
      · subst hb; simp [List.findIdx?_cons]
      · have : ((a, b) == (a, p2)) = false := by
          simp only [beq_eq_false_iff_ne, ne_eq, Prod.mk.injEq, true_and]
          exact hb
        simp [this, List.findIdx?_cons]
        rfl
    · have h1 : (a == p1) = false := by simpa using ha
      have h2 : ((a, b) == (p1, p2)) = false := by
        simp only [beq_eq_false_iff_ne, ne_eq, Prod.mk.injEq, not_and]
        exact fun e => absurd e ha
      simp only [h1, h2, cond_false, List.length_cons, Bool.false_eq_true, if_false, List.drop_succ_cons]
      rw [← ih]
      by_cases hf : List.findIdx (fun k => k == p1) l = l.length
      · simp [hf]
      · have hf' : ¬ (List.findIdx (fun k => k == p1) l + 1 = l.length + 1) := by omega
        simp only [beq_iff_eq, hf, hf', if_false, Option.map_map]
        congr 1

/-- the two-stage search of the C++ (`firstMatch`, then `i`) finds the first position at which the two tuples hold the
two components of the pair -/
theorem matchPos_eq {ks ks' : List Nat} (pr : Nat × Nat) (hl : ks'.length = ks.length) :
    matchPos ks ks' pr = (ks.zip ks').findIdx? (fun c => c == pr) := matchPos_eq_aux pr.1 pr.2 ks ks' hl

theorem matchPos_none {ks ks' : List Nat} {pr : Nat × Nat} (hl : ks'.length = ks.length)
    (h : matchPos ks ks' pr = none) : pr ∉ ks.zip ks' := by
  rw [matchPos_eq pr hl, List.findIdx?_eq_none_iff] at h
  intro hm
  have := h pr hm
  simp at this

theorem matchPos_some {ks ks' : List Nat} {pr : Nat × Nat} {i : Nat} (hl : ks'.length = ks.length)
    (h : matchPos ks ks' pr = some i) : (ks.zip ks')[i]? = some pr := by
  rw [matchPos_eq pr hl, List.findIdx?_eq_some_iff_getElem] at h
  obtain ⟨hi, hp, _⟩ := h
  rw [List.getElem?_eq_some_iff]
  exact ⟨hi, by simpa using hp⟩

theorem buTuple_none {m : PMap} {x i : Nat} : ∀ (cs : List (Nat × Nat)) (k : Nat), buTuple m x i k cs = none →
    ∃ c, c ∈ cs ∧ c ∉ m.dom
  | [], _, h => by simp [buTuple] at h
  | c :: cs, k, h => by
    unfold buTuple at h
    split at h
    · simp only [Option.map_eq_none_iff] at h
      obtain ⟨c', h1, h2⟩ := buTuple_none cs (k + 1) h
      exact ⟨c', List.mem_cons_of_mem _ h1, h2⟩
    · split at h
      · rename_i hn
        exact ⟨c, List.mem_cons_self, Isx.lookup_none_iff.mp hn⟩
      · simp only [Option.map_eq_none_iff] at h
        obtain ⟨c', h1, h2⟩ := buTuple_none cs (k + 1) h
        exact ⟨c', List.mem_cons_of_mem _ h1, h2⟩

theorem buTuple_some {m : PMap} {x i : Nat} {pr : Nat × Nat} (hx : m.lookup pr = some x) :
    ∀ (cs : List (Nat × Nat)) (k : Nat) (t : List Nat), (∀ j, k + j = i → cs[j]? = some pr ∨ cs[j]? = none) →
      buTuple m x i k cs = some t → t = cs.map (lookupF m) ∧ ∀ c, c ∈ cs → c ∈ m.dom
  | [], _, t, _, h => by
    simp only [buTuple, Option.some.injEq] at h
    subst h
    exact ⟨rfl, fun c hc => by cases hc⟩
  | c :: cs, k, t, hi, h => by
    have hi' : ∀ j, k + 1 + j = i → cs[j]? = some pr ∨ cs[j]? = none := by
      intro j hj
      have := hi (j + 1) (by omega)
      simpa using this
    unfold buTuple at h
    split at h
    · rename_i hk
      have hc : c = pr := by
        have := hi 0 (by omega)
        simpa using this
      obtain ⟨t', ht', rfl⟩ := Option.map_eq_some_iff.mp h
      obtain ⟨h1, h2⟩ := buTuple_some hx cs (k + 1) t' hi' ht'
      refine ⟨by rw [List.map_cons, hc, lookupF_of_lookup hx, h1], ?_⟩
      intro c' hc'
      rcases List.mem_cons.mp hc' with h3 | h3
      · rw [h3, hc]; exact Isx.mem_dom_iff.mpr ⟨x, hx⟩
      · exact h2 c' h3
    · split at h
      · cases h
      · rename_i n hn
        obtain ⟨t', ht', rfl⟩ := Option.map_eq_some_iff.mp h
        obtain ⟨h1, h2⟩ := buTuple_some hx cs (k + 1) t' hi' ht'
        refine ⟨by rw [List.map_cons, lookupF_of_lookup hn, h1], ?_⟩
        intro c' hc'
        rcases List.mem_cons.mp hc' with h3 | h3
        · rw [h3]; exact Isx.mem_dom_iff.mpr ⟨n, hn⟩
        · exact h2 c' h3

/-! ### the invariant of the bottom-up loop -/

/-- the pair has been taken from the work-set -/
def DonePr (s : St) (c : Nat × Nat) : Prop := ∃ k, s.map.lookup c = some k ∧ (k, c) ∉ s.ws

/-- the entry of the tuple `kk` of `R` is the product of the MTBDDs of the tuples `ks`, `ks'` for the map `m` -/
structure EntOk (TA TB : Table) (m : PMap) (R : Table) (kk ks ks' : List Nat) : Prop where
  keyA : ks ∈ TA.keys
  keyB : ks' ∈ TB.keys
  len : ks'.length = ks.length
  comps : ∀ c, c ∈ ks.zip ks' → c ∈ m.dom
  tup : kk = (ks.zip ks').map (lookupF m)
  par : ∀ ll, ll ∈ voidApply2 (TA.get ks) (TB.get ks') → ∀ c, c ∈ allPairs ll.1 ll.2 → c ∈ m.dom
  val : R.get kk = apply2 (prodS (lookupF m)) (TA.get ks) (TB.get ks')

theorem map_lookupF_ext {m m' : PMap} (he : Isx.Ext m m') {l : List (Nat × Nat)} (h : ∀ c, c ∈ l → c ∈ m.dom) :
    l.map (lookupF m') = l.map (lookupF m) :=
  List.map_congr_left (fun c hc => he.lookupF (h c hc))

theorem EntOk.mono {TA TB : Table} {m m' : PMap} {R : Table} {kk ks ks' : List Nat} (h : EntOk TA TB m R kk ks ks')
    (he : Isx.Ext m m') : EntOk TA TB m' R kk ks ks' :=
  ⟨h.keyA, h.keyB, h.len, fun c hc => he.dom (h.comps c hc), by rw [map_lookupF_ext he h.comps]; exact h.tup,
    fun ll hl c hc => he.dom (h.par ll hl c hc), by rw [h.val]; exact apply2_ext leafSpecBU he _ _ h.par⟩

theorem EntOk.set_ne {TA TB : Table} {m : PMap} {R : Table} {kk ks ks' : List Nat} (h : EntOk TA TB m R kk ks ks')
    {tuple : List Nat} (hne : tuple ≠ kk) (v : MT) : EntOk TA TB m (R.set tuple v) kk ks ks' :=
  ⟨h.keyA, h.keyB, h.len, h.comps, h.tup, h.par, by rw [get_set, if_neg hne]; exact h.val⟩

/-- the universe of pairs: leaf states of the left table × leaf states of the right table -/
def buU (TA TB : Table) : List (Nat × Nat) := allPairs (buKids TA) (buKids TB)

theorem pairs_in_U {TA TB : Table} {eA eB : List Nat × MT} (hA : eA ∈ pairs TA) (hB : eB ∈ pairs TB)
    {ll : List Nat × List Nat} (hl : ll ∈ voidApply2 eA.2 eB.2) {c : Nat × Nat} (hc : c ∈ allPairs ll.1 ll.2) :
    c ∈ buU TA TB := by
  obtain ⟨h1, h2⟩ := voidApply2_sub _ _ ll hl
  obtain ⟨h3, h4⟩ := mem_allPairs.mp hc
  refine mem_allPairs.mpr ⟨?_, ?_⟩
  · simp only [buKids, leafParents, List.mem_flatMap, id]
    exact ⟨eA, hA, ll.1, h1, h3⟩
  · simp only [buKids, leafParents, List.mem_flatMap, id]
    exact ⟨eB, hB, ll.2, h2, h4⟩

/-- the invariant of the two nested loops over the pairs of tuples, for the entry `(x, pr)` taken in the state `s` with
the table `R`: `L` are the pairs of tuples already examined, `s'`, `R'` the current state and table -/
structure PInv (c0 : Nat) (TA TB : Table) (s : St) (R : Table) (pr : Nat × Nat)
    (L : List ((List Nat × MT) × (List Nat × MT))) (s' : St) (R' : Table) : Prop where
  good : Good c0 s'
  step : Step s s'
  ent : ∀ kk, kk ∈ R'.keys → ∃ ks ks', EntOk TA TB s'.map R' kk ks ks'
  keys : ∀ kk, kk ∈ R.keys → kk ∈ R'.keys
  prog : ∀ ee, ee ∈ L → ee.2.1.length = ee.1.1.length → pr ∈ ee.1.1.zip ee.2.1 →
    (∀ c, c ∈ ee.1.1.zip ee.2.1 → c ∈ s.map.dom) → (ee.1.1.zip ee.2.1).map (lookupF s'.map) ∈ R'.keys
  back : ∀ c, c ∈ s'.map.dom → c ∈ s.map.dom ∨ c ∈ buU TA TB

/-- a pair of tuples that cannot be ready is examined without effect -/
theorem PInv.snoc_skip {c0 : Nat} {TA TB : Table} {s : St} {R : Table} {pr : Nat × Nat}
    {L : List ((List Nat × MT) × (List Nat × MT))} {s' : St} {R' : Table} (h : PInv c0 TA TB s R pr L s' R')
    (ee : (List Nat × MT) × (List Nat × MT))
    (hv : ee.2.1.length = ee.1.1.length → pr ∈ ee.1.1.zip ee.2.1 → (∀ c, c ∈ ee.1.1.zip ee.2.1 → c ∈ s.map.dom) → False) :
    PInv c0 TA TB s R pr (L ++ [ee]) s' R' := by
  refine ⟨h.good, h.step, h.ent, h.keys, ?_, h.back⟩
  intro ee' hm h1 h2 h3
  rcases List.mem_append.mp hm with hm | hm
  · exact h.prog ee' hm h1 h2 h3
  · simp only [List.mem_singleton] at hm
    subst hm
    exact (hv h1 h2 h3).elim

/-- one pair of tuples -/
theorem buPair_pinv {c0 : Nat} {TA TB : Table} (hTA : TableOk TA) (hTB : TableOk TB) {s : St} {R : Table}
    {pr : Nat × Nat} {x : Nat} (hx : s.map.lookup pr = some x) {L : List ((List Nat × MT) × (List Nat × MT))} {s' : St}
    {R' : Table} (h : PInv c0 TA TB s R pr L s' R') (ee : (List Nat × MT) × (List Nat × MT)) (hA : ee.1 ∈ pairs TA)
    (hB : ee.2 ∈ pairs TB) :
    PInv c0 TA TB s R pr (L ++ [ee]) (buPair x pr ee.1 ee.2 s' R').1 (buPair x pr ee.1 ee.2 s' R').2 := by
  unfold buPair
  split
  next hl => exact h.snoc_skip ee (fun h1 _ _ => by simp [h1] at hl)
  next hl =>
    have hlen : ee.2.1.length = ee.1.1.length := by simpa using hl
    split
    next hm => exact h.snoc_skip ee (fun _ h2 _ => matchPos_none hlen hm h2)
    next i hm =>
      split
      next ht =>
        obtain ⟨c, hc, hcd⟩ := buTuple_none _ _ ht
        exact h.snoc_skip ee (fun _ _ h3 => hcd (h.step.ext.dom (h3 c hc)))
      next tuple ht =>
        have hx' : s'.map.lookup pr = some x := h.step.ext _ _ hx
        obtain ⟨htup, hcomps⟩ := buTuple_some hx' _ 0 tuple (fun j hj => by
          have : j = i := by omega
          subst this
          exact Or.inl (matchPos_some hlen hm)) ht
        have sp := apply2S_spec leafSpecBU c0 s' ee.1.2 ee.2.2 h.good
        obtain ⟨kA, eA⟩ := pairs_get hTA hA
        obtain ⟨kB, eB⟩ := pairs_get hTB hB
        have htup' : tuple = (ee.1.1.zip ee.2.1).map (lookupF (apply2S leafBU s' ee.1.2 ee.2.2).1.map) := by
          rw [map_lookupF_ext sp.step.ext hcomps]; exact htup
        refine ⟨sp.good, h.step.trans sp.step, ?_, ?_, ?_, ?_⟩
        · intro kk hkk
          by_cases hk : tuple = kk
          · subst hk
            refine ⟨ee.1.1, ee.2.1, kA, kB, hlen, fun c hc => sp.step.ext.dom (hcomps c hc), htup', ?_, ?_⟩
            · rw [← eA, ← eB]; exact sp.dom
            · rw [get_set, if_pos rfl, ← eA, ← eB]; exact sp.val
          · rcases mem_keys_set.mp hkk with h1 | h1
            · exact absurd h1.symm hk
            · obtain ⟨ks, ks', he⟩ := h.ent kk h1
              exact ⟨ks, ks', (he.mono sp.step.ext).set_ne hk _⟩
        · intro kk hkk
          exact mem_keys_set.mpr (Or.inr (h.keys kk hkk))
        · intro ee' hm' h1 h2 h3
          rcases List.mem_append.mp hm' with hm' | hm'
          · rw [map_lookupF_ext sp.step.ext (fun c hc => h.step.ext.dom (h3 c hc))]
            exact mem_keys_set.mpr (Or.inr (h.prog ee' hm' h1 h2 h3))
          · simp only [List.mem_singleton] at hm'
            subst hm'
            rw [← htup']
            exact mem_keys_set.mpr (Or.inl rfl)
        · intro c hc
          rcases sp.back c hc with h1 | ⟨ll, hl', h1⟩
          · exact h.back c h1
          · exact Or.inr (pairs_in_U hA hB hl' h1)

theorem buProc_pinv {c0 : Nat} {TA TB : Table} (hTA : TableOk TA) (hTB : TableOk TB) {s : St} {R : Table}
    {pr : Nat × Nat} {x : Nat} (hx : s.map.lookup pr = some x) :
    ∀ (rest L : List ((List Nat × MT) × (List Nat × MT))) (s' : St) (R' : Table), PInv c0 TA TB s R pr L s' R' →
      (∀ ee, ee ∈ rest → ee.1 ∈ pairs TA ∧ ee.2 ∈ pairs TB) →
      PInv c0 TA TB s R pr (L ++ rest) (buProc x pr rest s' R').1 (buProc x pr rest s' R').2
  | [], L, s', R', h, _ => by rw [List.append_nil]; exact h
  | ee :: rest, L, s', R', h, hr => by
    have := buProc_pinv hTA hTB hx rest (L ++ [ee]) _ _
      (buPair_pinv hTA hTB hx h ee (hr ee List.mem_cons_self).1 (hr ee List.mem_cons_self).2)
      (fun e he => hr e (List.mem_cons_of_mem _ he))
    rw [List.append_assoc] at this
    exact this

theorem mem_tuplePairs {TA TB : Table} {ee : (List Nat × MT) × (List Nat × MT)} :
    ee ∈ tuplePairs TA TB ↔ ee.1 ∈ pairs TA ∧ ee.2 ∈ pairs TB := by
  simp only [tuplePairs, List.mem_flatMap, List.mem_map]
  constructor
  · rintro ⟨a, ha, b, hb, rfl⟩; exact ⟨ha, hb⟩
  · rintro ⟨ha, hb⟩; exact ⟨ee.1, ha, ee.2, hb, rfl⟩

/-! ### the pairs taken from the work-set -/

theorem donePr_erase_self {s' : St} {pr : Nat × Nat} {x : Nat} (hx : s'.map.lookup pr = some x) :
    DonePr (s'.erase x) pr :=
  ⟨x, hx, fun hm => (mem_wsErase.mp hm).2 rfl⟩

theorem donePr_erase_fwd {s s' : St} (st : Step s s') (x : Nat) {c : Nat × Nat} (h : DonePr s c) :
    DonePr (s'.erase x) c := by
  obtain ⟨k, hk, hn⟩ := h
  refine ⟨k, st.ext _ _ hk, fun hm => ?_⟩
  rcases st.ws_new _ (mem_wsErase.mp hm).1 with h1 | h1
  · exact hn h1
  · rw [hk] at h1; cases h1

theorem donePr_erase_back {c0 : Nat} {s s' : St} (hg : Good c0 s') (st : Step s s') {pr : Nat × Nat} {x : Nat}
    (hx : s.map.lookup pr = some x) {c : Nat × Nat} (h : DonePr (s'.erase x) c) : c = pr ∨ DonePr s c := by
  obtain ⟨k, hk, hn⟩ := h
  change s'.map.lookup c = some k at hk
  by_cases hkx : k = x
  · subst hkx
    exact Or.inl (hg.num.lookup_inj hk (st.ext _ _ hx))
  · have hn' : (k, c) ∉ s'.ws := fun hm => hn (mem_wsErase.mpr ⟨hm, hkx⟩)
    rcases st.new c k hk with h1 | ⟨_, h2, _⟩
    · exact Or.inr ⟨k, h1, fun hm => hn' (st.ws_mono _ hm)⟩
    · exact absurd h2 hn'

theorem DonePr.dom {s : St} {c : Nat × Nat} (h : DonePr s c) : c ∈ s.map.dom := by
  obtain ⟨k, hk, _⟩ := h
  exact Isx.mem_dom_iff.mpr ⟨k, hk⟩

/-! ### the invariant of the bottom-up loop -/

structure BInv (c0 : Nat) (TA TB : Table) (FA FB : List Nat) (s : St) (R : Table) (F : List Nat) : Prop where
  good : Good c0 s
  ent : ∀ kk, kk ∈ R.keys → ∃ ks ks', EntOk TA TB s.map R kk ks ks'
  cov : ∀ ks ks', ks ∈ TA.keys → ks' ∈ TB.keys → ks'.length = ks.length → (∀ c, c ∈ ks.zip ks' → DonePr s c) →
    (ks.zip ks').map (lookupF s.map) ∈ R.keys
  fin : ∀ y, y ∈ F ↔ ∃ c, DonePr s c ∧ c.1 ∈ FA ∧ c.2 ∈ FB ∧ s.map.lookup c = some y

/-- one iteration -/
theorem BInv.pop {c0 : Nat} {TA TB : Table} (hTA : TableOk TA) (hTB : TableOk TB) {FA FB : List Nat} {s : St}
    {R : Table} {F : List Nat} {x : Nat} {pr : Nat × Nat} {rest : WS} (h : BInv c0 TA TB FA FB s R F)
    (hw : s.ws = (x, pr) :: rest) :
    BInv c0 TA TB FA FB ((buProc x pr (tuplePairs TA TB) s R).1.erase x) (buProc x pr (tuplePairs TA TB) s R).2
      (if FA.contains pr.1 && FB.contains pr.2 then F ++ [x] else F) ∧
    Step s (buProc x pr (tuplePairs TA TB) s R).1 ∧
    (∀ c, c ∈ (buProc x pr (tuplePairs TA TB) s R).1.map.dom → c ∈ s.map.dom ∨ c ∈ buU TA TB) := by
  have hx : s.map.lookup pr = some x := h.good.ws_map (x, pr) (by rw [hw]; exact List.mem_cons_self)
  have P0 : PInv c0 TA TB s R pr [] s R :=
    ⟨h.good, Step.refl s, h.ent, fun _ hk => hk, fun _ hm => (by cases hm), fun _ hc => Or.inl hc⟩
  have P := buProc_pinv hTA hTB hx (tuplePairs TA TB) [] s R P0 (fun ee he => mem_tuplePairs.mp he)
  rw [List.nil_append] at P
  have hx' := P.step.ext _ _ hx
  refine ⟨⟨P.good.erase x, P.ent, ?_, ?_⟩, P.step, P.back⟩
  · intro ks ks' hkA hkB hl hd
    have hd' : ∀ c, c ∈ ks.zip ks' → c = pr ∨ DonePr s c := fun c hc => donePr_erase_back P.good P.step hx (hd c hc)
    change (ks.zip ks').map (lookupF (buProc x pr (tuplePairs TA TB) s R).1.map) ∈ _
    by_cases hpr : pr ∈ ks.zip ks'
    · refine P.prog ((ks, TA.get ks), (ks', TB.get ks')) (mem_tuplePairs.mpr ⟨keys_pairs hkA, keys_pairs hkB⟩) hl hpr ?_
      intro c hc
      rcases hd' c hc with h1 | h1
      · rw [h1]; exact Isx.mem_dom_iff.mpr ⟨x, hx⟩
      · exact h1.dom
    · have hall : ∀ c, c ∈ ks.zip ks' → DonePr s c := by
        intro c hc
        rcases hd' c hc with h1 | h1
        · exact absurd (h1 ▸ hc) hpr
        · exact h1
      rw [map_lookupF_ext P.step.ext (fun c hc => (hall c hc).dom)]
      exact P.keys _ (h.cov ks ks' hkA hkB hl hall)
  · intro y
    have hF : y ∈ (if FA.contains pr.1 && FB.contains pr.2 then F ++ [x] else F) ↔
        y ∈ F ∨ ((pr.1 ∈ FA ∧ pr.2 ∈ FB) ∧ y = x) := by
      split
      · rename_i hb
        simp only [Bool.and_eq_true, List.contains_iff_mem] at hb
        simp only [List.mem_append, List.mem_singleton, hb, and_self, true_and]
      · rename_i hb
        simp only [Bool.and_eq_true, List.contains_iff_mem] at hb
        simp only [hb, false_and, or_false]
    rw [hF, h.fin y]
    constructor
    · rintro (⟨c, hc, h1, h2, h3⟩ | ⟨⟨h1, h2⟩, rfl⟩)
      · exact ⟨c, donePr_erase_fwd P.step x hc, h1, h2, P.step.ext _ _ h3⟩
      · exact ⟨pr, donePr_erase_self hx', h1, h2, hx'⟩
    · rintro ⟨c, hc, h1, h2, h3⟩
      change (buProc x pr (tuplePairs TA TB) s R).1.map.lookup c = some y at h3
      rcases donePr_erase_back P.good P.step hx hc with h4 | h4
      · subst h4
        rw [hx'] at h3
        exact Or.inr ⟨⟨h1, h2⟩, (Option.some.inj h3).symm⟩
      · obtain ⟨k, hk, hn⟩ := h4
        have : k = y := by
          have := P.step.ext _ _ hk
          rw [h3] at this
          exact (Option.some.inj this).symm
        subst this
        exact Or.inl ⟨c, ⟨k, hk, hn⟩, h1, h2, hk⟩

/-- the loop keeps the invariant and ends with an empty work-set -/
theorem buLoop_inv {c0 : Nat} {TA TB : Table} (hTA : TableOk TA) (hTB : TableOk TB) {FA FB : List Nat} :
    ∀ (fuel : Nat) (s : St) (R : Table) (F : List Nat) (s' : St) (R' : Table) (F' : List Nat),
      buLoop TA TB FA FB fuel s R F = some (s', R', F') → BInv c0 TA TB FA FB s R F →
      BInv c0 TA TB FA FB s' R' F' ∧ s'.ws = []
  | 0, s, R, F, s', R', F', h, hi => by
    unfold buLoop at h
    split at h
    · rename_i he
      simp only [Option.some.injEq, Prod.mk.injEq] at h
      obtain ⟨rfl, rfl, rfl⟩ := h
      exact ⟨hi, List.isEmpty_iff.mp he⟩
    · cases h
  | fuel + 1, s, R, F, s', R', F', h, hi => by
    unfold buLoop at h
    split at h
    · rename_i he
      simp only [Option.some.injEq, Prod.mk.injEq] at h
      obtain ⟨rfl, rfl, rfl⟩ := h
      exact ⟨hi, he⟩
    · rename_i x pr rest he
      exact buLoop_inv hTA hTB fuel _ _ _ s' R' F' h (hi.pop hTA hTB he).1

/-- at the end of the loop the certificate check succeeds -/
theorem binv_cert {c0 : Nat} {TA TB : Table} {FA FB : List Nat} {s : St} {R : Table} {F : List Nat}
    (h : BInv c0 TA TB FA FB s R F) (hw : s.ws = []) : buCertB TA FA TB FB s.map R F = true := by
  have hdone : ∀ c, c ∈ s.map.dom → DonePr s c := by
    intro c hc
    obtain ⟨k, hk⟩ := Isx.mem_dom_iff.mp hc
    exact ⟨k, hk, by rw [hw]; exact fun hm => by cases hm⟩
  have hinj := h.good.num.injOn
  have ready : ∀ ks ks', (ks, ks') ∈ buReady TA TB s.map.dom →
      EntOk TA TB s.map R ((ks.zip ks').map (lookupF s.map)) ks ks' := by
    intro ks ks' hr
    obtain ⟨hkA, hkB, hl, hd⟩ := mem_buReady.mp hr
    obtain ⟨ks2, ks2', he⟩ := h.ent _ (h.cov ks ks' hkA hkB hl (fun c hc => hdone c (hd c hc)))
    have hz := map_injOn hinj _ _ hd he.comps he.tup
    obtain ⟨rfl, rfl⟩ := zip_inj hl he.len hz
    exact he
  simp only [buCertB, buSymClosedB, buTableB, Bool.and_eq_true, List.all_eq_true, List.contains_iff_mem, beq_iff_eq,
    List.mem_map, seteq_iff, List.mem_filter]
  refine ⟨⟨?_, ?_, ?_⟩, ?_⟩
  · intro kk hkk ll hl p hp q hq
    exact (ready kk.1 kk.2 hkk).par ll hl (p, q) (mem_allPairs.mpr ⟨hp, hq⟩)
  · intro kk hkk
    exact (ready kk.1 kk.2 hkk).val
  · intro e he
    obtain ⟨ks, ks', hk⟩ := h.ent e.1 (List.mem_cons_of_mem _ (List.mem_map.mpr ⟨e, he, rfl⟩))
    exact ⟨(ks, ks'), mem_buReady.mpr ⟨hk.keyA, hk.keyB, hk.len, hk.comps⟩, hk.tup.symm⟩
  · intro y
    rw [h.fin y]
    constructor
    · rintro ⟨c, hc, h1, h2, h3⟩; exact ⟨c, ⟨hc.dom, h1, h2⟩, lookupF_of_lookup h3⟩
    · rintro ⟨c, ⟨hc, h1, h2⟩, h3⟩
      obtain ⟨k, hk⟩ := Isx.mem_dom_iff.mp hc
      rw [lookupF_of_lookup hk] at h3
      subst h3
      exact ⟨c, hdone c hc, h1, h2, hk⟩

/-- the invariant after the nullary MTBDDs were combined -/
theorem binv_init (c0 : Nat) (TA TB : Table) (FA FB : List Nat) :
    BInv c0 TA TB FA FB (apply2S leafBU ⟨[], [], c0⟩ (TA.get []) (TB.get [])).1
      (Table.empty.set [] (apply2S leafBU ⟨[], [], c0⟩ (TA.get []) (TB.get [])).2) [] := by
  have sp := apply2S_spec leafSpecBU c0 _ (TA.get []) (TB.get []) (good_init c0)
  have nodone : ∀ c, ¬ DonePr (apply2S leafBU ⟨[], [], c0⟩ (TA.get []) (TB.get [])).1 c := by
    rintro c ⟨k, hk, hn⟩
    rcases sp.step.new c k hk with h1 | ⟨_, h2, _⟩
    · cases h1
    · exact hn h2
  refine ⟨sp.good, ?_, ?_, ?_⟩
  · intro kk hkk
    have : kk = [] := by
      rcases mem_keys_set.mp hkk with h1 | h1
      · exact h1
      · simpa [Table.keys, Table.empty] using h1
    subst this
    refine ⟨[], [], nil_mem_keys _, nil_mem_keys _, rfl, fun c hc => (by cases hc), rfl, sp.dom, ?_⟩
    rw [get_set, if_pos rfl]
    exact sp.val
  · intro ks ks' _ _ _ hd
    cases hz : ks.zip ks' with
    | nil => exact mem_keys_set.mpr (Or.inl rfl)
    | cons c l => exact absurd (hd c (by rw [hz]; exact List.mem_cons_self)) (nodone c)
  · intro y
    constructor
    · intro hy; cases hy
    · rintro ⟨c, hc, _⟩; exact absurd hc (nodone c)

/-- **the certificate check of the bottom-up model never fails** (on tables as the C++ holds them, `TableOk`): the model
returns a result whenever the loop ends -/
theorem bddIsectBUFrom_of_loop {c0 : Nat} {TA : Table} {FA : List Nat} {TB : Table} {FB : List Nat} (hTA : TableOk TA)
    (hTB : TableOk TB) {fuel : Nat} {s : St} {R : Table} {F : List Nat}
    (h : buLoop TA TB FA FB fuel (apply2S leafBU ⟨[], [], c0⟩ (TA.get []) (TB.get [])).1
      (Table.empty.set [] (apply2S leafBU ⟨[], [], c0⟩ (TA.get []) (TB.get [])).2) [] = some (s, R, F)) :
    bddIsectBUFrom c0 TA FA TB FB fuel = some (R, F, s.map) := by
  obtain ⟨h1, h2⟩ := buLoop_inv hTA hTB fuel _ _ _ s R F h (binv_init c0 TA TB FA FB)
  unfold bddIsectBUFrom
  rw [h]
  simp only [binv_cert h1 h2, if_true]

/-- the model fails only by running out of fuel -/
theorem bddIsectBUFrom_none_iff {c0 : Nat} {TA : Table} {FA : List Nat} {TB : Table} {FB : List Nat} (hTA : TableOk TA)
    (hTB : TableOk TB) {fuel : Nat} :
    bddIsectBUFrom c0 TA FA TB FB fuel = none ↔
      buLoop TA TB FA FB fuel (apply2S leafBU ⟨[], [], c0⟩ (TA.get []) (TB.get [])).1
        (Table.empty.set [] (apply2S leafBU ⟨[], [], c0⟩ (TA.get []) (TB.get [])).2) [] = none := by
  constructor
  · intro h
    cases hl : buLoop TA TB FA FB fuel (apply2S leafBU ⟨[], [], c0⟩ (TA.get []) (TB.get [])).1
        (Table.empty.set [] (apply2S leafBU ⟨[], [], c0⟩ (TA.get []) (TB.get [])).2) [] with
    | none => rfl
    | some r => rw [bddIsectBUFrom_of_loop hTA hTB (s := r.1) (R := r.2.1) (F := r.2.2) hl] at h; cases h
  · intro h
    unfold bddIsectBUFrom
    rw [h]

/-! ### the bottom-up loop terminates within `buFuel` iterations -/

theorem buLoop_total {c0 : Nat} {TA TB : Table} (hTA : TableOk TA) (hTB : TableOk TB) {FA FB : List Nat} :
    ∀ (fuel : Nat) (s : St) (R : Table) (F : List Nat) (done : List (Nat × Nat)), BInv c0 TA TB FA FB s R F →
      FInv (buU TA TB) s done → (buU TA TB).countP (fun p => !done.contains p) ≤ fuel →
      (buLoop TA TB FA FB fuel s R F).isSome = true
  | fuel, s, R, F, done, hi, hf, hc => by
    cases hw : s.ws with
    | nil => cases fuel <;> simp [buLoop, hw]
    | cons e rest =>
      obtain ⟨x, pr⟩ := e
      have hx : s.map.lookup pr = some x := hi.good.ws_map (x, pr) (by rw [hw]; exact List.mem_cons_self)
      have hlt := countP_pop (U := buU TA TB) (done := done) (pr := pr)
        (hf.dom_U pr (Isx.mem_dom_iff.mpr ⟨x, hx⟩)) (hf.disj (x, pr) (by rw [hw]; exact List.mem_cons_self))
      cases fuel with
      | zero => omega
      | succ fuel =>
        obtain ⟨h1, h2, h3⟩ := hi.pop hTA hTB hw
        unfold buLoop
        rw [hw]
        simp only
        exact buLoop_total hTA hTB fuel _ _ _ (pr :: done) h1 (hf.pop hi.good hw h1.good h2 h3) (by omega)

/-- **with the fuel `buFuel` the bottom-up model always returns a result** (for every initial value of the counter) -/
theorem bddIsectBUFrom_isSome (c0 : Nat) {TA : Table} (FA : List Nat) {TB : Table} (FB : List Nat) (hTA : TableOk TA)
    (hTB : TableOk TB) : (bddIsectBUFrom c0 TA FA TB FB (buFuel TA TB)).isSome = true := by
  have sp := apply2S_spec leafSpecBU c0 _ (TA.get []) (TB.get []) (good_init c0)
  have hf : FInv (buU TA TB) (apply2S leafBU ⟨[], [], c0⟩ (TA.get []) (TB.get [])).1 [] := by
    refine ⟨?_, ?_, ?_⟩
    rotate_left
    · intro w _ hd; cases hd
    · intro p hp; cases hp
    intro c hc
    rcases sp.back c hc with h1 | ⟨ll, hl, h1⟩
    · cases h1
    · exact pairs_in_U (eA := ([], TA.get [])) (eB := ([], TB.get [])) (keys_pairs (nil_mem_keys _))
        (keys_pairs (nil_mem_keys _)) hl h1
  have ht := buLoop_total hTA hTB (FA := FA) (FB := FB) (buFuel TA TB) _ _ [] [] (binv_init c0 TA TB FA FB) hf (by
    have := List.countP_le_length (p := fun p => !([] : List (Nat × Nat)).contains p) (l := buU TA TB)
    have hl : (buU TA TB).length = buFuel TA TB := by
      unfold buU buFuel
      rw [show allPairs (buKids TA) (buKids TB) = allPairs2 (buKids TA) (buKids TB) from rfl, Isx.length_allPairs2]
    omega)
  cases hl : buLoop TA TB FA FB (buFuel TA TB) (apply2S leafBU ⟨[], [], c0⟩ (TA.get []) (TB.get [])).1
      (Table.empty.set [] (apply2S leafBU ⟨[], [], c0⟩ (TA.get []) (TB.get [])).2) [] with
  | none => rw [hl] at ht; simp at ht
  | some r => rw [bddIsectBUFrom_of_loop hTA hTB (s := r.1) (R := r.2.1) (F := r.2.2) hl]; rfl

theorem bddIsectBURef_isSome {TA : Table} (FA : List Nat) {TB : Table} (FB : List Nat) (hTA : TableOk TA)
    (hTB : TableOk TB) : (bddIsectBURef TA FA TB FB).isSome = true := bddIsectBUFrom_isSome 0 FA FB hTA hTB

/-- **the bottom-up symbolic intersection, total and correct**: with the fuel `buFuel` the model returns a table whose
abstraction accepts exactly the intersection, and a translation map with the values `0 … n-1` -/
theorem bddIsectBURef_lang {TA : Table} (FA : List Nat) {TB : Table} (FB : List Nat) (hTA : TableOk TA)
    (hTB : TableOk TB) :
    ∃ R F m, bddIsectBURef TA FA TB FB = some (R, F, m) ∧
      (∀ syms t, accepts (absBU syms R F) t = (accepts (absBU syms TA FA) t && accepts (absBU syms TB FB) t)) ∧
      m.map Prod.snd = List.range m.length := by
  cases h : bddIsectBURef TA FA TB FB with
  | none => have := bddIsectBURef_isSome FA FB hTA hTB; rw [h] at this; simp at this
  | some r =>
    obtain ⟨R, F, m⟩ := r
    exact ⟨R, F, m, rfl, fun syms t => bddIsectBU_lang h syms t, (bddIsect_numbers_dense.2 h).1⟩

/-! ### examples (non-vacuity) -/
namespace BddIsectEx

theorem okA : TableOk buA := tableOk_ofRules _
theorem okB : TableOk buB := tableOk_ofRules _

#guard tdFuel tdA [1] tdB [1] == 28 && buFuel buA buB == 15
#guard (bddIsectTDRef tdA [1] tdB [1]).map (·.2) == (bddIsectTD tdA [1] tdB [1] 4).map (·.2)
#guard (bddIsectBURef buA [1] buB [1]).map (·.2) == (bddIsectBU buA [1] buB [1] 3).map (·.2)
-- the two-stage search: `firstMatch = 1`, then the first common position 3
#guard matchPos [5, 1, 7, 1] [2, 9, 2, 2] (1, 2) == some 3 && matchPos [5, 1] [2, 9] (1, 2) == none &&
  matchPos [5, 6] [2, 2] (1, 2) == none

example : ∃ R F m, bddIsectTDRef tdA [1] tdB [1] = some (R, F, m) ∧
    (∀ syms t, accepts (absTD syms R F) t = (accepts (absTD syms tdA [1]) t && accepts (absTD syms tdB [1]) t)) ∧
    m.map Prod.snd = List.range m.length := bddIsectTDRef_lang tdA [1] tdB [1] arityA arityB

example : ∃ R F m, bddIsectBURef buA [1] buB [1] = some (R, F, m) ∧
    (∀ syms t, accepts (absBU syms R F) t = (accepts (absBU syms buA [1]) t && accepts (absBU syms buB [1]) t)) ∧
    m.map Prod.snd = List.range m.length := bddIsectBURef_lang [1] [1] okA okB

-- the apply with a side effect against the pure apply for the map it leaves behind
example : (apply2S leafBU ⟨[], [], 0⟩ (buA.get []) (buB.get [])).2 =
    apply2 (prodS (lookupF (apply2S leafBU ⟨[], [], 0⟩ (buA.get []) (buB.get [])).1.map)) (buA.get []) (buB.get []) :=
  (apply2S_spec leafSpecBU 0 _ _ _ (good_init 0)).val

end BddIsectEx

end BddIsect
end Vata
