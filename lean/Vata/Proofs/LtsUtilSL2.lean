import Vata.Proofs.LtsUtilSL

/-!
# `SharedList` as coded refines lists of segments – part 2: worlds, steps, histories

Handles of a `World` = `W.detached :: W.slots`, of a value `A` = `a.detached :: a.slots` (index `0` = the detached list,
index `s + 1` = slot `s`).  `Inv W a` = `P.InvG` for these handle lists with SOME set of live ids and SOME map id ↦ address.

Main results: `inv_mk0`, `append_refines` (three branches), `copy_refines`, `newList_refines`, `take_refines`,
`release_refines`, `iter_refines`, `step_refines`, `run_refines`; consequences stated without the ghost data:
`rc_eq_referrers`, `free_not_live`, `inv_correspondence`, `release_exact`, `reachable_inv`, `reachable_rc`, `reachable_free`.
-/

namespace Vata.LU.SL
open P

/-- the invariant + the correspondence with the value -/
def Inv (W : World) (a : A) : Prop :=
  ∃ live f, InvG W.w (W.detached :: W.slots) (a.detached :: a.slots) a.nextId live f

namespace P

theorem at'_replicate {α : Type} (n k : Nat) : at' (List.replicate n (none : Option α)) k = none := by
  induction n generalizing k with
  | zero => simp [at'_nil]
  | succ n ih =>
    cases k with
    | zero => simp [List.replicate_succ]
    | succ k => simp [List.replicate_succ, ih]

theorem set_some_self {α : Type} {l : List (Option α)} {k : Nat} {x : α} (h : at' l k = some x) :
    l.set k (some x) = l := by
  induction l generalizing k with
  | nil => simp
  | cons y l ih =>
    cases k with
    | zero => simp at h; simp [h]
    | succ k => simp at h; simp [ih h]

theorem getD_eq_at' {α : Type} (l : List (Option α)) (s : Nat) : l.getD s none = at' l s := rfl

end P

theorem inv_mk0 (n : Nat) : Inv (World.mk0 n) (A.mk0 n) := by
  refine ⟨[], id, ?_⟩
  have h1 : ∀ k, at' ((none : Option Nat) :: List.replicate n none) k = none := by
    intro k
    cases k with
    | zero => simp
    | succ k => simp [at'_replicate]
  have h2 : ∀ k, at' ((none : Option RemList) :: List.replicate n none) k = none := by
    intro k
    cases k with
    | zero => simp
    | succ k => simp [at'_replicate]
  refine
    { len := by simp [World.mk0, A.mk0]
      rep := ?_
      nd := by simp
      lt := by simp
      inj := by simp
      sub := ?_
      ndl := ?_
      reach := by simp
      rc := by simp
      node := by simp
      subinj := by simp
      free := by constructor <;> simp [World.mk0, W.empty] }
  · intro k
    simp only [World.mk0, A.mk0]
    rw [h1, h2]
    rfl
  · intro k L hL
    simp only [A.mk0] at hL
    rw [h2] at hL
    simp at hL
  · intro k L hL
    simp only [A.mk0] at hL
    rw [h2] at hL
    simp at hL

example : Inv (World.mk0 3) (A.mk0 3) := inv_mk0 3

theorem inv_of {W : World} {a : A} {live : List Nat} {f : Nat → Nat}
    (h : InvG W.w (W.detached :: W.slots) (a.detached :: a.slots) a.nextId live f) : Inv W a := ⟨live, f, h⟩

/-! ### `sharedId` is "occurs behind another handle" -/

namespace P

theorem any_id_iff (r : RemList) (id : Nat) : r.any (fun sg => sg.1 == id) = true ↔ id ∈ ids r := by
  simp only [List.any_eq_true, beq_iff_eq, ids, List.mem_map]

theorem sharedId_iff (a : A) (s id : Nat) :
    sharedId a s id = true ↔ elsewhere (a.detached :: a.slots) (s + 1) id := by
  unfold sharedId elsewhere
  rw [Bool.or_eq_true, List.any_eq_true]
  constructor
  · rintro (⟨s', h1, h2⟩ | h)
    · rw [Bool.and_eq_true] at h2
      obtain ⟨h3, h4⟩ := h2
      rw [getD_eq_at'] at h4
      cases ho : at' a.slots s' with
      | none => rw [ho] at h4; simp at h4
      | some r =>
        rw [ho] at h4
        refine ⟨s' + 1, r, ?_, by simpa using ho, (any_id_iff r id).1 h4⟩
        simp at h3
        omega
    · cases ho : a.detached with
      | none => rw [ho] at h; simp at h
      | some r =>
        rw [ho] at h
        exact ⟨0, r, by omega, by simp, (any_id_iff r id).1 h⟩
  · rintro ⟨k', L, hne, hL, hid⟩
    cases k' with
    | zero =>
      right
      simp only [at'_cons_zero] at hL
      rw [hL]
      exact (any_id_iff L id).2 hid
    | succ s' =>
      left
      simp only [at'_cons_succ] at hL
      refine ⟨s', List.mem_range.2 (at'_lt hL), ?_⟩
      rw [Bool.and_eq_true, getD_eq_at', hL]
      refine ⟨?_, (any_id_iff L id).2 hid⟩
      simp
      omega

end P

/-! ### one lemma per operation -/

theorem append_refines {W : World} {a : A} (I : Inv W a) (s x : Nat) (hok : ok a (.append s x) = true) :
    ∃ W' out, step W (.append s x) = some (W', out) ∧ Inv W' (aStep a (.append s x)) ∧
      (∀ e, aOut a (.append s x) = some e → out = e) := by
  obtain ⟨live, f, I⟩ := I
  have hs : s < a.slots.length := by simpa [ok] using hok
  have hlen : W.slots.length = a.slots.length := by simpa using I.len
  have hs' : s < W.slots.length := by omega
  have hk : s + 1 < (W.detached :: W.slots).length := by simp; omega
  simp only [step, hs', if_true, getD_eq_at', aStep, aOut]
  cases hh : at' W.slots s with
  | none =>
    -- branch 1: empty slot
    have hh' : at' (W.detached :: W.slots) (s + 1) = none := by simpa using hh
    have hha : at' a.slots s = none := by simpa using I.head_none hh'
    obtain ⟨v, hA⟩ := allocNode_alloc I.free
    obtain ⟨w', hp, hadd⟩ := hA.then none x
    have I' := hadd.inv I hk hh' (by simp)
    simp only [append, hp, Option.map_some, hha]
    have I'' : InvG w' (W.detached :: W.slots.set s (some (allocNode W.w).1))
        (a.detached :: a.slots.set s (some [(a.nextId, [x])])) (a.nextId + 1) (a.nextId :: live)
        (upd f a.nextId (allocNode W.w).1) := by simpa [hha] using I'
    refine ⟨_, _, rfl, inv_of I'', ?_⟩
    · intro e he; simpa using he
  | some l =>
    have hh' : at' (W.detached :: W.slots) (s + 1) = some l := by simpa using hh
    obtain ⟨i, sg, r, hha, hl, hi, ⟨v0, hv0, _⟩, _⟩ := I.head hh'
    have hha' : at' a.slots s = some ((i, sg) :: r) := by simpa using hha
    subst hl
    have hkey : 1 < (W.w.nodes.get (f i)).rc ↔ sharedId a s i = true :=
      (I.key hh' hi).trans (sharedId_iff a s i).symm
    by_cases hrc : 1 < (W.w.nodes.get (f i)).rc
    · -- branch 2: shared head, a new node in front
      have hsh : sharedId a s i = true := hkey.1 hrc
      obtain ⟨v, hA⟩ := allocNode_alloc I.free
      obtain ⟨w', hp, hadd⟩ := hA.then (some (f i)) x
      have I' := hadd.inv I hk hh' (by simp)
      simp only [append, gt_iff_lt, hrc, if_true, hp, Option.map_some, hha', hsh]
      have I'' : InvG w' (W.detached :: W.slots.set s (some (allocNode W.w).1))
          (a.detached :: a.slots.set s (some ((a.nextId, [x]) :: (i, sg) :: r))) (a.nextId + 1) (a.nextId :: live)
          (upd f a.nextId (allocNode W.w).1) := by simpa [hha'] using I'
      refine ⟨_, _, rfl, inv_of I'', ?_⟩
      · intro e he; simpa using he
    · -- branch 3: unshared head, push in place
      have hsh : ¬ sharedId a s i = true := fun h => hrc (hkey.2 h)
      have hun : ∀ k' L, k' ≠ s + 1 → at' (a.detached :: a.slots) k' = some L → i ∉ ids L := by
        intro k' L h1 h2 h3
        exact hsh ((sharedId_iff a s i).2 ⟨k', L, h1, h2, h3⟩)
      have I' := push_inv (x := x) I hha hv0 hun
      have hp : pushBack W.w (f i) x = some (pushW W.w v0 x) := by simp only [pushBack, hv0]; rfl
      simp only [append, gt_iff_lt, hrc, if_false, hp, Option.map_some, hha', hsh]
      have I'' : InvG (pushW W.w v0 x) (W.detached :: W.slots.set s (some (f i)))
          (a.detached :: a.slots.set s (some ((i, sg ++ [x]) :: r))) a.nextId live f := by
        have e : W.slots.set s (some (f i)) = W.slots := by
          have := set_some_self hh
          exact this
        rw [e]
        simpa using I'
      refine ⟨_, _, rfl, inv_of I'', ?_⟩
      · intro e he; simpa using he

theorem copy_refines {W : World} {a : A} (I : Inv W a) (s t : Nat) (hok : ok a (.copy s t) = true) :
    ∃ W' out, step W (.copy s t) = some (W', out) ∧ Inv W' (aStep a (.copy s t)) ∧
      (∀ e, aOut a (.copy s t) = some e → out = e) := by
  obtain ⟨live, f, I⟩ := I
  simp only [ok, Bool.and_eq_true, decide_eq_true_eq, getD_eq_at'] at hok
  obtain ⟨⟨⟨hs, ht⟩, hss⟩, htn⟩ := hok
  have hlen : W.slots.length = a.slots.length := by simpa using I.len
  have hst : s < W.slots.length ∧ t < W.slots.length := by omega
  have hk : t + 1 < (W.detached :: W.slots).length := by simp; omega
  have htn' : at' a.slots t = none := by simpa using htn
  obtain ⟨L, hL⟩ := Option.isSome_iff_exists.1 hss
  have hct : at' (W.detached :: W.slots) (t + 1) = none := by
    have := I.rep (t + 1)
    simp only [at'_cons_succ, htn'] at this
    simp only [at'_cons_succ]
    exact this
  have hcs : ∃ l, at' (W.detached :: W.slots) (s + 1) = some l := by
    have := I.rep (s + 1)
    simp only [at'_cons_succ, hL] at this
    cases hh : at' W.slots s with
    | none => rw [hh] at this; exact absurd (Rep_none this.2) this.1
    | some l => exact ⟨l, by simpa using hh⟩
  obtain ⟨l, hl⟩ := hcs
  have hl' : at' W.slots s = some l := by simpa using hl
  have I' := copy_inv I hl hk hct
  have I'' : InvG (copy W.w l) (W.detached :: W.slots.set t (some l)) (a.detached :: a.slots.set t (at' a.slots s))
      a.nextId live f := by simpa using I'
  simp only [step, hst, and_self, if_true, getD_eq_at', hl', aStep, aOut]
  refine ⟨_, _, rfl, inv_of I'', ?_⟩
  intro e he; simpa using he

theorem newList_refines {W : World} {a : A} (I : Inv W a) (s : Nat) (l : List Nat) (hok : ok a (.newList s l) = true) :
    ∃ W' out, step W (.newList s l) = some (W', out) ∧ Inv W' (aStep a (.newList s l)) ∧
      (∀ e, aOut a (.newList s l) = some e → out = e) := by
  obtain ⟨live, f, I⟩ := I
  simp only [ok, Bool.and_eq_true, decide_eq_true_eq, getD_eq_at'] at hok
  obtain ⟨⟨hs, hsn⟩, hl⟩ := hok
  have hlen : W.slots.length = a.slots.length := by simpa using I.len
  have hs' : s < W.slots.length := by omega
  have hk : s + 1 < (W.detached :: W.slots).length := by simp; omega
  have hsn' : at' a.slots s = none := by simpa using hsn
  have hl' : l ≠ [] := by simpa using hl
  have hcs : at' (W.detached :: W.slots) (s + 1) = none := by
    have := I.rep (s + 1)
    simp only [at'_cons_succ, hsn'] at this
    simp only [at'_cons_succ]
    exact this
  have I' := (newList_add I.free l).inv I hk hcs hl'
  have I'' : InvG (newList W.w l).2 (W.detached :: W.slots.set s (some (newList W.w l).1))
      (a.detached :: a.slots.set s (some [(a.nextId, l)])) (a.nextId + 1) (a.nextId :: live)
      (upd f a.nextId (newList W.w l).1) := by simpa [hsn'] using I'
  simp only [step, hs', if_true, aStep, aOut]
  refine ⟨_, _, rfl, inv_of I'', ?_⟩
  intro e he; simpa using he

theorem iter_refines {W : World} {a : A} (I : Inv W a) (s : Nat) (hok : ok a (.iter s) = true) :
    ∃ W' out, step W (.iter s) = some (W', out) ∧ Inv W' (aStep a (.iter s)) ∧
      (∀ e, aOut a (.iter s) = some e → out = e) := by
  obtain ⟨live, f, I⟩ := I
  simp only [ok, decide_eq_true_eq] at hok
  have hlen : W.slots.length = a.slots.length := by simpa using I.len
  have hs' : s < W.slots.length := by omega
  have hit := I.iter_eq (s + 1)
  simp only [at'_cons_succ] at hit
  cases ho : at' a.slots s with
  | none =>
    simp only [ho] at hit
    simp only [step, hs', if_true, getD_eq_at', hit, Option.map_some, aStep, aOut, ho]
    refine ⟨_, _, rfl, inv_of I, ?_⟩
    intro e he; simpa using he
  | some L =>
    simp only [ho] at hit
    simp only [step, hs', if_true, getD_eq_at', hit, Option.map_some, aStep, aOut, ho]
    refine ⟨_, _, rfl, inv_of I, ?_⟩
    intro e he; simpa using he

theorem take_refines {W : World} {a : A} (I : Inv W a) (s : Nat) (hok : ok a (.take s) = true) :
    ∃ W' out, step W (.take s) = some (W', out) ∧ Inv W' (aStep a (.take s)) ∧
      (∀ e, aOut a (.take s) = some e → out = e) := by
  obtain ⟨live, f, I⟩ := I
  simp only [ok, Bool.and_eq_true, decide_eq_true_eq, getD_eq_at'] at hok
  obtain ⟨⟨hs, hss⟩, hdn⟩ := hok
  have hlen : W.slots.length = a.slots.length := by simpa using I.len
  have hs' : s < W.slots.length := by omega
  have hdn' : a.detached = none := by simpa using hdn
  obtain ⟨L, hL⟩ := Option.isSome_iff_exists.1 hss
  have hcd : W.detached = none := by
    have := I.rep 0
    simp only [at'_cons_zero, hdn'] at this
    exact this
  have hcs : ∃ l, at' W.slots s = some l := by
    have := I.rep (s + 1)
    simp only [at'_cons_succ, hL] at this
    cases hh : at' W.slots s with
    | none => rw [hh] at this; exact absurd (Rep_none this.2) this.1
    | some l => exact ⟨l, rfl⟩
  obtain ⟨l, hl⟩ := hcs
  have hit := I.iter_eq (s + 1)
  simp only [at'_cons_succ, hl, hL] at hit
  have I' := move_inv (k1 := s + 1) (k2 := 0) (l := l) I (by simpa using hl) (by simp) (by simpa using hcd)
  have I'' : InvG W.w (some l :: W.slots.set s none) (some L :: a.slots.set s none) a.nextId live f := by
    rw [← hL]; simpa using I'
  have hc : s < W.slots.length ∧ W.detached.isNone = true := ⟨hs', by simp [hcd]⟩
  simp only [step, hc, and_self, if_true, getD_eq_at', hl, hit, Option.map_some, aStep, aOut, hL]
  refine ⟨_, _, rfl, inv_of I'', ?_⟩
  intro e he; simpa using he

theorem release_refines {W : World} {a : A} (I : Inv W a) (hok : ok a .release = true) :
    ∃ W' out, step W .release = some (W', out) ∧ Inv W' (aStep a .release) ∧
      (∀ e, aOut a .release = some e → out = e) := by
  obtain ⟨live, f, I⟩ := I
  simp only [ok] at hok
  obtain ⟨L, hL⟩ := Option.isSome_iff_exists.1 hok
  have hL0 : at' (a.detached :: a.slots) 0 = some L := by simpa using hL
  have hr := I.rep 0
  simp only [at'_cons_zero, hL] at hr
  have hne : L ≠ [] := hr.1
  obtain ⟨w', out, live', h1, h2, _⟩ :=
    release_spec (f := f) (nid := a.nextId) 0 L I (by rw [hL0, optL_ne hne]) (I.len_le hL0)
  simp only [at'_cons_zero] at h1
  have hd : ∃ l, W.detached = some l := by
    cases hh : W.detached with
    | none => rw [hh] at hr; exact absurd (Rep_none hr.2) hr.1
    | some l => exact ⟨l, rfl⟩
  obtain ⟨l, hl⟩ := hd
  rw [hl] at h1
  have I'' : InvG w' (none :: W.slots) (none :: a.slots) a.nextId live' f := by simpa using h2
  simp only [step, hl, h1, Option.map_some, aStep, aOut]
  refine ⟨_, _, rfl, inv_of I'', ?_⟩
  intro e he; simp at he

/-- every call inside the discipline is defined on the class as coded, re-establishes the invariant for the value
after the abstract step, and returns what the value says -/
theorem step_refines {W : World} {a : A} (I : Inv W a) (op : Op) (hok : ok a op = true) :
    ∃ W' out, step W op = some (W', out) ∧ Inv W' (aStep a op) ∧ (∀ e, aOut a op = some e → out = e) := by
  cases op with
  | append s x => exact append_refines I s x hok
  | copy s t => exact copy_refines I s t hok
  | newList s l => exact newList_refines I s l hok
  | take s => exact take_refines I s hok
  | release => exact release_refines I hok
  | iter s => exact iter_refines I s hok

/-! ### histories -/

def run (W : World) : List Op → Option (World × List (List Nat))
  | [] => some (W, [])
  | op :: ops =>
    match step W op with
    | none => none
    | some (W', o) => (run W' ops).map (fun r => (r.1, o :: r.2))

def aRun (a : A) : List Op → A
  | [] => a
  | op :: ops => aRun (aStep a op) ops

def okAll (a : A) : List Op → Bool
  | [] => true
  | op :: ops => ok a op && okAll (aStep a op) ops

/-- what the values say about the results, call by call -/
def aOuts (a : A) : List Op → List (Option (List Nat))
  | [] => []
  | op :: ops => aOut a op :: aOuts (aStep a op) ops

/-- `outs` agrees with the predictions `pred` wherever there is one -/
def Agree : List (List Nat) → List (Option (List Nat)) → Prop
  | [], [] => True
  | o :: outs, p :: pred => (∀ e, p = some e → o = e) ∧ Agree outs pred
  | _, _ => False

theorem run_refines_from {W : World} {a : A} (I : Inv W a) (ops : List Op) (hok : okAll a ops = true) :
    ∃ W' outs, run W ops = some (W', outs) ∧ Inv W' (aRun a ops) ∧ Agree outs (aOuts a ops) := by
  induction ops generalizing W a with
  | nil => exact ⟨W, [], rfl, I, trivial⟩
  | cons op ops ih =>
    simp only [okAll, Bool.and_eq_true] at hok
    obtain ⟨W1, o, h1, h2, h3⟩ := step_refines I op hok.1
    obtain ⟨W', outs, h4, h5, h6⟩ := ih h2 hok.2
    refine ⟨W', o :: outs, ?_, h5, h3, h6⟩
    simp only [run, h1, h4, Option.map_some]

/-- HISTORY THEOREM: every history inside the discipline, started from empty slots, runs on the class as coded without
reaching undefined behaviour, ends in a world that satisfies the invariant for the value computed on lists of segments,
and every observable result is the one the value predicts -/
theorem run_refines (n : Nat) (ops : List Op) (hok : okAll (A.mk0 n) ops = true) :
    ∃ W' outs, run (World.mk0 n) ops = some (W', outs) ∧ Inv W' (aRun (A.mk0 n) ops) ∧
      Agree outs (aOuts (A.mk0 n) ops) :=
  run_refines_from (inv_mk0 n) ops hok

namespace Ex

/-- sharing, a new node in front of a shared head, push in place, release that frees a prefix and stops at a shared
node, recycling of node and vector -/
def ops : List Op :=
  [.newList 0 [1, 2], .copy 0 1, .append 0 5, .append 0 6, .append 1 7, .iter 0, .take 0, .release,
   .iter 1, .append 2 8, .append 1 9, .take 1, .release, .append 0 3, .take 2, .release]

example : okAll (A.mk0 3) ops = true := by decide

example : aOuts (A.mk0 3) ops =
    [some [], some [], some [0], some [0], some [0], some [5, 6, 1, 2], some [5, 6, 1, 2], none,
     some [7, 1, 2], some [1], some [0], some [7, 9, 1, 2], none, some [1], some [8], none] := by decide

example : ok (A.mk0 3) (.append 1 4) = true := by decide

end Ex

/-! ### consequences of the invariant, stated without the ghost data -/

namespace P

theorem chain_spec {w : W} {f : Nat → Nat} {h : Option Nat} {L : RemList} (hr : Rep w f h L)
    {fuel : Nat} (hf : L.length ≤ fuel) : chain fuel w h = some ((ids L).map f) := by
  induction L generalizing h fuel with
  | nil =>
    rw [Rep_none_iff.1 hr]
    cases fuel <;> simp [chain]
  | cons sg r ih =>
    cases h with
    | none => simp at hr
    | some n =>
      rw [Rep_some_cons] at hr
      obtain ⟨hn, _, hrest⟩ := hr
      cases fuel with
      | zero => simp at hf
      | succ fuel =>
        simp only [chain]
        rw [ih hrest (by simp at hf; omega)]
        simp [hn]

theorem chain_none (fuel : Nat) (w : W) : chain fuel w none = some [] := by
  cases fuel <;> simp [chain]

theorem chain_same {w w0 : W} (hn : w0.nodes = w.nodes) (fuel : Nat) (h : Option Nat) :
    chain fuel w0 h = chain fuel w h := by
  induction fuel generalizing h with
  | zero => cases h <;> simp [chain]
  | succ fuel ih =>
    cases h with
    | none => simp [chain]
    | some e => simp only [chain, hn, ih]

/-- the deleter receives the longest prefix of the chain whose nodes have count 1 (counts as they were before the call) -/
theorem release_takeWhile (fuel : Nat) :
    ∀ {w w0 : W} {h : Option Nat} {w' : W} {out C : List Nat}, w0.nodes = w.nodes →
      release fuel w h = some (w', out) → chain fuel w0 h = some C →
      out = C.takeWhile (fun n => (w0.nodes.get n).rc == 1) := by
  induction fuel with
  | zero =>
    intro w w0 h w' out C hn hr hc
    cases h with
    | none =>
      simp [release] at hr; simp [chain] at hc
      rw [hr.2, hc]; rfl
    | some e => simp [release] at hr
  | succ fuel ih =>
    intro w w0 h w' out C hn hr hc
    cases h with
    | none =>
      simp [release] at hr; simp [chain] at hc
      rw [hr.2, hc]; rfl
    | some e =>
      simp only [chain, Option.map_eq_some_iff] at hc
      obtain ⟨C', hc', rfl⟩ := hc
      simp only [release] at hr
      split at hr
      · rename_i hrc
        split at hr
        · simp at hr
        · rename_i v hv
          split at hr
          · simp at hr
          · rename_i w1 l hrec
            simp only [Option.some.injEq, Prod.mk.injEq] at hr
            obtain ⟨_, rfl⟩ := hr
            have := ih (w0 := w0) (w := { w with vfree := v :: w.vfree, nfree := e :: w.nfree }) hn hrec
              (by rw [← hn]; exact hc')
            rw [List.takeWhile_cons]
            simp [hn, hrc, this]
      · rename_i hrc
        simp only [Option.some.injEq, Prod.mk.injEq] at hr
        rw [List.takeWhile_cons]
        simp [hn, hrc, hr.2.symm]

end P

/-- `n` lies on the chain behind some handle (a slot or the detached list) -/
def OnChain (W : World) (n : Nat) : Prop :=
  ∃ h ∈ W.detached :: W.slots, ∃ C, chain W.w.nnext W.w h = some C ∧ n ∈ C

/-- the id occurs behind some slot -/
def inSlots (a : A) (id : Nat) : Bool :=
  a.slots.any (fun o => match o with | none => false | some r => r.any (fun sg => sg.1 == id))

namespace P

theorem inSlots_iff (a : A) (id : Nat) : inSlots a id = true ↔ elsewhere (a.detached :: a.slots) 0 id := by
  unfold inSlots elsewhere
  rw [List.any_eq_true]
  constructor
  · rintro ⟨o, ho, h⟩
    cases o with
    | none => simp at h
    | some r =>
      obtain ⟨s', hs'⟩ := mem_at' ho
      exact ⟨s' + 1, r, by omega, by simpa using hs', (any_id_iff r id).1 h⟩
  · rintro ⟨k', L, hne, hL, hid⟩
    cases k' with
    | zero => exact absurd rfl hne
    | succ s' =>
      simp only [at'_cons_succ] at hL
      exact ⟨some L, at'_mem hL, (any_id_iff L id).2 hid⟩

theorem onChain_iff {W : World} {a : A} {live : List Nat} {f : Nat → Nat}
    (I : InvG W.w (W.detached :: W.slots) (a.detached :: a.slots) a.nextId live f) (n : Nat) :
    OnChain W n ↔ n ∈ live.map f := by
  constructor
  · rintro ⟨h, hh, C, hC, hn⟩
    cases h with
    | none => rw [chain_none] at hC; simp at hC; rw [hC] at hn; simp at hn
    | some n' =>
      obtain ⟨k, hk⟩ := mem_at' hh
      obtain ⟨i, s, r, hka, _⟩ := I.head hk
      have hr := I.rep k
      rw [hk, hka] at hr
      rw [chain_spec hr.2 (I.len_le hka)] at hC
      rw [← Option.some.inj hC] at hn
      obtain ⟨j, hj, rfl⟩ := List.mem_map.1 hn
      exact List.mem_map.2 ⟨j, I.sub k _ hka j hj, rfl⟩
  · intro hn
    obtain ⟨i, hi, rfl⟩ := List.mem_map.1 hn
    obtain ⟨k, L, hk, hiL⟩ := I.reach i hi
    have hr := I.rep k
    rw [hk] at hr
    cases hh : at' (W.detached :: W.slots) k with
    | none => rw [hh] at hr; exact absurd (Rep_none hr.2) hr.1
    | some n' =>
      rw [hh] at hr
      exact ⟨some n', at'_mem hh, _, chain_spec hr.2 (I.len_le hk), List.mem_map.2 ⟨i, hiL, rfl⟩⟩

end P

/-- REFERENCE COUNT = NUMBER OF REFERRERS: the nodes on the chains form a duplicate-free list `liveN`, and the stored
count of each of them is the number of handles pointing to it plus the number of live nodes whose `next_` points to it -/
theorem rc_eq_referrers {W : World} {a : A} (I : Inv W a) :
    ∃ liveN : List Nat, liveN.Nodup ∧ (∀ n, n ∈ liveN ↔ OnChain W n) ∧
      ∀ n ∈ liveN, (W.w.nodes.get n).rc =
        (W.detached :: W.slots).count (some n) + liveN.countP (fun m => (W.w.nodes.get m).next == some n) := by
  obtain ⟨live, f, I⟩ := I
  refine ⟨live.map f, nodup_map_of_inj I.nd I.inj, fun n => (onChain_iff I n).symm, ?_⟩
  intro n hn
  obtain ⟨i, hi, rfl⟩ := List.mem_map.1 hn
  rw [I.rc i hi, List.countP_map]
  rfl

/-- THE FREE LISTS NEVER HOLD A LIVE OBJECT (and hold nothing twice): a node on a chain is not in the node store, its
vector exists, is not in the vector store and is not empty; two live nodes never share a vector -/
theorem free_not_live {W : World} {a : A} (I : Inv W a) :
    W.w.nfree.Nodup ∧ W.w.vfree.Nodup ∧ (∀ n ∈ W.w.nfree, n < W.w.nnext) ∧ (∀ v ∈ W.w.vfree, v < W.w.vnext) ∧
    (∀ n, OnChain W n → n < W.w.nnext ∧ n ∉ W.w.nfree ∧
      ∃ v, (W.w.nodes.get n).sub = some v ∧ v < W.w.vnext ∧ v ∉ W.w.vfree ∧ W.w.vecs.get v ≠ []) ∧
    (∀ n m, OnChain W n → OnChain W m → (W.w.nodes.get n).sub = (W.w.nodes.get m).sub → n = m) := by
  obtain ⟨live, f, I⟩ := I
  refine ⟨I.free.nnd, I.free.vnd, I.free.nlt, I.free.vlt, ?_, ?_⟩
  · intro n hn
    obtain ⟨i, hi, rfl⟩ := List.mem_map.1 ((onChain_iff I n).1 hn)
    exact I.node i hi
  · intro n m hn hm h
    obtain ⟨i, hi, rfl⟩ := List.mem_map.1 ((onChain_iff I n).1 hn)
    obtain ⟨j, hj, rfl⟩ := List.mem_map.1 ((onChain_iff I m).1 hm)
    rw [I.subinj i hi j hj h]

/-- CORRESPONDENCE made explicit: one renaming `f` of ids to addresses, injective on the ids in use, maps every value
list to the chain behind its handle, and the vectors hold the segments -/
theorem inv_correspondence {W : World} {a : A} (I : Inv W a) :
    W.slots.length = a.slots.length ∧
    ∃ f : Nat → Nat,
      (∀ k, (at' (W.detached :: W.slots) k = none ↔ at' (a.detached :: a.slots) k = none) ∧
        chain W.w.nnext W.w (at' (W.detached :: W.slots) k) =
          some ((ids ((at' (a.detached :: a.slots) k).getD [])).map f)) ∧
      (∀ k k' L L', at' (a.detached :: a.slots) k = some L → at' (a.detached :: a.slots) k' = some L' →
        ∀ i ∈ ids L, ∀ j ∈ ids L', f i = f j → i = j) ∧
      (∀ k L, at' (a.detached :: a.slots) k = some L → L ≠ [] ∧ (ids L).Nodup ∧ ∀ sg ∈ L, sg.1 < a.nextId ∧
        ∃ v, (W.w.nodes.get (f sg.1)).sub = some v ∧ W.w.vecs.get v = sg.2) := by
  obtain ⟨live, f, I⟩ := I
  refine ⟨by simpa using I.len, f, ?_, ?_, ?_⟩
  · intro k
    have hr := I.rep k
    cases ho : at' (a.detached :: a.slots) k with
    | none =>
      rw [ho] at hr
      have : at' (W.detached :: W.slots) k = none := hr
      rw [this, chain_none]
      simp
    | some L =>
      rw [ho] at hr
      refine ⟨?_, by simpa using chain_spec hr.2 (I.len_le ho)⟩
      constructor
      · intro h; rw [h] at hr; exact absurd (Rep_none hr.2) hr.1
      · intro h; simp at h
  · intro k k' L L' hL hL' i hi j hj
    exact I.inj i (I.sub k L hL i hi) j (I.sub k' L' hL' j hj)
  · intro k L hL
    have hr := I.rep k
    rw [hL] at hr
    refine ⟨hr.1, I.ndl k L hL, ?_⟩
    intro sg hsg
    obtain ⟨L1, L2, rfl⟩ := List.append_of_mem hsg
    obtain ⟨hi, hrep⟩ := I.occ (i := sg.1) (s := sg.2) hL
    rw [Rep_some_cons] at hrep
    exact ⟨I.lt _ hi, hrep.2.1⟩

/-- `release` gives to the deleter EXACTLY THE PREFIX OF THE CHAIN REFERENCED BY NOTHING ELSE: `out` is the longest
prefix of the detached chain whose nodes have count 1, and it consists of the nodes of exactly those segments of the
detached value list whose id occurs behind no slot (these segments form a prefix `L1`; every later id does occur) -/
theorem release_exact {W : World} {a : A} (I : Inv W a) {L : RemList} (hL : a.detached = some L) :
    ∃ W' out C, step W .release = some (W', out) ∧ Inv W' (aStep a .release) ∧
      chain W.w.nnext W.w W.detached = some C ∧
      out = C.takeWhile (fun n => (W.w.nodes.get n).rc == 1) ∧
      ∃ L1 L2, L = L1 ++ L2 ∧ out = C.take L1.length ∧
        (∀ sg ∈ L1, inSlots a sg.1 = false) ∧ (∀ sg ∈ L2, inSlots a sg.1 = true) ∧
        (∀ n, OnChain W' n ↔ OnChain W n ∧ n ∉ out) := by
  obtain ⟨live, f, I⟩ := I
  have hL0 : at' (a.detached :: a.slots) 0 = some L := by simpa using hL
  have hr := I.rep 0
  simp only [at'_cons_zero, hL] at hr
  have hne : L ≠ [] := hr.1
  obtain ⟨w', out, live', h1, h2, L1, L2, h3, h4, h5, h6, h7⟩ :=
    release_spec (f := f) (nid := a.nextId) 0 L I (by rw [hL0, optL_ne hne]) (I.len_le hL0)
  simp only [at'_cons_zero] at h1
  have hd : ∃ l, W.detached = some l := by
    cases hh : W.detached with
    | none => rw [hh] at hr; exact absurd (Rep_none hr.2) hr.1
    | some l => exact ⟨l, rfl⟩
  obtain ⟨l, hl⟩ := hd
  have hC := chain_spec hr.2 (I.len_le hL0)
  have I'' : InvG w' (none :: W.slots) (none :: a.slots) a.nextId live' f := by simpa using h2
  have htw := release_takeWhile W.w.nnext rfl h1 hC
  rw [hl] at h1
  refine ⟨⟨w', W.slots, none⟩, out, _, ?_, inv_of I'', hC, htw, L1, L2, h3, ?_, ?_, ?_, ?_⟩
  · simp only [step, hl, h1, Option.map_some]
  · rw [h4, h3]
    simp only [ids_append, List.map_append]
    rw [List.take_left']
    simp [ids]
  · intro sg hsg
    have := h5 sg.1 (List.mem_map.2 ⟨sg, hsg, rfl⟩)
    rw [← inSlots_iff] at this
    simpa using this
  · intro sg hsg
    exact (inSlots_iff a sg.1).2 (h6 sg.1 (List.mem_map.2 ⟨sg, hsg, rfl⟩))
  · intro n
    rw [onChain_iff (W := ⟨w', W.slots, none⟩) (a := ⟨a.slots, none, a.nextId⟩) I'' n, onChain_iff I n, h4]
    constructor
    · intro hn
      obtain ⟨j, hj, rfl⟩ := List.mem_map.1 hn
      obtain ⟨hj1, hj2⟩ := (h7 j).1 hj
      refine ⟨List.mem_map.2 ⟨j, hj1, rfl⟩, ?_⟩
      intro hm
      obtain ⟨j', hj', e⟩ := List.mem_map.1 hm
      have hj'l : j' ∈ live := I.sub 0 L hL0 j' (by rw [h3]; simp [hj'])
      exact hj2 (I.inj j' hj'l j hj1 e ▸ hj')
    · rintro ⟨hn, hno⟩
      obtain ⟨j, hj, rfl⟩ := List.mem_map.1 hn
      refine List.mem_map.2 ⟨j, (h7 j).2 ⟨hj, ?_⟩, rfl⟩
      intro hj1
      exact hno (List.mem_map.2 ⟨j, hj1, rfl⟩)

/-- the invariant holds in every world reached by a history inside the discipline -/
theorem reachable_inv {n : Nat} {ops : List Op} {W : World} {outs : List (List Nat)}
    (hok : okAll (A.mk0 n) ops = true) (hrun : run (World.mk0 n) ops = some (W, outs)) :
    Inv W (aRun (A.mk0 n) ops) ∧ Agree outs (aOuts (A.mk0 n) ops) := by
  obtain ⟨W', outs', h1, h2, h3⟩ := run_refines n ops hok
  rw [hrun] at h1
  simp only [Option.some.injEq, Prod.mk.injEq] at h1
  rw [h1.1, h1.2]
  exact ⟨h2, h3⟩

/-- reference count = number of referrers, in every reachable world -/
theorem reachable_rc {n : Nat} {ops : List Op} {W : World} {outs : List (List Nat)}
    (hok : okAll (A.mk0 n) ops = true) (hrun : run (World.mk0 n) ops = some (W, outs)) :
    ∃ liveN : List Nat, liveN.Nodup ∧ (∀ m, m ∈ liveN ↔ OnChain W m) ∧
      ∀ m ∈ liveN, (W.w.nodes.get m).rc =
        (W.detached :: W.slots).count (some m) + liveN.countP (fun m' => (W.w.nodes.get m').next == some m) :=
  rc_eq_referrers (reachable_inv hok hrun).1

/-- the free lists never hold a live object, in every reachable world -/
theorem reachable_free {n : Nat} {ops : List Op} {W : World} {outs : List (List Nat)}
    (hok : okAll (A.mk0 n) ops = true) (hrun : run (World.mk0 n) ops = some (W, outs)) :
    W.w.nfree.Nodup ∧ W.w.vfree.Nodup ∧
    (∀ m, OnChain W m → m ∉ W.w.nfree ∧ ∃ v, (W.w.nodes.get m).sub = some v ∧ v ∉ W.w.vfree) := by
  obtain ⟨h1, h2, _, _, h5, _⟩ := free_not_live (reachable_inv hok hrun).1
  refine ⟨h1, h2, ?_⟩
  intro m hm
  obtain ⟨_, h6, v, h7, _, h8, _⟩ := h5 m hm
  exact ⟨h6, v, h7, h8⟩

namespace Ex

/-- non-vacuity of `step_refines` -/
example : ∃ W' out, step (World.mk0 3) (.append 1 4) = some (W', out) ∧
    Inv W' (aStep (A.mk0 3) (.append 1 4)) ∧ (∀ e, aOut (A.mk0 3) (.append 1 4) = some e → out = e) :=
  step_refines (inv_mk0 3) _ (by decide)

/-- non-vacuity of `run_refines`: the history `ops` is inside the discipline -/
example : ∃ W' outs, run (World.mk0 3) ops = some (W', outs) ∧ Inv W' (aRun (A.mk0 3) ops) ∧
    Agree outs (aOuts (A.mk0 3) ops) :=
  run_refines 3 ops (by decide)

/-- what the class as coded returns on `ops` (flags, iterated elements, and the NODE ADDRESSES handed to the deleter):
the first `release` frees node 1 only (node 0 is still behind slot 1, its count drops from 2 to 1), the second one frees
nodes 2 and 0, `append 2 8` and `append 0 3` get the recycled nodes 1 and 0 -/
example : (run (World.mk0 3) ops).map (·.2) =
    some [[], [], [0], [0], [0], [5, 6, 1, 2], [5, 6, 1, 2], [1], [7, 1, 2], [1], [0], [7, 9, 1, 2], [2, 0], [1], [8],
      [1]] := by decide

/-- non-vacuity of `release_exact` (and of `rc_eq_referrers`, `free_not_live`): after the first seven calls a list of
two segments is detached, the older one is still behind slot 1 -/
example : ∃ W, Inv W (aRun (A.mk0 3) (ops.take 7)) ∧
    (aRun (A.mk0 3) (ops.take 7)).detached = some [(1, [5, 6]), (0, [1, 2])] ∧
    inSlots (aRun (A.mk0 3) (ops.take 7)) 1 = false ∧ inSlots (aRun (A.mk0 3) (ops.take 7)) 0 = true := by
  obtain ⟨W, _, _, h, _⟩ := run_refines 3 (ops.take 7) (by decide)
  exact ⟨W, h, by decide, by decide, by decide⟩

end Ex

end Vata.LU.SL
