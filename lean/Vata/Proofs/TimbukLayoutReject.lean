import Vata.Proofs.TimbukLayoutFile
/-!
# Classes of texts the Timbuk parser rejects (property C13)

Every theorem is about the model `parseC`: the text is answered by `.error` (the model of `throw`).
* no line whose first word is `Transitions` (`rejects_no_transitions`);
* a line whose first word is an unknown keyword before the `Transitions` line (`rejects_unknown_keyword`);
* a section keyword `Ops` / `Automaton` / `States` / `Final` for the second time before `Transitions` (`rejects_repeated`);
* after the `Transitions` line, a non-blank line that is not a transition (`rejects_bad_transition`, classes `BadTrans`).
-/
namespace Vata.Timbuk
open Vata.T (splitDelim)

/-- the first word of a line -/
def firstWord (line : Str) : Str := (readWord (trim line)).1

theorem parseLines_append (a b : List Str) : ∀ st : PState,
    parseLines st (a ++ b) = (match parseLines st a with
      | .error e => .error e
      | .ok st' => parseLines st' b) := by
  induction a with
  | nil => intro st; rfl
  | cons l r ih =>
    intro st
    show parseLines st (l :: (r ++ b)) = _
    rw [parseLines, parseLines]
    split
    · exact ih st
    · split
      · rfl
      · exact ih _

/-! ## what a successful step does to the flags -/

/-- a successful header step: either the `Transitions` line, or a section whose flag was clear and is now set, nothing
else changing among the flags -/
theorem stepHeader_ok {st st' : PState} {line s : Str} (h : stepHeader st line s = .ok st') :
    ((readWord s).1 = kwTransitions ∧ st' = { st with areTrans := true }) ∨
    ∃ k : HKind, (readWord s).1 = k.kw ∧ st.flag k = false ∧ st'.flag k = true ∧ st'.areTrans = st.areTrans ∧
      ∀ k', k' ≠ k → st'.flag k' = st.flag k' := by
  unfold stepHeader at h
  by_cases h1 : (readWord s).1 = kwTransitions
  · simp only [h1, if_true] at h
    injection h with h
    exact Or.inl ⟨h1, h.symm⟩
  simp only [if_neg h1] at h
  right
  by_cases h2 : (readWord s).1 = kwAutomaton
  · simp only [if_pos h2] at h
    split at h
    · cases h
    · rename_i hf
      split at h
      · cases h
      · injection h with h
        subst h
        exact ⟨.aut, h2, by simpa [PState.flag] using hf, rfl, rfl, fun k' hk => by cases k' <;> first | rfl | exact absurd rfl hk⟩
  simp only [if_neg h2] at h
  by_cases h3 : (readWord s).1 = kwOps
  · simp only [if_pos h3] at h
    split at h
    · cases h
    · rename_i hf
      split at h
      · cases h
      · injection h with h
        subst h
        exact ⟨.ops, h3, by simpa [PState.flag] using hf, rfl, rfl, fun k' hk => by cases k' <;> first | rfl | exact absurd rfl hk⟩
  simp only [if_neg h3] at h
  by_cases h4 : (readWord s).1 = kwStates
  · simp only [if_pos h4] at h
    split at h
    · cases h
    · rename_i hf
      split at h
      · cases h
      · injection h with h
        subst h
        exact ⟨.states, h4, by simpa [PState.flag] using hf, rfl, rfl, fun k' hk => by cases k' <;> first | rfl | exact absurd rfl hk⟩
  simp only [if_neg h4] at h
  by_cases h5 : (readWord s).1 = kwFinal
  · simp only [if_pos h5] at h
    split at h
    · cases h
    · split at h
      · cases h
      · rename_i hf
        split at h
        · cases h
        · injection h with h
          subst h
          exact ⟨.final, h5, by simpa [PState.flag] using hf, rfl, rfl, fun k' hk => by cases k' <;> first | rfl | exact absurd rfl hk⟩
  simp only [if_neg h5] at h
  cases h

theorem kw_ne_transitions (k : HKind) : k.kw ≠ kwTransitions := by cases k <;> decide

theorem kw_injective {k k' : HKind} (h : k.kw = k'.kw) : k = k' := by
  cases k <;> cases k' <;> first | rfl | (revert h; decide)

/-- a section keyword whose flag is set is an error -/
theorem stepHeader_repeated {st : PState} {line s : Str} {k : HKind} (hw : (readWord s).1 = k.kw)
    (hf : st.flag k = true) : ∃ e, stepHeader st line s = .error e := by
  cases hr : stepHeader st line s with
  | error e => exact ⟨e, rfl⟩
  | ok st' =>
    rcases stepHeader_ok hr with ⟨h1, _⟩ | ⟨k', h1, h2, _⟩
    · exact absurd (hw ▸ h1) (kw_ne_transitions k)
    · have : k = k' := kw_injective (hw ▸ h1)
      subst this
      rw [hf] at h2; cases h2

/-- a first word that is no keyword is an error -/
theorem stepHeader_unknown {st : PState} {line s : Str} (h0 : (readWord s).1 ≠ kwTransitions)
    (hk : ∀ k : HKind, (readWord s).1 ≠ k.kw) : ∃ e, stepHeader st line s = .error e := by
  cases hr : stepHeader st line s with
  | error e => exact ⟨e, rfl⟩
  | ok st' =>
    rcases stepHeader_ok hr with ⟨h1, _⟩ | ⟨k', h1, _⟩
    · exact absurd h1 h0
    · exact absurd h1 (hk k')

/-- a successful transition step only inserts a transition -/
theorem stepTrans_ok {st st' : PState} {line s : Str} (h : stepTrans st line s = .ok st') : ∃ t, st' = addTrans st t := by
  unfold stepTrans stepLhs at h
  simp only at h
  repeat' (first | (injection h with h; exact ⟨_, h.symm⟩) | (cases h; done) | split at h)

/-! ## the header part of a text -/

/-- no line of `ls` has the first word `Transitions` -/
def NoTransitionsLine (ls : List Str) : Prop := ∀ l ∈ ls, firstWord l ≠ kwTransitions

/-- while no `Transitions` line is met the parser stays in the header, and flags that are set stay set -/
theorem parseLines_header_part : ∀ (ls : List Str) (st st' : PState), st.areTrans = false → NoTransitionsLine ls →
    parseLines st ls = .ok st' → st'.areTrans = false ∧ ∀ k, st.flag k = true → st'.flag k = true := by
  intro ls
  induction ls with
  | nil =>
    intro st st' ht _ h
    injection h with h; subst h
    exact ⟨ht, fun _ hk => hk⟩
  | cons l r ih =>
    intro st st' ht hn h
    have hnr : NoTransitionsLine r := fun x hx => hn x (List.mem_cons_of_mem _ hx)
    rw [parseLines] at h
    split at h
    · exact ih st st' ht hnr h
    · simp only [ht] at h
      split at h
      · cases h
      · rename_i st1 hst
        simp only [Bool.false_eq_true, if_false] at hst
        rcases stepHeader_ok hst with ⟨h1, _⟩ | ⟨k, _, hk0, hk1, hka, hko⟩
        · exact absurd h1 (hn l List.mem_cons_self)
        · obtain ⟨ha, hb⟩ := ih st1 st' (hka.trans ht) hnr h
          refine ⟨ha, fun k' hk' => hb k' ?_⟩
          by_cases e : k' = k
          · subst e; exact hk1
          · rw [hko k' e]; exact hk'

/-- **no `Transitions` line: rejected** -/
theorem rejects_no_transitions (t : Str) (h : NoTransitionsLine (splitDelim '\n' t)) : ∃ e, parseC t = .error e := by
  unfold parseC
  cases hr : parseLines {} (splitDelim '\n' t) with
  | error e => exact ⟨e, rfl⟩
  | ok st =>
    have := (parseLines_header_part _ _ _ rfl h hr).1
    simp [this]

/-- a non-blank header line that makes the step fail makes the text fail -/
theorem parseLines_fail_at {st : PState} {l : Str} (ls : List Str) (hne : trim l ≠ [])
    (h : ∃ e, (if st.areTrans then stepTrans st l (trim l) else stepHeader st l (trim l)) = .error e) :
    ∃ e, parseLines st (l :: ls) = .error e := by
  obtain ⟨e, he⟩ := h
  refine ⟨e, ?_⟩
  rw [parseLines]
  simp only [hne, if_false, he]

theorem firstWord_ne_nil {l : Str} {w : Str} (h : firstWord l = w) (hw : w ≠ []) : trim l ≠ [] := by
  intro e
  unfold firstWord at h
  rw [e] at h
  exact hw h.symm

/-- the parse of `pre ++ l :: post` fails if the step of `l` fails in every state the prefix can lead to -/
theorem parseC_fail_of_prefix {t : Str} {pre post : List Str} {l : Str} (hs : splitDelim '\n' t = pre ++ l :: post)
    (h : ∀ st, parseLines {} pre = .ok st → ∃ e, parseLines st (l :: post) = .error e) : ∃ e, parseC t = .error e := by
  unfold parseC
  rw [hs, parseLines_append]
  cases hr : parseLines {} pre with
  | error e => exact ⟨e, rfl⟩
  | ok st =>
    obtain ⟨e, he⟩ := h st hr
    exact ⟨e, by simp [he]⟩

/-- **an unknown first word before the `Transitions` line: rejected** -/
theorem rejects_unknown_keyword (t : Str) (pre post : List Str) (l : Str)
    (hs : splitDelim '\n' t = pre ++ l :: post) (hpre : NoTransitionsLine pre) (hne : trim l ≠ [])
    (h0 : firstWord l ≠ kwTransitions) (hk : ∀ k : HKind, firstWord l ≠ k.kw) : ∃ e, parseC t = .error e := by
  refine parseC_fail_of_prefix hs (fun st hst => parseLines_fail_at _ hne ?_)
  have := (parseLines_header_part _ _ _ rfl hpre hst).1
  simp only [this, Bool.false_eq_true, if_false]
  exact stepHeader_unknown h0 hk

/-- **the same section keyword twice before the `Transitions` line: rejected** -/
theorem rejects_repeated (t : Str) (k : HKind) (pre mid post : List Str) (l1 l2 : Str)
    (hs : splitDelim '\n' t = pre ++ l1 :: (mid ++ l2 :: post)) (hpre : NoTransitionsLine pre)
    (hmid : NoTransitionsLine mid) (h1 : firstWord l1 = k.kw) (h2 : firstWord l2 = k.kw) :
    ∃ e, parseC t = .error e := by
  have e : pre ++ l1 :: (mid ++ l2 :: post) = (pre ++ l1 :: mid) ++ l2 :: post := by simp
  rw [e] at hs
  have hn : NoTransitionsLine (pre ++ l1 :: mid) := by
    intro x hx
    rcases List.mem_append.mp hx with hx | hx
    · exact hpre x hx
    · rcases List.mem_cons.mp hx with hx | hx
      · subst hx; rw [h1]; exact kw_ne_transitions k
      · exact hmid x hx
  have hne2 : trim l2 ≠ [] := firstWord_ne_nil h2 (kw_word k).1
  have hne1 : trim l1 ≠ [] := firstWord_ne_nil h1 (kw_word k).1
  refine parseC_fail_of_prefix hs (fun st hst => parseLines_fail_at _ hne2 ?_)
  have ht := (parseLines_header_part _ _ _ rfl hn hst).1
  simp only [ht, Bool.false_eq_true, if_false]
  refine stepHeader_repeated h2 ?_
  -- the flag was set by `l1` and stays set
  rw [parseLines_append] at hst
  cases hp : parseLines {} pre with
  | error e => rw [hp] at hst; cases hst
  | ok st0 =>
    rw [hp] at hst
    simp only at hst
    have ht0 := (parseLines_header_part _ _ _ rfl hpre hp).1
    rw [parseLines] at hst
    simp only [hne1, if_false, ht0, Bool.false_eq_true] at hst
    split at hst
    · cases hst
    · rename_i st1 hst1
      rcases stepHeader_ok hst1 with ⟨h, _⟩ | ⟨k', hw, _, hk1, hka, _⟩
      · exact absurd (h1.symm.trans h) (kw_ne_transitions k)
      · have : k = k' := kw_injective (h1.symm.trans hw)
        subst this
        exact (parseLines_header_part _ _ _ (hka.trans ht0) hmid hst).2 k hk1

/-! ## the transition part of a text -/

/-- once a `Transitions` line has been read the parser is, and stays, in the transition part -/
theorem parseLines_trans_part : ∀ (ls : List Str) (st st' : PState), parseLines st ls = .ok st' →
    (st.areTrans = true ∨ ∃ l ∈ ls, firstWord l = kwTransitions) → st'.areTrans = true := by
  intro ls
  induction ls with
  | nil =>
    intro st st' h hc
    injection h with h; subst h
    rcases hc with hc | ⟨l, hl, _⟩
    · exact hc
    · cases hl
  | cons l r ih =>
    intro st st' h hc
    rw [parseLines] at h
    split at h
    · rename_i hb
      refine ih st st' h ?_
      rcases hc with hc | ⟨x, hx, hw⟩
      · exact Or.inl hc
      · rcases List.mem_cons.mp hx with hx | hx
        · subst hx
          exact absurd (firstWord_ne_nil hw (by decide)) (by simpa using hb)
        · exact Or.inr ⟨x, hx, hw⟩
    · split at h
      · cases h
      · rename_i st1 hst
        refine ih st1 st' h ?_
        by_cases ht : st.areTrans = true
        · simp only [ht, if_true] at hst
          obtain ⟨t, rfl⟩ := stepTrans_ok hst
          exact Or.inl ht
        · simp only [ht] at hst
          rcases hc with hc | ⟨x, hx, hw⟩
          · exact absurd hc ht
          · rcases List.mem_cons.mp hx with hx | hx
            · subst hx
              rcases stepHeader_ok hst with ⟨_, h2⟩ | ⟨k, h1, _⟩
              · subst h2; exact Or.inl rfl
              · exact absurd (h1.symm.trans hw) (kw_ne_transitions k)
            · exact Or.inr ⟨x, hx, hw⟩

/-- trimmed lines that are not transitions; `l`, `r`: the text before and after the first `->` -/
inductive BadTrans : Str → Prop
  /-- no `->` at all -/
  | noArrow {s : Str} : splitArrow s = none → BadTrans s
  /-- nothing, or more than one word, after the arrow -/
  | badRhs {s l r : Str} : splitArrow s = some (l, r) → (trim r = [] ∨ containsWs (trim r) = true) → BadTrans s
  /-- nothing before the arrow -/
  | noLhs {s l r : Str} : splitArrow s = some (l, r) → trim l = [] → BadTrans s
  /-- no parentheses and white space inside the left-hand side -/
  | twoWords {s l r : Str} : splitArrow s = some (l, r) → '(' ∉ trim l → containsWs (trim l) = true → BadTrans s
  /-- `)` without `(` -/
  | closeOnly {s l r : Str} : splitArrow s = some (l, r) → '(' ∉ trim l → ')' ∈ trim l → BadTrans s
  /-- `(` without `)` -/
  | openOnly {s l r : Str} : splitArrow s = some (l, r) → '(' ∈ trim l → ')' ∉ trim l → BadTrans s

theorem dropWhile_ne_of_mem {c : Char} {l : Str} (h : c ∈ l) : ∃ r, l.dropWhile (fun x => x != c) = c :: r := by
  induction l with
  | nil => cases h
  | cons a r ih =>
    by_cases e : a = c
    · subst e; exact ⟨r, by simp⟩
    · rcases List.mem_cons.mp h with h | h
      · exact absurd h.symm e
      · obtain ⟨r', hr'⟩ := ih h
        exact ⟨r', by rw [List.dropWhile_cons_of_pos (by simpa using e)]; exact hr'⟩

theorem stepLhs_bad {st : PState} {line lhs rhs : Str}
    (h : lhs = [] ∨ ('(' ∉ lhs ∧ containsWs lhs = true) ∨ ('(' ∉ lhs ∧ ')' ∈ lhs) ∨ ('(' ∈ lhs ∧ ')' ∉ lhs)) :
    stepLhs st line lhs rhs = .error (errInvalidTrans line) := by
  unfold stepLhs
  rcases h with h | ⟨h1, h2⟩ | ⟨h1, h2⟩ | ⟨h1, h2⟩
  · subst h; rfl
  · rw [dropWhile_all (ne_colon_all h1)]
    simp [h2]
  · rw [dropWhile_all (ne_colon_all h1)]
    simp [h2]
  · obtain ⟨inner, hi⟩ := dropWhile_ne_of_mem h1
    rw [hi]
    have h3 : ')' ∉ lhs.takeWhile (fun c => c != '(') :=
      fun hc => h2 ((List.takeWhile_sublist _).subset hc)
    have h4 : ')' ∉ inner := by
      intro hc
      have : ')' ∈ lhs.dropWhile (fun c => c != '(') := by rw [hi]; exact List.mem_cons_of_mem _ hc
      exact h2 ((List.dropWhile_sublist _).subset this)
    simp only [contains_false h3, Bool.false_eq_true, if_false, dropWhile_all (ne_colon_all h4)]

theorem stepTrans_bad {st : PState} {line s : Str} (h : BadTrans s) :
    stepTrans st line s = .error (errInvalidTrans line) := by
  unfold stepTrans
  cases h with
  | noArrow h => rw [h]
  | badRhs h h' =>
    rw [h]
    rcases h' with h' | h'
    · simp [h']
    · simp [h']
  | noLhs h h' =>
    rw [h]
    simp only
    split
    · rfl
    · exact stepLhs_bad (Or.inl h')
  | twoWords h h1 h2 =>
    rw [h]
    simp only
    split
    · rfl
    · exact stepLhs_bad (Or.inr (Or.inl ⟨h1, h2⟩))
  | closeOnly h h1 h2 =>
    rw [h]
    simp only
    split
    · rfl
    · exact stepLhs_bad (Or.inr (Or.inr (Or.inl ⟨h1, h2⟩)))
  | openOnly h h1 h2 =>
    rw [h]
    simp only
    split
    · rfl
    · exact stepLhs_bad (Or.inr (Or.inr (Or.inr ⟨h1, h2⟩)))

/-- **after the `Transitions` line, a non-blank line that is not a transition: rejected** -/
theorem rejects_bad_transition (t : Str) (pre post : List Str) (l : Str)
    (hs : splitDelim '\n' t = pre ++ l :: post) (hpre : ∃ x ∈ pre, firstWord x = kwTransitions)
    (hne : trim l ≠ []) (hbad : BadTrans (trim l)) : ∃ e, parseC t = .error e := by
  refine parseC_fail_of_prefix hs (fun st hst => parseLines_fail_at _ hne ?_)
  have := parseLines_trans_part _ _ _ hst (Or.inr hpre)
  simp only [this, if_true]
  exact ⟨_, stepTrans_bad hbad⟩

end Vata.Timbuk
