import Vata.Proofs.TimbukGrammarFile
/-!
# The rejected texts, by the first offence (property C13)

`rejected_iff : Rejected t ↔ ¬ Accepted t`.
-/
namespace Vata.Timbuk
open Vata.T (splitDelim)

theorem isBlankLine_false_iff (l : Str) : isBlankLine l = false ↔ ¬ AllWs l := by
  rw [← isBlankLine_iff]; simp

theorem isTransitionsLine_false_iff (l : Str) : isTransitionsLine l = false ↔ ¬ TransitionsLine l := by
  rw [← isTransitionsLine_iff]; simp

/-- the second pass fails iff some line is neither blank nor a transition line -/
theorem readRulePart_none (ls : List Str) : readRulePart ls = none ↔
    ∃ pre l post, ls = pre ++ l :: post ∧ ¬ AllWs l ∧ ∀ lab kids rhs, ¬ TransLine l lab kids rhs := by
  constructor
  · induction ls with
    | nil => intro h; rw [readRulePart] at h; cases h
    | cons x ls ih =>
      intro h
      rw [readRulePart] at h
      by_cases hb : isBlankLine x = true
      · rw [if_pos hb] at h
        obtain ⟨pre, l, post, e, h1, h2⟩ := ih h
        exact ⟨x :: pre, l, post, by rw [e]; rfl, h1, h2⟩
      · rw [if_neg hb] at h
        cases hr : readTransLine x with
        | none =>
          refine ⟨[], x, ls, rfl, (isBlankLine_false_iff x).mp (by simpa using hb), ?_⟩
          intro lab kids rhs ht
          rw [(transLine_iff _ _ _ _).mp ht] at hr; cases hr
        | some r =>
          rw [hr] at h
          cases hrs : readRulePart ls with
          | none =>
            obtain ⟨pre, l, post, e, h1, h2⟩ := ih hrs
            exact ⟨x :: pre, l, post, by rw [e]; rfl, h1, h2⟩
          | some rs => rw [hrs] at h; cases h
  · rintro ⟨pre, l, post, rfl, h1, h2⟩
    induction pre with
    | nil =>
      rw [List.nil_append, readRulePart, (isBlankLine_false_iff l).mpr h1]
      cases hr : readTransLine l with
      | none => rfl
      | some r =>
        obtain ⟨kids, lab, rhs⟩ := r
        exact absurd ((transLine_iff _ _ _ _).mpr hr) (h2 _ _ _)
    | cons x pre ih =>
      rw [List.cons_append, readRulePart, ih]
      by_cases hb : isBlankLine x = true
      · rw [if_pos hb]
      · rw [if_neg hb]
        cases readTransLine x <;> rfl

/-- the first pass fails iff all lines are blank or header lines (no `Transitions` line), or some line before any
`Transitions` line is neither blank, nor a `Transitions` line, nor a header line -/
theorem readHeaderPart_none (ls : List Str) : readHeaderPart ls = none ↔
    (∃ hs, HeaderPart ls hs) ∨
    ∃ pre l post hs, ls = pre ++ l :: post ∧ HeaderPart pre hs ∧ ¬ AllWs l ∧ ¬ TransitionsLine l ∧
      ∀ k ps, ¬ HeaderLine l k ps := by
  constructor
  · induction ls with
    | nil => intro _; exact Or.inl ⟨[], .nil⟩
    | cons x ls ih =>
      intro h
      rw [readHeaderPart] at h
      by_cases hb : isBlankLine x = true
      · rw [if_pos hb] at h
        have hb' := (isBlankLine_iff x).mp hb
        rcases ih h with ⟨hs, hh⟩ | ⟨pre, l, post, hs, e, hh, h1, h2, h3⟩
        · exact Or.inl ⟨hs, .blank hb' hh⟩
        · exact Or.inr ⟨x :: pre, l, post, hs, by rw [e]; rfl, .blank hb' hh, h1, h2, h3⟩
      · rw [if_neg hb] at h
        by_cases hT : isTransitionsLine x = true
        · rw [if_pos hT] at h; cases h
        · rw [if_neg hT] at h
          cases hr : readHeader (readWords (trim x)) with
          | none =>
            refine Or.inr ⟨[], x, ls, [], rfl, .nil, (isBlankLine_false_iff x).mp (by simpa using hb),
              (isTransitionsLine_false_iff x).mp (by simpa using hT), ?_⟩
            intro k ps hl
            rw [(headerLine_iff _ _ _).mp hl] at hr; cases hr
          | some y =>
            rw [hr] at h
            obtain ⟨k, ps⟩ := y
            have hl := (headerLine_iff _ _ _).mpr hr
            cases hp : readHeaderPart ls with
            | none =>
              rcases ih hp with ⟨hs, hh⟩ | ⟨pre, l, post, hs, e, hh, h1, h2, h3⟩
              · exact Or.inl ⟨_, .line hl hh⟩
              · exact Or.inr ⟨x :: pre, l, post, _, by rw [e]; rfl, .line hl hh, h1, h2, h3⟩
            | some p => rw [hp] at h; cases h
  · rintro (⟨hs, hh⟩ | ⟨pre, l, post, hs, rfl, hh, h1, h2, h3⟩)
    · induction hh with
      | nil => rfl
      | blank hb _ ih => rw [readHeaderPart, (isBlankLine_iff _).mpr hb]; exact ih
      | line hl _ ih =>
        have he := headerLine_excl hl
        rw [readHeaderPart, he.1, he.2, (headerLine_iff _ _ _).mp hl, ih]
        rfl
    · induction hh with
      | nil =>
        rw [List.nil_append, readHeaderPart, (isBlankLine_false_iff l).mpr h1, (isTransitionsLine_false_iff l).mpr h2]
        cases hr : readHeader (readWords (trim l)) with
        | none => rfl
        | some y =>
          obtain ⟨k, ps⟩ := y
          exact absurd ((headerLine_iff _ _ _).mpr hr) (h3 k ps)
      | blank hb _ ih => rw [List.cons_append, readHeaderPart, (isBlankLine_iff _).mpr hb]; exact ih
      | line hl _ ih =>
        have he := headerLine_excl hl
        rw [List.cons_append, readHeaderPart, he.1, he.2, (headerLine_iff _ _ _).mp hl, ih]
        rfl

theorem not_accepted_iff (t : Str) : ¬ Accepted t ↔ readText t = none := by
  rw [← acceptedB_iff, acceptedB]
  cases readText t <;> simp

/-- **rejected = not accepted** -/
theorem rejected_iff (t : Str) : Rejected t ↔ ¬ Accepted t := by
  rw [not_accepted_iff]
  unfold readText readLines
  constructor
  · intro h
    cases h with
    | noTransitions hl hh =>
      rw [(lines_iff _ _).mp hl, (readHeaderPart_none _).mpr (Or.inl ⟨_, hh⟩)]
    | badHeader hl hh h1 h2 h3 =>
      rw [(lines_iff _ _).mp hl, (readHeaderPart_none _).mpr (Or.inr ⟨_, _, _, _, rfl, hh, h1, h2, h3⟩)]
    | repeated hl hh ht hn =>
      rw [(lines_iff _ _).mp hl, (headerPart_iff _ _ _).mp ⟨_, _, rfl, hh, ht⟩]
      simp only [if_neg hn]
      cases readRulePart _ <;> rfl
    | badRule hl hh ht h1 h2 =>
      rw [(lines_iff _ _).mp hl, (headerPart_iff _ _ _).mp ⟨_, _, rfl, hh, ht⟩]
      simp only [(readRulePart_none _).mpr ⟨_, _, _, rfl, h1, h2⟩]
  · intro h
    have hl : Lines t (splitDelim '\n' t) := (lines_iff _ _).mpr rfl
    cases hp : readHeaderPart (splitDelim '\n' t) with
    | none =>
      rcases (readHeaderPart_none _).mp hp with ⟨hs, hh⟩ | ⟨pre, l, post, hs, e, hh, h1, h2, h3⟩
      · exact .noTransitions hl hh
      · rw [e] at hl
        exact .badHeader hl hh h1 h2 h3
    | some p =>
      obtain ⟨hs, rest⟩ := p
      rw [hp] at h
      simp only at h
      obtain ⟨hdr, trl, e, hh, ht⟩ := (headerPart_iff _ _ _).mpr hp
      rw [e] at hl
      cases hr : readRulePart rest with
      | none =>
        obtain ⟨pre, l, post, e', h1, h2⟩ := (readRulePart_none _).mp hr
        rw [e'] at hl
        exact .badRule hl hh ht h1 h2
      | some rs =>
        rw [hr] at h
        simp only at h
        by_cases hn : (hs.map (·.1)).Nodup
        · rw [if_pos hn] at h; cases h
        · exact .repeated hl hh ht hn

end Vata.Timbuk
