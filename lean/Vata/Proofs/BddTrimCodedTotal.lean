import Vata.Proofs.BddTrimCodedGlue
/-!
# The two work-list loops of `BDDTDTreeAutCore::RemoveUselessStates` as coded terminate (explicit fuel bounds)

`Vata/BddTrimCoded.lean` gives fuel to the two `while` loops of `src/bdd_td_tree_aut_useless.cc`.  Here: a fuel of
`|F| + |states in the leaves of T|` suffices for the construction of the AND/OR graph (`buildLoop_total`), the result has at
most that many OR nodes and no more terminal nodes than OR nodes (`buildLoop_bounds`), a fuel of
`|termNodes| + |orNodes| + 1` suffices for the propagation (`propLoop_total`); together `usefulCoded_total`,
`removeUselessTDCoded_total`.  No hypothesis on `F`.
-/
namespace Vata
namespace BddTrimCoded
open M BddAbs BddAbsTD

/-! ### auxiliary -/

theorem cntNot_le_length (U S : List Nat) : cntNot U S ≤ U.length := by
  unfold cntNot; exact List.countP_le_length

theorem mem_allKids {T : TableTD} {p : Nat} {t : List Nat} {s : Nat} (ht : t ∈ leafTuples (getTD T p)) (hs : s ∈ t) :
    s ∈ allKids T := by
  simp only [allKids, List.mem_flatMap, id]
  refine ⟨p, ?_, t, ht, hs⟩
  apply Classical.byContradiction
  intro hn
  rw [getTD_not_key hn] at ht
  simp [leafTuples, voidApply1] at ht

theorem ins_ins (x : Nat) (l : List Nat) : ins x (ins x l) = ins x l := by
  have hm : (ins x l).contains x = true := by
    unfold ins; split
    · assumption
    · simp
  conv => lhs; rw [ins]
  rw [if_pos hm]

theorem length_ins_le (x : Nat) (l : List Nat) : (ins x l).length ≤ l.length + 1 := by
  unfold ins; split <;> simp

/-! ### the construction of the graph -/

/-- what the termination argument sees of the progress of the construction (`K`: the candidates for new states) -/
structure Adv (K : List Nat) (B B' : Build) : Prop where
  ws : B'.ws.length + cntNot K (B'.orN.map (·.2)) ≤ B.ws.length + cntNot K (B.orN.map (·.2))
  orl : B'.orN.length + cntNot K (B'.orN.map (·.2)) ≤ B.orN.length + cntNot K (B.orN.map (·.2))
  diff : B'.orN.length + B.ws.length = B.orN.length + B'.ws.length

theorem Adv.refl (K : List Nat) (B : Build) : Adv K B B := ⟨Nat.le_refl _, Nat.le_refl _, rfl⟩

theorem Adv.trans {K : List Nat} {B B' B'' : Build} (h : Adv K B B') (h' : Adv K B' B'') : Adv K B B'' := by
  obtain ⟨a, b, c⟩ := h
  obtain ⟨a', b', c'⟩ := h'
  exact ⟨by omega, by omega, by omega⟩

theorem stateStep_adv {K : List Nat} (a : Nat) (B : Build) {s : Nat} (hs : s ∈ K) :
    Adv K B (stateStep a B s) ∧ (stateStep a B s).term = B.term := by
  unfold stateStep
  split
  · exact ⟨⟨Nat.le_refl _, Nat.le_refl _, rfl⟩, rfl⟩
  · next hn =>
    have hnew : s ∉ B.orN.map (·.2) := by
      intro hm
      obtain ⟨e, he, rfl⟩ := List.mem_map.mp hm
      exact findBwd_none hn e.1 he
    have hc := cntNot_add hs hnew
    refine ⟨⟨?_, ?_, ?_⟩, rfl⟩
    all_goals
      simp only [List.map_append, List.map_cons, List.map_nil, List.length_append, List.length_cons, List.length_nil]
      omega

theorem stateFold_adv {K : List Nat} (a : Nat) : ∀ (l : List Nat) (B : Build), (∀ s, s ∈ l → s ∈ K) →
    Adv K B (l.foldl (stateStep a) B) ∧ (l.foldl (stateStep a) B).term = B.term
  | [], B, _ => ⟨Adv.refl K B, rfl⟩
  | s :: l, B, h => by
    simp only [List.foldl_cons]
    have h1 := stateStep_adv (K := K) a B (h s List.mem_cons_self)
    have h2 := stateFold_adv a l (stateStep a B s) (fun x hx => h x (List.mem_cons_of_mem _ hx))
    exact ⟨h1.1.trans h2.1, h2.2.trans h1.2⟩

theorem tupleStep_adv {K : List Nat} (proc : Nat) (B : Build) {t : List Nat} (ht : ∀ s, s ∈ t → s ∈ K) :
    Adv K B (tupleStep proc B t) ∧
      ((tupleStep proc B t).term = B.term ∨ (tupleStep proc B t).term = ins proc B.term) := by
  unfold tupleStep
  split
  · exact ⟨⟨Nat.le_refl _, Nat.le_refl _, rfl⟩, Or.inr rfl⟩
  · split
    · exact ⟨⟨Nat.le_refl _, Nat.le_refl _, rfl⟩, Or.inl rfl⟩
    · have h := stateFold_adv (K := K) B.G.addNode.2 t
        { B with G := B.G.addNode.1, andN := B.andN ++ [(B.G.addNode.2, t)] } ht
      exact ⟨⟨h.1.ws, h.1.orl, h.1.diff⟩, Or.inl h.2⟩

theorem tupleFold_adv {K : List Nat} (proc : Nat) : ∀ (l : List (List Nat)) (B : Build),
    (∀ t, t ∈ l → ∀ s, s ∈ t → s ∈ K) →
    Adv K B (l.foldl (tupleStep proc) B) ∧
      ((l.foldl (tupleStep proc) B).term = B.term ∨ (l.foldl (tupleStep proc) B).term = ins proc B.term)
  | [], B, _ => ⟨Adv.refl K B, Or.inl rfl⟩
  | t :: l, B, h => by
    simp only [List.foldl_cons]
    have h1 := tupleStep_adv (K := K) proc B (h t List.mem_cons_self)
    have h2 := tupleFold_adv proc l (tupleStep proc B t) (fun x hx => h x (List.mem_cons_of_mem _ hx))
    refine ⟨h1.1.trans h2.1, ?_⟩
    rcases h1.2 with e1 | e1 <;> rcases h2.2 with e2 | e2
    · exact Or.inl (e2.trans e1)
    · exact Or.inr (by rw [e2, e1])
    · exact Or.inr (e2.trans e1)
    · exact Or.inr (by rw [e2, e1, ins_ins])

/-- one round of the `while` loop -/
theorem round_adv (T : TableTD) (B : Build) (n s : Nat) (ws : List (Nat × Nat)) :
    Adv (allKids T) { B with ws := ws } ((leafTuples (getTD T s)).foldl (tupleStep n) { B with ws := ws }) ∧
    (((leafTuples (getTD T s)).foldl (tupleStep n) { B with ws := ws }).term = B.term ∨
     ((leafTuples (getTD T s)).foldl (tupleStep n) { B with ws := ws }).term = ins n B.term) :=
  tupleFold_adv n _ _ (fun _ ht _ hs => mem_allKids ht hs)

/-- the measure of the construction loop: the length of the work-list plus the number of candidate states without OR node -/
def buildMeasure (T : TableTD) (B : Build) : Nat := B.ws.length + cntNot (allKids T) (B.orN.map (·.2))

theorem buildLoop_total_aux (T : TableTD) : ∀ (fuel : Nat) (B : Build), buildMeasure T B ≤ fuel →
    ∃ B', buildLoop T fuel B = some B' := by
  intro fuel
  induction fuel with
  | zero =>
    intro B h
    unfold buildLoop
    split
    · exact ⟨_, rfl⟩
    · rename_i n s ws hs
      simp [buildMeasure, hs] at h
  | succ fuel ih =>
    intro B h
    unfold buildLoop
    split
    · exact ⟨_, rfl⟩
    · rename_i n s ws hs
      simp only
      apply ih
      have hr := (round_adv T B n s ws).1.ws
      simp only [buildMeasure, hs, List.length_cons] at h hr ⊢
      omega

/-- the bounds on the result of the construction loop -/
theorem buildLoop_bounds_aux (T : TableTD) : ∀ (fuel : Nat) (B B' : Build), buildLoop T fuel B = some B' →
    B.term.length + B.ws.length ≤ B.orN.length →
    B'.ws = [] ∧ B'.term.length ≤ B'.orN.length ∧
      B'.orN.length + cntNot (allKids T) (B'.orN.map (·.2)) ≤ B.orN.length + cntNot (allKids T) (B.orN.map (·.2)) := by
  intro fuel
  induction fuel with
  | zero =>
    intro B B' h hI
    unfold buildLoop at h
    split at h
    · rename_i hs
      simp only [Option.some.injEq] at h; subst h
      rw [hs] at hI
      exact ⟨hs, by simpa using hI, Nat.le_refl _⟩
    · simp at h
  | succ fuel ih =>
    intro B B' h hI
    unfold buildLoop at h
    split at h
    · rename_i hs
      simp only [Option.some.injEq] at h; subst h
      rw [hs] at hI
      exact ⟨hs, by simpa using hI, Nat.le_refl _⟩
    · rename_i n s ws hs
      simp only at h
      have hr := round_adv T B n s ws
      have hd := hr.1.diff
      have ho := hr.1.orl
      have ht : ((leafTuples (getTD T s)).foldl (tupleStep n) { B with ws := ws }).term.length ≤ B.term.length + 1 := by
        rcases hr.2 with e | e
        · rw [e]; exact Nat.le_succ _
        · rw [e]; exact length_ins_le _ _
      rw [hs] at hI
      simp only [List.length_cons] at hI hd ho
      have := ih _ _ h (by omega)
      exact ⟨this.1, this.2.1, by omega⟩

theorem initFold_len : ∀ (l : List Nat) (B : Build),
    (l.foldl (fun B f => { B with G := B.G.addNode.1, orN := B.orN ++ [(B.G.addNode.2, f)],
                                  ws := (B.G.addNode.2, f) :: B.ws }) B).orN.length = B.orN.length + l.length ∧
    (l.foldl (fun B f => { B with G := B.G.addNode.1, orN := B.orN ++ [(B.G.addNode.2, f)],
                                  ws := (B.G.addNode.2, f) :: B.ws }) B).ws.length = B.ws.length + l.length ∧
    (l.foldl (fun B f => { B with G := B.G.addNode.1, orN := B.orN ++ [(B.G.addNode.2, f)],
                                  ws := (B.G.addNode.2, f) :: B.ws }) B).term = B.term
  | [], B => ⟨rfl, rfl, rfl⟩
  | f :: l, B => by
    simp only [List.foldl_cons]
    have ih := initFold_len l { B with G := B.G.addNode.1, orN := B.orN ++ [(B.G.addNode.2, f)],
                                       ws := (B.G.addNode.2, f) :: B.ws }
    simp only [List.length_append, List.length_cons, List.length_nil] at ih ⊢
    exact ⟨by omega, by omega, ih.2.2⟩

theorem initBuild_len (F : List Nat) :
    (initBuild F).orN.length = F.length ∧ (initBuild F).ws.length = F.length ∧ (initBuild F).term = [] := by
  have h := initFold_len F ⟨Graph.empty, [], [], [], []⟩
  simp only [List.length_nil, Nat.zero_add] at h
  exact h

/-- **the construction of the AND/OR graph terminates** within `|F| + |states in the leaves|` rounds of its `while` loop
(every larger fuel works as well) -/
theorem buildLoop_total (T : TableTD) (F : List Nat) : ∀ fuel, F.length + (allKids T).length ≤ fuel →
    ∃ B, buildLoop T fuel (initBuild F) = some B := by
  intro fuel h
  apply buildLoop_total_aux
  have h1 := initBuild_len F
  have h2 := cntNot_le_length (allKids T) ((initBuild F).orN.map (·.2))
  unfold buildMeasure
  omega

/-- the result of the construction: the work-list is empty, there are at most `|F| + |states in the leaves|` OR nodes and
no more terminal nodes than OR nodes -/
theorem buildLoop_bounds {T : TableTD} {F : List Nat} {fuel : Nat} {B : Build}
    (h : buildLoop T fuel (initBuild F) = some B) :
    B.ws = [] ∧ B.term.length ≤ B.orN.length ∧ B.orN.length ≤ F.length + (allKids T).length := by
  have h1 := initBuild_len F
  have h2 := cntNot_le_length (allKids T) ((initBuild F).orN.map (·.2))
  have h3 := buildLoop_bounds_aux T fuel _ _ h (by rw [h1.2.2, h1.2.1, h1.1]; simp)
  exact ⟨h3.1, h3.2.1, by omega⟩

/-! ### the propagation -/

theorem findFwd_mem {β : Type} {d : List (Nat × β)} {n : Nat} {s : β} (h : findFwd d n = some s) : (n, s) ∈ d := by
  unfold findFwd at h
  cases hfd : d.find? (fun e => e.1 == n) with
  | none => rw [hfd] at h; simp at h
  | some e =>
    rw [hfd] at h
    have hm := List.mem_of_find?_eq_some hfd
    have he := List.find?_some hfd
    simp only [beq_iff_eq] at he
    obtain ⟨e1, e2⟩ := e
    simp only [Option.map_some, Option.some.injEq] at h he
    subst h; subst he
    exact hm

theorem stateOf_mem (orN : List (Nat × Nat)) (m : Nat) : stateOf orN m ∈ 0 :: orN.map (·.2) := by
  unfold stateOf
  cases h : findFwd orN m with
  | none => simp
  | some s =>
    simp only [Option.getD_some]
    exact List.mem_cons_of_mem _ (List.mem_map.mpr ⟨(m, s), findFwd_mem h, rfl⟩)

/-- the measure of the propagation loop: the height of the stack plus the number of states not yet useful -/
def propMeasure (orN : List (Nat × Nat)) (P : Mark) : Nat := P.stk.length + cntNot (0 :: orN.map (·.2)) P.useful

theorem markStep_le (orN : List (Nat × Nat)) (P : Mark) (m : Nat) :
    propMeasure orN (markStep orN P m) ≤ propMeasure orN P := by
  unfold markStep
  split
  · exact Nat.le_refl _
  · next hc =>
    have hnew : stateOf orN m ∉ P.useful := fun hm => hc (List.contains_iff_mem.mpr hm)
    have := cntNot_add (stateOf_mem orN m) hnew
    simp only [propMeasure, List.length_cons]
    omega

theorem markFold_le (orN : List (Nat × Nat)) : ∀ (l : List Nat) (P : Mark),
    propMeasure orN (l.foldl (markStep orN) P) ≤ propMeasure orN P
  | [], _ => Nat.le_refl _
  | m :: l, P => by
    simp only [List.foldl_cons]
    exact Nat.le_trans (markFold_le orN l _) (markStep_le orN P m)

theorem satisfyStep_le (orN : List (Nat × Nat)) (node : Nat) (P : Mark) (a : Nat) :
    propMeasure orN (satisfyStep orN node P a) ≤ propMeasure orN P := by
  unfold satisfyStep
  simp only
  split
  · exact markFold_le orN _ { P with G := P.G.eraseIng a node }
  · exact Nat.le_refl _

theorem satisfyFold_le (orN : List (Nat × Nat)) (node : Nat) : ∀ (l : List Nat) (P : Mark),
    propMeasure orN (l.foldl (satisfyStep orN node) P) ≤ propMeasure orN P
  | [], _ => Nat.le_refl _
  | a :: l, P => by
    simp only [List.foldl_cons]
    exact Nat.le_trans (satisfyFold_le orN node l _) (satisfyStep_le orN node P a)

theorem popStep_le (orN : List (Nat × Nat)) (node : Nat) (P : Mark) :
    propMeasure orN (popStep orN node P) ≤ propMeasure orN P := by
  unfold popStep
  exact satisfyFold_le orN node _ { P with G := (P.G.ing node).foldl (fun G a => G.eraseEgr a node) P.G }

theorem propLoop_total_aux (orN : List (Nat × Nat)) : ∀ (fuel : Nat) (P : Mark), propMeasure orN P ≤ fuel →
    ∃ P', propLoop orN fuel P = some P' := by
  intro fuel
  induction fuel with
  | zero =>
    intro P h
    unfold propLoop
    split
    · exact ⟨_, rfl⟩
    · rename_i node stk hs
      simp [propMeasure, hs] at h
  | succ fuel ih =>
    intro P h
    unfold propLoop
    split
    · exact ⟨_, rfl⟩
    · rename_i node stk hs
      simp only
      apply ih
      have hr := popStep_le orN node { P with stk := stk }
      simp only [propMeasure, hs, List.length_cons] at h hr ⊢
      omega

theorem initMarkFold_len (orN : List (Nat × Nat)) : ∀ (l : List Nat) (P : Mark),
    (l.foldl (fun P n => { P with stk := n :: P.stk, useful := ins (stateOf orN n) P.useful }) P).stk.length
      = P.stk.length + l.length
  | [], _ => rfl
  | n :: l, P => by
    simp only [List.foldl_cons]
    rw [initMarkFold_len orN l]
    simp only [List.length_cons]
    omega

theorem initMark_measure (B : Build) : propMeasure B.orN (initMark B) ≤ B.term.length + B.orN.length + 1 := by
  have h1 : (initMark B).stk.length = B.term.length := by
    unfold initMark
    rw [initMarkFold_len]
    simp
  have h2 := cntNot_le_length (0 :: B.orN.map (·.2)) (initMark B).useful
  simp only [List.length_cons, List.length_map] at h2
  unfold propMeasure
  omega

/-- **the propagation of usefulness terminates** within `|termNodes| + |orNodes| + 1` rounds of its `while` loop -/
theorem propLoop_total (B : Build) : ∀ fuel, B.term.length + B.orN.length + 1 ≤ fuel →
    ∃ P, propLoop B.orN fuel (initMark B) = some P := fun fuel h =>
  propLoop_total_aux B.orN fuel _ (Nat.le_trans (initMark_measure B) h)

/-! ### the whole operation -/

/-- **`usefulStates` is computed**: a fuel of `2 * (|F| + |states in the leaves|) + 1` suffices for the two loops -/
theorem usefulCoded_total (T : TableTD) (F : List Nat) : ∀ fuel, 2 * (F.length + (allKids T).length) + 1 ≤ fuel →
    ∃ U, usefulCoded T F fuel = some U := by
  intro fuel h
  obtain ⟨B, hB⟩ := buildLoop_total T F fuel (by omega)
  have hb := buildLoop_bounds hB
  obtain ⟨P, hP⟩ := propLoop_total B fuel (by omega)
  exact ⟨P.useful, by simp only [usefulCoded, hB, hP]⟩

/-- **`RemoveUselessStates` as coded terminates**: the fuel of the final `RemoveUnreachableStates` is the bound of
`tdUnreachWL_total` for the restricted automaton -/
theorem removeUselessTDCoded_total (T : TableTD) (F : List Nat) : ∀ fuel, 2 * (F.length + (allKids T).length) + 1 ≤ fuel →
    ∃ U, usefulCoded T F fuel = some U ∧
      ∃ R, removeUselessTDCoded T F fuel
        ((restrictCoded T F U).2.length + (allKids (restrictCoded T F U).1).length) = some R := by
  intro fuel h
  obtain ⟨U, hU⟩ := usefulCoded_total T F fuel h
  refine ⟨U, hU, ?_⟩
  obtain ⟨R', hR'⟩ := tdUnreachWL_total (restrictCoded T F U).1 (restrictCoded T F U).2
  exact ⟨(R', (restrictCoded T F U).2), by simp only [removeUselessTDCoded, hU, hR']⟩

/-! ### a second fuel that does not depend on the useful states -/

/-- `tdUnreachLoop_total` for any fuel above the measure taken over a superset `K` of the states in the leaves -/
theorem tdUnreachLoop_total_sup (T : TableTD) (K : List Nat)
    (hK : ∀ p ks q, ks ∈ leafTuples (getTD T p) → q ∈ ks → q ∈ K) :
    ∀ (fuel : Nat) (ws processed : List Nat) (R : TableTD),
    ws.length + cntNot K processed ≤ fuel → ∃ R', tdUnreachLoop T fuel ws processed R = some R'
  | fuel, [], processed, R, _ => by cases fuel <;> exact ⟨R, by simp [tdUnreachLoop]⟩
  | 0, _ :: _, _, _, h => by simp at h
  | fuel + 1, p :: ws, processed, R, h => by
    simp only [tdUnreachLoop]
    apply tdUnreachLoop_total_sup T K hK fuel
    have hc := cntNot_append (U := K)
      (dedupL (((leafTuples (getTD T p)).flatMap id).filter (fun q => !processed.contains q))) processed
      (nodup_dedupL _) (fun q hq => by
        obtain ⟨⟨ks, hks, hq'⟩, hnp⟩ := mem_wlNew.mp hq
        exact ⟨hK p ks q hks hq', hnp⟩)
    simp only [List.length_append, List.length_reverse, List.length_cons] at h ⊢
    omega

theorem tdUnreachWL_total_sup (T : TableTD) (K : List Nat)
    (hK : ∀ p ks q, ks ∈ leafTuples (getTD T p) → q ∈ ks → q ∈ K) (F : List Nat) :
    ∀ fuel, F.length + K.length ≤ fuel → ∃ R, tdUnreachWL T F fuel = some R := by
  intro fuel h
  unfold tdUnreachWL
  apply tdUnreachLoop_total_sup T K hK
  have := cntNot_le_length K []
  rw [List.length_reverse]
  omega

theorem mem_voidApply1_apply1 {α β : Type} [DecidableEq β] (f : α → β) {w : β} : ∀ (m : Node α),
    w ∈ voidApply1 (apply1 f m) → ∃ v, v ∈ voidApply1 m ∧ w = f v
  | .leaf v, h => by
    simp only [apply1, voidApply1, List.mem_singleton] at h
    exact ⟨v, by simp [voidApply1], h⟩
  | .node x lo hi, h => by
    simp only [apply1, mk] at h
    split at h
    · obtain ⟨v, hv, e⟩ := mem_voidApply1_apply1 f lo h
      exact ⟨v, by simp only [voidApply1, List.mem_append]; exact Or.inl hv, e⟩
    · simp only [voidApply1, List.mem_append] at h
      rcases h with h | h
      · obtain ⟨v, hv, e⟩ := mem_voidApply1_apply1 f lo h
        exact ⟨v, by simp only [voidApply1, List.mem_append]; exact Or.inl hv, e⟩
      · obtain ⟨v, hv, e⟩ := mem_voidApply1_apply1 f hi h
        exact ⟨v, by simp only [voidApply1, List.mem_append]; exact Or.inr hv, e⟩

/-- the states in the leaves of the restricted table are states in the leaves of the table -/
theorem restrictCoded_kids (T : TableTD) (F U : List Nat) (p : Nat) (ks : List Nat) (q : Nat)
    (hks : ks ∈ leafTuples (getTD (restrictCoded T F U).1 p)) (hq : q ∈ ks) : q ∈ allKids T := by
  unfold restrictCoded at hks
  simp only at hks
  rw [getTD_mapKeys ((keysTD T).filter (fun p => U.contains p))
    (fun p => apply1 (restrictLeafCoded U) (getTD T p)) p] at hks
  split at hks
  · simp only [leafTuples, List.mem_flatMap, id] at hks
    obtain ⟨l', hl', hk'⟩ := hks
    obtain ⟨l, hl, e⟩ := mem_voidApply1_apply1 _ _ hl'
    subst e
    have := (mem_restrictLeafCoded.mp hk').1
    exact mem_allKids (T := T) (p := p) (t := ks)
      (by simp only [leafTuples, List.mem_flatMap, id]; exact ⟨l, hl, this⟩) hq
  · simp [leafTuples, voidApply1] at hks

/-- **`RemoveUselessStates` as coded terminates**, with fuels that depend on the input only:
`2 * (|F| + |states in the leaves|) + 1` for the two loops of the analysis and `|F| + |states in the leaves|` for the
work-list of the final `RemoveUnreachableStates` (and all larger fuels) -/
theorem removeUselessTDCoded_total' (T : TableTD) (F : List Nat) : ∀ fuel fuel',
    2 * (F.length + (allKids T).length) + 1 ≤ fuel → F.length + (allKids T).length ≤ fuel' →
    ∃ R, removeUselessTDCoded T F fuel fuel' = some R := by
  intro fuel fuel' h h'
  obtain ⟨U, hU⟩ := usefulCoded_total T F fuel h
  have hl : (restrictCoded T F U).2.length ≤ F.length := List.length_filter_le _ _
  obtain ⟨R', hR'⟩ := tdUnreachWL_total_sup (restrictCoded T F U).1 (allKids T) (restrictCoded_kids T F U)
    (restrictCoded T F U).2 fuel' (by omega)
  exact ⟨(R', (restrictCoded T F U).2), by simp only [removeUselessTDCoded, hU, hR']⟩

end BddTrimCoded
end Vata
