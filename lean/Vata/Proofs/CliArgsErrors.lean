import Vata.Proofs.CliArgs
/-!
# The command line of the `vata` binary – every `throw` of `parseArguments`

`parse_error_forms`: whatever the vector, a failing `parseArguments` throws a `std::runtime_error` whose text is one of
16 fixed texts, or one of 5 prefixes followed by an element of the vector, or one of the three complaints about a
comma-separated piece of an element.
-/
namespace Vata.CliArgs

/-- the texts without a variable part -/
def fixedErrors : List Str := [
  lit "Invalid input arguments.",
  lit "The '-t' flag specified more times.", lit "The '-V' flag specified more times.",
  lit "The '-p' flag specified more times.", lit "The '-s' flag specified more times.",
  lit "The '-n' flag specified more times.", lit "The '-r' flag specified more times.",
  lit "The '-o' flag specified more times.",
  lit "The '-r' flag needs an argument.", lit "The '-I' flag needs an argument.", lit "The '-O' flag needs an argument.",
  lit "The '-F' flag needs an argument.", lit "The '-o' flag needs an argument.",
  lit "Invalid use of the '-I' flag.", lit "Invalid use of the '-O' flag.", lit "Invalid use of the '-F' flag."]

/-- the texts that quote an element `x` of the vector -/
def QuotesElement (x e : Str) : Prop :=
  e = lit "Unsupported representation: " ++ x ∨ e = lit "Unsupported format: " ++ x ∨ e = lit "Invalid flag: " ++ x ∨
  e = lit "Unknown command: " ++ x ∨ e = lit "Invalid command line arguments: " ++ x

/-- the texts about a piece `p` of the `-o` argument `x` -/
def QuotesPiece (x e : Str) : Prop :=
  ∃ p, p ∈ Vata.T.splitDelim ',' x ∧
    (e = lit "Malformed options: '" ++ p ++ lit "'" ∨ e = lit "Malformed option: '" ++ p ++ lit "'" ∨
      ∃ k v, processOption p = .ok (k, v) ∧ e = lit "Option for '" ++ k ++ lit "' specified more than once")

theorem translateFormat_error {a e : Str} (h : translateFormat a = .error e) : e = lit "Unsupported format: " ++ a := by
  unfold translateFormat at h
  split at h
  · simp at h
  · simp only [Except.error.injEq] at h; exact h.symm

theorem translateRep_error {a e : Str} (h : translateRep a = .error e) : e = lit "Unsupported representation: " ++ a := by
  unfold translateRep at h
  repeat (first | (split at h; · simp at h) | (simp only [Except.error.injEq] at h; exact h.symm))

theorem stepWord_error {cur : Str} {st : St} {e : Str} (h : stepWord cur st = .err e) : QuotesElement cur e := by
  unfold stepWord at h
  cases hps : st.ps <;> simp only [hps] at h
  · split at h
    · simp at h
    · split at h
      · simp at h
      · split at h
        · simp at h
        · simp only [Step.err.injEq] at h; exact Or.inr (Or.inr (Or.inr (Or.inl h.symm)))
  · simp at h
  · simp at h
  · simp at h
  · simp only [Step.err.injEq] at h; exact Or.inr (Or.inr (Or.inr (Or.inr h.symm)))

/-- the exceptions of one iteration -/
theorem stepArg_error {cur : Str} {next : Option Str} {st : St} {e : Str} (h : stepArg cur next st = .err e) :
    e ∈ fixedErrors ∨ QuotesElement cur e ∨ ∃ a, next = some a ∧ (QuotesElement a e ∨ QuotesPiece a e) := by
  unfold stepArg at h
  cases hc : classify cur <;> simp only [hc] at h
  case word => exact Or.inr (Or.inl (stepWord_error h))
  case help | version => simp at h
  case badFlag => simp only [Step.err.injEq] at h; exact Or.inr (Or.inl (Or.inr (Or.inr (Or.inl h.symm))))
  case showTime | verbose | pruneUnreach | pruneUseless | dontOutput =>
    split at h
    · simp only [Step.err.injEq] at h; left; rw [← h]; decide
    · simp at h
  case repr =>
    split at h
    · simp only [Step.err.injEq] at h; left; rw [← h]; decide
    · cases next with
      | none => simp only [flagArg, Step.err.injEq] at h; left; rw [← h]; decide
      | some a =>
        simp only [flagArg] at h
        split at h
        · rename_i e' he
          simp only [Step.err.injEq] at h; subst h
          exact Or.inr (Or.inr ⟨a, rfl, Or.inl (Or.inl (translateRep_error he))⟩)
        · simp at h
  case inFmt | outFmt | bothFmt =>
    split at h
    · simp only [Step.err.injEq] at h; left; rw [← h]; decide
    · cases next with
      | none => simp only [flagArg, Step.err.injEq] at h; left; rw [← h]; decide
      | some a =>
        simp only [flagArg] at h
        split at h
        · rename_i e' he
          simp only [Step.err.injEq] at h; subst h
          exact Or.inr (Or.inr ⟨a, rfl, Or.inl (Or.inr (Or.inl (translateFormat_error he)))⟩)
        · simp at h
  case opts =>
    split at h
    · simp only [Step.err.injEq] at h; left; rw [← h]; decide
    · cases next with
      | none => simp only [flagArg, Step.err.injEq] at h; left; rw [← h]; decide
      | some a =>
        simp only [flagArg] at h
        split at h
        · rename_i e' he
          simp only [Step.err.injEq] at h; subst h
          obtain ⟨p, hp, hr⟩ := insertPieces_error _ _ _ he
          exact Or.inr (Or.inr ⟨a, rfl, Or.inr ⟨p, hp, hr⟩⟩)
        · simp at h

/-- general induction over the loop, with the elements known to come from the vector -/
theorem parseLoop_ind (argv : List Str) (Q : St → Prop) (R : Except Str Arguments → Prop)
    (hfin : ∀ st, Q st → R (finish st))
    (hok : ∀ cur next st st', cur ∈ argv → (∀ x, next = some x → x ∈ argv) → Q st → (stepArg cur next st).yields st' → Q st')
    (herr : ∀ cur next st e, cur ∈ argv → (∀ x, next = some x → x ∈ argv) → Q st → stepArg cur next st = .err e →
      R (.error e)) :
    ∀ (n : Nat) (l : List Str), l.length = n → (∀ x, x ∈ l → x ∈ argv) → ∀ st, Q st → R (parseLoop l st) := by
  intro n
  induction n using Nat.strongRecOn with
  | _ n ih =>
    intro l hn hsub st hQ
    match l, hn with
    | [], _ => simp only [parseLoop]; exact hfin st hQ
    | [cur], _ =>
      simp only [parseLoop]
      have hc : cur ∈ argv := hsub _ List.mem_cons_self
      have hno : ∀ x, (none : Option Str) = some x → x ∈ argv := fun x hx => by cases hx
      cases hs : stepArg cur none st with
      | brk st' => exact hfin st' (hok _ _ _ _ hc hno hQ (Or.inl hs))
      | one st' => exact hfin st' (hok _ _ _ _ hc hno hQ (Or.inr (Or.inl hs)))
      | two st' => exact hfin st' (hok _ _ _ _ hc hno hQ (Or.inr (Or.inr hs)))
      | err e => exact herr _ _ _ _ hc hno hQ hs
    | cur :: nxt :: rest, hn =>
      simp only [parseLoop]
      simp only [List.length_cons] at hn
      have hc : cur ∈ argv := hsub _ List.mem_cons_self
      have hnx : ∀ x, some nxt = some x → x ∈ argv := fun x hx => by
        cases hx; exact hsub _ (List.mem_cons_of_mem _ List.mem_cons_self)
      cases hs : stepArg cur (some nxt) st with
      | brk st' => exact hfin st' (hok _ _ _ _ hc hnx hQ (Or.inl hs))
      | one st' =>
        exact ih (rest.length + 1) (by omega) (nxt :: rest) (by simp) (fun x hx => hsub x (List.mem_cons_of_mem _ hx)) st'
          (hok _ _ _ _ hc hnx hQ (Or.inr (Or.inl hs)))
      | two st' =>
        exact ih rest.length (by omega) rest rfl
          (fun x hx => hsub x (List.mem_cons_of_mem _ (List.mem_cons_of_mem _ hx))) st'
          (hok _ _ _ _ hc hnx hQ (Or.inr (Or.inr hs)))
      | err e => exact herr _ _ _ _ hc hnx hQ hs

/-- **every `throw` of `parseArguments`**: the text of the exception is one of the 16 fixed texts, or quotes an element
of the vector, or complains about a comma-separated piece of an element -/
theorem parse_error_forms {argv : List Str} {e : Str} (h : parse argv = .error e) :
    e ∈ fixedErrors ∨ ∃ x, x ∈ argv ∧ (QuotesElement x e ∨ QuotesPiece x e) := by
  have := parseLoop_ind argv (fun _ => True)
    (fun r => ∀ e, r = .error e → e ∈ fixedErrors ∨ ∃ x, x ∈ argv ∧ (QuotesElement x e ∨ QuotesPiece x e))
    (by
      intro st _ e he
      unfold finish at he
      split at he
      · simp at he
      · simp only [Except.error.injEq] at he; left; rw [← he]; decide)
    (fun _ _ _ _ _ _ _ _ => trivial)
    (by
      intro cur next st e' hc hn _ hs e he
      simp only [Except.error.injEq] at he; subst he
      rcases stepArg_error hs with h | h | ⟨a, ha, h⟩
      · exact Or.inl h
      · exact Or.inr ⟨cur, hc, Or.inl h⟩
      · exact Or.inr ⟨a, hn a ha, h⟩)
    argv.length argv rfl (fun _ hx => hx) {} trivial
  exact this e h

end Vata.CliArgs
