import Vata.Ref
/-!
# Renaming of states / symbols and union (properties C14, C02)

* `reindex_rules`, `reindex_final`                      the rules / final states of the image automaton
* `reindex_incl`                                        any map: `L(A) ⊆ L(reindex h A)`
* `reindex_inj_reach`, `reindex_inj_lang`               a map injective on the states of `A` keeps the language
* `reindex_states_eq`, `reindex_rules_length`, `reindex_states_length`   counts
* `translateSymbols_reach`, `translateSymbols_reach_inv`, `translateSymbols_incl`, `translateSymbols_lang`
* `unionDisjoint_lang`, `unionWith_lang`                union of automata with disjoint state sets
-/
namespace Vata

/-! ## 1. rules and final states of `reindex` -/

theorem reindex_rules (h : Nat → Nat) (A : TA) (r' : Rule) :
    r' ∈ (reindex h A).rules ↔ ∃ r, r ∈ A.rules ∧ r' = mapRule h r := by
  simp only [reindex, List.mem_map]
  constructor
  · rintro ⟨r, hr, he⟩; exact ⟨r, hr, he.symm⟩
  · rintro ⟨r, hr, he⟩; exact ⟨r, hr, he.symm⟩

theorem reindex_final (h : Nat → Nat) (A : TA) (q' : Nat) :
    q' ∈ (reindex h A).final ↔ ∃ q, q ∈ A.final ∧ q' = h q := by
  simp only [reindex, List.mem_map]
  constructor
  · rintro ⟨q, hq, he⟩; exact ⟨q, hq, he.symm⟩
  · rintro ⟨q, hq, he⟩; exact ⟨q, hq, he.symm⟩

/-! ## 3. any map: the image automaton accepts at least the original language -/

theorem reindex_incl (h : Nat → Nat) (A : TA) (t : Tree) :
    accepts A t = true → accepts (reindex h A) t = true := by
  simp only [accepts, accepting, List.any_eq_true, List.contains_iff_mem]
  rintro ⟨q, hq, hf⟩
  exact ⟨h q, reindex_mono h A t q hq, List.mem_map.mpr ⟨q, hf, rfl⟩⟩

/-! ## membership lemmas for `ins`, `unionL`, `dedupL`, `TA.states` -/

theorem Rn.mem_ins {x y : Nat} {l : List Nat} : y ∈ ins x l ↔ y = x ∨ y ∈ l := by
  unfold ins
  split
  · rename_i hc
    rw [List.contains_iff_mem] at hc
    constructor
    · exact Or.inr
    · rintro (he | hm)
      · rw [he]; exact hc
      · exact hm
  · simp only [List.mem_append, List.mem_singleton]
    exact Or.comm

theorem Rn.unionL_cons (l₁ : List Nat) (x : Nat) (l₂ : List Nat) : unionL l₁ (x :: l₂) = unionL (ins x l₁) l₂ := by
  simp only [unionL, List.foldl_cons]

theorem Rn.mem_unionL {l₁ l₂ : List Nat} {x : Nat} : x ∈ unionL l₁ l₂ ↔ x ∈ l₁ ∨ x ∈ l₂ := by
  induction l₂ generalizing l₁ with
  | nil => simp [unionL]
  | cons y l₂ ih =>
    rw [Rn.unionL_cons, ih, Rn.mem_ins, List.mem_cons]
    constructor
    · rintro ((h | h) | h)
      · exact Or.inr (Or.inl h)
      · exact Or.inl h
      · exact Or.inr (Or.inr h)
    · rintro (h | h | h)
      · exact Or.inl (Or.inr h)
      · exact Or.inl (Or.inl h)
      · exact Or.inr h

theorem Rn.mem_dedupL {l : List Nat} {x : Nat} : x ∈ dedupL l ↔ x ∈ l := by
  simp [dedupL, Rn.mem_unionL]

theorem Rn.mem_states {A : TA} {q : Nat} :
    q ∈ A.states ↔ (∃ r, r ∈ A.rules ∧ (q = r.parent ∨ q ∈ r.kids)) ∨ q ∈ A.final := by
  simp only [TA.states, Rn.mem_dedupL, List.mem_append, List.mem_flatMap, Rule.states, List.mem_cons]

theorem Rn.parent_mem_states {A : TA} {r : Rule} (hr : r ∈ A.rules) : r.parent ∈ A.states :=
  Rn.mem_states.mpr (Or.inl ⟨r, hr, Or.inl rfl⟩)

theorem Rn.kid_mem_states {A : TA} {r : Rule} (hr : r ∈ A.rules) {k : Nat} (hk : k ∈ r.kids) : k ∈ A.states :=
  Rn.mem_states.mpr (Or.inl ⟨r, hr, Or.inr hk⟩)

theorem Rn.final_mem_states {A : TA} {q : Nat} (hq : q ∈ A.final) : q ∈ A.states :=
  Rn.mem_states.mpr (Or.inr hq)

/-- a member of `reach` is the parent of a rule, hence a state of the automaton -/
theorem reach_mem_states (A : TA) : ∀ (t : Tree) (q : Nat), q ∈ reach A t → q ∈ A.states
  | .node f ts, q => by
    rw [reach, mem_post']
    rintro ⟨r, hr, _, _, hp⟩
    rw [← hp]; exact Rn.parent_mem_states hr

/-- the states of the image automaton are the images of the states -/
theorem mem_states_reindex {h : Nat → Nat} {A : TA} {q' : Nat} :
    q' ∈ (reindex h A).states ↔ ∃ q, q ∈ A.states ∧ q' = h q := by
  constructor
  · intro hq'
    rcases Rn.mem_states.mp hq' with ⟨r', hr', hc⟩ | hf
    · obtain ⟨r, hr, he⟩ := (reindex_rules h A r').mp hr'
      rw [he] at hc
      rcases hc with hc | hc
      · exact ⟨r.parent, Rn.parent_mem_states hr, hc⟩
      · obtain ⟨k, hk, hk'⟩ := List.mem_map.mp hc
        exact ⟨k, Rn.kid_mem_states hr hk, hk'.symm⟩
    · obtain ⟨q, hq, he⟩ := (reindex_final h A q').mp hf
      exact ⟨q, Rn.final_mem_states hq, he⟩
  · rintro ⟨q, hq, he⟩
    rw [he]
    rcases Rn.mem_states.mp hq with ⟨r, hr, hc⟩ | hf
    · have hr' : mapRule h r ∈ (reindex h A).rules := (reindex_rules h A _).mpr ⟨r, hr, rfl⟩
      rcases hc with hc | hc
      · rw [hc]; exact Rn.parent_mem_states hr'
      · exact Rn.kid_mem_states hr' (List.mem_map.mpr ⟨q, hc, rfl⟩)
    · exact Rn.final_mem_states ((reindex_final h A _).mpr ⟨q, hf, rfl⟩)

/-! ## 2. maps injective on the states -/

def InjOnStates (h : Nat → Nat) (A : TA) : Prop :=
  ∀ q q', q ∈ A.states → q' ∈ A.states → h q = h q' → q = q'

/-- pulling a positionwise match back along `h` for children satisfying `P` -/
theorem matchKids_unmap_on (h : Nat → Nat) (P : Nat → Prop) : ∀ (ks : List Nat) (ss' ss : List (List Nat)),
    (∀ k, k ∈ ks → P k) → All2 (fun s' s => ∀ k, P k → h k ∈ s' → k ∈ s) ss' ss →
    matchKids (ks.map h) ss' = true → matchKids ks ss = true
  | [], _, _, _, All2.nil, _ => by simp [matchKids]
  | [], _, _, _, All2.cons _ _, hm => by simp [matchKids] at hm
  | _ :: _, _, _, _, All2.nil, hm => by simp [matchKids] at hm
  | k :: ks, _, _, hP, All2.cons hd tl, hm => by
    simp only [matchKids, Bool.and_eq_true, List.contains_iff_mem, List.map_cons] at hm ⊢
    exact ⟨hd k (hP k List.mem_cons_self) hm.1,
      matchKids_unmap_on h P ks _ _ (fun k' hk' => hP k' (List.mem_cons_of_mem _ hk')) tl hm.2⟩

mutual
theorem reindex_inj_reach_aux (h : Nat → Nat) (A : TA) (hinj : InjOnStates h A) :
    ∀ (t : Tree) (q : Nat), q ∈ A.states → h q ∈ reach (reindex h A) t → q ∈ reach A t
  | .node f ts, q, hq => by
    rw [reach, reach, mem_post', mem_post']
    rintro ⟨r', hr', hs, hm, hp⟩
    obtain ⟨r, hr, he⟩ := (reindex_rules h A r').mp hr'
    rw [he] at hs hm hp
    exact ⟨r, hr, hs,
      matchKids_unmap_on h (fun k => k ∈ A.states) r.kids _ _ (fun k hk => Rn.kid_mem_states hr hk)
        (reindex_inj_reachL_aux h A hinj ts) hm,
      hinj _ _ (Rn.parent_mem_states hr) hq hp⟩
theorem reindex_inj_reachL_aux (h : Nat → Nat) (A : TA) (hinj : InjOnStates h A) :
    ∀ ts : List Tree, All2 (fun s' s => ∀ k, k ∈ A.states → h k ∈ s' → k ∈ s) (reachL (reindex h A) ts) (reachL A ts)
  | [] => All2.nil
  | t :: ts => All2.cons (reindex_inj_reach_aux h A hinj t) (reindex_inj_reachL_aux h A hinj ts)
end

theorem reindex_inj_reach (h : Nat → Nat) (A : TA) (hinj : InjOnStates h A) (t : Tree) (q : Nat)
    (hq : q ∈ A.states) : h q ∈ reach (reindex h A) t ↔ q ∈ reach A t :=
  ⟨reindex_inj_reach_aux h A hinj t q hq, reindex_mono h A t q⟩

/-- every member of `reach (reindex h A) t` is the image of a state of `A` (no injectivity needed) -/
theorem reindex_reach_image_state (h : Nat → Nat) (A : TA) (t : Tree) (x : Nat)
    (hx : x ∈ reach (reindex h A) t) : ∃ q, q ∈ A.states ∧ x = h q :=
  mem_states_reindex.mp (reach_mem_states (reindex h A) t x hx)

/-- for a map injective on the states, every member of `reach (reindex h A) t` is the image of a member of
`reach A t` (this is FALSE without injectivity, see `reindex_reach_image_needs_inj` below) -/
theorem reindex_inj_reach_image (h : Nat → Nat) (A : TA) (hinj : InjOnStates h A) (t : Tree) (x : Nat)
    (hx : x ∈ reach (reindex h A) t) : ∃ q, q ∈ reach A t ∧ x = h q := by
  obtain ⟨q, hq, he⟩ := reindex_reach_image_state h A t x hx
  rw [he] at hx
  exact ⟨q, (reindex_inj_reach h A hinj t q hq).mp hx, he⟩

/-- counterexample: for a non-injective map a member of `reach (reindex h A) t` need not come from `reach A t` -/
theorem reindex_reach_image_needs_inj :
    let A : TA := ⟨[⟨0, [], 1⟩, ⟨1, [2], 3⟩], [3]⟩
    let t : Tree := .node 1 [.node 0 []]
    0 ∈ reach (reindex (fun _ => 0) A) t ∧ reach A t = [] := by
  decide

theorem reindex_inj_lang (h : Nat → Nat) (A : TA) (hinj : InjOnStates h A) (t : Tree) :
    accepts (reindex h A) t = accepts A t := by
  rw [Bool.eq_iff_iff]
  constructor
  · simp only [accepts, accepting, List.any_eq_true, List.contains_iff_mem]
    rintro ⟨x, hx, hf⟩
    obtain ⟨q, hq, he⟩ := (reindex_final h A x).mp hf
    rw [he] at hx
    exact ⟨q, (reindex_inj_reach h A hinj t q (Rn.final_mem_states hq)).mp hx, hq⟩
  · exact reindex_incl h A t

/-! ## 6. union -/

/-- positionwise match transported along inclusions that hold for the elements satisfying `P` -/
theorem matchKids_on (P : Nat → Prop) : ∀ (ks : List Nat) (ss' ss : List (List Nat)),
    (∀ k, k ∈ ks → P k) → All2 (fun s' s => ∀ k, P k → k ∈ s' → k ∈ s) ss' ss →
    matchKids ks ss' = true → matchKids ks ss = true
  | [], _, _, _, All2.nil, _ => by simp [matchKids]
  | [], _, _, _, All2.cons _ _, hm => by simp [matchKids] at hm
  | _ :: _, _, _, _, All2.nil, hm => by simp [matchKids] at hm
  | k :: ks, _, _, hP, All2.cons hd tl, hm => by
    simp only [matchKids, Bool.and_eq_true, List.contains_iff_mem] at hm ⊢
    exact ⟨hd k (hP k List.mem_cons_self) hm.1,
      matchKids_on P ks _ _ (fun k' hk' => hP k' (List.mem_cons_of_mem _ hk')) tl hm.2⟩

-- `A` is a component of `U`: every rule of `U` whose parent is a state of `A` is a rule of `A`.  Then the states of
-- `A` that label a tree in `U` label it in `A`.
mutual
theorem reach_component (U A : TA) (hc : ∀ r, r ∈ U.rules → r.parent ∈ A.states → r ∈ A.rules) :
    ∀ (t : Tree) (q : Nat), q ∈ A.states → q ∈ reach U t → q ∈ reach A t
  | .node f ts, q, hq => by
    rw [reach, reach, mem_post', mem_post']
    rintro ⟨r, hr, hs, hm, hp⟩
    have hrA : r ∈ A.rules := hc r hr (by rw [hp]; exact hq)
    exact ⟨r, hrA, hs,
      matchKids_on (fun k => k ∈ A.states) r.kids _ _ (fun k hk => Rn.kid_mem_states hrA hk)
        (reachL_component U A hc ts) hm, hp⟩
theorem reachL_component (U A : TA) (hc : ∀ r, r ∈ U.rules → r.parent ∈ A.states → r ∈ A.rules) :
    ∀ ts : List Tree, All2 (fun s' s => ∀ k, k ∈ A.states → k ∈ s' → k ∈ s) (reachL U ts) (reachL A ts)
  | [] => All2.nil
  | t :: ts => All2.cons (reach_component U A hc t) (reachL_component U A hc ts)
end

theorem unionDisjoint_reach_left (A B : TA) (hdis : ∀ q, q ∈ A.states → q ∉ B.states) (t : Tree) (q : Nat)
    (hq : q ∈ A.states) : q ∈ reach (unionDisjoint A B) t ↔ q ∈ reach A t := by
  constructor
  · apply reach_component (unionDisjoint A B) A _ t q hq
    intro r hr hp
    rcases List.mem_append.mp hr with h | h
    · exact h
    · exact absurd (Rn.parent_mem_states h) (hdis _ hp)
  · exact reach_mono A (unionDisjoint A B) (fun r hr => List.mem_append_left _ hr) t q

theorem unionDisjoint_reach_right (A B : TA) (hdis : ∀ q, q ∈ A.states → q ∉ B.states) (t : Tree) (q : Nat)
    (hq : q ∈ B.states) : q ∈ reach (unionDisjoint A B) t ↔ q ∈ reach B t := by
  constructor
  · apply reach_component (unionDisjoint A B) B _ t q hq
    intro r hr hp
    rcases List.mem_append.mp hr with h | h
    · exact absurd hp (hdis _ (Rn.parent_mem_states h))
    · exact h
  · exact reach_mono B (unionDisjoint A B) (fun r hr => List.mem_append_right _ hr) t q

/-- the states labelling a tree in the disjoint union are those labelling it in `A` or in `B` -/
theorem unionDisjoint_reach (A B : TA) (hdis : ∀ q, q ∈ A.states → q ∉ B.states) (t : Tree) (q : Nat) :
    q ∈ reach (unionDisjoint A B) t ↔ q ∈ reach A t ∨ q ∈ reach B t := by
  constructor
  · intro hq
    have hst := reach_mem_states _ t q hq
    rcases Rn.mem_states.mp hst with ⟨r, hr, hc⟩ | hf
    · rcases List.mem_append.mp hr with h | h
      · have : q ∈ A.states := by
          rcases hc with hc | hc
          · rw [hc]; exact Rn.parent_mem_states h
          · exact Rn.kid_mem_states h hc
        exact Or.inl ((unionDisjoint_reach_left A B hdis t q this).mp hq)
      · have : q ∈ B.states := by
          rcases hc with hc | hc
          · rw [hc]; exact Rn.parent_mem_states h
          · exact Rn.kid_mem_states h hc
        exact Or.inr ((unionDisjoint_reach_right A B hdis t q this).mp hq)
    · rcases List.mem_append.mp hf with h | h
      · exact Or.inl ((unionDisjoint_reach_left A B hdis t q (Rn.final_mem_states h)).mp hq)
      · exact Or.inr ((unionDisjoint_reach_right A B hdis t q (Rn.final_mem_states h)).mp hq)
  · rintro (hq | hq)
    · exact (unionDisjoint_reach_left A B hdis t q (reach_mem_states A t q hq)).mpr hq
    · exact (unionDisjoint_reach_right A B hdis t q (reach_mem_states B t q hq)).mpr hq

theorem unionDisjoint_lang (A B : TA) (hdis : ∀ q, q ∈ A.states → q ∉ B.states) (t : Tree) :
    accepts (unionDisjoint A B) t = (accepts A t || accepts B t) := by
  rw [Bool.eq_iff_iff]
  simp only [Bool.or_eq_true, accepts, accepting, List.any_eq_true, List.contains_iff_mem]
  constructor
  · rintro ⟨q, hq, hf⟩
    rcases List.mem_append.mp hf with hf | hf
    · exact Or.inl ⟨q, (unionDisjoint_reach_left A B hdis t q (Rn.final_mem_states hf)).mp hq, hf⟩
    · exact Or.inr ⟨q, (unionDisjoint_reach_right A B hdis t q (Rn.final_mem_states hf)).mp hq, hf⟩
  · rintro (⟨q, hq, hf⟩ | ⟨q, hq, hf⟩)
    · exact ⟨q, (unionDisjoint_reach_left A B hdis t q (Rn.final_mem_states hf)).mpr hq, List.mem_append_left _ hf⟩
    · exact ⟨q, (unionDisjoint_reach_right A B hdis t q (Rn.final_mem_states hf)).mpr hq, List.mem_append_right _ hf⟩

theorem unionWith_eq (fA fB : Nat → Nat) (A B : TA) :
    unionWith fA fB A B = unionDisjoint (reindex fA A) (reindex fB B) := rfl

theorem unionWith_lang (fA fB : Nat → Nat) (A B : TA) (hA : InjOnStates fA A) (hB : InjOnStates fB B)
    (hdis : ∀ q q', q ∈ A.states → q' ∈ B.states → fA q ≠ fB q') (t : Tree) :
    accepts (unionWith fA fB A B) t = (accepts A t || accepts B t) := by
  rw [unionWith_eq, unionDisjoint_lang _ _ _ t, reindex_inj_lang fA A hA, reindex_inj_lang fB B hB]
  intro x hxA hxB
  obtain ⟨q, hq, he⟩ := mem_states_reindex.mp hxA
  obtain ⟨q', hq', he'⟩ := mem_states_reindex.mp hxB
  exact hdis q q' hq hq' (he.symm.trans he')

/-! ## 5. symbols -/

mutual
def Tree.mapSyms (g : Nat → Nat) : Tree → Tree
  | .node f ts => .node (g f) (Tree.mapSymsL g ts)
def Tree.mapSymsL (g : Nat → Nat) : List Tree → List Tree
  | [] => []
  | t :: ts => Tree.mapSyms g t :: Tree.mapSymsL g ts
end

mutual
theorem translateSymbols_reach (g : Nat → Nat) (A : TA) :
    ∀ (t : Tree) (q : Nat), q ∈ reach A t → q ∈ reach (translateSymbols g A) (t.mapSyms g)
  | .node f ts, q => by
    rw [Tree.mapSyms, reach, reach, mem_post', mem_post']
    rintro ⟨r, hr, hs, hm, hp⟩
    exact ⟨mapSym g r, List.mem_map.mpr ⟨r, hr, rfl⟩, congrArg g hs,
      matchKids_mono (translateSymbols_reachL g A ts) hm, hp⟩
theorem translateSymbols_reachL (g : Nat → Nat) (A : TA) :
    ∀ ts : List Tree, All2 (fun s s' => ∀ q, q ∈ s → q ∈ s') (reachL A ts)
      (reachL (translateSymbols g A) (Tree.mapSymsL g ts))
  | [] => All2.nil
  | t :: ts => All2.cons (translateSymbols_reach g A t) (translateSymbols_reachL g A ts)
end

mutual
theorem translateSymbols_reach_inv (g : Nat → Nat) (hg : ∀ a b, g a = g b → a = b) (A : TA) :
    ∀ (t : Tree) (q : Nat), q ∈ reach (translateSymbols g A) (t.mapSyms g) → q ∈ reach A t
  | .node f ts, q => by
    rw [Tree.mapSyms, reach, reach, mem_post', mem_post']
    rintro ⟨r', hr', hs, hm, hp⟩
    obtain ⟨r, hr, he⟩ := List.mem_map.mp hr'
    rw [← he] at hs hm hp
    exact ⟨r, hr, hg _ _ hs, matchKids_mono (translateSymbols_reachL_inv g hg A ts) hm, hp⟩
theorem translateSymbols_reachL_inv (g : Nat → Nat) (hg : ∀ a b, g a = g b → a = b) (A : TA) :
    ∀ ts : List Tree, All2 (fun s s' => ∀ q, q ∈ s → q ∈ s')
      (reachL (translateSymbols g A) (Tree.mapSymsL g ts)) (reachL A ts)
  | [] => All2.nil
  | t :: ts => All2.cons (translateSymbols_reach_inv g hg A t) (translateSymbols_reachL_inv g hg A ts)
end

/-- any symbol map: the translated automaton accepts the translated trees of the language -/
theorem translateSymbols_incl (g : Nat → Nat) (A : TA) (t : Tree) :
    accepts A t = true → accepts (translateSymbols g A) (t.mapSyms g) = true := by
  simp only [accepts, accepting, List.any_eq_true, List.contains_iff_mem]
  rintro ⟨q, hq, hf⟩
  exact ⟨q, translateSymbols_reach g A t q hq, hf⟩

/-- injective symbol map: a tree is accepted iff its translation is accepted by the translated automaton -/
theorem translateSymbols_lang (g : Nat → Nat) (hg : ∀ a b, g a = g b → a = b) (A : TA) (t : Tree) :
    accepts (translateSymbols g A) (t.mapSyms g) = accepts A t := by
  rw [Bool.eq_iff_iff]
  constructor
  · simp only [accepts, accepting, List.any_eq_true, List.contains_iff_mem]
    rintro ⟨q, hq, hf⟩
    exact ⟨q, translateSymbols_reach_inv g hg A t q hq, hf⟩
  · exact translateSymbols_incl g A t

/-! ## 4. counts -/

theorem reindex_rules_length (h : Nat → Nat) (A : TA) : (reindex h A).rules.length = A.rules.length := by
  simp [reindex]

theorem ins_map (h : Nat → Nat) (x : Nat) (acc : List Nat) (hinj : ∀ a, a ∈ acc → h a = h x → a = x) :
    ins (h x) (acc.map h) = (ins x acc).map h := by
  have hc : (acc.map h).contains (h x) = acc.contains x := by
    rw [Bool.eq_iff_iff, List.contains_iff_mem, List.contains_iff_mem, List.mem_map]
    constructor
    · rintro ⟨a, ha, he⟩
      rw [← hinj a ha he]; exact ha
    · intro hx; exact ⟨x, hx, rfl⟩
  unfold ins
  rw [hc]
  split
  · rfl
  · simp

theorem unionL_map (h : Nat → Nat) : ∀ (l acc : List Nat),
    (∀ a b, a ∈ acc ++ l → b ∈ acc ++ l → h a = h b → a = b) →
    unionL (acc.map h) (l.map h) = (unionL acc l).map h
  | [], acc, _ => by simp [unionL]
  | x :: l, acc, hinj => by
    rw [List.map_cons, Rn.unionL_cons, Rn.unionL_cons, ins_map h x acc, unionL_map h l (ins x acc)]
    · intro a b ha hb
      apply hinj
      · rcases List.mem_append.mp ha with ha | ha
        · rcases Rn.mem_ins.mp ha with ha | ha
          · rw [ha]; simp
          · simp [ha]
        · simp [ha]
      · rcases List.mem_append.mp hb with hb | hb
        · rcases Rn.mem_ins.mp hb with hb | hb
          · rw [hb]; simp
          · simp [hb]
        · simp [hb]
    · intro a ha
      exact hinj a x (by simp [ha]) (by simp)

theorem dedupL_map (h : Nat → Nat) (l : List Nat) (hinj : ∀ a b, a ∈ l → b ∈ l → h a = h b → a = b) :
    dedupL (l.map h) = (dedupL l).map h := by
  have := unionL_map h l [] (by simpa using hinj)
  simpa [dedupL] using this

theorem flatMap_states_reindex (h : Nat → Nat) (rs : List Rule) :
    (rs.map (mapRule h)).flatMap Rule.states = (rs.flatMap Rule.states).map h := by
  induction rs with
  | nil => rfl
  | cons r rs ih =>
    simp only [List.map_cons, List.flatMap_cons, List.map_append, ih]
    rfl

/-- for a map injective on the states, the state list of the image is the image of the state list -/
theorem reindex_states_eq (h : Nat → Nat) (A : TA) (hinj : InjOnStates h A) :
    (reindex h A).states = A.states.map h := by
  unfold TA.states
  show dedupL ((A.rules.map (mapRule h)).flatMap Rule.states ++ A.final.map h) = _
  rw [flatMap_states_reindex, ← List.map_append, dedupL_map]
  intro a b ha hb
  exact hinj a b (Rn.mem_dedupL.mpr ha) (Rn.mem_dedupL.mpr hb)

theorem reindex_states_length (h : Nat → Nat) (A : TA) (hinj : InjOnStates h A) :
    (reindex h A).states.length = A.states.length := by
  rw [reindex_states_eq h A hinj, List.length_map]

/-! ## the language theorems phrased with `Incl` / `LangEq` -/

theorem reindex_Incl (h : Nat → Nat) (A : TA) : Incl A (reindex h A) := fun t => reindex_incl h A t

theorem reindex_inj_LangEq (h : Nat → Nat) (A : TA) (hinj : InjOnStates h A) : LangEq (reindex h A) A :=
  fun t => reindex_inj_lang h A hinj t

/-! ## non-vacuity: concrete inputs satisfying the hypotheses -/

namespace RenameEx

/-- `a() → 1`, `f(1,1) → 1`, `g(1) → 2`, final `2` -/
def exA : TA := ⟨[⟨0, [], 1⟩, ⟨1, [1, 1], 1⟩, ⟨2, [1], 2⟩], [2]⟩
/-- `a() → 1`, `g(1) → 1`, final `1` -/
def exB : TA := ⟨[⟨0, [], 1⟩, ⟨2, [1], 1⟩], [1]⟩
/-- `g(f(a,a))` -/
def exT : Tree := .node 2 [.node 1 [.node 0 [], .node 0 []]]
/-- `g(g(a))` -/
def exT' : Tree := .node 2 [.node 2 [.node 0 []]]

example : exA.states = [1, 2] := by decide
example : exB.states = [1] := by decide

-- `reindex_rules` / `reindex_final`
example : (⟨2, [11], 12⟩ : Rule) ∈ (reindex (· + 10) exA).rules :=
  (reindex_rules _ _ _).mpr ⟨⟨2, [1], 2⟩, by decide, rfl⟩
example : 12 ∈ (reindex (· + 10) exA).final := (reindex_final _ _ _).mpr ⟨2, by decide, rfl⟩

-- `reindex_incl` (a non-injective map)
example : accepts exA exT = true := by decide
example : accepts (reindex (fun _ => 0) exA) exT = true := reindex_incl _ _ _ (by decide)

-- `InjOnStates`, `reindex_inj_reach`, `reindex_inj_lang`, counts
example : InjOnStates (· + 10) exA := by intro q q' _ _ h; simp only at h; omega
example : InjOnStates (fun q => 5 - q) exA := by
  intro q q' hq hq' h
  have h1 : q ∈ [1, 2] := hq
  have h2 : q' ∈ [1, 2] := hq'
  simp only [List.mem_cons, List.not_mem_nil, or_false] at h1 h2
  simp only at h
  omega
example : 2 ∈ exA.states ∧ 2 ∈ reach exA exT := by decide
example : 12 ∈ reach (reindex (· + 10) exA) exT :=
  (reindex_inj_reach (· + 10) exA (by intro q q' _ _ h; simp only at h; omega) exT 2 (by decide)).mpr (by decide)
example : (reindex (· + 10) exA).states = [11, 12] := by decide

-- `unionDisjoint_lang`
example : ∀ q, q ∈ (reindex (· + 10) exA).states → q ∉ exB.states := by decide
example : accepts (unionDisjoint (reindex (· + 10) exA) exB) exT' = true := by
  rw [unionDisjoint_lang _ _ (by decide)]; decide

-- `unionWith_lang`
example : InjOnStates (2 * ·) exA ∧ InjOnStates (2 * · + 1) exB ∧
    ∀ q q', q ∈ exA.states → q' ∈ exB.states → (2 * ·) q ≠ (2 * · + 1) q' := by
  refine ⟨?_, ?_, ?_⟩
  · intro q q' _ _ h; simp only at h; omega
  · intro q q' _ _ h; simp only at h; omega
  · intro q q' _ _ h; simp only at h; omega
example : accepts (unionWith (2 * ·) (2 * · + 1) exA exB) exT' = (accepts exA exT' || accepts exB exT') :=
  unionWith_lang _ _ _ _ (by intro q q' _ _ h; simp only at h; omega) (by intro q q' _ _ h; simp only at h; omega)
    (by intro q q' _ _ h; omega) _
example : accepts exA exT' = false ∧ accepts exB exT' = true := by decide
/-- the disjointness hypothesis matters: the plain union of overlapping automata accepts more -/
example : accepts (unionDisjoint exA exB) (.node 2 [.node 2 [.node 1 [.node 0 [], .node 0 []]]]) = true ∧
    accepts exA (.node 2 [.node 2 [.node 1 [.node 0 [], .node 0 []]]]) = false ∧
    accepts exB (.node 2 [.node 2 [.node 1 [.node 0 [], .node 0 []]]]) = false := by decide

-- symbols
example : ∀ a b : Nat, (· + 7) a = (· + 7) b → a = b := by intro a b h; simp only at h; omega
example : exT.mapSyms (· + 7) = .node 9 [.node 8 [.node 7 [], .node 7 []]] := by
  simp [exT, Tree.mapSyms, Tree.mapSymsL]
example : accepts (translateSymbols (· + 7) exA) (exT.mapSyms (· + 7)) = true :=
  translateSymbols_incl _ _ _ (by decide)
example : accepts (translateSymbols (· + 7) exA) (exT'.mapSyms (· + 7)) = accepts exA exT' :=
  translateSymbols_lang _ (by intro a b h; omega) _ _
/-- injectivity matters for the converse: with `a() → 1`, `g(1) → 2`, `h(1) → 3`, final `2`, collapsing `h` to `g` makes
the translated automaton accept the translation of the non-member `h(a)` -/
example :
    let C : TA := ⟨[⟨0, [], 1⟩, ⟨2, [1], 2⟩, ⟨3, [1], 3⟩], [2]⟩
    let c : Nat → Nat := fun s => if s = 3 then 2 else s
    let t : Tree := .node 3 [.node 0 []]
    accepts C t = false ∧ accepts (translateSymbols c C) (.node 2 [.node 0 []]) = true ∧
      t.mapSyms c = .node 2 [.node 0 []] := by
  refine ⟨by decide, by decide, ?_⟩
  simp [Tree.mapSyms, Tree.mapSymsL]

end RenameEx

end Vata
