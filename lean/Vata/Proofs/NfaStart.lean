import Vata.NfaStart
import Vata.Proofs.NfaOps
/-!
# Word automata with start symbols – theorems (properties C10, C09, C13)

1. `toNFA` commutes with every operation (`nfas*_toNFA`, all by `rfl`): the language never depends on the start symbols, and
   the language theorems of `Vata/Proofs/NfaOps.lean` transfer (`nfas*_lang`).
2. for every operation, the start symbols of the start states of the result (`*_symsOf`, `*_start_syms`).
3. dump ∘ load and load ∘ dump (`nfas_dump_load`, `nfas_load_dump`).
4. histories: every start state has an entry (`nfas_history_keys` – `GetStartSymbols` is never undefined), every start state
   has a NON-EMPTY set unless `Reverse` (or `SetExistingStateStart` with an empty set) made it a start state
   (`nfas_history_nonempty`), and what is observable after the operations that build their result from a fresh map depends
   only on what was observable before (`ObsEq.*`); the three writers that see stale entries are `NfaSEx.stale_*`.
-/
namespace Vata
open Vata.W

namespace NfaS

/-! ### the association list -/

theorem smFind_append (m m' : SymMap) (q : Nat) :
    smFind (m ++ m') q = match smFind m q with | some v => some v | none => smFind m' q := by
  induction m with
  | nil => simp [smFind]
  | cons e r ih =>
    simp only [List.cons_append, smFind]
    split
    · rfl
    · exact ih

theorem smFind_append_of_some {m m' : SymMap} {q : Nat} {v : List Nat} (h : smFind m q = some v) :
    smFind (m ++ m') q = some v := by rw [smFind_append, h]

theorem smFind_append_of_none {m m' : SymMap} {q : Nat} (h : smFind m q = none) :
    smFind (m ++ m') q = smFind m' q := by rw [smFind_append, h]

theorem smHas_append (m m' : SymMap) (q : Nat) : smHas (m ++ m') q = (smHas m q || smHas m' q) := by
  simp only [smHas, smFind_append]
  cases smFind m q <;> simp

theorem smGet_append_of_has {m m' : SymMap} {q : Nat} (h : smHas m q = true) : smGet (m ++ m') q = smGet m q := by
  simp only [smHas, Option.isSome_iff_exists] at h
  obtain ⟨v, hv⟩ := h
  simp only [smGet, smFind_append_of_some hv, hv]

theorem smGet_append_of_not_has {m m' : SymMap} {q : Nat} (h : smHas m q = false) : smGet (m ++ m') q = smGet m' q := by
  simp only [smHas, Option.isSome_eq_false_iff, Option.isNone_iff_eq_none] at h
  simp only [smGet, smFind_append_of_none h]

theorem smHas_iff_mem_keys {m : SymMap} {q : Nat} : smHas m q = true ↔ ∃ e, e ∈ m ∧ e.1 = q := by
  induction m with
  | nil => simp [smHas, smFind]
  | cons e r ih =>
    simp only [smHas, smFind] at ih ⊢
    split
    · rename_i he; simp only [Option.isSome_some, List.mem_cons, true_iff]; exact ⟨e, Or.inl rfl, he⟩
    · rename_i he
      rw [ih]
      constructor
      · rintro ⟨e', h1, h2⟩; exact ⟨e', List.mem_cons_of_mem _ h1, h2⟩
      · rintro ⟨e', h1, h2⟩
        rcases List.mem_cons.mp h1 with h | h
        · subst h; exact absurd h2 he
        · exact ⟨e', h, h2⟩

/-- a list of entries that all carry the empty set reads as the empty set everywhere -/
theorem smGet_map_nil (l : List Nat) (q : Nat) : smGet (l.map (fun f => (f, ([] : List Nat)))) q = [] := by
  induction l with
  | nil => rfl
  | cons x r ih =>
    simp only [List.map_cons, smGet, smFind] at ih ⊢
    split
    · rfl
    · exact ih

theorem smHas_map_nil (l : List Nat) (q : Nat) : smHas (l.map (fun f => (f, ([] : List Nat)))) q = l.contains q := by
  induction l with
  | nil => rfl
  | cons x r ih =>
    simp only [List.map_cons, smHas, smFind, List.contains_cons] at ih ⊢
    split
    · rename_i h; subst h; simp
    · rename_i h
      rw [ih]
      have : (q == x) = false := by simp only [beq_eq_false_iff_ne, ne_eq]; exact fun e => h e.symm
      rw [this, Bool.false_or]

/-- the entries written for a list of states: the first state with the right image decides -/
theorem smFind_map_pairs {α : Type} (f : α → Nat) (g : α → List Nat) (l : List α) (y : Nat) :
    smFind (l.map (fun s => (f s, g s))) y = (l.find? (fun s => f s == y)).map g := by
  induction l with
  | nil => rfl
  | cons x r ih =>
    simp only [List.map_cons, smFind, List.find?_cons]
    by_cases h : f x = y
    · simp [h]
    · simp only [h, if_false, ih]
      have : (f x == y) = false := by simp [h]
      rw [this]

theorem smGet_map_pairs_inj {α : Type} {f : α → Nat} (g : α → List Nat) {l : List α} {s : α} (hs : s ∈ l)
    (hinj : ∀ p, p ∈ l → f p = f s → p = s) : smGet (l.map (fun s => (f s, g s))) (f s) = g s := by
  rw [smGet, smFind_map_pairs]
  have : ∃ p, l.find? (fun t => f t == f s) = some p := by
    cases h : l.find? (fun t => f t == f s) with
    | some p => exact ⟨p, rfl⟩
    | none =>
      have := List.find?_eq_none.mp h s hs
      simp at this
  obtain ⟨p, hp⟩ := this
  have h1 := List.mem_of_find?_eq_some hp
  have h2 := List.find?_some hp
  simp only [beq_iff_eq] at h2
  rw [hp, hinj p h1 h2]; rfl

theorem smHas_map_pairs {α : Type} (f : α → Nat) (g : α → List Nat) (l : List α) (y : Nat) :
    smHas (l.map (fun s => (f s, g s))) y = true ↔ ∃ s, s ∈ l ∧ f s = y := by
  rw [smHas_iff_mem_keys]
  simp only [List.mem_map]
  constructor
  · rintro ⟨e, ⟨s, hs, rfl⟩, he⟩; exact ⟨s, hs, he⟩
  · rintro ⟨s, hs, he⟩; exact ⟨_, ⟨s, hs, rfl⟩, he⟩

/-- some state with the right image decides (no injectivity) -/
theorem smGet_map_pairs_exists {α : Type} (f : α → Nat) (g : α → List Nat) (l : List α) (y : Nat)
    (h : ∃ s, s ∈ l ∧ f s = y) : ∃ s, s ∈ l ∧ f s = y ∧ smGet (l.map (fun s => (f s, g s))) y = g s := by
  rw [smGet, smFind_map_pairs]
  cases hf : l.find? (fun s => f s == y) with
  | some p =>
    have h2 := List.find?_some hf
    simp only [beq_iff_eq] at h2
    exact ⟨p, List.mem_of_find?_eq_some hf, h2, rfl⟩
  | none =>
    obtain ⟨s, hs, he⟩ := h
    have := List.find?_eq_none.mp hf s hs
    simp [he] at this

theorem mem_insN {l : List Nat} {x y : Nat} : y ∈ insN l x ↔ y ∈ l ∨ y = x := by
  unfold insN
  split
  · rename_i h
    simp only [List.contains_iff_mem] at h
    constructor
    · exact Or.inl
    · rintro (h' | rfl)
      · exact h'
      · exact h
  · simp

theorem insN_ne_nil (l : List Nat) (x : Nat) : insN l x ≠ [] := by
  intro h
  have : x ∈ insN l x := mem_insN.mpr (Or.inr rfl)
  rw [h] at this; cases this

theorem smFind_smAddSym (m : SymMap) (q a p : Nat) :
    smFind (smAddSym m q a) p = if p = q then some (insN (smGet m q) a) else smFind m p := by
  induction m with
  | nil =>
    simp only [smAddSym, smFind, smGet, Option.getD_none]
    by_cases h : p = q
    · subst h; simp [insN]
    · have hq : ¬ q = p := fun e => h e.symm
      simp [h, hq]
  | cons e r ih =>
    simp only [smAddSym]
    by_cases he : e.1 = q
    · simp only [he, if_true, smFind, smGet]
      by_cases h : p = q
      · subst h; simp
      · have hq : ¬ q = p := fun e => h e.symm
        simp [h, hq]
    · simp only [he, if_false, smFind, smGet]
      by_cases h : p = q
      · subst h
        simp only [he, if_false, if_true] at ih ⊢
        rw [ih]; simp [smGet]
      · by_cases hp : e.1 = p
        · simp [hp, h]
        · simp only [hp, if_false, ih, h]

theorem smGet_smAddSym_self (m : SymMap) (q a : Nat) : smGet (smAddSym m q a) q = insN (smGet m q) a := by
  simp [smGet, smFind_smAddSym]

theorem smGet_smAddSym_other (m : SymMap) {q p : Nat} (a : Nat) (h : p ≠ q) : smGet (smAddSym m q a) p = smGet m p := by
  simp [smGet, smFind_smAddSym, h]

theorem smHas_smAddSym (m : SymMap) (q a p : Nat) : smHas (smAddSym m q a) p = (decide (p = q) || smHas m p) := by
  simp only [smHas, smFind_smAddSym]
  by_cases h : p = q <;> simp [h]

theorem smGet_smInsert (m : SymMap) (q : Nat) (S : List Nat) (p : Nat) :
    smGet (smInsert m q S) p = if smHas m q = false ∧ p = q then S else smGet m p := by
  unfold smInsert
  by_cases h : smHas m q = true
  · simp [h]
  · simp only [Bool.not_eq_true] at h
    simp only [h, Bool.false_eq_true, if_false, true_and]
    by_cases hp : p = q
    · subst hp
      rw [smGet_append_of_not_has h]; simp [smGet, smFind]
    · simp only [hp, if_false]
      have hq : ¬ q = p := fun e => hp e.symm
      by_cases hh : smHas m p = true
      · exact smGet_append_of_has hh
      · simp only [Bool.not_eq_true] at hh
        rw [smGet_append_of_not_has hh]
        have e1 : smFind m p = none := by
          simpa only [smHas, Option.isSome_eq_false_iff, Option.isNone_iff_eq_none] using hh
        simp [smGet, smFind, hq, e1]

theorem smHas_smInsert (m : SymMap) (q : Nat) (S : List Nat) (p : Nat) :
    smHas (smInsert m q S) p = (smHas m p || decide (p = q)) := by
  unfold smInsert
  by_cases h : smHas m q = true
  · simp only [h, if_true]
    by_cases hp : p = q
    · subst hp; simp [h]
    · simp [hp]
  · rw [if_neg h, smHas_append]
    congr 1
    simp only [smHas, smFind]
    by_cases hp : q = p
    · subst hp; simp
    · have hq : ¬ p = q := fun e => hp e.symm
      simp [hp, hq]

theorem smGet_eq_nil_of_not_has {m : SymMap} {q : Nat} (h : smHas m q = false) : smGet m q = [] := by
  simp only [smHas, Option.isSome_eq_false_iff, Option.isNone_iff_eq_none] at h
  simp [smGet, h]

end NfaS

open NfaS

/-! ## (1) the language does not depend on the start symbols: `toNFA` commutes with every operation -/

theorem nfasAddTrans_toNFA (A : NFAS) (p a q : Nat) :
    (nfasAddTrans A p a q).toNFA = ⟨A.start, A.final, A.trans ++ [(p, a, q)]⟩ := rfl
theorem nfasSetFinal_toNFA (A : NFAS) (q : Nat) : (nfasSetFinal A q).toNFA = ⟨A.start, insN A.final q, A.trans⟩ := rfl
theorem nfasSetStart_toNFA (A : NFAS) (q a : Nat) : (nfasSetStart A q a).toNFA = ⟨insN A.start q, A.final, A.trans⟩ := rfl
theorem nfasSetExistingStart_toNFA (A : NFAS) (q : Nat) (S : List Nat) :
    (nfasSetExistingStart A q S).toNFA = ⟨insN A.start q, A.final, A.trans⟩ := rfl
theorem nfasMap_toNFA (f : Nat → Nat) (A : NFAS) : (nfasMap f A).toNFA = nfaMap f A.toNFA := rfl
theorem nfasUnionDisjoint_toNFA (A B : NFAS) : (nfasUnionDisjoint A B).toNFA = nfaUnionDisjoint A.toNFA B.toNFA := rfl
theorem nfasUnionWith_toNFA (fA fB : Nat → Nat) (A B : NFAS) :
    (nfasUnionWith fA fB A B).toNFA = nfaUnionWith fA fB A.toNFA B.toNFA := rfl
theorem nfasUnion_toNFA (A B : NFAS) : (nfasUnion A B).toNFA = nfaUnion A.toNFA B.toNFA := rfl
theorem nfasReverse_toNFA (A : NFAS) : (nfasReverse A).toNFA = nfaReverse A.toNFA := rfl
theorem nfasRemoveUnreachable_toNFA (A : NFAS) : (nfasRemoveUnreachable A).toNFA = nfaRemoveUnreachable A.toNFA := rfl
theorem nfasRemoveUseless_toNFA (A : NFAS) : (nfasRemoveUseless A).toNFA = nfaRemoveUseless A.toNFA := rfl
theorem nfasProdOn_toNFA (A B : NFAS) (D : List (Nat × Nat)) (m : Nat × Nat → Nat) :
    (nfasProdOn A B D m).toNFA = nfaProdOn A.toNFA B.toNFA D m := rfl
theorem nfasCandidateRaw_toNFA (A : NFAS) : (nfasCandidateRaw A).toNFA = nfaCandidateRaw A.toNFA := rfl
theorem nfasCandidate_toNFA (A : NFAS) : (nfasCandidate A).toNFA = nfaCandidate A.toNFA := rfl

theorem nfasIntersection_toNFA (A B : NFAS) (fuel : Nat) :
    (nfasIntersection A B fuel).map NFAS.toNFA = nfaIntersection A.toNFA B.toNFA fuel := by
  simp only [nfasIntersection, nfaIntersection]
  split <;> rfl

theorem nfasIntersection_isSome (A B : NFAS) : ∃ P, nfasIntersection A B (nfaJointAll A.toNFA B.toNFA).length = some P := by
  obtain ⟨P, hP⟩ := nfaIntersection_isSome A.toNFA B.toNFA
  have h := nfasIntersection_toNFA A B (nfaJointAll A.toNFA B.toNFA).length
  rw [hP] at h
  cases h' : nfasIntersection A B (nfaJointAll A.toNFA B.toNFA).length with
  | some Q => exact ⟨Q, rfl⟩
  | none => rw [h'] at h; cases h

theorem nfasIsect_toNFA (A B : NFAS) : (nfasIsect A B).toNFA = nfaIsect A.toNFA B.toNFA := by
  have h := nfasIntersection_toNFA A B (nfaJointAll A.toNFA B.toNFA).length
  obtain ⟨Q, hQ⟩ := nfasIntersection_isSome A B
  unfold nfasIsect nfaIsect
  rw [← h, hQ]; rfl

/-- the dump of the transitions and of the final states does not read the map, and load builds the automaton without
looking at the symbols: start states = the targets of the nullary rules -/
theorem nfasDump_final_unary (g : Nat → Nat) (A : NFAS) :
    (nfasDump g A).final = A.final.map g ∧ (nfasDump g A).unary = A.trans.map (fun e => (g e.1, e.2.1, g e.2.2)) :=
  ⟨rfl, rfl⟩

/-! the language theorems, transferred -/

theorem nfasUnion_lang (A B : NFAS) (w : List Nat) :
    acceptsW (nfasUnion A B).toNFA w = (acceptsW A.toNFA w || acceptsW B.toNFA w) := nfaUnion_lang _ _ w

theorem nfasUnionWith_lang (fA fB : Nat → Nat) (A B : NFAS) (w : List Nat)
    (hA : NfaInjOn fA (nfaStates A.toNFA)) (hB : NfaInjOn fB (nfaStates B.toNFA))
    (hdis : ∀ p, p ∈ nfaStates A.toNFA → ∀ q, q ∈ nfaStates B.toNFA → fA p ≠ fB q) :
    acceptsW (nfasUnionWith fA fB A B).toNFA w = (acceptsW A.toNFA w || acceptsW B.toNFA w) :=
  nfaUnionWith_lang fA fB _ _ w hA hB hdis

theorem nfasUnionDisjoint_lang (A B : NFAS) (w : List Nat)
    (hdis : ∀ q, q ∈ nfaStates A.toNFA → q ∈ nfaStates B.toNFA → False) :
    acceptsW (nfasUnionDisjoint A B).toNFA w = (acceptsW A.toNFA w || acceptsW B.toNFA w) :=
  nfaUnionDisjoint_lang _ _ w hdis

theorem nfasMap_lang (f : Nat → Nat) (A : NFAS) (w : List Nat) (hinj : NfaInjOn f (nfaStates A.toNFA)) :
    acceptsW (nfasMap f A).toNFA w = acceptsW A.toNFA w := nfaMap_inj_lang f _ w hinj

theorem nfasReverse_lang (A : NFAS) (w : List Nat) : acceptsW (nfasReverse A).toNFA w = acceptsW A.toNFA w.reverse :=
  nfaReverse_lang _ w

theorem nfasRemoveUnreachable_lang (A : NFAS) (w : List Nat) :
    acceptsW (nfasRemoveUnreachable A).toNFA w = acceptsW A.toNFA w := nfaRemoveUnreachable_lang _ w

theorem nfasRemoveUseless_lang (A : NFAS) (w : List Nat) : acceptsW (nfasRemoveUseless A).toNFA w = acceptsW A.toNFA w :=
  nfaRemoveUseless_lang _ w

theorem nfasIntersection_lang (A B : NFAS) (fuel : Nat) (P : NFAS) (h : nfasIntersection A B fuel = some P)
    (w : List Nat) : acceptsW P.toNFA w = (acceptsW A.toNFA w && acceptsW B.toNFA w) := by
  apply nfaIntersection_lang A.toNFA B.toNFA fuel
  rw [← nfasIntersection_toNFA, h]; rfl

theorem nfasIsect_lang (A B : NFAS) (w : List Nat) :
    acceptsW (nfasIsect A B).toNFA w = (acceptsW A.toNFA w && acceptsW B.toNFA w) := by
  rw [nfasIsect_toNFA]; exact nfaIsect_lang _ _ w

theorem nfasCandidate_lang (A : NFAS) :
    (∀ w, acceptsW (nfasCandidate A).toNFA w = true → acceptsW A.toNFA w = true) ∧
    ((∃ w, acceptsW (nfasCandidate A).toNFA w = true) ↔ ∃ w, acceptsW A.toNFA w = true) :=
  ⟨nfaCandidate_sub_lang A.toNFA, nfaCandidate_nonempty_iff A.toNFA⟩

/-! ## (2) the start symbols of the start states of every result -/

/-! ### `Reverse`, `RemoveUnreachableStates`, `RemoveUselessStates`: the map, read as a function, does not change -/

/-- `Reverse` keeps every entry and adds only empty ones: read as a function `state ↦ set` (`[]` without an entry) the map is
unchanged.  So a new start state (a final state of `A`) shows the entry `A` had for it – its start symbols if it was a
start state of `A`, a STALE entry if `A` had one, nothing otherwise. -/
theorem nfasReverse_symsOf (A : NFAS) (q : Nat) : (nfasReverse A).symsOf q = A.symsOf q := by
  show smGet (nfasReverseSyms A) q = smGet A.startSyms q
  unfold nfasReverseSyms
  by_cases h : smHas A.startSyms q = true
  · exact smGet_append_of_has h
  · simp only [Bool.not_eq_true] at h
    rw [smGet_append_of_not_has h, smGet_map_nil, smGet_eq_nil_of_not_has h]

theorem contains_filter (l : List Nat) (p : Nat → Bool) (q : Nat) : (l.filter p).contains q = (l.contains q && p q) := by
  rw [Bool.eq_iff_iff]
  simp only [List.contains_iff_mem, List.mem_filter, Bool.and_eq_true]

/-- the entries after `Reverse`: the old ones and one for every new start state -/
theorem nfasReverse_has (A : NFAS) (q : Nat) :
    smHas (nfasReverse A).startSyms q = (smHas A.startSyms q || A.final.contains q) := by
  show smHas (nfasReverseSyms A) q = _
  unfold nfasReverseSyms
  rw [smHas_append, smHas_map_nil, contains_filter]
  cases smHas A.startSyms q <;> simp

/-- the start states of `Reverse A` are the final states of `A`; each shows what the map of `A` holds for it: nothing for a
state without entry, the start symbols of `A` for a state that was a start state too -/
theorem nfasReverse_start_syms (A : NFAS) :
    (nfasReverse A).start = A.final ∧
    (∀ q, (nfasReverse A).symsOf q = A.symsOf q) ∧
    (∀ q, smHas A.startSyms q = false → (nfasReverse A).symsOf q = []) :=
  ⟨rfl, nfasReverse_symsOf A, fun q h => by rw [nfasReverse_symsOf]; exact smGet_eq_nil_of_not_has h⟩

/-- `Reverse ∘ Reverse` gives back the start states with their symbols (this is what the stale entries are good for) -/
theorem nfasReverse_reverse (A : NFAS) :
    (nfasReverse (nfasReverse A)).start = A.start ∧ (nfasReverse (nfasReverse A)).final = A.final ∧
    ∀ q, (nfasReverse (nfasReverse A)).symsOf q = A.symsOf q :=
  ⟨rfl, rfl, fun q => by rw [nfasReverse_symsOf, nfasReverse_symsOf]⟩

theorem nfasRemoveUnreachable_symsOf (A : NFAS) (q : Nat) : (nfasRemoveUnreachable A).symsOf q = A.symsOf q := rfl

theorem nfasRemoveUseless_symsOf (A : NFAS) (q : Nat) : (nfasRemoveUseless A).symsOf q = A.symsOf q := by
  unfold nfasRemoveUseless
  rw [nfasReverse_symsOf, nfasRemoveUnreachable_symsOf, nfasReverse_symsOf, nfasRemoveUnreachable_symsOf]

/-- trimming: the start states that survive (all of them / those from which a final state is reachable) keep their symbols -/
theorem nfasRemoveUnreachable_start_syms (A : NFAS) :
    (nfasRemoveUnreachable A).start = A.start ∧ ∀ q, (nfasRemoveUnreachable A).symsOf q = A.symsOf q :=
  ⟨nfaRemoveUnreachable_start A.toNFA, fun _ => rfl⟩

theorem nfasRemoveUseless_start_syms (A : NFAS) (s : Nat) :
    (s ∈ (nfasRemoveUseless A).start ↔ s ∈ A.start ∧ NfaCoReach A.toNFA s) ∧
    (nfasRemoveUseless A).symsOf s = A.symsOf s :=
  ⟨mem_nfaRemoveUseless_start A.toNFA s, nfasRemoveUseless_symsOf A s⟩

/-! ### `ReindexStates`, `Union` -/

theorem mem_nfasMap_start {f : Nat → Nat} {A : NFAS} {t : Nat} : t ∈ (nfasMap f A).start ↔ ∃ s, s ∈ A.start ∧ f s = t :=
  List.mem_map

/-- `ReindexStates`: the image of a start state carries its symbols (`f` injective on the start states) -/
theorem nfasMap_symsOf (f : Nat → Nat) (A : NFAS) {s : Nat} (hs : s ∈ A.start)
    (hinj : ∀ p, p ∈ A.start → f p = f s → p = s) : (nfasMap f A).symsOf (f s) = A.symsOf s :=
  smGet_map_pairs_inj (fun s => A.symsOf s) hs hinj

theorem mem_nfasUnionWith_start {fA fB : Nat → Nat} {A B : NFAS} {t : Nat} :
    t ∈ (nfasUnionWith fA fB A B).start ↔ (∃ s, s ∈ A.start ∧ fA s = t) ∨ (∃ s, s ∈ B.start ∧ fB s = t) := by
  show t ∈ A.start.map fA ++ B.start.map fB ↔ _
  simp only [List.mem_append, List.mem_map]

/-- `Union`: the image of a start state of the left operand carries its symbols -/
theorem nfasUnionWith_symsOf_left (fA fB : Nat → Nat) (A B : NFAS) {s : Nat} (hs : s ∈ A.start)
    (hinj : ∀ p, p ∈ A.start → fA p = fA s → p = s) : (nfasUnionWith fA fB A B).symsOf (fA s) = A.symsOf s := by
  show smGet (nfasMapSyms fA A ++ nfasMapSyms fB B) (fA s) = _
  have hh : smHas (nfasMapSyms fA A) (fA s) = true := (smHas_map_pairs fA _ _ _).mpr ⟨s, hs, rfl⟩
  rw [smGet_append_of_has hh]
  exact smGet_map_pairs_inj (fun s => A.symsOf s) hs hinj

/-- `Union`: the image of a start state of the right operand carries its symbols (images of the start states disjoint) -/
theorem nfasUnionWith_symsOf_right (fA fB : Nat → Nat) (A B : NFAS) {s : Nat} (hs : s ∈ B.start)
    (hinj : ∀ p, p ∈ B.start → fB p = fB s → p = s) (hdis : ∀ p, p ∈ A.start → fA p ≠ fB s) :
    (nfasUnionWith fA fB A B).symsOf (fB s) = B.symsOf s := by
  show smGet (nfasMapSyms fA A ++ nfasMapSyms fB B) (fB s) = _
  have hno : smHas (nfasMapSyms fA A) (fB s) = false := by
    cases h : smHas (nfasMapSyms fA A) (fB s) with
    | false => rfl
    | true =>
      obtain ⟨p, hp, he⟩ := (smHas_map_pairs fA _ _ _).mp h
      exact absurd he (hdis p hp)
  rw [smGet_append_of_not_has hno]
  exact smGet_map_pairs_inj (fun s => B.symsOf s) hs hinj

/-! ### `UnionDisjointStates` -/

/-- `UnionDisjointStates`: an entry of the left operand – ALSO A STALE ONE – wins; otherwise the right operand's -/
theorem nfasUnionDisjoint_symsOf (A B : NFAS) (q : Nat) :
    (nfasUnionDisjoint A B).symsOf q = if smHas A.startSyms q = true then A.symsOf q else B.symsOf q := by
  show smGet (A.startSyms ++ B.startSyms) q = _
  by_cases h : smHas A.startSyms q = true
  · rw [if_pos h]; exact smGet_append_of_has h
  · rw [if_neg h]; simp only [Bool.not_eq_true] at h; exact smGet_append_of_not_has h

theorem mem_nfasUnionDisjoint_start {A B : NFAS} {q : Nat} :
    q ∈ (nfasUnionDisjoint A B).start ↔ q ∈ A.start ∨ q ∈ B.start := List.mem_append

/-! ### `Intersection` -/

/-- the product: the start state numbered `m (l, r)` carries the union of the sets of `l` and `r` -/
theorem nfasProdOn_symsOf (A B : NFAS) (D : List (Nat × Nat)) (m : Nat × Nat → Nat) {p : Nat × Nat}
    (hp : p ∈ nfaStartPairs A.toNFA B.toNFA) (hinj : ∀ p', p' ∈ nfaStartPairs A.toNFA B.toNFA → m p' = m p → p' = p) :
    (nfasProdOn A B D m).symsOf (m p) = A.symsOf p.1 ++ B.symsOf p.2 :=
  smGet_map_pairs_inj (f := m) (fun p : Nat × Nat => A.symsOf p.1 ++ B.symsOf p.2) hp hinj

/-- … and the start states of the result of `Intersection` (product, then `RemoveUselessStates`) are numbers of pairs of
start states, each carrying exactly the union of the two components' sets -/
theorem nfasProd_start_syms (A B : NFAS) (D : List (Nat × Nat)) (m : Nat × Nat → Nat)
    (hinj : ∀ p, p ∈ nfaStartPairs A.toNFA B.toNFA → ∀ p', p' ∈ nfaStartPairs A.toNFA B.toNFA → m p = m p' → p = p')
    {t : Nat} (ht : t ∈ (nfasRemoveUseless (nfasProdOn A B D m)).start) :
    ∃ l r, l ∈ A.start ∧ r ∈ B.start ∧ t = m (l, r) ∧
      (nfasRemoveUseless (nfasProdOn A B D m)).symsOf t = A.symsOf l ++ B.symsOf r := by
  have h1 := ((mem_nfaRemoveUseless_start (nfasProdOn A B D m).toNFA t).mp ht).1
  obtain ⟨p, hp, rfl⟩ := List.mem_map.mp (show t ∈ (nfaStartPairs A.toNFA B.toNFA).map m from h1)
  have hm := mem_nfaStartPairs.mp hp
  refine ⟨p.1, p.2, hm.1, hm.2, rfl, ?_⟩
  rw [nfasRemoveUseless_symsOf]
  exact nfasProdOn_symsOf A B D m hp (fun p' hp' he => hinj p' hp' p hp he)

theorem nfasIntersection_start_syms (A B : NFAS) (fuel : Nat) (P : NFAS) (h : nfasIntersection A B fuel = some P) :
    ∃ m : Nat × Nat → Nat,
      (∀ p, p ∈ nfaStartPairs A.toNFA B.toNFA → ∀ p', p' ∈ nfaStartPairs A.toNFA B.toNFA → m p = m p' → p = p') ∧
      ∀ t, t ∈ P.start → ∃ l r, l ∈ A.start ∧ r ∈ B.start ∧ t = m (l, r) ∧ P.symsOf t = A.symsOf l ++ B.symsOf r := by
  simp only [nfasIntersection] at h
  split at h
  · cases h
    have hinj : ∀ p, p ∈ nfaStartPairs A.toNFA B.toNFA → ∀ p', p' ∈ nfaStartPairs A.toNFA B.toNFA →
        (nfaPairIter A.toNFA B.toNFA fuel (nfaStartPairs A.toNFA B.toNFA).eraseDups).idxOf p =
          (nfaPairIter A.toNFA B.toNFA fuel (nfaStartPairs A.toNFA B.toNFA).eraseDups).idxOf p' → p = p' :=
      fun p hp p' _ he => idxOf_inj' (sub_nfaPairIter _ _ _ _ p (List.mem_eraseDups.mpr hp)) he
    exact ⟨_, hinj, fun t ht => nfasProd_start_syms A B _ _ hinj ht⟩
  · cases h

/-! ### `GetCandidateTree` -/

/-- the witness: its start states are start states of `A` and carry the symbols they carry in `A` -/
theorem nfasCandidate_start_syms (A : NFAS) {s : Nat} (hs : s ∈ (nfasCandidate A).start) :
    s ∈ A.start ∧ (nfasCandidate A).symsOf s = A.symsOf s := by
  have h1 : s ∈ (nfaCandidateRaw A.toNFA).start :=
    ((mem_nfaRemoveUseless_start (nfasCandidateRaw A).toNFA s).mp hs).1
  refine ⟨(nfaCandidateRaw_sub A.toNFA).1 s h1, ?_⟩
  show (nfasRemoveUseless (nfasCandidateRaw A)).symsOf s = _
  rw [nfasRemoveUseless_symsOf]
  exact smGet_map_pairs_inj (f := fun q => q) (fun q => A.symsOf q) h1 (fun p _ he => he)

/-! ### the setters -/

/-- `SetStateStart (q, a)`: `a` joins WHATEVER THE MAP HOLDS for `q` -/
theorem nfasSetStart_symsOf (A : NFAS) (q a p : Nat) :
    (nfasSetStart A q a).symsOf p = if p = q then insN (A.symsOf q) a else A.symsOf p := by
  show smGet (smAddSym A.startSyms q a) p = _
  by_cases h : p = q
  · subst h; rw [if_pos rfl]; exact smGet_smAddSym_self _ _ _
  · rw [if_neg h]; exact smGet_smAddSym_other _ _ h

/-- observable form: when `q` has no stale entry (it is a start state, or has no entry at all) the new set is the set `q`
showed before (nothing if it was no start state) plus `a` -/
theorem nfasSetStart_spec (A : NFAS) (q a : Nat) (h : q ∈ A.start ∨ smHas A.startSyms q = false) :
    (nfasSetStart A q a).symsOf q = insN (if A.start.contains q then A.symsOf q else []) a := by
  rw [nfasSetStart_symsOf, if_pos rfl]
  by_cases hq : q ∈ A.start
  · simp [hq]
  · have hn : smHas A.startSyms q = false := h.resolve_left hq
    simp only [List.contains_iff_mem, hq, if_false]
    rw [NFAS.symsOf, smGet_eq_nil_of_not_has hn]

/-- `SetExistingStateStart (q, S)`: `S` only if the map holds NOTHING for `q` -/
theorem nfasSetExistingStart_symsOf (A : NFAS) (q : Nat) (S : List Nat) (p : Nat) :
    (nfasSetExistingStart A q S).symsOf p = if smHas A.startSyms q = false ∧ p = q then S else A.symsOf p :=
  smGet_smInsert _ _ _ _

theorem nfasSetExistingStart_spec (A : NFAS) (q : Nat) (S : List Nat) (h : smHas A.startSyms q = false) :
    (nfasSetExistingStart A q S).symsOf q = S := by
  rw [nfasSetExistingStart_symsOf, if_pos ⟨h, rfl⟩]

theorem nfasAddTrans_symsOf (A : NFAS) (p a q s : Nat) : (nfasAddTrans A p a q).symsOf s = A.symsOf s := rfl
theorem nfasSetFinal_symsOf (A : NFAS) (q s : Nat) : (nfasSetFinal A q).symsOf s = A.symsOf s := rfl

/-! ## (3) construction, load, dump -/

/-- a sequence of `SetStateStart (q, a)` calls, `L` = the pairs `(q, a)` -/
def nfasAddStarts (A : NFAS) (L : List (Nat × Nat)) : NFAS := L.foldl (fun A p => nfasSetStart A p.1 p.2) A

theorem nfasAddStarts_spec (L : List (Nat × Nat)) : ∀ (A : NFAS),
    (nfasAddStarts A L).final = A.final ∧ (nfasAddStarts A L).trans = A.trans ∧
    (∀ q, q ∈ (nfasAddStarts A L).start ↔ q ∈ A.start ∨ ∃ a, (q, a) ∈ L) ∧
    (∀ q a, a ∈ (nfasAddStarts A L).symsOf q ↔ a ∈ A.symsOf q ∨ (q, a) ∈ L) ∧
    (∀ q, smHas (nfasAddStarts A L).startSyms q = true ↔ smHas A.startSyms q = true ∨ ∃ a, (q, a) ∈ L) := by
  induction L with
  | nil => intro A; simp [nfasAddStarts]
  | cons p L ih =>
    intro A
    obtain ⟨h1, h2, h3, h4, h5⟩ := ih (nfasSetStart A p.1 p.2)
    have e : nfasAddStarts A (p :: L) = nfasAddStarts (nfasSetStart A p.1 p.2) L := rfl
    rw [e]
    refine ⟨h1, h2, ?_, ?_, ?_⟩
    · intro q
      rw [h3 q]
      show q ∈ insN A.start p.1 ∨ _ ↔ _
      rw [mem_insN]
      constructor
      · rintro ((h | h) | ⟨a, h⟩)
        · exact Or.inl h
        · exact Or.inr ⟨p.2, by rw [h]; exact List.mem_cons_self⟩
        · exact Or.inr ⟨a, List.mem_cons_of_mem _ h⟩
      · rintro (h | ⟨a, h⟩)
        · exact Or.inl (Or.inl h)
        · rcases List.mem_cons.mp h with h | h
          · exact Or.inl (Or.inr (by rw [← h]))
          · exact Or.inr ⟨a, h⟩
    · intro q a
      rw [h4 q a, nfasSetStart_symsOf]
      by_cases hq : q = p.1
      · rw [if_pos hq, mem_insN]
        constructor
        · rintro ((h | h) | h)
          · exact Or.inl (hq ▸ h)
          · exact Or.inr (by rw [hq, h]; exact List.mem_cons_self)
          · exact Or.inr (List.mem_cons_of_mem _ h)
        · rintro (h | h)
          · exact Or.inl (Or.inl (hq ▸ h))
          · rcases List.mem_cons.mp h with h | h
            · exact Or.inl (Or.inr (by rw [← h]))
            · exact Or.inr h
      · rw [if_neg hq]
        constructor
        · rintro (h | h)
          · exact Or.inl h
          · exact Or.inr (List.mem_cons_of_mem _ h)
        · rintro (h | h)
          · exact Or.inl h
          · rcases List.mem_cons.mp h with h | h
            · exact absurd (by rw [← h]) hq
            · exact Or.inr h
    · intro q
      rw [h5 q]
      show smHas (smAddSym A.startSyms p.1 p.2) q = true ∨ _ ↔ _
      rw [smHas_smAddSym]
      simp only [Bool.or_eq_true, decide_eq_true_eq]
      constructor
      · rintro ((h | h) | ⟨a, h⟩)
        · exact Or.inr ⟨p.2, by rw [h]; exact List.mem_cons_self⟩
        · exact Or.inl h
        · exact Or.inr ⟨a, List.mem_cons_of_mem _ h⟩
      · rintro (h | ⟨a, h⟩)
        · exact Or.inl (Or.inr h)
        · rcases List.mem_cons.mp h with h | h
          · exact Or.inl (Or.inl (by rw [← h]))
          · exact Or.inr ⟨a, h⟩

/-- a sequence of `SetStateFinal` calls -/
theorem nfasSetFinals_spec (F : List Nat) : ∀ (A : NFAS),
    (F.foldl nfasSetFinal A).start = A.start ∧ (F.foldl nfasSetFinal A).trans = A.trans ∧
    (F.foldl nfasSetFinal A).startSyms = A.startSyms ∧
    (∀ q, q ∈ (F.foldl nfasSetFinal A).final ↔ q ∈ A.final ∨ q ∈ F) := by
  induction F with
  | nil => intro A; simp
  | cons x F ih =>
    intro A
    obtain ⟨h1, h2, h3, h4⟩ := ih (nfasSetFinal A x)
    simp only [List.foldl_cons]
    refine ⟨h1, h2, h3, fun q => ?_⟩
    rw [h4 q]
    show q ∈ insN A.final x ∨ _ ↔ _
    rw [mem_insN, List.mem_cons]
    constructor
    · rintro ((h | h) | h)
      · exact Or.inl h
      · exact Or.inr (Or.inl h)
      · exact Or.inr (Or.inr h)
    · rintro (h | h | h)
      · exact Or.inl (Or.inl h)
      · exact Or.inl (Or.inr h)
      · exact Or.inr h

/-- what `def:T|S|F` builds: the transitions and final states given, the states named in `S` as start states, each with
exactly the symbols written for it -/
theorem nfasBuild_spec (tr : List (Nat × Nat × Nat)) (sp : List (Nat × Nat)) (fi : List Nat) :
    (nfasBuild tr sp fi).trans = tr ∧ (∀ q, q ∈ (nfasBuild tr sp fi).final ↔ q ∈ fi) ∧
    (∀ q, q ∈ (nfasBuild tr sp fi).start ↔ ∃ a, (q, a) ∈ sp) ∧
    (∀ q a, a ∈ (nfasBuild tr sp fi).symsOf q ↔ (q, a) ∈ sp) := by
  obtain ⟨f1, f2, f3, f4⟩ := nfasSetFinals_spec fi (nfasAddStarts ⟨⟨[], [], tr⟩, []⟩ sp)
  obtain ⟨a1, a2, a3, a4, _⟩ := nfasAddStarts_spec sp ⟨⟨[], [], tr⟩, []⟩
  have e : nfasBuild tr sp fi = fi.foldl nfasSetFinal (nfasAddStarts ⟨⟨[], [], tr⟩, []⟩ sp) := rfl
  refine ⟨?_, ?_, ?_, ?_⟩
  · rw [e, f2, a2]
  · intro q; rw [e, f4 q, a1]; simp
  · intro q; rw [e, f1, a3 q]; simp
  · intro q a
    have : (nfasBuild tr sp fi).symsOf q = (nfasAddStarts ⟨⟨[], [], tr⟩, []⟩ sp).symsOf q := by
      rw [e]; unfold NFAS.symsOf; rw [f3]
    rw [this, a4 q a]; simp [NFAS.symsOf, smGet, smFind]

theorem nfasLoad_eq (f : Nat → Nat) (d : NDesc) :
    nfasLoad f d = nfasAddStarts ⟨⟨[], d.final.map f, d.unary.map (fun e => (f e.1, e.2.1, f e.2.2))⟩, []⟩
      (d.nullary.map (fun r => (f r.2, r.1))) := by
  unfold nfasLoad nfasAddStarts
  rw [List.foldl_map]

/-- what load builds -/
theorem nfasLoad_spec (f : Nat → Nat) (d : NDesc) :
    (nfasLoad f d).final = d.final.map f ∧ (nfasLoad f d).trans = d.unary.map (fun e => (f e.1, e.2.1, f e.2.2)) ∧
    (∀ q, q ∈ (nfasLoad f d).start ↔ ∃ r, r ∈ d.nullary ∧ f r.2 = q) ∧
    (∀ q a, a ∈ (nfasLoad f d).symsOf q ↔ ∃ r, r ∈ d.nullary ∧ f r.2 = q ∧ r.1 = a) ∧
    (∀ q, smHas (nfasLoad f d).startSyms q = true ↔ ∃ r, r ∈ d.nullary ∧ f r.2 = q) := by
  rw [nfasLoad_eq]
  obtain ⟨a1, a2, a3, a4, a5⟩ := nfasAddStarts_spec (d.nullary.map (fun r => (f r.2, r.1)))
    ⟨⟨[], d.final.map f, d.unary.map (fun e => (f e.1, e.2.1, f e.2.2))⟩, []⟩
  refine ⟨a1, a2, ?_, ?_, ?_⟩
  · intro q
    rw [a3 q]
    simp only [List.mem_map, Prod.mk.injEq, List.not_mem_nil, false_or]
    constructor
    · rintro ⟨a, r, hr, h1, _⟩; exact ⟨r, hr, h1⟩
    · rintro ⟨r, hr, h1⟩; exact ⟨r.1, r, hr, h1, rfl⟩
  · intro q a
    rw [a4 q a]
    simp only [List.mem_map, Prod.mk.injEq, NFAS.symsOf, smGet, smFind, Option.getD_none, List.not_mem_nil, false_or]
  · intro q
    rw [a5 q]
    simp only [List.mem_map, Prod.mk.injEq, smHas, smFind, Option.isSome_none, Bool.false_eq_true, false_or]
    constructor
    · rintro ⟨a, r, hr, h1, _⟩; exact ⟨r, hr, h1⟩
    · rintro ⟨r, hr, h1⟩; exact ⟨r.1, r, hr, h1, rfl⟩

theorem NFAS.dumpSyms_ne_nil (A : NFAS) (q : Nat) : A.dumpSyms q ≠ [] := by
  unfold NFAS.dumpSyms
  split
  · simp
  · rename_i h; intro e; rw [e] at h; exact h rfl

theorem NFAS.dumpSyms_of_ne_nil {A : NFAS} {q : Nat} (h : A.symsOf q ≠ []) : A.dumpSyms q = A.symsOf q := by
  unfold NFAS.dumpSyms
  split
  · rename_i h'; exact absurd (List.isEmpty_iff.mp h') h
  · rfl

theorem NFAS.dumpSyms_of_nil {A : NFAS} {q : Nat} (h : A.symsOf q = []) : A.dumpSyms q = [NFAS.xSym] := by
  unfold NFAS.dumpSyms; rw [h]; rfl

theorem mem_nfasDump_nullary {g : Nat → Nat} {A : NFAS} {r : Nat × Nat} :
    r ∈ (nfasDump g A).nullary ↔ ∃ s, s ∈ A.start ∧ r.1 ∈ A.dumpSyms s ∧ r.2 = g s := by
  simp only [nfasDump, List.mem_flatMap, List.mem_map]
  constructor
  · rintro ⟨s, hs, a, ha, rfl⟩; exact ⟨s, hs, ha, rfl⟩
  · rintro ⟨s, hs, ha, hr⟩; exact ⟨s, hs, r.1, ha, by rw [← hr]⟩

theorem NDesc.mem_names {d : NDesc} {n : Nat} :
    n ∈ d.names ↔ n ∈ d.final ∨ (∃ r, r ∈ d.nullary ∧ r.2 = n) ∨ ∃ e, e ∈ d.unary ∧ (e.1 = n ∨ e.2.2 = n) := by
  simp only [NDesc.names, List.mem_eraseDups, List.mem_append, List.mem_map, List.mem_flatMap, List.mem_cons,
    List.not_mem_nil, or_false, or_assoc]
  constructor
  · rintro (h | ⟨r, hr, h⟩ | ⟨e, he, h | h⟩)
    · exact Or.inl h
    · exact Or.inr (Or.inl ⟨r, hr, h⟩)
    · exact Or.inr (Or.inr ⟨e, he, Or.inl h.symm⟩)
    · exact Or.inr (Or.inr ⟨e, he, Or.inr h.symm⟩)
  · rintro (h | ⟨r, hr, h⟩ | ⟨e, he, h | h⟩)
    · exact Or.inl h
    · exact Or.inr (Or.inl ⟨r, hr, h⟩)
    · exact Or.inr (Or.inr ⟨e, he, Or.inl h.symm⟩)
    · exact Or.inr (Or.inr ⟨e, he, Or.inr h.symm⟩)

/-- **dump ∘ load = id** on descriptions, for good names (the back translator `g` undoes the translator `f` on the names of
the description): the same final states and unary rules, the same set of nullary rules – whatever symbols they carry,
several per state included -/
theorem nfas_dump_load (f g : Nat → Nat) (d : NDesc) (hg : ∀ n, n ∈ d.names → g (f n) = n) :
    (nfasDump g (nfasLoad f d)).final = d.final ∧ (nfasDump g (nfasLoad f d)).unary = d.unary ∧
    ∀ r, r ∈ (nfasDump g (nfasLoad f d)).nullary ↔ r ∈ d.nullary := by
  obtain ⟨l1, l2, l3, l4, _⟩ := nfasLoad_spec f d
  refine ⟨?_, ?_, ?_⟩
  · show (nfasLoad f d).final.map g = _
    rw [l1, List.map_map]
    conv => rhs; rw [← List.map_id d.final]
    apply List.map_congr_left
    intro n hn
    exact hg n (NDesc.mem_names.mpr (Or.inl hn))
  · show (nfasLoad f d).trans.map _ = _
    rw [l2, List.map_map]
    conv => rhs; rw [← List.map_id d.unary]
    apply List.map_congr_left
    intro e he
    simp only [Function.comp, id]
    rw [hg e.1 (NDesc.mem_names.mpr (Or.inr (Or.inr ⟨e, he, Or.inl rfl⟩))),
      hg e.2.2 (NDesc.mem_names.mpr (Or.inr (Or.inr ⟨e, he, Or.inr rfl⟩)))]
  · intro r
    rw [mem_nfasDump_nullary]
    constructor
    · rintro ⟨s, hs, ha, hr⟩
      obtain ⟨r0, hr0, h0⟩ := (l3 s).mp hs
      have hne : (nfasLoad f d).symsOf s ≠ [] := by
        intro e
        have : r0.1 ∈ (nfasLoad f d).symsOf s := (l4 s r0.1).mpr ⟨r0, hr0, h0, rfl⟩
        rw [e] at this; cases this
      rw [NFAS.dumpSyms_of_ne_nil hne] at ha
      obtain ⟨r', hr', h1, h2⟩ := (l4 s r.1).mp ha
      have : r = r' := by
        apply Prod.ext
        · exact h2.symm
        · rw [hr, ← h1]; exact hg r'.2 (NDesc.mem_names.mpr (Or.inr (Or.inl ⟨r', hr', rfl⟩)))
      rw [this]; exact hr'
    · intro hr
      have hs : f r.2 ∈ (nfasLoad f d).start := (l3 _).mpr ⟨r, hr, rfl⟩
      have ha : r.1 ∈ (nfasLoad f d).symsOf (f r.2) := (l4 _ _).mpr ⟨r, hr, rfl, rfl⟩
      have hne : (nfasLoad f d).symsOf (f r.2) ≠ [] := by intro e; rw [e] at ha; cases ha
      refine ⟨f r.2, hs, ?_, (hg r.2 (NDesc.mem_names.mpr (Or.inr (Or.inl ⟨r, hr, rfl⟩)))).symm⟩
      rw [NFAS.dumpSyms_of_ne_nil hne]; exact ha

/-- **load ∘ dump**: for good names (`f` undoes `g` on the states) the reloaded automaton has the same final states and
transitions, the same start states, and every start state carries exactly the symbols the dump wrote for it: its own set if
that is not empty, and the single symbol `x` otherwise -/
theorem nfas_load_dump (f g : Nat → Nat) (A : NFAS) (hf : ∀ q, q ∈ nfaStates A.toNFA → f (g q) = q) :
    (nfasLoad f (nfasDump g A)).final = A.final ∧ (nfasLoad f (nfasDump g A)).trans = A.trans ∧
    (∀ q, q ∈ (nfasLoad f (nfasDump g A)).start ↔ q ∈ A.start) ∧
    (∀ q, q ∈ A.start → ∀ a, a ∈ (nfasLoad f (nfasDump g A)).symsOf q ↔ a ∈ A.dumpSyms q) := by
  obtain ⟨l1, l2, l3, l4, _⟩ := nfasLoad_spec f (nfasDump g A)
  have hst : ∀ s, s ∈ A.start → f (g s) = s := fun s hs => hf s (start_mem_nfaStates hs)
  refine ⟨?_, ?_, ?_, ?_⟩
  · rw [l1]
    show (A.final.map g).map f = _
    rw [List.map_map]
    conv => rhs; rw [← List.map_id A.final]
    apply List.map_congr_left
    intro n hn
    exact hf n (final_mem_nfaStates hn)
  · rw [l2]
    show (A.trans.map _).map _ = _
    rw [List.map_map]
    conv => rhs; rw [← List.map_id A.trans]
    apply List.map_congr_left
    intro e he
    simp only [Function.comp, id]
    rw [hf e.1 (src_mem_nfaStates (a := e.2.1) (q := e.2.2) he), hf e.2.2 (tgt_mem_nfaStates (p := e.1) (a := e.2.1) he)]
  · intro q
    rw [l3 q]
    constructor
    · rintro ⟨r, hr, h⟩
      obtain ⟨s, hs, _, h2⟩ := mem_nfasDump_nullary.mp hr
      rw [h2, hst s hs] at h
      exact h ▸ hs
    · intro hq
      obtain ⟨a, ha⟩ := List.exists_mem_of_ne_nil _ (A.dumpSyms_ne_nil q)
      exact ⟨(a, g q), mem_nfasDump_nullary.mpr ⟨q, hq, ha, rfl⟩, hst q hq⟩
  · intro q hq a
    rw [l4 q a]
    constructor
    · rintro ⟨r, hr, h1, h2⟩
      obtain ⟨s, hs, h3, h4⟩ := mem_nfasDump_nullary.mp hr
      rw [h4, hst s hs] at h1
      rw [← h2, ← h1]; exact h3
    · intro ha
      exact ⟨(a, g q), mem_nfasDump_nullary.mpr ⟨q, hq, ha, rfl⟩, hst q hq, rfl⟩

/-- … in particular: an automaton all of whose start states carry symbols is reloaded with exactly these symbols, and a
start state without symbols (`Reverse`) comes back with the symbol `x` -/
theorem nfas_load_dump_syms (f g : Nat → Nat) (A : NFAS) (hf : ∀ q, q ∈ nfaStates A.toNFA → f (g q) = q)
    {q : Nat} (hq : q ∈ A.start) :
    (A.symsOf q ≠ [] → ∀ a, a ∈ (nfasLoad f (nfasDump g A)).symsOf q ↔ a ∈ A.symsOf q) ∧
    (A.symsOf q = [] → ∀ a, a ∈ (nfasLoad f (nfasDump g A)).symsOf q ↔ a = NFAS.xSym) := by
  obtain ⟨_, _, _, h⟩ := nfas_load_dump f g A hf
  constructor
  · intro hne a; rw [h q hq a, NFAS.dumpSyms_of_ne_nil hne]
  · intro he a; rw [h q hq a, NFAS.dumpSyms_of_nil he]; simp

/-- the translator of a load with an empty dictionary (names numbered in the order of first occurrence) has a back
translator: the names are good -/
theorem nfasLoadFresh_good (d : NDesc) : ∀ n, n ∈ d.names → (fun i => d.names.getD i 0) (d.names.idxOf n) = n := by
  intro n hn
  have h1 : d.names.idxOf n < d.names.length := List.idxOf_lt_length_iff.mpr hn
  simp only [List.getD_eq_getElem?_getD, List.getElem?_eq_getElem h1, Option.getD_some]
  exact List.getElem_idxOf h1

theorem nfas_dump_loadFresh (d : NDesc) :
    (nfasDump (fun i => d.names.getD i 0) (nfasLoadFresh d)).final = d.final ∧
    (nfasDump (fun i => d.names.getD i 0) (nfasLoadFresh d)).unary = d.unary ∧
    ∀ r, r ∈ (nfasDump (fun i => d.names.getD i 0) (nfasLoadFresh d)).nullary ↔ r ∈ d.nullary :=
  nfas_dump_load _ _ d (nfasLoadFresh_good d)

/-! ## (4) histories -/

/-! ### (4a) every start state has an entry: `GetStartSymbols` on a start state (the dump, `ReindexStates`, `Intersection`,
`GetCandidateTree` call it) is never undefined -/

/-- every start state has an entry in the map -/
def KeysCover (A : NFAS) : Prop := ∀ q, q ∈ A.start → smHas A.startSyms q = true

/-- the values a history of the operations of the class can produce (copy construction, assignment and moves are the
identity on values).  `prod` is `Intersection` for whatever set of pairs the exploration found and whatever numbering it
used; `reorder` lists the start states in another order (the model reads the lists as sets). -/
inductive NfasHist : NFAS → Prop
  | build (tr : List (Nat × Nat × Nat)) (sp : List (Nat × Nat)) (fi : List Nat) : NfasHist (nfasBuild tr sp fi)
  | load (f : Nat → Nat) (d : NDesc) : NfasHist (nfasLoad f d)
  | addTrans {A : NFAS} (p a q : Nat) : NfasHist A → NfasHist (nfasAddTrans A p a q)
  | setFinal {A : NFAS} (q : Nat) : NfasHist A → NfasHist (nfasSetFinal A q)
  | setStart {A : NFAS} (q a : Nat) : NfasHist A → NfasHist (nfasSetStart A q a)
  | setExistingStart {A : NFAS} (q : Nat) (S : List Nat) : NfasHist A → NfasHist (nfasSetExistingStart A q S)
  | map {A : NFAS} (f : Nat → Nat) : NfasHist A → NfasHist (nfasMap f A)
  | unionWith {A B : NFAS} (fA fB : Nat → Nat) : NfasHist A → NfasHist B → NfasHist (nfasUnionWith fA fB A B)
  | unionDisjoint {A B : NFAS} : NfasHist A → NfasHist B → NfasHist (nfasUnionDisjoint A B)
  | reverse {A : NFAS} : NfasHist A → NfasHist (nfasReverse A)
  | removeUnreachable {A : NFAS} : NfasHist A → NfasHist (nfasRemoveUnreachable A)
  | removeUseless {A : NFAS} : NfasHist A → NfasHist (nfasRemoveUseless A)
  | prod {A B : NFAS} (D : List (Nat × Nat)) (m : Nat × Nat → Nat) : NfasHist A → NfasHist B →
      NfasHist (nfasRemoveUseless (nfasProdOn A B D m))
  | candidate {A : NFAS} : NfasHist A → NfasHist (nfasCandidate A)
  | reorder {A : NFAS} (so : List Nat) : (∀ q, q ∈ so ↔ q ∈ A.start) → NfasHist A →
      NfasHist ⟨⟨so, A.final, A.trans⟩, A.startSyms⟩

theorem NfasHist.intersection {A B : NFAS} (hA : NfasHist A) (hB : NfasHist B) {fuel : Nat} {P : NFAS}
    (h : nfasIntersection A B fuel = some P) : NfasHist P := by
  simp only [nfasIntersection] at h
  split at h
  · cases h; exact .prod _ _ hA hB
  · cases h

theorem keysCover_addStarts (L : List (Nat × Nat)) (A : NFAS) (h : KeysCover A) : KeysCover (nfasAddStarts A L) := by
  obtain ⟨_, _, h3, _, h5⟩ := nfasAddStarts_spec L A
  intro q hq
  rcases (h3 q).mp hq with h' | h'
  · exact (h5 q).mpr (Or.inl (h q h'))
  · exact (h5 q).mpr (Or.inr h')

theorem keysCover_reverse (A : NFAS) : KeysCover (nfasReverse A) := by
  intro q hq
  rw [nfasReverse_has]
  have : A.final.contains q = true := List.contains_iff_mem.mpr hq
  rw [this, Bool.or_true]

/-- **in every history every start state has an entry** -/
theorem nfas_history_keys {A : NFAS} (h : NfasHist A) : KeysCover A := by
  induction h with
  | build tr sp fi =>
    obtain ⟨f1, _, f3, _⟩ := nfasSetFinals_spec fi (nfasAddStarts ⟨⟨[], [], tr⟩, []⟩ sp)
    intro q hq
    have e : nfasBuild tr sp fi = fi.foldl nfasSetFinal (nfasAddStarts ⟨⟨[], [], tr⟩, []⟩ sp) := rfl
    rw [e] at hq ⊢
    rw [f1] at hq; rw [f3]
    exact keysCover_addStarts sp _ (fun _ h => by cases h) q hq
  | load f d =>
    rw [nfasLoad_eq]
    exact keysCover_addStarts _ _ (fun _ h => by cases h)
  | addTrans p a q _ ih => exact ih
  | setFinal q _ ih => exact ih
  | @setStart A q a _ ih =>
    intro q' hq'
    show smHas (smAddSym A.startSyms q a) q' = true
    rw [smHas_smAddSym]
    rcases mem_insN.mp hq' with h | h
    · rw [ih q' h, Bool.or_true]
    · simp [h]
  | @setExistingStart A q S _ ih =>
    intro q' hq'
    show smHas (smInsert A.startSyms q S) q' = true
    rw [smHas_smInsert]
    rcases mem_insN.mp hq' with h | h
    · rw [ih q' h, Bool.true_or]
    · simp [h]
  | @map A f _ _ =>
    intro t ht
    obtain ⟨s, hs, rfl⟩ := mem_nfasMap_start.mp ht
    exact (smHas_map_pairs f _ _ _).mpr ⟨s, hs, rfl⟩
  | @unionWith A B fA fB _ _ _ _ =>
    intro t ht
    show smHas (nfasMapSyms fA A ++ nfasMapSyms fB B) t = true
    rw [smHas_append, Bool.or_eq_true]
    rcases mem_nfasUnionWith_start.mp ht with ⟨s, hs, rfl⟩ | ⟨s, hs, rfl⟩
    · exact Or.inl ((smHas_map_pairs fA _ _ _).mpr ⟨s, hs, rfl⟩)
    · exact Or.inr ((smHas_map_pairs fB _ _ _).mpr ⟨s, hs, rfl⟩)
  | @unionDisjoint A B _ _ ihA ihB =>
    intro q hq
    show smHas (A.startSyms ++ B.startSyms) q = true
    rw [smHas_append, Bool.or_eq_true]
    rcases mem_nfasUnionDisjoint_start.mp hq with h | h
    · exact Or.inl (ihA q h)
    · exact Or.inr (ihB q h)
  | reverse _ _ => exact keysCover_reverse _
  | @removeUnreachable A _ ih =>
    intro q hq
    exact ih q (by rw [← nfaRemoveUnreachable_start A.toNFA]; exact hq)
  | removeUseless _ _ => exact keysCover_reverse _
  | prod D m _ _ _ _ => exact keysCover_reverse _
  | candidate _ _ => exact keysCover_reverse _
  | reorder so hso _ ih => intro q hq; exact ih q ((hso q).mp hq)

/-! ### (4b) every start state has a NON-EMPTY set – unless `Reverse` made it a start state -/

/-- every start state carries at least one start symbol -/
def StartsNonempty (A : NFAS) : Prop := ∀ q, q ∈ A.start → A.symsOf q ≠ []

/-- the histories WITHOUT a `Reverse` call of the user, in which the three writers that see the whole map are used where
they cannot hit a stale entry: `SetExistingStateStart` with a non-empty set on a state without entry,
`UnionDisjointStates` where no start state of the right operand has a stale entry in the left one.
(`RemoveUselessStates`, `Intersection` and `GetCandidateTree` call `Reverse` internally – twice – and are included.) -/
inductive NfasHistNR : NFAS → Prop
  | build (tr : List (Nat × Nat × Nat)) (sp : List (Nat × Nat)) (fi : List Nat) : NfasHistNR (nfasBuild tr sp fi)
  | load (f : Nat → Nat) (d : NDesc) : NfasHistNR (nfasLoad f d)
  | addTrans {A : NFAS} (p a q : Nat) : NfasHistNR A → NfasHistNR (nfasAddTrans A p a q)
  | setFinal {A : NFAS} (q : Nat) : NfasHistNR A → NfasHistNR (nfasSetFinal A q)
  | setStart {A : NFAS} (q a : Nat) : NfasHistNR A → NfasHistNR (nfasSetStart A q a)
  | setExistingStart {A : NFAS} (q : Nat) (S : List Nat) : S ≠ [] → smHas A.startSyms q = false → NfasHistNR A →
      NfasHistNR (nfasSetExistingStart A q S)
  | map {A : NFAS} (f : Nat → Nat) : NfasHistNR A → NfasHistNR (nfasMap f A)
  | unionWith {A B : NFAS} (fA fB : Nat → Nat) : NfasHistNR A → NfasHistNR B → NfasHistNR (nfasUnionWith fA fB A B)
  | unionDisjoint {A B : NFAS} : (∀ q, q ∈ B.start → smHas A.startSyms q = true → q ∈ A.start) →
      NfasHistNR A → NfasHistNR B → NfasHistNR (nfasUnionDisjoint A B)
  | removeUnreachable {A : NFAS} : NfasHistNR A → NfasHistNR (nfasRemoveUnreachable A)
  | removeUseless {A : NFAS} : NfasHistNR A → NfasHistNR (nfasRemoveUseless A)
  | prod {A B : NFAS} (D : List (Nat × Nat)) (m : Nat × Nat → Nat) : NfasHistNR A → NfasHistNR B →
      NfasHistNR (nfasRemoveUseless (nfasProdOn A B D m))
  | candidate {A : NFAS} : NfasHistNR A → NfasHistNR (nfasCandidate A)
  | reorder {A : NFAS} (so : List Nat) : (∀ q, q ∈ so ↔ q ∈ A.start) → NfasHistNR A →
      NfasHistNR ⟨⟨so, A.final, A.trans⟩, A.startSyms⟩

theorem NfasHistNR.toHist {A : NFAS} (h : NfasHistNR A) : NfasHist A := by
  induction h with
  | build tr sp fi => exact .build tr sp fi
  | load f d => exact .load f d
  | addTrans p a q _ ih => exact .addTrans p a q ih
  | setFinal q _ ih => exact .setFinal q ih
  | setStart q a _ ih => exact .setStart q a ih
  | setExistingStart q S _ _ _ ih => exact .setExistingStart q S ih
  | map f _ ih => exact .map f ih
  | unionWith fA fB _ _ ihA ihB => exact .unionWith fA fB ihA ihB
  | unionDisjoint _ _ _ ihA ihB => exact .unionDisjoint ihA ihB
  | removeUnreachable _ ih => exact .removeUnreachable ih
  | removeUseless _ ih => exact .removeUseless ih
  | prod D m _ _ ihA ihB => exact .prod D m ihA ihB
  | candidate _ ih => exact .candidate ih
  | reorder so hso _ ih => exact .reorder so hso ih

theorem NfasHistNR.intersection {A B : NFAS} (hA : NfasHistNR A) (hB : NfasHistNR B) {fuel : Nat} {P : NFAS}
    (h : nfasIntersection A B fuel = some P) : NfasHistNR P := by
  simp only [nfasIntersection] at h
  split at h
  · cases h; exact .prod _ _ hA hB
  · cases h

theorem mapSyms_nonempty (f : Nat → Nat) (A : NFAS) (hA : StartsNonempty A) {t : Nat}
    (h : smHas (nfasMapSyms f A) t = true) : smGet (nfasMapSyms f A) t ≠ [] := by
  obtain ⟨s, hs, _, he⟩ := smGet_map_pairs_exists f (fun s => A.symsOf s) A.start t ((smHas_map_pairs f _ _ _).mp h)
  show smGet (A.start.map fun s => (f s, A.symsOf s)) t ≠ []
  rw [he]; exact hA s hs

/-- **in every history without a `Reverse` call (and without hitting a stale entry) every start state carries at least one
start symbol** -/
theorem nfas_history_nonempty {A : NFAS} (h : NfasHistNR A) : StartsNonempty A := by
  induction h with
  | build tr sp fi =>
    obtain ⟨_, _, h3, h4⟩ := nfasBuild_spec tr sp fi
    intro q hq e
    obtain ⟨a, ha⟩ := (h3 q).mp hq
    have := (h4 q a).mpr ha
    rw [e] at this; cases this
  | load f d =>
    obtain ⟨_, _, h3, h4, _⟩ := nfasLoad_spec f d
    intro q hq e
    obtain ⟨r, hr, h1⟩ := (h3 q).mp hq
    have := (h4 q r.1).mpr ⟨r, hr, h1, rfl⟩
    rw [e] at this; cases this
  | addTrans p a q _ ih => exact ih
  | setFinal q _ ih => exact ih
  | @setStart A q a _ ih =>
    intro q' hq'
    rw [nfasSetStart_symsOf]
    by_cases h : q' = q
    · rw [if_pos h]; exact insN_ne_nil _ _
    · rw [if_neg h]
      exact ih q' ((mem_insN.mp hq').resolve_right h)
  | @setExistingStart A q S hS hk _ ih =>
    intro q' hq'
    rw [nfasSetExistingStart_symsOf]
    by_cases h : q' = q
    · rw [if_pos ⟨hk, h⟩]; exact hS
    · rw [if_neg (fun c => h c.2)]
      exact ih q' ((mem_insN.mp hq').resolve_right h)
  | @map A f _ ih =>
    intro t ht
    obtain ⟨s, hs, rfl⟩ := mem_nfasMap_start.mp ht
    exact mapSyms_nonempty f A ih ((smHas_map_pairs f _ _ _).mpr ⟨s, hs, rfl⟩)
  | @unionWith A B fA fB _ _ ihA ihB =>
    intro t ht
    show smGet (nfasMapSyms fA A ++ nfasMapSyms fB B) t ≠ []
    by_cases hl : smHas (nfasMapSyms fA A) t = true
    · rw [smGet_append_of_has hl]; exact mapSyms_nonempty fA A ihA hl
    · simp only [Bool.not_eq_true] at hl
      rw [smGet_append_of_not_has hl]
      rcases mem_nfasUnionWith_start.mp ht with ⟨s, hs, rfl⟩ | ⟨s, hs, rfl⟩
      · have hh : smHas (nfasMapSyms fA A) (fA s) = true := (smHas_map_pairs fA _ _ _).mpr ⟨s, hs, rfl⟩
        rw [hh] at hl; cases hl
      · exact mapSyms_nonempty fB B ihB ((smHas_map_pairs fB _ _ _).mpr ⟨s, hs, rfl⟩)
  | @unionDisjoint A B hcl hA _ ihA ihB =>
    intro q hq
    rw [nfasUnionDisjoint_symsOf]
    by_cases hk : smHas A.startSyms q = true
    · rw [if_pos hk]
      rcases mem_nfasUnionDisjoint_start.mp hq with h | h
      · exact ihA q h
      · exact ihA q (hcl q h hk)
    · rw [if_neg hk]
      rcases mem_nfasUnionDisjoint_start.mp hq with h | h
      · exact absurd (nfas_history_keys hA.toHist q h) hk
      · exact ihB q h
  | @removeUnreachable A _ ih =>
    intro q hq
    exact ih q (by rw [← nfaRemoveUnreachable_start A.toNFA]; exact hq)
  | @removeUseless A _ ih =>
    intro q hq
    rw [nfasRemoveUseless_symsOf]
    exact ih q ((mem_nfaRemoveUseless_start A.toNFA q).mp hq).1
  | @prod A B D m _ _ ihA _ =>
    intro t ht
    rw [nfasRemoveUseless_symsOf]
    have h1 := ((mem_nfaRemoveUseless_start (nfasProdOn A B D m).toNFA t).mp ht).1
    have h2 : ∃ p, p ∈ nfaStartPairs A.toNFA B.toNFA ∧ m p = t :=
      List.mem_map.mp (show t ∈ (nfaStartPairs A.toNFA B.toNFA).map m from h1)
    obtain ⟨p, hp, _, he⟩ := smGet_map_pairs_exists m (fun p : Nat × Nat => A.symsOf p.1 ++ B.symsOf p.2) _ t h2
    show smGet (nfasProdSyms A B m) t ≠ []
    unfold nfasProdSyms
    rw [he]
    exact List.append_ne_nil_of_left_ne_nil (ihA p.1 (mem_nfaStartPairs.mp hp).1) _
  | @candidate A _ ih =>
    intro s hs
    obtain ⟨h1, h2⟩ := nfasCandidate_start_syms A hs
    rw [h2]; exact ih s h1
  | reorder so hso _ ih => intro q hq; exact ih q ((hso q).mp hq)

/-- what `Reverse` does to non-emptiness: a new start state has an empty set exactly when the map of the operand holds
nothing (or an empty set) for it -/
theorem nfasReverse_empty_iff (A : NFAS) (q : Nat) : (nfasReverse A).symsOf q = [] ↔ A.symsOf q = [] := by
  rw [nfasReverse_symsOf]

/-! ### (4c) what is observable after the operations that start from a fresh map depends only on what was observable -/

/-- the same automaton and the same symbols at every start state (the rest of the map – the stale entries – may differ) -/
def ObsEq (A B : NFAS) : Prop := A.toNFA = B.toNFA ∧ ∀ q, q ∈ A.start → A.symsOf q = B.symsOf q

theorem ObsEq.refl (A : NFAS) : ObsEq A A := ⟨rfl, fun _ _ => rfl⟩
theorem ObsEq.symm {A B : NFAS} (h : ObsEq A B) : ObsEq B A := ⟨h.1.symm, fun q hq => (h.2 q (by rw [h.1]; exact hq)).symm⟩
theorem ObsEq.trans {A B C : NFAS} (h : ObsEq A B) (h' : ObsEq B C) : ObsEq A C :=
  ⟨h.1.trans h'.1, fun q hq => (h.2 q hq).trans (h'.2 q (by rw [← h.1]; exact hq))⟩

theorem ObsEq.start {A B : NFAS} (h : ObsEq A B) : A.start = B.start := congrArg NFA.start h.1
theorem ObsEq.final {A B : NFAS} (h : ObsEq A B) : A.final = B.final := congrArg NFA.final h.1
theorem ObsEq.trans' {A B : NFAS} (h : ObsEq A B) : A.trans = B.trans := congrArg NFA.trans h.1

theorem smFind_filter (m : SymMap) (P : Nat → Bool) (q : Nat) :
    smFind (m.filter (fun e => P e.1)) q = if P q = true then smFind m q else none := by
  induction m with
  | nil => simp [smFind]
  | cons e r ih =>
    simp only [List.filter_cons]
    by_cases he : P e.1 = true
    · simp only [he, if_true, smFind]
      by_cases hq : e.1 = q
      · subst hq; simp [he]
      · simp only [hq, if_false, ih]
    · simp only [he, if_false, smFind, ih, Bool.false_eq_true]
      by_cases hq : e.1 = q
      · subst hq; simp [he]
      · simp [hq]

/-- dropping the stale entries changes nothing observable -/
theorem obsEq_clean (A : NFAS) : ObsEq A A.clean := by
  refine ⟨rfl, fun q hq => ?_⟩
  show smGet A.startSyms q = smGet (A.startSyms.filter (fun e => A.start.contains e.1)) q
  unfold smGet
  rw [smFind_filter, if_pos (List.contains_iff_mem.mpr hq)]

theorem obsEq_reorder {A : NFAS} (so : List Nat) (hso : ∀ q, q ∈ so ↔ q ∈ A.start) {B : NFAS} (h : ObsEq A B) :
    ObsEq ⟨⟨so, A.final, A.trans⟩, A.startSyms⟩ ⟨⟨so, B.final, B.trans⟩, B.startSyms⟩ :=
  ⟨by rw [h.final, h.trans'], fun q hq => h.2 q ((hso q).mp hq)⟩

theorem obsEq_addTrans {A B : NFAS} (h : ObsEq A B) (p a q : Nat) : ObsEq (nfasAddTrans A p a q) (nfasAddTrans B p a q) :=
  ⟨by simp only [nfasAddTrans_toNFA, h.start, h.final, h.trans'], fun s hs => h.2 s hs⟩

theorem obsEq_setFinal {A B : NFAS} (h : ObsEq A B) (q : Nat) : ObsEq (nfasSetFinal A q) (nfasSetFinal B q) :=
  ⟨by simp only [nfasSetFinal_toNFA, h.start, h.final, h.trans'], fun s hs => h.2 s hs⟩

/-- `ReindexStates` reads the entries of the start states only: the result is THE SAME, hidden part included -/
theorem nfasMap_congr {A B : NFAS} (h : ObsEq A B) (f : Nat → Nat) : nfasMap f A = nfasMap f B := by
  unfold nfasMap nfasMapSyms
  rw [h.1]
  congr 1
  rw [← h.start]
  exact List.map_congr_left (fun s hs => by rw [h.2 s hs])

theorem nfasUnionWith_congr {A A' B B' : NFAS} (hA : ObsEq A A') (hB : ObsEq B B') (fA fB : Nat → Nat) :
    nfasUnionWith fA fB A B = nfasUnionWith fA fB A' B' := by
  have h1 := congrArg NFAS.startSyms (nfasMap_congr hA fA)
  have h2 := congrArg NFAS.startSyms (nfasMap_congr hB fB)
  unfold nfasUnionWith
  rw [hA.1, hB.1]
  congr 1
  show (nfasMap fA A).startSyms ++ (nfasMap fB B).startSyms = (nfasMap fA A').startSyms ++ (nfasMap fB B').startSyms
  rw [h1, h2]

theorem nfasProdOn_congr {A A' B B' : NFAS} (hA : ObsEq A A') (hB : ObsEq B B') (D : List (Nat × Nat))
    (m : Nat × Nat → Nat) : nfasProdOn A B D m = nfasProdOn A' B' D m := by
  unfold nfasProdOn nfasProdSyms
  rw [← hA.1, ← hB.1]
  congr 1
  apply List.map_congr_left
  intro p hp
  rw [hA.2 p.1 (mem_nfaStartPairs.mp hp).1, hB.2 p.2 (mem_nfaStartPairs.mp hp).2]

theorem nfasIntersection_congr {A A' B B' : NFAS} (hA : ObsEq A A') (hB : ObsEq B B') (fuel : Nat) :
    nfasIntersection A B fuel = nfasIntersection A' B' fuel := by
  unfold nfasIntersection
  simp only [← hA.1, ← hB.1, nfasProdOn_congr hA hB]

theorem nfasCandidate_congr {A B : NFAS} (h : ObsEq A B) : nfasCandidate A = nfasCandidate B := by
  unfold nfasCandidate nfasCandidateRaw
  rw [← h.1]
  congr 2
  apply List.map_congr_left
  intro q hq
  rw [h.2 q ((nfaCandidateRaw_sub A.toNFA).1 q hq)]

theorem nfasDump_congr {A B : NFAS} (h : ObsEq A B) (g : Nat → Nat) : nfasDump g A = nfasDump g B := by
  unfold nfasDump
  rw [← h.start, ← h.final, ← h.trans']
  congr 1
  have : ∀ l : List Nat, (∀ s, s ∈ l → s ∈ A.start) →
      l.flatMap (fun s => (A.dumpSyms s).map (fun a => (a, g s))) = l.flatMap (fun s => (B.dumpSyms s).map (fun a => (a, g s))) := by
    intro l
    induction l with
    | nil => intro _; rfl
    | cons x r ih =>
      intro hl
      simp only [List.flatMap_cons]
      rw [ih (fun s hs => hl s (List.mem_cons_of_mem _ hs))]
      have : A.dumpSyms x = B.dumpSyms x := by
        unfold NFAS.dumpSyms; rw [h.2 x (hl x List.mem_cons_self)]
      rw [this]
  exact this A.start (fun _ h => h)

theorem obsEq_removeUnreachable {A B : NFAS} (h : ObsEq A B) : ObsEq (nfasRemoveUnreachable A) (nfasRemoveUnreachable B) :=
  ⟨by rw [nfasRemoveUnreachable_toNFA, nfasRemoveUnreachable_toNFA, h.1],
    fun q hq => h.2 q (by rw [← nfaRemoveUnreachable_start A.toNFA]; exact hq)⟩

theorem obsEq_removeUseless {A B : NFAS} (h : ObsEq A B) : ObsEq (nfasRemoveUseless A) (nfasRemoveUseless B) :=
  ⟨by rw [nfasRemoveUseless_toNFA, nfasRemoveUseless_toNFA, h.1], fun q hq => by
    rw [nfasRemoveUseless_symsOf, nfasRemoveUseless_symsOf]
    exact h.2 q ((mem_nfaRemoveUseless_start A.toNFA q).mp hq).1⟩

/-- pairs of values obtained by the same sequence of stale-blind operations from observably equal values -/
inductive ObsHist : NFAS → NFAS → Prop
  | base {A B : NFAS} : ObsEq A B → ObsHist A B
  | addTrans {A B : NFAS} (p a q : Nat) : ObsHist A B → ObsHist (nfasAddTrans A p a q) (nfasAddTrans B p a q)
  | setFinal {A B : NFAS} (q : Nat) : ObsHist A B → ObsHist (nfasSetFinal A q) (nfasSetFinal B q)
  | map {A B : NFAS} (f : Nat → Nat) : ObsHist A B → ObsHist (nfasMap f A) (nfasMap f B)
  | unionWith {A A' B B' : NFAS} (fA fB : Nat → Nat) : ObsHist A A' → ObsHist B B' →
      ObsHist (nfasUnionWith fA fB A B) (nfasUnionWith fA fB A' B')
  | removeUnreachable {A B : NFAS} : ObsHist A B → ObsHist (nfasRemoveUnreachable A) (nfasRemoveUnreachable B)
  | removeUseless {A B : NFAS} : ObsHist A B → ObsHist (nfasRemoveUseless A) (nfasRemoveUseless B)
  | prod {A A' B B' : NFAS} (D : List (Nat × Nat)) (m : Nat × Nat → Nat) : ObsHist A A' → ObsHist B B' →
      ObsHist (nfasRemoveUseless (nfasProdOn A B D m)) (nfasRemoveUseless (nfasProdOn A' B' D m))
  | candidate {A B : NFAS} : ObsHist A B → ObsHist (nfasCandidate A) (nfasCandidate B)
  | reorder {A B : NFAS} (so : List Nat) : (∀ q, q ∈ so ↔ q ∈ A.start) → ObsHist A B →
      ObsHist ⟨⟨so, A.final, A.trans⟩, A.startSyms⟩ ⟨⟨so, B.final, B.trans⟩, B.startSyms⟩

/-- **no entry of a non-start state is observable** through `AddTransition`, `SetStateFinal`, `ReindexStates`, `Union`,
`RemoveUnreachableStates`, `RemoveUselessStates`, `Intersection`, `GetCandidateTree` (and the dump, `nfasDump_congr`):
whatever sequence of them is applied to values that look the same, the results look the same – in particular to a value
and to the same value with its stale entries dropped (`obsEq_clean`) -/
theorem nfas_history_stale_unobservable {A B : NFAS} (h : ObsHist A B) : ObsEq A B := by
  induction h with
  | base h => exact h
  | addTrans p a q _ ih => exact obsEq_addTrans ih p a q
  | setFinal q _ ih => exact obsEq_setFinal ih q
  | map f _ ih => rw [nfasMap_congr ih f]; exact ObsEq.refl _
  | unionWith fA fB _ _ ihA ihB => rw [nfasUnionWith_congr ihA ihB fA fB]; exact ObsEq.refl _
  | removeUnreachable _ ih => exact obsEq_removeUnreachable ih
  | removeUseless _ ih => exact obsEq_removeUseless ih
  | prod D m _ _ ihA ihB => rw [nfasProdOn_congr ihA ihB D m]; exact ObsEq.refl _
  | candidate _ ih => rw [nfasCandidate_congr ih]; exact ObsEq.refl _
  | reorder so hso _ ih => exact obsEq_reorder so hso ih

/-! the three writers that DO see stale entries are congruent only where no stale entry is hit -/

theorem obsEq_setStart {A B : NFAS} (h : ObsEq A B) (q a : Nat)
    (hA : q ∈ A.start ∨ smHas A.startSyms q = false) (hB : q ∈ B.start ∨ smHas B.startSyms q = false) :
    ObsEq (nfasSetStart A q a) (nfasSetStart B q a) := by
  refine ⟨by simp only [nfasSetStart_toNFA, h.start, h.final, h.trans'], fun q' hq' => ?_⟩
  rw [nfasSetStart_symsOf, nfasSetStart_symsOf]
  by_cases e : q' = q
  · rw [if_pos e, if_pos e]
    by_cases hq : q ∈ A.start
    · rw [h.2 q hq]
    · have hq' : q ∉ B.start := by rw [← h.start]; exact hq
      rw [NFAS.symsOf, NFAS.symsOf, smGet_eq_nil_of_not_has (hA.resolve_left hq),
        smGet_eq_nil_of_not_has (hB.resolve_left hq')]
  · rw [if_neg e, if_neg e]
    exact h.2 q' ((mem_insN.mp hq').resolve_right e)

theorem obsEq_setExistingStart {A B : NFAS} (h : ObsEq A B) (q : Nat) (S : List Nat)
    (hA : smHas A.startSyms q = false) (hB : smHas B.startSyms q = false) :
    ObsEq (nfasSetExistingStart A q S) (nfasSetExistingStart B q S) := by
  refine ⟨by simp only [nfasSetExistingStart_toNFA, h.start, h.final, h.trans'], fun q' hq' => ?_⟩
  rw [nfasSetExistingStart_symsOf, nfasSetExistingStart_symsOf]
  by_cases e : q' = q
  · rw [if_pos ⟨hA, e⟩, if_pos ⟨hB, e⟩]
  · rw [if_neg (fun c => e c.2), if_neg (fun c => e c.2)]
    exact h.2 q' ((mem_insN.mp hq').resolve_right e)

theorem obsEq_unionDisjoint {A A' B B' : NFAS} (hA : ObsEq A A') (hB : ObsEq B B') (kA : KeysCover A) (kA' : KeysCover A')
    (hcl : ∀ q, q ∈ B.start → smHas A.startSyms q = true → q ∈ A.start)
    (hcl' : ∀ q, q ∈ B'.start → smHas A'.startSyms q = true → q ∈ A'.start) :
    ObsEq (nfasUnionDisjoint A B) (nfasUnionDisjoint A' B') := by
  refine ⟨by rw [nfasUnionDisjoint_toNFA, nfasUnionDisjoint_toNFA, hA.1, hB.1], fun q hq => ?_⟩
  rw [nfasUnionDisjoint_symsOf, nfasUnionDisjoint_symsOf]
  by_cases hq1 : q ∈ A.start
  · have hq1' : q ∈ A'.start := by rw [← hA.start]; exact hq1
    rw [if_pos (kA q hq1), if_pos (kA' q hq1')]; exact hA.2 q hq1
  · have hq2 : q ∈ B.start := (mem_nfasUnionDisjoint_start.mp hq).resolve_left hq1
    have hq1' : q ∉ A'.start := by rw [← hA.start]; exact hq1
    have hq2' : q ∈ B'.start := by rw [← hB.start]; exact hq2
    have n1 : ¬ smHas A.startSyms q = true := fun c => hq1 (hcl q hq2 c)
    have n2 : ¬ smHas A'.startSyms q = true := fun c => hq1' (hcl' q hq2' c)
    rw [if_neg n1, if_neg n2]; exact hB.2 q hq2

/-! ### which entries exist after `RemoveUselessStates` (how stale entries arise) -/

/-- the entries after `RemoveUselessStates`: the old ones – of removed states too – and one for every final state of the
result (left by the inner `Reverse`) -/
theorem nfasRemoveUseless_has (A : NFAS) (hk : KeysCover A) (q : Nat) :
    smHas (nfasRemoveUseless A).startSyms q = (smHas A.startSyms q || (nfasRemoveUseless A).final.contains q) := by
  have e1 : (nfasRemoveUseless A).final.contains q = (nfaRemoveUnreachable A.toNFA).final.contains q := by
    rw [Bool.eq_iff_iff]
    simp only [List.contains_iff_mem]
    rw [show (nfasRemoveUseless A).final = (nfaRemoveUseless A.toNFA).final from rfl, mem_nfaRemoveUseless_final,
      mem_nfaRemoveUnreachable_final]
    exact Iff.rfl
  unfold nfasRemoveUseless
  rw [nfasReverse_has]
  show (smHas (nfasReverse (nfasRemoveUnreachable A)).startSyms q ||
    (nfaRemoveUnreachable (nfaReverse (nfaRemoveUnreachable A.toNFA))).final.contains q) = _
  rw [nfasReverse_has]
  show ((smHas A.startSyms q || (nfaRemoveUnreachable A.toNFA).final.contains q) || _) = _
  rw [show (nfasReverse (nfasRemoveUnreachable (nfasReverse (nfasRemoveUnreachable A)))).final.contains q =
    (nfasRemoveUseless A).final.contains q from rfl, e1]
  cases h : (nfaRemoveUnreachable (nfaReverse (nfaRemoveUnreachable A.toNFA))).final.contains q with
  | false => simp
  | true =>
    have hq : q ∈ (nfaRemoveUseless A.toNFA).start := List.contains_iff_mem.mp h
    rw [hk q ((mem_nfaRemoveUseless_start A.toNFA q).mp hq).1]
    simp

/-- the map of the witness, read as a function, is the map written for the start states scanned – whichever accepting
path the search finds – and its entries are those plus one for the final state found -/
theorem nfasCandidate_symsOf_raw (A : NFAS) (q : Nat) :
    (nfasCandidate A).symsOf q = (nfasCandidateRaw A).symsOf q ∧
    smHas (nfasCandidate A).startSyms q =
      (smHas (nfasCandidateRaw A).startSyms q || (nfasCandidate A).final.contains q) := by
  refine ⟨nfasRemoveUseless_symsOf _ q, nfasRemoveUseless_has _ ?_ q⟩
  intro s hs
  exact (smHas_map_pairs (fun q => q) _ _ _).mpr ⟨s, hs, rfl⟩

/-! ## examples (non-vacuity, and the stale entries at work) -/
namespace NfaSEx

/-- two start states, 0 with the symbols x0, x1 (8, 9) and 3 with x2; 0 -a0-> 1 -a1-> 2, final 2 and 3 -/
def exA : NFAS := nfasBuild [(0, 0, 1), (1, 1, 2)] [(0, 8), (3, 10), (0, 9)] [2, 3]
/-- one start state with x3, a loop -/
def exB : NFAS := nfasBuild [(0, 0, 0), (0, 1, 0)] [(0, 11)] [0]

example : exA.start = [0, 3] ∧ exA.symsOf 0 = [8, 9] ∧ exA.symsOf 3 = [10] ∧ exA.startSyms = [(0, [8, 9]), (3, [10])] := by
  decide

-- (1) toNFA commutes, the language is that of the automaton without symbols
example : (nfasReverse exA).toNFA = nfaReverse exA.toNFA := rfl
example : acceptsW (nfasReverse exA).toNFA [1, 0] = true := by decide

-- (2) Reverse: the new start states 2 (no entry: nothing) and 3 (was a start state: keeps x2); the entry of 0 is stale
example : (nfasReverse exA).start = [2, 3] ∧ (nfasReverse exA).symsOf 2 = [] ∧ (nfasReverse exA).symsOf 3 = [10] ∧
    (nfasReverse exA).startSyms = [(0, [8, 9]), (3, [10]), (2, [])] := by decide
-- … and the dump writes `x` (12) for state 2
example : (nfasDump id (nfasReverse exA)).nullary = [(12, 2), (10, 3)] := by decide
-- Reverse twice: the symbols are back
example : (nfasReverse (nfasReverse exA)).start = [0, 3] ∧ (nfasReverse (nfasReverse exA)).symsOf 0 = [8, 9] := by decide

-- RemoveUselessStates keeps the symbols of the start states that survive; its map has grown by the final states
example : (nfasRemoveUseless exA).start = [0, 3] ∧ (nfasRemoveUseless exA).symsOf 0 = [8, 9] ∧
    (nfasRemoveUseless exA).startSyms = [(0, [8, 9]), (3, [10]), (2, [])] := by decide

-- Union (numbering of `nfasUnion`): images carry the symbols
example : (nfasUnion exA exB).start = [0, 1, 4] ∧ (nfasUnion exA exB).symsOf 0 = [8, 9] ∧
    (nfasUnion exA exB).symsOf 1 = [10] ∧ (nfasUnion exA exB).symsOf 4 = [11] := by decide
example : ∀ p, p ∈ exA.start → (fun q => (nfaStateList exA.toNFA).idxOf q) p = (fun q => (nfaStateList exA.toNFA).idxOf q) 0 →
    p = 0 := by decide

-- Intersection: the product start state of (0, 0) carries x0, x1 and x3; the pair (3, 0) is a start state too (3 is final, 0 is final)
example : (nfasIsect exA exB).start = [0, 1] ∧ (nfasIsect exA exB).symsOf 0 = [8, 9, 11] ∧
    (nfasIsect exA exB).symsOf 1 = [10, 11] := by decide
example : (nfasIntersection exA exB 5).isSome = true := by decide

-- GetCandidateTree: start state 3 is final – the witness is that state with its symbol
example : (nfasCandidate exA).start = [3] ∧ (nfasCandidate exA).symsOf 3 = [10] := by decide

-- (3) dump / load
example : (nfasDump id exA).nullary = [(8, 0), (9, 0), (10, 3)] := by decide
example : ∀ n, n ∈ (nfasDump id exA).names → id (id n) = n := fun _ _ => rfl
example : nfasObsEqB (nfasLoad id (nfasDump id exA)) exA = true := by decide
example : ∀ q, q ∈ nfaStates exA.toNFA → id (id q) = q := fun _ _ => rfl
-- a start state without symbols is reloaded with `x`
example : (nfasLoad id (nfasDump id (nfasReverse exA))).symsOf 2 = [12] := by decide
-- a fresh dictionary numbers the names 2, 3, 0, 1 (final states first) by 0, 1, 2, 3
example : (nfasDump id exA).names = [2, 3, 0, 1] ∧ (nfasLoadFresh (nfasDump id exA)).start = [2, 1] ∧
    (nfasLoadFresh (nfasDump id exA)).symsOf 2 = [8, 9] ∧ (nfasLoadFresh (nfasDump id exA)).symsOf 1 = [10] := by decide

-- (4) histories
example : NfasHist (nfasSetStart (nfasReverse exA) 0 9) := .setStart 0 9 (.reverse (.build _ _ _))
example : NfasHistNR (nfasRemoveUseless (nfasUnionDisjoint exA (nfasMap (· + 10) exB))) :=
  .removeUseless (.unionDisjoint (by decide) (.build _ _ _) (.map _ (.build _ _ _)))
example : ObsHist (nfasRemoveUseless (nfasReverse exA)) (nfasRemoveUseless (nfasReverse exA).clean) :=
  .removeUseless (.base (obsEq_clean _))

/-! ### the stale entries at work (each reproduced by the real class, see `harness/nfas_witness_stale.txt`) -/

/-- `0 -a0-> 1`, start state 0 with x0, final state 1 – reversed: start state 1, final state 0, and a stale entry for 0 -/
def stR : NFAS := nfasReverse (nfasBuild [(0, 0, 1)] [(0, 8)] [1])
example : stR.start = [1] ∧ stR.final = [0] ∧ stR.startSyms = [(0, [8]), (1, [])] := by decide

/-- `SetStateStart (0, x1)` on a state that is no start state gives it x0 AND x1 – x0 was never given -/
theorem stale_setStart : (nfasSetStart stR 0 9).symsOf 0 = [8, 9] ∧ (nfasSetStart stR.clean 0 9).symsOf 0 = [9] := by
  decide

/-- `SetExistingStateStart (0, {x1, x2})` on a state that is no start state: the set given is ignored -/
theorem stale_setExistingStart :
    (nfasSetExistingStart stR 0 [9, 10]).symsOf 0 = [8] ∧ (nfasSetExistingStart stR.clean 0 [9, 10]).symsOf 0 = [9, 10] := by
  decide

/-- start state 0 (x0) cannot reach the final state 1: `Reverse` and `RemoveUnreachableStates` drop it – the automaton `stL`
consists of the state 1 only – but its entry stays -/
def stL : NFAS := nfasRemoveUnreachable (nfasReverse (nfasBuild [] [(0, 8)] [1]))
/-- an automaton on the state 0 only: start state with x1 -/
def stB : NFAS := nfasBuild [] [(0, 9)] [0]

/-- `UnionDisjointStates` of two automata WITHOUT A COMMON STATE: the start state 0 of the right operand loses its symbol
x1 and shows x0, which the left operand does not show anywhere -/
theorem stale_unionDisjoint :
    (∀ q, q ∈ nfaStates stL.toNFA → q ∈ nfaStates stB.toNFA → False) ∧
    stB.symsOf 0 = [9] ∧ (nfasUnionDisjoint stL stB).start = [1, 0] ∧ (nfasUnionDisjoint stL stB).symsOf 0 = [8] ∧
    (nfasUnionDisjoint stL.clean stB).symsOf 0 = [9] := by decide

/-- … and a start state can lose ALL its symbols that way: `stL2` is the state 0 only (start state with x0) plus an EMPTY
stale entry for the state 1 it once had (left by `Reverse`); the start state 1 of the right operand comes out without symbols -/
def stL2 : NFAS := nfasRemoveUnreachable (nfasReverse (nfasReverse (nfasBuild [] [(0, 8)] [1])))
theorem stale_unionDisjoint_empty :
    (∀ q, q ∈ nfaStates stL2.toNFA → q ∈ nfaStates (nfasBuild [] [(1, 9)] [1]).toNFA → False) ∧
    stL2.symsOf 0 = [8] ∧ (nfasBuild [] [(1, 9)] [1]).symsOf 1 = [9] ∧
    (nfasUnionDisjoint stL2 (nfasBuild [] [(1, 9)] [1])).start = [0, 1] ∧
    (nfasUnionDisjoint stL2 (nfasBuild [] [(1, 9)] [1])).symsOf 1 = [] := by decide

/-- `Reverse` shows a stale entry again (this is how `Reverse ∘ Reverse` restores the symbols) -/
theorem stale_reverse : (nfasReverse stR).symsOf 0 = [8] ∧ (nfasReverse stR.clean).symsOf 0 = [] := by decide

end NfaSEx

end Vata
