import Vata.Proofs.Antichain
/-!
# Theorems about `Antichain2Cv2` (`Vata.AC.Two`)

Everything is phrased through `listOf d k`, the list stored under key `k` (empty when there is no entry): together with
well-formedness (`WF`: no key twice, no empty list) it determines the container up to the unspecified order of the keys.
-/
set_option linter.unusedSectionVars false
namespace Vata.AC.Two
variable {κ β σ : Type} [DecidableEq κ]

/-- representation invariant of `data_`: every key once, no key with an empty list -/
def WF (d : Data κ β) : Prop := (keys d).Nodup ∧ ∀ e, e ∈ d → e.2 ≠ []

theorem wf_nil : WF ([] : Data κ β) := ⟨by simp [keys], by simp⟩

@[simp] theorem keys_nil : keys ([] : Data κ β) = [] := rfl
@[simp] theorem keys_cons (e : κ × List (Nat × β)) (r : Data κ β) : keys (e :: r) = e.1 :: keys r := rfl
@[simp] theorem lookup_nil (k : κ) : lookup ([] : Data κ β) k = none := rfl
theorem lookup_cons (e : κ × List (Nat × β)) (r : Data κ β) (k : κ) :
    lookup (e :: r) k = if e.1 = k then some e.2 else lookup r k := rfl
@[simp] theorem listOf_nil (k : κ) : listOf ([] : Data κ β) k = [] := rfl
theorem listOf_cons (e : κ × List (Nat × β)) (r : Data κ β) (k : κ) :
    listOf (e :: r) k = if e.1 = k then e.2 else listOf r k := by
  unfold listOf; rw [lookup_cons]; split <;> rfl

theorem lookup_eq_none_iff (d : Data κ β) (k : κ) : lookup d k = none ↔ k ∉ keys d := by
  induction d with
  | nil => simp
  | cons e r ih =>
    rw [lookup_cons]
    by_cases h : e.1 = k
    · simp [h]
    · simp only [h, if_false, ih, keys_cons, List.mem_cons, not_or]
      exact ⟨fun h' => ⟨fun h'' => h h''.symm, h'⟩, fun h' => h'.2⟩

theorem lookup_mem {d : Data κ β} {k : κ} {l : List (Nat × β)} (h : lookup d k = some l) : (k, l) ∈ d := by
  induction d with
  | nil => simp at h
  | cons e r ih =>
    rw [lookup_cons] at h
    by_cases hk : e.1 = k
    · simp only [hk, if_true, Option.some.injEq] at h
      subst h; subst hk; simp
    · simp only [hk, if_false] at h
      exact List.mem_cons_of_mem _ (ih h)

/-- under `WF`, `lookup` is determined by `listOf`: `nullptr` iff nothing is stored under the key -/
theorem lookup_of_wf {d : Data κ β} (hw : WF d) (k : κ) :
    lookup d k = if listOf d k = [] then none else some (listOf d k) := by
  unfold listOf
  cases h : lookup d k with
  | none => simp
  | some l =>
    have := hw.2 _ (lookup_mem h)
    simp only [Option.getD_some]
    simp [this]

theorem mem_keys_iff {d : Data κ β} (hw : WF d) (k : κ) : k ∈ keys d ↔ listOf d k ≠ [] := by
  have h1 := lookup_eq_none_iff d k
  have h2 := lookup_of_wf hw k
  by_cases h : listOf d k = []
  · simp only [h, if_true] at h2
    simp [h, h1.1 h2]
  · simp only [h, if_false] at h2
    simp only [ne_eq, h, not_false_eq_true, iff_true]
    apply Classical.byContradiction
    intro hn
    rw [h1.2 hn] at h2; cases h2

theorem listOf_ne_nil_mem_keys {d : Data κ β} {k : κ} (h : listOf d k ≠ []) : k ∈ keys d := by
  apply Classical.byContradiction
  intro hn
  apply h
  unfold listOf
  rw [(lookup_eq_none_iff d k).2 hn]; rfl

/-! ### `contains` -/

/-- `contains(keys, Q, cmp)`: some element stored under one of the given keys satisfies `cmp(stored, Q)` (no assumption) -/
theorem contains_iff (d : Data κ β) (cands : List κ) (Q : β) (cmp : β → β → Bool) :
    contains d cands Q cmp = true ↔ ∃ p, p ∈ cands ∧ ∃ n, n ∈ listOf d p ∧ cmp n.2 Q = true := by
  unfold contains
  rw [List.any_eq_true]
  constructor
  · rintro ⟨p, hp, h⟩
    refine ⟨p, hp, ?_⟩
    unfold listOf
    cases hl : lookup d p with
    | none => simp [hl] at h
    | some l =>
      simp only [hl, List.any_eq_true] at h
      obtain ⟨n, hn, hc⟩ := h
      exact ⟨n, by simpa using hn, hc⟩
  · rintro ⟨p, hp, n, hn, hc⟩
    refine ⟨p, hp, ?_⟩
    unfold listOf at hn
    cases hl : lookup d p with
    | none => simp [hl] at hn
    | some l =>
      simp only [hl, Option.getD_some] at hn
      simp only [List.any_eq_true]
      exact ⟨n, hn, hc⟩

/-! ### `insert` -/
theorem listOf_insert (d : Data κ β) (i : Nat) (q : κ) (Q : β) (k : κ) :
    listOf (insert d i q Q) k = if k = q then listOf d q ++ [(i, Q)] else listOf d k := by
  induction d with
  | nil =>
    simp only [insert, listOf_cons, listOf_nil, List.nil_append]
    by_cases h : k = q
    · simp [h]
    · have : ¬ q = k := fun h' => h h'.symm
      simp [h, this]
  | cons e r ih =>
    unfold insert
    by_cases he : e.1 = q
    · simp only [he, if_true, listOf_cons]
      by_cases h : k = q
      · simp [h]
      · have : ¬ q = k := fun h' => h h'.symm
        simp [h, this]
    · simp only [he, if_false, listOf_cons, ih]
      by_cases h : k = q
      · subst h; simp [he]
      · simp [h]

theorem keys_insert (d : Data κ β) (i : Nat) (q : κ) (Q : β) :
    keys (insert d i q Q) = if q ∈ keys d then keys d else keys d ++ [q] := by
  induction d with
  | nil => simp [insert]
  | cons e r ih =>
    unfold insert
    by_cases he : e.1 = q
    · simp [he]
    · have : ¬ q = e.1 := fun h' => he h'.symm
      simp only [he, if_false, keys_cons, ih, List.mem_cons, this, false_or]
      split <;> simp

theorem wf_insert {d : Data κ β} (hw : WF d) (i : Nat) (q : κ) (Q : β) : WF (insert d i q Q) := by
  refine ⟨?_, ?_⟩
  · rw [keys_insert]
    by_cases h : q ∈ keys d
    · simpa [h] using hw.1
    · simp only [h, if_false]
      rw [List.nodup_append]
      refine ⟨hw.1, by simp, ?_⟩
      intro a ha b hb
      simp only [List.mem_singleton] at hb
      subst hb
      intro hab; subst hab; exact h ha
  · have hne := hw.2
    clear hw
    induction d with
    | nil => intro e he; simp [insert] at he; subst he; simp
    | cons e' r ih =>
      intro e he
      unfold insert at he
      by_cases h' : e'.1 = q
      · simp only [h', if_true, List.mem_cons] at he
        rcases he with he | he
        · subst he; simp
        · exact hne e (List.mem_cons_of_mem _ he)
      · simp only [h', if_false, List.mem_cons] at he
        rcases he with he | he
        · subst he; exact hne _ (by simp)
        · exact ih (fun e he => hne e (List.mem_cons_of_mem _ he)) e he

/-! ### `refine` -/

/-- the data half of one candidate of `refine` (does not depend on the eraser) -/
def refineKeyD (cmp : β → β → Bool) (Q : β) (p : κ) : Data κ β → Data κ β
  | [] => []
  | e :: r =>
    if e.1 = p then
      (if (e.2.filter (fun P => !cmp P.2 Q)).isEmpty then r else (e.1, e.2.filter (fun P => !cmp P.2 Q)) :: r)
    else e :: refineKeyD cmp Q p r

def refineD (cmp : β → β → Bool) (Q : β) (d : Data κ β) (cands : List κ) : Data κ β :=
  cands.foldl (fun d p => refineKeyD cmp Q p d) d

theorem refineList_fst (cmp : β → β → Bool) (Q : β) (er : Nat → β → σ → σ) (l : List (Nat × β)) (s : σ) :
    (refineList cmp Q er l s).1 = l.filter (fun P => !cmp P.2 Q) := by
  induction l generalizing s with
  | nil => rfl
  | cons P r ih =>
    unfold refineList
    by_cases h : cmp P.2 Q = true
    · simp [h, ih]
    · simp [h, ih]

/-- the eraser is called on exactly the erased nodes, in list order -/
theorem refineList_snd (cmp : β → β → Bool) (Q : β) (er : Nat → β → σ → σ) (l : List (Nat × β)) (s : σ) :
    (refineList cmp Q er l s).2 = (l.filter (fun P => cmp P.2 Q)).foldl (fun s P => er P.1 P.2 s) s := by
  induction l generalizing s with
  | nil => rfl
  | cons P r ih =>
    unfold refineList
    by_cases h : cmp P.2 Q = true
    · simp [h, ih]
    · simp [h, ih]

theorem refineKey_fst (cmp : β → β → Bool) (Q : β) (er : κ → Nat → β → σ → σ) (p : κ) (d : Data κ β) (s : σ) :
    (refineKey cmp Q er p d s).1 = refineKeyD cmp Q p d := by
  induction d with
  | nil => rfl
  | cons e r ih =>
    unfold refineKey refineKeyD
    by_cases h : e.1 = p
    · simp only [h, if_true, refineList_fst]
    · simp only [h, if_false, ih]

theorem refineKey_snd (cmp : β → β → Bool) (Q : β) (er : κ → Nat → β → σ → σ) (p : κ) (d : Data κ β) (s : σ) :
    (refineKey cmp Q er p d s).2 =
      ((listOf d p).filter (fun P => cmp P.2 Q)).foldl (fun s P => er p P.1 P.2 s) s := by
  induction d with
  | nil => rfl
  | cons e r ih =>
    unfold refineKey
    rw [listOf_cons]
    by_cases h : e.1 = p
    · simp only [h, if_true, refineList_snd]
    · simp only [h, if_false, ih]

theorem keys_refineKeyD_sublist (cmp : β → β → Bool) (Q : β) (p : κ) (d : Data κ β) :
    (keys (refineKeyD cmp Q p d)).Sublist (keys d) := by
  induction d with
  | nil => exact List.Sublist.refl _
  | cons e r ih =>
    unfold refineKeyD
    by_cases h : e.1 = p
    · simp only [h, if_true]
      split
      · exact List.sublist_cons_self _ _
      · simp [h]
    · simp only [h, if_false, keys_cons]
      exact ih.cons_cons _

theorem listOf_refineKeyD (cmp : β → β → Bool) (Q : β) (p : κ) {d : Data κ β} (hk : (keys d).Nodup) (k : κ) :
    listOf (refineKeyD cmp Q p d) k =
      if k = p then (listOf d p).filter (fun P => !cmp P.2 Q) else listOf d k := by
  induction d with
  | nil => simp [refineKeyD]
  | cons e r ih =>
    have hk' := List.nodup_cons.1 hk
    unfold refineKeyD
    by_cases h : e.1 = p
    · simp only [h, if_true]
      by_cases hkp : k = p
      · subst hkp
        simp only [if_true, listOf_cons, h]
        split
        · rename_i hemp
          have : k ∉ keys r := h ▸ hk'.1
          unfold listOf
          rw [(lookup_eq_none_iff r k).2 this]
          simpa using hemp
        · simp [listOf_cons]
      · have : ¬ p = k := fun h' => hkp h'.symm
        simp only [hkp, if_false]
        split
        · simp [listOf_cons, h, this]
        · simp [listOf_cons, h, this]
    · simp only [h, if_false, listOf_cons, ih hk'.2]
      by_cases hkp : k = p
      · subst hkp; simp [h]
      · simp [hkp]

theorem wf_refineKeyD (cmp : β → β → Bool) (Q : β) (p : κ) {d : Data κ β} (hw : WF d) : WF (refineKeyD cmp Q p d) := by
  refine ⟨List.Nodup.sublist (keys_refineKeyD_sublist cmp Q p d) hw.1, ?_⟩
  have hne := hw.2
  clear hw
  induction d with
  | nil => intro e he; simp [refineKeyD] at he
  | cons e' r ih =>
    intro e he
    unfold refineKeyD at he
    by_cases h : e'.1 = p
    · simp only [h, if_true] at he
      split at he
      · exact hne e (List.mem_cons_of_mem _ he)
      · rename_i hemp
        rcases List.mem_cons.1 he with he | he
        · subst he; simpa using hemp
        · exact hne e (List.mem_cons_of_mem _ he)
    · simp only [h, if_false] at he
      rcases List.mem_cons.1 he with he | he
      · subst he; exact hne _ (by simp)
      · exact ih (fun e he => hne e (List.mem_cons_of_mem _ he)) e he

theorem refine_cons (d : Data κ β) (p : κ) (c : List κ) (Q : β) (cmp : β → β → Bool) (er : κ → Nat → β → σ → σ) (s : σ) :
    refine d (p :: c) Q cmp er s =
      refine (refineKey cmp Q er p d s).1 c Q cmp er (refineKey cmp Q er p d s).2 := by
  simp [refine]

theorem refine_fst (d : Data κ β) (cands : List κ) (Q : β) (cmp : β → β → Bool) (er : κ → Nat → β → σ → σ) (s : σ) :
    (refine d cands Q cmp er s).1 = refineD cmp Q d cands := by
  induction cands generalizing d s with
  | nil => rfl
  | cons p c ih =>
    rw [refine_cons, ih, refineKey_fst]; rfl

theorem refine0_eq (d : Data κ β) (cands : List κ) (Q : β) (cmp : β → β → Bool) :
    refine0 d cands Q cmp = refineD cmp Q d cands := by
  unfold refine0; rw [refine_fst]

theorem wf_refineD (cmp : β → β → Bool) (Q : β) (cands : List κ) {d : Data κ β} (hw : WF d) :
    WF (refineD cmp Q d cands) := by
  induction cands generalizing d with
  | nil => exact hw
  | cons p c ih => exact ih (wf_refineKeyD cmp Q p hw)

/-- `refine(keys, Q, cmp)` removes exactly the stored elements under the given keys with `cmp(stored, Q)`; the lists
keep their order; other keys are untouched -/
theorem listOf_refineD (cmp : β → β → Bool) (Q : β) (cands : List κ) {d : Data κ β} (hk : (keys d).Nodup) (k : κ) :
    listOf (refineD cmp Q d cands) k =
      if k ∈ cands then (listOf d k).filter (fun P => !cmp P.2 Q) else listOf d k := by
  induction cands generalizing d with
  | nil => simp [refineD]
  | cons p c ih =>
    have : refineD cmp Q d (p :: c) = refineD cmp Q (refineKeyD cmp Q p d) c := rfl
    rw [this, ih (List.Nodup.sublist (keys_refineKeyD_sublist cmp Q p d) hk), listOf_refineKeyD cmp Q p hk]
    by_cases hkp : k = p
    · subst hkp
      simp only [if_true, List.mem_cons, true_or, List.filter_filter, Bool.and_self]
      split <;> rfl
    · simp [hkp]

/-- the calls of the eraser, in the order in which they happen -/
def erased (cmp : β → β → Bool) (Q : β) : Data κ β → List κ → List (κ × Nat × β)
  | _, [] => []
  | d, p :: c =>
    ((listOf d p).filter (fun P => cmp P.2 Q)).map (fun P => (p, P.1, P.2)) ++ erased cmp Q (refineKeyD cmp Q p d) c

/-- `refine` with a callback: the callback is folded over `erased` -/
theorem refine_snd (d : Data κ β) (cands : List κ) (Q : β) (cmp : β → β → Bool) (er : κ → Nat → β → σ → σ) (s : σ) :
    (refine d cands Q cmp er s).2 = (erased cmp Q d cands).foldl (fun s e => er e.1 e.2.1 e.2.2 s) s := by
  induction cands generalizing d s with
  | nil => rfl
  | cons p c ih =>
    rw [refine_cons, ih, refineKey_fst, refineKey_snd]
    simp only [erased, List.foldl_append, List.foldl_map]

/-- the callback is called on exactly the removed elements … -/
theorem mem_erased (cmp : β → β → Bool) (Q : β) (cands : List κ) {d : Data κ β} (hk : (keys d).Nodup) (e : κ × Nat × β) :
    e ∈ erased cmp Q d cands ↔ e.1 ∈ cands ∧ e.2 ∈ listOf d e.1 ∧ cmp e.2.2 Q = true := by
  induction cands generalizing d with
  | nil => simp [erased]
  | cons p c ih =>
    simp only [erased, List.mem_append, List.mem_map, List.mem_filter,
      ih (List.Nodup.sublist (keys_refineKeyD_sublist cmp Q p d) hk), listOf_refineKeyD cmp Q p hk, List.mem_cons]
    constructor
    · rintro (⟨P, ⟨hP, hc⟩, rfl⟩ | ⟨h1, h2, h3⟩)
      · exact ⟨Or.inl rfl, hP, hc⟩
      · by_cases hp : e.1 = p
        · simp only [hp, if_true, List.mem_filter] at h2
          rw [h3] at h2; simp at h2
        · simp only [hp, if_false] at h2
          exact ⟨Or.inr h1, h2, h3⟩
    · rintro ⟨h1, h2, h3⟩
      by_cases hp : e.1 = p
      · exact Or.inl ⟨e.2, ⟨hp ▸ h2, h3⟩, by rw [← hp]⟩
      · rcases h1 with h1 | h1
        · exact absurd h1 hp
        · exact Or.inr ⟨h1, by simp only [hp, if_false]; exact h2, h3⟩

/-- … and on each of them once (when the lists hold no node twice) -/
theorem nodup_erased (cmp : β → β → Bool) (Q : β) (cands : List κ) {d : Data κ β} (hk : (keys d).Nodup)
    (hl : ∀ k, (listOf d k).Nodup) : (erased cmp Q d cands).Nodup := by
  induction cands generalizing d with
  | nil => simp [erased]
  | cons p c ih =>
    have hk' := List.Nodup.sublist (keys_refineKeyD_sublist cmp Q p d) hk
    have hl' : ∀ k, (listOf (refineKeyD cmp Q p d) k).Nodup := by
      intro k
      rw [listOf_refineKeyD cmp Q p hk]
      split
      · exact List.Nodup.sublist List.filter_sublist (hl p)
      · exact hl k
    simp only [erased]
    rw [List.nodup_append]
    refine ⟨?_, ih hk' hl', ?_⟩
    · refine List.Pairwise.map _ ?_ (List.Nodup.sublist List.filter_sublist (hl p))
      intro a b hab h
      simp only [Prod.mk.injEq, true_and] at h
      exact hab (Prod.ext h.1 h.2)
    · intro a ha b hb hab
      subst hab
      rw [mem_erased cmp Q c hk', listOf_refineKeyD cmp Q p hk] at hb
      simp only [List.mem_map, List.mem_filter] at ha
      obtain ⟨P, ⟨_, _⟩, rfl⟩ := ha
      simp only [if_true, List.mem_filter] at hb
      have := hb.2.1.2
      rw [hb.2.2] at this; simp at this

/-! ### `get`, `remove` -/
theorem get_some {d d' : Data κ β} {k : κ} {n : Nat × β} (hk : (keys d).Nodup) (h : get d k = some (n, d')) :
    (∃ l, lookup d k = some (n :: l) ∧ ∀ k', listOf d' k' = if k' = k then l else listOf d k') ∧
      (keys d').Sublist (keys d) ∧ ((∀ e, e ∈ d → e.2 ≠ []) → ∀ e, e ∈ d' → e.2 ≠ []) := by
  induction d generalizing d' with
  | nil => simp [get] at h
  | cons e r ih =>
    have hk' := List.nodup_cons.1 hk
    unfold get at h
    by_cases he : e.1 = k
    · simp only [he, if_true] at h
      cases hl : e.2 with
      | nil => simp [hl] at h
      | cons P l =>
        simp only [hl, Option.some.injEq, Prod.mk.injEq] at h
        obtain ⟨h1, h2⟩ := h
        subst h1
        refine ⟨⟨l, by simp [lookup_cons, he, hl], fun k' => ?_⟩, ?_, ?_⟩
        · subst h2
          by_cases hkk : k' = k
          · subst hkk
            simp only [if_true]
            split
            · rename_i hemp
              have : k' ∉ keys r := he ▸ hk'.1
              unfold listOf
              rw [(lookup_eq_none_iff r k').2 this]
              simpa using hemp.symm
            · simp [listOf_cons]
          · have : ¬ k = k' := fun h' => hkk h'.symm
            simp only [hkk, if_false]
            split <;> simp [listOf_cons, he, this]
        · subst h2
          split
          · exact List.sublist_cons_self _ _
          · simp [he]
        · intro hne e' he'
          subst h2
          split at he'
          · exact hne e' (List.mem_cons_of_mem _ he')
          · rename_i hemp
            rcases List.mem_cons.1 he' with he' | he'
            · subst he'; simpa using hemp
            · exact hne e' (List.mem_cons_of_mem _ he')
    · simp only [he, if_false] at h
      cases hg : get r k with
      | none => simp [hg] at h
      | some x =>
        obtain ⟨n', r'⟩ := x
        simp only [hg, Option.map_some, Option.some.injEq, Prod.mk.injEq] at h
        obtain ⟨h1, h2⟩ := h
        subst h1; subst h2
        obtain ⟨⟨l, hl1, hl2⟩, hs, hne'⟩ := ih hk'.2 hg
        refine ⟨⟨l, by simp [lookup_cons, he, hl1], fun k' => ?_⟩, hs.cons_cons _, ?_⟩
        · rw [listOf_cons, listOf_cons, hl2]
          by_cases hkk : k' = k
          · subst hkk; simp [he]
          · simp [hkk]
        · intro hne e' he'
          rcases List.mem_cons.1 he' with he' | he'
          · subst he'; exact hne _ (by simp)
          · exact hne' (fun e he => hne e (List.mem_cons_of_mem _ he)) e' he'

/-- `get` fails only on a key that is not there (given that no list is empty): so with a well-formed map the real
class, which picks `data_.begin()`, fails exactly on the empty map -/
theorem get_eq_none_iff {d : Data κ β} (hne : ∀ e, e ∈ d → e.2 ≠ []) (k : κ) : get d k = none ↔ k ∉ keys d := by
  induction d with
  | nil => simp [get]
  | cons e r ih =>
    unfold get
    by_cases he : e.1 = k
    · simp only [he, if_true, keys_cons, List.mem_cons]
      cases hl : e.2 with
      | nil => exact absurd hl (hne e (by simp))
      | cons P l => simp
    · have : ¬ k = e.1 := fun h' => he h'.symm
      simp only [he, if_false, Option.map_eq_none_iff, keys_cons, List.mem_cons, this, false_or]
      exact ih (fun e he => hne e (List.mem_cons_of_mem _ he))

theorem keys_remove_sublist (q : κ) (i : Nat) (d : Data κ β) : (keys (remove d q i)).Sublist (keys d) := by
  induction d with
  | nil => exact List.Sublist.refl _
  | cons e r ih =>
    unfold remove
    by_cases h : e.1 = q
    · simp only [h, if_true]
      split
      · exact List.sublist_cons_self _ _
      · simp [h]
    · simp only [h, if_false, keys_cons]
      exact ih.cons_cons _

/-- `remove(q, it)`: the node with that identity goes from the list of `q`, nothing else changes -/
theorem listOf_remove (q : κ) (i : Nat) {d : Data κ β} (hk : (keys d).Nodup) (k : κ) :
    listOf (remove d q i) k = if k = q then (listOf d q).filter (fun P => P.1 != i) else listOf d k := by
  induction d with
  | nil => simp [remove]
  | cons e r ih =>
    have hk' := List.nodup_cons.1 hk
    unfold remove
    by_cases h : e.1 = q
    · simp only [h, if_true]
      by_cases hkp : k = q
      · subst hkp
        simp only [if_true, listOf_cons, h]
        split
        · rename_i hemp
          have : k ∉ keys r := h ▸ hk'.1
          unfold listOf
          rw [(lookup_eq_none_iff r k).2 this]
          simpa using hemp
        · simp [listOf_cons]
      · have : ¬ q = k := fun h' => hkp h'.symm
        simp only [hkp, if_false]
        split
        · simp [listOf_cons, h, this]
        · simp [listOf_cons, h, this]
    · simp only [h, if_false, listOf_cons, ih hk'.2]
      by_cases hkp : k = q
      · subst hkp; simp [h]
      · simp [hkp]

theorem wf_remove (q : κ) (i : Nat) {d : Data κ β} (hw : WF d) : WF (remove d q i) := by
  refine ⟨List.Nodup.sublist (keys_remove_sublist q i d) hw.1, ?_⟩
  have hne := hw.2
  clear hw
  induction d with
  | nil => intro e he; simp [remove] at he
  | cons e' r ih =>
    intro e he
    unfold remove at he
    by_cases h : e'.1 = q
    · simp only [h, if_true] at he
      split at he
      · exact hne e (List.mem_cons_of_mem _ he)
      · rename_i hemp
        rcases List.mem_cons.1 he with he | he
        · subst he; simpa using hemp
        · exact hne e (List.mem_cons_of_mem _ he)
    · simp only [h, if_false] at he
      rcases List.mem_cons.1 he with he | he
      · subst he; exact hne _ (by simp)
      · exact ih (fun e he => hne e (List.mem_cons_of_mem _ he)) e he

/-! ### `size`, `empty` -/
theorem foldl_size_acc (d : Data κ β) (n : Nat) :
    d.foldl (fun n e => n + e.2.length) n = n + d.foldl (fun n e => n + e.2.length) 0 := by
  induction d generalizing n with
  | nil => simp
  | cons e r ih => simp only [List.foldl_cons, Nat.zero_add]; rw [ih, ih e.2.length]; omega

/-- `size()` is the number of stored elements -/
theorem size_eq {d : Data κ β} (hk : (keys d).Nodup) :
    size d = ((keys d).map (fun k => (listOf d k).length)).sum := by
  induction d with
  | nil => rfl
  | cons e r ih =>
    have hk' := List.nodup_cons.1 hk
    have h1 : size (e :: r) = e.2.length + size r := by
      unfold size; simp only [List.foldl_cons, Nat.zero_add]; rw [foldl_size_acc]
    rw [h1, ih hk'.2]
    simp only [keys_cons, List.map_cons, List.sum_cons, listOf_cons, if_true]
    congr 1
    congr 1
    apply List.map_congr_left
    intro k hkr
    have : ¬ e.1 = k := fun h' => hk'.1 (by show e.1 ∈ keys r; rw [h']; exact hkr)
    simp [this]

theorem empty_iff {d : Data κ β} (hw : WF d) : empty d = true ↔ ∀ k, listOf d k = [] := by
  unfold empty
  constructor
  · intro h k
    have : d = [] := by simpa using h
    subst this; rfl
  · intro h
    cases d with
    | nil => rfl
    | cons e r =>
      exfalso
      have := h e.1
      rw [listOf_cons] at this
      simp only [if_true] at this
      exact hw.2 e (by simp) this

/-! ### node identities -/

/-- every node identity (iterator) occurs once in the whole container -/
def IdsOk (d : Data κ β) : Prop :=
  (∀ k, ((listOf d k).map (·.1)).Nodup) ∧
    ∀ k k' a b, a ∈ listOf d k → b ∈ listOf d k' → a.1 = b.1 → k = k'

theorem idsOk_nil : IdsOk ([] : Data κ β) := ⟨by simp, by simp⟩

theorem idsOk_of_sublist {d d' : Data κ β} (h : ∀ k, (listOf d' k).Sublist (listOf d k)) (hi : IdsOk d) : IdsOk d' :=
  ⟨fun k => List.Nodup.sublist ((h k).map _) (hi.1 k),
    fun k k' a b ha hb hab => hi.2 k k' a b ((h k).subset ha) ((h k').subset hb) hab⟩

theorem listOf_nodup_of_idsOk {d : Data κ β} (hi : IdsOk d) (k : κ) : (listOf d k).Nodup := by
  have := hi.1 k
  exact List.Pairwise.of_map (·.1) (fun a b h hab => h (by rw [hab])) this

theorem idsOk_insert {d : Data κ β} (hi : IdsOk d) {i : Nat} (hf : ∀ k a, a ∈ listOf d k → a.1 ≠ i) (q : κ) (Q : β) :
    IdsOk (insert d i q Q) := by
  refine ⟨fun k => ?_, fun k k' a b ha hb hab => ?_⟩
  · rw [listOf_insert]
    by_cases h : k = q
    · simp only [h, if_true, List.map_append, List.map_cons, List.map_nil]
      rw [List.nodup_append]
      refine ⟨hi.1 q, by simp, ?_⟩
      intro x hx y hy
      simp only [List.mem_singleton] at hy
      subst hy
      obtain ⟨a, ha, rfl⟩ := List.mem_map.1 hx
      exact hf q a ha
    · simpa [h] using hi.1 k
  · rw [listOf_insert] at ha hb
    by_cases h : k = q <;> by_cases h' : k' = q
    · rw [h, h']
    · simp only [h, if_true, h', if_false, List.mem_append, List.mem_singleton] at ha hb
      rcases ha with ha | ha
      · exact h ▸ hi.2 q k' a b ha hb hab
      · subst ha; exact absurd hab.symm (hf k' b hb)
    · simp only [h, if_false, h', if_true, List.mem_append, List.mem_singleton] at ha hb
      rcases hb with hb | hb
      · exact h' ▸ hi.2 k q a b ha hb hab
      · subst hb; exact absurd hab (hf k a ha)
    · simp only [h, h', if_false] at ha hb
      exact hi.2 k k' a b ha hb hab

theorem sublist_refineD (cmp : β → β → Bool) (Q : β) (cands : List κ) {d : Data κ β} (hk : (keys d).Nodup) (k : κ) :
    (listOf (refineD cmp Q d cands) k).Sublist (listOf d k) := by
  rw [listOf_refineD cmp Q cands hk]
  split
  · exact List.filter_sublist
  · exact List.Sublist.refl _

theorem sublist_remove (q : κ) (i : Nat) {d : Data κ β} (hk : (keys d).Nodup) (k : κ) :
    (listOf (remove d q i) k).Sublist (listOf d k) := by
  rw [listOf_remove q i hk]
  split
  · rename_i h; subst h; exact List.filter_sublist
  · exact List.Sublist.refl _

theorem sublist_get {d d' : Data κ β} {k : κ} {n : Nat × β} (hk : (keys d).Nodup) (h : get d k = some (n, d')) (k' : κ) :
    (listOf d' k').Sublist (listOf d k') := by
  obtain ⟨⟨l, hl1, hl2⟩, _, _⟩ := get_some hk h
  rw [hl2]
  split
  · rename_i hkk; subst hkk
    unfold listOf; rw [hl1]; exact List.sublist_cons_self _ _
  · exact List.Sublist.refl _

/-- `get` returns the front of the list of the picked key and removes exactly that node -/
theorem get_spec {d d' : Data κ β} {k : κ} {n : Nat × β} (hk : (keys d).Nodup) (h : get d k = some (n, d')) :
    ∃ l, listOf d k = n :: l ∧ ∀ k', listOf d' k' = if k' = k then l else listOf d k' := by
  obtain ⟨⟨l, hl1, hl2⟩, _, _⟩ := get_some hk h
  exact ⟨l, by unfold listOf; rw [hl1]; rfl, hl2⟩

theorem wf_get {d d' : Data κ β} {k : κ} {n : Nat × β} (hw : WF d) (h : get d k = some (n, d')) : WF d' := by
  obtain ⟨_, h2, h3⟩ := get_some hw.1 h
  exact ⟨List.Nodup.sublist h2 hw.1, h3 hw.2⟩

/-! ### the combination used by the algorithms -/

/-- the order on pairs: the stored pair `(p, P)` covers `(q, Q)` iff `q ≤ p` and `P ≤ Q` -/
def Covers (kle : κ → κ → Bool) (le : β → β → Bool) (p : κ) (P : β) (q : κ) (Q : β) : Prop :=
  kle q p = true ∧ le P Q = true

/-- antichain invariant: no stored node covers another stored node -/
def Anti (kle : κ → κ → Bool) (le : β → β → Bool) (d : Data κ β) : Prop :=
  ∀ k k' a b, a ∈ listOf d k → b ∈ listOf d k' → a.1 ≠ b.1 → ¬ Covers kle le k a.2 k' b.2

/-- the set of pairs the container stands for: everything covered by a stored pair -/
def Rep (kle : κ → κ → Bool) (le : β → β → Bool) (d : Data κ β) (q : κ) (Q : β) : Prop :=
  ∃ k a, a ∈ listOf d k ∧ Covers kle le k a.2 q Q

/-- the candidate lists are right on the keys that store something: `up` lists those above `q`, `down` those below -/
def CandOk (kle : κ → κ → Bool) (d : Data κ β) (up down : List κ) (q : κ) : Prop :=
  ∀ p, listOf d p ≠ [] → ((p ∈ up ↔ kle q p = true) ∧ (p ∈ down ↔ kle p q = true))

/-- content after the combination -/
theorem listOf_offer {d : Data κ β} (hk : (keys d).Nodup) (up down : List κ) (le : β → β → Bool) (i : Nat) (q : κ) (Q : β)
    (k : κ) :
    listOf (offer d up down le i q Q) k =
      if contains d up Q le then listOf d k
      else (if k ∈ down then (listOf d k).filter (fun P => !le Q P.2) else listOf d k) ++ (if k = q then [(i, Q)] else []) := by
  unfold offer
  by_cases hc : contains d up Q le = true
  · simp [hc]
  · simp only [hc, if_false, Bool.false_eq_true]
    rw [listOf_insert, refine0_eq, listOf_refineD _ _ _ hk, listOf_refineD _ _ _ hk]
    by_cases h : k = q
    · subst h; simp
    · simp [h]

theorem mem_offer {d : Data κ β} (hk : (keys d).Nodup) {up down : List κ} {le : β → β → Bool} {i : Nat} {q : κ} {Q : β}
    (hc : contains d up Q le = false) (k : κ) (a : Nat × β) :
    a ∈ listOf (offer d up down le i q Q) k ↔
      (a ∈ listOf d k ∧ ¬ (k ∈ down ∧ le Q a.2 = true)) ∨ (k = q ∧ a = (i, Q)) := by
  rw [listOf_offer hk]
  simp only [hc, if_false, Bool.false_eq_true, List.mem_append]
  constructor
  · rintro (h | h)
    · left
      by_cases hd : k ∈ down
      · simp only [hd, if_true, List.mem_filter] at h
        exact ⟨h.1, fun h' => by simp [h'.2] at h⟩
      · simp only [hd, if_false] at h
        exact ⟨h, fun h' => hd h'.1⟩
    · right
      by_cases hq : k = q
      · simp only [hq, if_true, List.mem_singleton] at h; exact ⟨hq, h⟩
      · simp [hq] at h
  · rintro (⟨h1, h2⟩ | ⟨h1, h2⟩)
    · left
      by_cases hd : k ∈ down
      · simp only [hd, if_true, List.mem_filter]
        refine ⟨h1, ?_⟩
        cases hl : le Q a.2 with
        | false => rfl
        | true => exact absurd ⟨hd, hl⟩ h2
      · simpa [hd] using h1
    · right; simp [h1, h2]

theorem wf_offer {d : Data κ β} (hw : WF d) (up down : List κ) (le : β → β → Bool) (i : Nat) (q : κ) (Q : β) :
    WF (offer d up down le i q Q) := by
  unfold offer
  split
  · exact hw
  · rw [refine0_eq]; exact wf_insert (wf_refineD _ _ _ hw) _ _ _

theorem idsOk_offer {d : Data κ β} (hw : WF d) (hi : IdsOk d) {i : Nat} (hf : ∀ k a, a ∈ listOf d k → a.1 ≠ i)
    (up down : List κ) (le : β → β → Bool) (q : κ) (Q : β) : IdsOk (offer d up down le i q Q) := by
  unfold offer
  split
  · exact hi
  · rw [refine0_eq]
    refine idsOk_insert (idsOk_of_sublist (sublist_refineD _ _ _ hw.1) hi) ?_ q Q
    intro k a ha
    exact hf k a ((sublist_refineD _ _ _ hw.1 k).subset ha)

/-- the antichain invariant is kept by the combination.  Needs only that the candidate lists are right (`CandOk`);
neither reflexivity nor transitivity of the orders, no freshness of the identity -/
theorem offer_anti {kle : κ → κ → Bool} {le : β → β → Bool} {d : Data κ β} (hk : (keys d).Nodup)
    {up down : List κ} {q : κ} (hc : CandOk kle d up down q) (i : Nat) (Q : β) (ha : Anti kle le d) :
    Anti kle le (offer d up down le i q Q) := by
  cases hcon : contains d up Q le with
  | true => simpa [offer, hcon] using ha
  | false =>
    intro k k' a b ha' hb' hab hcov
    rw [mem_offer hk hcon] at ha' hb'
    rcases ha' with ⟨ha1, ha2⟩ | ⟨ha1, ha2⟩ <;> rcases hb' with ⟨hb1, hb2⟩ | ⟨hb1, hb2⟩
    · exact ha k k' a b ha1 hb1 hab hcov
    · -- an old node covers the new one: `contains` would have answered true
      subst hb1; subst hb2
      have hne : listOf d k ≠ [] := fun h => by simp [h] at ha1
      have : contains d up Q le = true :=
        (contains_iff _ _ _ _).2 ⟨k, ((hc k hne).1).2 hcov.1, a, ha1, hcov.2⟩
      rw [hcon] at this; cases this
    · -- the new node covers an old one: `refine` has removed it
      subst ha1; subst ha2
      have hne : listOf d k' ≠ [] := fun h => by simp [h] at hb1
      exact hb2 ⟨((hc k' hne).2).2 hcov.1, hcov.2⟩
    · subst ha2; subst hb2; exact hab rfl

/-- the represented set grows by exactly the cone of the offered pair.  Needs transitivity of both orders (and sound
candidate lists) -/
theorem offer_rep {kle : κ → κ → Bool} {le : β → β → Bool} {d : Data κ β} (hk : (keys d).Nodup)
    (hktr : ∀ a b c, kle a b = true → kle b c = true → kle a c = true)
    (hltr : ∀ a b c, le a b = true → le b c = true → le a c = true)
    {up down : List κ} {q : κ} (hc : CandOk kle d up down q) (i : Nat) (Q : β) (x : κ) (X : β) :
    Rep kle le (offer d up down le i q Q) x X ↔ Rep kle le d x X ∨ Covers kle le q Q x X := by
  cases hcon : contains d up Q le with
  | true =>
    have : offer d up down le i q Q = d := by simp [offer, hcon]
    rw [this]
    constructor
    · exact Or.inl
    · rintro (h | h)
      · exact h
      · obtain ⟨p, hp, n, hn, hcn⟩ := (contains_iff _ _ _ _).1 hcon
        have hne : listOf d p ≠ [] := fun h => by simp [h] at hn
        exact ⟨p, n, hn, hktr _ _ _ h.1 (((hc p hne).1).1 hp), hltr _ _ _ hcn h.2⟩
  | false =>
    constructor
    · rintro ⟨k, a, ha, hcov⟩
      rw [mem_offer hk hcon] at ha
      rcases ha with ⟨ha1, _⟩ | ⟨ha1, ha2⟩
      · exact Or.inl ⟨k, a, ha1, hcov⟩
      · subst ha1; subst ha2; exact Or.inr hcov
    · rintro (⟨k, a, ha, hcov⟩ | h)
      · by_cases hrm : k ∈ down ∧ le Q a.2 = true
        · have hne : listOf d k ≠ [] := fun h => by simp [h] at ha
          refine ⟨q, (i, Q), (mem_offer hk hcon q _).2 (Or.inr ⟨rfl, rfl⟩), ?_, ?_⟩
          · exact hktr _ _ _ hcov.1 (((hc k hne).2).1 hrm.1)
          · exact hltr _ _ _ hrm.2 hcov.2
        · exact ⟨k, a, (mem_offer hk hcon k a).2 (Or.inl ⟨ha, hrm⟩), hcov⟩
      · exact ⟨q, (i, Q), (mem_offer hk hcon q _).2 (Or.inr ⟨rfl, rfl⟩), h⟩

/-- no value twice under a key -/
def ValsNodup (d : Data κ β) : Prop := ∀ k, ((listOf d k).map (·.2)).Nodup

/-- with reflexive orders the combination never stores a pair twice (this is the contract `OrderedAntichain2C::insert`
asserts).  Needs reflexivity of `le` and `q ∈ up` once `q` is a key (reflexivity of the key order) -/
theorem offer_valsNodup {le : β → β → Bool} {d : Data κ β} (hk : (keys d).Nodup)
    (hlrf : ∀ a, le a a = true) {up down : List κ} {q : κ} (hq : listOf d q ≠ [] → q ∈ up) (i : Nat) (Q : β)
    (hv : ValsNodup d) : ValsNodup (offer d up down le i q Q) := by
  intro k
  rw [listOf_offer hk]
  cases hcon : contains d up Q le with
  | true => simpa using hv k
  | false =>
    simp only [if_false, Bool.false_eq_true, List.map_append]
    have hbase : ((if k ∈ down then (listOf d k).filter (fun P => !le Q P.2) else listOf d k).map (·.2)).Nodup := by
      split
      · exact List.Nodup.sublist (List.filter_sublist.map _) (hv k)
      · exact hv k
    by_cases hkq : k = q
    · subst hkq
      simp only [if_true, List.map_cons, List.map_nil]
      rw [List.nodup_append]
      refine ⟨hbase, by simp, ?_⟩
      intro x hx y hy
      simp only [List.mem_singleton] at hy
      subst hy
      intro hxy; subst hxy
      have hx' : x ∈ (listOf d k).map (·.2) := by
        split at hx
        · exact (List.filter_sublist.map _).subset hx
        · exact hx
      obtain ⟨a, ha, rfl⟩ := List.mem_map.1 hx'
      have hne : listOf d k ≠ [] := fun h => by simp [h] at ha
      have : contains d up a.2 le = true := (contains_iff _ _ _ _).2 ⟨k, hq hne, a, ha, hlrf _⟩
      rw [hcon] at this; cases this
    · simpa [hkq] using hbase

/-- reflexivity is needed: with the irreflexive "proper subset … here `<` on numbers" the same pair is stored twice -/
example : listOf (offer (offer ([] : Data Nat Nat) [0] [0] (fun a b => decide (a < b)) 0 0 5) [0] [0] (fun a b => decide (a < b)) 1 0 5) 0
    = [(0, 5), (1, 5)] := by decide

/-! ### history of offers -/

/-- the loop of the algorithms: the node identities come from a counter that advances with every insertion -/
def runOffers (up down : κ → List κ) (le : β → β → Bool) (s : Data κ β × Nat) (xs : List (κ × β)) : Data κ β × Nat :=
  xs.foldl (fun s x =>
    if contains s.1 (up x.1) x.2 le then s else (offer s.1 (up x.1) (down x.1) le s.2 x.1 x.2, s.2 + 1)) s

/-- all identities are below the counter -/
def IdsBelow (d : Data κ β) (n : Nat) : Prop := ∀ k a, a ∈ listOf d k → a.1 < n

theorem idsBelow_offer {d : Data κ β} (hk : (keys d).Nodup) {n : Nat} (hb : IdsBelow d n)
    (up down : List κ) (le : β → β → Bool) (q : κ) (Q : β) : IdsBelow (offer d up down le n q Q) (n + 1) := by
  intro k a ha
  cases hcon : contains d up Q le with
  | true =>
    have : offer d up down le n q Q = d := by simp [offer, hcon]
    rw [this] at ha
    exact Nat.lt_succ_of_lt (hb k a ha)
  | false =>
    rw [mem_offer hk hcon] at ha
    rcases ha with ⟨ha1, _⟩ | ⟨_, ha2⟩
    · exact Nat.lt_succ_of_lt (hb k a ha1)
    · subst ha2; exact Nat.lt_succ_self _

/-- history theorem for `Antichain2Cv2` used the way the algorithms use it: after ANY sequence of offers the container is
well-formed, its node identities are unique, it is an antichain, and it stands for the old set plus the cones of all
pairs that were ever offered -/
theorem runOffers_spec {kle : κ → κ → Bool} {le : β → β → Bool} {up down : κ → List κ}
    (hktr : ∀ a b c, kle a b = true → kle b c = true → kle a c = true)
    (hltr : ∀ a b c, le a b = true → le b c = true → le a c = true)
    (hup : ∀ q p, p ∈ up q ↔ kle q p = true) (hdown : ∀ q p, p ∈ down q ↔ kle p q = true)
    (xs : List (κ × β)) {s : Data κ β × Nat} (hw : WF s.1) (hi : IdsOk s.1) (hb : IdsBelow s.1 s.2) (ha : Anti kle le s.1) :
    WF (runOffers up down le s xs).1 ∧ IdsOk (runOffers up down le s xs).1 ∧
      IdsBelow (runOffers up down le s xs).1 (runOffers up down le s xs).2 ∧
      Anti kle le (runOffers up down le s xs).1 ∧
      ∀ x X, Rep kle le (runOffers up down le s xs).1 x X ↔
        Rep kle le s.1 x X ∨ ∃ y, y ∈ xs ∧ Covers kle le y.1 y.2 x X := by
  induction xs generalizing s with
  | nil => simp [runOffers, hw, hi, hb, ha]
  | cons y ys ih =>
    have hc : CandOk kle s.1 (up y.1) (down y.1) y.1 := fun p _ => ⟨hup y.1 p, hdown y.1 p⟩
    let s' : Data κ β × Nat :=
      if contains s.1 (up y.1) y.2 le then s else (offer s.1 (up y.1) (down y.1) le s.2 y.1 y.2, s.2 + 1)
    have hs' : runOffers up down le s (y :: ys) = runOffers up down le s' ys := by simp [runOffers, s']
    have hoff : s'.1 = offer s.1 (up y.1) (down y.1) le s.2 y.1 y.2 := by
      simp only [s']
      split
      · rename_i hcon; simp [offer, hcon]
      · rfl
    have hw' : WF s'.1 := hoff ▸ wf_offer hw _ _ _ _ _ _
    have hi' : IdsOk s'.1 := hoff ▸ idsOk_offer hw hi (fun k a h => Nat.ne_of_lt (hb k a h)) _ _ _ _ _
    have hb' : IdsBelow s'.1 s'.2 := by
      simp only [s']
      split
      · exact hb
      · exact idsBelow_offer hw.1 hb _ _ _ _ _
    have ha' : Anti kle le s'.1 := hoff ▸ offer_anti hw.1 hc _ _ ha
    obtain ⟨i1, i2, i3, i4, i5⟩ := ih hw' hi' hb' ha'
    rw [hs']
    refine ⟨i1, i2, i3, i4, fun x X => ?_⟩
    rw [i5, hoff, offer_rep hw.1 hktr hltr hc]
    simp only [List.mem_cons]
    constructor
    · rintro ((h | h) | ⟨z, h, h'⟩)
      · exact Or.inl h
      · exact Or.inr ⟨y, Or.inl rfl, h⟩
      · exact Or.inr ⟨z, Or.inr h, h'⟩
    · rintro (h | ⟨z, h | h, h'⟩)
      · exact Or.inl (Or.inl h)
      · subst h; exact Or.inl (Or.inr h')
      · exact Or.inr ⟨z, h, h'⟩

/-- from the empty container; with reflexive orders, moreover, no pair is stored twice -/
theorem runOffers_empty {kle : κ → κ → Bool} {le : β → β → Bool} {up down : κ → List κ}
    (hktr : ∀ a b c, kle a b = true → kle b c = true → kle a c = true)
    (hltr : ∀ a b c, le a b = true → le b c = true → le a c = true)
    (hup : ∀ q p, p ∈ up q ↔ kle q p = true) (hdown : ∀ q p, p ∈ down q ↔ kle p q = true) (xs : List (κ × β)) :
    WF (runOffers up down le ([], 0) xs).1 ∧ IdsOk (runOffers up down le ([], 0) xs).1 ∧
      Anti kle le (runOffers up down le ([], 0) xs).1 ∧
      ∀ x X, Rep kle le (runOffers up down le ([], 0) xs).1 x X ↔ ∃ y, y ∈ xs ∧ Covers kle le y.1 y.2 x X := by
  obtain ⟨h1, h2, _, h4, h5⟩ := runOffers_spec hktr hltr hup hdown xs (s := ([], 0)) wf_nil idsOk_nil
    (by intro k a h; simp at h) (by intro k k' a b h; simp at h)
  refine ⟨h1, h2, h4, fun x X => ?_⟩
  rw [h5]; simp [Rep]

theorem runOffers_valsNodup {kle : κ → κ → Bool} {le : β → β → Bool} {up down : κ → List κ}
    (hkrf : ∀ a, kle a a = true) (hlrf : ∀ a, le a a = true)
    (hup : ∀ q p, p ∈ up q ↔ kle q p = true)
    (xs : List (κ × β)) {s : Data κ β × Nat} (hw : WF s.1) (hv : ValsNodup s.1) :
    ValsNodup (runOffers up down le s xs).1 := by
  induction xs generalizing s with
  | nil => simpa [runOffers] using hv
  | cons y ys ih =>
    let s' : Data κ β × Nat :=
      if contains s.1 (up y.1) y.2 le then s else (offer s.1 (up y.1) (down y.1) le s.2 y.1 y.2, s.2 + 1)
    have hs' : runOffers up down le s (y :: ys) = runOffers up down le s' ys := by simp [runOffers, s']
    have hoff : s'.1 = offer s.1 (up y.1) (down y.1) le s.2 y.1 y.2 := by
      simp only [s']
      split
      · rename_i hcon; simp [offer, hcon]
      · rfl
    rw [hs']
    exact ih (hoff ▸ wf_offer hw _ _ _ _ _ _)
      (hoff ▸ offer_valsNodup hw.1 hlrf (fun _ => (hup y.1 y.1).2 (hkrf _)) _ _ hv)

/-- transitivity is needed for the closure: keys all 0, numbers with `1 ≤ 2 ≤ 3` but not `1 ≤ 3` as the order on the
second component: offering 2 and then 1 drops 2, and 3 – which was covered by 2 – is not represented any more -/
example :
    let le : Nat → Nat → Bool := fun a b => a == b || (a, b) == (1, 2) || (a, b) == (2, 3)
    (runOffers (fun _ => [0]) (fun _ => [0]) le ([], 0) [(0, 2), (0, 1)]).1 = [(0, [(1, 1)])] ∧
      le 2 3 = true ∧ le 1 3 = false := by decide

/-! ### any history on a pool of objects -/

/-- what every object of the pool satisfies after any history: the representation invariant of `data_`, unique node
identities, all of them handed out by the counter -/
def PoolInv (P : Pool κ β) : Prop := ∀ d, d ∈ P.objs → WF d ∧ IdsOk d ∧ IdsBelow d P.next

theorem idsBelow_of_sublist {d d' : Data κ β} {n : Nat} (h : ∀ k, (listOf d' k).Sublist (listOf d k))
    (hb : IdsBelow d n) : IdsBelow d' n := fun k a ha => hb k a ((h k).subset ha)

theorem obj_inv {P : Pool κ β} (h : PoolInv P) (o : Nat) : WF (obj P o) ∧ IdsOk (obj P o) ∧ IdsBelow (obj P o) P.next := by
  unfold obj
  rw [List.getD_eq_getElem?_getD]
  cases ho : P.objs[o]? with
  | none => exact ⟨wf_nil, idsOk_nil, by intro k a h; simp at h⟩
  | some d => simpa using h d (List.mem_of_getElem? ho)

theorem setObj_inv {P : Pool κ β} (h : PoolInv P) (o : Nat) {d : Data κ β}
    (hd : WF d ∧ IdsOk d ∧ IdsBelow d P.next) : PoolInv (setObj P o d) := by
  intro d' hd'
  rcases List.mem_or_eq_of_mem_set hd' with h1 | h1
  · exact h d' h1
  · exact h1 ▸ hd

theorem bump_inv {P : Pool κ β} (h : PoolInv P) : PoolInv { P with next := P.next + 1 } := by
  intro d hd
  obtain ⟨h1, h2, h3⟩ := h d hd
  exact ⟨h1, h2, fun k a ha => Nat.lt_succ_of_lt (h3 k a ha)⟩

theorem step_inv (P : Pool κ β) (op : Op κ β) (h : PoolInv P) : PoolInv (step P op).1 := by
  cases op with
  | contains o c Q cmp => exact h
  | refine o c Q cmp =>
    obtain ⟨h1, h2, h3⟩ := obj_inv h o
    simp only [step, refine_fst]
    exact setObj_inv h o ⟨wf_refineD _ _ _ h1, idsOk_of_sublist (sublist_refineD _ _ _ h1.1) h2,
      idsBelow_of_sublist (sublist_refineD _ _ _ h1.1) h3⟩
  | insert o q Q =>
    obtain ⟨h1, h2, h3⟩ := obj_inv h o
    simp only [step]
    have hb := bump_inv h
    have : ({ setObj P o (insert (obj P o) P.next q Q) with next := P.next + 1 } : Pool κ β) =
        setObj { P with next := P.next + 1 } o (insert (obj P o) P.next q Q) := rfl
    rw [this]
    refine setObj_inv hb o ⟨wf_insert h1 _ _ _, idsOk_insert h2 (fun k a ha => Nat.ne_of_lt (h3 k a ha)) _ _, ?_⟩
    intro k a ha
    rw [listOf_insert] at ha
    split at ha
    · rcases List.mem_append.1 ha with ha | ha
      · exact Nat.lt_succ_of_lt (h3 _ a ha)
      · simp only [List.mem_singleton] at ha; subst ha; exact Nat.lt_succ_self _
    · exact Nat.lt_succ_of_lt (h3 _ a ha)
  | get o pick =>
    cases pick with
    | none => exact h
    | some k =>
      obtain ⟨h1, h2, h3⟩ := obj_inv h o
      simp only [step]
      cases hg : get (obj P o) k with
      | none => exact h
      | some x =>
        obtain ⟨n, d'⟩ := x
        exact setObj_inv h o ⟨wf_get h1 hg, idsOk_of_sublist (sublist_get h1.1 hg) h2,
          idsBelow_of_sublist (sublist_get h1.1 hg) h3⟩
  | remove o q i =>
    obtain ⟨h1, h2, h3⟩ := obj_inv h o
    exact setObj_inv h o ⟨wf_remove _ _ h1, idsOk_of_sublist (sublist_remove _ _ h1.1) h2,
      idsBelow_of_sublist (sublist_remove _ _ h1.1) h3⟩
  | lookup o k => exact h
  | size o => exact h
  | empty o => exact h
  | clear o => exact setObj_inv h o ⟨wf_nil, idsOk_nil, by intro k a h; simp at h⟩
  | swap o o' =>
    simp only [step]
    exact setObj_inv (setObj_inv h o (obj_inv h o')) o' (obj_inv h o)
  | offer o up down le q Q =>
    obtain ⟨h1, h2, h3⟩ := obj_inv h o
    simp only [step]
    split
    · exact h
    · have hb := bump_inv h
      have : ({ setObj P o (offer (obj P o) up down le P.next q Q) with next := P.next + 1 } : Pool κ β) =
          setObj { P with next := P.next + 1 } o (offer (obj P o) up down le P.next q Q) := rfl
      rw [this]
      exact setObj_inv hb o ⟨wf_offer h1 _ _ _ _ _ _, idsOk_offer h1 h2 (fun k a ha => Nat.ne_of_lt (h3 k a ha)) _ _ _ _ _,
        idsBelow_offer h1.1 h3 _ _ _ _ _⟩

/-- history theorem for the class as such: after ANY list of operations on a pool of initially empty containers, every
container satisfies the representation invariant (each key once, no key with an empty list – so `lookup` returns
`nullptr` exactly for the keys that store nothing) and its list nodes are pairwise different -/
theorem run_inv (ops : List (Op κ β)) {P : Pool κ β} (h : PoolInv P) : PoolInv (run P ops) := by
  induction ops generalizing P with
  | nil => exact h
  | cons op ops ih =>
    have : run P (op :: ops) = run (step P op).1 ops := by simp [run]
    rw [this]; exact ih (step_inv P op h)

theorem run_inv_init (ops : List (Op κ β)) (m : Nat) : PoolInv (run ⟨List.replicate m [], 0⟩ ops) := by
  apply run_inv
  intro d hd
  have : d = [] := (List.mem_replicate.1 hd).2
  subst this
  exact ⟨wf_nil, idsOk_nil, by intro k a h; simp at h⟩

end Vata.AC.Two
