import Vata.Proofs.NfaOpsCodedIsectSpec
import Vata.Proofs.NfaOpsCodedCand
/-!
# The coded operations with their final `RemoveUselessStates`: default values are never used, languages, refinement
-/
namespace Vata.NfaC
open Vata.W

theorem NfaSetEq.removeUseless {R N : NFA} (h : NfaSetEq R N) : NfaSetEq (nfaRemoveUseless R) (nfaRemoveUseless N) :=
  h.removeUnreachable.reverse.removeUnreachable.reverse

theorem nfaProdOn_setEq (A B : NFA) {K D : List (Nat × Nat)} (m : Nat × Nat → Nat) (h : ∀ p, p ∈ K ↔ p ∈ D) :
    NfaSetEq (nfaProdOn A B K m) (nfaProdOn A B D m) := by
  refine ⟨fun _ => Iff.rfl, ?_, ?_⟩
  · intro q
    rw [mem_nfaProdOn_final, mem_nfaProdOn_final]
    constructor
    · rintro ⟨p, hp, r⟩; exact ⟨p, (h p).mp hp, r⟩
    · rintro ⟨p, hp, r⟩; exact ⟨p, (h p).mpr hp, r⟩
  · rintro ⟨x, a, y⟩
    rw [mem_nfaProdOn_trans, mem_nfaProdOn_trans]
    constructor
    · rintro ⟨p, hp, r⟩; exact ⟨p, (h p).mp hp, r⟩
    · rintro ⟨p, hp, r⟩; exact ⟨p, (h p).mpr hp, r⟩

/-- the relation-level model of `Intersection`, unfolded: the trimmed product on `nfaIsectPairs`, numbered by position -/
theorem nfaIsect_eq (A B : NFA) :
    nfaIsect A B = nfaRemoveUseless (nfaProdOn A B (nfaIsectPairs A B) (fun p => (nfaIsectPairs A B).idxOf p)) := by
  unfold nfaIsect nfaIntersection
  simp only
  rw [if_pos (nfaPairIter_closed A B _ _ (List.length_filter_le _ _))]
  rfl

/-- the default value of `nfasIsectCoded` is never used -/
theorem nfasIsectCoded_eq {o : NfaOrd} (ho : o.Ok) (A B : NFAS) :
    ∃ st, nfasIsectCodedRaw o .fixed A B (isectFuel o .fixed A B) = some st ∧
      nfasIsectCoded o A B = (nfasUselessCoded o true st.res, st.tm) := by
  obtain ⟨st, hst⟩ := nfasIsectCodedRaw_total ho A B
  exact ⟨st, hst, by simp [nfasIsectCoded, nfasIsectCodedF, hst]⟩

/-- the default value of `nfasCandidateCoded` is never used -/
theorem nfasCandidateCoded_eq {o : NfaOrd} (ho : o.Ok) (A : NFAS) :
    ∃ r, nfasCandidateCodedRaw o true A (candFuel o A.toNFA) = some r ∧
      nfasCandidateCoded o A = nfasUselessCoded o true r := by
  obtain ⟨r, hr⟩ := nfasCandidateCodedRaw_total ho A true
  exact ⟨r, hr, by simp [nfasCandidateCoded, nfasCandidateCodedF, hr]⟩

theorem nfasUselessCoded_lang {o : NfaOrd} (ho : o.Ok) (f : Bool) (A : NFAS) (w : List Nat) :
    acceptsW (nfasUselessCoded o f A).toNFA w = acceptsW A.toNFA w := by
  rw [(nfasUselessCoded_setEq ho f A).lang w, nfaRemoveUseless_lang]

end Vata.NfaC

namespace Vata.NfaC
open Vata.W

/-! ### the start symbols of the product -/

theorem smFind_smInsert_of_some {m : SymMap} {n k : Nat} {S S' : List Nat} (h : smFind m n = some S') :
    smFind (smInsert m k S) n = some S' := by
  unfold smInsert
  split
  · exact h
  · exact NfaS.smFind_append_of_some h

theorem smFind_smInsert_new {m : SymMap} {k : Nat} {S : List Nat} (h : smHas m k = false) :
    smFind (smInsert m k S) k = some S := by
  unfold smInsert
  rw [if_neg (by simp [h])]
  have : smFind m k = none := by simpa [smHas] using h
  rw [NfaS.smFind_append_of_none this]
  simp [smFind]

theorem mem_smInsert {m : SymMap} {k : Nat} {S : List Nat} {e : Nat × List Nat} (h : e ∈ smInsert m k S) :
    e ∈ m ∨ e = (k, S) := by
  unfold smInsert at h
  split at h
  · exact Or.inl h
  · simpa using h

theorem isectInit_syms (A B : NFAS) : ∀ (ps : List (Nat × Nat)) (st : IsectSt), TmWF st.tm →
    (∀ e, e ∈ st.res.startSyms → e.1 < st.tm.length) →
    (∀ e, e ∈ (ps.foldl (isectInitStep A B) st).res.startSyms → e.1 < (ps.foldl (isectInitStep A B) st).tm.length) ∧
    (∀ n S, smFind st.res.startSyms n = some S → smFind (ps.foldl (isectInitStep A B) st).res.startSyms n = some S) ∧
    (∀ p, p ∈ ps → tmFind st.tm p = none → ∀ n, tmFind (ps.foldl (isectInitStep A B) st).tm p = some n →
      smFind (ps.foldl (isectInitStep A B) st).res.startSyms n = some (A.symsOf p.1 ++ B.symsOf p.2))
  | [], st, _, hb => ⟨hb, fun _ _ h => h, fun _ h => nomatch h⟩
  | p :: ps, st, hwf, hb => by
    rw [List.foldl_cons]
    have one := IsectInitSeg.one A B p st
    have seg := isectInitSeg_fold A B ps (isectInitStep A B st p)
    cases hf : tmFind st.tm p with
    | some k =>
      have e : isectInitStep A B st p =
          ⟨st.tm, (p, k) :: st.stack, nfasSetExistingStart st.res k (A.symsOf p.1 ++ B.symsOf p.2)⟩ := by
        simp [isectInitStep, tmInsert, hf]
      have hk : k < st.tm.length := by
        have kp := tmFind_mem_keys hf
        rw [tmFind_wf hwf, if_pos kp] at hf
        cases hf
        have := List.idxOf_lt_length_iff.mpr kp
        simpa [tmKeys] using this
      have hb1 : ∀ e', e' ∈ (isectInitStep A B st p).res.startSyms → e'.1 < (isectInitStep A B st p).tm.length := by
        rw [e]
        intro e' he'
        rcases mem_smInsert he' with h | h
        · exact hb e' h
        · rw [h]; exact hk
      obtain ⟨i1, i2, i3⟩ := isectInit_syms A B ps _ (one.wf hwf) hb1
      refine ⟨i1, fun n S h => i2 n S ?_, ?_⟩
      · rw [e]; exact smFind_smInsert_of_some h
      · intro q hq hqn n hn
        rcases List.mem_cons.mp hq with h | h
        · rw [h, hf] at hqn; cases hqn
        · refine i3 q h ?_ n hn
          rw [e]; exact hqn
    | none =>
      have e : isectInitStep A B st p =
          ⟨st.tm ++ [(p, st.tm.length)], (p, st.tm.length) :: st.stack,
            nfasSetExistingStart st.res st.tm.length (A.symsOf p.1 ++ B.symsOf p.2)⟩ := by
        simp [isectInitStep, tmInsert, hf]
      have hno : smHas st.res.startSyms st.tm.length = false := by
        rw [← Bool.not_eq_true, NfaS.smHas_iff_mem_keys]
        rintro ⟨e', he', h⟩
        have := hb e' he'
        omega
      have hb1 : ∀ e', e' ∈ (isectInitStep A B st p).res.startSyms → e'.1 < (isectInitStep A B st p).tm.length := by
        rw [e]
        intro e' he'
        simp only [List.length_append, List.length_cons, List.length_nil]
        rcases mem_smInsert he' with h | h
        · have := hb e' h; omega
        · rw [h]; simp
      obtain ⟨i1, i2, i3⟩ := isectInit_syms A B ps _ (one.wf hwf) hb1
      refine ⟨i1, fun n S h => i2 n S ?_, ?_⟩
      · rw [e]; exact smFind_smInsert_of_some h
      · intro q hq hqn n hn
        by_cases hqp : q = p
        · subst hqp
          have h1 : tmFind (isectInitStep A B st q).tm q = some st.tm.length := by
            rw [e]; exact tmFind_append_new hf
          have := (seg.mono _ _ h1).symm.trans hn
          cases this
          apply i2
          rw [e]
          exact smFind_smInsert_new hno
        · rcases List.mem_cons.mp hq with h | h
          · exact absurd h hqp
          · refine i3 q h ?_ n hn
            rw [e, tmFind_append_other hqp]; exact hqn

theorem isectBody_keep (o : NfaOrd) (A B : NFAS) (act : (Nat × Nat) × Nat) (st : IsectSt) :
    (isectBody o .fixed A B act st).res.startSyms = st.res.startSyms ∧
    ∀ q k, tmFind st.tm q = some k → tmFind (isectBody o .fixed A B act st).tm q = some k := by
  rw [isectBody_fixed]
  have step := isectStep_fold A.toNFA B.toNFA act.2 (isectFlat o A.toNFA B.toNFA act.1.1 act.1.2)
    (if A.final.contains act.1.1 && B.final.contains act.1.2 then ⟨st.tm, st.stack, nfasSetFinal st.res act.2⟩ else st)
  constructor
  · rw [step.same.2.2]; split <;> rfl
  · intro q k h
    apply step.mono
    split
    · exact h
    · exact h

theorem isectLoop_keep (o : NfaOrd) (A B : NFAS) : ∀ (fuel : Nat) (st st' : IsectSt),
    isectLoop o .fixed A B fuel st = some st' →
      st'.res.startSyms = st.res.startSyms ∧ ∀ q k, tmFind st.tm q = some k → tmFind st'.tm q = some k
  | 0, st, st', h => by
    simp only [isectLoop] at h
    split at h
    · cases h; exact ⟨rfl, fun _ _ h => h⟩
    · cases h
  | n + 1, st, st', h => by
    simp only [isectLoop] at h
    split at h
    · cases h; exact ⟨rfl, fun _ _ h => h⟩
    · rename_i act rest he
      obtain ⟨h1, h2⟩ := isectLoop_keep o A B n _ st' h
      obtain ⟨b1, b2⟩ := isectBody_keep o A B act ⟨st.tm, rest, st.res⟩
      exact ⟨h1.trans b1, fun q k hq => h2 q k (b2 q k hq)⟩

/-- the product before `RemoveUselessStates` carries at every pair of start states the union of the components' start
symbols (as `nfasProdSyms`), whatever the iteration orders -/
theorem nfasIsectCodedRaw_syms {o : NfaOrd} (ho : o.Ok) (A B : NFAS) (fuel : Nat) (st : IsectSt)
    (h : nfasIsectCodedRaw o .fixed A B fuel = some st) (p : Nat × Nat) (hp : p ∈ nfaStartPairs A.toNFA B.toNFA) :
    smFind st.res.startSyms (tmFun st.tm p) = some (A.symsOf p.1 ++ B.symsOf p.2) := by
  obtain ⟨k1, k2⟩ := isectLoop_keep o A B fuel _ st h
  rw [k1, isectInit_fixed]
  have hp' := (mem_isectInitPairs ho).mpr hp
  obtain ⟨_, _, i3⟩ := isectInit_syms A B (isectInitPairs o A.toNFA B.toNFA) ⟨[], [], nfasEmpty⟩ rfl
    (fun _ h => nomatch h)
  obtain ⟨n, hn⟩ := (isectInitSeg_fold A B (isectInitPairs o A.toNFA B.toNFA) ⟨[], [], nfasEmpty⟩).has p hp'
  have hn' : tmFind st.tm p = some n := k2 p n (by rw [isectInit_fixed]; exact hn)
  rw [tmFun_of_find hn']
  exact i3 p hp' rfl n hn

end Vata.NfaC
